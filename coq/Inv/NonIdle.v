(* NonIdle.v -- T2 for C05 (work conservation) on the engine model, for nodes with a finite number of servers: at every
   event boundary, if some customer of the node is waiting (has no server) then every server of the node is busy.
   With server exclusivity (Servers.v) this gives: the number of busy servers is min(c, number of customers at the node).
   What makes it true: accept starts the arriving customer when a server is free, release frees a server and immediately
   offers it to choose_next_customer's pick, and choose_next_customer finds nobody only when nobody is waiting.
   Proved for every configuration, every state satisfying the invariants, every oracle of draws. *)
From Coq Require Import ZArith List Bool Lia Permutation.
From RecordUpdate Require Import RecordUpdate.
From CiwV Require Import Sx Prelude Routing.
From CiwV.Engine Require Import State Engine Codec.
From CiwV.Inv Require Import Frame Conserve ConserveRun Servers.
Import ListNotations.
Open Scope Z_scope.

(* ---------- the invariant ---------- *)
(* per node, over the customers' entries (Servers.ient: None = no entry, Some None = entry without server = waiting):
   every customer of the node has an entry; and at a finite-server node, if a customer other than hc is waiting then every
   server other than hs is busy.  hs / hc are the server just freed by release / the customer just queued by accept, which
   begin_service_if_possible has not looked at yet; at event boundaries both are None. *)
Definition NOK (hs hc : option Z) (oc : option Z) (ids : list Z) (svs : list server) (e : Z -> option (option Z)) : Prop :=
  (forall i, In i ids -> e i <> None) /\
  (oc <> None -> forall i, In i ids -> e i = Some None -> Some i <> hc ->
     forall sv, In sv svs -> Some (sv_id sv) <> hs -> sv_busy sv = true).

Definition hole_at (k0 : nat) (h : option Z) (k : nat) : option Z := if Nat.eqb k k0 then h else None.
Definition NIx (cf : config) (k0 : nat) (hs hc : option Z) (s : sim) : Prop :=
  forall k nd nc, nth_error (nodes s) k = Some nd -> nth_error (cf_nodes cf) k = Some nc ->
    NOK (hole_at k0 hs k) (hole_at k0 hc k) (nc_c nc) (all_individuals nd) (n_servers nd) (ient (inds s)).
Definition NI (cf : config) (s : sim) : Prop := NIx cf 0 None None s.

(* the invariant of the step theorem: conservation, server exclusivity, work conservation *)
Definition NIInv (cf : config) (s : sim) : Prop := SrvInv cf s /\ NI cf s.

Lemma hole_none k0 k : hole_at k0 None k = None.
Proof. unfold hole_at. destruct (Nat.eqb k k0); reflexivity. Qed.
Lemma hole_same k h : hole_at k h k = h.
Proof. unfold hole_at. rewrite Nat.eqb_refl. reflexivity. Qed.
Lemma hole_other k0 h k : k <> k0 -> hole_at k0 h k = None.
Proof. intros H. unfold hole_at. destruct (Nat.eqb k k0) eqn:E; [apply Nat.eqb_eq in E; contradiction|reflexivity]. Qed.

Lemma NI_any cf k s : NI cf s <-> NIx cf k None None s.
Proof. unfold NI, NIx. split; intros H k' nd nc Hk Hc; specialize (H k' nd nc Hk Hc); rewrite !hole_none in *; exact H. Qed.

(* ---------- NOK under changes ---------- *)
Lemma NOK_ext hs hc oc ids ids' svs svs' e e' :
  (forall i, In i ids' <-> In i ids) -> map score svs' = map score svs -> (forall i, In i ids -> e' i = e i) ->
  NOK hs hc oc ids svs e -> NOK hs hc oc ids' svs' e'.
Proof.
  intros Hi Hs He [A B]. split.
  - intros i Hin. apply Hi in Hin. rewrite (He _ Hin). apply A. exact Hin.
  - intros Hoc i Hin Hw Hh sv' Hsv' Hhs. apply Hi in Hin. rewrite (He _ Hin) in Hw.
    apply (in_map score) in Hsv'. rewrite Hs in Hsv'. apply in_map_iff in Hsv'. destruct Hsv' as (sv & E & Hsv).
    unfold score in E. injection E as E1 E2 E3. rewrite <- E3. apply (B Hoc i Hin Hw Hh sv Hsv). rewrite E1. exact Hhs.
Qed.
Lemma NOK_inf hs hc hs' hc' ids svs e : NOK hs hc None ids svs e -> NOK hs' hc' None ids svs e.
Proof. intros [A _]. split; [exact A|]. intros H. contradiction. Qed.
Lemma NOK_sub oc ids ids' svs e : (forall i, In i ids' -> In i ids) -> NOK None None oc ids svs e -> NOK None None oc ids' svs e.
Proof. intros Hi [A B]. split; [intros i Hin; apply A, Hi, Hin|]. intros Hoc i Hin Hw Hh sv Hsv Hhs. eapply B; eauto. Qed.
Lemma NOK_nowait oc ids svs e : (forall i, In i ids -> e i <> None) -> (forall i, In i ids -> e i <> Some None) -> NOK None None oc ids svs e.
Proof. intros A Hn. split; [exact A|]. intros _ i Hin Hw. exfalso. eapply Hn; eauto. Qed.
Lemma NOK_allbusy hs hc oc ids svs e : (forall i, In i ids -> e i <> None) -> (forall sv, In sv svs -> sv_busy sv = true) -> NOK hs hc oc ids svs e.
Proof. intros A Hb. split; [exact A|]. intros _ i _ _ _ sv Hsv _. apply Hb, Hsv. Qed.

(* accept: the new customer i is queued, nobody has looked at it yet *)
Lemma NOK_add_cust oc ids ids' svs e i : (forall i', In i' ids' <-> i' = i \/ In i' ids) -> e i <> None ->
  NOK None None oc ids svs e -> NOK None (Some i) oc ids' svs e.
Proof.
  intros Hi He [A B]. split.
  - intros i' Hin. apply Hi in Hin. destruct Hin as [->|Hin]; auto.
  - intros Hoc i' Hin Hw Hh sv Hsv Hhs. apply Hi in Hin. destruct Hin as [->|Hin]; [congruence|]. eapply B; eauto. discriminate.
Qed.

(* release: customer leaves, its server sid is freed and nobody has been offered it yet *)
Lemma NOK_rel oc ids ids' svs e sv' : (forall i, In i ids' -> In i ids) -> NoDup (map sv_id svs) -> In (sv_id sv') (map sv_id svs) ->
  NOK None None oc ids svs e -> NOK (Some (sv_id sv')) None oc ids' (put_server_l sv' svs) e.
Proof.
  intros Hi HN Hin [A B]. split; [intros i Hi'; apply A, Hi, Hi'|].
  intros Hoc i Hi' Hw _ sv Hsv Hhs. apply (in_put_server_l sv' svs HN Hin) in Hsv. destruct Hsv as [->|[Hsv _]]; [congruence|].
  eapply B; eauto; discriminate.
Qed.

(* begin_service_if_possible after accept: a server is free, so the only customer who can be waiting is the new one, and it is started *)
Lemma NOK_start_acc oc ids svs e e' i c sv0 sv' sid :
  NOK None (Some i) oc ids svs e -> In sv0 svs -> sv_busy sv0 = false -> In c ids -> e c = Some None ->
  (forall i', e' i' = if i' =? c then Some (Some sid) else e i') ->
  NOK None None oc ids (put_server_l sv' svs) e'.
Proof.
  intros [A B] H0 Hb0 Hc Hwc He'. split.
  - intros i' Hin. rewrite He'. destruct (i' =? c); [discriminate|auto].
  - intros Hoc i' Hin Hw _ sv Hsv _. exfalso. rewrite He' in Hw. destruct (i' =? c) eqn:E; [discriminate|]. apply Z.eqb_neq in E.
    assert (Hall : exists w, In w ids /\ e w = Some None /\ Some w <> Some i).
    { destruct (Z.eq_dec i' i) as [->|Hne]; [exists c; split; [exact Hc|split; [exact Hwc|congruence]]|exists i'; split; [exact Hin|split; [exact Hw|congruence]]]. }
    destruct Hall as (w & Hw1 & Hw2 & Hw3). pose proof (B Hoc w Hw1 Hw2 Hw3 sv0 H0 ltac:(discriminate)) as Hbusy. congruence.
Qed.

(* begin_service_if_possible after release: the freed server is busy again *)
Lemma NOK_start_rel oc ids svs e e' c sv' sid :
  NOK (Some (sv_id sv')) None oc ids svs e -> NoDup (map sv_id svs) -> In (sv_id sv') (map sv_id svs) -> sv_busy sv' = true ->
  (forall i', e' i' = if i' =? c then Some (Some sid) else e i') ->
  NOK None None oc ids (put_server_l sv' svs) e'.
Proof.
  intros [A B] HN Hin Hb He'. split.
  - intros i' Hi'. rewrite He'. destruct (i' =? c); [discriminate|auto].
  - intros Hoc i' Hi' Hw _ sv Hsv _. rewrite He' in Hw. destruct (i' =? c) eqn:E; [discriminate|].
    apply (in_put_server_l sv' svs HN Hin) in Hsv. destruct Hsv as [->|[Hsv Hne]]; [exact Hb|].
    eapply B; eauto; [discriminate|congruence].
Qed.

(* ---------- the invariant under steps of the state ---------- *)
Section NonIdle.
  Variable cf : config.

  Lemma NIx_K k0 hs hc s s' : K s s' -> NIx cf k0 hs hc s -> NIx cf k0 hs hc s'.
  Proof.
    intros HK HS k nd' nc Hk Hc. destruct (K_nth _ _ _ _ HK Hk) as (nd & Hn & Hsh & Hsc).
    eapply NOK_ext; [| | |exact (HS k nd nc Hn Hc)].
    - intros i. rewrite (nshape_all _ _ Hsh). tauto.
    - exact Hsc.
    - intros i _. apply (K_ient _ _ HK).
  Qed.
  Lemma NI_K s s' : K s s' -> NI cf s -> NI cf s'.
  Proof. apply NIx_K. Qed.

  Lemma NIx_step s s' k nd nd0 hs hc hs' hc' : nodes s' = upd (nodes s) k nd -> nth_error (nodes s) k = Some nd0 -> NIx cf k hs hc s ->
    (forall nc, nth_error (cf_nodes cf) k = Some nc ->
       NOK hs hc (nc_c nc) (all_individuals nd0) (n_servers nd0) (ient (inds s)) ->
       NOK hs' hc' (nc_c nc) (all_individuals nd) (n_servers nd) (ient (inds s'))) ->
    (forall k' nd' i, k' <> k -> nth_error (nodes s) k' = Some nd' -> In i (all_individuals nd') -> ient (inds s') i = ient (inds s) i) ->
    NIx cf k hs' hc' s'.
  Proof.
    intros Hn Hk HS Hnode Hoth k1 nd1 nc Hk1 Hc. rewrite Hn in Hk1. destruct (Nat.eq_dec k k1) as [<-|Hne].
    - rewrite (nth_error_upd_eq _ _ _ _ Hk) in Hk1. injection Hk1 as <-. rewrite !hole_same. apply Hnode; [exact Hc|].
      pose proof (HS k nd0 nc Hk Hc) as H0. rewrite !hole_same in H0. exact H0.
    - rewrite nth_error_upd_neq in Hk1 by exact Hne. pose proof (HS k1 nd1 nc Hk1 Hc) as H0.
      rewrite !hole_other in * by congruence.
      eapply NOK_ext; [| | |exact H0]; [tauto|reflexivity|]. intros i Hi. eapply Hoth; [|exact Hk1|exact Hi]. congruence.
  Qed.
  Lemma NIx_inds k0 hs hc s s' : nodes s' = nodes s ->
    (forall k nd i, nth_error (nodes s) k = Some nd -> In i (all_individuals nd) -> ient (inds s') i = ient (inds s) i) ->
    NIx cf k0 hs hc s -> NIx cf k0 hs hc s'.
  Proof.
    intros Hn Hf HS k nd nc Hk Hc. rewrite Hn in Hk.
    eapply NOK_ext; [| | |exact (HS k nd nc Hk Hc)]; [tauto|reflexivity|]. intros i Hi. eapply Hf; eauto.
  Qed.
  (* closing the holes at node k *)
  Lemma NIx_node k hs hc s : NIx cf k hs hc s ->
    (forall nd nc, nth_error (nodes s) k = Some nd -> nth_error (cf_nodes cf) k = Some nc ->
       NOK hs hc (nc_c nc) (all_individuals nd) (n_servers nd) (ient (inds s)) ->
       NOK None None (nc_c nc) (all_individuals nd) (n_servers nd) (ient (inds s))) -> NI cf s.
  Proof.
    intros HS Hnode. apply (NI_any cf k). intros k1 nd nc Hk1 Hc. rewrite !hole_none. pose proof (HS k1 nd nc Hk1 Hc) as H0.
    destruct (Nat.eq_dec k1 k) as [->|Hne].
    - rewrite !hole_same in H0. eapply Hnode; eauto.
    - rewrite !hole_other in H0 by exact Hne. exact H0.
  Qed.

  (* ---------- service starts ---------- *)
  Lemma isv_none_ient il c : isv il c = None -> ient il c <> None -> ient il c = Some None.
  Proof. rewrite isv_ient. destruct (ient il c) as [[z|]|]; intros H H'; congruence. Qed.
  Lemma find_free_server_none l : find_free_server l = None -> forall sv, In sv l -> sv_busy sv = true.
  Proof.
    induction l as [|y r IH]; cbn; intros H sv Hsv; [destruct Hsv|]. destruct (sv_busy y) eqn:E; [|discriminate].
    destruct Hsv as [<-|Hsv]; auto.
  Qed.
  Lemma free_in_find svs sid : free_in svs sid -> exists sv, find_server sid svs = Some sv.
  Proof.
    intros (sv0 & Hin & Hid & _). induction svs as [|y r IH]; [destruct Hin|]. cbn. destruct (sv_id y =? sid) eqn:E; [eauto|].
    destruct Hin as [<-|Hin]; [apply Z.eqb_neq in E; contradiction|auto].
  Qed.

  Lemma start_service_ni j c sv fl s s' k nd nc hs hc :
    WFx fl s -> NIx cf k hs hc s -> j - 1 = Z.of_nat k -> nth_error (nodes s) k = Some nd -> nth_error (cf_nodes cf) k = Some nc ->
    In c (all_individuals nd) ->
    (forall sv' e', sv_id sv' = sv_id sv -> sv_busy sv' = true ->
       (forall i, e' i = if i =? c then Some (Some (sv_id sv)) else ient (inds s) i) ->
       NOK hs hc (nc_c nc) (all_individuals nd) (n_servers nd) (ient (inds s)) ->
       NOK None None (nc_c nc) (all_individuals nd) (put_server_l sv' (n_servers nd)) e') ->
    start_service j c (Some sv) s = Ok (tt, s') -> NI cf s'.
  Proof.
    intros HW HN Hj Hk Hc Hin Htr H.
    assert (Hidn : n_id nd = j) by (pose proof (WFx_Idx _ _ HW k nd Hk); lia).
    destruct (start_service_decomp _ _ _ _ _ _ _ Hj Hk Hidn H) as (ndk & sv' & En & Hsh & Hsv & A1 & A2 & A3 & A4 & He & _).
    apply (NI_any cf k). eapply NIx_step; [exact En|exact Hk|exact HN| |].
    - intros nc' Hc'. rewrite Hc in Hc'. injection Hc' as <-. intros H0. rewrite (nshape_all _ _ Hsh), Hsv. eapply Htr; eauto.
    - intros k' nd' i Hne Hk' Hi. rewrite He. destruct (i =? c) eqn:E; [|reflexivity]. apply Z.eqb_eq in E. subst i.
      exfalso. apply Hne. eapply WFx_one_node; [exact HW|exact Hk'|exact Hk|exact Hi|exact Hin].
  Qed.

  Lemma score_in svs svs' sv : map score svs' = map score svs -> In sv svs -> exists sv0, In sv0 svs' /\ score sv0 = score sv.
  Proof. intros Hs H. apply (in_map score) in H. rewrite <- Hs in H. apply in_map_iff in H. destruct H as (sv0 & E & H). eauto. Qed.

  Lemma bsip_accept_ni j i fl s s' k : WFx fl s -> Srv cf s -> NIx cf k None (Some i) s -> j - 1 = Z.of_nat k ->
    begin_service_if_possible_accept cf j i s = Ok (tt, s') -> NI cf s'.
  Proof.
    intros HW HS HN Hj H. pose proof (WFx_Idx _ _ HW) as HI.
    destruct (bsip_accept_decomp _ _ _ _ _ HI H) as (s0 & k' & nd & nc & K0 & Hj' & Hnk & Hc & Hcase).
    assert (k' = k) by lia. subst k'. clear Hj'.
    pose proof (K_WFx _ _ _ K0 HW) as W0. pose proof (Srv_K _ _ _ K0 HS) as S0. pose proof (NIx_K _ _ _ _ _ K0 HN) as N0.
    pose proof (K_Idx _ _ K0 HI) as I0.
    pose proof (N0 k nd nc Hnk Hc) as Hnode. rewrite !hole_same in Hnode.
    assert (Hfin : forall s1, K s0 s1 -> NOK None None (nc_c nc) (all_individuals nd) (n_servers nd) (ient (inds s0)) -> NI cf s1).
    { intros s1 K1 HOK. eapply NI_K; [exact K1|]. eapply NIx_node; [exact N0|]. intros nd' nc' Hk' Hc' _.
      rewrite Hnk in Hk'. injection Hk' as <-. rewrite Hc in Hc'. injection Hc' as <-. exact HOK. }
    destruct (nc_c nc) as [c0|] eqn:Ec0.
    - destruct Hcase as (cand & s1 & Hch & Hrest). destruct cand as [c|].
      + destruct (choose_spec _ _ _ _ _ I0 Hch) as (K1 & Hin & Hnone).
        assert (Hw : ient (inds s0) c = Some None) by (apply isv_none_ient; [exact Hnone|apply (proj1 Hnode); exact Hin]).
        destruct (find_free_server (n_servers nd)) as [sv|] eqn:Eff.
        * apply find_free_server_In in Eff as [Hsv Hbusy].
          destruct (K_sym_nth _ _ _ _ K1 Hnk) as (nd1 & Hnk1 & Hsh1 & Hsc1).
          destruct (score_in _ _ _ Hsc1 Hsv) as (sv0 & Hsv0 & Esc). unfold score in Esc. injection Esc as E1 E2 E3.
          eapply start_service_ni with (hs := None) (hc := Some i);
            [exact (K_WFx _ _ _ K1 W0)|exact (NIx_K _ _ _ _ _ K1 N0)|exact Hj|exact Hnk1|exact Hc|rewrite (nshape_all _ _ Hsh1); exact Hin| |exact Hrest].
          intros sv' e' A1 A2 He' HOK. rewrite Ec0 in *.
          eapply NOK_start_acc; [exact HOK|exact Hsv0|congruence|rewrite (nshape_all _ _ Hsh1); exact Hin| |exact He'].
          rewrite (K_ient _ _ K1). exact Hw.
        * subst s'. apply Hfin; [exact K1|]. apply NOK_allbusy; [exact (proj1 Hnode)|]. apply find_free_server_none. exact Eff.
      + assert (s' = s1) by (destruct (find_free_server (n_servers nd)); exact Hrest). subst s'.
        destruct (choose_none_spec _ _ _ _ I0 Hch) as (K1 & Hnw).
        apply Hfin; [exact K1|]. apply NOK_nowait; [exact (proj1 Hnode)|exact Hnw].
    - apply Hfin; [exact Hcase|]. eapply NOK_inf; exact Hnode.
  Qed.

  Lemma bsip_release_ni j freed fl s s' k nc : WFx fl s -> Srv cf s -> j - 1 = Z.of_nat k -> nth_error (cf_nodes cf) k = Some nc ->
    NIx cf k freed None s ->
    (forall sid, freed = Some sid -> exists nd, nth_error (nodes s) k = Some nd /\ free_in (n_servers nd) sid) ->
    begin_service_if_possible_release cf j freed s = Ok (tt, s') -> NI cf s'.
  Proof.
    intros HW HS Hj Hc HN Hfr H. unfold begin_service_if_possible_release in H.
    pose proof (WFx_Idx _ _ HW) as HI.
    destruct freed as [sid|]; [|apply ret_spec in H as [-> _]; apply (NI_any cf k); exact HN].
    destruct (Hfr sid eq_refl) as (nd & Hk & Hfree).
    mstep H. rewrite Hj, nthZ_of_nat, Hk in Hn. injection Hn as <-.
    destruct (free_in_find _ _ Hfree) as (sv & Efs). rewrite Efs in H.
    apply find_server_In in Efs as [Hsv Hsid].
    pose proof (HN k nd nc Hk Hc) as Hnode. rewrite !hole_same in Hnode.
    mstep H.
    match type of H with (match ?cand with _ => _ end) _ = _ => destruct cand as [c|] end.
    - destruct (choose_spec _ _ _ _ _ HI E) as (K1 & Hin & Hnone).
      assert (Hw : ient (inds s) c = Some None) by (apply isv_none_ient; [exact Hnone|apply (proj1 Hnode); exact Hin]).
      destruct (K_sym_nth _ _ _ _ K1 Hk) as (nd1 & Hnk1 & Hsh1 & Hsc1).
      pose proof (Srv_K _ _ _ K1 HS k nd1 nc Hnk1 Hc) as HF.
      eapply start_service_ni with (hs := Some sid) (hc := None);
        [exact (K_WFx _ _ _ K1 HW)|exact (NIx_K _ _ _ _ _ K1 HN)|exact Hj|exact Hnk1|exact Hc|rewrite (nshape_all _ _ Hsh1); exact Hin| |exact H].
      intros sv' e' A1 A2 He' HOK. destruct (nc_c nc) as [c0|] eqn:Ec0.
      + cbn in HF. rewrite <- Hsid, <- A1 in HOK.
        eapply NOK_start_rel; [exact HOK|exact (fo_nodup _ _ _ _ HF)| |exact A2|exact He'].
        rewrite A1. destruct (score_in _ _ _ Hsc1 Hsv) as (sv0 & Hsv0 & Esc). unfold score in Esc. injection Esc as E1 E2 E3.
        rewrite <- E1. apply in_map. exact Hsv0.
      + split; [|intros Hx; contradiction]. intros i' Hi'. rewrite He'. destruct (i' =? c); [discriminate|]. apply (proj1 HOK). exact Hi'.
    - apply ret_spec in H as [-> _]. destruct (choose_none_spec _ _ _ _ HI E) as (K1 & Hnw).
      eapply NI_K; [exact K1|]. eapply NIx_node; [exact HN|]. intros nd' nc' Hk' Hc' _.
      rewrite Hk in Hk'. injection Hk' as <-. rewrite Hc in Hc'. injection Hc' as <-.
      apply NOK_nowait; [exact (proj1 Hnode)|exact Hnw].
  Qed.

  (* ---------- a customer in flight lands ---------- *)
  Lemma accept_ni j x fl s s' : WFx (i_id x :: fl) s -> Srv cf s -> NI cf s -> i_server x = None -> accept cf j x s = Ok (tt, s') -> NI cf s'.
  Proof.
    intros HW HS HN Hx H. destruct (accept_decomp _ _ _ _ _ _ HW H) as (k & nd & ndk & s1 & Hk & Hnk & En & Hsv & Hmem & He & W1 & _ & Hb).
    assert (S1 : Srv cf s1) by (eapply accept_mid_srv; eauto).
    assert (Hfly : forall k' nd' i', nth_error (nodes s) k' = Some nd' -> In i' (all_individuals nd') -> ient (inds s1) i' = ient (inds s) i').
    { intros k' nd' i' Hk' Hi'. rewrite He. destruct (i' =? i_id x) eqn:E; [|reflexivity]. apply Z.eqb_eq in E. subst i'.
      exfalso. eapply WFx_flying; [exact HW|left; reflexivity|exact Hk'|exact Hi']. }
    eapply bsip_accept_ni; [exact W1|exact S1| |exact Hk|exact Hb].
    eapply NIx_step; [exact En|exact Hnk|apply (NI_any cf k); exact HN| |].
    - intros nc Hc HOK. rewrite Hsv. eapply NOK_add_cust; [exact Hmem|rewrite He, Z.eqb_refl; discriminate|].
      eapply NOK_ext; [| | |exact HOK]; [tauto|reflexivity|]. intros i' Hi'. eapply Hfly; eauto.
    - intros k' nd' i' _ Hk' Hi'. eapply Hfly; eauto.
  Qed.

  Lemma exit_accept_ni x c fl s s' : WFx (i_id x :: fl) s -> NI cf s -> exit_accept x c s = Ok (tt, s') -> NI cf s'.
  Proof.
    intros HW HN H. unfold exit_accept in H. mstep H. dtt.
    unfold del_ind, modify in E. inversion E. subst s0. clear E.
    unfold modify in H. inversion H. subst s'. clear H.
    match goal with |- NI cf ?s2 => refine (NIx_inds 0%nat None None s s2 _ _ HN) end; [reflexivity|]. intros k nd i Hk Hi. cbn. apply ient_del.
    intros ->. eapply WFx_flying; [exact HW|left; reflexivity|exact Hk|exact Hi].
  Qed.

  (* ---------- release and the unblocking cascade ---------- *)
  Lemma release_ni : forall f j i d fl s s', WFx fl s -> Srv cf s -> NI cf s -> release cf f j i d s = Ok (tt, s') -> NI cf s'.
  Proof.
    induction f as [|f IH]; intros j i d fl s s' HW HS HN H; [discriminate|].
    destruct (release_decomp _ _ _ _ _ _ _ _ HW H) as
      (k & nd & nc & x & ndk & x3 & freed & t4 & t5 & t6 & Hk & Hnk & Hc & Hf & Hx3i & Hmem & W4 & W5 & W6 & En4 & Hf4 & Hlog & Hcase & Ebs & Eacc & Hrest).
    destruct (release_mid_srv _ _ _ _ _ _ _ _ _ _ _ _ HW HS Hnk Hc Hf Hmem W4 En4 Hf4 Hcase) as (S4 & Hx3 & Hfree).
    assert (S5 : Srv cf t5) by (eapply bsip_release_srv; [exact W4|exact S4|exact Hk|exact Hc|exact Hfree|exact Ebs]).
    assert (Hni : ~ In i (all_individuals ndk)).
    { eapply (WFx_flying _ _ k _ i W4); [left; reflexivity|rewrite En4; eapply nth_error_upd_eq; exact Hnk]. }
    assert (Hoth : forall i', i' <> i -> ient (inds t4) i' = ient (inds s) i').
    { intros i' Hne. rewrite Hf4. destruct (i' =? i) eqn:E; [apply Z.eqb_eq in E; contradiction|reflexivity]. }
    (* the customer has left and its server is free: work conservation holds except for that server *)
    assert (N4 : NIx cf k freed None t4).
    { eapply NIx_step; [exact En4|exact Hnk|apply (NI_any cf k); exact HN| |].
      - intros nc' Hc'. rewrite Hc in Hc'. injection Hc' as <-. intros HOK.
        eapply NOK_ext with (ids := all_individuals ndk) (svs := n_servers ndk) (e := ient (inds s)); [tauto|reflexivity| |].
        { intros i' Hi'. apply Hoth. intros ->. contradiction. }
        pose proof (HS k nd nc Hnk Hc) as HF.
        destruct (nc_c nc) as [c0|] eqn:Ec0.
        + destruct Hcase as (sid & sv & sv' & A1 & A2 & A3 & A4 & A5 & A6 & A7 & A8). rewrite A1, A4, <- A5. cbn in HF.
          eapply NOK_rel with (ids := all_individuals nd); [intros i' Hi'; apply Hmem; right; exact Hi'|exact (fo_nodup _ _ _ _ HF)| |exact HOK].
          rewrite A5, <- (proj2 (find_server_In _ _ _ A3)). apply in_map. apply (find_server_In _ _ _ A3).
        + destruct Hcase as (A1 & A2 & A3). rewrite A1, A2. eapply NOK_sub; [|exact HOK]. intros i' Hi'. apply Hmem. right. exact Hi'.
      - intros k' nd' i' Hne Hk' Hi'. apply Hoth. intros ->. apply Hne.
        eapply WFx_one_node; [exact HW|exact Hk'|exact Hnk|exact Hi'|apply Hmem; left; reflexivity]. }
    assert (N5 : NI cf t5).
    { eapply bsip_release_ni; [exact W4|exact S4|exact Hk|exact Hc|exact N4| |exact Ebs].
      intros sid Hs. destruct (Hfree sid Hs) as (_ & nd' & A & B). eauto. }
    assert (C6 : Srv cf t6 /\ NI cf t6).
    { rewrite <- Hx3i in W5. destruct (d =? 0); [split; [eapply exit_accept_srv; eauto|eapply exit_accept_ni; eauto]
                                               |split; [eapply accept_srv; eauto|eapply accept_ni; eauto]]. }
    destruct C6 as [S6 N6].
    destruct Hrest as [->|(t7 & from & y & K7 & Hr)]; [exact N6|].
    eapply IH; [exact (K_WFx _ _ _ K7 W6)|exact (Srv_K _ _ _ K7 S6)|exact (NI_K _ _ K7 N6)|exact Hr].
  Qed.

  Lemma finish_service_ni j fl s s' : WFx fl s -> Srv cf s -> NI cf s -> finish_service cf j s = Ok (tt, s') -> NI cf s'.
  Proof.
    intros HW HS HN H. destruct (finish_service_decomp _ _ _ _ (WFx_Idx _ _ HW) H) as (s1 & K1 & [K2|(f & i & d & Hr)]).
    - exact (NI_K _ _ K2 (NI_K _ _ K1 HN)).
    - eapply release_ni; [exact (K_WFx _ _ _ K1 HW)|exact (Srv_K _ _ _ K1 HS)|exact (NI_K _ _ K1 HN)|exact Hr].
  Qed.

  (* ---------- the arrival node ---------- *)
  Lemma release_individual_ni j x fl s s' : WFx (i_id x :: fl) s -> Srv cf s -> NI cf s -> i_server x = None ->
    release_individual cf j x s = Ok (tt, s') -> NI cf s'.
  Proof.
    intros HW HS HN Hx H.
    destruct (release_individual_decomp _ _ _ _ _ (WFx_Idx _ _ HW) H) as (s0 & s1 & En & Es & Ei & _ & K1 & Hc).
    assert (W0 : WFx (i_id x :: fl) s0) by (eapply WFx_shape; eauto).
    assert (Hfly : forall k nd i, nth_error (nodes s) k = Some nd -> In i (all_individuals nd) -> i <> i_id x).
    { intros k nd i Hk Hi ->. eapply WFx_flying; [exact HW|left; reflexivity|exact Hk|exact Hi]. }
    assert (S0 : Srv cf s0).
    { eapply Srv_inds; [exact En| |exact HS]. intros k nd i Hk Hi. rewrite Ei, isv_put.
      destruct (i =? i_id x) eqn:E; [|reflexivity]. apply Z.eqb_eq in E. exfalso. eapply Hfly; eauto. }
    assert (N0 : NI cf s0).
    { eapply NIx_inds; [exact En| |exact HN]. intros k nd i Hk Hi. rewrite Ei, ient_put.
      destruct (i =? i_id x) eqn:E; [|reflexivity]. apply Z.eqb_eq in E. exfalso. eapply Hfly; eauto. }
    pose proof (K_WFx _ _ _ K1 W0) as W1. pose proof (Srv_K _ _ _ K1 S0) as S1. pose proof (NI_K _ _ K1 N0) as N1.
    destruct Hc as [[b Hc]|Hc]; [eapply exit_accept_ni; eauto|eapply accept_ni; eauto].
  Qed.

  Lemma batch_loop_ni : forall n j c p s s', WFx [] s -> Srv cf s -> NI cf s -> batch_loop cf n j c p s = Ok (tt, s') ->
    WFx [] s' /\ Srv cf s' /\ NI cf s'.
  Proof.
    induction n as [|n IH]; intros j c p s s' HW HS HN H; cbn [batch_loop] in H; [apply ret_spec in H as [-> _]; auto|].
    mstep H. dtt.
    match goal with E : modify _ s = Ok (_, ?s1) |- _ =>
      assert (C1 : WFx [a_created (arr s) + 1] s1 /\ a_created (arr s1) = a_created (arr s) + 1 /\ Srv cf s1 /\ NI cf s1) by
        (unfold modify in E; inversion E; subst; split; [unfold WFx, shp in *; cbn; apply WFsh_spawn; exact HW|split; [reflexivity|split; [exact HS|exact HN]]]);
      destruct C1 as (W1 & Ec & S1 & N1); clear HW HS HN E end.
    mstep H. mstep H. dtt.
    match goal with E : release_individual _ ?jj ?xx ?s0 = Ok (tt, ?s1) |- _ =>
      assert (W1' : WFx (i_id xx :: []) s0) by (cbn [new_ind i_id]; rewrite Ec; exact W1);
      assert (W2 : WFx [] s1) by (eapply release_individual_spec; [exact W1'|exact E]);
      assert (S2 : Srv cf s1) by (exact (release_individual_srv cf jj xx [] s0 s1 W1' S1 eq_refl E));
      assert (N2 : NI cf s1) by (exact (release_individual_ni jj xx [] s0 s1 W1' S1 N1 eq_refl E)) end.
    eapply IH; eauto.
  Qed.

  Lemma arrival_have_event_ni s s' : WFx [] s -> Srv cf s -> NI cf s -> arrival_have_event cf s = Ok (tt, s') -> NI cf s'.
  Proof.
    intros HW HS HN H. destruct (arrival_have_event_decomp _ _ _ (WFx_Idx _ _ HW) H) as (s1 & s2 & n & j & c & p & K1 & Hb & K2).
    destruct (batch_loop_ni _ _ _ _ _ _ (K_WFx _ _ _ K1 HW) (Srv_K _ _ _ K1 HS) (NI_K _ _ K1 HN) Hb) as (W2 & S2 & N2).
    exact (NI_K _ _ (K2 (WFx_Idx _ _ W2)) N2).
  Qed.

  (* ---------- T2 for C05: one event, then any number ---------- *)
  Theorem event_step_ni s s' : NIInv cf s -> event_step cf s = Ok (tt, s') -> NIInv cf s'.
  Proof.
    intros [HJ HN] H. split; [eapply event_step_srv; eauto|]. destruct HJ as [HW HS].
    destruct (event_step_decomp _ _ _ H) as (s2 & Hev & K2).
    assert (W1 : WFx [] (s <| log := [] |>)) by (eapply WFx_shape; [|exact HW]; reflexivity).
    pose proof (Srv_log0 _ _ HS) as S1. assert (N1 : NI cf (s <| log := [] |>)) by (intros k nd nc Hk Hc; exact (HN k nd nc Hk Hc)).
    assert (C2 : WFx [] s2 /\ NI cf s2).
    { destruct Hev as [Ha|[j Hf]]; [split; [eapply arrival_have_event_spec; eauto|eapply arrival_have_event_ni; eauto]
                                   |split; [eapply finish_service_spec; eauto|eapply finish_service_ni; eauto]]. }
    destruct C2 as [W2 N2]. exact (NI_K _ _ (K2 (WFx_Idx _ _ W2)) N2).
  Qed.

  Lemma NI_dr s d : NI cf s -> NI cf (s <| dr := d |>).
  Proof. intros HS k nd nc Hk Hc. exact (HS k nd nc Hk Hc). Qed.

  Theorem run_many_ni : forall ds s s', NIInv cf s -> run_many cf s ds = Ok s' -> NIInv cf s'.
  Proof.
    induction ds as [|d r IH]; intros s s' HJ H; cbn [run_many] in H; [inversion H; subst; exact HJ|].
    destruct (event_step cf (s <| dr := d |>)) as [[u s1]| |] eqn:E; try discriminate. destruct u.
    eapply IH; [|exact H]. eapply event_step_ni; [|exact E]. destruct HJ as [[HW HS] HN].
    split; [split; [eapply WFx_shape; [|exact HW]; reflexivity|apply Srv_dr; exact HS]|apply NI_dr; exact HN].
  Qed.
End NonIdle.

(* ---------- the invariant in the words of C05 ---------- *)
Lemma filter_all {A} (p : A -> bool) (l : list A) : (forall x, In x l -> p x = true) -> filter p l = l.
Proof. induction l as [|y r IH]; cbn; intros H; [reflexivity|]. rewrite (H y (or_introl eq_refl)). f_equal. apply IH. intros x Hx. apply H. right. exact Hx. Qed.

Theorem ni_means cf s : NIInv cf s -> forall k nd nc c, nth_error (nodes s) k = Some nd -> nth_error (cf_nodes cf) k = Some nc -> nc_c nc = Some c ->
  (* every customer of the node has an entry *)
  (forall i, In i (all_individuals nd) -> exists x, find_ind i (inds s) = Some x) /\
  (* if some customer of the node is waiting (has no server), every server of the node is busy *)
  ((exists i x, In i (all_individuals nd) /\ find_ind i (inds s) = Some x /\ i_server x = None) ->
     forall sv, In sv (n_servers nd) -> sv_busy sv = true) /\
  (* in numbers: the busy servers are min(c, customers at the node) *)
  zlen (filter sv_busy (n_servers nd)) = Z.min c (n_pop nd).
Proof.
  intros [[HW HS] HN] k nd nc c Hk Hc Hcc.
  pose proof (HN k nd nc Hk Hc) as [HE HB]. rewrite !hole_none in HB. rewrite Hcc in HB.
  pose proof (HS k nd nc Hk Hc) as HF. rewrite Hcc in HF. cbn in HF. destruct HF as [L N B C D].
  assert (Hent : forall i, In i (all_individuals nd) -> exists x, find_ind i (inds s) = Some x).
  { intros i Hi. specialize (HE i Hi). unfold ient in HE. destruct (find_ind i (inds s)) as [x|]; [eauto|contradiction]. }
  assert (Hwait : (exists i x, In i (all_individuals nd) /\ find_ind i (inds s) = Some x /\ i_server x = None) ->
                  forall sv, In sv (n_servers nd) -> sv_busy sv = true).
  { intros (i & x & Hi & Hf & Hx) sv Hsv. eapply (HB ltac:(discriminate) i Hi); [|discriminate|exact Hsv|discriminate].
    rewrite (ient_find _ _ _ Hf), Hx. reflexivity. }
  split; [exact Hent|]. split; [exact Hwait|].
  set (ids := all_individuals nd) in *. set (svs := n_servers nd) in *. set (il := inds s) in *.
  assert (NDids : NoDup ids).
  { apply WFx_nodup, NoDup_app_l in HW. eapply NoDup_concat_In; [exact HW|]. apply in_map. eapply nth_error_In; eauto. }
  assert (Hpop : n_pop nd = zlen ids) by (destruct (WFx_means _ HW) as (_ & _ & Hp & _); apply Hp; eapply nth_error_In; eauto).
  assert (NDsvs : NoDup svs) by (eapply NoDup_map_inv; exact N).
  set (Bz := filter sv_busy svs). set (Hz := filter (holds_server il) ids).
  assert (HBz : forall sv, In sv Bz -> In sv svs /\ exists i, sv_cust sv = Some i /\ In i ids /\ isv il i = Some (sv_id sv)).
  { intros sv Hsv. apply filter_In in Hsv as [Hsv Hb]. split; [exact Hsv|]. rewrite (B sv Hsv) in Hb.
    destruct (sv_cust sv) as [i|] eqn:Ecu; [|discriminate]. exists i. split; [reflexivity|]. apply (C sv i Hsv Ecu). }
  assert (HHz : forall i, In i Hz -> In i ids /\ exists sid, isv il i = Some sid).
  { intros i Hi. apply filter_In in Hi as [Ha Hb]. split; [exact Ha|]. unfold holds_server in Hb. destruct (isv il i); [eauto|discriminate]. }
  assert (L1 : (length Bz <= length Hz)%nat).
  { set (g := fun sv => match sv_cust sv with Some i => i | None => 0 end).
    assert (NDg : NoDup (map g Bz)).
    { apply NoDup_map_of_inj; [apply NoDup_filter; exact NDsvs|]. intros a b Ha Hb E.
      destruct (HBz _ Ha) as (Ha1 & ia & Ea & _ & Fa). destruct (HBz _ Hb) as (Hb1 & ib & Eb & _ & Fb).
      unfold g in E. rewrite Ea, Eb in E. subst ib. eapply (NoDup_map_inj_in sv_id); eauto. congruence. }
    assert (Hincl : incl (map g Bz) Hz).
    { intros z Hz'. apply in_map_iff in Hz'. destruct Hz' as (sv & <- & Hsv). destruct (HBz _ Hsv) as (_ & i & Ei & Hi & Fi).
      unfold g. rewrite Ei. apply filter_In. split; [exact Hi|]. unfold holds_server. rewrite Fi. reflexivity. }
    pose proof (NoDup_incl_length NDg Hincl) as Hl. rewrite map_length in Hl. exact Hl. }
  assert (L2 : (length Hz <= length Bz)%nat).
  { set (h := fun i => match isv il i with Some sid => sid | None => 0 end).
    assert (NDh : NoDup (map h Hz)).
    { apply NoDup_map_of_inj; [apply NoDup_filter; exact NDids|]. intros a b Ha Hb E.
      destruct (HHz _ Ha) as (Ha1 & sa & Ea). destruct (HHz _ Hb) as (Hb1 & sb & Eb).
      unfold h in E. rewrite Ea, Eb in E. subst sb.
      destruct (D _ _ Ha1 Ea) as (sv1 & A1 & A2 & A3). destruct (D _ _ Hb1 Eb) as (sv2 & B1 & B2 & B3).
      assert (sv1 = sv2) by (eapply (NoDup_map_inj_in sv_id); eauto; congruence). subst sv2. congruence. }
    assert (Hincl : incl (map h Hz) (map sv_id Bz)).
    { intros z Hz'. apply in_map_iff in Hz'. destruct Hz' as (i & <- & Hi). destruct (HHz _ Hi) as (Ha & sid & Ea).
      destruct (D _ _ Ha Ea) as (sv & A1 & A2 & A3). unfold h. rewrite Ea, <- A2. apply in_map. apply filter_In. split; [exact A1|].
      rewrite (B sv A1), A3. reflexivity. }
    pose proof (NoDup_incl_length NDh Hincl) as Hl. rewrite !map_length in Hl. exact Hl. }
  assert (Leq : length Bz = length Hz) by lia.
  assert (LB : (length Bz <= length svs)%nat) by apply filter_length_le'.
  assert (LH : (length Hz <= length ids)%nat) by apply filter_length_le'.
  destruct (forallb (holds_server il) ids) eqn:Eall.
  - (* nobody is waiting: every customer holds a server *)
    rewrite forallb_forall in Eall. assert (Hz = ids) by (apply filter_all; exact Eall).
    assert (EH : length Hz = length ids) by (rewrite H; reflexivity).
    clearbody Bz Hz. unfold zlen in *. lia.
  - (* somebody is waiting: every server is busy *)
    assert (Hex : exists i, In i ids /\ holds_server il i = false).
    { clear -Eall. induction ids as [|a r IH]; cbn in Eall; [discriminate|]. destruct (holds_server il a) eqn:E.
      - destruct (IH Eall) as (i & Hi & Hh). exists i. split; [right; exact Hi|exact Hh].
      - exists a. split; [left; reflexivity|exact E]. }
    destruct Hex as (i & Hi & Hh). destruct (Hent i Hi) as (x & Hf).
    assert (Hx : i_server x = None) by (unfold holds_server in Hh; rewrite (isv_find _ _ _ Hf) in Hh; destruct (i_server x); [discriminate|reflexivity]).
    assert (Ball : Bz = svs) by (apply filter_all; apply Hwait; eauto).
    assert (EB : length Bz = length svs) by (rewrite Ball; reflexivity).
    clearbody Bz Hz. unfold zlen in *. lia.
Qed.

(* ---------- an executable test of the invariant ---------- *)
Definition has_entry (il : list ind) (i : Z) : bool := match find_ind i il with Some _ => true | None => false end.
Definition waiting_b (il : list ind) (i : Z) : bool := match find_ind i il with Some x => match i_server x with None => true | Some _ => false end | None => false end.
Definition node_ni_b (nc : ncfg) (nd : node) (il : list ind) : bool :=
  forallb (has_entry il) (all_individuals nd)
  && match nc_c nc with None => true | Some _ => negb (existsb (waiting_b il) (all_individuals nd)) || forallb sv_busy (n_servers nd) end.
Lemma node_ni_b_sound nc nd il : node_ni_b nc nd il = true -> NOK None None (nc_c nc) (all_individuals nd) (n_servers nd) (ient il).
Proof.
  unfold node_ni_b. intros H. apply andb_true_iff in H as [H1 H2]. rewrite forallb_forall in H1. split.
  - intros i Hi. specialize (H1 i Hi). unfold has_entry in H1. unfold ient. destruct (find_ind i il); [discriminate|discriminate].
  - intros Hoc i Hi Hw _ sv Hsv _. destruct (nc_c nc) as [c|]; [|contradiction].
    apply orb_true_iff in H2 as [H2|H2].
    + exfalso. apply negb_true_iff in H2. assert (Hex : existsb (waiting_b il) (all_individuals nd) = true).
      { apply existsb_exists. exists i. split; [exact Hi|]. unfold waiting_b. unfold ient in Hw. destruct (find_ind i il) as [x|]; [|discriminate].
        cbn in Hw. injection Hw as ->. reflexivity. }
      congruence.
    + rewrite forallb_forall in H2. apply H2. exact Hsv.
Qed.
Fixpoint nodes_ni_b (ncs : list ncfg) (nds : list node) (il : list ind) : bool :=
  match ncs, nds with nc :: r, nd :: r' => node_ni_b nc nd il && nodes_ni_b r r' il | _, _ => true end.
Definition ni_b (cf : config) (s : sim) : bool := srv_b cf s && nodes_ni_b (cf_nodes cf) (nodes s) (inds s).

Theorem ni_b_sound cf s : ni_b cf s = true -> NIInv cf s.
Proof.
  unfold ni_b. intros H. apply andb_true_iff in H as [H1 H2]. split; [apply srv_b_sound; exact H1|].
  unfold NI, NIx. generalize dependent (nodes s). generalize (cf_nodes cf). clear H1.
  induction l as [|nc r IH]; intros nds H k nd nc' Hk Hc; [destruct k; discriminate|].
  destruct nds as [|nd0 r']; [destruct k; discriminate|]. cbn in H. apply andb_true_iff in H as [A1 A2].
  destruct k as [|k]; cbn in Hk, Hc.
  - injection Hk as <-. injection Hc as <-. rewrite !hole_none. apply node_ni_b_sound. exact A1.
  - rewrite !hole_none. specialize (IH _ A2 k nd nc' Hk Hc). rewrite !hole_none in IH. exact IH.
Qed.

(* non-vacuity: the example state of Servers.v (two busy servers, one of them held by a blocked customer, a third customer waiting) *)
Example ex_ni : ni_b ex_cf ex_s = true.
Proof. vm_compute. reflexivity. Qed.
Example ex_NIInv : NIInv ex_cf ex_s.
Proof. apply ni_b_sound. exact ex_ni. Qed.
(* the test is not trivially true: the same state with server 2 idle and customer 2 waiting as well is rejected *)
Example ex_ni_rejects :
  ni_b ex_cf (ex_s <| nodes := [ mkNode 1 3 1 [[1; 2; 3]] [mkServer 1 (Some 1) true None 0 None 0; mkServer 2 None false None 0 None 0] [] 0 None [];
                                 mkNode 2 1 1 [[4]] [] [] 0 (Some 12) [4] ] |>
                   <| inds := [ex_ind 1 1 true (Some 1); ex_ind 2 1 false None; ex_ind 3 1 false None; ex_ind 4 2 false None] |>) = false.
Proof. vm_compute. reflexivity. Qed.
(* ... although it satisfies server exclusivity *)
Example ex_ni_rejects_srv_ok :
  srv_b ex_cf (ex_s <| nodes := [ mkNode 1 3 1 [[1; 2; 3]] [mkServer 1 (Some 1) true None 0 None 0; mkServer 2 None false None 0 None 0] [] 0 None [];
                                  mkNode 2 1 1 [[4]] [] [] 0 (Some 12) [4] ] |>
                    <| inds := [ex_ind 1 1 true (Some 1); ex_ind 2 1 false None; ex_ind 3 1 false None; ex_ind 4 2 false None] |>) = true.
Proof. vm_compute. reflexivity. Qed.

(* the hypotheses of the run theorems are met by runs that succeed (the four events of Servers.ex_run) *)
Example ex_run_ni : match run_many ex_cf ex_s [ex_draws; ex_draws; ex_draws; ex_draws] with Ok s' => ni_b ex_cf s' | _ => false end = true.
Proof. vm_compute. reflexivity. Qed.

(* ---------- T2 for C05 over whole runs, in the words of the property ---------- *)
Theorem engine_nonidle cf : forall ds s s', NIInv cf s -> run_many cf s ds = Ok s' ->
  forall k nd nc c, nth_error (nodes s') k = Some nd -> nth_error (cf_nodes cf) k = Some nc -> nc_c nc = Some c ->
    ((exists i x, In i (all_individuals nd) /\ find_ind i (inds s') = Some x /\ i_server x = None) ->
       forall sv, In sv (n_servers nd) -> sv_busy sv = true) /\
    zlen (filter sv_busy (n_servers nd)) = Z.min c (n_pop nd).
Proof.
  intros ds s s' HJ H k nd nc c Hk Hc Hcc.
  destruct (ni_means cf s' (run_many_ni cf ds s s' HJ H) k nd nc c Hk Hc Hcc) as (_ & A & B). split; assumption.
Qed.

Print Assumptions event_step_ni.
Print Assumptions run_many_ni.
Print Assumptions ni_means.
Print Assumptions ni_b_sound.
Print Assumptions ex_NIInv.
Print Assumptions engine_nonidle.

(* Blocking2.v -- T2 for C07 (Type I blocking) and C06 (node capacity) on the STAGE-2 engine model (Engine2.v): routers, reneging
   and jockeying, priority pre-emption (resume / restart / resample / reroute), server schedules (pre-emptive or not), slotted
   services, class change while waiting, server priority functions.  Partial correctness: nothing is said about runs in which the
   model returns Err / OutOfFuel.  For every state satisfying the invariant, every oracle of draws and any number of events:

   (i)   EVERY configuration (event_step_len2, run_many_len2): node identities are positions and every blocked-queue counter is
         the length of its blocked queue (Len2); blocked queues keep their order (ord): what is left of an old queue is an
         order-preserving sub-list of it and newcomers are only added at the end.
   (ii)  scope_blk cf = true  (every kind of `reroute` pre-emption -- priority, shift change, capacitated slot -- only at nodes
         WITHOUT a capacity limit)  (event_step_blk2, run_many_blk2, blk2_means): nobody is left blocked while the destination
         has space: a node with a non-empty blocked queue has a finite capacity and is full (Blk2).
         Outside the scope this is FALSE: blk2_refuted_reroute (new: release(reroute=True) does not call
         release_blocked_individual, so a pre-empted and rerouted victim leaves a free place behind it that nobody takes).
   (iii) scope_cap cf = true  (no `reroute` pre-emption at all; reneging customers jockey only to the exit or to nodes without
         a capacity limit)  (event_step_cap2, run_many_cap2, cap2_means, blk2_full): no node holds more than its capacity (Cap2),
         nc_cap being the node_capacity the implementation computed once (c = 0 for scheduled nodes, F-06a); with (ii) somebody
         is blocked to a node only while it is exactly full.
         Outside the scope FALSE: cap2_refuted_jockeying, cap2_refuted_reroute (known: jockeying and reroute ignore capacities).
   (iv)  scope_fifo cf = true  (schedules are non-pre-emptive or `reroute`; capacitated slots likewise) and no node counts an
         interrupted customer (NoInt)  (event_step_fifo2, run_many_fifo2): the FIFO dichotomy -- in one event either blocked
         queues only lose heads (release_blocked_individual takes the HEAD: customers enter a node in the order they became blocked
         to it), or exactly one customer of the active node joins the END of the blocked queue of a node that is full and nothing
         else changes (heads_only / one_blocked).  Priority pre-emption of any kind is allowed here.
         Outside the scope FALSE: fifo_refuted_interrupted_blocked (F-02b: begin_interrupted_individuals_service takes the entry
         of an interrupted blocked customer out of the MIDDLE of a blocked queue; the clock goes backwards in the same event).
   Executable tests len2_b / noint_b / blk2_b / cap2_b with soundness; examples b2_* on a tandem with a full second node.

   Not claimed: WHO is in the blocked queues (stage-1 Blocking.Who): in stage 2 pre-empted / interrupted blocked customers
   (F-02a, F-02b) leave stale entries, so that statement needs a scope without pre-emption.

   Method.  Part 0: the view of a state (per node: identity, population, blocked queue, its counter, number_interrupted), a frame
   logic keepK for the engine functions that leave the view alone (one line each, tactic kpa) and a Hoare logic ht K P Q on views
   whose only primitive move is "a node known to sit in its slot is written back with another view" (ht_put_node_ex); K
   remembers the nodes that were read (okn) and the answer of has_space (spaceK) until the view changes.  Part A instantiates
   it with "counter = length (and number_interrupted <= 0 in strict mode) and the blocked queues are related to those of the
   initial view" (PA), Part B with the slack invariant Jb dl: node j is full up to dl j places (C07) and has dl j places left
   (C06); dl is 0 at event boundaries and 1, inside release / renege, for the node that is about to receive a customer;
   release / release_blocked_individual / accept / preempt are treated together by induction on the fuel (core_A, core_B). *)
From Coq Require Import ZArith List Bool Lia.
From RecordUpdate Require Import RecordUpdate.
From CiwV Require Import Sx Prelude Routing Sched.
From CiwV.Engine Require Import State2 Engine2 Codec2.
From CiwV.Inv Require Conserve2.
Import ListNotations.
Open Scope Z_scope.

(* ====================================================================================================================== *)
(* Part 0: the view of the state these properties talk about, and a frame logic for it                                    *)
(* ====================================================================================================================== *)
Definition bq_t := list (Z * Z).
Definition nview := (Z * bq_t * Z * Z)%type.          (* population, blocked queue, blocked-queue counter, number_interrupted *)
Definition vpop (x : nview) : Z := fst (fst (fst x)).
Definition vbq (x : nview) : bq_t := snd (fst (fst x)).
Definition vlen (x : nview) : Z := snd (fst x).
Definition vnint (x : nview) : Z := snd x.
Definition vw := list (Z * nview).
Definition bview (nd : node) : Z * nview := (n_id nd, (n_pop nd, n_bq nd, n_lenbq nd, n_nint nd)).
Definition BV (s : sim) : vw := map bview (nodes s).
(* node identities are positions *)
Definition bidx (sh : vw) : Prop := forall k t, nth_error sh k = Some t -> fst t = Z.of_nat k + 1.
(* the node nd sits, as far as the view goes, in its own slot *)
Definition okn (sh : vw) (nd : node) : Prop := nthZ sh (n_id nd - 1) = Some (bview nd).

Definition keepK (K : vw -> Prop) {X} (m : M X) : Prop :=
  forall s a s', bidx (BV s) -> K (BV s) -> m s = Ok (a, s') -> BV s' = BV s.
Definition KT : vw -> Prop := fun _ => True.

Lemma kp_weak (K K' : vw -> Prop) {X} (m : M X) : keepK K m -> (forall sh, K' sh -> K sh) -> keepK K' m.
Proof. intros H HK s a s' HI Hk E. eapply H; eauto. Qed.
Lemma kp_T (K : vw -> Prop) {X} (m : M X) : keepK KT m -> keepK K m.
Proof. intros H. eapply kp_weak; [exact H|]. intros; exact I. Qed.
Lemma kp_ret K {X} (a : X) : keepK K (ret a).
Proof. intros s a0 s' _ _ H. inversion H. reflexivity. Qed.
Lemma kp_fail K {X} e : keepK K (@fail X e).
Proof. intros s a s' _ _ H. discriminate. Qed.
Lemma kp_oof K {X} : keepK K (@oof X).
Proof. intros s a s' _ _ H. discriminate. Qed.
Lemma kp_bind K {X Y} (m : M X) (f : X -> M Y) : keepK K m -> (forall a, keepK K (f a)) -> keepK K (bind m f).
Proof.
  intros Hm Hf s b s' HI HK H. unfold bind in H. destruct (m s) as [[a s1]| |] eqn:E; try discriminate.
  pose proof (Hm _ _ _ HI HK E) as E1. rewrite <- E1 in HI, HK. rewrite (Hf a _ _ _ HI HK H). exact E1.
Qed.
Lemma kp_gets K {X} (f : sim -> X) : keepK K (gets f).
Proof. intros s a s' _ _ H. inversion H. reflexivity. Qed.
Lemma kp_lift K {X} e (o : option X) : keepK K (lift e o).
Proof. destruct o; [apply kp_ret|apply kp_fail]. Qed.
Lemma kp_modify K (f : sim -> sim) : (forall s, BV (f s) = BV s) -> keepK K (modify f).
Proof. intros Hf s a s' _ _ H. inversion H. apply Hf. Qed.

Lemma get_node_okn j s nd : bidx (BV s) -> nthZ (nodes s) (j - 1) = Some nd -> n_id nd = j /\ okn (BV s) nd.
Proof.
  intros HI Hn. destruct (Conserve2.nthZ_nat _ _ _ Hn) as (k & Hk & Hnk).
  assert (Hid : n_id nd = j).
  { specialize (HI k (bview nd)). unfold BV in HI. rewrite nth_error_map, Hnk in HI. specialize (HI eq_refl). cbn in HI. lia. }
  split; [exact Hid|]. unfold okn, BV. rewrite Hid, Conserve2.nthZ_map, Hn. reflexivity.
Qed.
Lemma kp_get_node_bind K {Y} j (f : node -> M Y) :
  (forall nd, keepK (fun sh => K sh /\ okn sh nd) (f nd)) -> keepK K (bind (get_node j) f).
Proof.
  intros Hf s b s' HI HK H. unfold bind in H. destruct (get_node j s) as [[nd s1]| |] eqn:E; try discriminate.
  apply Conserve2.get_node_spec in E as (-> & Hj & Hn). eapply Hf; [exact HI| |exact H]. split; [exact HK|]. apply (get_node_okn j); assumption.
Qed.
Lemma kp_get_node K j : keepK K (get_node j).
Proof. intros s a s' _ _ H. apply Conserve2.get_node_spec in H as (-> & _). reflexivity. Qed.
Lemma kp_get_ind K i : keepK K (get_ind i).
Proof. intros s a s' _ _ H. unfold get_ind in H. destruct (find_ind i (inds s)); inversion H. reflexivity. Qed.

Lemma put_node_view nd nd0 s : okn (BV s) nd0 -> bview nd = bview nd0 ->
  BV (s <| nodes := updZ (nodes s) (n_id nd - 1) nd |>) = BV s.
Proof.
  intros Hn He. unfold BV. cbn.
  assert (Hid : n_id nd = n_id nd0) by (unfold bview in He; congruence).
  unfold okn, BV in Hn. rewrite Hid. destruct (Conserve2.nthZ_nat _ _ _ Hn) as (k & Hk & Hnk). rewrite Hk, Conserve2.updZ_nat.
  rewrite Conserve2.upd_map. apply Conserve2.upd_same. rewrite He. exact Hnk.
Qed.
Lemma kp_put_node (K : vw -> Prop) nd : (forall sh, K sh -> exists nd0, okn sh nd0 /\ bview nd = bview nd0) -> keepK K (put_node nd).
Proof.
  intros HK s a s' _ Hk H. unfold put_node, modify in H. inversion H. destruct (HK _ Hk) as (nd0 & Hn & He).
  eapply put_node_view; eauto.
Qed.
Lemma kp_put_ind (K : vw -> Prop) x : keepK K (put_ind x).
Proof. apply kp_modify. reflexivity. Qed.
Lemma kp_del_ind (K : vw -> Prop) i : keepK K (del_ind i).
Proof. apply kp_modify. reflexivity. Qed.
Lemma kp_upd_node K j (g : node -> node) : (forall nd, bview (g nd) = bview nd) -> keepK K (upd_node j g).
Proof.
  intros Hg. unfold upd_node. apply kp_get_node_bind. intros nd. apply kp_put_node. intros sh [_ Hn]. exists nd. split; [exact Hn|apply Hg].
Qed.
Lemma kp_upd_ind K i (g : ind -> ind) : keepK K (upd_ind i g).
Proof. unfold upd_ind. apply kp_bind; [apply kp_get_ind|intros x; apply kp_put_ind]. Qed.
Lemma kp_log_rec K r : keepK K (log_rec r).
Proof. apply kp_modify. reflexivity. Qed.
Lemma kp_draw_arr K : keepK K draw_arr.
Proof. intros s a s' _ _ H. unfold draw_arr in H. destruct (d_arr (dr s)); inversion H. reflexivity. Qed.
Lemma kp_draw_batch K : keepK K draw_batch.
Proof. intros s a s' _ _ H. unfold draw_batch in H. destruct (d_batch (dr s)); inversion H. reflexivity. Qed.
Lemma kp_draw_svc K : keepK K draw_svc.
Proof. intros s a s' _ _ H. unfold draw_svc in H. destruct (d_svc (dr s)); inversion H. reflexivity. Qed.
Lemma kp_draw_unif K : keepK K draw_unif.
Proof. intros s a s' _ _ H. unfold draw_unif in H. destruct (d_unif (dr s)); inversion H. reflexivity. Qed.
Lemma kp_draw_ren K : keepK K draw_ren.
Proof. intros s a s' _ _ H. unfold draw_ren in H. destruct (d_ren (dr s)); inversion H. reflexivity. Qed.
Lemma kp_draw_cct K : keepK K draw_cct.
Proof. intros s a s' _ _ H. unfold draw_cct in H. destruct (d_cct (dr s)); inversion H. reflexivity. Qed.
Lemma kp_mapM K {X Y} (f : X -> M Y) l : (forall a, keepK K (f a)) -> keepK K (mapM f l).
Proof.
  intros Hf. induction l as [|a r IH]; cbn [mapM]; [apply kp_ret|].
  apply kp_bind; [apply Hf|]. intros b. apply kp_bind; [exact IH|]. intros bs. apply kp_ret.
Qed.
Lemma kp_forM K {X} (f : X -> M unit) l : (forall a, keepK K (f a)) -> keepK K (forM_ l f).
Proof. intros Hf. induction l as [|a r IH]; cbn [forM_]; [apply kp_ret|]. apply kp_bind; [apply Hf|]. intros _. exact IH. Qed.

Ltac kp_side :=
  let sh := fresh "sh" in let HK := fresh "HK" in
  intros sh HK; repeat match goal with H : _ /\ _ |- _ => destruct H end;
  match goal with H : okn sh ?nd |- _ => exists nd; split; [exact H|unfold bview; cbn; reflexivity] end.

Ltac kp_prim :=
  first [ apply kp_ret | apply kp_fail | apply kp_oof | apply kp_gets | apply kp_lift | apply kp_log_rec
        | apply kp_draw_arr | apply kp_draw_batch | apply kp_draw_svc | apply kp_draw_unif | apply kp_draw_ren | apply kp_draw_cct
        | (apply kp_upd_node; intros ?; reflexivity) | apply kp_upd_ind
        | (apply kp_put_node; kp_side) | apply kp_put_ind | apply kp_del_ind
        | apply kp_get_node | apply kp_get_ind
        | (apply kp_modify; intros ?; reflexivity) ].
Ltac kp_struct :=
  match goal with
  | |- keepK _ (bind (get_node _) _) => apply kp_get_node_bind; intros ?
  | |- keepK _ (bind _ _) => apply kp_bind; [|intros ?]
  | |- keepK _ (mapM _ _) => apply kp_mapM; intros ?
  | |- keepK _ (forM_ _ _) => apply kp_forM; intros ?
  | |- keepK _ (if ?b then _ else _) => destruct b
  | |- keepK _ (match ?x with _ => _ end) => destruct x
  end.
Tactic Notation "kp" "using" tactic(t) := repeat first [ kp_struct | kp_prim | (apply kp_T; t) | t ].
Ltac kp0 := repeat first [ kp_struct | kp_prim ].

Section Frame2.
  Variable cf : config.
  Notation P0 m := (keepK KT m).

  Lemma kp_ncfg_of j : P0 (ncfg_of cf j). Proof. apply kp_lift. Qed.
  Lemma kp_tnow : P0 tnow. Proof. apply kp_gets. Qed.
  Lemma kp_choice_uniform {X} (l : list X) : P0 (choice_uniform l). Proof. unfold choice_uniform. kp0. Qed.
  Lemma kp_choice_weighted den P : P0 (choice_weighted den P). Proof. unfold choice_weighted. kp0. Qed.
  Lemma kp_choose_next_customer j : P0 (choose_next_customer cf j).
  Proof. unfold choose_next_customer. kp using first [apply kp_ncfg_of | apply kp_choice_uniform]. Qed.
  Lemma kp_upd_server j sid f : P0 (upd_server j sid f). Proof. unfold upd_server. kp0. Qed.
  Lemma kp_find_next_class_change j : P0 (find_next_class_change j). Proof. unfold find_next_class_change. kp0. Qed.
  Lemma kp_cct_loop row : forall b best bc, P0 (cct_loop row b best bc).
  Proof. induction row as [|h r IH]; intros b best bc; cbn [cct_loop]; [apply kp_ret|]. kp using (apply IH). Qed.
  Lemma kp_decide_class_change j i : P0 (decide_class_change cf j i).
  Proof. unfold decide_class_change. kp using first [apply kp_cct_loop | apply kp_find_next_class_change]. Qed.
  Lemma kp_reset_class_change j i : P0 (reset_class_change cf j i).
  Proof. unfold reset_class_change. kp using (apply kp_find_next_class_change). Qed.
  Lemma kp_stime_num x : P0 (stime_num x). Proof. unfold stime_num. kp0. Qed.
  Lemma kp_give_service_time_after_preemption i : P0 (give_service_time_after_preemption i).
  Proof. unfold give_service_time_after_preemption. kp0. Qed.
  Lemma kp_give_individual_a_service_time i : P0 (give_individual_a_service_time i).
  Proof. unfold give_individual_a_service_time. kp using (apply kp_give_service_time_after_preemption). Qed.
  Lemma kp_attach_server j sid i : P0 (attach_server j sid i).
  Proof. unfold attach_server. kp using (apply kp_upd_server). Qed.
  Lemma kp_set_next_end j sid d : P0 (set_next_end j sid d). Proof. unfold set_next_end. apply kp_upd_server. Qed.
  Lemma kp_kill_server j sid : P0 (kill_server j sid). Proof. unfold kill_server. kp0. Qed.
  Lemma kp_detatch_server j sid i : P0 (detatch_server j sid i).
  Proof. unfold detatch_server. kp using (apply kp_kill_server). Qed.
  Lemma kp_bump_rec i : P0 (bump_rec i). Proof. unfold bump_rec. kp0. Qed.
  Lemma kp_write_individual_record j i : P0 (write_individual_record cf j i).
  Proof. unfold write_individual_record. kp using first [apply kp_ncfg_of | apply kp_bump_rec]. Qed.
  Lemma kp_write_interruption_record j i d : P0 (write_interruption_record cf j i d).
  Proof. unfold write_interruption_record. kp using first [apply kp_ncfg_of | apply kp_bump_rec]. Qed.
  Lemma kp_write_reneging_record j i : P0 (write_reneging_record j i).
  Proof. unfold write_reneging_record. kp using (apply kp_bump_rec). Qed.
  Lemma kp_write_br_record j i ty : P0 (write_br_record j i ty).
  Proof. unfold write_br_record. kp using (apply kp_bump_rec). Qed.
  Lemma kp_reset_individual_attributes i : P0 (reset_individual_attributes i).
  Proof. unfold reset_individual_attributes. kp0. Qed.
  Lemma kp_valid_dest d : P0 (valid_dest d). Proof. unfold valid_dest. kp0. Qed.
  Lemma kp_jsq_loop lb ds : forall best acc, P0 (jsq_loop lb ds best acc).
  Proof. induction ds as [|d r IH]; intros best acc; cbn [jsq_loop]; [apply kp_ret|]. kp using (apply IH). Qed.
  Lemma kp_jsq_next lb ds order : P0 (jsq_next lb ds order).
  Proof. unfold jsq_next. kp using first [apply kp_jsq_loop | apply kp_choice_uniform]. Qed.
  Lemma kp_get_cyc c j : P0 (get_cyc c j). Proof. unfold get_cyc. kp0. Qed.
  Lemma kp_bump_cyc c j : P0 (bump_cyc c j).
  Proof.
    unfold bump_cyc. apply kp_modify. intros s. destruct (nthZ (cyc s) c) as [row|]; [|reflexivity].
    destruct (nthZ row (j - 1)); reflexivity.
  Qed.
  Lemma kp_node_router_next r c j : P0 (node_router_next r c j).
  Proof. unfold node_router_next. kp using first [apply kp_choice_weighted | apply kp_jsq_next | apply kp_get_cyc | apply kp_bump_cyc]. Qed.
  Lemma kp_next_node_for mode j i : P0 (next_node_for cf mode j i).
  Proof.
    unfold next_node_for.
    kp using first [apply kp_node_router_next | apply kp_valid_dest | apply kp_choice_uniform | apply kp_jsq_next].
  Qed.
  Lemma kp_start_fresh j i osid count : P0 (start_fresh cf j i osid count).
  Proof. unfold start_fresh. kp using first [apply kp_attach_server | apply kp_reset_class_change | apply kp_set_next_end]. Qed.
  Lemma kp_start_give j i sid : P0 (start_give cf j i sid).
  Proof.
    unfold start_give.
    kp using first [apply kp_attach_server | apply kp_give_individual_a_service_time | apply kp_stime_num | apply kp_reset_class_change | apply kp_set_next_end].
  Qed.
  Lemma kp_start_preemptor j i sid : P0 (start_preemptor cf j i sid).
  Proof.
    unfold start_preemptor.
    kp using first [apply kp_attach_server | apply kp_give_individual_a_service_time | apply kp_stime_num | apply kp_reset_class_change | apply kp_set_next_end].
  Qed.
  Lemma kp_get_reneging_date j i : P0 (get_reneging_date cf j i).
  Proof. unfold get_reneging_date. kp using (apply kp_ncfg_of). Qed.
  Lemma kp_preempt_victim j i : P0 (preempt_victim cf j i).
  Proof. unfold preempt_victim. kp using (apply kp_ncfg_of). Qed.
  Lemma kp_decide_between l : P0 (decide_between l).
  Proof. unfold decide_between. destruct l as [|a [|b r]]; [apply kp_fail|apply kp_ret|apply kp_choice_uniform]. Qed.
  Lemma kp_change_customer_class j i : P0 (change_customer_class cf j i).
  Proof. unfold change_customer_class. kp using first [apply kp_ncfg_of | apply kp_choice_weighted]. Qed.
  Lemma kp_has_space d : P0 (has_space cf d). Proof. unfold has_space. kp using (apply kp_ncfg_of). Qed.
  Lemma kp_keyed l : P0 (keyed l). Proof. unfold keyed. kp0. Qed.
  Lemma kp_sort_interrupted_individuals j : P0 (sort_interrupted_individuals j).
  Proof. unfold sort_interrupted_individuals. kp using (apply kp_keyed). Qed.
  Lemma kp_add_new_servers k j : P0 (add_new_servers k j).
  Proof. induction k as [|k IH]; cbn [add_new_servers]; [apply kp_ret|]. kp using (apply IH). Qed.
  Lemma kp_update_next_event_date j : P0 (update_next_event_date cf j).
  Proof. unfold update_next_event_date. kp using (apply kp_ncfg_of). Qed.
  Lemma kp_update_all js : P0 (update_all cf js).
  Proof. induction js as [|j r IH]; cbn [update_all]; [apply kp_ret|]. kp using first [apply IH | apply kp_update_next_event_date]. Qed.
  Lemma kp_find_next_event_date : P0 find_next_event_date.
  Proof. apply kp_modify. intros s. destruct (find_min_dates 1 (a_dates (arr s)) (None, 0, 0)) as [[d j] c]. reflexivity. Qed.
  Lemma kp_sys_population : P0 sys_population. Proof. unfold sys_population. kp0. Qed.
  Lemma kp_route_of i c : P0 (route_of cf i c). Proof. unfold route_of. kp0. Qed.
  Lemma kp_find_next_active_node : P0 find_next_active_node.
  Proof. unfold find_next_active_node. kp using (apply kp_choice_uniform). Qed.
  Lemma kp_exit_accept i c : P0 (exit_accept i c).
  Proof. unfold exit_accept. kp0. Qed.
End Frame2.

Ltac kp_lem :=
  first [ apply kp_ncfg_of | apply kp_tnow | apply kp_choice_uniform | apply kp_choice_weighted | apply kp_choose_next_customer
        | apply kp_upd_server | apply kp_find_next_class_change | apply kp_cct_loop | apply kp_decide_class_change
        | apply kp_reset_class_change | apply kp_stime_num | apply kp_give_service_time_after_preemption
        | apply kp_give_individual_a_service_time | apply kp_attach_server | apply kp_set_next_end | apply kp_kill_server
        | apply kp_detatch_server | apply kp_bump_rec | apply kp_write_individual_record | apply kp_write_interruption_record
        | apply kp_write_reneging_record | apply kp_write_br_record | apply kp_reset_individual_attributes | apply kp_valid_dest
        | apply kp_jsq_loop | apply kp_jsq_next | apply kp_get_cyc | apply kp_bump_cyc | apply kp_node_router_next
        | apply kp_next_node_for | apply kp_start_fresh | apply kp_start_give | apply kp_start_preemptor
        | apply kp_get_reneging_date | apply kp_preempt_victim | apply kp_decide_between | apply kp_change_customer_class
        | apply kp_has_space | apply kp_keyed | apply kp_sort_interrupted_individuals | apply kp_add_new_servers
        | apply kp_update_next_event_date | apply kp_update_all | apply kp_find_next_event_date
        | apply kp_sys_population | apply kp_route_of | apply kp_find_next_active_node | apply kp_exit_accept ].
Ltac kpa := kp using kp_lem.

(* ====================================================================================================================== *)
(* Part 0b: a Hoare logic on views.  ht K P Q m: from a state whose view satisfies P (and the remembered facts K, which    *)
(* are dropped as soon as the view changes), m leads to a state whose view satisfies Q; node identities stay positions.   *)
(* ====================================================================================================================== *)
Definition ht (K P Q : vw -> Prop) {X} (m : M X) : Prop :=
  forall s a s', bidx (BV s) -> K (BV s) -> P (BV s) -> m s = Ok (a, s') -> bidx (BV s') /\ Q (BV s').

Lemma ht_keep (K P : vw -> Prop) {X} (m : M X) : keepK K m -> ht K P P m.
Proof. intros Hm s a s' HI HK HP H. rewrite (Hm _ _ _ HI HK H). auto. Qed.
Lemma ht_bind_keep (K P Q : vw -> Prop) {X Y} (m : M X) (f : X -> M Y) :
  keepK K m -> (forall a, ht K P Q (f a)) -> ht K P Q (bind m f).
Proof.
  intros Hm Hf s b s' HI HK HP H. unfold bind in H. destruct (m s) as [[a s1]| |] eqn:E; try discriminate.
  pose proof (Hm _ _ _ HI HK E) as E1. eapply Hf; [| | |exact H]; rewrite E1; assumption.
Qed.
Lemma ht_bind (K P R Q : vw -> Prop) {X Y} (m : M X) (f : X -> M Y) :
  ht K P R m -> (forall a, ht KT R Q (f a)) -> ht K P Q (bind m f).
Proof.
  intros Hm Hf s b s' HI HK HP H. unfold bind in H. destruct (m s) as [[a s1]| |] eqn:E; try discriminate.
  destruct (Hm _ _ _ HI HK HP E) as [I1 R1]. exact (Hf a _ _ _ I1 I R1 H).
Qed.
Lemma ht_get_node_bind (K P Q : vw -> Prop) {Y} j (f : node -> M Y) :
  (forall nd, n_id nd = j -> 1 <= j -> ht (fun sh => K sh /\ okn sh nd) P Q (f nd)) -> ht K P Q (bind (get_node j) f).
Proof.
  intros Hf s b s' HI HK HP H. unfold bind in H. destruct (get_node j s) as [[nd s1]| |] eqn:E; try discriminate.
  apply Conserve2.get_node_spec in E as (-> & Hj & Hn). destruct (get_node_okn j s nd HI Hn) as [Hid Ho].
  eapply Hf; [exact Hid|exact Hj|exact HI| |exact HP|exact H]. split; assumption.
Qed.
Lemma ht_lift_bind (K P Q : vw -> Prop) {X Y} e (o : option X) (f : X -> M Y) :
  (forall a, o = Some a -> ht K P Q (f a)) -> ht K P Q (bind (lift e o) f).
Proof.
  intros Hf s b s' HI HK HP H. unfold bind in H. destruct o as [a|]; cbn in H; [|discriminate]. eapply Hf; eauto.
Qed.
Lemma ht_conseq (K P P' Q Q' : vw -> Prop) {X} (m : M X) :
  (forall sh, bidx sh -> K sh -> P sh -> P' sh) -> ht K P' Q' m -> (forall sh, bidx sh -> Q' sh -> Q sh) -> ht K P Q m.
Proof. intros H1 Hm H2 s a s' HI HK HP H. destruct (Hm _ _ _ HI HK (H1 _ HI HK HP) H) as [I1 Q1]. auto. Qed.
Lemma ht_pre (K P P' Q : vw -> Prop) {X} (m : M X) :
  (forall sh, bidx sh -> K sh -> P sh -> P' sh) -> ht K P' Q m -> ht K P Q m.
Proof. intros H1 Hm. eapply ht_conseq; [exact H1|exact Hm|auto]. Qed.
Lemma ht_post (K P Q Q' : vw -> Prop) {X} (m : M X) :
  ht K P Q' m -> (forall sh, bidx sh -> Q' sh -> Q sh) -> ht K P Q m.
Proof. intros Hm H2. eapply ht_conseq; [|exact Hm|exact H2]. auto. Qed.
Lemma ht_weakK (K K' P Q : vw -> Prop) {X} (m : M X) : (forall sh, K' sh -> K sh) -> ht K P Q m -> ht K' P Q m.
Proof. intros HK Hm s a s' HI Hk HP H. eapply Hm; eauto. Qed.
Lemma ht_T (K P Q : vw -> Prop) {X} (m : M X) : ht KT P Q m -> ht K P Q m.
Proof. apply ht_weakK. intros; exact I. Qed.
Lemma ht_ret (K P : vw -> Prop) {X} (a : X) : ht K P P (ret a).
Proof. apply ht_keep, kp_ret. Qed.
Lemma ht_fail (K P Q : vw -> Prop) {X} e : ht K P Q (@fail X e).
Proof. intros s a s' _ _ _ H. discriminate. Qed.
Lemma ht_oof (K P Q : vw -> Prop) {X} : ht K P Q (@oof X).
Proof. intros s a s' _ _ _ H. discriminate. Qed.
Lemma ht_forM (K P : vw -> Prop) {X} (f : X -> M unit) l : (forall a, ht KT P P (f a)) -> ht K P P (forM_ l f).
Proof.
  intros Hf. apply ht_T. induction l as [|a r IH]; cbn [forM_]; [apply ht_ret|].
  eapply ht_bind; [apply Hf|]. intros _. exact IH.
Qed.
(* a pure fact about the current view may be used to decide how to go on *)
Lemma ht_case (K P Q : vw -> Prop) (A : Prop) {X} (m : M X) :
  (forall sh, bidx sh -> K sh -> P sh -> A) -> (A -> ht K P Q m) -> ht K P Q m.
Proof. intros HA Hm s a s' HI HK HP H. exact (Hm (HA _ HI HK HP) s a s' HI HK HP H). Qed.

Lemma bidx_upd (sh : vw) k t t' : bidx sh -> nth_error sh k = Some t -> fst t' = fst t -> bidx (upd sh k t').
Proof.
  intros HI Hn He k' u Hu. destruct (Nat.eq_dec k k') as [<-|Hne].
  - rewrite (Conserve2.nth_error_upd_eq _ _ _ _ Hn) in Hu. injection Hu as <-. rewrite He. apply (HI k t Hn).
  - rewrite Conserve2.nth_error_upd_neq in Hu by exact Hne. apply (HI k' u Hu).
Qed.

(* the primitive move: a node known to sit in its slot is written back with another view *)
Lemma ht_put_node (K P Q : vw -> Prop) nd nd0 :
  (forall sh, K sh -> okn sh nd0) -> n_id nd = n_id nd0 ->
  (forall sh k, bidx sh -> K sh -> P sh -> nth_error sh k = Some (bview nd0) -> Q (upd sh k (bview nd))) ->
  ht K P Q (put_node nd).
Proof.
  intros HK Hid HQ s a s' HI Hk HP H. unfold put_node, modify in H. inversion H. clear H.
  pose proof (HK _ Hk) as Hn. unfold okn in Hn. destruct (Conserve2.nthZ_nat _ _ _ Hn) as (k & Hk0 & Hnk).
  assert (E : BV (s <| nodes := updZ (nodes s) (n_id nd - 1) nd |>) = upd (BV s) k (bview nd)).
  { unfold BV. cbn. rewrite Hid, Hk0, Conserve2.updZ_nat. apply Conserve2.upd_map. }
  rewrite E. split; [|apply HQ; assumption].
  eapply bidx_upd; [exact HI|exact Hnk|]. cbn. exact Hid.
Qed.

Ltac h_struct kt :=
  match goal with
  | |- ht _ _ _ (bind (get_node _) _) => apply ht_get_node_bind; intros ? ? ?
  | |- ht _ _ _ (bind _ _) => first [ (apply ht_bind_keep; [solve [kt]|intros ?]) | (eapply ht_bind; [|intros ?]) ]
  | |- ht _ _ _ (forM_ _ _) => apply ht_forM; intros ?
  | |- ht _ _ _ (if ?b then _ else _) => destruct b
  | |- ht _ _ _ (match ?x with _ => _ end) => destruct x
  end.
(* t: lemmas about the view-changing engine functions already treated *)
Tactic Notation "hk" "using" tactic(t) :=
  repeat first [ h_struct ltac:(kpa) | (apply ht_T; t) | t | (apply ht_keep; solve [kpa]) ].

(* ---------- list facts ---------- *)
Lemma Forall2_upd {X Y} (R : X -> Y -> Prop) l1 l2 k y y' :
  Forall2 R l1 l2 -> nth_error l2 k = Some y -> (forall x, nth_error l1 k = Some x -> R x y -> R x y') ->
  Forall2 R l1 (upd l2 k y').
Proof.
  intros H. revert k. induction H as [|a b l1 l2 Hab H IH]; intros [|k] Hn Hr; cbn in *; try discriminate.
  - injection Hn as <-. constructor; [apply Hr; auto|exact H].
  - constructor; [exact Hab|]. apply IH; assumption.
Qed.
Lemma Forall2_refl {X} (R : X -> X -> Prop) l : (forall x, R x x) -> Forall2 R l l.
Proof. intros HR. induction l; constructor; auto. Qed.
Lemma Forall2_trans {X} (R : X -> X -> Prop) a b c : (forall x y z, R x y -> R y z -> R x z) ->
  Forall2 R a b -> Forall2 R b c -> Forall2 R a c.
Proof.
  intros HR H. revert c. induction H as [|x y a b Hxy H IH]; intros c Hc; inversion Hc; subst; constructor; eauto.
Qed.
Lemma Forall2_nth {X Y} (R : X -> Y -> Prop) l1 l2 k x : Forall2 R l1 l2 -> nth_error l1 k = Some x ->
  exists y, nth_error l2 k = Some y /\ R x y.
Proof.
  intros H. revert k. induction H as [|a b l1 l2 Hab H IH]; intros [|k] Hn; cbn in *; try discriminate.
  - injection Hn as <-. eauto.
  - apply IH. exact Hn.
Qed.
Lemma Forall_nth {X} (P : X -> Prop) l k x : Forall P l -> nth_error l k = Some x -> P x.
Proof. intros H Hn. rewrite Forall_forall in H. apply H. eapply nth_error_In; eauto. Qed.

(* order-preserving sub-list *)
Inductive subl {A} : list A -> list A -> Prop :=
| subl_nil : subl [] []
| subl_skip x l l' : subl l l' -> subl l (x :: l')
| subl_keep x l l' : subl l l' -> subl (x :: l) (x :: l').
Lemma subl_refl {A} (l : list A) : subl l l.
Proof. induction l; [apply subl_nil|apply subl_keep; assumption]. Qed.
Lemma subl_nil_l {A} (l : list A) : subl [] l.
Proof. induction l; [apply subl_nil|apply subl_skip; assumption]. Qed.
Lemma subl_trans {A} (a b c : list A) : subl a b -> subl b c -> subl a c.
Proof.
  intros H1 H2. revert a H1. induction H2 as [|x l l' H2 IH|x l l' H2 IH]; intros a H1.
  - exact H1.
  - apply subl_skip. apply IH. exact H1.
  - inversion H1; subst; [apply subl_skip; apply IH; assumption|apply subl_keep; apply IH; assumption].
Qed.
Lemma subl_app_inv {A} (s a b : list A) : subl s (a ++ b) -> exists s1 s2, s = s1 ++ s2 /\ subl s1 a /\ subl s2 b.
Proof.
  revert s. induction a as [|x a IH]; intros s H; cbn in H.
  - exists [], s. split; [reflexivity|split; [apply subl_nil|exact H]].
  - inversion H as [|y l l' H2|y l l' H2]; subst.
    + destruct (IH _ H2) as (s1 & s2 & -> & A1 & A2). exists s1, s2. split; [reflexivity|split; [apply subl_skip; exact A1|exact A2]].
    + destruct (IH _ H2) as (s1 & s2 & -> & A1 & A2). exists (x :: s1), s2. split; [reflexivity|split; [apply subl_keep; exact A1|exact A2]].
Qed.
Lemma subl_skipn {A} n (l : list A) : subl (skipn n l) l.
Proof. revert l; induction n as [|n IH]; intros l; [apply subl_refl|]. destruct l; cbn; [apply subl_nil|apply subl_skip; apply IH]. Qed.
Lemma subl_In {A} (a b : list A) x : subl a b -> In x a -> In x b.
Proof. intros H. induction H; cbn; intros Hi; [exact Hi|right; auto|destruct Hi; [left; assumption|right; auto]]. Qed.
Lemma remove_pair_subl p l l' : remove_pair p l = Some l' -> subl l' l /\ length l = S (length l').
Proof.
  revert l'; induction l as [|h t IH]; cbn; intros l' H; [discriminate|].
  destruct ((fst h =? fst p) && (snd h =? snd p)).
  - injection H as <-. split; [apply subl_skip; apply subl_refl|reflexivity].
  - destruct (remove_pair p t) as [t'|]; cbn in H; [|discriminate]. injection H as <-.
    destruct (IH _ eq_refl) as [A B]. split; [apply subl_keep; exact A|cbn; rewrite B; reflexivity].
Qed.
Lemma skipn_skipn {A} (a b : nat) (l : list A) : skipn a (skipn b l) = skipn (b + a) l.
Proof. revert l; induction b as [|b IH]; intros l; [reflexivity|]. destruct l as [|x r]; [cbn; apply skipn_nil|]. cbn. apply IH. Qed.

Lemma bool_cases (b : bool) : b = true \/ b = false.
Proof. destruct b; auto. Qed.

Definition cap_of (cf : config) (j : Z) : option Z :=
  match nthZ (cf_nodes cf) (j - 1) with Some nc => nc_cap nc | None => None end.

Lemma ht_put_node_ex (K P Q : vw -> Prop) nd :
  (forall sh, bidx sh -> K sh -> P sh -> exists nd0, okn sh nd0 /\ n_id nd = n_id nd0 /\
      forall k, nth_error sh k = Some (bview nd0) -> Q (upd sh k (bview nd))) ->
  ht K P Q (put_node nd).
Proof.
  intros HQ s a s' HI Hk HP H. unfold put_node, modify in H. inversion H. clear H.
  destruct (HQ _ HI Hk HP) as (nd0 & Hn & Hid & HQ'). unfold okn in Hn. destruct (Conserve2.nthZ_nat _ _ _ Hn) as (k & Hk0 & Hnk).
  assert (E : BV (s <| nodes := updZ (nodes s) (n_id nd - 1) nd |>) = upd (BV s) k (bview nd)).
  { unfold BV. cbn. rewrite Hid, Hk0, Conserve2.updZ_nat. apply Conserve2.upd_map. }
  rewrite E. split; [|apply HQ'; assumption].
  eapply bidx_upd; [exact HI|exact Hnk|]. cbn. exact Hid.
Qed.
Lemma ht_ncfg_bind cf (K P Q : vw -> Prop) {Y} j (f : ncfg -> M Y) :
  (forall nc, nthZ (cf_nodes cf) (j - 1) = Some nc -> ht K P Q (f nc)) -> ht K P Q (bind (ncfg_of cf j) f).
Proof. intros Hf. unfold ncfg_of. apply ht_lift_bind. exact Hf. Qed.

Lemma okn_nth sh nd : okn sh nd -> exists k, Z.of_nat k = n_id nd - 1 /\ nth_error sh k = Some (bview nd).
Proof. unfold okn. intros H. destruct (Conserve2.nthZ_nat _ _ _ H) as (k & Hk & Hn). exists k. split; [lia|exact Hn]. Qed.

(* has_space: what the answer says about the current view *)
Definition spaceK (cf : config) (d : Z) (b : bool) (sh : vw) : Prop :=
  (d = -1 /\ b = true) \/
  (d <> -1 /\ exists x, nthZ sh (d - 1) = Some (d, x) /\ b = match cap_of cf d with None => true | Some c => vpop x <? c end).
Lemma has_space_spec cf d s b s' : bidx (BV s) -> has_space cf d s = Ok (b, s') -> s' = s /\ spaceK cf d b (BV s).
Proof.
  intros HI H. unfold has_space in H. destruct (d =? -1) eqn:Ed.
  - apply Z.eqb_eq in Ed. inversion H. split; [reflexivity|]. left. auto.
  - apply Z.eqb_neq in Ed. unfold bind in H.
    destruct (get_node d s) as [[dn s1]| |] eqn:E1; try discriminate. apply Conserve2.get_node_spec in E1 as (-> & Hd & Hn).
    unfold ncfg_of in H. destruct (nthZ (cf_nodes cf) (d - 1)) as [dc|] eqn:E2; cbn in H; [|discriminate].
    unfold ret in H. injection H as Hb <-. split; [reflexivity|]. right. split; [exact Ed|].
    destruct (get_node_okn d s dn HI Hn) as [Hid Ho]. unfold okn in Ho. rewrite Hid in Ho.
    exists (snd (bview dn)). split; [rewrite Ho; unfold bview; cbn; rewrite Hid; reflexivity|].
    unfold cap_of. rewrite E2, <- Hb. reflexivity.
Qed.
Lemma ht_has_space_bind cf (K P Q : vw -> Prop) {Y} d (f : bool -> M Y) :
  (forall b, ht (fun sh => K sh /\ spaceK cf d b sh) P Q (f b)) -> ht K P Q (bind (has_space cf d) f).
Proof.
  intros Hf s b s' HI HK HP H. unfold bind in H. destruct (has_space cf d s) as [[sp s1]| |] eqn:E; try discriminate.
  apply has_space_spec in E as [-> Hs]; [|exact HI]. eapply Hf; [exact HI| |exact HP|exact H]. split; assumption.
Qed.

Ltac h_struct2 kt :=
  match goal with
  | |- ht _ _ _ (bind (get_node _) _) => apply ht_get_node_bind; intros ? ? ?
  | |- ht _ _ _ (bind (lift _ _) _) => apply ht_lift_bind; intros ? ?
  | |- ht _ _ _ (bind (ncfg_of _ _) _) => apply ht_ncfg_bind; intros ? ?
  | |- ht _ _ _ (bind _ _) => first [ (apply ht_bind_keep; [solve [kt]|intros ?]) | (eapply ht_bind; [|intros ?]) ]
  | |- ht _ _ _ (forM_ _ _) => apply ht_forM; intros ?
  | |- ht _ _ _ (if ?b then _ else _) => destruct b eqn:?
  | |- ht _ _ _ (match ?x with _ => _ end) => destruct x eqn:?
  end.
Tactic Notation "hh" "using" tactic(t) :=
  repeat first [ h_struct2 ltac:(kpa) | (apply ht_T; t) | t | (apply ht_keep; solve [kpa]) | apply ht_fail | apply ht_oof ].

(* ====================================================================================================================== *)
(* Part A: the counter is the length, blocked queues keep their order -- every configuration; in the scope without        *)
(* non-rerouting interruptions (strict mode) blocked queues only lose heads, except for the one customer that blocks      *)
(* ====================================================================================================================== *)
Definition scope_fifo_nc (nc : ncfg) : bool :=
  match nc_srv nc with
  | SFixed => true
  | SSched sc => (sc_pre sc =? 0) || (sc_pre sc =? 4)
  | SSlot sl => negb (sl_cap sl) || (sl_pre sl =? 0) || (sl_pre sl =? 4)
  end.
Definition scope_fifo (cf : config) : bool := forallb scope_fifo_nc (cf_nodes cf).

Section PartA.
  Variable cf : config.
  Variable st : bool.
  Hypothesis Hsc : st = true -> scope_fifo cf = true.

  Definition rb (b b' : bq_t) : Prop :=
    if st then exists n, b' = skipn n b else exists sub t, b' = sub ++ t /\ subl sub b.
  Lemma rb_refl b : rb b b.
  Proof. unfold rb. destruct st; [exists 0%nat; reflexivity|exists b, []; split; [rewrite app_nil_r; reflexivity|apply subl_refl]]. Qed.
  Lemma rb_trans a b c : rb a b -> rb b c -> rb a c.
  Proof.
    unfold rb. destruct st.
    - intros [n ->] [m ->]. exists (n + m)%nat. apply skipn_skipn.
    - intros (s1 & t1 & -> & S1) (s2 & t2 & -> & S2). apply subl_app_inv in S2 as (u1 & u2 & -> & U1 & U2).
      exists u1, (u2 ++ t2). split; [rewrite app_assoc; reflexivity|eapply subl_trans; eauto].
  Qed.

  Definition ia1 (x : nview) : Prop := vlen x = zlen (vbq x) /\ (st = true -> vnint x <= 0).
  Definition IA (sh : vw) : Prop := Forall (fun t => ia1 (snd t)) sh.
  Definition RA (sh sh' : vw) : Prop := Forall2 (fun t t' => fst t' = fst t /\ rb (vbq (snd t)) (vbq (snd t'))) sh sh'.
  Definition PA (sh0 sh : vw) : Prop := IA sh /\ RA sh0 sh.
  Definition astep (x x' : nview) : Prop := (ia1 x -> ia1 x') /\ rb (vbq x) (vbq x').
  Definition astepN (nd0 nd : node) : Prop := astep (snd (bview nd0)) (snd (bview nd)).

  Lemma RA_refl sh : RA sh sh.
  Proof. apply Forall2_refl. intros x. split; [reflexivity|apply rb_refl]. Qed.
  Lemma RA_trans a b c : RA a b -> RA b c -> RA a c.
  Proof. apply Forall2_trans. intros x y z [A1 A2] [B1 B2]. split; [congruence|eapply rb_trans; eauto]. Qed.
  Lemma PA_start sh : IA sh -> PA sh sh.
  Proof. intros H. split; [exact H|apply RA_refl]. Qed.

  Lemma PA_upd sh0 sh k j x x' : PA sh0 sh -> nth_error sh k = Some (j, x) -> astep x x' -> PA sh0 (upd sh k (j, x')).
  Proof.
    intros [HIA HRA] Hn [Hi Hr]. split.
    - apply Conserve2.Forall_upd; [exact HIA|]. cbn. apply Hi. exact (Forall_nth _ _ _ _ HIA Hn).
    - eapply Forall2_upd; [exact HRA|exact Hn|]. cbn. intros x0 _ [A1 A2]. split; [exact A1|eapply rb_trans; eauto].
  Qed.

  Lemma hA_put_node (K : vw -> Prop) sh0 nd :
    (forall sh, K sh -> exists nd0, okn sh nd0 /\ n_id nd = n_id nd0 /\ astepN nd0 nd) -> ht K (PA sh0) (PA sh0) (put_node nd).
  Proof.
    intros HK. apply ht_put_node_ex. intros sh _ Hk HP. destruct (HK _ Hk) as (nd0 & Ho & Hid & Hs).
    exists nd0. split; [exact Ho|]. split; [exact Hid|]. intros k Hn.
    replace (bview nd) with (n_id nd0, snd (bview nd)) by (unfold bview; cbn; rewrite Hid; reflexivity).
    eapply PA_upd; [exact HP|exact Hn|exact Hs].
  Qed.

  Lemma astepN_same nd0 nd : n_bq nd = n_bq nd0 -> n_lenbq nd = n_lenbq nd0 -> n_nint nd = n_nint nd0 -> astepN nd0 nd.
  Proof.
    intros Hb Hl Hn. unfold astepN, astep, ia1, vlen, vbq, vnint, bview; cbn. rewrite Hb, Hl, Hn. split; [auto|apply rb_refl].
  Qed.
  Lemma astepN_nint_dec nd0 nd : n_bq nd = n_bq nd0 -> n_lenbq nd = n_lenbq nd0 -> n_nint nd = n_nint nd0 - 1 -> astepN nd0 nd.
  Proof.
    intros Hb Hl Hn. unfold astepN, astep, ia1, vlen, vbq, vnint, bview; cbn. rewrite Hb, Hl, Hn. split; [|apply rb_refl].
    intros [A B]. split; [exact A|]. intros E. specialize (B E). lia.
  Qed.
  Lemma astepN_pop nd0 nd e : n_bq nd0 = e :: n_bq nd -> n_lenbq nd = n_lenbq nd0 - 1 -> n_nint nd = n_nint nd0 -> astepN nd0 nd.
  Proof.
    intros Hb Hl Hn. unfold astepN, astep, ia1, vlen, vbq, vnint, bview; cbn. rewrite Hb, Hl, Hn. split.
    - intros [A B]. split; [|exact B]. unfold zlen in *. cbn [length] in A. lia.
    - unfold rb. destruct st; [exists 1%nat; reflexivity|]. exists (n_bq nd), []. split; [rewrite app_nil_r; reflexivity|apply subl_skip, subl_refl].
  Qed.
  Lemma astepN_rm nd0 nd p : st = false -> remove_pair p (n_bq nd0) = Some (n_bq nd) -> n_lenbq nd = n_lenbq nd0 - 1 -> n_nint nd = n_nint nd0 -> astepN nd0 nd.
  Proof.
    intros Est Hb Hl Hn. apply remove_pair_subl in Hb as [S1 L1].
    unfold astepN, astep, ia1, vlen, vbq, vnint, bview; cbn. rewrite Hl, Hn. split.
    - intros [A B]. split; [|exact B]. unfold zlen in *. rewrite L1 in A. lia.
    - unfold rb. rewrite Est. exists (n_bq nd), []. split; [rewrite app_nil_r; reflexivity|exact S1].
  Qed.
  Lemma astepN_push nd0 nd e : st = false -> n_bq nd = n_bq nd0 ++ [e] -> n_lenbq nd = n_lenbq nd0 + 1 -> n_nint nd = n_nint nd0 -> astepN nd0 nd.
  Proof.
    intros Est Hb Hl Hn. unfold astepN, astep, ia1, vlen, vbq, vnint, bview; cbn. rewrite Hb, Hl, Hn. split.
    - intros [A B]. split; [|exact B]. unfold zlen in *. rewrite app_length. cbn [length]. lia.
    - unfold rb. rewrite Est. exists (n_bq nd0), [e]. split; [reflexivity|apply subl_refl].
  Qed.
  Lemma astepN_nint nd0 nd : st = false -> n_bq nd = n_bq nd0 -> n_lenbq nd = n_lenbq nd0 -> astepN nd0 nd.
  Proof.
    intros Est Hb Hl. unfold astepN, astep, ia1, vlen, vbq, vnint, bview; cbn. rewrite Hb, Hl. split; [|apply rb_refl].
    intros [A B]. split; [exact A|]. rewrite Est. discriminate.
  Qed.

  Lemma okn_IA sh nd : okn sh nd -> IA sh -> ia1 (snd (bview nd)).
  Proof. intros Ho HIA. apply okn_nth in Ho as (k & _ & Hn). exact (Forall_nth _ _ _ _ HIA Hn). Qed.

  Notation tA K m := (forall sh0, ht K (PA sh0) (PA sh0) m).

  Ltac hA_astep :=
    first [ (apply astepN_same; reflexivity)
          | (apply astepN_nint_dec; reflexivity)
          | (eapply astepN_pop; [cbn; eassumption|reflexivity|reflexivity])
          | (eapply astepN_rm; [eassumption|cbn; eassumption|reflexivity|reflexivity])
          | (eapply astepN_push; [eassumption|reflexivity|reflexivity|reflexivity])
          | (apply astepN_nint; [eassumption|reflexivity|reflexivity]) ].
  Ltac hA_side :=
    let sh := fresh "sh" in let HK := fresh "HK" in
    intros sh HK; repeat match goal with H : _ /\ _ |- _ => destruct H end;
    match goal with H : okn sh ?n |- _ => exists n; split; [exact H|split; [reflexivity|hA_astep]] end.

  Lemma hA_upd_node (K : vw -> Prop) j (g : node -> node) :
    (forall nd, n_id (g nd) = n_id nd /\ astepN nd (g nd)) -> tA K (upd_node j g).
  Proof.
    intros Hg sh0. unfold upd_node. apply ht_get_node_bind. intros nd Hid Hj. apply hA_put_node.
    intros sh [_ Ho]. exists nd. split; [exact Ho|]. apply Hg.
  Qed.

  Tactic Notation "hA" "using" tactic(t) :=
    hh using first [ t | (apply hA_put_node; hA_side) | (apply hA_upd_node; intros ?; split; [reflexivity|hA_astep]) ].

  Lemma scope_nc j nc : st = true -> nthZ (cf_nodes cf) (j - 1) = Some nc -> scope_fifo_nc nc = true.
  Proof.
    intros Est Hn. specialize (Hsc Est). unfold scope_fifo in Hsc. rewrite forallb_forall in Hsc. apply Hsc.
    destruct (Conserve2.nthZ_nat _ _ _ Hn) as (k & _ & Hk). eapply nth_error_In; eauto.
  Qed.

  Lemma hA_bii j sid : st = false -> tA KT (begin_interrupted_individuals_service j sid).
  Proof. intros Est sh0. unfold begin_interrupted_individuals_service. hA using fail. Qed.

  Lemma hA_serve_with j sid : tA KT (serve_with cf j sid).
  Proof.
    intros sh0. unfold serve_with. apply ht_get_node_bind. intros nd Hid Hj.
    destruct (0 <? n_nint nd) eqn:E.
    - destruct (bool_cases st) as [Est|Est]; [|apply ht_T, hA_bii; exact Est].
      apply (ht_case _ _ _ False); [|intros []]. intros sh _ [_ Ho] [HIA _].
      destruct (okn_IA _ _ Ho HIA) as [_ B]. specialize (B Est). unfold vnint, bview in B. cbn in B. apply Z.ltb_lt in E. lia.
    - hA using fail.
  Qed.

  Lemma hA_bsipr j freed : tA KT (begin_service_if_possible_release cf j freed).
  Proof. intros sh0. unfold begin_service_if_possible_release. hA using (apply hA_serve_with). Qed.

  Lemma hA_block_individual j i d : st = false -> tA KT (block_individual j i d).
  Proof. intros Est sh0. unfold block_individual. hA using fail. Qed.

  Lemma core_A : forall f,
    (forall j i d rr, tA KT (release cf f j i d rr)) /\
    (forall j, tA KT (release_blocked_individual cf f j)) /\
    (forall j i, tA KT (accept cf f j i)) /\
    (forall j v i, tA KT (preempt cf f j v i)).
  Proof.
    induction f as [|f (IHr & IHb & IHa & IHp)].
    - split; [|split; [|split]]; intros; simpl; apply ht_oof.
    - split; [|split; [|split]].
      + intros j i d rr sh0. simpl release. hA using first [apply IHa | apply IHb | apply hA_bsipr].
      + intros j sh0. simpl release_blocked_individual. hA using (apply IHr).
      + intros j i sh0. simpl accept. hA using (apply IHp).
      + intros j v i sh0. simpl preempt. hA using (apply IHr).
  Qed.

  Lemma hA_release f j i d rr : tA KT (release cf f j i d rr). Proof. apply core_A. Qed.
  Lemma hA_rbi f j : tA KT (release_blocked_individual cf f j). Proof. apply core_A. Qed.
  Lemma hA_accept f j i : tA KT (accept cf f j i). Proof. apply core_A. Qed.
  Lemma hA_preempt f j v i : tA KT (preempt cf f j v i). Proof. apply core_A. Qed.

  Lemma hA_interrupt_service f j i pre : (st = true -> pre = 4) -> tA KT (interrupt_service cf f j i pre).
  Proof.
    intros Hp sh0. unfold interrupt_service. destruct (bool_cases st) as [Est|Est].
    - rewrite (Hp Est). rewrite Z.eqb_refl. cbv iota. hA using (apply hA_release).
    - hA using (apply hA_release).
  Qed.

  Lemma hA_off_duty_loop k f j pre se : (st = true -> pre = 4) -> forall idx, tA KT (off_duty_loop cf k f j idx pre se).
  Proof.
    intros Hp. induction k as [|k IH]; intros idx sh0; cbn [off_duty_loop]; [apply ht_ret|].
    hA using first [apply hA_interrupt_service; exact Hp | apply IH].
  Qed.

  Lemma hA_take_servers_off_duty f j pre : (st = true -> pre = 0 \/ pre = 4) -> tA KT (take_servers_off_duty cf f j pre).
  Proof.
    intros Hp sh0. unfold take_servers_off_duty.
    assert (Hp' : (pre =? 0) = false -> st = true -> pre = 4).
    { intros E Est. apply Z.eqb_neq in E. destruct (Hp Est); [contradiction|assumption]. }
    hA using (apply hA_off_duty_loop; auto).
  Qed.

  Lemma hA_bsip_change_shift j : tA KT (begin_service_if_possible_change_shift cf j).
  Proof. intros sh0. unfold begin_service_if_possible_change_shift. hA using (apply hA_serve_with). Qed.

  Lemma scope_sched j nc sc : nthZ (cf_nodes cf) (j - 1) = Some nc -> nc_srv nc = SSched sc -> st = true -> sc_pre sc = 0 \/ sc_pre sc = 4.
  Proof.
    intros Hn Hs Est. pose proof (scope_nc j nc Est Hn) as H. unfold scope_fifo_nc in H. rewrite Hs in H.
    apply orb_true_iff in H as [H|H]; apply Z.eqb_eq in H; auto.
  Qed.
  Lemma scope_slot j nc sl : nthZ (cf_nodes cf) (j - 1) = Some nc -> nc_srv nc = SSlot sl ->
    (sl_cap sl && negb (sl_pre sl =? 0)) = true -> st = true -> sl_pre sl = 4.
  Proof.
    intros Hn Hs Hb Est. pose proof (scope_nc j nc Est Hn) as H. unfold scope_fifo_nc in H. rewrite Hs in H.
    apply andb_true_iff in Hb as [B1 B2]. rewrite B1 in H. cbn in H. apply negb_true_iff in B2. rewrite B2 in H. cbn in H.
    apply Z.eqb_eq in H. exact H.
  Qed.

  Lemma hA_change_shift j : tA KT (change_shift cf j).
  Proof.
    intros sh0. unfold change_shift.
    hA using first [ (apply hA_take_servers_off_duty; eapply scope_sched; eassumption) | apply hA_bsip_change_shift ].
  Qed.

  Lemma hA_slot_loop k j : tA KT (slot_loop cf k j).
  Proof. induction k as [|k IH]; intros sh0; cbn [slot_loop]; [apply ht_ret|]. hA using (apply IH). Qed.

  Lemma hA_slotted_service j : tA KT (slotted_service cf j).
  Proof.
    intros sh0. unfold slotted_service.
    hA using first [ (apply hA_interrupt_service; eapply scope_slot; eassumption) | apply hA_slot_loop ].
  Qed.

  Lemma hA_ccww j : tA KT (change_customer_class_while_waiting cf j).
  Proof. intros sh0. unfold change_customer_class_while_waiting. hA using (apply hA_preempt). Qed.

  Lemma hA_renege j : tA KT (renege cf j).
  Proof. intros sh0. unfold renege. hA using first [apply hA_accept | apply hA_rbi]. Qed.

  Lemma hA_send_individual j i : tA KT (send_individual cf j i).
  Proof. intros sh0. unfold send_individual. hA using (apply hA_accept). Qed.
  Lemma hA_release_individual j i : tA KT (release_individual cf j i).
  Proof. intros sh0. unfold release_individual. hA using (apply hA_send_individual). Qed.
  Lemma hA_batch_loop n : forall j c p, tA KT (batch_loop cf n j c p).
  Proof. induction n as [|n IH]; intros j c p sh0; cbn [batch_loop]; [apply ht_ret|]. hA using first [apply hA_release_individual | apply IH]. Qed.
  Lemma hA_arrival_have_event : tA KT (arrival_have_event cf).
  Proof. intros sh0. unfold arrival_have_event. hA using (apply hA_batch_loop). Qed.

  (* one event either only takes heads (strict mode) / keeps the order, or pushes exactly one customer of node j at the end of
     the blocked queue of a node D that is full, nothing else changing *)
  Definition pushR (j : Z) (sh0 sh : vw) : Prop :=
    exists kD D x i c, nth_error sh0 kD = Some (D, x) /\ cap_of cf D = Some c /\ c <= vpop x /\
      sh = upd sh0 kD (D, (vpop x, vbq x ++ [(j, i)], vlen x + 1, vnint x)).
  Definition PD (j : Z) (sh0 sh : vw) : Prop := IA sh /\ (RA sh0 sh \/ pushR j sh0 sh).
  Definition P0 (sh0 sh : vw) : Prop := IA sh /\ sh = sh0.

  Lemma hA_to_PD (K : vw -> Prop) j sh0 {X} (m : M X) : ht K (PA sh0) (PA sh0) m -> ht K (P0 sh0) (PD j sh0) m.
  Proof.
    intros Hm. eapply ht_conseq; [|exact Hm|].
    - intros sh _ _ [HIA ->]. apply PA_start. exact HIA.
    - intros sh _ [HIA HRA]. split; [exact HIA|left; exact HRA].
  Qed.

  Lemma hA_finish_service j sh0 : ht KT (P0 sh0) (PD j sh0) (finish_service cf j).
  Proof.
    unfold finish_service.
    apply ht_get_node_bind; intros nd Hid Hj.
    apply ht_bind_keep; [kpa|intros i].
    apply ht_bind_keep; [kpa|intros _].
    apply ht_bind_keep; [kpa|intros d].
    apply ht_bind_keep; [kpa|intros _].
    apply ht_bind_keep; [kpa|intros nc].
    apply ht_bind_keep; [kpa|intros _].
    apply ht_has_space_bind. intros sp. destruct sp.
    - apply ht_bind_keep; [kpa|intros fl]. apply hA_to_PD. apply ht_T, hA_release.
    - unfold block_individual. apply ht_bind_keep; [kpa|intros _]. unfold upd_node.
      apply ht_get_node_bind; intros dn Hdid Hd.
      apply ht_put_node_ex. intros sh HI [[_ Hsp] Ho] [HIA ->].
      exists dn. split; [exact Ho|]. split; [reflexivity|]. intros k Hk.
      destruct Hsp as [[-> _]|(Hd1 & x' & Hx' & Hb)]; [lia|].
      assert (Ex : x' = snd (bview dn)).
      { unfold okn in Ho. rewrite Hdid in Ho. rewrite Ho in Hx'. injection Hx' as _ <-. reflexivity. }
      destruct (cap_of cf d) as [c|] eqn:Ec; [|discriminate Hb]. symmetry in Hb. apply Z.ltb_ge in Hb.
      split.
      + apply Conserve2.Forall_upd; [exact HIA|]. pose proof (Forall_nth _ _ _ _ HIA Hk) as [A B].
        unfold ia1, vlen, vbq, vnint, bview in *. cbn in *. split; [|exact B]. unfold zlen in *. rewrite app_length. cbn [length]. lia.
      + right. exists k, d, (snd (bview dn)), i, c. rewrite <- Hdid at 1. split; [exact Hk|]. split; [exact Ec|].
        split; [rewrite <- Ex; exact Hb|]. unfold bview, vpop, vbq, vlen, vnint. cbn. rewrite Hdid. reflexivity.
  Qed.

  Lemma hA_node_have_event j sh0 : ht KT (P0 sh0) (PD j sh0) (node_have_event cf j).
  Proof.
    unfold node_have_event. apply ht_get_node_bind; intros nd Hid Hj.
    destruct (n_next_type nd =? 0); [apply ht_T, hA_finish_service|].
    apply hA_to_PD.
    destruct (n_next_type nd =? 1); [apply ht_T, hA_change_shift|].
    destruct (n_next_type nd =? 2); [apply ht_T, hA_renege|].
    destruct (n_next_type nd =? 3); [apply ht_T, hA_ccww|].
    destruct (n_next_type nd =? 4); [apply ht_T, hA_slotted_service|apply ht_ret].
  Qed.

  Definition after_event (k : Z) : M unit :=
    (if k =? 0 then arrival_have_event cf else node_have_event cf k) ;;;
    ns <- gets nodes ;; update_all cf (map n_id ns) ;;; find_next_active_node.
  Lemma event_step_unfold s : event_step cf s = after_event (next_active s) (s <| log := [] |>).
  Proof. reflexivity. Qed.

  Lemma hA_after_event k sh0 : ht KT (P0 sh0) (PD k sh0) (after_event k).
  Proof.
    unfold after_event. eapply ht_bind.
    - destruct (k =? 0); [apply hA_to_PD, hA_arrival_have_event|apply hA_node_have_event].
    - intros _. apply ht_keep. kpa.
  Qed.

  Lemma event_step_A s s' : bidx (BV s) -> IA (BV s) -> event_step cf s = Ok (tt, s') ->
    bidx (BV s') /\ PD (next_active s) (BV s) (BV s').
  Proof.
    intros HI HIA H. rewrite event_step_unfold in H.
    assert (E : BV (s <| log := [] |>) = BV s) by reflexivity.
    apply (hA_after_event (next_active s) (BV s) _ _ _) in H; [exact H|rewrite E; exact HI|exact I|rewrite E; split; [exact HIA|reflexivity]].
  Qed.
End PartA.

(* ====================================================================================================================== *)
(* Part B: nobody is blocked to a node that has space (C07), no node is over its capacity (C06)                            *)
(* ====================================================================================================================== *)
(* scope for C07: every kind of rerouting pre-emption (priority, shift change, capacitated slot) only at nodes without a
   capacity limit (a rerouted customer leaves its node without the node being re-filled from its blocked queue) *)
Definition scope_blk_nc (nc : ncfg) : bool :=
  match nc_cap nc with
  | None => true
  | Some _ => negb (nc_preempt nc =? 4) &&
              match nc_srv nc with
              | SFixed => true
              | SSched sc => negb (sc_pre sc =? 4)
              | SSlot sl => negb (sl_cap sl && (sl_pre sl =? 4))
              end
  end.
Definition scope_blk (cf : config) : bool := forallb scope_blk_nc (cf_nodes cf).
(* scope for C06: no rerouting pre-emption at all, and reneging customers jockey only to the exit or to nodes without a
   capacity limit (neither move tests the capacity of the node it enters) *)
Definition noreroute_nc (nc : ncfg) : bool :=
  negb (nc_preempt nc =? 4) &&
  match nc_srv nc with
  | SFixed => true
  | SSched sc => negb (sc_pre sc =? 4)
  | SSlot sl => negb (sl_cap sl && (sl_pre sl =? 4))
  end.
Definition jockey_ok (cf : config) (r : nrouter) : bool :=
  match r with
  | RJockey _ jk => (jk =? -1) || ((1 <=? jk) && match cap_of cf jk with None => true | Some _ => false end)
  | _ => true
  end.
Definition scope_cap (cf : config) : bool :=
  forallb noreroute_nc (cf_nodes cf) &&
  forallb (fun rt => match rt with RtNR rs => forallb (jockey_ok cf) rs | _ => true end) (cf_routing cf).

Lemma scope_cap_blk cf : scope_cap cf = true -> scope_blk cf = true.
Proof.
  unfold scope_cap, scope_blk. intros H. apply andb_true_iff in H as [H _]. rewrite forallb_forall in *.
  intros nc Hin. specialize (H nc Hin). unfold scope_blk_nc, noreroute_nc in *. destruct (nc_cap nc); [exact H|reflexivity].
Qed.

Definition ex0 : Z -> Z := fun _ => 0.
Definition add (dl : Z -> Z) (j n : Z) : Z -> Z := fun j' => if j' =? j then dl j' + n else dl j'.
Definition ex1 (j : Z) : Z -> Z := add ex0 j 1.
Definition xd (d : Z) : Z -> Z := if d =? -1 then ex0 else ex1 d.
Ltac slk :=
  intros; unfold xd, ex1, add, ex0 in *;
  repeat match goal with
         | |- context [?a =? ?b] => destruct (Z.eqb_spec a b)
         | H : context [?a =? ?b] |- _ => destruct (Z.eqb_spec a b)
         end; cbv beta in *; try lia; try congruence.

Local Arguments Z.eqb : simpl never.
Local Arguments Z.ltb : simpl never.
Local Arguments Z.leb : simpl never.
Local Arguments Z.add : simpl never.
Local Arguments Z.sub : simpl never.
Local Arguments Z.mul : simpl never.
Local Arguments Z.opp : simpl never.

Section PartB.
  Variable cf : config.
  Variable wc : bool.                      (* with the capacity clause (C06) or without *)
  Hypothesis HG : scope_blk cf = true.
  Hypothesis HC : wc = true -> scope_cap cf = true.

  (* node j with view x and slack d: the counter is the length; somebody is blocked to j only if j has a finite capacity and is
     full up to d places; (C06) j has d places left *)
  Definition Jx (j : Z) (x : nview) (d : Z) : Prop :=
    vlen x = zlen (vbq x) /\
    (vbq x <> [] -> exists c, cap_of cf j = Some c /\ c <= vpop x + d) /\
    (wc = true -> forall c, cap_of cf j = Some c -> vpop x + d <= c).
  Definition Jb (dl : Z -> Z) (sh : vw) : Prop := Forall (fun t => Jx (fst t) (snd t) (dl (fst t))) sh.

  Lemma Jb_ext dl dl' sh : (forall j, dl j = dl' j) -> Jb dl sh -> Jb dl' sh.
  Proof. intros He H. unfold Jb in *. eapply Forall_impl; [|exact H]. intros t Ht. cbn in *. rewrite <- He. exact Ht. Qed.

  Lemma Jb_upd dl dl' sh k j x x' : bidx sh -> Jb dl sh -> nth_error sh k = Some (j, x) ->
    (Jx j x (dl j) -> Jx j x' (dl' j)) -> (forall j', j' <> j -> dl' j' = dl j') -> Jb dl' (upd sh k (j, x')).
  Proof.
    intros HI HJ Hn Hx Hd. unfold Jb in *. rewrite Forall_forall in *. intros t Ht.
    apply In_nth_error in Ht as [k' Hk']. destruct (Nat.eq_dec k k') as [<-|Hne].
    - rewrite (Conserve2.nth_error_upd_eq _ _ _ _ Hn) in Hk'. injection Hk' as <-. cbn. apply Hx.
      exact (HJ _ (nth_error_In _ _ Hn)).
    - rewrite Conserve2.nth_error_upd_neq in Hk' by exact Hne.
      assert (Hj' : fst t <> j).
      { pose proof (HI _ _ Hk') as A. pose proof (HI _ _ Hn) as B. cbn in B. lia. }
      rewrite (Hd _ Hj'). exact (HJ _ (nth_error_In _ _ Hk')).
  Qed.
  (* pointwise change of the slack *)
  Lemma Jb_slack dl dl' sh : (forall j x, Jx j x (dl j) -> Jx j x (dl' j)) -> Jb dl sh -> Jb dl' sh.
  Proof. intros Hx H. unfold Jb in *. eapply Forall_impl; [|exact H]. intros t Ht. apply Hx. exact Ht. Qed.
  (* more slack is harmless for the blocking clause; it is allowed where the capacity clause is not claimed *)
  Lemma Jb_weak dl dl' sh : (forall j, dl j = dl' j \/ (dl j <= dl' j /\ (wc = false \/ cap_of cf j = None))) -> Jb dl sh -> Jb dl' sh.
  Proof.
    intros Hd. apply Jb_slack. intros j x (A & B & C). destruct (Hd j) as [E|[Hle Hw]]; [rewrite <- E; repeat split; assumption|].
    split; [exact A|]. split.
    - intros Hn. destruct (B Hn) as (c & Hc & Hl). exists c. split; [exact Hc|lia].
    - intros Ewc c Hc. destruct Hw as [Hw|Hw]; congruence.
  Qed.
  (* at a node without capacity limit the slack does not matter *)
  Lemma Jb_uncap dl dl' j sh : cap_of cf j = None -> (forall j', j' <> j -> dl' j' = dl j') -> Jb dl sh -> Jb dl' sh.
  Proof.
    intros Hc Hd. apply Jb_slack. intros j0 x (A & B & C). destruct (Z.eq_dec j0 j) as [->|Hne]; [|rewrite (Hd _ Hne); repeat split; assumption].
    split; [exact A|]. split.
    - intros Hn. destruct (B Hn) as (c & Hc' & _). congruence.
    - intros _ c Hc'. congruence.
  Qed.

  Definition jstepN (nd0 nd : node) (d d' : Z) : Prop :=
    Jx (n_id nd0) (snd (bview nd0)) d -> Jx (n_id nd0) (snd (bview nd)) d'.

  Lemma hB_put_node (K : vw -> Prop) dl dl' nd :
    (forall sh, K sh -> exists nd0, okn sh nd0 /\ n_id nd = n_id nd0 /\ jstepN nd0 nd (dl (n_id nd0)) (dl' (n_id nd0)) /\
                                    (forall j', j' <> n_id nd0 -> dl' j' = dl j')) ->
    ht K (Jb dl) (Jb dl') (put_node nd).
  Proof.
    intros HK. apply ht_put_node_ex. intros sh HI Hk HP. destruct (HK _ Hk) as (nd0 & Ho & Hid & Hs & Hd).
    exists nd0. split; [exact Ho|]. split; [exact Hid|]. intros k Hn.
    replace (bview nd) with (n_id nd0, snd (bview nd)) by (unfold bview; cbn; rewrite Hid; reflexivity).
    eapply Jb_upd; [exact HI|exact HP|exact Hn|exact Hs|exact Hd].
  Qed.

  Lemma jstepN_same nd0 nd d : n_pop nd = n_pop nd0 -> n_bq nd = n_bq nd0 -> n_lenbq nd = n_lenbq nd0 -> jstepN nd0 nd d d.
  Proof. intros Hp Hb Hl. unfold jstepN, Jx, vlen, vbq, vpop, bview; cbn. rewrite Hp, Hb, Hl. auto. Qed.
  Lemma jstepN_shrink nd0 nd d : n_pop nd = n_pop nd0 -> (n_bq nd <> [] -> n_bq nd0 <> []) ->
    (n_lenbq nd0 = zlen (n_bq nd0) -> n_lenbq nd = zlen (n_bq nd)) -> jstepN nd0 nd d d.
  Proof.
    intros Hp Hb Hl. unfold jstepN, Jx, vlen, vbq, vpop, bview; cbn. rewrite Hp. intros (A & B & C). split; [auto|]. split; [|exact C].
    intros Hn. apply B. auto.
  Qed.
  Lemma jstepN_pop nd0 nd e d : n_pop nd = n_pop nd0 -> n_bq nd0 = e :: n_bq nd -> n_lenbq nd = n_lenbq nd0 - 1 -> jstepN nd0 nd d d.
  Proof.
    intros Hp Hb Hl. apply jstepN_shrink; [exact Hp|rewrite Hb; discriminate|]. rewrite Hb, Hl. unfold zlen. cbn [length]. lia.
  Qed.
  Lemma jstepN_rm nd0 nd p d : n_pop nd = n_pop nd0 -> remove_pair p (n_bq nd0) = Some (n_bq nd) -> n_lenbq nd = n_lenbq nd0 - 1 -> jstepN nd0 nd d d.
  Proof.
    intros Hp Hb Hl. apply remove_pair_subl in Hb as [_ L1]. apply jstepN_shrink; [exact Hp| |].
    - intros _ E. rewrite E in L1. discriminate.
    - rewrite Hl. unfold zlen. rewrite L1. lia.
  Qed.
  Lemma jstepN_dec nd0 nd d : n_pop nd = n_pop nd0 - 1 -> n_bq nd = n_bq nd0 -> n_lenbq nd = n_lenbq nd0 -> jstepN nd0 nd d (d + 1).
  Proof.
    intros Hp Hb Hl. unfold jstepN, Jx, vlen, vbq, vpop, bview; cbn. rewrite Hp, Hb, Hl. intros (A & B & C). split; [exact A|]. split.
    - intros Hn. destruct (B Hn) as (c & Hc & Hle). exists c. split; [exact Hc|lia].
    - intros E c Hc. specialize (C E c Hc). lia.
  Qed.
  Lemma jstepN_inc nd0 nd d : n_pop nd = n_pop nd0 + 1 -> n_bq nd = n_bq nd0 -> n_lenbq nd = n_lenbq nd0 -> jstepN nd0 nd d (d + -1).
  Proof.
    intros Hp Hb Hl. unfold jstepN, Jx, vlen, vbq, vpop, bview; cbn. rewrite Hp, Hb, Hl. intros (A & B & C). split; [exact A|]. split.
    - intros Hn. destruct (B Hn) as (c & Hc & Hle). exists c. split; [exact Hc|lia].
    - intros E c Hc. specialize (C E c Hc). lia.
  Qed.
  Lemma jstepN_push nd0 nd e c d : cap_of cf (n_id nd0) = Some c -> c <= n_pop nd0 + d ->
    n_pop nd = n_pop nd0 -> n_bq nd = n_bq nd0 ++ [e] -> n_lenbq nd = n_lenbq nd0 + 1 -> jstepN nd0 nd d d.
  Proof.
    intros Hc Hle Hp Hb Hl. unfold jstepN, Jx, vlen, vbq, vpop, bview; cbn. rewrite Hp, Hb, Hl. intros (A & B & C). split; [|split; [|exact C]].
    - unfold zlen in *. rewrite app_length. cbn [length]. lia.
    - intros _. exists c. split; assumption.
  Qed.
  Lemma add_other dl j n j' : j' <> j -> add dl j n j' = dl j'.
  Proof. intros H. unfold add. destruct (Z.eqb_spec j' j); [contradiction|reflexivity]. Qed.
  Lemma add_same dl j n : add dl j n j = dl j + n.
  Proof. unfold add. rewrite Z.eqb_refl. reflexivity. Qed.

  Notation tB K m := (forall dl, ht K (Jb dl) (Jb dl) m).

  Ltac hB_jstep :=
    first [ (apply jstepN_same; reflexivity)
          | (eapply jstepN_pop; [reflexivity|cbn; eassumption|reflexivity])
          | (eapply jstepN_rm; [reflexivity|cbn; eassumption|reflexivity]) ].
  Ltac hB_side :=
    let sh := fresh "sh" in let HK := fresh "HK" in
    intros sh HK; repeat match goal with H : _ /\ _ |- _ => destruct H end;
    match goal with H : okn sh ?n |- _ => exists n; split; [exact H|split; [reflexivity|split; [hB_jstep|intros; reflexivity]]] end.
  Lemma hB_upd_node (K : vw -> Prop) j (g : node -> node) :
    (forall nd d, n_id (g nd) = n_id nd /\ jstepN nd (g nd) d d) -> tB K (upd_node j g).
  Proof.
    intros Hg dl. unfold upd_node. apply ht_get_node_bind. intros nd Hid Hj. apply hB_put_node.
    intros sh [_ Ho]. destruct (Hg nd (dl (n_id nd))) as [G1 G2]. exists nd. split; [exact Ho|]. split; [exact G1|]. split; [exact G2|reflexivity].
  Qed.
  Tactic Notation "hB" "using" tactic(t) :=
    hh using first [ t | (apply hB_put_node; hB_side) | (apply hB_upd_node; intros ? ?; split; [reflexivity|hB_jstep]) ].

  Lemma hB_bii j sid : tB KT (begin_interrupted_individuals_service j sid).
  Proof. intros dl. unfold begin_interrupted_individuals_service. hB using fail. Qed.
  Lemma hB_serve_with j sid : tB KT (serve_with cf j sid).
  Proof. intros dl. unfold serve_with. hB using (apply hB_bii). Qed.
  Lemma hB_bsipr j freed : tB KT (begin_service_if_possible_release cf j freed).
  Proof. intros dl. unfold begin_service_if_possible_release. hB using (apply hB_serve_with). Qed.
  Lemma hB_bsip_change_shift j : tB KT (begin_service_if_possible_change_shift cf j).
  Proof. intros dl. unfold begin_service_if_possible_change_shift. hB using (apply hB_serve_with). Qed.

  Ltac keeps := repeat (apply ht_bind_keep; [solve [kpa]|intros ?]).

  Lemma cap_of_nc j nc : nthZ (cf_nodes cf) (j - 1) = Some nc -> cap_of cf j = nc_cap nc.
  Proof. unfold cap_of. intros ->. reflexivity. Qed.
  Lemma nthZ_In {X} (l : list X) j x : nthZ l j = Some x -> In x l.
  Proof. intros H. destruct (Conserve2.nthZ_nat _ _ _ H) as (k & _ & Hk). eapply nth_error_In; eauto. Qed.
  Lemma scopeG_nc j nc : nthZ (cf_nodes cf) (j - 1) = Some nc -> scope_blk_nc nc = true.
  Proof. intros Hn. unfold scope_blk in HG. rewrite forallb_forall in HG. apply HG. eapply nthZ_In; eauto. Qed.
  Lemma scopeC_nc j nc : wc = true -> nthZ (cf_nodes cf) (j - 1) = Some nc -> noreroute_nc nc = true.
  Proof.
    intros E Hn. specialize (HC E). unfold scope_cap in HC. apply andb_true_iff in HC as [H _].
    rewrite forallb_forall in H. apply H. eapply nthZ_In; eauto.
  Qed.
  Lemma reroute_prio j nc : nthZ (cf_nodes cf) (j - 1) = Some nc -> (nc_preempt nc =? 4) = true -> cap_of cf j = None /\ wc = false.
  Proof.
    intros Hn E. split.
    - rewrite (cap_of_nc _ _ Hn). pose proof (scopeG_nc _ _ Hn) as H. unfold scope_blk_nc in H.
      destruct (nc_cap nc); [|reflexivity]. rewrite E in H. discriminate.
    - destruct (bool_cases wc) as [Ew|Ew]; [|exact Ew]. pose proof (scopeC_nc _ _ Ew Hn) as H. unfold noreroute_nc in H.
      rewrite E in H. discriminate.
  Qed.
  Lemma reroute_sched j nc sc : nthZ (cf_nodes cf) (j - 1) = Some nc -> nc_srv nc = SSched sc -> sc_pre sc = 4 -> cap_of cf j = None /\ wc = false.
  Proof.
    intros Hn Hs E. split.
    - rewrite (cap_of_nc _ _ Hn). pose proof (scopeG_nc _ _ Hn) as H. unfold scope_blk_nc in H.
      destruct (nc_cap nc); [|reflexivity]. rewrite Hs, E in H. rewrite andb_comm in H. discriminate.
    - destruct (bool_cases wc) as [Ew|Ew]; [|exact Ew]. pose proof (scopeC_nc _ _ Ew Hn) as H. unfold noreroute_nc in H.
      rewrite Hs, E in H. rewrite andb_comm in H. discriminate.
  Qed.
  Lemma reroute_slot j nc sl : nthZ (cf_nodes cf) (j - 1) = Some nc -> nc_srv nc = SSlot sl ->
    (sl_cap sl && negb (sl_pre sl =? 0)) = true -> sl_pre sl = 4 -> cap_of cf j = None /\ wc = false.
  Proof.
    intros Hn Hs Hb E. apply andb_true_iff in Hb as [Hb _]. split.
    - rewrite (cap_of_nc _ _ Hn). pose proof (scopeG_nc _ _ Hn) as H. unfold scope_blk_nc in H.
      destruct (nc_cap nc); [|reflexivity]. rewrite Hs, E, Hb in H. rewrite andb_comm in H. discriminate.
    - destruct (bool_cases wc) as [Ew|Ew]; [|exact Ew]. pose proof (scopeC_nc _ _ Ew Hn) as H. unfold noreroute_nc in H.
      rewrite Hs, E, Hb in H. rewrite andb_comm in H. discriminate.
  Qed.

  Lemma hB_put_dec (K : vw -> Prop) dl nd0 nd : (forall sh, K sh -> okn sh nd0) -> n_id nd = n_id nd0 ->
    n_pop nd = n_pop nd0 - 1 -> n_bq nd = n_bq nd0 -> n_lenbq nd = n_lenbq nd0 ->
    ht K (Jb dl) (Jb (add dl (n_id nd0) 1)) (put_node nd).
  Proof.
    intros HK Hid Hp Hb Hl. apply hB_put_node. intros sh Hk. exists nd0. split; [auto|]. split; [exact Hid|]. split.
    - rewrite add_same. apply jstepN_dec; assumption.
    - intros j' Hne. apply add_other. exact Hne.
  Qed.
  Lemma hB_put_inc (K : vw -> Prop) dl nd0 nd : (forall sh, K sh -> okn sh nd0) -> n_id nd = n_id nd0 ->
    n_pop nd = n_pop nd0 + 1 -> n_bq nd = n_bq nd0 -> n_lenbq nd = n_lenbq nd0 ->
    ht K (Jb dl) (Jb (add dl (n_id nd0) (-1))) (put_node nd).
  Proof.
    intros HK Hid Hp Hb Hl. apply hB_put_node. intros sh Hk. exists nd0. split; [auto|]. split; [exact Hid|]. split.
    - rewrite add_same. apply jstepN_inc; assumption.
    - intros j' Hne. apply add_other. exact Hne.
  Qed.

  (* release_blocked_individual finds nobody to unblock: the place that was kept for node j is not needed *)
  Lemma J_close j nd nc sh : Jb (ex1 j) sh -> bidx sh -> okn sh nd -> n_id nd = j -> nthZ (cf_nodes cf) (j - 1) = Some nc ->
    ((0 <? n_lenbq nd) && match nc_cap nc with None => true | Some cap => n_pop nd <? cap end) = false -> Jb ex0 sh.
  Proof.
    intros HJ HI Ho Hid Hnc Ec. subst j. apply okn_nth in Ho as (k & _ & Hk).
    rewrite <- (Conserve2.upd_same sh k (bview nd) Hk).
    change (bview nd) with (n_id nd, snd (bview nd)) in *.
    eapply Jb_upd; [exact HI|exact HJ|exact Hk| |intros; unfold ex1; symmetry; apply add_other; assumption].
    unfold ex1, ex0. rewrite add_same. intros (A & B & C). split; [exact A|]. split.
    - intros Hn. destruct (B Hn) as (c & Hc & Hle). exists c. split; [exact Hc|].
      unfold vlen, vbq, vpop, bview in *; cbn in *. rewrite (cap_of_nc _ _ Hnc) in Hc. rewrite Hc in Ec.
      apply andb_false_iff in Ec as [Ec|Ec].
      + apply Z.ltb_ge in Ec. destruct (n_bq nd); [congruence|]. unfold zlen in A. cbn [length] in A. lia.
      + apply Z.ltb_ge in Ec. lia.
    - intros E c Hc. specialize (C E c Hc). lia.
  Qed.
  (* a node that has been tested to have space may receive one customer *)
  Lemma J_open dl d x sh : bidx sh -> Jb dl sh -> dl d = 0 -> nthZ sh (d - 1) = Some (d, x) ->
    (forall c, cap_of cf d = Some c -> vpop x < c) -> Jb (add dl d 1) sh.
  Proof.
    intros HI HJ H0 Hn Hsp. destruct (Conserve2.nthZ_nat _ _ _ Hn) as (k & _ & Hk).
    rewrite <- (Conserve2.upd_same sh k (d, x) Hk). eapply Jb_upd; [exact HI|exact HJ|exact Hk| |intros; apply add_other; assumption].
    rewrite add_same, H0. intros (A & B & C). split; [exact A|]. split.
    - intros Hne. destruct (B Hne) as (c & Hc & Hle). exists c. split; [exact Hc|lia].
    - intros E c Hc. specialize (Hsp c Hc). lia.
  Qed.

  Lemma core_B : forall f,
    (forall j i d, ht KT (Jb (xd d)) (Jb ex0) (release cf f j i d false)) /\
    (forall j i d dl, cap_of cf j = None -> wc = false -> ht KT (Jb dl) (Jb dl) (release cf f j i d true)) /\
    (forall j, ht KT (Jb (ex1 j)) (Jb ex0) (release_blocked_individual cf f j)) /\
    (forall j i dl, ht KT (Jb dl) (Jb (add dl j (-1))) (accept cf f j i)) /\
    (forall j v i dl, ht KT (Jb dl) (Jb dl) (preempt cf f j v i)).
  Proof.
    induction f as [|f (IHr & IHrt & IHb & IHa & IHp)].
    - split; [|split; [|split; [|split]]]; intros; simpl; apply ht_oof.
    - split; [|split; [|split; [|split]]].
      + intros j i d. simpl release.
        apply ht_bind_keep; [kpa|intros t]. apply ht_bind_keep; [kpa|intros x].
        apply ht_get_node_bind; intros nd Hid Hj. apply ht_ncfg_bind; intros nc Hnc.
        apply ht_lift_bind; intros q Hq. apply ht_lift_bind; intros q' Hq'.
        eapply ht_bind; [apply (hB_put_dec _ _ nd); [intros sh [_ Ho]; exact Ho|reflexivity..]|intros _]. rewrite Hid.
        keeps.
        eapply ht_bind; [apply ht_T, hB_bsipr|intros _].
        eapply ht_bind with (R := Jb (ex1 j)); [|intros _; apply IHb].
        destruct (d =? -1) eqn:Ed.
        * eapply ht_post; [apply ht_keep; kpa|]. intros sh _. apply Jb_ext. apply Z.eqb_eq in Ed. slk.
        * eapply ht_post; [apply IHa|]. intros sh _. apply Jb_ext. apply Z.eqb_neq in Ed. slk.
      + intros j i d dl Hcap Hwc. simpl release.
        apply ht_bind_keep; [kpa|intros t]. apply ht_bind_keep; [kpa|intros x].
        apply ht_get_node_bind; intros nd Hid Hj. apply ht_ncfg_bind; intros nc Hnc.
        apply ht_lift_bind; intros q Hq. apply ht_lift_bind; intros q' Hq'.
        eapply ht_bind; [apply (hB_put_dec _ _ nd); [intros sh [_ Ho]; exact Ho|reflexivity..]|intros _]. rewrite Hid.
        eapply ht_pre; [intros sh _ _; apply (Jb_uncap _ dl j); [exact Hcap|intros; symmetry; apply add_other; assumption]|].
        keeps.
        eapply ht_bind with (R := Jb dl); [|intros _; apply ht_ret].
        destruct (d =? -1) eqn:Ed; [apply ht_keep; kpa|].
        eapply ht_conseq; [|apply (IHa d i (add dl d 1))|].
        * intros sh _ _. apply Jb_weak. intros j0. unfold add. destruct (Z.eqb_spec j0 d); [right; split; [lia|left; exact Hwc]|left; reflexivity].
        * intros sh _. apply Jb_ext. slk.
      + intros j. simpl release_blocked_individual.
        apply ht_get_node_bind; intros nd Hid Hj. apply ht_ncfg_bind; intros nc Hnc.
        match goal with |- ht _ _ _ (if ?c then _ else _) => destruct c eqn:Ec end.
        * destruct (n_bq nd) as [|[from y] rest] eqn:Ebq; [apply ht_fail|].
          apply ht_get_node_bind; intros fnd Hfid Hfrom. apply ht_bind_keep; [kpa|intros _].
          eapply ht_bind; [apply hB_put_node; hB_side|intros _].
          apply ht_bind_keep; [kpa|intros yx].
          eapply ht_bind with (R := Jb (ex1 j)); [hB using fail|intros _].
          eapply ht_pre; [|apply IHr]. intros sh _ _. apply Jb_ext. slk.
        * eapply ht_conseq; [|apply ht_ret|intros sh _ H; exact H].
          intros sh HI [_ Ho] HJ. eapply J_close; eauto.
      + intros j i dl. simpl accept.
        apply ht_bind_keep; [kpa|intros x]. apply ht_get_node_bind; intros nd Hid Hj.
        apply ht_bind_keep; [kpa|intros _]. apply ht_lift_bind; intros qs Hqs.
        eapply ht_bind; [apply (hB_put_inc _ _ nd); [intros sh [_ Ho]; exact Ho|reflexivity..]|intros _]. rewrite Hid.
        hB using (apply IHp).
      + intros j v i dl. simpl preempt.
        apply ht_bind_keep; [kpa|intros t]. apply ht_bind_keep; [kpa|intros vx]. apply ht_ncfg_bind; intros nc Hnc.
        apply ht_bind_keep; [kpa|intros _].
        eapply ht_bind with (R := Jb dl); [|intros _; hB using fail].
        destruct (nc_preempt nc =? 4) eqn:E4; [|apply ht_keep; kpa].
        destruct (reroute_prio j nc Hnc E4) as [Hcap Hwc].
        apply ht_bind_keep; [kpa|intros d]. apply ht_bind_keep; [kpa|intros _]. apply IHrt; assumption.
  Qed.

  Lemma hB_release_f f j i d : ht KT (Jb (xd d)) (Jb ex0) (release cf f j i d false). Proof. apply core_B. Qed.
  Lemma hB_release_rt f j i d : cap_of cf j = None -> wc = false -> tB KT (release cf f j i d true).
  Proof. intros A B dl. apply core_B; assumption. Qed.
  Lemma hB_rbi f j : ht KT (Jb (ex1 j)) (Jb ex0) (release_blocked_individual cf f j). Proof. apply core_B. Qed.
  Lemma hB_accept f j i dl : ht KT (Jb dl) (Jb (add dl j (-1))) (accept cf f j i). Proof. apply core_B. Qed.
  Lemma hB_preempt f j v i : tB KT (preempt cf f j v i). Proof. intros dl. apply core_B. Qed.

  Lemma hB_interrupt_service f j i pre : (pre = 4 -> cap_of cf j = None /\ wc = false) -> tB KT (interrupt_service cf f j i pre).
  Proof.
    intros Hp dl. unfold interrupt_service. keeps.
    destruct (pre =? 4) eqn:E4.
    - apply Z.eqb_eq in E4. destruct (Hp E4) as [A B]. keeps. apply hB_release_rt; assumption.
    - hB using fail.
  Qed.
  Lemma hB_off_duty_loop k f j pre se : (pre = 4 -> cap_of cf j = None /\ wc = false) -> forall idx, tB KT (off_duty_loop cf k f j idx pre se).
  Proof.
    intros Hp. induction k as [|k IH]; intros idx dl; cbn [off_duty_loop]; [apply ht_ret|].
    hB using first [apply hB_interrupt_service; exact Hp | apply IH].
  Qed.
  Lemma hB_take_servers_off_duty f j pre : (pre = 4 -> cap_of cf j = None /\ wc = false) -> tB KT (take_servers_off_duty cf f j pre).
  Proof. intros Hp dl. unfold take_servers_off_duty. hB using (apply hB_off_duty_loop; exact Hp). Qed.
  Lemma hB_change_shift j : tB KT (change_shift cf j).
  Proof.
    intros dl. unfold change_shift.
    hB using first [ (apply hB_take_servers_off_duty; eapply reroute_sched; eassumption) | apply hB_bsip_change_shift ].
  Qed.
  Lemma hB_slot_loop k j : tB KT (slot_loop cf k j).
  Proof. induction k as [|k IH]; intros dl; cbn [slot_loop]; [apply ht_ret|]. hB using (apply IH). Qed.
  Lemma hB_slotted_service j : tB KT (slotted_service cf j).
  Proof.
    intros dl. unfold slotted_service.
    hB using first [ (apply hB_interrupt_service; eapply reroute_slot; eassumption) | apply hB_slot_loop ].
  Qed.
  Lemma hB_ccww j : tB KT (change_customer_class_while_waiting cf j).
  Proof. intros dl. unfold change_customer_class_while_waiting. hB using (apply hB_preempt). Qed.

  Lemma ht_bind_keep_spec (K P Q : vw -> Prop) {X Y} (m : M X) (f : X -> M Y) (Phi : X -> Prop) :
    keepK K m -> (forall s a s', m s = Ok (a, s') -> Phi a) -> (forall a, Phi a -> ht K P Q (f a)) -> ht K P Q (bind m f).
  Proof.
    intros Hm Hs Hf s b s' HI HK HP H. unfold bind in H. destruct (m s) as [[a s1]| |] eqn:E; try discriminate.
    pose proof (Hm _ _ _ HI HK E) as E1. eapply (Hf a (Hs _ _ _ E)); [| | |exact H]; rewrite E1; assumption.
  Qed.

  Ltac binv H a s1 E :=
    match type of H with
    | bind ?m ?f ?s = Ok _ => unfold bind in H at 1; destruct (m s) as [[a s1]| |] eqn:E; [|discriminate H|discriminate H]
    end.
  Lemma lift_inv {A} e (o : option A) a s s' : lift e o s = Ok (a, s') -> o = Some a /\ s' = s.
  Proof. destruct o as [x|]; cbn; unfold ret, fail; intros H; [injection H as <- <-; auto|discriminate]. Qed.
  Lemma ret_inv {A} (a b : A) s s' : ret a s = Ok (b, s') -> b = a /\ s' = s.
  Proof. unfold ret. intros H. injection H as <- <-. auto. Qed.

  Lemma valid_dest_spec d s r s' : valid_dest d s = Ok (r, s') -> r = -1 \/ (r = d /\ 1 <= d) \/ d <= -2.
  Proof.
    intros H. unfold valid_dest in H. unfold bind, gets in H. cbv beta in H.
    match type of H with (if ?c then _ else _) _ = _ => destruct c eqn:E1 end.
    - apply ret_inv in H as [-> _]. right. left. apply andb_true_iff in E1 as [A _]. apply Z.leb_le in A. auto.
    - match type of H with (if ?c then _ else _) _ = _ => destruct c eqn:E2 end.
      + apply ret_inv in H as [-> _]. left. reflexivity.
      + match type of H with (if ?c then _ else _) _ = _ => destruct c eqn:E3 end; [|discriminate].
        right. right. apply andb_true_iff in E3 as [_ A]. apply Z.leb_le in A. exact A.
  Qed.

  (* where a reneging customer may jockey to, in the scope of C06 *)
  Lemma jockey_spec j i s d s' : wc = true -> next_node_for cf 2 j i s = Ok (d, s') -> d = -1 \/ cap_of cf d = None.
  Proof.
    intros Ew H. specialize (HC Ew). unfold scope_cap in HC. apply andb_true_iff in HC as [_ HR]. rewrite forallb_forall in HR.
    unfold next_node_for in H. binv H x sa Ex. binv H rt sb Ert. apply lift_inv in Ert as [Hrt ->].
    specialize (HR _ (nthZ_In _ _ _ Hrt)).
    binv H d0 sc Ed0.
    assert (Hd0 : d0 = -1 \/ (1 <= d0 /\ cap_of cf d0 = None)).
    { destruct rt as [rs|rts|rts al ch].
      - binv Ed0 r sd Er. apply lift_inv in Er as [Hr ->]. change (2 =? 2) with true in Ed0. cbv iota in Ed0.
        rewrite forallb_forall in HR. specialize (HR _ (nthZ_In _ _ _ Hr)).
        destruct r; try (apply ret_inv in Ed0 as [-> _]; left; reflexivity).
        apply ret_inv in Ed0 as [-> _]. unfold jockey_ok in HR. apply orb_true_iff in HR as [A|A].
        + left. apply Z.eqb_eq in A. exact A.
        + right. apply andb_true_iff in A as [A1 A2]. apply Z.leb_le in A1. split; [exact A1|]. destruct (cap_of cf jock); [discriminate|reflexivity].
      - change (2 =? 2) with true in Ed0. cbv iota in Ed0. apply ret_inv in Ed0 as [-> _]. left. reflexivity.
      - change (2 =? 2) with true in Ed0. cbv iota in Ed0. apply ret_inv in Ed0 as [-> _]. left. reflexivity. }
    apply valid_dest_spec in H as [->|[[-> _]|Hlt]]; [left; reflexivity| |].
    - destruct Hd0 as [->|[_ Hc]]; [left; reflexivity|right; exact Hc].
    - destruct Hd0 as [->|[Hge _]]; lia.
  Qed.

  Lemma hB_renege j : ht KT (Jb ex0) (Jb ex0) (renege cf j).
  Proof.
    unfold renege.
    apply ht_bind_keep; [kpa|intros t]. apply ht_bind_keep; [kpa|intros nd]. apply ht_bind_keep; [kpa|intros i].
    apply ht_bind_keep; [kpa|intros _].
    apply ht_bind_keep_spec with (Phi := fun d => wc = true -> d = -1 \/ cap_of cf d = None);
      [kpa|intros s a s' H Ew; eapply jockey_spec; eauto|intros d Hd].
    apply ht_bind_keep; [kpa|intros x]. apply ht_get_node_bind; intros nd1 Hid Hj.
    apply ht_lift_bind; intros q Hq. apply ht_lift_bind; intros q' Hq'.
    eapply ht_bind; [apply (hB_put_dec _ _ nd1); [intros sh [_ Ho]; exact Ho|reflexivity..]|intros _]. rewrite Hid. fold (ex1 j).
    keeps.
    eapply ht_bind with (R := Jb (ex1 j)); [|intros _; apply hB_rbi].
    destruct (d =? -1) eqn:Ed; [apply ht_keep; kpa|]. apply Z.eqb_neq in Ed.
    eapply ht_conseq; [|apply (hB_accept _ d _ (add (ex1 j) d 1))|].
    - intros sh _ _. apply Jb_weak. intros j0. destruct (Z.eq_dec j0 d) as [->|Hne]; [|left; rewrite add_other by assumption; reflexivity].
      right. split; [rewrite add_same; lia|].
      destruct (bool_cases wc) as [Ew|Ew]; [|left; exact Ew]. right. destruct (Hd Ew) as [Hm|Hc]; [contradiction|exact Hc].
    - intros sh _. apply Jb_ext. slk.
  Qed.

  Lemma hB_finish_service j : ht KT (Jb ex0) (Jb ex0) (finish_service cf j).
  Proof.
    unfold finish_service.
    apply ht_get_node_bind; intros nd Hid Hj.
    apply ht_bind_keep; [kpa|intros i].
    apply ht_bind_keep; [kpa|intros _].
    apply ht_bind_keep; [kpa|intros d].
    apply ht_bind_keep; [kpa|intros _].
    apply ht_bind_keep; [kpa|intros nc].
    apply ht_bind_keep; [kpa|intros _].
    apply ht_has_space_bind. intros sp. destruct sp.
    - apply ht_bind_keep; [kpa|intros fl].
      eapply ht_pre; [|apply ht_T, hB_release_f]. intros sh HI [_ Hsp] HJ.
      destruct Hsp as [[-> _]|(Hd & x & Hx & Hb)]; [exact HJ|].
      eapply Jb_ext; [|eapply (J_open ex0 d x); [exact HI|exact HJ|reflexivity|exact Hx|]].
      + intros j0. apply Z.eqb_neq in Hd. unfold xd. rewrite Hd. reflexivity.
      + intros c Hc. rewrite Hc in Hb. symmetry in Hb. apply Z.ltb_lt in Hb. exact Hb.
    - unfold block_individual. apply ht_bind_keep; [kpa|intros _]. unfold upd_node.
      apply ht_get_node_bind; intros dn Hdid Hd.
      apply hB_put_node. intros sh [[_ Hsp] Ho]. exists dn. split; [exact Ho|]. split; [reflexivity|]. split; [|reflexivity].
      destruct Hsp as [[-> _]|(Hd1 & x' & Hx' & Hb)]; [lia|].
      assert (Ex : x' = snd (bview dn)).
      { unfold okn in Ho. rewrite Hdid in Ho. rewrite Ho in Hx'. injection Hx' as _ <-. reflexivity. }
      destruct (cap_of cf d) as [c|] eqn:Ec; [|discriminate Hb]. symmetry in Hb. apply Z.ltb_ge in Hb.
      eapply (jstepN_push _ _ _ c); [rewrite Hdid; exact Ec| |reflexivity..].
      rewrite Ex in Hb. unfold vpop, bview in Hb. cbn in Hb. unfold ex0. lia.
  Qed.

  Lemma hB_send_open (K : vw -> Prop) j i nd : (forall sh, K sh -> okn sh nd) -> n_id nd = j ->
    (forall c, cap_of cf j = Some c -> n_pop nd < c) -> ht K (Jb ex0) (Jb ex0) (send_individual cf j i).
  Proof.
    intros HK Hid Hsp. unfold send_individual. keeps.
    eapply ht_conseq; [|apply ht_T, (hB_accept _ j i (ex1 j))|].
    - intros sh HI Hk HJ. pose proof (HK _ Hk) as Ho. unfold okn, bview in Ho. rewrite Hid in Ho.
      unfold ex1. eapply J_open; [exact HI|exact HJ|reflexivity|exact Ho|].
      intros c Hc. unfold vpop; cbn. apply Hsp; exact Hc.
    - intros sh _. apply Jb_ext. slk.
  Qed.

  Lemma hB_release_individual j i : ht KT (Jb ex0) (Jb ex0) (release_individual cf j i).
  Proof.
    unfold release_individual. apply ht_bind_keep; [kpa|intros x]. apply ht_get_node_bind; intros nd Hid Hj.
    apply ht_ncfg_bind; intros nc Hnc. apply ht_bind_keep; [kpa|intros sp].
    match goal with |- ht _ _ _ (if ?c then _ else _) => destruct c eqn:Efull end; [apply ht_keep; kpa|].
    apply orb_false_iff in Efull as [Ecap _].
    assert (Hsp : forall c, cap_of cf j = Some c -> n_pop nd < c).
    { intros c Hc. rewrite (cap_of_nc _ _ Hnc) in Hc. rewrite Hc in Ecap. apply Z.leb_gt in Ecap. exact Ecap. }
    hB using (eapply hB_send_open; [intros sh [_ Ho]; exact Ho|exact Hid|exact Hsp]).
  Qed.

  Lemma hB_batch_loop n : forall j c p, ht KT (Jb ex0) (Jb ex0) (batch_loop cf n j c p).
  Proof. induction n as [|n IH]; intros j c p; cbn [batch_loop]; [apply ht_ret|]. hB using first [apply hB_release_individual | apply IH]. Qed.
  Lemma hB_arrival_have_event : ht KT (Jb ex0) (Jb ex0) (arrival_have_event cf).
  Proof. unfold arrival_have_event. hB using (apply hB_batch_loop). Qed.

  Lemma hB_node_have_event j : ht KT (Jb ex0) (Jb ex0) (node_have_event cf j).
  Proof.
    unfold node_have_event.
    hB using first [ apply hB_finish_service | apply hB_change_shift | apply hB_renege | apply hB_ccww | apply hB_slotted_service ].
  Qed.

  Lemma hB_after_event k : ht KT (Jb ex0) (Jb ex0) (after_event cf k).
  Proof.
    unfold after_event. eapply ht_bind.
    - destruct (k =? 0); [apply hB_arrival_have_event|apply hB_node_have_event].
    - intros _. apply ht_keep. kpa.
  Qed.

  Lemma event_step_B s s' : bidx (BV s) -> Jb ex0 (BV s) -> event_step cf s = Ok (tt, s') -> bidx (BV s') /\ Jb ex0 (BV s').
  Proof.
    intros HI HJ H. rewrite event_step_unfold in H.
    assert (E : BV (s <| log := [] |>) = BV s) by reflexivity.
    apply (hB_after_event (next_active s) _ _ _) in H; [exact H|rewrite E; exact HI|exact I|rewrite E; exact HJ].
  Qed.
End PartB.

(* ====================================================================================================================== *)
(* The statements, on states, in the words of the properties (nodes are matched by position: node k+1 is nth k)            *)
(* ====================================================================================================================== *)
(* (i) node identities are positions and every blocked-queue counter is the length of its blocked queue *)
Definition Len2 (s : sim) : Prop :=
  forall k nd, nth_error (nodes s) k = Some nd -> n_id nd = Z.of_nat k + 1 /\ n_lenbq nd = zlen (n_bq nd).
(* no node counts an interrupted customer *)
Definition NoInt (s : sim) : Prop := forall k nd, nth_error (nodes s) k = Some nd -> n_nint nd <= 0.
(* blocked queues keep their order: what is left of the old queue is an order-preserving sub-list, newcomers are at the end *)
Definition ord (s s' : sim) : Prop :=
  forall k nd, nth_error (nodes s) k = Some nd ->
    exists nd', nth_error (nodes s') k = Some nd' /\ exists sub t, n_bq nd' = sub ++ t /\ subl sub (n_bq nd).
(* blocked queues lose a prefix and gain a suffix *)
Definition fifo (s s' : sim) : Prop :=
  forall k nd, nth_error (nodes s) k = Some nd ->
    exists nd', nth_error (nodes s') k = Some nd' /\ exists n t, n_bq nd' = skipn n (n_bq nd) ++ t.
(* ... in one event, more precisely: either only heads are taken (the unblocking cascade), *)
Definition heads_only (s s' : sim) : Prop :=
  forall k nd, nth_error (nodes s) k = Some nd ->
    exists nd', nth_error (nodes s') k = Some nd' /\ exists n, n_bq nd' = skipn n (n_bq nd).
(* ... or one customer i of node j joins the END of the blocked queue of a node that is full (finite capacity c <= population),
   every population and every other blocked queue staying as it was *)
Definition one_blocked (cf : config) (j : Z) (s s' : sim) : Prop :=
  exists kD i c, (exists ndD, nth_error (nodes s) kD = Some ndD /\ cap_of cf (Z.of_nat kD + 1) = Some c /\ c <= n_pop ndD) /\
    forall k nd, nth_error (nodes s) k = Some nd ->
      exists nd', nth_error (nodes s') k = Some nd' /\ n_pop nd' = n_pop nd /\
                  n_bq nd' = if Nat.eqb k kD then n_bq nd ++ [(j, i)] else n_bq nd.
(* (ii) somebody is blocked to a node only if that node has a finite capacity and is full *)
Definition Blk2 (cf : config) (s : sim) : Prop :=
  forall k nd, nth_error (nodes s) k = Some nd ->
    n_id nd = Z.of_nat k + 1 /\ n_lenbq nd = zlen (n_bq nd) /\
    (n_bq nd <> [] -> exists c, cap_of cf (Z.of_nat k + 1) = Some c /\ c <= n_pop nd).
(* (iii) no node holds more than its capacity *)
Definition Cap2 (cf : config) (s : sim) : Prop :=
  forall k nd c, nth_error (nodes s) k = Some nd -> cap_of cf (Z.of_nat k + 1) = Some c -> n_pop nd <= c.

Lemma BV_nth s k : nth_error (BV s) k = option_map bview (nth_error (nodes s) k).
Proof. unfold BV. apply nth_error_map. Qed.
Lemma bidx_BV s : bidx (BV s) <-> (forall k nd, nth_error (nodes s) k = Some nd -> n_id nd = Z.of_nat k + 1).
Proof.
  split.
  - intros H k nd Hk. specialize (H k (bview nd)). rewrite BV_nth, Hk in H. exact (H eq_refl).
  - intros H k t Hk. rewrite BV_nth in Hk. destruct (nth_error (nodes s) k) as [nd|] eqn:E; [|discriminate]. cbn in Hk. injection Hk as <-. cbn. eauto.
Qed.
Lemma Forall_BV (P : Z * nview -> Prop) s : Forall P (BV s) <-> (forall k nd, nth_error (nodes s) k = Some nd -> P (bview nd)).
Proof.
  rewrite Forall_forall. unfold BV. split.
  - intros H k nd Hk. apply H. apply in_map. eapply nth_error_In; eauto.
  - intros H t Ht. apply in_map_iff in Ht as (nd & <- & Hin). apply In_nth_error in Hin as [k Hk]. eauto.
Qed.

Lemma A_iff st s : (Len2 s /\ (st = true -> NoInt s)) <-> (bidx (BV s) /\ IA st (BV s)).
Proof.
  unfold IA. rewrite bidx_BV, Forall_BV. split.
  - intros [HL HN]. split; [intros k nd Hk; apply (HL k nd Hk)|]. intros k nd Hk. split; [apply (HL k nd Hk)|]. intros E. apply (HN E k nd Hk).
  - intros [HI HA]. split; [intros k nd Hk; split; [apply (HI k nd Hk)|apply (HA k nd Hk)]|]. intros E k nd Hk. apply (HA k nd Hk). exact E.
Qed.
Lemma B_iff cf wc s : (Blk2 cf s /\ (wc = true -> Cap2 cf s)) <-> (bidx (BV s) /\ Jb cf wc ex0 (BV s)).
Proof.
  unfold Jb. rewrite bidx_BV, Forall_BV. split.
  - intros [HB HC]. split; [intros k nd Hk; apply (HB k nd Hk)|]. intros k nd Hk. destruct (HB k nd Hk) as (A & B & C).
    unfold Jx, vlen, vbq, vpop, bview, ex0; cbn. rewrite A. split; [exact B|]. split.
    + intros Hn. destruct (C Hn) as (c & Hc & Hle). exists c. split; [exact Hc|lia].
    + intros E c Hc. pose proof (HC E k nd c Hk Hc). lia.
  - intros [HI HJ]. split.
    + intros k nd Hk. pose proof (HI k nd Hk) as A. destruct (HJ k nd Hk) as (B & C & _).
      unfold Jx, vlen, vbq, vpop, bview, ex0 in *; cbn in *. rewrite A in C. split; [exact A|]. split; [exact B|].
      intros Hn. destruct (C Hn) as (c & Hc & Hle). exists c. split; [exact Hc|lia].
    + intros E k nd c Hk Hc. pose proof (HI k nd Hk) as A. destruct (HJ k nd Hk) as (_ & _ & D).
      unfold Jx, vlen, vbq, vpop, bview, ex0 in *; cbn in *. rewrite A in D. specialize (D E c Hc). lia.
Qed.

Lemma RA_nodes st s s' : RA st (BV s) (BV s') -> forall k nd, nth_error (nodes s) k = Some nd ->
  exists nd', nth_error (nodes s') k = Some nd' /\ rb st (n_bq nd) (n_bq nd').
Proof.
  intros H k nd Hk. destruct (Forall2_nth _ _ _ k (bview nd) H) as (t & Ht & _ & Hr); [rewrite BV_nth, Hk; reflexivity|].
  rewrite BV_nth in Ht. destruct (nth_error (nodes s') k) as [nd'|]; [|discriminate]. cbn in Ht. injection Ht as <-.
  exists nd'. split; [reflexivity|exact Hr].
Qed.
Lemma RA_ord s s' : RA false (BV s) (BV s') -> ord s s'.
Proof. intros H k nd Hk. destruct (RA_nodes _ _ _ H k nd Hk) as (nd' & Hk' & Hr). exists nd'. split; [exact Hk'|exact Hr]. Qed.
Lemma RA_heads s s' : RA true (BV s) (BV s') -> heads_only s s'.
Proof. intros H k nd Hk. destruct (RA_nodes _ _ _ H k nd Hk) as (nd' & Hk' & Hr). exists nd'. split; [exact Hk'|exact Hr]. Qed.

Lemma pushR_one cf j s s' : bidx (BV s) -> pushR cf j (BV s) (BV s') -> one_blocked cf j s s'.
Proof.
  intros HI (kD & D & x & i & c & HkD & Hc & Hle & E).
  pose proof (HI _ _ HkD) as HD. cbn in HD. rewrite BV_nth in HkD.
  destruct (nth_error (nodes s) kD) as [ndD|] eqn:EkD; [|discriminate]. cbn in HkD. injection HkD as HidD Hx.
  exists kD, i, c. split; [exists ndD; split; [exact EkD|]; split; [rewrite <- HD; exact Hc|rewrite <- Hx in Hle; exact Hle]|].
  intros k nd Hk. assert (Hk' : nth_error (BV s') k = nth_error (upd (BV s) kD (D, (vpop x, vbq x ++ [(j, i)], vlen x + 1, vnint x))) k) by (rewrite E; reflexivity).
  destruct (Nat.eqb_spec k kD) as [->|Hne].
  - rewrite (Conserve2.nth_error_upd_eq _ _ _ (bview ndD)) in Hk' by (rewrite BV_nth, EkD; reflexivity).
    rewrite BV_nth in Hk'. destruct (nth_error (nodes s') kD) as [nd'|]; [|discriminate]. cbn in Hk'. injection Hk' as _ Hp Hb _ _.
    exists nd'. split; [reflexivity|]. rewrite EkD in Hk. injection Hk as <-. rewrite <- Hx in Hp, Hb. cbn in Hp, Hb. auto.
  - rewrite Conserve2.nth_error_upd_neq in Hk' by (intros Heq; apply Hne; symmetry; exact Heq).
    rewrite !BV_nth, Hk in Hk'. destruct (nth_error (nodes s') k) as [nd'|]; [|discriminate]. cbn in Hk'. injection Hk' as _ Hp Hb _ _.
    exists nd'. split; [reflexivity|]. auto.
Qed.
Lemma pushR_RA cf j sh0 sh : pushR cf j sh0 sh -> RA false sh0 sh.
Proof.
  intros (kD & D & x & i & c & HkD & _ & _ & ->). eapply Forall2_upd; [apply (RA_refl cf false); discriminate|exact HkD|].
  cbn. intros x0 Hx0 _. rewrite HkD in Hx0. injection Hx0 as <-. cbn. split; [reflexivity|].
  exists (vbq x), [(j, i)]. split; [reflexivity|apply subl_refl].
Qed.

Lemma fifo_refl s : fifo s s.
Proof. intros k nd Hk. exists nd. split; [exact Hk|]. exists 0%nat, []. cbn. rewrite app_nil_r. reflexivity. Qed.
Lemma fifo_trans a b c : fifo a b -> fifo b c -> fifo a c.
Proof.
  intros H1 H2 k nd Hk. destruct (H1 k nd Hk) as (nd1 & Hk1 & n1 & t1 & E1). destruct (H2 k nd1 Hk1) as (nd2 & Hk2 & n2 & t2 & E2).
  exists nd2. split; [exact Hk2|]. rewrite E2, E1, skipn_app, skipn_skipn, <- app_assoc. eauto.
Qed.
Lemma heads_only_fifo s s' : heads_only s s' -> fifo s s'.
Proof. intros H k nd Hk. destruct (H k nd Hk) as (nd' & Hk' & n & E). exists nd'. split; [exact Hk'|]. exists n, []. rewrite app_nil_r. exact E. Qed.
Lemma one_blocked_fifo cf j s s' : one_blocked cf j s s' -> fifo s s'.
Proof.
  intros (kD & i & c & _ & H) k nd Hk. destruct (H k nd Hk) as (nd' & Hk' & _ & E). exists nd'. split; [exact Hk'|]. exists 0%nat.
  destruct (Nat.eqb k kD); [exists [(j, i)]|exists []; rewrite app_nil_r]; exact E.
Qed.

Lemma ord_refl s : ord s s.
Proof. intros k nd Hk. exists nd. split; [exact Hk|]. exists (n_bq nd), []. split; [rewrite app_nil_r; reflexivity|apply subl_refl]. Qed.
Lemma ord_trans a b c : ord a b -> ord b c -> ord a c.
Proof.
  intros H1 H2 k nd Hk. destruct (H1 k nd Hk) as (nd1 & Hk1 & s1 & t1 & E1 & S1). destruct (H2 k nd1 Hk1) as (nd2 & Hk2 & s2 & t2 & E2 & S2).
  exists nd2. split; [exact Hk2|]. rewrite E1 in S2. apply subl_app_inv in S2 as (u1 & u2 & -> & U1 & U2).
  exists u1, (u2 ++ t2). split; [rewrite E2, app_assoc; reflexivity|eapply subl_trans; eauto].
Qed.
Lemma heads_only_ord s s' : heads_only s s' -> ord s s'.
Proof.
  intros H k nd Hk. destruct (H k nd Hk) as (nd' & Hk' & n & E). exists nd'. split; [exact Hk'|].
  exists (n_bq nd'), []. split; [rewrite app_nil_r; reflexivity|rewrite E; apply subl_skipn].
Qed.

(* ---------- T2 for C07 (i): the counter is the length, blocked queues keep their order -- EVERY configuration ---------- *)
Theorem event_step_len2 cf s s' : Len2 s -> event_step cf s = Ok (tt, s') -> Len2 s' /\ ord s s'.
Proof.
  intros HL H.
  assert (HN : false = true -> NoInt s) by discriminate.
  assert (Hsc : false = true -> scope_fifo cf = true) by discriminate.
  destruct (proj1 (A_iff false s) (conj HL HN)) as [HI HA].
  destruct (event_step_A cf false Hsc s s' HI HA H) as [HI' [HA' HR]]. split.
  - exact (proj1 (proj2 (A_iff false s') (conj HI' HA'))).
  - apply RA_ord. destruct HR as [HR|HR]; [exact HR|eapply pushR_RA; exact HR].
Qed.
Theorem run_many_len2 cf : forall ds s s', Len2 s -> run_many cf s ds = Ok s' -> Len2 s' /\ ord s s'.
Proof.
  induction ds as [|d r IH]; intros s s' HL H; cbn [run_many] in H; [inversion H; subst s'; split; [exact HL|apply ord_refl]|].
  destruct (event_step cf (s <| dr := d |>)) as [[u s1]| |] eqn:E; try discriminate. destruct u.
  assert (HL0 : Len2 (s <| dr := d |>)) by exact HL.
  destruct (event_step_len2 cf _ _ HL0 E) as [HL1 O1]. destruct (IH _ _ HL1 H) as [HL2 O2].
  split; [exact HL2|]. eapply ord_trans; [|exact O2]. exact O1.
Qed.

(* ---------- T2 for C07 (iv): the FIFO dichotomy, in the scope without non-rerouting interruptions ---------- *)
Theorem event_step_fifo2 cf s s' : scope_fifo cf = true -> Len2 s -> NoInt s -> event_step cf s = Ok (tt, s') ->
  Len2 s' /\ NoInt s' /\ (heads_only s s' \/ one_blocked cf (next_active s) s s').
Proof.
  intros Hsc HL HN H. destruct (proj1 (A_iff true s) (conj HL (fun _ => HN))) as [HI HA].
  destruct (event_step_A cf true (fun _ => Hsc) s s' HI HA H) as [HI' [HA' HR]].
  destruct (proj2 (A_iff true s') (conj HI' HA')) as [HL' HN'].
  split; [exact HL'|]. split; [exact (HN' eq_refl)|].
  destruct HR as [HR|HR]; [left; apply RA_heads; exact HR|right; apply pushR_one; assumption].
Qed.
Theorem run_many_fifo2 cf : scope_fifo cf = true -> forall ds s s', Len2 s -> NoInt s -> run_many cf s ds = Ok s' ->
  Len2 s' /\ NoInt s' /\ fifo s s'.
Proof.
  intros Hsc. induction ds as [|d r IH]; intros s s' HL HN H; cbn [run_many] in H; [inversion H; subst s'; split; [exact HL|split; [exact HN|apply fifo_refl]]|].
  destruct (event_step cf (s <| dr := d |>)) as [[u s1]| |] eqn:E; try discriminate. destruct u.
  assert (HL0 : Len2 (s <| dr := d |>)) by exact HL. assert (HN0 : NoInt (s <| dr := d |>)) by exact HN.
  destruct (event_step_fifo2 cf _ _ Hsc HL0 HN0 E) as (HL1 & HN1 & F1). destruct (IH _ _ HL1 HN1 H) as (HL2 & HN2 & F2).
  split; [exact HL2|]. split; [exact HN2|]. eapply fifo_trans; [|exact F2].
  destruct F1 as [F1|F1]; [apply heads_only_fifo in F1|apply one_blocked_fifo in F1]; exact F1.
Qed.

(* ---------- T2 for C07 (ii): nobody is left blocked while the destination has space ---------- *)
Theorem event_step_blk2 cf s s' : scope_blk cf = true -> Blk2 cf s -> event_step cf s = Ok (tt, s') -> Blk2 cf s'.
Proof.
  intros Hsc HB H.
  assert (HC : false = true -> Cap2 cf s) by discriminate.
  assert (Hsc2 : false = true -> scope_cap cf = true) by discriminate.
  destruct (proj1 (B_iff cf false s) (conj HB HC)) as [HI HJ].
  destruct (event_step_B cf false Hsc Hsc2 s s' HI HJ H) as [HI' HJ'].
  exact (proj1 (proj2 (B_iff cf false s') (conj HI' HJ'))).
Qed.
Theorem run_many_blk2 cf : scope_blk cf = true -> forall ds s s', Blk2 cf s -> run_many cf s ds = Ok s' -> Blk2 cf s'.
Proof.
  intros Hsc. induction ds as [|d r IH]; intros s s' HB H; cbn [run_many] in H; [inversion H; subst s'; exact HB|].
  destruct (event_step cf (s <| dr := d |>)) as [[u s1]| |] eqn:E; try discriminate. destruct u.
  assert (HB0 : Blk2 cf (s <| dr := d |>)) by exact HB.
  eapply IH; [|exact H]. eapply event_step_blk2; eauto.
Qed.

(* ---------- T2 for C06: no node over its capacity ---------- *)
Theorem event_step_cap2 cf s s' : scope_cap cf = true -> Blk2 cf s -> Cap2 cf s -> event_step cf s = Ok (tt, s') -> Blk2 cf s' /\ Cap2 cf s'.
Proof.
  intros Hsc HB HC H. destruct (proj1 (B_iff cf true s) (conj HB (fun _ => HC))) as [HI HJ].
  destruct (event_step_B cf true (scope_cap_blk cf Hsc) (fun _ => Hsc) s s' HI HJ H) as [HI' HJ'].
  destruct (proj2 (B_iff cf true s') (conj HI' HJ')) as [HB' HC']. split; [exact HB'|exact (HC' eq_refl)].
Qed.
Theorem run_many_cap2 cf : scope_cap cf = true -> forall ds s s', Blk2 cf s -> Cap2 cf s -> run_many cf s ds = Ok s' -> Blk2 cf s' /\ Cap2 cf s'.
Proof.
  intros Hsc. induction ds as [|d r IH]; intros s s' HB HC H; cbn [run_many] in H; [inversion H; subst s'; split; assumption|].
  destruct (event_step cf (s <| dr := d |>)) as [[u s1]| |] eqn:E; try discriminate. destruct u.
  assert (HB0 : Blk2 cf (s <| dr := d |>)) by exact HB. assert (HC0 : Cap2 cf (s <| dr := d |>)) by exact HC.
  destruct (event_step_cap2 cf _ _ Hsc HB0 HC0 E) as [HB1 HC1]. eapply IH; eauto.
Qed.

(* ---------- in the words of the properties ---------- *)
Theorem blk2_means cf s : Blk2 cf s ->
  forall k nd, nth_error (nodes s) k = Some nd ->
    (* the counter of the blocked queue is its length *)
    n_lenbq nd = zlen (n_bq nd) /\
    (* nobody is left blocked to a node that has space *)
    (forall c, cap_of cf (Z.of_nat k + 1) = Some c -> n_pop nd < c -> n_bq nd = []) /\
    (* in particular nobody is ever blocked to a node without a capacity limit *)
    (cap_of cf (Z.of_nat k + 1) = None -> n_bq nd = []).
Proof.
  intros HB k nd Hk. destruct (HB k nd Hk) as (_ & A & B). split; [exact A|].
  split; [intros c Hc Hlt|intros Hc]; (destruct (n_bq nd) as [|e r] eqn:Ebq; [reflexivity|]);
    destruct (B ltac:(discriminate)) as (c' & Hc' & Hle); [|congruence].
  rewrite Hc in Hc'. injection Hc' as <-. lia.
Qed.
(* with C06: somebody is blocked to a node only while it is exactly full *)
Theorem blk2_full cf s : Blk2 cf s -> Cap2 cf s ->
  forall k nd, nth_error (nodes s) k = Some nd -> n_bq nd <> [] -> cap_of cf (Z.of_nat k + 1) = Some (n_pop nd).
Proof.
  intros HB HC k nd Hk Hn. destruct (HB k nd Hk) as (_ & _ & B). destruct (B Hn) as (c & Hc & Hle).
  pose proof (HC k nd c Hk Hc). rewrite Hc. f_equal. lia.
Qed.
(* cap_of is the node_capacity the implementation computed once (with c = 0 for a scheduled node, F-06a) *)
Theorem cap2_means cf s : Cap2 cf s ->
  forall k nd nc c, nth_error (nodes s) k = Some nd -> nth_error (cf_nodes cf) k = Some nc -> nc_cap nc = Some c -> n_pop nd <= c.
Proof.
  intros HC k nd nc c Hk Hnc Hc. apply (HC k nd c Hk). unfold cap_of. replace (Z.of_nat k + 1 - 1) with (Z.of_nat k) by lia.
  rewrite Conserve2.nthZ_of_nat, Hnc. exact Hc.
Qed.

(* ---------- executable tests ---------- *)
Definition len2_b (s : sim) : bool :=
  Conserve2.idx_b 1 (nodes s) && forallb (fun nd => n_lenbq nd =? zlen (n_bq nd)) (nodes s).
Definition noint_b (s : sim) : bool := forallb (fun nd => n_nint nd <=? 0) (nodes s).
Definition blk2_b (cf : config) (s : sim) : bool :=
  Conserve2.idx_b 1 (nodes s)
  && forallb (fun nd => (n_lenbq nd =? zlen (n_bq nd))
                        && match n_bq nd with
                           | [] => true
                           | _ :: _ => match cap_of cf (n_id nd) with Some c => c <=? n_pop nd | None => false end
                           end) (nodes s).
Definition cap2_b (cf : config) (s : sim) : bool :=
  Conserve2.idx_b 1 (nodes s)
  && forallb (fun nd => match cap_of cf (n_id nd) with Some c => n_pop nd <=? c | None => true end) (nodes s).

Theorem len2_b_sound s : len2_b s = true -> Len2 s.
Proof.
  unfold len2_b. intros H. apply andb_true_iff in H as [H1 H2]. intros k nd Hk.
  pose proof (Conserve2.idx_b_spec _ _ H1 k nd Hk) as Hid. split; [lia|].
  rewrite forallb_forall in H2. specialize (H2 nd (nth_error_In _ _ Hk)). apply Z.eqb_eq in H2. exact H2.
Qed.
Theorem noint_b_sound s : noint_b s = true -> NoInt s.
Proof.
  unfold noint_b. intros H k nd Hk. rewrite forallb_forall in H. specialize (H nd (nth_error_In _ _ Hk)). apply Z.leb_le in H. exact H.
Qed.
Theorem blk2_b_sound cf s : blk2_b cf s = true -> Blk2 cf s.
Proof.
  unfold blk2_b. intros H. apply andb_true_iff in H as [H1 H2]. intros k nd Hk.
  pose proof (Conserve2.idx_b_spec _ _ H1 k nd Hk) as Hid. split; [lia|].
  rewrite forallb_forall in H2. specialize (H2 nd (nth_error_In _ _ Hk)). apply andb_true_iff in H2 as [A B].
  apply Z.eqb_eq in A. split; [exact A|]. intros Hn.
  destruct (n_bq nd) as [|e r]; [congruence|]. replace (n_id nd) with (Z.of_nat k + 1) in B by lia.
  destruct (cap_of cf (Z.of_nat k + 1)) as [c|]; [|discriminate B]. exists c. split; [reflexivity|apply Z.leb_le; exact B].
Qed.
Theorem cap2_b_sound cf s : cap2_b cf s = true -> Cap2 cf s.
Proof.
  unfold cap2_b. intros H. apply andb_true_iff in H as [H1 H2]. intros k nd c Hk Hc.
  pose proof (Conserve2.idx_b_spec _ _ H1 k nd Hk) as Hid.
  rewrite forallb_forall in H2. specialize (H2 nd (nth_error_In _ _ Hk)).
  replace (n_id nd) with (Z.of_nat k + 1) in H2 by lia. rewrite Hc in H2. apply Z.leb_le in H2. exact H2.
Qed.

(* ====================================================================================================================== *)
(* Examples, and what is FALSE outside the scopes                                                                          *)
(* ====================================================================================================================== *)
Definition cap_viol (cf : config) (s : sim) (k : nat) : bool :=
  match nth_error (nodes s) k with
  | Some nd => match cap_of cf (Z.of_nat k + 1) with Some c => c <? n_pop nd | None => false end
  | None => false
  end.
Lemma cap_viol_sound cf s k : cap_viol cf s k = true -> ~ Cap2 cf s.
Proof.
  unfold cap_viol. intros H HC. destruct (nth_error (nodes s) k) as [nd|] eqn:Ek; [|discriminate].
  destruct (cap_of cf (Z.of_nat k + 1)) as [c|] eqn:Ec; [|discriminate]. apply Z.ltb_lt in H. pose proof (HC k nd c Ek Ec). lia.
Qed.
Definition blk_viol (cf : config) (s : sim) (k : nat) : bool :=
  match nth_error (nodes s) k with
  | Some nd => match n_bq nd with
               | [] => false
               | _ :: _ => match cap_of cf (Z.of_nat k + 1) with Some c => n_pop nd <? c | None => true end
               end
  | None => false
  end.
Lemma blk_viol_sound cf s k : blk_viol cf s k = true -> ~ Blk2 cf s.
Proof.
  unfold blk_viol. intros H HB. destruct (nth_error (nodes s) k) as [nd|] eqn:Ek; [|discriminate].
  destruct (HB k nd Ek) as (_ & _ & B). destruct (n_bq nd) as [|e r]; [discriminate|].
  destruct (B ltac:(discriminate)) as (c & Hc & Hle). rewrite Hc in H. apply Z.ltb_lt in H. lia.
Qed.
Fixpoint bq_eqb (a b : bq_t) : bool :=
  match a, b with
  | [], [] => true
  | x :: r, y :: t => (fst x =? fst y) && (snd x =? snd y) && bq_eqb r t
  | _, _ => false
  end.
Lemma bq_eqb_refl a : bq_eqb a a = true.
Proof. induction a as [|x r IH]; [reflexivity|]. cbn [bq_eqb]. rewrite !Z.eqb_refl, IH. reflexivity. Qed.
(* node k's blocked queue got shorter, and what is left is not what is left after taking heads *)
Definition heads_viol (s s' : sim) (k : nat) : bool :=
  match nth_error (nodes s) k, nth_error (nodes s') k with
  | Some nd, Some nd' =>
    (length (n_bq nd') <? length (n_bq nd))%nat && negb (bq_eqb (n_bq nd') (skipn (length (n_bq nd) - length (n_bq nd')) (n_bq nd)))
  | _, _ => false
  end.
Lemma heads_viol_sound cf j s s' k : heads_viol s s' k = true -> ~ (heads_only s s' \/ one_blocked cf j s s').
Proof.
  unfold heads_viol. intros H. destruct (nth_error (nodes s) k) as [nd|] eqn:Ek; [|discriminate].
  destruct (nth_error (nodes s') k) as [nd'|] eqn:Ek'; [|discriminate].
  apply andb_true_iff in H as [H1 H2]. apply Nat.ltb_lt in H1. apply negb_true_iff in H2. intros [F|F].
  - destruct (F k nd Ek) as (nd1 & Hk1 & n & E). rewrite Ek' in Hk1. injection Hk1 as <-.
    assert (En : skipn (length (n_bq nd) - length (n_bq nd')) (n_bq nd) = n_bq nd').
    { rewrite E. rewrite skipn_length. destruct (Nat.le_gt_cases n (length (n_bq nd))) as [Hle|Hgt].
      - replace (length (n_bq nd) - (length (n_bq nd) - n))%nat with n by lia. reflexivity.
      - replace (length (n_bq nd) - (length (n_bq nd) - n))%nat with (length (n_bq nd)) by lia.
        rewrite skipn_all. symmetry. apply skipn_all2. lia. }
    rewrite En, bq_eqb_refl in H2. discriminate.
  - destruct F as (kD & i & c & _ & F). destruct (F k nd Ek) as (nd1 & Hk1 & _ & E). rewrite Ek' in Hk1. injection Hk1 as <-.
    destruct (Nat.eqb k kD); rewrite E in H1; [rewrite app_length in H1; cbn in H1|]; lia.
Qed.

Definition x_srv (i : Z) : server := mkServer i None false None 0 None 0 false 0 None.
Definition x_node (j : Z) (nq : nat) (srv : list server) (c : Z) : node :=
  mkNode j 0 0 (repeat [] nq) srv [] 0 None [] (Some c) c [] 0 [] [] [] 0 None 0 None None.
Definition x_nd : draws := mkDraws [] [] [] [] [] [].
Definition x_after (cf : config) (s0 : sim) (ds : list draws) : sim := match run_many cf s0 ds with Ok s => s | _ => s0 end.

(* ---- a tandem: node 1 (one server, unlimited queue) feeds node 2 (one server, no waiting room: capacity 1), which feeds the exit;
   arrivals every 2 ticks, every service takes 3 ---- *)
Definition b2_cf : config :=
  mkCfg 1
    [ mkNcfg None None 0 SFixed 0 false [false] 0;
      mkNcfg (Some 1) None 0 SFixed 0 false [false] 0 ]
    [0] 1 None [ RtNR [RDirect 2; RLeave] ] [ [None; None] ] false [ [false] ].
Definition b2_s0 : sim :=
  mkSim 1 0 (mkArr 0 0 [[Some 1]; [None]] 1 0 (Some 1)) [x_node 1 1 [x_srv 1] 1; x_node 2 1 [x_srv 1] 1] [] 0 0 [] x_nd [] [[0; 0]].
Definition b2_d : draws := mkDraws [2] [1] [3; 3] [0; 0] [] [].

Example b2_scopes : scope_fifo b2_cf = true /\ scope_blk b2_cf = true /\ scope_cap b2_cf = true.
Proof. vm_compute. repeat split; reflexivity. Qed.
Example b2_initial : len2_b b2_s0 = true /\ noint_b b2_s0 = true /\ blk2_b b2_cf b2_s0 = true /\ cap2_b b2_cf b2_s0 = true.
Proof. vm_compute. repeat split; reflexivity. Qed.
(* after 6 events customer 2 has finished at node 1 while node 2 is full: it is blocked; one event later node 2 has let
   customer 1 go and customer 2 has taken the place *)
Example b2_blocked :
  map (fun nd => (n_pop nd, n_queues nd, n_bq nd, n_lenbq nd)) (nodes (x_after b2_cf b2_s0 (repeat b2_d 6)))
    = [(3, [[2; 3; 4]], [], 0); (1, [[1]], [(1, 2)], 1)] /\
  map (fun nd => (n_pop nd, n_queues nd, n_bq nd, n_lenbq nd)) (nodes (x_after b2_cf b2_s0 (repeat b2_d 7)))
    = [(2, [[3; 4]], [], 0); (1, [[2]], [], 0)] /\
  exit_ids (x_after b2_cf b2_s0 (repeat b2_d 7)) = [1] /\
  blk2_b b2_cf (x_after b2_cf b2_s0 (repeat b2_d 6)) = true /\ cap2_b b2_cf (x_after b2_cf b2_s0 (repeat b2_d 6)) = true.
Proof. vm_compute. repeat split; reflexivity. Qed.
(* by the theorems: whatever the draws and however long the run *)
Example b2_run : forall ds s', run_many b2_cf b2_s0 ds = Ok s' ->
  Len2 s' /\ NoInt s' /\ Blk2 b2_cf s' /\ Cap2 b2_cf s' /\ fifo b2_s0 s' /\ ord b2_s0 s'.
Proof.
  intros ds s' H. destruct b2_scopes as (S1 & S2 & S3). destruct b2_initial as (I1 & I2 & I3 & I4).
  apply len2_b_sound in I1. apply noint_b_sound in I2. apply blk2_b_sound in I3. apply cap2_b_sound in I4.
  destruct (run_many_fifo2 b2_cf S1 ds _ _ I1 I2 H) as (A & B & C).
  destruct (run_many_cap2 b2_cf S3 ds _ _ I3 I4 H) as (D & E).
  destruct (run_many_len2 b2_cf ds _ _ I1 H) as (_ & F). exact (conj A (conj B (conj D (conj E (conj C F))))).
Qed.

(* ---- C06 is FALSE with jockeying into a node with a capacity (reneging customers jockey without a capacity test): node 1 has
   reneging and its customers jockey to node 2 (capacity 1), which ends up with 2 customers ---- *)
Definition r1_cf : config :=
  mkCfg 1
    [ mkNcfg None None 0 SFixed 0 true [true] 0;
      mkNcfg (Some 1) None 0 SFixed 0 false [false] 0 ]
    [0] 1 None [ RtNR [RJockey 2 2; RLeave] ] [ [None; None] ] false [ [false] ].
Definition r1_s0 : sim :=
  mkSim 1 0 (mkArr 0 0 [[Some 1]; [None]] 1 0 (Some 1)) [x_node 1 1 [x_srv 1] 1; x_node 2 1 [x_srv 1] 1] [] 0 0 [] x_nd [] [[0; 0]].
Definition r1_ds : list draws :=
  [ mkDraws [2] [1] [1] [0;0] [50] []; mkDraws [] [] [100] [0;0] [] []; mkDraws [2] [1] [100] [0;0] [50] [];
    mkDraws [2] [1] [] [0;0] [1] []; mkDraws [] [] [] [0;0] [] [] ].
Theorem cap2_refuted_jockeying :
  exists cf s ds s', scope_blk cf = true /\ scope_fifo cf = true /\ Blk2 cf s /\ Cap2 cf s /\ run_many cf s ds = Ok s' /\
    Blk2 cf s' /\ ~ Cap2 cf s'.
Proof.
  exists r1_cf, r1_s0, r1_ds, (x_after r1_cf r1_s0 r1_ds).
  split; [vm_compute; reflexivity|]. split; [vm_compute; reflexivity|].
  split; [apply blk2_b_sound; vm_compute; reflexivity|]. split; [apply cap2_b_sound; vm_compute; reflexivity|].
  split; [vm_compute; reflexivity|]. split; [apply blk2_b_sound; vm_compute; reflexivity|].
  apply (cap_viol_sound _ _ 1%nat). vm_compute. reflexivity.
Qed.

(* ---- C06 is FALSE with `reroute` pre-emption (the victim enters its next node without a capacity test): node 1 pre-empts by
   priority with option reroute, node 2 has capacity 1 and ends up with 2 customers ---- *)
Definition r2_cf : config :=
  mkCfg 2
    [ mkNcfg None None 0 SFixed 4 false [false; false] 0;
      mkNcfg (Some 1) None 0 SFixed 0 false [false; false] 0 ]
    [0; 1] 2 None [ RtNR [RDirect 2; RLeave]; RtNR [RDirect 2; RLeave] ] [ [None; None]; [None; None] ] false [ [false; false]; [false; false] ].
Definition r2_s0 : sim :=
  mkSim 1 0 (mkArr 0 0 [[Some 6; Some 1]; [None; None]] 1 1 (Some 1)) [x_node 1 2 [x_srv 1] 1; x_node 2 2 [x_srv 1] 1] [] 0 0 [] x_nd [] [[0; 0]; [0; 0]].
Definition r2_ds : list draws :=
  [ mkDraws [2] [1] [1] [0;0] [] []; mkDraws [] [] [100] [0;0] [] []; mkDraws [100] [1] [100] [0;0] [] [];
    mkDraws [100] [1] [7; 7] [0;0] [] [] ].
Theorem cap2_refuted_reroute :
  exists cf s ds s', scope_blk cf = true /\ scope_fifo cf = true /\ Blk2 cf s /\ Cap2 cf s /\ run_many cf s ds = Ok s' /\
    Blk2 cf s' /\ ~ Cap2 cf s'.
Proof.
  exists r2_cf, r2_s0, r2_ds, (x_after r2_cf r2_s0 r2_ds).
  split; [vm_compute; reflexivity|]. split; [vm_compute; reflexivity|].
  split; [apply blk2_b_sound; vm_compute; reflexivity|]. split; [apply cap2_b_sound; vm_compute; reflexivity|].
  split; [vm_compute; reflexivity|]. split; [apply blk2_b_sound; vm_compute; reflexivity|].
  apply (cap_viol_sound _ _ 1%nat). vm_compute. reflexivity.
Qed.

(* ---- C07 (ii) is FALSE with `reroute` pre-emption at a node that has a capacity: node 2 (one server, one waiting place) is
   full and customers 3 (high priority) and 4 are blocked to it; when customer 1 leaves node 2, customer 3 enters, pre-empts
   customer 2, which is rerouted away by release(reroute=True) -- without release_blocked_individual: node 2 is left with one
   free place and customer 4 still blocked to it ---- *)
Definition r3_cf : config :=
  mkCfg 2
    [ mkNcfg None None 0 SFixed 0 false [false; false] 0;
      mkNcfg (Some 2) None 0 SFixed 4 false [false; false] 0 ]
    [0; 1] 2 None [ RtNR [RDirect 2; RLeave]; RtNR [RDirect 2; RLeave] ] [ [None; None]; [None; None] ] false [ [false; false]; [false; false] ].
Definition r3_s0 : sim :=
  mkSim 1 0 (mkArr 0 0 [[Some 5; Some 1]; [None; None]] 1 1 (Some 1)) [x_node 1 2 [x_srv 1; x_srv 2] 2; x_node 2 2 [x_srv 1] 1] [] 0 0 [] x_nd [] [[0; 0]; [0; 0]].
Definition r3_ds : list draws :=
  [ mkDraws [1] [1] [1] [0;0] [] []; mkDraws [4] [1] [1] [0;0] [] []; mkDraws [] [] [20] [0;0] [] []; mkDraws [] [] [] [0;0] [] [];
    mkDraws [100] [1] [1] [0;0] [] []; mkDraws [100] [1] [1] [0;0] [] []; mkDraws [] [] [] [0;0] [] []; mkDraws [] [] [] [0;0] [] [];
    mkDraws [] [] [50; 50; 50] [0;0] [] [] ].
Theorem blk2_refuted_reroute :
  exists cf s ds s', scope_fifo cf = true /\ Blk2 cf s /\ Cap2 cf s /\ run_many cf s ds = Ok s' /\ Len2 s' /\ Cap2 cf s' /\ ~ Blk2 cf s'.
Proof.
  exists r3_cf, r3_s0, r3_ds, (x_after r3_cf r3_s0 r3_ds).
  split; [vm_compute; reflexivity|].
  split; [apply blk2_b_sound; vm_compute; reflexivity|]. split; [apply cap2_b_sound; vm_compute; reflexivity|].
  split; [vm_compute; reflexivity|]. split; [apply len2_b_sound; vm_compute; reflexivity|].
  split; [apply cap2_b_sound; vm_compute; reflexivity|].
  apply (blk_viol_sound _ _ 1%nat). vm_compute. reflexivity.
Qed.

(* ---- the FIFO dichotomy is FALSE with a pre-emptive shift change that interrupts blocked customers (F-02b): node 1 has two
   servers until 10, then one, pre-emption `resume`; customers 3 and 2 (in this order) are blocked to node 2 when the shift
   ends; both are interrupted, customer 2 (the earlier arrival) is resumed on the new server and begin_interrupted_individuals_service
   takes its entry out of the MIDDLE of node 2's blocked queue: [(1,3); (1,2)] becomes [(1,3)]  (and the clock goes back to 7) ---- *)
Definition r4_cf : config :=
  mkCfg 1
    [ mkNcfg None None 0 (SSched (mkSched [10; 20] [2; 1] 0 1)) 0 false [false] 0;
      mkNcfg (Some 1) None 0 SFixed 0 false [false] 0 ]
    [0] 1 None [ RtNR [RDirect 2; RLeave] ] [ [None; None] ] false [ [false] ].
Definition r4_n1 : node := mkNode 1 0 0 [[]] [] [] 0 (Some 0) [] (Some 0) 0 [] 0 [] [] [] 1 (Some 0) 0 None None.
Definition r4_s0 : sim :=
  mkSim 0 1 (mkArr 0 0 [[Some 1]; [None]] 1 0 (Some 1)) [r4_n1; x_node 2 1 [x_srv 1] 1] [] 0 0 [] x_nd [] [[0; 0]].
Definition r4_ds : list draws :=
  [ x_nd; mkDraws [1] [1] [1] [0;0] [] []; mkDraws [1] [1] [5] [0;0] [] []; mkDraws [] [] [100] [0;0] [] [];
    mkDraws [100] [1] [1] [0;0] [] []; mkDraws [] [] [] [0;0] [] []; mkDraws [] [] [] [0;0] [] [] ].
Definition r4_s7 : sim := x_after r4_cf r4_s0 r4_ds.
Theorem fifo_refuted_interrupted_blocked :
  exists cf s d s', scope_blk cf = true /\ scope_cap cf = true /\ Len2 s /\ NoInt s /\ Blk2 cf s /\
    event_step cf (s <| dr := d |>) = Ok (tt, s') /\
    map n_bq (nodes s) = [[]; [(1, 3); (1, 2)]] /\ map n_bq (nodes s') = [[]; [(1, 3)]] /\ now s' < now s /\
    ~ (heads_only s s' \/ one_blocked cf (next_active s) s s').
Proof.
  exists r4_cf, r4_s7, x_nd, (x_after r4_cf r4_s7 [x_nd]).
  split; [vm_compute; reflexivity|]. split; [vm_compute; reflexivity|].
  split; [apply len2_b_sound; vm_compute; reflexivity|]. split; [apply noint_b_sound; vm_compute; reflexivity|].
  split; [apply blk2_b_sound; vm_compute; reflexivity|].
  split; [vm_compute; reflexivity|]. split; [vm_compute; reflexivity|]. split; [vm_compute; reflexivity|].
  split; [vm_compute; reflexivity|].
  apply (heads_viol_sound _ _ _ _ 1%nat). vm_compute. reflexivity.
Qed.

Print Assumptions event_step_len2.
Print Assumptions run_many_len2.
Print Assumptions event_step_fifo2.
Print Assumptions run_many_fifo2.
Print Assumptions event_step_blk2.
Print Assumptions run_many_blk2.
Print Assumptions event_step_cap2.
Print Assumptions run_many_cap2.
Print Assumptions blk2_means.
Print Assumptions blk2_full.
Print Assumptions cap2_means.
Print Assumptions len2_b_sound.
Print Assumptions noint_b_sound.
Print Assumptions blk2_b_sound.
Print Assumptions cap2_b_sound.
Print Assumptions b2_blocked.
Print Assumptions b2_run.
Print Assumptions cap2_refuted_jockeying.
Print Assumptions cap2_refuted_reroute.
Print Assumptions blk2_refuted_reroute.
Print Assumptions fifo_refuted_interrupted_blocked.

(* ---------- the executable forms together, for a snapshot of the real engine: an invariant proved in a restricted scope is
   reported as true outside it ---------- *)
Definition blocking2_b (cf : config) (s : sim) : list bool :=
  [ len2_b s;                                                   (* C07 (i): counter = length, every configuration *)
    negb (scope_blk cf) || blk2_b cf s;                          (* C07 (ii): nobody blocked while the destination has space *)
    negb (scope_cap cf) || (blk2_b cf s && cap2_b cf s);         (* C06: population <= capacity *)
    negb (scope_fifo cf) || noint_b s ].                         (* hypothesis of the FIFO dichotomy *)
Theorem blocking2_b_sound cf s : blocking2_b cf s = [true; true; true; true] ->
  Len2 s /\ (scope_blk cf = true -> Blk2 cf s) /\ (scope_cap cf = true -> Blk2 cf s /\ Cap2 cf s) /\ (scope_fifo cf = true -> NoInt s).
Proof.
  unfold blocking2_b. intros H. injection H as H1 H2 H3 H4.
  split; [apply len2_b_sound; exact H1|]. split; [|split].
  - intros E. rewrite E in H2. cbn in H2. apply blk2_b_sound. exact H2.
  - intros E. rewrite E in H3. cbn in H3. apply andb_true_iff in H3 as [A B]. split; [apply blk2_b_sound; exact A|apply cap2_b_sound; exact B].
  - intros E. rewrite E in H4. cbn in H4. apply noint_b_sound. exact H4.
Qed.
Print Assumptions blocking2_b_sound.

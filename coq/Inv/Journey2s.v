(* Journey2s.v -- T2 for C03 (journey continuity) on the STAGE-2 engine model (Engine2.v), extended to PRE-EMPTIVE SCHEDULES.
   Journey2.v proves the journey invariant in a scope that excludes every pre-emptive Schedule: it only shows interrupt_service and
   begin_interrupted_individuals_service unreachable (invariant NoInt: n_nint <= 0 at every node).  Here a shift change of a
   pre-emptive Schedule (resume / restart / resample) interrupts the customers in service: interrupt_service writes an interruption
   record WITHOUT destination (a continuation record of the same visit, already part of Journey2's cont / link relation), the
   customer stays in its queue and joins the list of interrupted customers of its node; its server retires; a server that comes on
   duty (or is freed) restarts it (begin_interrupted_individuals_service: no record).  History h, ghost `an`, record types, closing /
   cont / link / lastok / JH / Lq / SrvInv are Journey2's (Required and Imported; the names re-defined here shadow Journey2's).

   Main result, for every configuration IN SCOPE (scope2s, executable), every state satisfying the invariant Jrn2s, every oracle of
   draws (no hypothesis on the draws) and any number of events (partial correctness: nothing is said about runs that return Err /
   OutOfFuel):   event_step_jrn2s, run_hist_jrn2s, run_many_jrn2s, engine_journey2s   (run_hist, an_step are Journey2's)
   and Jrn2s_means: the same six clauses (0)-(5) as Journey2.Jrn2_means, word for word; Jrn2s_int_means: what the invariant says
   about the interrupted lists; jrn2s_b / jrn2s_b_sound: executable test.

   Scope (scope2s cf = true; scope2_scope2s: it contains Journey2's scope2):
     - every node: priority pre-emption is not `reroute` (4); a Schedule is not `reroute` (sc_pre <> 4: False / resume / restart /
       resample are all allowed); no pre-emptive capacitated slot; a slotted node has neither reneging nor priority pre-emption;
     - if some node has priority pre-emption then no node has a capacity and there are no class-change times (as in Journey2);
     - if some node has a PRE-EMPTIVE Schedule then no node has a capacity (nobody is ever blocked: a blocked customer interrupted
       by a shift change is finding F-02b; NOT refuted: f02b_not_a_witness shows that on the F-02b run of Clock2.v the journey
       invariant proper survives; the region is scoped out because the proof needs "an interrupted customer is not blocked").
   PARTIAL with respect to the task (event_step_jrn2s_partial / run_many_jrn2s_partial name it): pre-emptive CAPACITATED SLOTS are
   not covered (and not refuted).  What is missing for them is an invariant for slotted nodes, which Journey2.SrvInv exempts
   altogether: the slot picks its victims among the customers with a service start date and the next end of service among those
   with an end date, so "an interrupted customer is not picked again / not restarted twice" needs i_sst = i_send = None for the
   customers on the list and "a started customer carries the server mark -1", fields outside the views of this proof.  The
   record written by interrupt_service and the restart in slot_loop are as for Schedules: interrupt_service_StX is the
   function-level statement (one continuation record, nobody moves) for a customer held by a server.

   The invariant Jrn2s cf an s h = Conserve2.WFx2 + JH + Lq + Journey2.SrvInv + PickOK (here: the customers named for the next end
   of service are moreover not on the interrupted list) + IntInv, which replaces Journey2's NoInt:
     ii_sch  only a node with a pre-emptive Schedule has interrupted customers;     ii_nd  no customer twice on a list;
     ii_mem  an interrupted customer of node j is not in flight, is recorded in node j, records a server, and NO server holds it;
     ii_nb   with a pre-emptive Schedule in the configuration nobody is blocked.
   IntInv cf ex xc fl s has two exemptions used in the middle of an event: node ex (the servers of the node whose shift is being
   changed still hold the customers just interrupted, until they are all retired) and customer xc (the customer being restarted
   holds its new server before it is taken off the list).

   Method: Journey2's, forked where NoInt was used.  The journey view no longer looks at n_nint (a restart changes it and nothing
   else the journey invariant looks at), the server view now looks at n_interrupted; SrvI = Journey2.SrvInv + IntInv is threaded
   where Journey2 threads SrvInv (Notation SrvInv; the projections si_n .. si_nb and the server operations srv_attach .. are
   wrapped so that Journey2's proof text of the walk goes through); IntInv_step is the one lemma by which IntInv moves.  New walks:
   srv_biis (restart), interrupt_service_StX, off_duty_loop_StX (loop invariant LoopOK: the servers still to be visited hold no
   interrupted customer, which gives NoDup), sort_int_StX, kill_all_StX, take_off_duty_pre_St, change_shift_St.
   Examples: sx_* (a resume Schedule with an empty shift: customer 1 is interrupted at the shift end at 10, sits on the interrupted
   list while nobody serves - Journey2's NoInt is false there -, is restarted at 20 and leaves at 26 with a service record);
   jx_Jrn2s, jp_Jrn2s (Journey2's two networks). *)
From Coq Require Import ZArith List Bool Lia Permutation.
From RecordUpdate Require Import RecordUpdate.
From CiwV Require Import Sx Prelude Routing Sched.
From CiwV.Engine Require Import State2 Engine2 Codec2.
From CiwV.Inv Require Conserve2.
From CiwV.Inv Require Import Journey2.
Import ListNotations.
Open Scope Z_scope.

Local Arguments Z.mul : simpl never.
Local Arguments Z.add : simpl never.
Local Arguments Z.sub : simpl never.
Local Arguments Z.ltb : simpl never.
Local Arguments Z.leb : simpl never.
Local Arguments Z.eqb : simpl never.
Local Arguments Z.to_nat : simpl never.
Local Arguments Z.of_nat : simpl never.
Local Arguments nth_error : simpl never.

(* ====================================================================================================================
   1. The views, again: the journey view no longer looks at the number of interrupted customers (restarting an interrupted
      customer changes it and nothing else the journey invariant looks at); the server view now looks at the list of
      interrupted customers.  fiJ fgJ fiS fgS fiB fgB are Journey2's.
   ==================================================================================================================== *)
Definition fnJ (nd : node) := (n_pop nd, n_queues nd, n_bq nd).
Definition fnS (nd : node) := (map srv3 (n_servers nd), n_highest nd, nd_inf nd, n_interrupted nd).
Definition fnB (nd : node) := (fnJ nd, fnS nd).
Notation keepJ := (keepV fnJ fiJ fgJ).
Notation keepS := (keepV fnS fiS fgS).
Notation keepB := (keepV fnB fiB fgB).
Notation VJ := (VW fnJ fiJ fgJ).
Notation VS := (VW fnS fiS fgS).
Notation VB := (VW fnB fiB fgB).
(* Journey2's server view (without the interrupted list) *)
Notation VS0 := (VW Journey2.fnS fiS fgS).

Lemma kb_kj K {X} (m : M X) : keepB KT m -> keepJ K m.
Proof. intros H. exact (keepV_proj fnB fiB fgB fst fst fst K m H). Qed.
Lemma kb_ks K {X} (m : M X) : keepB KT m -> keepS K m.
Proof. intros H. exact (keepV_proj fnB fiB fgB snd snd snd K m H). Qed.
Lemma VS_VS0 s s' : VS s' = VS s -> VS0 s' = VS0 s.
Proof. intros E. exact (VW_proj fnS fiS fgS fst (fun v => v) (fun v => v) s s' E). Qed.

(* ---------- functions that change nothing either view looks at (Journey2's FrameB for the new views;
              sort_interrupted_individuals is no longer one of them) ---------- *)
Section FrameB.
  Variable cf : config.
  Notation PB m := (keepB KT m).

  Lemma kb_ncfg_of j : PB (ncfg_of cf j). Proof. apply kv_lift. Qed.
  Lemma kb_tnow : PB tnow. Proof. apply kv_gets. Qed.
  Lemma kb_choice_uniform {X} (l : list X) : PB (choice_uniform l). Proof. unfold choice_uniform. kv0. Qed.
  Lemma kb_choice_weighted den P : PB (choice_weighted den P). Proof. unfold choice_weighted. kv0. Qed.
  Lemma kb_choose_next_customer j : PB (choose_next_customer cf j).
  Proof. unfold choose_next_customer. kv using first [apply kb_ncfg_of | apply kb_choice_uniform]. Qed.
  Lemma kb_find_next_class_change j : PB (find_next_class_change j).
  Proof. unfold find_next_class_change. kv0. Qed.
  Lemma kb_cct_loop row : forall b best bc, PB (cct_loop row b best bc).
  Proof. induction row as [|h r IH]; intros b best bc; cbn [cct_loop]; [apply kv_ret|]. kv using (apply IH). Qed.
  Lemma kb_decide_class_change j i : PB (decide_class_change cf j i).
  Proof. unfold decide_class_change. kv using first [apply kb_cct_loop | apply kb_find_next_class_change]. Qed.
  Lemma kb_reset_class_change j i : PB (reset_class_change cf j i).
  Proof. unfold reset_class_change. kv using (apply kb_find_next_class_change). Qed.
  Lemma kb_stime_num x : PB (stime_num x). Proof. unfold stime_num. kv0. Qed.
  Lemma kb_give_service_time_after_preemption i : PB (give_service_time_after_preemption i).
  Proof. unfold give_service_time_after_preemption. kv0. Qed.
  Lemma kb_give_individual_a_service_time i : PB (give_individual_a_service_time i).
  Proof. unfold give_individual_a_service_time. kv using (apply kb_give_service_time_after_preemption). Qed.
  Lemma kb_valid_dest d : PB (valid_dest d). Proof. unfold valid_dest. kv0. Qed.
  Lemma kb_jsq_loop lb ds : forall best acc, PB (jsq_loop lb ds best acc).
  Proof. induction ds as [|d r IH]; intros best acc; cbn [jsq_loop]; [apply kv_ret|]. kv using (apply IH). Qed.
  Lemma kb_jsq_next lb ds order : PB (jsq_next lb ds order).
  Proof. unfold jsq_next. kv using first [apply kb_jsq_loop | apply kb_choice_uniform]. Qed.
  Lemma kb_get_cyc c j : PB (get_cyc c j). Proof. unfold get_cyc. kv0. Qed.
  Lemma kb_bump_cyc c j : PB (bump_cyc c j).
  Proof.
    unfold bump_cyc. apply kv_modify. intros s. destruct (nthZ (cyc s) c) as [row|]; [|reflexivity].
    destruct (nthZ row (j - 1)); reflexivity.
  Qed.
  Lemma kb_node_router_next r c j : PB (node_router_next r c j).
  Proof. unfold node_router_next. kv using first [apply kb_choice_weighted | apply kb_jsq_next | apply kb_get_cyc | apply kb_bump_cyc]. Qed.
  Lemma kb_next_node_for mode j i : PB (next_node_for cf mode j i).
  Proof.
    unfold next_node_for.
    kv using first [apply kb_node_router_next | apply kb_valid_dest | apply kb_choice_uniform | apply kb_jsq_next].
  Qed.
  Lemma kb_get_reneging_date j i : PB (get_reneging_date cf j i).
  Proof. unfold get_reneging_date. kv using (apply kb_ncfg_of). Qed.
  Lemma kb_preempt_victim j i : PB (preempt_victim cf j i).
  Proof. unfold preempt_victim. kv using (apply kb_ncfg_of). Qed.
  Lemma kb_decide_between l : PB (decide_between l).
  Proof. unfold decide_between. destruct l as [|a [|b r]]; [apply kv_fail|apply kv_ret|apply kb_choice_uniform]. Qed.
  Lemma kb_change_customer_class j i : PB (change_customer_class cf j i).
  Proof. unfold change_customer_class. kv using first [apply kb_ncfg_of | apply kb_choice_weighted]. Qed.
  Lemma kb_has_space d : PB (has_space cf d). Proof. unfold has_space. kv using (apply kb_ncfg_of). Qed.
  Lemma kb_keyed l : PB (keyed l). Proof. unfold keyed. kv0. Qed.
  Lemma kb_update_next_event_date j : PB (update_next_event_date cf j).
  Proof. unfold update_next_event_date. kv using (apply kb_ncfg_of). Qed.
  Lemma kb_update_all js : PB (update_all cf js).
  Proof. induction js as [|j r IH]; cbn [update_all]; [apply kv_ret|]. kv using first [apply IH | apply kb_update_next_event_date]. Qed.
  Lemma kb_find_next_event_date : PB find_next_event_date.
  Proof. apply kv_modify. intros s. destruct (find_min_dates 1 (a_dates (arr s)) (None, 0, 0)) as [[d j] c]. reflexivity. Qed.
  Lemma kb_sys_population : PB sys_population. Proof. unfold sys_population. kv0. Qed.
  Lemma kb_route_of i c : PB (route_of cf i c). Proof. unfold route_of. kv0. Qed.
End FrameB.

Ltac kb_lem :=
  first [ apply kb_ncfg_of | apply kb_tnow | apply kb_choice_uniform | apply kb_choice_weighted | apply kb_choose_next_customer
        | apply kb_find_next_class_change | apply kb_cct_loop | apply kb_decide_class_change
        | apply kb_reset_class_change | apply kb_stime_num | apply kb_give_service_time_after_preemption
        | apply kb_give_individual_a_service_time | apply kb_valid_dest
        | apply kb_jsq_loop | apply kb_jsq_next | apply kb_get_cyc | apply kb_bump_cyc | apply kb_node_router_next
        | apply kb_next_node_for | apply kb_get_reneging_date
        | apply kb_preempt_victim | apply kb_decide_between | apply kb_change_customer_class | apply kb_has_space | apply kb_keyed
        | apply kb_update_next_event_date | apply kb_update_all | apply kb_find_next_event_date
        | apply kb_sys_population | apply kb_route_of ].
Ltac kjb := apply kb_kj; kb_lem.
Ltac ksb := apply kb_ks; kb_lem.

Section FrameJ.
  Variable cf : config.
  Notation PJ m := (keepJ KT m).
  Lemma kj_upd_server j sid f : PJ (upd_server j sid f). Proof. unfold upd_server. kv0. Qed.
  Lemma kj_attach_server j sid i : PJ (attach_server j sid i).
  Proof. unfold attach_server. kv using (apply kj_upd_server). Qed.
  Lemma kj_set_next_end j sid d : PJ (set_next_end j sid d). Proof. unfold set_next_end. apply kj_upd_server. Qed.
  Lemma kj_kill_server j sid : PJ (kill_server j sid). Proof. unfold kill_server. kv using kjb. Qed.
  Lemma kj_detatch_server j sid i : PJ (detatch_server j sid i).
  Proof. unfold detatch_server. kv using first [apply kj_kill_server | kjb]. Qed.
  Lemma kj_add_new_servers k j : PJ (add_new_servers k j).
  Proof. induction k as [|k IH]; cbn [add_new_servers]; [apply kv_ret|]. kv using first [apply IH | kjb]. Qed.
End FrameJ.

Section FrameS.
  Variable cf : config.
  Notation PS m := (keepS KT m).
  Lemma ks_log_rec r : PS (log_rec r). Proof. unfold log_rec. apply kv_modify. intros ?. reflexivity. Qed.
  Lemma ks_bump_rec i : PS (bump_rec i). Proof. unfold bump_rec. kv0. Qed.
  Lemma ks_write_individual_record j i : PS (write_individual_record cf j i).
  Proof. unfold write_individual_record. kv using first [apply ks_log_rec | apply ks_bump_rec | ksb]. Qed.
  Lemma ks_write_interruption_record j i d : PS (write_interruption_record cf j i d).
  Proof. unfold write_interruption_record. kv using first [apply ks_log_rec | apply ks_bump_rec | ksb]. Qed.
  Lemma ks_write_reneging_record j i : PS (write_reneging_record j i).
  Proof. unfold write_reneging_record. kv using first [apply ks_log_rec | apply ks_bump_rec | ksb]. Qed.
  Lemma ks_write_br_record j i ty : PS (write_br_record j i ty).
  Proof. unfold write_br_record. kv using first [apply ks_log_rec | apply ks_bump_rec | ksb]. Qed.
  Lemma ks_reset_individual_attributes i : PS (reset_individual_attributes i).
  Proof. unfold reset_individual_attributes. kv0. Qed.
End FrameS.

(* ====================================================================================================================
   2. The scope: Journey2's scope2, with PRE-EMPTIVE Schedules (resume / restart / resample) allowed.
      every node: no pre-emption by rerouting (priority option or Schedule option 4); no pre-emptive capacitated slot; a
      slotted node has no reneging and no priority pre-emption.
      whole configuration: if some node has priority pre-emption, then no node has a capacity and there is no class change
      while waiting; if some node has a pre-emptive Schedule, then no node has a capacity (nobody is ever blocked:
      interrupting a blocked customer is finding F-02b).
   ==================================================================================================================== *)
Definition scope_nc (nc : ncfg) : bool :=
  negb (nc_preempt nc =? 4) &&
  match nc_srv nc with
  | SFixed => true
  | SSched sc => negb (sc_pre sc =? 4)
  | SSlot sl => negb (sl_cap sl && negb (sl_pre sl =? 0)) && negb (nc_reneging nc) && (nc_preempt nc =? 0)
  end.
Definition psched_nc (nc : ncfg) : bool := match nc_srv nc with SSched sc => negb (sc_pre sc =? 0) | _ => false end.
Definition psched (cf : config) : bool := existsb psched_nc (cf_nodes cf).
Definition psched_of (cf : config) (j : Z) : bool :=
  match nthZ (cf_nodes cf) (j - 1) with Some nc => psched_nc nc | None => false end.
Definition anypre (cf : config) : bool := preempts cf || psched cf.
Definition scope2s (cf : config) : bool :=
  forallb scope_nc (cf_nodes cf) && (if preempts cf then forallb nocap (cf_nodes cf) && negb (cf_dyn cf) else true)
  && (if psched cf then forallb nocap (cf_nodes cf) else true).

Lemma scope2_scope2s cf : scope2 cf = true -> scope2s cf = true.
Proof.
  unfold scope2, scope2s. intros H. apply andb_true_iff in H as [H1 H2].
  assert (Hall : forall nc, In nc (cf_nodes cf) -> scope_nc nc = true /\ psched_nc nc = false).
  { intros nc Hin. rewrite forallb_forall in H1. specialize (H1 nc Hin). unfold Journey2.scope_nc in H1. unfold scope_nc, psched_nc.
    apply andb_true_iff in H1 as [A B]. rewrite A. destruct (nc_srv nc) as [|sc|sl]; [auto| |rewrite B; auto].
    apply Z.eqb_eq in B. rewrite B. auto. }
  assert (Hp : psched cf = false).
  { unfold psched. destruct (existsb psched_nc (cf_nodes cf)) eqn:E; [|reflexivity]. apply existsb_exists in E as (nc & Hin & Hnc).
    destruct (Hall nc Hin) as [_ Hx]. congruence. }
  rewrite Hp, H2, andb_true_r, andb_true_r. apply forallb_forall. intros nc Hin. exact (proj1 (Hall nc Hin)).
Qed.
Lemma scope2s_nc cf j nc : scope2s cf = true -> nthZ (cf_nodes cf) (j - 1) = Some nc -> scope_nc nc = true.
Proof.
  unfold scope2s. intros H Hn. apply andb_true_iff in H as [H _]. apply andb_true_iff in H as [H _].
  rewrite forallb_forall in H. apply H. eapply nthZ_In; eauto.
Qed.
Lemma scope2s_pre cf : scope2s cf = true -> preempts cf = true ->
  (forall j nc, nthZ (cf_nodes cf) (j - 1) = Some nc -> nc_cap nc = None) /\ cf_dyn cf = false.
Proof.
  unfold scope2s. intros H Hp. rewrite Hp in H. apply andb_true_iff in H as [H _]. apply andb_true_iff in H as [_ H].
  apply andb_true_iff in H as [H1 H2]. apply negb_true_iff in H2.
  split; [|exact H2]. intros j nc Hn. rewrite forallb_forall in H1. specialize (H1 nc (nthZ_In _ _ _ Hn)). unfold nocap in H1. destruct (nc_cap nc); [discriminate|reflexivity].
Qed.
Lemma scope2s_anypre cf : scope2s cf = true -> anypre cf = true -> forall j nc, nthZ (cf_nodes cf) (j - 1) = Some nc -> nc_cap nc = None.
Proof.
  intros Hsc Ha. unfold anypre in Ha. apply orb_true_iff in Ha as [Hp|Hp]; [exact (proj1 (scope2s_pre cf Hsc Hp))|].
  unfold scope2s in Hsc. rewrite Hp in Hsc. apply andb_true_iff in Hsc as [_ H1]. intros j nc Hn.
  rewrite forallb_forall in H1. specialize (H1 nc (nthZ_In _ _ _ Hn)). unfold nocap in H1. destruct (nc_cap nc); [discriminate|reflexivity].
Qed.
Lemma psched_of_psched cf j : psched_of cf j = true -> psched cf = true.
Proof.
  unfold psched_of, psched. destruct (nthZ (cf_nodes cf) (j - 1)) as [nc|] eqn:E; [|discriminate]. intros H.
  apply existsb_exists. exists nc. split; [eapply nthZ_In; eauto|exact H].
Qed.
Lemma psched_of_sched cf j : psched_of cf j = true -> sched_of cf j = true /\ slot_of cf j = false.
Proof.
  unfold psched_of, sched_of, slot_of, psched_nc, nc_slotted. destruct (nthZ (cf_nodes cf) (j - 1)) as [nc|]; [|discriminate].
  destruct (nc_srv nc); [discriminate|auto|discriminate].
Qed.
Lemma preempts_anypre cf : preempts cf = true -> anypre cf = true.
Proof. unfold anypre. intros ->. reflexivity. Qed.
Lemma psched_anypre cf : psched cf = true -> anypre cf = true.
Proof. unfold anypre. intros ->. apply orb_true_r. Qed.

(* ====================================================================================================================
   3. What the journey view determines (Journey2's lemmas for the view without n_nint)
   ==================================================================================================================== *)
Lemma VJ_node s s' k nd' : VJ s' = VJ s -> nodeZ s' k = Some nd' ->
  exists nd, nodeZ s k = Some nd /\ n_id nd' = n_id nd /\ n_pop nd' = n_pop nd /\ n_queues nd' = n_queues nd /\ n_bq nd' = n_bq nd.
Proof.
  intros E Hn. pose proof (VW_node fnJ fiJ fgJ s s' k E) as Hv. rewrite Hn in Hv. destruct (nodeZ s k) as [nd|]; [|discriminate].
  cbn in Hv. unfold nv, fnJ in Hv. injection Hv as E1 E2 E3 E4. exists nd. auto 7.
Qed.
Lemma VJ_glob s s' : VJ s' = VJ s ->
  exit_ids s' = exit_ids s /\ exit_n s' = exit_n s /\ a_created (arr s') = a_created (arr s) /\ now s' = now s /\ log s' = log s.
Proof. intros E. apply (f_equal v_g) in E. cbn in E. unfold fgJ in E. injection E as E1 E2 E3 E4 E5. auto. Qed.
Lemma VJ_at s s' k i : VJ s' = VJ s -> at_node s' k i -> at_node s k i.
Proof. intros E (nd' & Hn & Hin). destruct (VJ_node _ _ _ _ E Hn) as (nd & Hn0 & _ & _ & Eq & _). exists nd. split; [exact Hn0|]. unfold all_individuals in *. rewrite <- Eq. exact Hin. Qed.
Lemma VJ_entry s s' d f y : VJ s' = VJ s -> entry s' d f y -> entry s d f y.
Proof. intros E (nd' & Hn & Hin). destruct (VJ_node _ _ _ _ E Hn) as (nd & Hn0 & _ & _ & _ & Eq). exists nd. split; [exact Hn0|]. rewrite <- Eq. exact Hin. Qed.
Lemma VJ_shp s s' : VJ s' = VJ s -> Conserve2.shp s' = Conserve2.shp s.
Proof.
  intros E. destruct (VJ_glob _ _ E) as (E1 & E2 & E3 & _ & _). unfold Conserve2.shp. rewrite E1, E2, E3. f_equal.
  - pose proof (f_equal v_ns E) as En. cbn in En.
    transitivity (map (fun t : Z * (Z * list (list Z) * list (Z * Z)) => (fst t, fst (fst (snd t)), snd (fst (snd t)))) (map (nv fnJ) (nodes s')));
      [rewrite map_map; reflexivity|]. rewrite En, map_map. reflexivity.
  - pose proof (f_equal v_is E) as Ei. cbn in Ei.
    transitivity (map (fun t : Z * (option Z * option Z * Z * option Z * bool) => fst t) (map (iv fiJ) (inds s'))); [rewrite map_map; reflexivity|].
    rewrite Ei, map_map. reflexivity.
Qed.
Lemma VJ_find s s' i : VJ s' = VJ s -> option_map fiJ (find_ind i (inds s')) = option_map fiJ (find_ind i (inds s)).
Proof. apply VW_ind. Qed.

Lemma Lq_VJ s s' : VJ s' = VJ s -> Lq s -> Lq s'.
Proof.
  intros E [A B]. constructor.
  - intros d f y He. destruct (A d f y (VJ_entry _ _ _ _ _ E He)) as (x & Hx & Hd & Hb).
    pose proof (VJ_find s s' y E) as Hv. rewrite Hx in Hv. destruct (find_ind y (inds s')) as [x'|]; [|discriminate].
    cbn in Hv. unfold fiJ in Hv. injection Hv as _ _ _ E4 E5. exists x'. split; [reflexivity|]. split; congruence.
  - intros d nd' Hn. destruct (VJ_node _ _ _ _ E Hn) as (nd & Hn0 & _ & _ & _ & Eq). rewrite Eq. exact (B d nd Hn0).
Qed.
Lemma NoEntry_VJ s s' i : VJ s' = VJ s -> NoEntry s i -> NoEntry s' i.
Proof. intros E HN d f He. exact (HN d f (VJ_entry _ _ _ _ _ E He)). Qed.
Lemma JI_VJ an h s s' : VJ s' = VJ s -> JI an h s -> JI an h s'.
Proof.
  intros E HJ. destruct (VJ_glob _ _ E) as (E1 & _ & E3 & _ & E5). unfold JI in *. rewrite E5.
  apply (JH_mono an _ s s' HJ); [intros k y; apply VJ_at; exact E| |exact E1|lia].
  intros k y _. apply fiJ_jv3. apply VJ_find. exact E.
Qed.
Lemma Idx_VJ s s' : VJ s' = VJ s -> Idx s -> Idx s'.
Proof. intros E HI k nd' Hn. destruct (VJ_node _ _ _ _ E Hn) as (nd & Hn0 & Eid & _). rewrite Eid. exact (HI k nd Hn0). Qed.
Lemma NodeOK_VJ s s' : VJ s' = VJ s -> NodeOK s -> NodeOK s'.
Proof.
  intros E HN k i Hat. destruct (HN k i (VJ_at _ _ _ _ E Hat)) as (x & Hx & Hk).
  pose proof (VJ_find s s' i E) as Hv. rewrite Hx in Hv. destruct (find_ind i (inds s')) as [x'|]; [|discriminate].
  cbn in Hv. unfold fiJ in Hv. injection Hv as E1 _ _ _ _. exists x'. split; [reflexivity|congruence].
Qed.

(* the journey part of the state (Journey2's Jst without NoInt) *)
Definition Jst (an : Z -> option Z) (h : list rec) (fl : list Z) (s : sim) : Prop :=
  Conserve2.WFx2 fl s /\ JI an h s /\ Lq s.
Lemma Jst_VJ an h fl s s' : VJ s' = VJ s -> Jst an h fl s -> Jst an h fl s'.
Proof.
  intros E (A & B & C). split; [eapply Conserve2.WFx2_shape; [apply VJ_shp; exact E|exact A]|].
  split; [eapply JI_VJ; eauto|eapply Lq_VJ; eauto].
Qed.
(* the context the server lemmas need: conservation, every customer is recorded in its node *)
Definition Ctx (fl : list Z) (s : sim) : Prop := Conserve2.WFx2 fl s /\ NodeOK s.
Lemma Ctx_VJ fl s s' : VJ s' = VJ s -> Ctx fl s -> Ctx fl s'.
Proof. intros E (A & B). split; [eapply Conserve2.WFx2_shape; [apply VJ_shp; exact E|exact A]|eapply NodeOK_VJ; eauto]. Qed.
Lemma Ctx_Idx fl s : Ctx fl s -> Idx s.
Proof. intros (A & _). eapply WFx2_Idx; eauto. Qed.

(* ====================================================================================================================
   4. The server view with the interrupted list; the invariant for interrupted customers
   ==================================================================================================================== *)
Lemma VS_node s s' k nd' : VS s' = VS s -> nodeZ s' k = Some nd' ->
  exists nd, nodeZ s k = Some nd /\ n_id nd' = n_id nd /\ map srv3 (n_servers nd') = map srv3 (n_servers nd) /\ n_highest nd' = n_highest nd /\
    nd_inf nd' = nd_inf nd /\ n_interrupted nd' = n_interrupted nd.
Proof.
  intros E Hn. pose proof (VW_node fnS fiS fgS s s' k E) as Hv. rewrite Hn in Hv. destruct (nodeZ s k) as [nd|]; [|discriminate].
  cbn in Hv. unfold nv, fnS in Hv. injection Hv as E1 E2 E3 E4 E5. exists nd. auto 7.
Qed.
Lemma VS_find s s' i x' : VS s' = VS s -> find_ind i (inds s') = Some x' ->
  exists x, find_ind i (inds s) = Some x /\ i_server x' = i_server x /\ i_node x' = i_node x /\ i_blocked x' = i_blocked x.
Proof. intros E. exact (Journey2.VS_find s s' i x' (VS_VS0 _ _ E)). Qed.
Lemma VS_sym s s' : VS s' = VS s -> VS s = VS s'. Proof. auto. Qed.

(* no server outside node ex (if any) holds customer i *)
Definition NoOwnerX (cf : config) (ex : option Z) (i : Z) (s : sim) : Prop :=
  forall j nd sv, nodeZ s j = Some nd -> ex <> Some j -> slot_of cf j = false -> In sv (n_servers nd) -> sv_cust sv <> Some i.
Lemma NoOwnerX_None cf i s : NoOwnerX cf None i s <-> NoOwner cf i s.
Proof.
  split.
  - intros H j nd sv Hn. apply (H j nd sv Hn). discriminate.
  - intros H j nd sv Hn _. exact (H j nd sv Hn).
Qed.
Lemma NoOwnerX_VS0 cf ex i s s' : VS0 s' = VS0 s -> NoOwnerX cf ex i s -> NoOwnerX cf ex i s'.
Proof.
  intros E HN j nd' sv Hn Hex Hs Hin Hc. destruct (Journey2.VS_node _ _ _ _ E Hn) as (nd & Hn0 & _ & E1 & _ & _).
  destruct (srv3_in _ _ _ E1 Hin) as (sv0 & H0 & E0). unfold srv3 in E0. injection E0 as _ E02 _. apply (HN j nd sv0 Hn0 Hex Hs H0). congruence.
Qed.
Definition NotInt (s : sim) (i : Z) : Prop := forall k nd, nodeZ s k = Some nd -> ~ In i (n_interrupted nd).

(* ii_sch: only a node with a pre-emptive Schedule has interrupted customers; ii_nd: no customer twice in a list;
   ii_mem: an interrupted customer of node j is not in flight, no server holds it (node ex and customer xc are exempt: the
   node whose shift is being changed, the customer whose service is being restarted), it is recorded in node j and records a
   (retired) server; ii_nb: with a pre-emptive Schedule in the configuration (hence no capacities) nobody is blocked *)
Record IntInv (cf : config) (ex xc : option Z) (fl : list Z) (s : sim) : Prop := mkInt {
  ii_sch : forall j nd, nodeZ s j = Some nd -> psched_of cf j = false -> n_interrupted nd = [];
  ii_nd : forall j nd, nodeZ s j = Some nd -> NoDup (n_interrupted nd);
  ii_mem : forall j nd i, nodeZ s j = Some nd -> In i (n_interrupted nd) ->
     ~ In i fl /\ (xc <> Some i -> NoOwnerX cf ex i s) /\
     exists x, find_ind i (inds s) = Some x /\ i_node x = Some j /\ i_server x <> None;
  ii_nb : psched cf = true -> forall i x, find_ind i (inds s) = Some x -> i_blocked x = false
}.
(* the server invariant of this file: Journey2's and the interrupted lists *)
Definition SrvI (cf : config) (ex xc : option Z) (fl : list Z) (s : sim) : Prop := Journey2.SrvInv cf fl s /\ IntInv cf ex xc fl s.
Notation SrvInv cf fl s := (SrvI cf None None fl s).

Definition si_n cf {ex xc} fl s (H : SrvI cf ex xc fl s) := Journey2.si_n cf fl s (proj1 H).
Definition si_own cf {ex xc} fl s (H : SrvI cf ex xc fl s) := Journey2.si_own cf fl s (proj1 H).
Definition si_blk cf {ex xc} fl s (H : SrvI cf ex xc fl s) := Journey2.si_blk cf fl s (proj1 H).
Lemma si_nb cf {ex xc} fl s (H : SrvI cf ex xc fl s) : anypre cf = true -> forall i x, find_ind i (inds s) = Some x -> i_blocked x = false.
Proof.
  intros Ha. unfold anypre in Ha. apply orb_true_iff in Ha as [Hp|Hp]; [exact (Journey2.si_nb cf fl s (proj1 H) Hp)|exact (ii_nb _ _ _ _ _ (proj2 H) Hp)].
Qed.

Lemma IntInv_VS cf ex xc fl s s' : VS s' = VS s -> IntInv cf ex xc fl s -> IntInv cf ex xc fl s'.
Proof.
  intros E [A B C D]. pose proof (VS_sym _ _ E) as E'. constructor.
  - intros j nd' Hn Hp. destruct (VS_node _ _ _ _ E Hn) as (nd & Hn0 & _ & _ & _ & _ & Ei). rewrite Ei. exact (A j nd Hn0 Hp).
  - intros j nd' Hn. destruct (VS_node _ _ _ _ E Hn) as (nd & Hn0 & _ & _ & _ & _ & Ei). rewrite Ei. exact (B j nd Hn0).
  - intros j nd' i Hn Hin. destruct (VS_node _ _ _ _ E Hn) as (nd & Hn0 & _ & _ & _ & _ & Ei). rewrite Ei in Hin.
    destruct (C j nd i Hn0 Hin) as (F1 & F2 & x & Hx & P1 & P2). split; [exact F1|]. split.
    + intros Hxc. apply (NoOwnerX_VS0 cf ex i s s' (VS_VS0 _ _ E)). exact (F2 Hxc).
    + destruct (VS_find _ _ i x E' Hx) as (x' & Hx' & Q1 & Q2 & Q3). exists x'. split; [exact Hx'|]. split; congruence.
  - intros Hp i x' Hf. destruct (VS_find _ _ i x' E Hf) as (x & Hx & _ & _ & Q3). rewrite Q3. exact (D Hp i x Hx).
Qed.
Lemma SrvInv_VS cf {ex xc} fl s s' : VS s' = VS s -> SrvI cf ex xc fl s -> SrvI cf ex xc fl s'.
Proof. intros E [A B]. split; [exact (Journey2.SrvInv_VS cf fl s s' (VS_VS0 _ _ E) A)|exact (IntInv_VS cf ex xc fl s s' E B)]. Qed.
Lemma NoOwner_VS cf i s s' : VS s' = VS s -> NoOwner cf i s -> NoOwner cf i s'.
Proof. intros E. exact (Journey2.NoOwner_VS cf i s s' (VS_VS0 _ _ E)). Qed.
Lemma Unb_VS s s' j sid : VS s' = VS s -> Unb s j sid -> Unb s' j sid.
Proof. intros E. exact (Journey2.Unb_VS s s' j sid (VS_VS0 _ _ E)). Qed.
Lemma SrvInv_keepS cf {ex xc} fl {X} (m : M X) s a s' : keepS KT m -> Idx s -> SrvI cf ex xc fl s -> m s = Ok (a, s') -> SrvI cf ex xc fl s' /\ VS s' = VS s.
Proof.
  intros Hm HI HS H. assert (E : VS s' = VS s) by (apply (Hm s a s'); [apply Idx_vidx; exact HI|exact I|exact H]).
  split; [eapply SrvInv_VS; eauto|exact E].
Qed.

(* who is not interrupted *)
Lemma NotInt_flight cf ex xc fl s i : IntInv cf ex xc fl s -> In i fl -> NotInt s i.
Proof. intros HI Hfl k nd Hn Hin. destruct (ii_mem _ _ _ _ _ HI k nd i Hn Hin) as (F & _). exact (F Hfl). Qed.
Lemma NotInt_waiting cf ex xc fl s i x : IntInv cf ex xc fl s -> find_ind i (inds s) = Some x -> i_server x = None -> NotInt s i.
Proof. intros HI Hf Hs k nd Hn Hin. destruct (ii_mem _ _ _ _ _ HI k nd i Hn Hin) as (_ & _ & x0 & Hx0 & _ & P). congruence. Qed.
Lemma NotInt_new cf ex xc fl s i : IntInv cf ex xc fl s -> find_ind i (inds s) = None -> NotInt s i.
Proof. intros HI Hf k nd Hn Hin. destruct (ii_mem _ _ _ _ _ HI k nd i Hn Hin) as (_ & _ & x0 & Hx0 & _). congruence. Qed.
Lemma NotInt_owned cf xc fl s i j nd sv : IntInv cf None xc fl s -> xc <> Some i -> nodeZ s j = Some nd -> slot_of cf j = false -> In sv (n_servers nd) ->
  sv_cust sv = Some i -> NotInt s i.
Proof.
  intros HI Hxc Hn Hsl Hin Hc k n Hk Hi. destruct (ii_mem _ _ _ _ _ HI k n i Hk Hi) as (_ & F & _).
  exact (F Hxc j nd sv Hn ltac:(discriminate) Hsl Hin Hc).
Qed.
Lemma NotInt_blocked cf ex xc fl s i x : IntInv cf ex xc fl s -> find_ind i (inds s) = Some x -> i_blocked x = true -> NotInt s i.
Proof.
  intros HI Hf Hb k nd Hn Hin. destruct (psched_of cf k) eqn:Ep.
  - pose proof (ii_nb _ _ _ _ _ HI (psched_of_psched _ _ Ep) i x Hf). congruence.
  - rewrite (ii_sch _ _ _ _ _ HI k nd Hn Ep) in Hin. destruct Hin.
Qed.
Lemma NotInt_nodes s s' i : nodes s' = nodes s -> NotInt s i -> NotInt s' i.
Proof. intros En H k nd Hn. rewrite (nodeZ_same s s' k En) in Hn. exact (H k nd Hn). Qed.
Lemma NotInt_VS s s' i : VS s' = VS s -> NotInt s i -> NotInt s' i.
Proof. intros E H k nd' Hn. destruct (VS_node _ _ _ _ E Hn) as (nd & Hn0 & _ & _ & _ & _ & Ei). rewrite Ei. exact (H k nd Hn0). Qed.

(* ---- how the interrupted-list invariant moves: the lists stay; the customers in P keep node, server and owners ---- *)
Lemma IntInv_step cf ex xc xc' fl fl' s s' (P : Z -> Prop) :
  IntInv cf ex xc fl s ->
  (forall k nd', nodeZ s' k = Some nd' -> exists nd, nodeZ s k = Some nd /\ n_interrupted nd' = n_interrupted nd) ->
  (forall k nd i, nodeZ s k = Some nd -> In i (n_interrupted nd) -> P i /\ ~ In i fl') ->
  (forall i x, P i -> find_ind i (inds s) = Some x ->
     exists x', find_ind i (inds s') = Some x' /\ i_node x' = i_node x /\ (i_server x <> None -> i_server x' <> None)) ->
  (forall i, P i -> xc' <> Some i -> (xc <> Some i -> NoOwnerX cf ex i s) -> NoOwnerX cf ex i s') ->
  (psched cf = true -> forall i x', find_ind i (inds s') = Some x' -> i_blocked x' = false) ->
  IntInv cf ex xc' fl' s'.
Proof.
  intros [A B C D] Hnd HP Hrec Hown Hnb. constructor.
  - intros j nd' Hn Hp. destruct (Hnd j nd' Hn) as (nd & Hn0 & Ei). rewrite Ei. exact (A j nd Hn0 Hp).
  - intros j nd' Hn. destruct (Hnd j nd' Hn) as (nd & Hn0 & Ei). rewrite Ei. exact (B j nd Hn0).
  - intros j nd' i Hn Hin. destruct (Hnd j nd' Hn) as (nd & Hn0 & Ei). rewrite Ei in Hin.
    destruct (HP j nd i Hn0 Hin) as [Pi Hfl]. destruct (C j nd i Hn0 Hin) as (_ & F2 & x & Hx & P1 & P2).
    split; [exact Hfl|]. split; [intros Hxc; exact (Hown i Pi Hxc F2)|].
    destruct (Hrec i x Pi Hx) as (x' & Hx' & Q1 & Q2). exists x'. split; [exact Hx'|]. split; [congruence|exact (Q2 P2)].
  - exact Hnb.
Qed.

Section SrvOpsG.
  Variable cf : config.

  (* Journey2.srv_attach for a customer that may record a (retired) server: nobody owns it and it is not blocked *)
  Lemma srv_attach_g fl j sid c s s' nd xc : Idx s -> Journey2.SrvInv cf fl s -> nodeZ s j = Some nd ->
    find_ind c (inds s) = Some xc -> NoOwner cf c s -> (slot_of cf j = false -> nd_inf nd = false -> i_blocked xc = false) -> i_node xc = Some j -> ~ In c fl ->
    attach_server j sid c s = Ok (tt, s') ->
    Journey2.SrvInv cf fl s' /\ (slot_of cf j = false -> Unb s' j sid) /\ (forall i, i <> c -> NoOwner cf i s -> NoOwner cf i s') /\
    (exists xc', find_ind c (inds s') = Some xc' /\ i_node xc' = Some j /\ i_server xc' = Some sid /\ i_blocked xc' = i_blocked xc) /\
    (forall y, y <> c -> find_ind y (inds s') = find_ind y (inds s)) /\
    (forall k nd', nodeZ s' k = Some nd' -> exists nd0, nodeZ s k = Some nd0 /\ n_interrupted nd' = n_interrupted nd0).
  Proof.
  intros HI HS Hn Hf Hno Hunb Hnode Hfl H. unfold attach_server in H. mstep H as u0.
  destruct (upd_server_spec _ _ _ _ _ _ E) as (nd0 & Hn0 & Ei0 & Hm). assert (nd0 = nd) by congruence. subst nd0. clear E Hn0.
  destruct (upd_ind_spec _ _ _ _ _ H) as (xr & Hxr & Ei1 & En1). rewrite Ei0 in Hxr, Ei1. assert (xr = xc) by congruence. subst xr. clear H Hxr.
  pose proof (HI _ _ Hn) as Hid. pose proof (find_ind_id _ _ _ Hf) as Hidc.
  set (xc' := xc <| i_server := Some sid |>) in *.
  (* first the record, then the server *)
  set (sa := s <| inds := put_ind_l xc' (inds s) |>).
  assert (HS1 : Journey2.SrvInv cf fl sa).
  { apply (Journey2.SrvInv_put_ind cf fl fl s sa c xc xc' HS Hf Hidc); [reflexivity|reflexivity|auto| | |].
    - intros j0 n0 sv0 A1 A2 A3 A4. exfalso. exact (Hno j0 n0 sv0 A1 A2 A3 A4).
    - intros _ _ Hx. discriminate Hx.
    - intros Hp. exact (Journey2.si_nb _ _ _ HS Hp c xc Hf). }
  assert (Hfc : find_ind c (inds s') = Some xc') by (rewrite Ei1; rewrite <- Hidc at 1; change (i_id xc) with (i_id xc'); apply find_put_same).
  assert (Hex : exists x1, find_ind c (inds s') = Some x1 /\ i_node x1 = Some j /\ i_server x1 = Some sid /\ i_blocked x1 = i_blocked xc) by (exists xc'; auto).
  assert (Hoth : forall y, y <> c -> find_ind y (inds s') = find_ind y (inds s)) by (intros y Hy; rewrite Ei1, find_put_other; [reflexivity|change (i_id xc') with (i_id xc); congruence]).
  destruct (find_server sid (n_servers nd)) as [sv|] eqn:Efs.
  - destruct (find_server_spec _ _ _ Efs) as [Hsin Hsid].
    set (sv' := sv <| sv_cust := Some c |> <| sv_busy := true |>) in *.
    set (nd' := nd <| n_servers := put_server_l sv' (n_servers nd) |>) in *.
    assert (En : nodes s' = updZ (nodes sa) (n_id nd' - 1) nd') by (rewrite En1; exact Hm).
    assert (Hninf : nd_inf nd = false).
    { destruct (nd_inf nd) eqn:Ei; [|reflexivity]. rewrite (sn_inf _ _ _ (Journey2.si_n _ _ _ HS j nd Hn) Ei) in Hsin. destruct Hsin. }
    assert (HZ : forall k, nodeZ s' k = if k =? j then Some nd' else nodeZ s k).
    { intros k. rewrite <- Hid. change (n_id nd) with (n_id nd'). apply (nodeZ_upd sa s' nd' nd k En). change (n_id nd') with (n_id nd). rewrite Hid. exact Hn. }
    assert (Hput : forall t, In t (n_servers nd') -> t = sv' \/ (In t (n_servers nd) /\ sv_id t <> sid)).
    { intros t Ht. cbn in Ht. apply (put_server_in _ _ _ (sn_nd _ _ _ (Journey2.si_n _ _ _ HS j nd Hn))) in Ht as [->|[Ht Hne]]; [left; reflexivity|right].
      split; [exact Ht|]. change (sv_id sv') with (sv_id sv) in Hne. congruence. }
    assert (HS2 : Journey2.SrvInv cf fl s').
    { apply (Journey2.SrvInv_put_node cf fl sa s' j nd nd' HS1 Hn Hid En Ei1).
      - apply Journey2.SrvN_put with (sv := sv); [exact (Journey2.si_n _ _ _ HS j nd Hn)|change (sv_id sv') with (sv_id sv); rewrite Hsid; exact Efs].
      - intros Hsl t c0 Ht Hc0. destruct (Hput t Ht) as [->|[Ht' Hne]].
        + cbn in Hc0. injection Hc0 as <-. exists xc'. change (inds sa) with (put_ind_l xc' (inds s)). rewrite <- Hidc at 1. change (i_id xc) with (i_id xc'). rewrite find_put_same.
          split; [reflexivity|]. split; [cbn; rewrite Hsid; reflexivity|]. split; [exact Hnode|]. intros _. exact (Hunb Hsl Hninf).
        + destruct (Journey2.si_own _ _ _ HS j nd t c0 Hn Hsl Ht' Hc0) as (x0 & Hx0 & P1 & P2 & P3).
          assert (Hne0 : c0 <> c) by (intros ->; exact (Hno j nd t Hn Hsl Ht' Hc0)).
          exists x0. change (inds sa) with (put_ind_l xc' (inds s)). rewrite find_put_other by (change (i_id xc') with (i_id xc); rewrite Hidc; exact Hne0). auto.
      - auto. }
    split; [exact HS2|]. split; [|split; [|split; [exact Hex|split; [exact Hoth|]]]].
    + intros Hsl n t c0 Hnn Ht Htid Hc0. rewrite HZ, Z.eqb_refl in Hnn. injection Hnn as <-.
      destruct (Hput t Ht) as [->|[_ Hne]]; [|exfalso; exact (Hne Htid)].
      cbn in Hc0. injection Hc0 as <-. exists xc'. split; [exact Hfc|exact (Hunb Hsl Hninf)].
    + intros i Hic HN j0 n0 t Hnn Hsl Ht Hc0. rewrite HZ in Hnn. destruct (Z.eqb_spec j0 j) as [->|Hne].
      * injection Hnn as <-. destruct (Hput t Ht) as [->|[Ht' _]]; [cbn in Hc0; congruence|exact (HN _ nd t Hn Hsl Ht' Hc0)].
      * exact (HN j0 n0 t Hnn Hsl Ht Hc0).
    + intros k n Hk. rewrite HZ in Hk. destruct (Z.eqb_spec k j) as [->|Hne]; [injection Hk as <-; exists nd; split; [exact Hn|reflexivity]|exists n; auto].
  - assert (En : nodes s' = nodes sa) by (rewrite En1; exact Hm).
    assert (HS2 : Journey2.SrvInv cf fl s').
    { constructor.
      - intros k n Hk. rewrite (nodeZ_same sa s' k En) in Hk. exact (Journey2.si_n _ _ _ HS1 k n Hk).
      - intros k n t c0 Hk. rewrite (nodeZ_same sa s' k En) in Hk. rewrite Ei1. exact (Journey2.si_own _ _ _ HS1 k n t c0 Hk).
      - intros y z Hy. rewrite Ei1 in Hy. intros A1 A2 A3. destruct (Journey2.si_blk _ _ _ HS1 y z Hy A1 A2 A3) as (k & n & P1 & P2 & P3).
        exists k, n. rewrite (nodeZ_same sa s' k En). auto.
      - intros Hp y z Hy. rewrite Ei1 in Hy. exact (Journey2.si_nb _ _ _ HS1 Hp y z Hy). }
    split; [exact HS2|]. split; [|split; [|split; [exact Hex|split; [exact Hoth|]]]].
    + intros _ n t c0 Hnn Ht Htid _. exfalso. rewrite (nodeZ_same sa s' j En) in Hnn. change (nodeZ sa j) with (nodeZ s j) in Hnn.
      assert (n = nd) by congruence. subst n. exact (find_server_some _ _ _ Ht Htid Efs).
    + intros i _ HN j0 n0 t Hnn. rewrite (nodeZ_same sa s' j0 En) in Hnn. exact (HN j0 n0 t Hnn).
    + intros k n Hk. rewrite (nodeZ_same sa s' k En) in Hk. exists n. auto.
  Qed.
End SrvOpsG.

(* ---- a third view: the interrupted lists and who is blocked (what the server functions leave alone) ---- *)
Definition fnN (nd : node) := n_interrupted nd.
Definition fiN (x : ind) := i_blocked x.
Definition fgN (s : sim) := tt.
Notation keepN := (keepV fnN fiN fgN).
Notation VN := (VW fnN fiN fgN).
Lemma VN_node s s' k nd' : VN s' = VN s -> nodeZ s' k = Some nd' -> exists nd, nodeZ s k = Some nd /\ n_interrupted nd' = n_interrupted nd.
Proof.
  intros E Hn. pose proof (VW_node fnN fiN fgN s s' k E) as Hv. rewrite Hn in Hv. destruct (nodeZ s k) as [nd|]; [|discriminate].
  cbn in Hv. unfold nv, fnN in Hv. injection Hv as E1 E2. exists nd. auto.
Qed.
Lemma VN_find s s' i x' : VN s' = VN s -> find_ind i (inds s') = Some x' -> exists x, find_ind i (inds s) = Some x /\ i_blocked x' = i_blocked x.
Proof.
  intros E Hf. pose proof (VW_ind fnN fiN fgN s s' i E) as Hv. rewrite Hf in Hv. destruct (find_ind i (inds s)) as [x|]; [|discriminate].
  cbn in Hv. unfold fiN in Hv. injection Hv as E1. exists x. auto.
Qed.
Section FrameN.
  Notation PN m := (keepN KT m).
  Lemma kn_upd_server j sid f : PN (upd_server j sid f). Proof. unfold upd_server. kv0. Qed.
  Lemma kn_attach_server j sid i : PN (attach_server j sid i). Proof. unfold attach_server. kv using (apply kn_upd_server). Qed.
  Lemma kn_set_next_end j sid d : PN (set_next_end j sid d). Proof. unfold set_next_end. apply kn_upd_server. Qed.
  Lemma kn_kill_server j sid : PN (kill_server j sid). Proof. unfold kill_server. kv0. Qed.
  Lemma kn_detatch_server j sid i : PN (detatch_server j sid i). Proof. unfold detatch_server. kv using (apply kn_kill_server). Qed.
  Lemma kn_add_new_servers k j : PN (add_new_servers k j).
  Proof. induction k as [|k IH]; cbn [add_new_servers]; [apply kv_ret|]. kv using (apply IH). Qed.
End FrameN.
Lemma keepN_VN {X} (m : M X) s a s' : keepN KT m -> Idx s -> m s = Ok (a, s') -> VN s' = VN s.
Proof. intros Hm HI H. apply (Hm s a s'); [apply Idx_vidx; exact HI|exact I|exact H]. Qed.
Lemma NotInt_VN s s' i : VN s' = VN s -> NotInt s i -> NotInt s' i.
Proof. intros E H k nd' Hn. destruct (VN_node _ _ _ _ E Hn) as (nd & Hn0 & Ei). rewrite Ei. exact (H k nd Hn0). Qed.

Lemma kill_server_sub j sid s s' : Idx s -> kill_server j sid s = Ok (tt, s') ->
  inds s' = inds s /\ forall k nd', nodeZ s' k = Some nd' -> exists nd, nodeZ s k = Some nd /\ forall t, In t (n_servers nd') -> In t (n_servers nd).
Proof.
  intros HI H. unfold kill_server in H. mstep H as t0. mstep H as nd. mstep H as sv.
  unfold put_node in H. apply modify_spec in H. pose proof (HI _ _ Hn) as Hid.
  match type of H with s' = s <| nodes := updZ _ _ ?n |> => set (nd' := n) in * end.
  split; [rewrite H; reflexivity|]. intros k n Hk.
  assert (Hn' : nodeZ s (n_id nd') = Some nd) by (change (n_id nd') with (n_id nd); rewrite Hid; exact Hn).
  rewrite (nodeZ_upd s s' nd' nd k ltac:(rewrite H; reflexivity) Hn') in Hk. change (n_id nd') with (n_id nd) in Hk. rewrite Hid in Hk.
  destruct (Z.eqb_spec k j) as [->|Hne]; [|exists n; auto]. injection Hk as <-. exists nd. split; [exact Hn|]. intros t Ht. cbn in Ht. eapply del_server_in; eauto.
Qed.

Section SrvOpsI.
  Variable cf : config.

  Lemma NoOwner_of fl {ex xc} s i x : SrvI cf ex xc fl s -> find_ind i (inds s) = Some x -> i_server x = None -> NoOwner cf i s.
  Proof. intros [HS _]. exact (Journey2.NoOwner_of cf fl s i x HS). Qed.

  Lemma srv_attach {xc} fl j sid c s s' nd x : Idx s -> SrvI cf None xc fl s -> nodeZ s j = Some nd ->
    find_ind c (inds s) = Some x -> i_server x = None -> i_node x = Some j -> ~ In c fl ->
    attach_server j sid c s = Ok (tt, s') ->
    SrvI cf None xc fl s' /\ (slot_of cf j = false -> Unb s' j sid) /\ (forall i, i <> c -> NoOwner cf i s -> NoOwner cf i s').
  Proof.
    intros HI [HS HN] Hn Hf Hsv Hnode Hfl H.
    assert (Hno : NoOwner cf c s) by (eapply Journey2.NoOwner_of; eauto).
    assert (Hunb : slot_of cf j = false -> nd_inf nd = false -> i_blocked x = false).
    { intros Hsl Hninf. destruct (i_blocked x) eqn:Eb; [|reflexivity]. exfalso.
      destruct (Journey2.si_blk _ _ _ HS c x Hf Hfl Eb Hsv) as (k & n & Hk & Hnk & [Hor|Hor]).
      - assert (k = j) by congruence. subst k. assert (n = nd) by congruence. subst n. congruence.
      - assert (k = j) by congruence. subst k. congruence. }
    assert (Hc : NotInt s c) by (eapply NotInt_waiting; eauto).
    destruct (srv_attach_g cf fl j sid c s s' nd x HI HS Hn Hf Hno Hunb Hnode Hfl H) as (A & B & C & (x1 & Hx1 & D1 & D2 & D3) & E & F).
    split; [split; [exact A|]|split; [exact B|exact C]].
    apply (IntInv_step cf None xc xc fl fl s s' (fun i => i <> c) HN F).
    - intros k n i Hk Hin. split; [intros ->; exact (Hc k n Hk Hin)|exact (proj1 (ii_mem _ _ _ _ _ HN k n i Hk Hin))].
    - intros i y Hi Hy. exists y. rewrite (E i Hi). auto.
    - intros i Hi Hxc HO. apply NoOwnerX_None. apply (C i Hi). apply NoOwnerX_None. exact (HO Hxc).
    - intros Hp i y Hy. destruct (Z.eq_dec i c) as [->|Hne].
      + assert (y = x1) by congruence. subst y. rewrite D3. exact (ii_nb _ _ _ _ _ HN Hp c x Hf).
      + rewrite (E i Hne) in Hy. exact (ii_nb _ _ _ _ _ HN Hp i y Hy).
  Qed.

  Lemma srv_set_next_end {xc} fl j sid d s s' : Idx s -> SrvI cf None xc fl s -> (d <> None -> slot_of cf j = false -> Unb s j sid) ->
    set_next_end j sid d s = Ok (tt, s') ->
    SrvI cf None xc fl s' /\ (forall i, NoOwner cf i s -> NoOwner cf i s').
  Proof.
    intros HI [HS HN] HU H. destruct (Journey2.srv_set_next_end cf fl j sid d s s' HI HS HU H) as (A & B).
    pose proof (keepN_VN _ s tt s' (kn_set_next_end j sid d) HI H) as EN.
    assert (Ei : inds s' = inds s) by (unfold set_next_end in H; destruct (upd_server_spec _ _ _ _ _ _ H) as (? & _ & E & _); exact E).
    split; [split; [exact A|]|exact B].
    apply (IntInv_step cf None xc xc fl fl s s' (fun _ => True) HN).
    - intros k n Hk. exact (VN_node _ _ _ _ EN Hk).
    - intros k n i Hk Hin. split; [exact I|exact (proj1 (ii_mem _ _ _ _ _ HN k n i Hk Hin))].
    - intros i y _ Hy. exists y. rewrite Ei. auto.
    - intros i _ Hxc HO. apply NoOwnerX_None. apply B. apply NoOwnerX_None. exact (HO Hxc).
    - intros Hp i y Hy. rewrite Ei in Hy. exact (ii_nb _ _ _ _ _ HN Hp i y Hy).
  Qed.

  Lemma srv_kill_server {ex xc} fl j sid s s' : Idx s -> SrvI cf ex xc fl s -> kill_server j sid s = Ok (tt, s') ->
    SrvI cf ex xc fl s' /\ (forall i, NoOwner cf i s -> NoOwner cf i s').
  Proof.
    intros HI [HS HN] H. destruct (Journey2.srv_kill_server cf fl j sid s s' HI HS H) as (A & B).
    pose proof (keepN_VN _ s tt s' (kn_kill_server j sid) HI H) as EN.
    destruct (kill_server_sub j sid s s' HI H) as (Ei & Hsub).
    split; [split; [exact A|]|exact B].
    apply (IntInv_step cf ex xc xc fl fl s s' (fun _ => True) HN).
    - intros k n Hk. exact (VN_node _ _ _ _ EN Hk).
    - intros k n i Hk Hin. split; [exact I|exact (proj1 (ii_mem _ _ _ _ _ HN k n i Hk Hin))].
    - intros i y _ Hy. exists y. rewrite Ei. auto.
    - intros i _ Hxc HO j0 n0 sv Hn0 Hex Hsl Hin. destruct (Hsub j0 n0 Hn0) as (n1 & Hn1 & Hs). exact (HO Hxc j0 n1 sv Hn1 Hex Hsl (Hs sv Hin)).
    - intros Hp i y Hy. rewrite Ei in Hy. exact (ii_nb _ _ _ _ _ HN Hp i y Hy).
  Qed.

  (* detatch_server: the customer (not an interrupted one) leaves its server *)
  Lemma srv_detatch fl j sid i s s' xi : Idx s -> SrvInv cf fl s -> (In i fl \/ i_blocked xi = false) -> find_ind i (inds s) = Some xi ->
    i_node xi = Some j -> i_server xi = Some sid -> NotInt s i -> detatch_server j sid i s = Ok (tt, s') ->
    SrvInv cf fl s' /\ NoOwner cf i s' /\ (forall i', NoOwner cf i' s -> NoOwner cf i' s') /\
    (forall y, y <> i -> find_ind y (inds s') = find_ind y (inds s)).
  Proof.
    intros HI [HS HN] Hfl Hf Hnode Hsrv Hni H.
    destruct (Journey2.srv_detatch cf fl j sid i s s' xi HI HS Hfl Hf Hnode Hsrv H) as (A & B & C & D).
    pose proof (keepN_VN _ s tt s' (kn_detatch_server j sid i) HI H) as EN.
    split; [split; [exact A|]|auto].
    apply (IntInv_step cf None None None fl fl s s' (fun y => y <> i) HN).
    - intros k n Hk. exact (VN_node _ _ _ _ EN Hk).
    - intros k n y Hk Hin. split; [intros ->; exact (Hni k n Hk Hin)|exact (proj1 (ii_mem _ _ _ _ _ HN k n y Hk Hin))].
    - intros y z Hy Hz. exists z. rewrite (D y Hy). auto.
    - intros y _ Hxc HO. apply NoOwnerX_None. apply C. apply NoOwnerX_None. exact (HO Hxc).
    - intros Hp y z Hz. destruct (VN_find _ _ y z EN Hz) as (z0 & Hz0 & Eb). rewrite Eb. exact (ii_nb _ _ _ _ _ HN Hp y z0 Hz0).
  Qed.

  Lemma srv_add_new_servers fl k j s s' : Idx s -> SrvInv cf fl s -> (forall nd, nodeZ s j = Some nd -> nd_inf nd = false) ->
    add_new_servers k j s = Ok (tt, s') -> SrvInv cf fl s' /\ (forall i, NoOwner cf i s -> NoOwner cf i s') /\ Idx s'.
  Proof.
    intros HI [HS HN] Hinf H. destruct (Journey2.srv_add_new_servers cf fl k j s s' HI HS Hinf H) as (A & B & C).
    pose proof (keepN_VN _ s tt s' (kn_add_new_servers k j) HI H) as EN.
    assert (Ei : inds s' = inds s).
    { clear -H. revert s H. induction k as [|k IH]; intros s H; cbn [add_new_servers] in H; [apply ret_spec in H as [_ ->]; reflexivity|].
      mstep H as t0. mstep H as u0. rewrite (IH _ H). unfold upd_node in E. mstep E as nd. unfold put_node in E. apply modify_spec in E. rewrite E. reflexivity. }
    split; [split; [exact A|]|auto].
    apply (IntInv_step cf None None None fl fl s s' (fun _ => True) HN).
    - intros k0 n Hk. exact (VN_node _ _ _ _ EN Hk).
    - intros k0 n i Hk Hin. split; [exact I|exact (proj1 (ii_mem _ _ _ _ _ HN k0 n i Hk Hin))].
    - intros i y _ Hy. exists y. rewrite Ei. auto.
    - intros i _ Hxc HO. apply NoOwnerX_None. apply B. apply NoOwnerX_None. exact (HO Hxc).
    - intros Hp i y Hy. rewrite Ei in Hy. exact (ii_nb _ _ _ _ _ HN Hp i y Hy).
  Qed.

  (* the record of customer i (not an interrupted one) is replaced; fl' may drop i from the customers in flight *)
  Lemma SrvInv_put_ind fl fl' s s' i x x' : SrvInv cf fl s -> find_ind i (inds s) = Some x -> i_id x' = i ->
    nodes s' = nodes s -> inds s' = put_ind_l x' (inds s) ->
    (forall y, y <> i -> In y fl -> In y fl') -> (forall y, In y fl' -> In y fl) -> NotInt s i ->
    (forall j nd sv, nodeZ s j = Some nd -> slot_of cf j = false -> In sv (n_servers nd) -> sv_cust sv = Some i ->
       i_server x' = Some (sv_id sv) /\ i_node x' = Some j /\ (sv_next_end sv <> None -> i_blocked x' = false)) ->
    (~ In i fl' -> i_blocked x' = true -> i_server x' = None ->
       exists k nd, i_node x' = Some k /\ nodeZ s k = Some nd /\ (nd_inf nd = true \/ slot_of cf k = true)) ->
    (anypre cf = true -> i_blocked x' = false) ->
    SrvInv cf fl' s'.
  Proof.
    intros [HS HN] Hf Hid En Ei Hfl Hfl' Hni Hown Hblk Hnb. split.
    - apply (Journey2.SrvInv_put_ind cf fl fl' s s' i x x' HS Hf Hid En Ei Hfl Hown Hblk). intros Hp. apply Hnb. apply preempts_anypre. exact Hp.
    - apply (IntInv_step cf None None None fl fl' s s' (fun y => y <> i) HN).
      + intros k n Hk. rewrite (nodeZ_same s s' k En) in Hk. exists n. auto.
      + intros k n y Hk Hin. split; [intros ->; exact (Hni k n Hk Hin)|]. intros Hy. exact (proj1 (ii_mem _ _ _ _ _ HN k n y Hk Hin) (Hfl' y Hy)).
      + intros y z Hy Hz. exists z. rewrite Ei, find_put_other by congruence. auto.
      + intros y _ Hxc HO j0 n0 sv Hn0. rewrite (nodeZ_same s s' j0 En) in Hn0. exact (HO Hxc j0 n0 sv Hn0).
      + intros Hp y z Hz. rewrite Ei in Hz. destruct (Z.eq_dec y i) as [->|Hne].
        * rewrite <- Hid in Hz at 1. rewrite find_put_same in Hz. injection Hz as <-. apply Hnb. apply psched_anypre. exact Hp.
        * rewrite find_put_other in Hz by congruence. exact (ii_nb _ _ _ _ _ HN Hp y z Hz).
  Qed.

  Lemma SrvInv_fl_weaken fl fl' s : (forall y, In y fl -> In y fl') -> (forall y, In y fl' -> NotInt s y) -> SrvInv cf fl s -> SrvInv cf fl' s.
  Proof.
    intros Hsub Hni [HS [A B C D]]. split; [exact (Journey2.SrvInv_fl_weaken cf fl fl' s Hsub HS)|]. constructor; [exact A|exact B| |exact D].
    intros j nd i Hn Hin. destruct (C j nd i Hn Hin) as (_ & F2 & F3). split; [|auto]. intros Hfl. exact (Hni i Hfl j nd Hn Hin).
  Qed.
End SrvOpsI.

(* ====================================================================================================================
   5. Carrying the context and the server invariant through steps the views do not see
   ==================================================================================================================== *)
Lemma carryB cf {ex xc} fl {X} (m : M X) s a s' : keepB KT m -> Ctx fl s -> SrvI cf ex xc fl s -> m s = Ok (a, s') ->
  Ctx fl s' /\ SrvI cf ex xc fl s' /\ VS s' = VS s /\ VJ s' = VJ s.
Proof.
  intros Hm HC HS H. pose proof (Ctx_Idx _ _ HC) as HI.
  assert (EJ : VJ s' = VJ s) by (apply (kb_kj KT m Hm s a s'); [apply Idx_vidx; exact HI|exact I|exact H]).
  assert (ES : VS s' = VS s) by (apply (kb_ks KT m Hm s a s'); [apply Idx_vidx; exact HI|exact I|exact H]).
  split; [eapply Ctx_VJ; eauto|]. split; [eapply SrvInv_VS; eauto|auto].
Qed.
Lemma carryJ fl {X} (m : M X) s a s' : keepJ KT m -> Ctx fl s -> m s = Ok (a, s') -> Ctx fl s' /\ VJ s' = VJ s.
Proof.
  intros Hm HC H. pose proof (Ctx_Idx _ _ HC) as HI.
  assert (EJ : VJ s' = VJ s) by (apply (Hm s a s'); [apply Idx_vidx; exact HI|exact I|exact H]).
  split; [eapply Ctx_VJ; eauto|exact EJ].
Qed.
Lemma carryBK cf {ex xc} fl (K : _ -> Prop) {X} (m : M X) s a s' : keepB K m -> K (VB s) -> Ctx fl s -> SrvI cf ex xc fl s -> m s = Ok (a, s') ->
  Ctx fl s' /\ SrvI cf ex xc fl s' /\ VS s' = VS s /\ VJ s' = VJ s.
Proof.
  intros Hm HK HC HS H. pose proof (Ctx_Idx _ _ HC) as HI.
  assert (EB : VB s' = VB s) by (apply (Hm s a s'); [apply Idx_vidx; exact HI|exact HK|exact H]).
  assert (EJ : VJ s' = VJ s) by (exact (VW_proj fnB fiB fgB fst fst fst s s' EB)).
  assert (ES : VS s' = VS s) by (exact (VW_proj fnB fiB fgB snd snd snd s s' EB)).
  split; [eapply Ctx_VJ; eauto|]. split; [eapply SrvInv_VS; eauto|auto].
Qed.
Lemma carry_put_ind cf {ex xc} fl s s' u x x' : find_ind (i_id x') (inds s) = Some x -> fiB x' = fiB x -> Ctx fl s -> SrvI cf ex xc fl s ->
  put_ind x' s = Ok (u, s') -> Ctx fl s' /\ SrvI cf ex xc fl s' /\ VS s' = VS s /\ VJ s' = VJ s.
Proof.
  intros Hf He HC HS H. destruct (get_ind_oki fnB fiB fgB _ s x Hf) as [Hid Ho].
  apply (carryBK cf fl (fun w => oki fiB w x) (put_ind x') s u s'); [|exact Ho|exact HC|exact HS|exact H].
  apply kv_put_ind; [intros ? ?; reflexivity|]. intros w Hw. exists x. split; [exact Hw|]. unfold iv. rewrite He. congruence.
Qed.
Lemma carry_put_node cf {ex xc} fl s s' u nd nd' : nodeZ s (n_id nd') = Some nd -> fnJ nd' = fnJ nd -> fnS nd' = fnS nd -> Ctx fl s -> SrvI cf ex xc fl s ->
  put_node nd' s = Ok (u, s') -> Ctx fl s' /\ SrvI cf ex xc fl s' /\ VS s' = VS s /\ VJ s' = VJ s.
Proof.
  intros Hn EJ ES HC HS H. pose proof (Ctx_Idx _ _ HC) as HI. pose proof (HI _ _ Hn) as Hid.
  destruct (get_node_okn fnB fiB fgB _ s nd (Idx_vidx _ _ _ s HI) Hn) as [_ Ho].
  apply (carryBK cf fl (fun w => okn fnB w nd) (put_node nd') s u s'); [|exact Ho|exact HC|exact HS|exact H].
  apply kv_put_node; [intros ? ?; reflexivity|]. intros w Hw. exists nd. split; [exact Hw|]. unfold nv, fnB. rewrite EJ, ES, Hid. reflexivity.
Qed.

Ltac bstep_core H HC HS ES EJ :=
  mstep H;
  lazymatch type of H with
  | _ ?sx = Ok _ =>
    lazymatch goal with
    | E : ?m ?sp = Ok (_, sx) |- _ =>
      let HC' := fresh "HC" in let HS' := fresh "HS" in
      destruct (carryB _ _ m sp _ sx ltac:(kv using kb_lem) HC HS E) as (HC' & HS' & ES & EJ);
      clear E; clear HS; clear HC; rename HC' into HC; rename HS' into HS
    end
  end.
Tactic Notation "bstep" hyp(H) hyp(HC) hyp(HS) "as" ident(ES) ident(EJ) := bstep_core H HC HS ES EJ.


(* ====================================================================================================================
   6. The functions that start services and change shifts: context and server invariant (Journey2's SrvWalk; new: srv_biis)
   ==================================================================================================================== *)
Section SrvWalk.
  Variable cf : config.

  Lemma srv_start_fresh fl j c osid count s s' : Ctx fl s -> SrvInv cf fl s -> (osid <> None -> Waits s j c) ->
    start_fresh cf j c osid count s = Ok (tt, s') ->
    Ctx fl s' /\ SrvInv cf fl s' /\ VJ s' = VJ s /\ (forall i, i <> c -> NoOwner cf i s -> NoOwner cf i s').
  Proof.
    intros HC HS HW H. destruct osid as [sid|].
    - destruct (HW ltac:(discriminate)) as ((nd & Hn & Hin) & xc & Hxc & Hsv).
      assert (Hnode : i_node xc = Some j).
      { destruct (proj2 HC j c (ex_intro _ nd (conj Hn Hin))) as (x0 & Hx0 & Hk). congruence. }
      assert (Hfl : ~ In c fl) by (eapply WFx2_at_notfl; [exact (proj1 HC)|exists nd; eauto]).
      unfold start_fresh in H. mstep H as u0.
      destruct (srv_attach cf fl j sid c s s0 nd xc (Ctx_Idx _ _ HC) HS Hn Hxc Hsv Hnode Hfl E) as (HS0 & HU0 & HO0).
      destruct (carryJ fl _ s _ s0 (kv_T _ _ _ _ _ (kj_attach_server j sid c)) HC E) as (HC0 & EJ0). clear E HS HC.
      mstep H as t0. bstep H HC0 HS0 as ES1 EJ1. bstep H HC0 HS0 as ES2 EJ2. bstep H HC0 HS0 as ES3 EJ3. bstep H HC0 HS0 as ES4 EJ4.
      assert (ES : VS s4 = VS s0) by congruence. assert (EJ : VJ s4 = VJ s) by congruence.
      match type of H with set_next_end _ _ ?d _ = _ => destruct (srv_set_next_end cf fl j sid d s4 s' (Ctx_Idx _ _ HC0) HS0) as (HS5 & HO5); [|exact H|] end.
      + intros _ Hsl. apply (Unb_VS s0 s4 j sid ES). exact (HU0 Hsl).
      + destruct (carryJ fl _ s4 _ s' (kv_T _ _ _ _ _ (kj_set_next_end j sid _)) HC0 H) as (HC5 & EJ5).
        split; [exact HC5|]. split; [exact HS5|]. split; [congruence|]. intros i Hi HN. apply HO5. apply (NoOwner_VS cf i s0 s4 ES). apply HO0; assumption.
    - assert (Hk : keepB KT (start_fresh cf j c None count)) by (unfold start_fresh; kv using kb_lem).
      destruct (carryB cf fl _ s _ s' Hk HC HS H) as (HC1 & HS1 & ES & EJ).
      split; [exact HC1|]. split; [exact HS1|]. split; [exact EJ|]. intros i _ HN. exact (NoOwner_VS cf i s s' ES HN).
  Qed.

  Lemma stime_num_same x st s s' : stime_num x s = Ok (st, s') -> s' = s.
  Proof. unfold stime_num. destruct (i_smark x =? 0); [intros H; apply ret_spec in H as [_ ->]; reflexivity|discriminate]. Qed.

  Lemma srv_start_give fl j c sid s s' : Ctx fl s -> SrvInv cf fl s -> Waits s j c ->
    start_give cf j c sid s = Ok (tt, s') ->
    Ctx fl s' /\ SrvInv cf fl s' /\ VJ s' = VJ s /\ (forall i, i <> c -> NoOwner cf i s -> NoOwner cf i s').
  Proof.
    intros HC HS HW H. destruct HW as ((nd & Hn & Hin) & xc & Hxc & Hsv).
    assert (Hnode : i_node xc = Some j).
    { destruct (proj2 HC j c (ex_intro _ nd (conj Hn Hin))) as (x0 & Hx0 & Hk). congruence. }
    assert (Hfl : ~ In c fl) by (eapply WFx2_at_notfl; [exact (proj1 HC)|exists nd; eauto]).
    unfold start_give in H. mstep H as u0.
    destruct (srv_attach cf fl j sid c s s0 nd xc (Ctx_Idx _ _ HC) HS Hn Hxc Hsv Hnode Hfl E) as (HS0 & HU0 & HO0).
    destruct (carryJ fl _ s _ s0 (kv_T _ _ _ _ _ (kj_attach_server j sid c)) HC E) as (HC0 & EJ0). clear E HS HC.
    mstep H as t0. bstep H HC0 HS0 as ES1 EJ1. bstep H HC0 HS0 as ES2 EJ2.
    mstep H as x. mstep H as st. apply stime_num_same in E. subst s3.
    mstep H as u1. pose proof (find_ind_id _ _ _ Hf) as Hidx.
    match type of E with put_ind ?x' _ = _ =>
      destruct (carry_put_ind cf fl s2 s3 tt x x' ltac:(change (i_id x') with (i_id x); rewrite Hidx; exact Hf) eq_refl HC0 HS0 E) as (HC3 & HS3 & ES3 & EJ3) end.
    clear E HC0 HS0.
    bstep H HC3 HS3 as ES4 EJ4. bstep H HC3 HS3 as ES5 EJ5.
    assert (ES : VS s5 = VS s0) by congruence. assert (EJ : VJ s5 = VJ s) by congruence.
    match type of H with set_next_end _ _ ?d _ = _ => destruct (srv_set_next_end cf fl j sid d s5 s' (Ctx_Idx _ _ HC3) HS3) as (HS6 & HO6); [|exact H|] end.
    + intros _ Hsl. apply (Unb_VS s0 s5 j sid ES). exact (HU0 Hsl).
    + destruct (carryJ fl _ s5 _ s' (kv_T _ _ _ _ _ (kj_set_next_end j sid _)) HC3 H) as (HC6 & EJ6).
      split; [exact HC6|]. split; [exact HS6|]. split; [congruence|]. intros i Hi HN. apply HO6. apply (NoOwner_VS cf i s0 s5 ES). apply HO0; assumption.
  Qed.

  Lemma srv_start_preemptor fl j c sid s s' : Ctx fl s -> SrvInv cf fl s -> Waits s j c ->
    start_preemptor cf j c sid s = Ok (tt, s') ->
    Ctx fl s' /\ SrvInv cf fl s' /\ VJ s' = VJ s /\ (forall i, i <> c -> NoOwner cf i s -> NoOwner cf i s').
  Proof.
    intros HC HS HW H. destruct HW as ((nd & Hn & Hin) & xc & Hxc & Hsv).
    assert (Hnode : i_node xc = Some j).
    { destruct (proj2 HC j c (ex_intro _ nd (conj Hn Hin))) as (x0 & Hx0 & Hk). congruence. }
    assert (Hfl : ~ In c fl) by (eapply WFx2_at_notfl; [exact (proj1 HC)|exists nd; eauto]).
    unfold start_preemptor in H. mstep H as u0.
    destruct (srv_attach cf fl j sid c s s0 nd xc (Ctx_Idx _ _ HC) HS Hn Hxc Hsv Hnode Hfl E) as (HS0 & HU0 & HO0).
    destruct (carryJ fl _ s _ s0 (kv_T _ _ _ _ _ (kj_attach_server j sid c)) HC E) as (HC0 & EJ0). clear E HS HC.
    mstep H as t0. bstep H HC0 HS0 as ES1 EJ1. bstep H HC0 HS0 as ES2 EJ2.
    mstep H as x. mstep H as st. apply stime_num_same in E. subst s3.
    mstep H as u1. pose proof (find_ind_id _ _ _ Hf) as Hidx.
    match type of E with put_ind ?x' _ = _ =>
      destruct (carry_put_ind cf fl s2 s3 tt x x' ltac:(change (i_id x') with (i_id x); rewrite Hidx; exact Hf) eq_refl HC0 HS0 E) as (HC3 & HS3 & ES3 & EJ3) end.
    clear E HC0 HS0.
    bstep H HC3 HS3 as ES4 EJ4.
    assert (ES : VS s4 = VS s0) by congruence. assert (EJ : VJ s4 = VJ s) by congruence.
    match type of H with set_next_end _ _ ?d _ = _ => destruct (srv_set_next_end cf fl j sid d s4 s' (Ctx_Idx _ _ HC3) HS3) as (HS6 & HO6); [|exact H|] end.
    + intros _ Hsl. apply (Unb_VS s0 s4 j sid ES). exact (HU0 Hsl).
    + destruct (carryJ fl _ s4 _ s' (kv_T _ _ _ _ _ (kj_set_next_end j sid _)) HC3 H) as (HC6 & EJ6).
      split; [exact HC6|]. split; [exact HS6|]. split; [congruence|]. intros i Hi HN. apply HO6. apply (NoOwner_VS cf i s0 s4 ES). apply HO0; assumption.
  Qed.

  (* what the service-starting functions do for a customer i that is in no node *)
  Definition Outside (s : sim) (i : Z) : Prop := forall k, ~ at_node s k i.
  Lemma Outside_VJ s s' i : VJ s' = VJ s -> Outside s i -> Outside s' i.
  Proof. intros E HO k Hat. exact (HO k (VJ_at _ _ _ _ E Hat)). Qed.

  Lemma carryJ_put_node fl s s' u nd nd' : nodeZ s (n_id nd') = Some nd -> fnJ nd' = fnJ nd -> Ctx fl s ->
    put_node nd' s = Ok (u, s') -> Ctx fl s' /\ VJ s' = VJ s.
  Proof.
    intros Hn He HC H. pose proof (Ctx_Idx _ _ HC) as HI. pose proof (HI _ _ Hn) as Hid.
    destruct (get_node_okn fnJ fiJ fgJ _ s nd (Idx_vidx _ _ _ s HI) Hn) as [_ Ho].
    assert (EJ : VJ s' = VJ s).
    { unfold put_node in H. apply modify_spec in H. subst s'. apply (put_node_view fnJ fiJ fgJ ltac:(intros ? ?; reflexivity) nd' nd s Ho). unfold nv. rewrite He, Hid. reflexivity. }
    split; [eapply Ctx_VJ; eauto|exact EJ].
  Qed.
  Lemma remove_first_nodup i l l' : remove_first i l = Some l' -> NoDup l -> NoDup l' /\ ~ In i l' /\ (forall y, In y l' -> In y l) /\ In i l.
  Proof.
    intros Hr Hnd. pose proof (Conserve2.remove_first_perm _ _ _ Hr) as Hp.
    pose proof (Permutation_NoDup Hp Hnd) as Hnd'. inversion Hnd' as [|? ? H1 H2]. subst.
    split; [exact H2|]. split; [exact H1|]. split.
    - intros y Hy. eapply Permutation_in; [symmetry; exact Hp|right; exact Hy].
    - eapply Permutation_in; [symmetry; exact Hp|left; reflexivity].
  Qed.

  (* the service of an interrupted customer is restarted on server sid: no record, nobody moves *)
  Lemma srv_biis fl j sid s s' : Ctx fl s -> SrvInv cf fl s -> begin_interrupted_individuals_service j sid s = Ok (tt, s') ->
    Ctx fl s' /\ SrvInv cf fl s' /\ VJ s' = VJ s /\ (forall i, Outside s i -> NoOwner cf i s -> NoOwner cf i s').
  Proof.
    intros HC [HS HN] H. unfold begin_interrupted_individuals_service in H. mstep H as nd. mstep H as i. mstep H as x.
    assert (Hin : In i (n_interrupted nd)) by (destruct (n_interrupted nd) as [|a r]; [discriminate Hl|cbn in Hl; injection Hl as ->; left; reflexivity]).
    destruct (ii_mem _ _ _ _ _ HN j nd i Hn Hin) as (Hfl & HO & x0 & Hx0 & Hnode & Hsrv). assert (x0 = x) by congruence. subst x0. clear Hx0.
    assert (Hps : psched_of cf j = true) by (destruct (psched_of cf j) eqn:Ep; [reflexivity|rewrite (ii_sch _ _ _ _ _ HN j nd Hn Ep) in Hin; destruct Hin]).
    destruct (psched_of_sched _ _ Hps) as [_ Hslot].
    assert (Hb : i_blocked x = false) by (exact (ii_nb _ _ _ _ _ HN (psched_of_psched _ _ Hps) i x Hf)).
    rewrite Hb in H. cbv iota in H. mstep H as u0. mstep H as u1.
    assert (Hno : NoOwner cf i s) by (apply NoOwnerX_None; apply HO; discriminate).
    pose proof (Ctx_Idx _ _ HC) as HI.
    assert (Hat : exists k, at_node s k i) by (destruct (WFx2_rec_place _ _ _ _ (proj1 HC) Hf) as [Hk|Hk]; [exact Hk|contradiction]).
    destruct (srv_attach_g cf fl j sid i s s0 nd x HI HS Hn Hf Hno (fun _ _ => Hb) Hnode Hfl E) as (A0 & U0 & O0 & (x1 & Hx1 & D1 & D2 & D3) & E0 & F0).
    destruct (carryJ fl _ s _ s0 (kv_T _ _ _ _ _ (kj_attach_server j sid i)) HC E) as (HC0 & EJ0).
    assert (HN0 : IntInv cf None (Some i) fl s0).
    { apply (IntInv_step cf None None (Some i) fl fl s s0 (fun _ => True) HN F0).
      - intros k n y Hk Hy. split; [exact I|exact (proj1 (ii_mem _ _ _ _ _ HN k n y Hk Hy))].
      - intros y z _ Hz. destruct (Z.eq_dec y i) as [->|Hne].
        + assert (z = x) by congruence. subst z. exists x1. split; [exact Hx1|]. split; [congruence|]. intros _. rewrite D2. discriminate.
        + exists z. rewrite (E0 y Hne). auto.
      - intros y _ Hxc HOy. assert (Hne : y <> i) by congruence. apply NoOwnerX_None. apply (O0 y Hne). apply NoOwnerX_None. apply HOy. discriminate.
      - intros Hp y z Hz. destruct (Z.eq_dec y i) as [->|Hne].
        + assert (z = x1) by congruence. subst z. congruence.
        + rewrite (E0 y Hne) in Hz. exact (ii_nb _ _ _ _ _ HN Hp y z Hz). }
    assert (S0 : SrvI cf None (Some i) fl s0) by (split; assumption).
    clear E HS HN HC A0 HN0.
    bstep H HC0 S0 as ES1 EJ1. mstep H as t0. mstep H as x2. mstep H as st. apply stime_num_same in E. subst s2.
    mstep H as u2. pose proof (find_ind_id _ _ _ Hf0) as Hidx.
    match type of E with put_ind ?x' _ = _ =>
      destruct (carry_put_ind cf fl s1 s2 tt x2 x' ltac:(change (i_id x') with (i_id x2); rewrite Hidx; exact Hf0) eq_refl HC0 S0 E) as (HC2 & S2 & ES2 & EJ2) end.
    clear E HC0 S0.
    bstep H HC2 S2 as ES3 EJ3.
    assert (ES03 : VS s3 = VS s0) by congruence. assert (EJ03 : VJ s3 = VJ s) by congruence.
    mstep H as u3.
    match type of E with set_next_end _ _ ?d _ = _ => destruct (srv_set_next_end cf fl j sid d s3 s4 (Ctx_Idx _ _ HC2) S2) as (S4 & O4); [|exact E|] end.
    { intros _ Hsl. apply (Unb_VS s0 s3 j sid ES03). exact (U0 Hsl). }
    destruct (carryJ fl _ s3 _ s4 (kv_T _ _ _ _ _ (kj_set_next_end j sid _)) HC2 E) as (HC4 & EJ4). clear E.
    mstep H as nd2. rename Hn0 into Hn2. mstep H as l'. rename Hl0 into Hrm.
    match type of H with put_node ?n _ = _ => set (nd3 := n) in * end.
    pose proof (Ctx_Idx _ _ HC4 _ _ Hn2) as Hid2.
    assert (Hn2' : nodeZ s4 (n_id nd3) = Some nd2) by (change (n_id nd3) with (n_id nd2); rewrite Hid2; exact Hn2).
    destruct (carryJ_put_node fl s4 s' tt nd2 nd3 Hn2' eq_refl HC4 H) as (HC5 & EJ5).
    destruct (put_node_facts _ _ _ _ H) as (Es5 & Ei5 & _).
    assert (En5 : nodes s' = updZ (nodes s4) (n_id nd3 - 1) nd3) by (rewrite Es5; reflexivity).
    assert (ES5 : VS0 s' = VS0 s4) by (exact (Journey2.VS_put_node s4 s' nd2 nd3 Hn2' eq_refl eq_refl En5 Ei5)).
    assert (HZ : forall k, nodeZ s' k = if k =? j then Some nd3 else nodeZ s4 k).
    { intros k. rewrite (nodeZ_upd s4 s' nd3 nd2 k En5 Hn2'). change (n_id nd3) with (n_id nd2). rewrite Hid2. reflexivity. }
    destruct S4 as [S4 N4].
    destruct (remove_first_nodup _ _ _ Hrm (ii_nd _ _ _ _ _ N4 j nd2 Hn2)) as (R1 & R2 & R3 & R4).
    split; [exact HC5|]. split; [split|split].
    - exact (Journey2.SrvInv_VS cf fl s4 s' ES5 S4).
    - destruct (ii_mem _ _ _ _ _ N4 j nd2 i Hn2 R4) as (_ & _ & xi & Hxi & Hni & _).
      constructor.
      + intros k n Hk Hp. rewrite HZ in Hk. destruct (Z.eqb_spec k j) as [->|Hne]; [congruence|exact (ii_sch _ _ _ _ _ N4 k n Hk Hp)].
      + intros k n Hk. rewrite HZ in Hk. destruct (Z.eqb_spec k j) as [->|Hne]; [injection Hk as <-; exact R1|exact (ii_nd _ _ _ _ _ N4 k n Hk)].
      + intros k n y Hk Hy. rewrite HZ in Hk.
        assert (Hmem : exists n0, nodeZ s4 k = Some n0 /\ In y (n_interrupted n0) /\ y <> i).
        { destruct (Z.eqb_spec k j) as [->|Hne].
          - injection Hk as <-. exists nd2. split; [exact Hn2|]. split; [exact (R3 y Hy)|]. intros ->. exact (R2 Hy).
          - exists n. split; [exact Hk|]. split; [exact Hy|]. intros ->.
            destruct (ii_mem _ _ _ _ _ N4 k n i Hk Hy) as (_ & _ & xk & Hxk & Hnk & _). congruence. }
        destruct Hmem as (n0 & Hk0 & Hy0 & Hyi). destruct (ii_mem _ _ _ _ _ N4 k n0 y Hk0 Hy0) as (G1 & G2 & G3).
        split; [exact G1|]. split; [|rewrite Ei5; exact G3].
        intros _. apply (NoOwnerX_VS0 cf None y s4 s' ES5). apply G2. congruence.
      + intros Hp y z Hz. rewrite Ei5 in Hz. exact (ii_nb _ _ _ _ _ N4 Hp y z Hz).
    - congruence.
    - intros i0 Hout HN0. apply (Journey2.NoOwner_VS cf i0 s4 s' ES5). apply O4. apply (NoOwner_VS cf i0 s0 s3 ES03). apply O0; [|exact HN0].
      intros ->. destruct Hat as [k Hk]. exact (Hout k Hk).
  Qed.

  Lemma srv_serve_with fl j sid s s' : Ctx fl s -> SrvInv cf fl s -> serve_with cf j sid s = Ok (tt, s') ->
    Ctx fl s' /\ SrvInv cf fl s' /\ VJ s' = VJ s /\ (forall i, Outside s i -> NoOwner cf i s -> NoOwner cf i s').
  Proof.
    intros HC HS H. unfold serve_with in H. mstep H as nd.
    destruct (0 <? n_nint nd) eqn:En; [exact (srv_biis fl j sid s s' HC HS H)|].
    mstep H as cand. destruct (carryB cf fl _ s _ s0 (kb_choose_next_customer cf j) HC HS E) as (HC0 & HS0 & ES0 & EJ0).
    destruct cand as [c|].
    - destruct (cnc_spec cf j c s s0 E) as (Hat & Hw & En0 & Ei0).
      assert (HW0 : Waits s0 j c) by (apply (Waits_same s s0 j c En0 Ei0); split; assumption).
      destruct (srv_start_give fl j c sid s0 s' HC0 HS0 HW0 H) as (HC1 & HS1 & EJ1 & HO1).
      split; [exact HC1|]. split; [exact HS1|]. split; [congruence|]. intros i Hout HN. apply HO1.
      + intros ->. exact (Hout j Hat).
      + exact (NoOwner_VS cf i s s0 ES0 HN).
    - apply ret_spec in H as [_ ->]. split; [exact HC0|]. split; [exact HS0|]. split; [exact EJ0|]. intros i _ HN. exact (NoOwner_VS cf i s s0 ES0 HN).
  Qed.

  Lemma srv_bsipr fl j freed s s' : Ctx fl s -> SrvInv cf fl s -> begin_service_if_possible_release cf j freed s = Ok (tt, s') ->
    Ctx fl s' /\ SrvInv cf fl s' /\ VJ s' = VJ s /\ (forall i, Outside s i -> NoOwner cf i s -> NoOwner cf i s').
  Proof.
    intros HC HS H. unfold begin_service_if_possible_release in H. destruct freed as [sid|].
    - mstep H as nd. destruct (find_server sid (n_servers nd)); [exact (srv_serve_with fl j sid s s' HC HS H)|].
      apply ret_spec in H as [_ ->]. auto.
    - apply ret_spec in H as [_ ->]. auto.
  Qed.

  Lemma srv_forM_serve fl j : forall l s s', Ctx fl s -> SrvInv cf fl s -> forM_ l (serve_with cf j) s = Ok (tt, s') ->
    Ctx fl s' /\ SrvInv cf fl s' /\ VJ s' = VJ s /\ (forall i, Outside s i -> NoOwner cf i s -> NoOwner cf i s').
  Proof.
    induction l as [|sid r IH]; intros s s' HC HS H; cbn [forM_] in H; [apply ret_spec in H as [_ ->]; auto|].
    mstep H as u0. destruct (srv_serve_with fl j sid s s0 HC HS E) as (HC0 & HS0 & EJ0 & HO0).
    destruct (IH s0 s' HC0 HS0 H) as (HC1 & HS1 & EJ1 & HO1).
    split; [exact HC1|]. split; [exact HS1|]. split; [congruence|]. intros i Hout HN. apply HO1; [eapply Outside_VJ; eauto|apply HO0; assumption].
  Qed.
  Lemma srv_forM_kill fl j : forall l s s', Ctx fl s -> SrvInv cf fl s -> forM_ l (kill_server j) s = Ok (tt, s') ->
    Ctx fl s' /\ SrvInv cf fl s' /\ VJ s' = VJ s /\ (forall i, NoOwner cf i s -> NoOwner cf i s').
  Proof.
    induction l as [|sid r IH]; intros s s' HC HS H; cbn [forM_] in H; [apply ret_spec in H as [_ ->]; auto|].
    mstep H as u0. destruct (srv_kill_server cf fl j sid s s0 (Ctx_Idx _ _ HC) HS E) as (HS0 & HO0).
    destruct (carryJ fl _ s _ s0 (kv_T _ _ _ _ _ (kj_kill_server j sid)) HC E) as (HC0 & EJ0).
    destruct (IH s0 s' HC0 HS0 H) as (HC1 & HS1 & EJ1 & HO1).
    split; [exact HC1|]. split; [exact HS1|]. split; [congruence|]. intros i HN. apply HO1, HO0, HN.
  Qed.

  Lemma srv_take_off_duty0 fl fuel j s s' : Ctx fl s -> SrvInv cf fl s -> take_servers_off_duty cf fuel j 0 s = Ok (tt, s') ->
    Ctx fl s' /\ SrvInv cf fl s' /\ VJ s' = VJ s /\ (forall i, NoOwner cf i s -> NoOwner cf i s').
  Proof.
    intros HC HS H. unfold take_servers_off_duty in H. change (0 =? 0) with true in H. cbv iota in H.
    mstep H as nd. mstep H as se.
    assert (s0 = s) by (destruct (n_next_date nd); [apply ret_spec in E as [_ ->]; reflexivity|discriminate E]). subst s0. clear E.
    mstep H as u0. rename s0 into s1.
    match type of E with put_node ?n _ = _ => set (nd' := n) in * end.
    assert (Hnn : nodeZ s (n_id nd') = Some nd) by (change (n_id nd') with (n_id nd); rewrite (Ctx_Idx _ _ HC _ _ Hn); exact Hn).
    destruct (carry_put_node cf (ex:=None) (xc:=None) fl s s1 tt nd nd' Hnn eq_refl) as (HC1 & HS1 & ES1 & EJ1); [|exact HC|exact HS|exact E|].
    { unfold fnS, nd'. cbn. f_equal. f_equal. f_equal. rewrite map_map. apply map_ext. intros sv. reflexivity. }
    destruct (srv_forM_kill fl j _ s1 s' HC1 HS1 H) as (HC2 & HS2 & EJ2 & HO2).
    split; [exact HC2|]. split; [exact HS2|]. split; [congruence|]. intros i HN. apply HO2. exact (NoOwner_VS cf i s s1 ES1 HN).
  Qed.

  Lemma NoOwner_nodes i s s' : nodes s' = nodes s -> NoOwner cf i s -> NoOwner cf i s'.
  Proof. intros En HN j nd sv Hn. rewrite (nodeZ_same s s' j En) in Hn. exact (HN j nd sv Hn). Qed.
  Lemma carryJ_put_ind fl s s' u x x' : find_ind (i_id x') (inds s) = Some x -> fiJ x' = fiJ x -> Ctx fl s ->
    put_ind x' s = Ok (u, s') -> Ctx fl s' /\ VJ s' = VJ s.
  Proof.
    intros Hf He HC H. destruct (get_ind_oki fnJ fiJ fgJ _ s x Hf) as [Hid Ho].
    assert (EJ : VJ s' = VJ s).
    { unfold put_ind in H. apply modify_spec in H. subst s'. apply (put_ind_view fnJ fiJ fgJ ltac:(intros ? ?; reflexivity) x' x s Ho). unfold iv. rewrite He. congruence. }
    split; [eapply Ctx_VJ; eauto|exact EJ].
  Qed.

  (* the end of a shift change: the new servers, then every free server looks for work (interrupted customers first) *)
  Lemma srv_shift_tail fl k j s s' : sched_of cf j = true -> Ctx fl s -> SrvInv cf fl s ->
    (add_new_servers k j ;;; begin_service_if_possible_change_shift cf j) s = Ok (tt, s') ->
    Ctx fl s' /\ SrvInv cf fl s' /\ VJ s' = VJ s /\ (forall i, Outside s i -> NoOwner cf i s -> NoOwner cf i s').
  Proof.
    intros Hsch HC HS H. mstep H as u3.
    destruct (srv_add_new_servers cf fl k j s s0 (Ctx_Idx _ _ HC) HS) as (HS3 & HO3 & _); [|exact E|].
    { intros n Hnn2. exact (sn_sch _ _ _ (si_n _ _ _ HS j n Hnn2) Hsch). }
    destruct (carryJ fl _ s _ s0 (kv_T _ _ _ _ _ (kj_add_new_servers _ j)) HC E) as (HC3 & EJ3). clear E.
    unfold begin_service_if_possible_change_shift in H. mstep H as nd2.
    destruct (srv_forM_serve fl j _ s0 s' HC3 HS3 H) as (HC4 & HS4 & EJ4 & HO4).
    split; [exact HC4|]. split; [exact HS4|]. split; [congruence|]. intros i Hout HN. apply HO4; [eapply Outside_VJ; eauto|]. apply HO3. exact HN.
  Qed.

  Lemma srv_slot_loop fl j : slot_of cf j = true -> forall k s s', Ctx fl s -> SrvInv cf fl s -> slot_loop cf k j s = Ok (tt, s') ->
    Ctx fl s' /\ SrvInv cf fl s' /\ VJ s' = VJ s /\ (forall i, NoOwner cf i s -> NoOwner cf i s').
  Proof.
    intros Hsl. induction k as [|k IH]; intros s s' HC HS H; cbn [slot_loop] in H; [apply ret_spec in H as [_ ->]; auto|].
    mstep H as t0. mstep H as nd.
    destruct (0 <? n_nint nd) eqn:En.
    { exfalso. assert (Hps : psched_of cf j = false).
      { unfold slot_of in Hsl. unfold psched_of, psched_nc. destruct (nthZ (cf_nodes cf) (j - 1)) as [nc0|]; [|reflexivity].
        unfold nc_slotted in Hsl. destruct (nc_srv nc0); [discriminate Hsl|discriminate Hsl|reflexivity]. }
      rewrite (ii_sch _ _ _ _ _ (proj2 HS) j nd Hn Hps) in H. unfold bind in H. cbn in H. discriminate H. }
    mstep H as cand. destruct (carryB cf fl _ s _ s0 (kb_choose_next_customer cf j) HC HS E) as (HC0 & HS0 & ES0 & EJ0).
    mstep H as u0.
    assert (Hmid : Ctx fl s1 /\ SrvInv cf fl s1 /\ VJ s1 = VJ s0 /\ (forall i, NoOwner cf i s0 -> NoOwner cf i s1)).
    { destruct cand as [c|]; [|apply ret_spec in E0 as [_ ->]; auto].
      destruct (cnc_spec cf j c s s0 E) as (Hat & (xc & Hxc & Hsv) & En0 & Ei0).
      assert (Hat0 : at_node s0 j c) by (apply (at_node_nodes s s0); assumption).
      destruct (proj2 HC0 j c Hat0) as (xc0 & Hxc0 & Hnode0).
      rename E0 into G. bstep G HC0 HS0 as ES1 EJ1. bstep G HC0 HS0 as ES2 EJ2.
      mstep G as x. mstep G as st. apply stime_num_same in E0. subst s4.
      mstep G as u1. pose proof (find_ind_id _ _ _ Hf) as Hidx.
      assert (ES03 : VS s3 = VS s0) by congruence.
      destruct (VS_find _ _ c x ES03 Hf) as (x0 & Hx0 & _ & Q2 & _). assert (x0 = xc0) by congruence. subst x0.
      match type of E0 with put_ind ?x' _ = _ => set (xn := x') in * end.
      destruct (carryJ_put_ind fl s3 s4 tt x xn ltac:(change (i_id xn) with (i_id x); rewrite Hidx; exact Hf) eq_refl HC0 E0) as (HC4 & EJ4).
      destruct (put_ind_facts _ _ _ _ E0) as (Ei4 & En4 & _).
      assert (Hni : NotInt s3 c).
      { destruct (VS_find _ _ c x ES03 Hf) as (xa & Hxa & Qa & _). apply (NotInt_waiting cf None None fl s3 c x (proj2 HS0) Hf).
        rewrite Qa. rewrite Ei0 in Hxa. congruence. }
      assert (HS4 : SrvInv cf fl s4).
      { apply (SrvInv_put_ind cf fl fl s3 s4 c x xn HS0 Hf Hidx En4 Ei4); [auto|auto|exact Hni| | |].
        - intros j0 n0 sv A1 A2 A3 A4. exfalso. destruct (si_own _ _ _ HS0 j0 n0 sv c A1 A2 A3 A4) as (y & Hy & _ & P2 & _).
          assert (y = x) by congruence. subst y. assert (j0 = j) by congruence. subst j0. congruence.
        - intros _ _ Hx. discriminate Hx.
        - intros Hp. exact (si_nb _ _ _ HS0 Hp c x Hf). }
      clear E0 HS0 HC0. bstep G HC4 HS4 as ES5 EJ5.
      destruct (carryB cf fl _ s5 _ s1 (kb_reset_class_change cf j c) HC4 HS4 G) as (HC6 & HS6 & ES6 & EJ6).
      split; [exact HC6|]. split; [exact HS6|]. split; [congruence|]. intros i HN.
      apply (NoOwner_VS cf i s5 s1 ES6). apply (NoOwner_VS cf i s4 s5 ES5). apply (NoOwner_nodes i s3 s4 En4).
      apply (NoOwner_VS cf i s0 s3 ES03). exact HN. }
    destruct Hmid as (HC1 & HS1 & EJ1 & HO1).
    destruct (IH s1 s' HC1 HS1 H) as (HC2 & HS2 & EJ2 & HO2).
    split; [exact HC2|]. split; [exact HS2|]. split; [congruence|]. intros i HN. apply HO2, HO1. exact (NoOwner_VS cf i s s0 ES0 HN).
  Qed.

  Lemma srv_slotted_service fl j s s' : scope2s cf = true -> Ctx fl s -> SrvInv cf fl s -> slotted_service cf j s = Ok (tt, s') ->
    Ctx fl s' /\ SrvInv cf fl s' /\ VJ s' = VJ s /\ (forall i, NoOwner cf i s -> NoOwner cf i s').
  Proof.
    intros Hsc HC HS H. unfold slotted_service in H. mstep H as nc.
    pose proof (scope2s_nc _ _ _ Hsc Hc) as Hs. unfold scope_nc in Hs. apply andb_true_iff in Hs as [_ Hs].
    destruct (nc_srv nc) as [|sc|sl] eqn:Esrv; try discriminate H. apply andb_true_iff in Hs as [Hs _]. apply andb_true_iff in Hs as [Hs _]. apply negb_true_iff in Hs.
    assert (Hsl : slot_of cf j = true) by (unfold slot_of, nc_slotted; rewrite Hc, Esrv; reflexivity).
    mstep H as nd. mstep H as u0.
    assert (s0 = s) by (destruct (sl_b sl); [discriminate E|apply ret_spec in E as [_ ->]; reflexivity]). subst s0. clear E.
    rewrite Hs in H. mstep H as u1. mstep H as u2.
    destruct (srv_slot_loop fl j Hsl _ s s0 HC HS E) as (HC1 & HS1 & EJ1 & HO1).
    match type of H with ?m _ = _ => destruct (carryB cf fl m s0 _ s' ltac:(kv using kb_lem) HC1 HS1 H) as (HC2 & HS2 & ES2 & EJ2) end.
    split; [exact HC2|]. split; [exact HS2|]. split; [congruence|]. intros i HN. apply (NoOwner_VS cf i s0 s' ES2). apply HO1, HN.
  Qed.
End SrvWalk.


(* ====================================================================================================================
   7. Journey steps and the walk through the engine (Journey2's sections 6 and 7 for the new state St = Jst + SrvI)
   ==================================================================================================================== *)
Section JSteps.
  Variable an : Z -> option Z.
  Variable h : list rec.

  Lemma Jst_Ctx fl s : Jst an h fl s -> Ctx fl s.
  Proof. intros (A & B & C). split; [exact A|eapply JH_NodeOK; exact B]. Qed.
  Lemma Jst_away fl s i : Jst an h fl s -> In i fl -> Away i s.
  Proof. intros (A & _) Hi. exact (WFx2_away _ _ _ A Hi). Qed.

  (* the record of a customer in flight is rewritten *)
  Lemma Jst_put_away fl s s' i x0 x' : Jst an h fl s -> In i fl -> NoEntry s i -> find_ind i (inds s) = Some x0 -> i_id x' = i ->
    inds s' = put_ind_l x' (inds s) -> nodes s' = nodes s -> exit_ids s' = exit_ids s -> exit_n s' = exit_n s -> arr s' = arr s -> log s' = log s ->
    Jst an h fl s'.
  Proof.
    intros (A & B & C) Hfl HN Hf Hid Ei En Ee Een Ea El. destruct (WFx2_away _ _ _ A Hfl) as [Aw1 Aw2].
    assert (Hat : forall k y, at_node s' k y <-> at_node s k y) by (intros k y; apply at_node_nodes; exact En).
    split; [|split].
    - eapply Conserve2.WFx2_shape; [|exact A]. unfold Conserve2.shp. rewrite En, Ee, Een, Ea, Ei. f_equal.
      apply Conserve2.put_ind_l_ids_in. rewrite Hid. eapply Conserve2.find_ind_In; eauto.
    - unfold JI in *. rewrite El. apply (JH_mono an _ s s' B); [intros k y; apply Hat| |exact Ee|rewrite Ea; lia].
      intros k y Hk. assert (Hne : y <> i_id x') by (rewrite Hid; intros ->; exact (Aw1 k (proj1 (Hat _ _) Hk))).
      rewrite Ei, find_put_other by exact Hne. reflexivity.
    - destruct C as [C1 C2]. constructor.
      + intros d f y He. apply (entry_nodes s s') in He; [|exact En]. destruct (C1 d f y He) as (x & Hx & P).
        assert (Hne : y <> i_id x') by (rewrite Hid; intros ->; exact (HN d f He)). exists x. rewrite Ei, find_put_other by exact Hne. auto.
      + intros d nd Hn. rewrite (nodeZ_same s s' d En) in Hn. exact (C2 d nd Hn).
  Qed.

  (* a record of a customer in flight is appended to the log; its own counter goes up *)
  Lemma Jst_log_away fl s s' i x0 x' r : Jst an h fl s -> In i fl -> NoEntry s i -> find_ind i (inds s) = Some x0 -> i_id x' = i -> r_id r = i ->
    (forall r1, last_of i (h ++ log s) = Some r1 -> link r1 r) -> (recs_of i (h ++ log s) = [] -> an i = Some (r_node r)) ->
    inds s' = put_ind_l x' (inds s) -> nodes s' = nodes s -> exit_ids s' = exit_ids s -> exit_n s' = exit_n s -> arr s' = arr s -> log s' = log s ++ [r] ->
    Jst an h fl s'.
  Proof.
    intros HJ Hfl HN Hf Hid Hrid Hl Hfst Ei En Ee Een Ea El.
    (* first the record (state with the longer log), then the counter *)
    set (sa := s <| log := log s ++ [r] |>).
    assert (Ha : Jst an h fl sa).
    { destruct HJ as (A & B & C). destruct (WFx2_away _ _ _ A Hfl) as [Aw1 Aw2].
      split; [eapply Conserve2.WFx2_shape; [|exact A]; reflexivity|]. split; [|apply (Lq_same s sa); [reflexivity|reflexivity|exact C]].
      unfold JI in *. change (log sa) with (log s ++ [r]). rewrite app_assoc.
      apply (JH_mono an _ s sa); [|intros k y Hk; exact Hk|intros; reflexivity|reflexivity|cbn; lia].
      apply (JH_log an _ s r B); rewrite ?Hrid.
      - exact (proj2 (WFx2_fl_le _ _ _ A Hfl)).
      - exact Hl.
      - exact Hfst.
      - exact Aw2.
      - intros k x Hk. exfalso. exact (Aw1 k Hk). }
    apply (Jst_put_away fl sa s' i x0 x' Ha Hfl HN Hf Hid Ei En Ee Een Ea El).
  Qed.

  (* what the record writers do *)
  Lemma bump_rec_spec i s u s' : bump_rec i s = Ok (u, s') ->
    exists x, find_ind i (inds s) = Some x /\ inds s' = put_ind_l (x <| i_nrec := i_nrec x + 1 |>) (inds s) /\
      nodes s' = nodes s /\ exit_ids s' = exit_ids s /\ exit_n s' = exit_n s /\ arr s' = arr s /\ log s' = log s /\ now s' = now s.
  Proof.
    unfold bump_rec, upd_ind. intros H. mstep H as x. exists x. split; [exact Hf|]. destruct (put_ind_facts _ _ _ _ H) as (A & B & C & D & E & F & G). auto 10.
  Qed.
  Lemma log_then_bump i r s u s' : (log_rec r ;;; bump_rec i) s = Ok (u, s') ->
    exists x, find_ind i (inds s) = Some x /\ inds s' = put_ind_l (x <| i_nrec := i_nrec x + 1 |>) (inds s) /\
      nodes s' = nodes s /\ exit_ids s' = exit_ids s /\ exit_n s' = exit_n s /\ arr s' = arr s /\ log s' = log s ++ [r] /\ now s' = now s.
  Proof.
    intros H. mstep H as u0. unfold log_rec in E. apply modify_spec in E. subst s0.
    destruct (bump_rec_spec _ _ _ _ H) as (x & Hx & A & B & C & D & E & F & G). exists x. cbn in *. auto 10.
  Qed.
End JSteps.

Lemma VS_put_node s s' nd nd' : nodeZ s (n_id nd') = Some nd -> fnS nd' = fnS nd -> n_id nd' = n_id nd ->
  nodes s' = updZ (nodes s) (n_id nd' - 1) nd' -> inds s' = inds s -> VS s' = VS s.
Proof.
  intros Hn Ef Eid En Ei. unfold VW. f_equal.
  - rewrite En. unfold nodeZ in Hn. destruct (Conserve2.nthZ_nat _ _ _ Hn) as (kk & Hkk & Hnk). rewrite Hkk, Conserve2.updZ_nat, Conserve2.upd_map.
    apply Conserve2.upd_same. rewrite nth_error_map, Hnk. unfold nv. rewrite Ef, Eid. reflexivity.
  - rewrite Ei. reflexivity.
Qed.
Lemma VS_put_ind s s' x x' : find_ind (i_id x') (inds s) = Some x -> fiS x' = fiS x -> inds s' = put_ind_l x' (inds s) -> nodes s' = nodes s -> VS s' = VS s.
Proof.
  intros Hf Ef Ei En. unfold VW. f_equal; [rewrite En; reflexivity|]. rewrite Ei, (map_iv_put fiS). apply aput_same. cbn [fst snd iv].
  rewrite (afind_iv fiS), Hf. cbn. rewrite Ef. reflexivity.
Qed.

(* the record of the customer in flight is deleted (it reaches the exit) *)
Lemma SrvInv_del cf i s s' : SrvInv cf [i] s -> NoOwner cf i s -> NoDup (map i_id (inds s)) -> nodes s' = nodes s -> inds s' = del_ind_l i (inds s) ->
  SrvInv cf [] s'.
Proof.
  intros [HS HN] HO Hnd En Ei. assert (HZ : forall k, nodeZ s' k = nodeZ s k) by (intros k; apply nodeZ_same; exact En). split.
  - destruct HS as [S1 S2 S3 S4]. constructor; [| | |intros Hp y z Hy; rewrite Ei in Hy; destruct (Z.eq_dec y i) as [->|Hne];
      [rewrite (find_del_same i _ Hnd) in Hy; discriminate Hy|rewrite find_del_other in Hy by exact Hne; exact (S4 Hp y z Hy)]].
    + intros j nd Hn. rewrite HZ in Hn. exact (S1 j nd Hn).
    + intros j nd sv c0 Hn Hsl Hin Hc. rewrite HZ in Hn. destruct (S2 j nd sv c0 Hn Hsl Hin Hc) as (x & Hx & P).
      exists x. rewrite Ei, find_del_other; [auto|]. intros ->. exact (HO j nd sv Hn Hsl Hin Hc).
    + intros y z Hy _ Hb Hs. rewrite Ei in Hy. destruct (Z.eq_dec y i) as [->|Hne]; [rewrite (find_del_same i _ Hnd) in Hy; discriminate Hy|].
      rewrite find_del_other in Hy by exact Hne. destruct (S3 y z Hy) as (k & nd & P1 & P2 & P3); [|exact Hb|exact Hs|]; [intros [E|[]]; congruence|].
      exists k, nd. rewrite HZ. auto.
  - apply (IntInv_step cf None None None [i] [] s s' (fun y => y <> i) HN).
    + intros k n Hk. rewrite HZ in Hk. exists n. auto.
    + intros k n y Hk Hy. split; [|intros []]. intros ->. exact (proj1 (ii_mem _ _ _ _ _ HN k n i Hk Hy) (or_introl eq_refl)).
    + intros y z Hy Hz. exists z. rewrite Ei, find_del_other by exact Hy. auto.
    + intros y _ Hxc HOy j0 n0 sv Hn0. rewrite HZ in Hn0. exact (HOy Hxc j0 n0 sv Hn0).
    + intros Hp y z Hz. rewrite Ei in Hz. destruct (Z.eq_dec y i) as [->|Hne]; [rewrite (find_del_same i _ Hnd) in Hz; discriminate Hz|].
      rewrite find_del_other in Hz by exact Hne. exact (ii_nb _ _ _ _ _ HN Hp y z Hz).
Qed.

(* a new customer record (in flight) appears *)
Lemma SrvInv_spawn cf i xn s s0 : SrvInv cf [] s -> find_ind i (inds s) = None -> i_id xn = i -> i_blocked xn = false ->
  nodes s0 = nodes s -> inds s0 = put_ind_l xn (inds s) -> SrvInv cf [i] s0.
Proof.
  intros [HS HN] Hnone Hid Hb Hnodes Ei.
  assert (Hfo : forall y, y <> i -> find_ind y (inds s0) = find_ind y (inds s)) by (intros y Hy; rewrite Ei, find_put_other by congruence; reflexivity).
  assert (Hfi : find_ind i (inds s0) = Some xn) by (rewrite Ei; rewrite <- Hid at 1; apply find_put_same).
  split.
  - destruct HS as [S1 S2 S3 S4]. constructor; [| | |intros Hp y z Hy; destruct (Z.eq_dec y i) as [->|Hne];
      [assert (z = xn) by congruence; subst z; exact Hb|rewrite Hfo in Hy by exact Hne; exact (S4 Hp y z Hy)]].
    + intros k n0 Hnn. rewrite (nodeZ_same s s0 k Hnodes) in Hnn. exact (S1 k n0 Hnn).
    + intros k n0 sv c0 Hnn Hsl Hin Hc0. rewrite (nodeZ_same s s0 k Hnodes) in Hnn. destruct (S2 k n0 sv c0 Hnn Hsl Hin Hc0) as (z & Hz & P).
      exists z. rewrite Hfo; [auto|]. intros ->. congruence.
    + intros y z Hy Hny Hb' Hsv. destruct (Z.eq_dec y i) as [->|Hne]; [exfalso; apply Hny; left; reflexivity|].
      rewrite Hfo in Hy by exact Hne. destruct (S3 y z Hy ltac:(intros []) Hb' Hsv) as (k & n0 & P1 & P2 & P3). exists k, n0. rewrite (nodeZ_same s s0 k Hnodes). auto.
  - apply (IntInv_step cf None None None [] [i] s s0 (fun y => y <> i) HN).
    + intros k n Hk. rewrite (nodeZ_same s s0 k Hnodes) in Hk. exists n. auto.
    + intros k n y Hk Hy. destruct (ii_mem _ _ _ _ _ HN k n y Hk Hy) as (_ & _ & z & Hz & _).
      assert (Hne : y <> i) by (intros ->; congruence). split; [exact Hne|]. intros [E|[]]. congruence.
    + intros y z Hy Hz. exists z. rewrite (Hfo y Hy). auto.
    + intros y _ Hxc HOy j0 n0 sv Hn0. rewrite (nodeZ_same s s0 j0 Hnodes) in Hn0. exact (HOy Hxc j0 n0 sv Hn0).
    + intros Hp y z Hz. destruct (Z.eq_dec y i) as [->|Hne]; [assert (z = xn) by congruence; subst z; exact Hb|].
      rewrite (Hfo y Hne) in Hz. exact (ii_nb _ _ _ _ _ HN Hp y z Hz).
Qed.

Section Walk.
  Variable cf : config.
  Variable an : Z -> option Z.
  Variable h : list rec.             (* the history before the current event *)
  Hypothesis Hsc : scope2s cf = true.

  Definition St (fl : list Z) (s : sim) : Prop := Jst an h fl s /\ SrvInv cf fl s.
  Lemma St_Ctx fl s : St fl s -> Ctx fl s. Proof. intros [A _]. eapply Jst_Ctx; eauto. Qed.
  Lemma St_VJS fl s s' : VJ s' = VJ s -> VS s' = VS s -> St fl s -> St fl s'.
  Proof. intros EJ ES [A B]. split; [eapply Jst_VJ; eauto|eapply SrvInv_VS; eauto]. Qed.
  (* from a journey state and the results of a server lemma *)
  Lemma St_of fl s s' : St fl s -> VJ s' = VJ s -> SrvInv cf fl s' -> St fl s'.
  Proof. intros [A _] EJ HS. split; [eapply Jst_VJ; eauto|exact HS]. Qed.

  Lemma WFx2_at_le s k y : Conserve2.WFx2 [] s -> at_node s k y -> 1 <= y <= a_created (arr s).
  Proof.
    intros (_ & _ & H0 & HP & _) Hat. assert (Hin : In y (zseq 1 (Z.to_nat (a_created (arr s))))).
    { eapply Permutation_in; [exact HP|]. apply in_or_app. left. eapply at_node_qids; eauto. }
    apply zseq_In in Hin. cbn in *. lia.
  Qed.
  Lemma WFx2_rec_le s y x : Conserve2.WFx2 [] s -> find_ind y (inds s) = Some x -> 1 <= y <= a_created (arr s).
  Proof.
    intros HW Hf. destruct (WFx2_rec_place _ _ _ _ HW Hf) as [[k Hk]|[]]. eapply WFx2_at_le; eauto.
  Qed.

  Lemma St_carryB fl {X} (m : M X) s a s' : keepB KT m -> St fl s -> m s = Ok (a, s') -> St fl s' /\ VJ s' = VJ s /\ VS s' = VS s.
  Proof.
    intros Hm [HJ HS] H. destruct (carryB cf fl m s a s' Hm (Jst_Ctx an h _ _ HJ) HS H) as (_ & HS' & ES & EJ).
    split; [split; [eapply Jst_VJ; eauto|exact HS']|auto].
  Qed.

  (* the record of customer i keeps its views through steps that neither view sees *)
  Lemma rec_VJS s s' i y : VJ s' = VJ s -> VS s' = VS s -> find_ind i (inds s) = Some y ->
    exists y', find_ind i (inds s') = Some y' /\ fiJ y' = fiJ y /\ fiS y' = fiS y.
  Proof.
    intros EJ ES Hf. pose proof (VJ_find s s' i EJ) as Hv. rewrite Hf in Hv. destruct (find_ind i (inds s')) as [y'|] eqn:E; [|discriminate Hv].
    cbn [option_map] in Hv. exists y'. split; [reflexivity|]. split; [congruence|].
    pose proof (VW_ind fnS fiS fgS s s' i ES) as Hw. rewrite Hf, E in Hw. cbn [option_map] in Hw. congruence.
  Qed.
  Lemma unblocked_NoEntry s i y : Lq s -> find_ind i (inds s) = Some y -> i_blocked y = false -> NoEntry s i.
  Proof. intros HL Hf Hb d fr He. destruct (l_ent _ HL d fr i He) as (x & Hx & _ & Hbx). congruence. Qed.

  (* ---------- ExitNode.accept: the customer in flight reaches the exit ---------- *)
  Lemma exit_accept_St i c s s' : St [i] s -> NoEntry s i -> NoOwner cf i s ->
    (exists r, last_of i (h ++ log s) = Some r /\ term r) ->
    exit_accept i c s = Ok (tt, s') -> St [] s' /\ now s' = now s /\ log s' = log s.
  Proof.
    intros [(A & B & C) HS] HN HO Hr H.
    pose proof (Conserve2.tr_exit_accept i c [] s tt s' I A H) as [A' _].
    destruct (WFx2_away _ _ i A (or_introl eq_refl)) as [Aw1 Aw2]. pose proof (WFx2_ids_nodup _ _ A) as Hnd.
    unfold exit_accept, bind, del_ind, modify in H. injection H as <-.
    split; [|split; reflexivity]. split; [split; [exact A'|split]|].
    - unfold JI in *. cbn [log]. apply (JH_exit an _ s _ i B (conj Aw1 Aw2) Hr); [intros k y Hk; exact Hk| |reflexivity|cbn; lia].
      intros y Hy. cbn. rewrite find_del_other by exact Hy. reflexivity.
    - destruct C as [C1 C2]. constructor.
      + intros d f y He. change (entry s d f y) in He. destruct (C1 d f y He) as (x & Hx & P). exists x. cbn.
        rewrite find_del_other; [auto|]. intros ->. exact (HN d f He).
      + exact C2.
    - apply (SrvInv_del cf i s _ HS HO Hnd); reflexivity.
  Qed.

  (* ---------- priority pre-emption without rerouting: the victim stays in its node ---------- *)
  Lemma omap_in {X Y} (g : X -> option Y) : forall l ps p, omap g l = Some ps -> In p ps -> exists a, In a l /\ g a = Some p.
  Proof.
    induction l as [|a r IH]; intros ps p H Hp; cbn in H; [injection H as <-; destruct Hp|].
    destruct (g a) as [y|] eqn:Ea; cbn in H; [|discriminate]. destruct (omap g r) as [ys|] eqn:Er; cbn in H; [|discriminate]. injection H as <-.
    destruct Hp as [<-|Hp]; [exists a; split; [left; reflexivity|exact Ea]|]. destruct (IH ys p eq_refl Hp) as (b & Hb & Eb). exists b. split; [right; exact Hb|exact Eb].
  Qed.
  Lemma first_max_in {X} (key : X -> Z) : forall l best, In (first_max key l best) (best :: l).
  Proof.
    induction l as [|a r IH]; intros best; cbn [first_max]; [left; reflexivity|]. destruct (key best <? key a).
    - destruct (IH a) as [E|Hin]; [right; left; exact E|right; right; exact Hin].
    - destruct (IH best) as [E|Hin]; [left; exact E|right; right; exact Hin].
  Qed.
  Lemma preempt_victim_same j c v s s' : preempt_victim cf j c s = Ok (v, s') -> s' = s.
  Proof.
    intros H. unfold preempt_victim in H. mstep H as nc. destruct (nc_preempt nc =? 0); [apply ret_spec in H as [_ ->]; reflexivity|].
    mstep H as nd. mstep H as il. mstep H as ps. destruct ps as [|p0 pr]; [discriminate H|]. mstep H as x.
    match type of H with (if ?b then _ else _) _ = _ => destruct b end; [|apply ret_spec in H as [_ ->]; reflexivity].
    match type of H with match ?l with _ => _ end _ = _ => destruct l end; [discriminate H|apply ret_spec in H as [_ ->]; reflexivity].
  Qed.
  Lemma preempt_victim_spec j c v s s' : preempt_victim cf j c s = Ok (Some v, s') ->
    s' = s /\ (exists nd sv, nodeZ s j = Some nd /\ In sv (n_servers nd) /\ sv_cust sv = Some v) /\
    exists nc, nthZ (cf_nodes cf) (j - 1) = Some nc /\ nc_preempt nc <> 0.
  Proof.
    intros H. unfold preempt_victim in H. mstep H as nc. destruct (nc_preempt nc =? 0) eqn:Epre; [apply ret_spec in H as [H _]; discriminate H|].
    apply Z.eqb_neq in Epre.
    mstep H as nd. mstep H as il. mstep H as ps. destruct ps as [|p0 pr]; [discriminate H|]. mstep H as x.
    match type of H with (if ?b then _ else _) _ = _ => destruct b end; [|apply ret_spec in H as [H _]; discriminate H].
    match type of H with match ?l with _ => _ end _ = _ => destruct l as [|c0 cr] eqn:Ef end; [discriminate H|].
    apply ret_spec in H as [H ->]. injection H as ->. split; [reflexivity|]. split; [|eauto].
    match goal with |- context [first_max ?k cr c0] => pose proof (first_max_in k cr c0) as Hin end.
    rewrite <- Ef in Hin. apply filter_In in Hin as [Hin _].
    destruct (omap_in _ _ _ _ Hl Hin) as (sv & Hsv & Esv). exists nd, sv. split; [exact Hn|]. split; [exact Hsv|].
    destruct (sv_cust sv) as [c1|]; [|discriminate Esv]. destruct (find_ind c1 (inds s)); cbn in Esv; [|discriminate Esv]. injection Esv as Esv. rewrite <- Esv. reflexivity.
  Qed.

  Lemma wint_spec j i dest s s' : write_interruption_record cf j i dest s = Ok (tt, s') ->
    exists x r, find_ind i (inds s) = Some x /\ r_id r = i_id x /\ r_type r = 1 /\ r_node r = j /\ r_arr r = i_arr x /\ r_exit r = Some (now s) /\ r_dest r = dest /\
      inds s' = put_ind_l (x <| i_nrec := i_nrec x + 1 |>) (inds s) /\
      nodes s' = nodes s /\ exit_ids s' = exit_ids s /\ exit_n s' = exit_n s /\ arr s' = arr s /\ log s' = log s ++ [r] /\ now s' = now s.
  Proof.
    intros H. unfold write_interruption_record in H. mstep H as t0. mstep H as x. mstep H as nc. mstep H as sid.
    assert (s0 = s).
    { destruct (nc_slotted nc); [apply ret_spec in E as [_ ->]; reflexivity|]. mstep E as sv. apply ret_spec in E as [_ ->]. reflexivity. }
    subst s0. clear E. destruct (log_then_bump _ _ _ _ _ H) as (x0 & Hx0 & A). assert (x0 = x) by congruence. subst x0.
    match type of A with context [log s ++ [?r0]] => exists x, r0 end. split; [exact Hf|]. repeat (split; [reflexivity|]). exact A.
  Qed.

  (* a continuation record for a customer that stays in node j *)
  Lemma Jst_log_inplace s s' j v x x' r : Jst an h [] s -> at_node s j v -> find_ind v (inds s) = Some x -> r_id r = v ->
    cont r -> r_node r = j -> r_arr r = i_arr x -> x' = x <| i_nrec := i_nrec x + 1 |> ->
    inds s' = put_ind_l x' (inds s) -> nodes s' = nodes s -> exit_ids s' = exit_ids s -> exit_n s' = exit_n s -> arr s' = arr s -> log s' = log s ++ [r] ->
    Jst an h [] s'.
  Proof.
    intros (A & B & C) Hat Hf Hrid Hco Hrn Hra Ex' Ei En Ee Een Ea El. pose proof (find_ind_id _ _ _ Hf) as Hidx.
    assert (Hidx' : i_id x' = v) by (rewrite Ex'; exact Hidx).
    assert (Hatn : forall k z, at_node s' k z <-> at_node s k z) by (intros k z; apply at_node_nodes; exact En).
    destruct (j_node _ _ _ B j v Hat) as (x0 & Hx0 & Gnode & Glast & Gnrec & Gan). assert (x0 = x) by congruence. subst x0.
    split; [|split].
    - eapply Conserve2.WFx2_shape; [|exact A]. unfold Conserve2.shp. rewrite En, Ee, Een, Ea, Ei. f_equal.
      apply Conserve2.put_ind_l_ids_in. rewrite Hidx'. eapply Conserve2.find_ind_In; eauto.
    - unfold JI in *. rewrite El, app_assoc. apply (JH_log2 an _ s s' r B); rewrite ?Hrid.
      + exact (proj2 (WFx2_at_le s j v A Hat)).
      + intros r1 Hr1. unfold lastok in Glast. rewrite Hr1 in Glast. split; [right; left; exact (proj1 Hco)|].
        destruct Glast as [(G1 & G2 & G3)|(G1 & G2 & G3)]; [left|right].
        * split; [exact G1|]. split; [rewrite Hrn; exact G2|rewrite Hra; exact G3].
        * split; [exact G1|]. split; [rewrite Hrn; symmetry; exact G2|rewrite Hra; symmetry; exact G3].
      + rewrite Hrn. exact Gan.
      + intros Hex. apply (NoDup_app_disj _ _ v (WFx2_nodup _ _ A)); [eapply at_node_qids; eauto|apply in_or_app; left; exact Hex].
      + intros k z; apply Hatn.
      + exact Ee.
      + rewrite Ea. lia.
      + intros y Hy. rewrite Ei, find_put_other by congruence. reflexivity.
      + intros k Hk. destruct (j_node _ _ _ B k v Hk) as (xk & Hxk & Gk & _). assert (xk = x) by congruence. subst xk.
        assert (k = j) by congruence. subst k. exists x'. split; [rewrite Ei; rewrite <- Hidx' at 1; apply find_put_same|].
        unfold good, last_of. rewrite (recs_of_snoc_same _ _ _ Hrid), last_opt_snoc. rewrite Ex'. cbn [i_node i_arr i_nrec].
        split; [exact Gnode|]. split; [right; auto|]. split; [|intros E0; destruct (recs_of v (h ++ log s)); discriminate E0].
        change (i_nrec (x <| i_nrec := i_nrec x + 1 |>)) with (i_nrec x + 1). rewrite Gnrec. unfold zlen. rewrite app_length, Nat2Z.inj_add. reflexivity.
    - destruct C as [C1 C2]. constructor.
      + intros d fr y He. apply (entry_nodes s s') in He; [|exact En]. destruct (C1 d fr y He) as (z & Hz & P1 & P2). rewrite Ei.
        destruct (Z.eq_dec y v) as [->|Hne].
        * assert (z = x) by congruence. subst z. exists x'. rewrite <- Hidx' at 1. rewrite find_put_same. rewrite Ex'. auto.
        * exists z. rewrite find_put_other by congruence. auto.
      + intros d nd Hn. rewrite (nodeZ_same s s' d En) in Hn. exact (C2 d nd Hn).
  Qed.

  Lemma preempt_St f j v c s s' : St [] s -> Waits s j c ->
    (exists nd sv, nodeZ s j = Some nd /\ In sv (n_servers nd) /\ sv_cust sv = Some v) -> slot_of cf j = false -> preempts cf = true ->
    preempt cf (S f) j v c s = Ok (tt, s') -> St [] s'.
  Proof.
    intros [HJ HS] HW (ndv & svv & Hnv & Hsvv & Hcv) Hslot Hp H. rewrite preempt_S in H. unfold preempt_body in H.
    mstep H as t0. mstep H as vx. mstep H as nc.
    pose proof (scope2s_nc _ _ _ Hsc Hc) as Hs. unfold scope_nc in Hs. apply andb_true_iff in Hs as [Hs _]. apply negb_true_iff in Hs. rewrite Hs in H.
    (* the victim is in node j, served by the server that names it *)
    destruct (si_own _ _ _ HS j ndv svv v Hnv Hslot Hsvv Hcv) as (x0 & Hx0 & Hsrv & Hnode & _). assert (x0 = vx) by congruence. subst x0. clear Hx0.
    assert (Hatv : at_node s j v).
    { destruct (WFx2_rec_place _ _ _ _ (proj1 HJ) Hf) as [[k Hk]|[]]. destruct (j_node _ _ _ (proj1 (proj2 HJ)) k v Hk) as (x0 & Hx0 & Gk & _).
      assert (x0 = vx) by congruence. subst x0. assert (k = j) by congruence. subst k. exact Hk. }
    assert (Hvc : v <> c) by (intros ->; destruct HW as (_ & xc & Hxc & Hxs); congruence).
    assert (Hni : NotInt s v) by (exact (NotInt_owned cf None [] s v j ndv svv (proj2 HS) ltac:(discriminate) Hnv Hslot Hsvv Hcv)).
    pose proof (find_ind_id _ _ _ Hf) as Hidv.
    (* original service time remembered *)
    mstep H as u0. match type of E with put_ind ?x' _ = _ => set (v1 := x') in * end.
    destruct (carry_put_ind cf [] s s0 tt vx v1 ltac:(change (i_id v1) with (i_id vx); rewrite Hidv; exact Hf) eq_refl (Jst_Ctx an h _ _ HJ) HS E) as (_ & S0 & ES0 & EJ0).
    assert (J0 : Jst an h [] s0) by (eapply Jst_VJ; eauto).
    destruct (put_ind_facts _ _ _ _ E) as (Ei0 & En0 & _). clear E.
    assert (Hf0 : find_ind v (inds s0) = Some v1) by (rewrite Ei0; rewrite <- Hidv at 1; change (i_id vx) with (i_id v1); apply find_put_same).
    assert (Hat0 : at_node s0 j v) by (apply (at_node_nodes s s0); assumption).
    (* the interruption record *)
    mstep H as u1. mstep E as u2.
    destruct (wint_spec j v None s0 s2 E0) as (xw & r & Hxw & R1 & R2 & R3 & R4 & R5 & R6 & Ei2 & En2 & Ee2 & Een2 & Ea2 & El2 & Et2).
    assert (xw = v1) by congruence. subst xw. clear Hxw.
    assert (J2 : Jst an h [] s2).
    { apply (Jst_log_inplace s0 s2 j v v1 _ r J0 Hat0 Hf0 ltac:(rewrite R1; exact Hidv) (conj R2 R6) R3 R4 eq_refl Ei2 En2 Ee2 Een2 Ea2 El2). }
    assert (S2 : SrvInv cf [] s2) by (exact (proj1 (SrvInv_keepS cf [] _ s0 tt s2 (ks_write_interruption_record cf j v None) (WFx2_Idx _ _ (proj1 J0)) S0 E0))).
    set (v2 := v1 <| i_nrec := i_nrec v1 + 1 |>) in *.
    assert (Hf2 : find_ind v (inds s2) = Some v2) by (rewrite Ei2; rewrite <- Hidv at 1; change (i_id vx) with (i_id v2); apply find_put_same).
    clear E0 J0 S0.
    (* its service is suspended *)
    mstep E as u3. destruct (upd_ind_full _ _ _ _ _ E0) as (z & Hz & Ei3 & En3 & _). assert (z = v2) by congruence. subst z.
    match type of Ei3 with _ = put_ind_l ?x' _ => set (v3 := x') in * end.
    destruct (carry_put_ind cf [] s2 s3 tt v2 v3 ltac:(change (i_id v3) with (i_id vx); rewrite Hidv; exact Hf2) eq_refl (Jst_Ctx an h _ _ J2) S2) as (_ & S3 & ES3 & EJ3).
    { unfold upd_ind in E0. mstep E0 as zz. assert (zz = v2) by congruence. subst zz. exact E0. }
    assert (J3 : Jst an h [] s3) by (eapply Jst_VJ; eauto).
    assert (Hf3 : find_ind v (inds s3) = Some v3) by (rewrite Ei3; rewrite <- Hidv at 1; change (i_id vx) with (i_id v3); apply find_put_same).
    clear E0 J2 S2.
    (* it gives up its server *)
    mstep E as sid. mstep E as u4.
    assert (Hnb : i_blocked v3 = false).
    { destruct (i_blocked v3) eqn:Eb; [|reflexivity]. exfalso.
      pose proof (si_nb _ _ _ S3 (preempts_anypre _ Hp) v v3 Hf3). congruence. }
    assert (Hsrv3 : i_server v3 = Some sid) by (change (i_server v3) with (i_server vx); congruence).
    destruct (srv_detatch cf [] j sid v s3 s4 v3 (WFx2_Idx _ _ (proj1 J3)) S3 (or_intror Hnb) Hf3 Hnode Hsrv3 (NotInt_nodes _ _ v En3 (NotInt_nodes _ _ v En2 (NotInt_nodes _ _ v En0 Hni))) E0) as (S4 & O4 & _ & Hfo4).
    destruct (carryJ [] _ s3 _ s4 (kv_T _ _ _ _ _ (kj_detatch_server j sid v)) (Jst_Ctx an h _ _ J3) E0) as (_ & EJ4).
    assert (J4 : Jst an h [] s4) by (eapply Jst_VJ; eauto). clear E0.
    destruct (St_carryB [] (decide_class_change cf j v) s4 tt s1 (kb_decide_class_change cf j v) (conj J4 S4) E) as (St1 & EJ1 & ES1).
    clear E. mstep H as sid2.
    (* the pre-emptor still waits in node j *)
    assert (HW1 : Waits s1 j c).
    { destruct HW as ((ndc & Hnc & Hinc) & xc & Hxc & Hxs). split.
      - apply (VJ_at s1 s4 j c (eq_sym EJ1)). apply (VJ_at s4 s3 j c (eq_sym EJ4)). apply (at_node_nodes s2 s3); [exact En3|].
        apply (at_node_nodes s0 s2); [exact En2|]. apply (at_node_nodes s s0); [exact En0|]. exists ndc. auto.
      - assert (Hc3 : find_ind c (inds s3) = Some xc).
        { rewrite Ei3, find_put_other by (change (i_id v3) with (i_id vx); congruence). rewrite Ei2, find_put_other by (change (i_id v2) with (i_id vx); congruence).
          rewrite Ei0, find_put_other by (change (i_id v1) with (i_id vx); congruence). exact Hxc. }
        assert (Hc4 : find_ind c (inds s4) = Some xc) by (rewrite Hfo4 by congruence; exact Hc3).
        destruct (rec_VJS s4 s1 c xc EJ1 ES1 Hc4) as (xc1 & Hxc1 & _ & PS1). exists xc1. split; [exact Hxc1|].
        unfold fiS in PS1. injection PS1 as PS1 _ _. congruence. }
    destruct (srv_start_preemptor cf [] j c sid2 s1 s' (St_Ctx _ _ St1) (proj2 St1) HW1 H) as (_ & S5 & EJ5 & _).
    split; [eapply Jst_VJ; [exact EJ5|exact (proj1 St1)]|exact S5].
  Qed.

  (* ---------- Node.accept: the customer in flight lands in node j; its arrival date there is the clock ---------- *)
  Lemma accept_St f j i s s' : St [i] s -> NoEntry s i -> NoOwner cf i s ->
    (forall x, find_ind i (inds s) = Some x ->
       lastok j (Some (now s)) (last_of i (h ++ log s)) /\ i_nrec x = zlen (recs_of i (h ++ log s)) /\
       (recs_of i (h ++ log s) = [] -> an i = Some j)) ->
    accept cf (S f) j i s = Ok (tt, s') -> St [] s'.
  Proof.
    intros HSt HN HO Hgood H. rewrite accept_S in H. unfold accept_body in H.
    mstep H as x. mstep H as nd. destruct (Hgood x Hf) as (Hlast & Hnrec & Han). clear Hgood.
    pose proof (find_ind_id _ _ _ Hf) as Hidx. destruct HSt as [HJ HS]. pose proof (WFx2_Idx _ _ (proj1 HJ)) as HI. pose proof (HI _ _ Hn) as Hidn.
    (* the record is stamped with the node *)
    mstep H as u1. destruct (put_ind_facts _ _ _ _ E) as (Ei1 & En1 & Ea1 & El1 & Et1 & Ee1 & Een1).
    match type of E with put_ind ?x' _ = _ => set (x1 := x') in * end.
    assert (J1 : Jst an h [i] s0) by (apply (Jst_put_away an h [i] s s0 i x x1 HJ (or_introl eq_refl) HN Hf Hidx Ei1 En1 Ee1 Een1 Ea1 El1)).
    assert (S1 : SrvInv cf [] s0).
    { apply (SrvInv_put_ind cf [i] [] s s0 i x x1 HS Hf Hidx En1 Ei1).
      - intros y Hy [Hin|[]]. congruence.
      - intros y [].
      - exact (NotInt_flight cf None None [i] s i (proj2 HS) (or_introl eq_refl)).
      - intros j0 n0 sv A1 A2 A3 A4. exfalso. exact (HO j0 n0 sv A1 A2 A3 A4).
      - intros _ Hb. discriminate Hb.
      - intros _. reflexivity. }
    clear E.
    (* it joins the queue of its priority class *)
    mstep H as qs. destruct (nthZ (n_queues nd) (i_prio x)) as [q|] eqn:Eq; [injection Hl as Hqs|discriminate Hl].
    mstep H as u2. match type of E with put_node ?n _ = _ => set (nd1 := n) in * end.
    assert (Hn0 : nodeZ s0 j = Some nd) by (rewrite (nodeZ_same s s0 j En1); exact Hn).
    assert (W2 : Conserve2.WFx2 [] s1).
    { assert (Hok : Conserve2.okn (Conserve2.shp s0) nd) by (apply (Conserve2.get_node_okn j); [exact (Conserve2.WFx2_idx _ _ (proj1 J1))|exact Hn0]).
      apply (Conserve2.trK_put_node_add (fun sh => Conserve2.okn sh nd) [] i nd1) with (s := s0) (a := tt); [|exact Hok|exact (proj1 J1)|exact E].
      intros sh Hsh. exists nd, (i_prio x), q. split; [exact Hsh|]. split; [exact Eq|]. split; [reflexivity|]. split; [reflexivity|]. cbn. symmetry. exact Hqs. }
    destruct (put_node_facts _ _ _ _ E) as (Es1 & Ei2 & Ea2 & El2 & Et2 & Ee2 & Een2).
    assert (En2 : nodes s1 = updZ (nodes s0) (n_id nd1 - 1) nd1) by (rewrite Es1; reflexivity).
    assert (Hn0' : nodeZ s0 (n_id nd1) = Some nd) by (change (n_id nd1) with (n_id nd); rewrite Hidn; exact Hn0).
    assert (HZ : forall k, nodeZ s1 k = if k =? j then Some nd1 else nodeZ s0 k).
    { intros k. rewrite (nodeZ_upd s0 s1 nd1 nd k En2 Hn0'). change (n_id nd1) with (n_id nd). rewrite Hidn. reflexivity. }
    clear E Es1.
    (* the arrival date *)
    mstep H as t0. mstep H as u3. destruct (upd_ind_spec _ _ _ _ _ E) as (xr & Hxr & Ei3 & En3).
    assert (xr = x1) by (rewrite Ei2, Ei1 in Hxr; rewrite <- Hidx in Hxr at 1; change (i_id x) with (i_id x1) in Hxr; rewrite find_put_same in Hxr; congruence). subst xr.
    set (x3 := x1 <| i_arr := Some (now s1) |>) in *.
    assert (EG3 : fgJ s2 = fgJ s1 /\ now s2 = now s1 /\ log s2 = log s1 /\ exit_ids s2 = exit_ids s1 /\ exit_n s2 = exit_n s1 /\ arr s2 = arr s1).
    { unfold upd_ind in E. mstep E as xx. destruct (put_ind_facts _ _ _ _ E) as (_ & _ & Q1 & Q2 & Q3 & Q4 & Q5). unfold fgJ. rewrite Q1, Q2, Q3, Q4, Q5. auto 6. }
    destruct EG3 as (_ & Et3 & El3 & Ee3 & Een3 & Ea3). clear E.
    assert (Hf3 : find_ind i (inds s2) = Some x3) by (rewrite Ei3; rewrite <- Hidx at 1; change (i_id x) with (i_id x3); apply find_put_same).
    assert (Hfo : forall y, y <> i -> find_ind y (inds s2) = find_ind y (inds s)).
    { intros y Hy. rewrite Ei3, Ei2, Ei1. rewrite find_put_other by (change (i_id x3) with (i_id x); congruence).
      rewrite find_put_other by (change (i_id x1) with (i_id x); congruence). reflexivity. }
    assert (HZ2 : forall k, nodeZ s2 k = if k =? j then Some nd1 else nodeZ s k).
    { intros k. rewrite (nodeZ_same s1 s2 k En3), HZ. destruct (k =? j); [reflexivity|apply nodeZ_same; exact En1]. }
    destruct (Jst_away an h [i] s i HJ (or_introl eq_refl)) as [Aw1 Aw2].
    assert (Hnow : now s2 = now s) by congruence. assert (Hlog : log s2 = log s) by congruence.
    assert (J3 : Jst an h [] s2).
    { destruct HJ as (A & B & C). split; [|split].
      - eapply Conserve2.WFx2_shape; [|exact W2]. unfold Conserve2.shp. rewrite En3, Ee3, Een3, Ea3, Ei3. f_equal.
        apply Conserve2.put_ind_l_ids_in. change (i_id x3) with (i_id x). rewrite Hidx. rewrite Ei2, Ei1.
        apply Conserve2.find_ind_In with (x := x1). rewrite <- Hidx at 1. change (i_id x) with (i_id x1). apply find_put_same.
      - unfold JI in *. rewrite Hlog. apply (JH_land an _ s s2 i j x3 B (conj Aw1 Aw2)).
        + intros k y (n & Hnn & Hin). rewrite HZ2 in Hnn. destruct (Z.eqb_spec k j) as [->|Hne].
          * injection Hnn as <-. unfold all_individuals, nd1 in Hin. cbn in Hin. rewrite <- Hqs in Hin.
            destruct (Conserve2.nthZ_nat _ _ _ Eq) as (kp & Hkp & Hqk). rewrite Hkp, Conserve2.updZ_nat in Hin.
            eapply Permutation_in in Hin; [|apply (Conserve2.concat_upd_add (n_queues nd) kp q (q ++ [i]) i Hqk); rewrite Permutation_app_comm; reflexivity].
            destruct Hin as [<-|Hin]; [left; auto|right; exists nd; auto].
          * right. exists n. auto.
        + intros y Hy. rewrite (Hfo y Hy). reflexivity.
        + exact Hf3.
        + split; [reflexivity|]. split; [cbn; rewrite Et2, Et1; exact Hlast|]. split; [exact Hnrec|exact Han].
        + congruence.
        + rewrite Ea3, Ea2, Ea1. lia.
      - destruct C as [C1 C2]. constructor.
        + intros d fr y (n & Hnn & Hin). rewrite HZ2 in Hnn.
          assert (He : entry s d fr y) by (destruct (Z.eqb_spec d j) as [->|Hne]; [injection Hnn as <-; exists nd; auto|exists n; auto]).
          destruct (C1 d fr y He) as (xy & Hxy & P). exists xy. rewrite Hfo; [auto|]. intros ->. exact (HN d fr He).
        + intros d n Hnn. rewrite HZ2 in Hnn. destruct (Z.eqb_spec d j) as [->|Hne]; [injection Hnn as <-; exact (C2 j nd Hn)|exact (C2 d n Hnn)]. }
    assert (S3 : SrvInv cf [] s2).
    { assert (ES : VS s2 = VS s0).
      { unfold VW. f_equal.
        - rewrite En3, En2. destruct (Conserve2.nthZ_nat _ _ _ Hn0') as (kk & Hkk & Hnk). rewrite Hkk, Conserve2.updZ_nat, Conserve2.upd_map.
          apply Conserve2.upd_same. rewrite nth_error_map, Hnk. reflexivity.
        - rewrite Ei3, Ei2. rewrite (map_iv_put fiS). apply aput_same. cbn [fst snd iv]. rewrite (afind_iv fiS).
          change (i_id x3) with (i_id x1). rewrite Ei1, find_put_same. reflexivity. }
      exact (SrvInv_VS cf [] s0 s2 ES S1). }
    clear J1 S1 HJ HS.
    (* reneging date, class-change date: nothing either view sees *)
    assert (HC3 : Ctx [] s2) by (eapply Jst_Ctx; eauto).
    mstep H as nc. bstep H HC3 S3 as ES4 EJ4. bstep H HC3 S3 as ES5 EJ5.
    mstep H as nd2. mstep H as cand.
    assert (Hc6 : Ctx [] s5 /\ SrvInv cf [] s5 /\ VJ s5 = VJ s4 /\ (nd_inf nd2 = false -> forall c, cand = Some c -> Waits s5 j c)).
    { destruct (nd_inf nd2).
      - apply ret_spec in E as [_ ->]. split; [exact HC3|]. split; [exact S3|]. split; [reflexivity|]. intros Hx. discriminate Hx.
      - destruct (carryB cf [] _ s4 _ s5 (kb_choose_next_customer cf j) HC3 S3 E) as (A1 & A2 & A3 & A4).
        split; [exact A1|]. split; [exact A2|]. split; [exact A4|]. intros _ c ->. destruct (cnc_spec cf j c s4 s5 E) as (B1 & B2 & B3 & B4).
        apply (Waits_same s4 s5 j c B3 B4). split; assumption. }
    destruct Hc6 as (HC6 & S6 & EJ6 & HW6). clear E HC3 S3.
    assert (EJ26 : VJ s5 = VJ s2) by congruence.
    assert (Hend : forall s6, VJ s6 = VJ s5 -> SrvInv cf [] s6 -> St [] s6).
    { intros s6 EJ HS6. assert (EJ' : VJ s6 = VJ s2) by congruence. split; [eapply Jst_VJ; eauto|exact HS6]. }
    destruct cand as [c|]; [|apply ret_spec in H as [_ ->]; apply Hend; [reflexivity|exact S6]].
    destruct (nd_inf nd2) eqn:Einf.
    - destruct (srv_start_fresh cf [] j c None true s5 s' HC6 S6 ltac:(intros Hx; exfalso; apply Hx; reflexivity) H) as (_ & HS7 & EJ7 & _). apply Hend; assumption.
    - mstep H as cx. destruct (find_free_server_for (nc_spf nc) (i_cls cx) (n_servers nd2)) as [sv|].
      + destruct (srv_start_fresh cf [] j c (Some (sv_id sv)) true s5 s' HC6 S6 ltac:(intros _; exact (HW6 eq_refl c eq_refl)) H) as (_ & HS7 & EJ7 & _). apply Hend; assumption.
      + destruct (0 <? numo (n_c nd2)); [|apply ret_spec in H as [_ ->]; apply Hend; [reflexivity|exact S6]].
        mstep H as v. pose proof (preempt_victim_same j c v s5 s6 E) as Es6. subst s6.
        destruct v as [vi|]; [|apply ret_spec in H as [_ ->]; apply Hend; [reflexivity|exact S6]].
        destruct (preempt_victim_spec j c vi s5 s5 E) as (_ & Hvic & nc1 & Hc1 & Hpre1).
        destruct f as [|f0]; [discriminate H|].
        assert (Hp : preempts cf = true).
        { unfold preempts. apply existsb_exists. exists nc1. split; [eapply nthZ_In; eauto|]. apply negb_true_iff. apply Z.eqb_neq. exact Hpre1. }
        assert (Hslot : slot_of cf j = false).
        { unfold slot_of. rewrite Hc1. pose proof (scope2s_nc _ _ _ Hsc Hc1) as Hs. unfold scope_nc in Hs. apply andb_true_iff in Hs as [_ Hs].
          unfold nc_slotted. destruct (nc_srv nc1); [reflexivity|reflexivity|]. apply andb_true_iff in Hs as [_ Hs]. apply Z.eqb_eq in Hs. contradiction. }
        apply (preempt_St f0 j vi c s5 s' (Hend s5 eq_refl S6) (HW6 eq_refl c eq_refl) Hvic Hslot Hp H).
  Qed.

  (* ---------- the service record ---------- *)
  Lemma wir_spec j i s s' : write_individual_record cf j i s = Ok (tt, s') ->
    exists x r, find_ind i (inds s) = Some x /\ r_id r = i_id x /\ r_type r = 0 /\ r_node r = j /\ r_arr r = i_arr x /\ r_exit r = i_exit x /\ r_dest r = i_dest x /\
      inds s' = put_ind_l (x <| i_nrec := i_nrec x + 1 |>) (inds s) /\
      nodes s' = nodes s /\ exit_ids s' = exit_ids s /\ exit_n s' = exit_n s /\ arr s' = arr s /\ log s' = log s ++ [r] /\ now s' = now s.
  Proof.
    intros H. unfold write_individual_record in H. mstep H as x. mstep H as nd. mstep H as nc. mstep H as sid.
    assert (s0 = s).
    { destruct (nd_inf nd || nc_slotted nc); [apply ret_spec in E as [_ ->]; reflexivity|]. mstep E as sv. apply ret_spec in E as [_ ->]. reflexivity. }
    subst s0. clear E. destruct (log_then_bump _ _ _ _ _ H) as (x0 & Hx0 & A). assert (x0 = x) by congruence. subst x0.
    match type of A with context [log s ++ [?r0]] => exists x, r0 end. split; [exact Hf|]. repeat (split; [reflexivity|]). exact A.
  Qed.

  (* ---------- release (a service is over) and the unblocking cascade ---------- *)
  Lemma core_St : forall f,
    (forall j i d s s', St [] s -> NoEntry s i -> NotInt s i -> (exists x, find_ind i (inds s) = Some x /\ i_dest x = Some d) ->
       release cf f j i d false s = Ok (tt, s') -> St [] s') /\
    (forall j s s', St [] s -> release_blocked_individual cf f j s = Ok (tt, s') -> St [] s').
  Proof.
    induction f as [|f [IHr IHb]]; [split; intros; discriminate|]. split.
    - (* release *)
      intros j i d s s' [HJ HS] HN0 Hni0 (xd & Hxd & Hdest) H. rewrite release_S in H. unfold release_body in H.
      mstep H as t0. mstep H as x. assert (xd = x) by congruence. subst xd. clear Hxd.
      mstep H as nd. mstep H as nc. mstep H as q. rename Hl into Hq. mstep H as q'. rename Hl into Hq'.
      pose proof (WFx2_Idx _ _ (proj1 HJ)) as HI. pose proof (HI _ _ Hn) as Hidn. pose proof (find_ind_id _ _ _ Hf) as Hidx.
      assert (Hiq : In i q) by (apply (Permutation_in _ (Permutation_sym (Conserve2.remove_first_perm _ _ _ Hq'))); left; reflexivity).
      assert (Hat : at_node s j i).
      { exists nd. split; [exact Hn|]. unfold all_individuals. apply in_concat. exists q. split; [|exact Hiq]. eapply nthZ_In; eauto. }
      destruct (j_node _ _ _ (proj1 (proj2 HJ)) j i Hat) as (x0 & Hx0 & Gnode & Glast & Gnrec & Gan).
      assert (x0 = x) by congruence. subst x0. clear Hx0.
      (* the customer leaves its queue *)
      mstep H as u0. match type of E with put_node ?n _ = _ => set (nd1 := n) in * end.
      destruct (put_node_facts _ _ _ _ E) as (Es0 & Ei0 & Ea0 & El0 & Et0 & Ee0 & Een0).
      assert (En0 : nodes s0 = updZ (nodes s) (n_id nd1 - 1) nd1) by (rewrite Es0; reflexivity).
      assert (Hn' : nodeZ s (n_id nd1) = Some nd) by (change (n_id nd1) with (n_id nd); rewrite Hidn; exact Hn).
      assert (HZ0 : forall k, nodeZ s0 k = if k =? j then Some nd1 else nodeZ s k).
      { intros k. rewrite (nodeZ_upd s s0 nd1 nd k En0 Hn'). change (n_id nd1) with (n_id nd). rewrite Hidn. reflexivity. }
      assert (W0 : Conserve2.WFx2 [i] s0).
      { assert (Hok : Conserve2.okn (Conserve2.shp s) nd) by (apply (Conserve2.get_node_okn j); [exact (Conserve2.WFx2_idx _ _ (proj1 HJ))|exact Hn]).
        apply (Conserve2.trK_put_node_rm (fun sh => Conserve2.okn sh nd) [] i nd1) with (s := s) (a := tt); [|exact Hok|exact (proj1 HJ)|exact E].
        intros sh Hsh. exists nd, (i_pprio x), q, q'. repeat split; assumption || reflexivity. }
      assert (Hsub : forall k y, at_node s0 k y -> at_node s k y).
      { intros k y (n & Hnn & Hin). rewrite HZ0 in Hnn. destruct (Z.eqb_spec k j) as [->|Hne]; [|exists n; auto].
        injection Hnn as <-. exists nd. split; [exact Hn|]. unfold all_individuals, nd1 in *. cbn in Hin.
        destruct (Conserve2.nthZ_nat _ _ _ Hq) as (kp & Hkp & Hqk). rewrite Hkp, Conserve2.updZ_nat in Hin.
        apply (Permutation_in _ (Conserve2.concat_upd_rm (n_queues nd) kp q q' i Hqk (Conserve2.remove_first_perm _ _ _ Hq'))). right. exact Hin. }
      assert (J0 : Jst an h [i] s0).
      { destruct HJ as (A & B & C). split; [exact W0|]. split.
        - unfold JI in *. rewrite El0. apply (JH_mono an _ s s0 B Hsub); [intros k y _; rewrite Ei0; reflexivity|exact Ee0|rewrite Ea0; lia].
        - destruct C as [C1 C2]. constructor.
          + intros d0 fr y (n & Hnn & Hin). rewrite HZ0 in Hnn. rewrite Ei0. apply (C1 d0 fr y).
            destruct (Z.eqb_spec d0 j) as [->|Hne]; [injection Hnn as <-; exists nd; auto|exists n; auto].
          + intros d0 n Hnn. rewrite HZ0 in Hnn. destruct (Z.eqb_spec d0 j) as [->|Hne]; [injection Hnn as <-; exact (C2 j nd Hn)|exact (C2 d0 n Hnn)]. }
      assert (S0 : SrvInv cf [i] s0).
      { apply (SrvInv_VS cf [i] s s0 (VS_put_node s s0 nd nd1 Hn' eq_refl eq_refl En0 Ei0)). eapply SrvInv_fl_weaken; [| |exact HS]; [intros y []|intros y [<-|[]]; exact Hni0]. }
      assert (N0 : NoEntry s0 i).
      { intros d0 fr (n & Hnn & Hin). rewrite HZ0 in Hnn. apply (HN0 d0 fr). destruct (Z.eqb_spec d0 j) as [->|Hne]; [injection Hnn as <-; exists nd; auto|exists n; auto]. }
      clear E Es0 HJ HS.
      (* its exit date *)
      mstep H as u1. match type of E with put_ind ?x' _ = _ => set (x1 := x') in * end.
      assert (Hf0 : find_ind (i_id x1) (inds s0) = Some x) by (change (i_id x1) with (i_id x); rewrite Hidx, Ei0; exact Hf).
      destruct (carry_put_ind cf [i] s0 s1 tt x x1 Hf0 eq_refl (Jst_Ctx an h _ _ J0) S0 E) as (_ & S1 & ES1 & EJ1).
      assert (J1 : Jst an h [i] s1) by (eapply Jst_VJ; eauto).
      destruct (put_ind_facts _ _ _ _ E) as (Ei1 & En1 & Ea1 & El1 & Et1 & Ee1 & Een1). clear E.
      assert (Hf1 : find_ind i (inds s1) = Some x1) by (rewrite Ei1; rewrite <- Hidx at 1; change (i_id x) with (i_id x1); apply find_put_same).
      assert (N1 : NoEntry s1 i) by (eapply NoEntry_VJ; eauto).
      (* its record *)
      mstep H as u2. change ((if false then ret tt else write_individual_record cf j i) s1 = Ok (tt, s2)) in E. cbv iota in E.
      destruct (wir_spec j i s1 s2 E) as (xw & r & Hxw & R1 & R2 & R3 & R4 & R5 & R6 & Ei2 & En2 & Ee2 & Een2 & Ea2 & El2 & Et2).
      assert (xw = x1) by congruence. subst xw. clear Hxw.
      set (x2 := x1 <| i_nrec := i_nrec x1 + 1 |>) in *.
      assert (Hrid : r_id r = i) by (rewrite R1; exact Hidx).
      assert (Hlog1 : log s1 = log s) by congruence.
      assert (Hcl : closing r) by (left; exact R2).
      assert (J2 : Jst an h [i] s2).
      { apply (Jst_log_away an h [i] s1 s2 i x1 x2 r J1 (or_introl eq_refl) N1 Hf1 Hidx Hrid); try assumption.
        - rewrite Hlog1. intros r1 Hr1. unfold lastok in Glast. rewrite Hr1 in Glast. split; [left; exact R2|].
          destruct Glast as [(G1 & G2 & G3)|(G1 & G2 & G3)]; [left|right].
          + split; [exact G1|]. split; [rewrite R3; exact G2|rewrite R4; exact G3].
          + split; [exact G1|]. split; [rewrite R3; symmetry; exact G2|rewrite R4; symmetry; exact G3].
        - rewrite Hlog1, R3. exact Gan. }
      assert (S2 : SrvInv cf [i] s2) by (exact (proj1 (SrvInv_keepS cf [i] _ s1 tt s2 (ks_write_individual_record cf j i) (WFx2_Idx _ _ (proj1 J1)) S1 E))).
      assert (N2 : NoEntry s2 i) by (intros d0 fr He; apply (entry_nodes s1 s2) in He; [exact (N1 d0 fr He)|exact En2]).
      assert (Hf2 : find_ind i (inds s2) = Some x2) by (rewrite Ei2; rewrite <- Hidx at 1; change (i_id x) with (i_id x2); apply find_put_same).
      assert (Hrecs2 : recs_of i (h ++ log s2) = recs_of i (h ++ log s) ++ [r]) by (rewrite El2, Hlog1, app_assoc; apply recs_of_snoc_same; exact Hrid).
      assert (Hlast2 : last_of i (h ++ log s2) = Some r) by (unfold last_of; rewrite Hrecs2; apply last_opt_snoc).
      assert (Hnow2 : now s2 = now s) by congruence.
      clear E J1 S1 N1 J0 S0 N0.
      (* its server is freed *)
      mstep H as freed.
      assert (F3 : Jst an h [i] s3 /\ SrvInv cf [i] s3 /\ NoOwner cf i s3 /\ VJ s3 = VJ s2).
      { destruct (negb (nd_inf nd) && negb (nc_slotted nc)) eqn:Ec.
        - mstep E as xr. assert (xr = x2) by congruence. subst xr. mstep E as sid. mstep E as u3. apply ret_spec in E as [_ ->].
          destruct (srv_detatch cf [i] j sid i s2 s4 x2 (WFx2_Idx _ _ (proj1 J2)) S2 (or_introl (or_introl eq_refl)) Hf2 Gnode Hl (NotInt_flight cf None None [i] s2 i (proj2 S2) (or_introl eq_refl)) E0) as (A1 & A2 & _ & _).
          destruct (carryJ [i] _ s2 _ s4 (kv_T _ _ _ _ _ (kj_detatch_server j sid i)) (Jst_Ctx an h _ _ J2) E0) as (_ & EJ).
          split; [eapply Jst_VJ; eauto|]. auto.
        - apply ret_spec in E as [_ ->]. split; [exact J2|]. split; [exact S2|]. split; [|reflexivity].
          intros j0 n0 sv A1 A2 A3 A4. destruct (si_own _ _ _ S2 j0 n0 sv i A1 A2 A3 A4) as (y & Hy & _ & P2 & _).
          assert (y = x2) by congruence. subst y. assert (j0 = j) by (change (i_node x2) with (i_node x) in P2; congruence). subst j0.
          assert (n0 = nd1) by (rewrite (nodeZ_same s1 s2 j En2), (nodeZ_same s0 s1 j En1), HZ0, Z.eqb_refl in A1; congruence). subst n0.
          apply andb_false_iff in Ec as [Ec|Ec]; apply negb_false_iff in Ec.
          + pose proof (sn_inf _ _ _ (si_n _ _ _ S2 j nd1 A1) Ec) as Hnil. rewrite Hnil in A3. destruct A3.
          + unfold slot_of in A2. rewrite Hc in A2. congruence. }
      destruct F3 as (J3 & S3 & O3 & EJ3). clear E.
      assert (Hf3 : forall y, find_ind i (inds s3) = Some y -> i_nrec y = i_nrec x + 1).
      { intros y Hy. pose proof (VJ_find s2 s3 i EJ3) as Hv. rewrite Hy, Hf2 in Hv. cbn in Hv. unfold fiJ in Hv. injection Hv as _ _ Hv _ _. rewrite Hv. reflexivity. }
      assert (N3 : NoEntry s3 i) by (eapply NoEntry_VJ; eauto).
      (* a slotted service has no server object *)
      mstep H as u4.
      assert (F4 : Jst an h [i] s4 /\ SrvInv cf [i] s4 /\ NoOwner cf i s4 /\ VJ s4 = VJ s3).
      { destruct (nc_slotted nc); [|apply ret_spec in E as [_ ->]; auto].
        destruct (upd_ind_full _ _ _ _ _ E) as (y & Hy & Ei4 & En4 & _).
        assert (Hid4 : i_id (y <| i_server := None |>) = i) by (exact (find_ind_id _ _ _ Hy)).
        destruct (carryJ_put_ind [i] s3 s4 tt y (y <| i_server := None |>) ltac:(rewrite Hid4; exact Hy) eq_refl (Jst_Ctx an h _ _ J3)) as (_ & EJ4).
        { unfold upd_ind in E. mstep E as yy. assert (yy = y) by congruence. subst yy. exact E. }
        split; [eapply Jst_VJ; eauto|]. split; [|split; [exact (NoOwner_nodes cf i s3 s4 En4 O3)|exact EJ4]].
        apply (SrvInv_put_ind cf [i] [i] s3 s4 i y (y <| i_server := None |>) S3 Hy Hid4 En4 Ei4); [auto|auto|exact (NotInt_flight cf None None [i] s3 i (proj2 S3) (or_introl eq_refl))| | |].
        - intros j0 n0 sv A1 A2 A3 A4. exfalso. exact (O3 j0 n0 sv A1 A2 A3 A4).
        - intros Hx. exfalso. apply Hx. left. reflexivity.
        - intros Hp. exact (si_nb _ _ _ S3 Hp i y Hy). }
      destruct F4 as (J4 & S4 & O4 & EJ4). clear E J3 S3 O3.
      assert (N4 : NoEntry s4 i) by (eapply NoEntry_VJ; eauto).
      (* its attributes are reset *)
      mstep H as u5. unfold reset_individual_attributes in E.
      destruct (upd_ind_full _ _ _ _ _ E) as (y4 & Hy4 & Ei5 & En5 & Ea5 & El5 & Et5 & Ee5 & Een5).
      match type of Ei5 with _ = put_ind_l ?x' _ => set (y5 := x') in * end.
      assert (Hid5 : i_id y5 = i) by (exact (find_ind_id _ _ _ Hy4)).
      assert (J5 : Jst an h [i] s5) by (apply (Jst_put_away an h [i] s4 s5 i y4 y5 J4 (or_introl eq_refl) N4 Hy4 Hid5 Ei5 En5 Ee5 Een5 Ea5 El5)).
      assert (S5 : SrvInv cf [i] s5).
      { apply (SrvInv_VS cf [i] s4 s5); [|exact S4]. apply (VS_put_ind s4 s5 y4 y5); [rewrite Hid5; exact Hy4|reflexivity|exact Ei5|exact En5]. }
      assert (O5 : NoOwner cf i s5) by (exact (NoOwner_nodes cf i s4 s5 En5 O4)).
      assert (N5 : NoEntry s5 i) by (intros d0 fr He; apply (entry_nodes s4 s5) in He; [exact (N4 d0 fr He)|exact En5]).
      assert (Hf5 : forall y, find_ind i (inds s5) = Some y -> i_nrec y = i_nrec x + 1).
      { intros y Hy. rewrite Ei5 in Hy. rewrite <- Hid5 in Hy at 1. rewrite find_put_same in Hy. injection Hy as <-.
        change (i_nrec y5) with (i_nrec y4). pose proof (VJ_find s3 s4 i EJ4) as Hv. rewrite Hy4 in Hv.
        destruct (find_ind i (inds s3)) as [y3|] eqn:E3; [|discriminate Hv]. cbn in Hv. unfold fiJ in Hv. injection Hv as _ _ Hv _ _.
        rewrite Hv. apply Hf3. reflexivity. }
      clear E J4 S4 O4 N4.
      (* the freed server takes the next customer *)
      mstep H as u6. change ((if false then ret tt else begin_service_if_possible_release cf j freed) s5 = Ok (tt, s6)) in E. cbv iota in E.
      destruct (srv_bsipr cf [i] j freed s5 s6 (Jst_Ctx an h _ _ J5) S5 E) as (_ & S6 & EJ6 & HO6).
      assert (J6 : Jst an h [i] s6) by (eapply Jst_VJ; eauto).
      assert (O6 : NoOwner cf i s6) by (apply HO6; [exact (proj1 (Jst_away an h [i] s5 i J5 (or_introl eq_refl)))|exact O5]).
      assert (N6 : NoEntry s6 i) by (eapply NoEntry_VJ; eauto).
      assert (EJ26 : VJ s6 = VJ s5) by exact EJ6.
      assert (Hglob6 : now s6 = now s /\ log s6 = log s2).
      { destruct (VJ_glob _ _ EJ6) as (_ & _ & _ & Q4 & Q5). destruct (VJ_glob _ _ EJ4) as (_ & _ & _ & P4 & P5). destruct (VJ_glob _ _ EJ3) as (_ & _ & _ & R4' & R5').
        split; congruence. }
      destruct Hglob6 as [Hnow6 Hlog6].
      assert (Hf6 : forall y, find_ind i (inds s6) = Some y -> i_nrec y = i_nrec x + 1).
      { intros y Hy. pose proof (VJ_find s5 s6 i EJ6) as Hv. rewrite Hy in Hv. destruct (find_ind i (inds s5)) as [y0|] eqn:E5; [|discriminate Hv].
        cbn in Hv. unfold fiJ in Hv. injection Hv as _ _ Hv _ _. rewrite Hv. apply Hf5. reflexivity. }
      clear E J5 S5 O5 N5.
      (* the customer lands *)
      mstep H as u7.
      assert (L7 : St [] s7).
      { destruct (d =? -1) eqn:Ed.
        - apply Z.eqb_eq in Ed. destruct (exit_accept_St i true s6 s7 (conj J6 S6) N6 O6) as (A1 & _); [|exact E|exact A1].
          rewrite Hlog6. exists r. split; [exact Hlast2|]. left. split; [exact Hcl|]. rewrite R6. cbn. rewrite Hdest, Ed. reflexivity.
        - destruct f as [|f0]; [discriminate E|]. apply (accept_St f0 d i s6 s7 (conj J6 S6) N6 O6); [|exact E].
          intros y Hy. rewrite Hlog6, Hlast2, Hrecs2. split; [|split].
          + left. split; [exact Hcl|]. split; [rewrite R6; exact Hdest|]. rewrite R5, Hnow6. reflexivity.
          + rewrite (Hf6 y Hy), Gnrec. unfold zlen. rewrite app_length, Nat2Z.inj_add. reflexivity.
          + intros E0. destruct (recs_of i (h ++ log s)); discriminate E0. }
      (* the node lets a blocked customer in *)
      change ((if false then ret tt else release_blocked_individual cf f j) s7 = Ok (tt, s')) in H. cbv iota in H.
      exact (IHb j s7 s' L7 H).
    - (* release_blocked_individual *)
      intros j s s' [HJ HS] H. rewrite rbi_S in H. unfold rbi_body in H.
      mstep H as nd. mstep H as nc.
      match type of H with (if ?c then _ else _) _ = _ => destruct c end; [|apply ret_spec in H as [_ ->]; split; assumption].
      destruct (n_bq nd) as [|[from y] rest] eqn:Ebq; [discriminate H|].
      mstep H as fnd. mstep H as u0.
      assert (s0 = s) by (destruct (memZ y (all_individuals fnd)); [apply ret_spec in E as [_ ->]; reflexivity|discriminate E]). subst s0. clear E.
      pose proof (WFx2_Idx _ _ (proj1 HJ)) as HI. pose proof (HI _ _ Hn) as Hidn.
      destruct HJ as (A & B & C).
      assert (He : entry s j from y) by (exists nd; rewrite Ebq; split; [exact Hn|left; reflexivity]).
      destruct (l_ent _ C j from y He) as (xy & Hxy & Hdy & Hby).
      (* the entry is taken out of the blocked queue *)
      mstep H as u1. match type of E with put_node ?n _ = _ => set (nd1 := n) in * end.
      destruct (put_node_facts _ _ _ _ E) as (Es0 & Ei0 & Ea0 & El0 & Et0 & Ee0 & Een0).
      assert (En0 : nodes s0 = updZ (nodes s) (n_id nd1 - 1) nd1) by (rewrite Es0; reflexivity).
      assert (Hn' : nodeZ s (n_id nd1) = Some nd) by (change (n_id nd1) with (n_id nd); rewrite Hidn; exact Hn).
      assert (HZ0 : forall k, nodeZ s0 k = if k =? j then Some nd1 else nodeZ s k).
      { intros k. rewrite (nodeZ_upd s s0 nd1 nd k En0 Hn'). change (n_id nd1) with (n_id nd). rewrite Hidn. reflexivity. }
      assert (Hatn : forall k z, at_node s0 k z <-> at_node s k z).
      { intros k z. unfold at_node. rewrite HZ0. destruct (Z.eqb_spec k j) as [->|Hne]; [|reflexivity]. split.
        - intros (n & Hnn & Hin). injection Hnn as <-. exists nd. auto.
        - intros (n & Hnn & Hin). assert (n = nd) by congruence. subst n. exists nd1. auto. }
      assert (J0 : Jst an h [] s0).
      { split; [|split].
        - eapply Conserve2.WFx2_shape; [|exact A]. unfold Conserve2.shp. rewrite Ee0, Een0, Ea0, Ei0. f_equal.
          rewrite En0. unfold nodeZ in Hn'. destruct (Conserve2.nthZ_nat _ _ _ Hn') as (kk & Hkk & Hnk). rewrite Hkk, Conserve2.updZ_nat, Conserve2.upd_map.
          apply Conserve2.upd_same. rewrite nth_error_map, Hnk. reflexivity.
        - unfold JI in *. rewrite El0. apply (JH_mono an _ s s0 B); [intros k z; apply Hatn|intros k z _; rewrite Ei0; reflexivity|exact Ee0|rewrite Ea0; lia].
        - constructor.
          + intros d0 fr z (n & Hnn & Hin). rewrite HZ0 in Hnn. rewrite Ei0. apply (l_ent _ C d0 fr z).
            destruct (Z.eqb_spec d0 j) as [->|Hne]; [injection Hnn as <-; exists nd; split; [exact Hn|rewrite Ebq; right; exact Hin]|exists n; auto].
          + intros d0 n Hnn. rewrite HZ0 in Hnn. destruct (Z.eqb_spec d0 j) as [->|Hne]; [|exact (l_nd _ C d0 n Hnn)].
            injection Hnn as <-. cbn. pose proof (l_nd _ C j nd Hn) as Hnd. rewrite Ebq in Hnd. cbn in Hnd. apply NoDup_cons_iff in Hnd as [_ Hnd]. exact Hnd. }
      assert (S0 : SrvInv cf [] s0) by (apply (SrvInv_VS cf [] s s0 (VS_put_node s s0 nd nd1 Hn' eq_refl eq_refl En0 Ei0)); exact HS).
      assert (N0 : NoEntry s0 y).
      { intros d0 fr (n & Hnn & Hin). rewrite HZ0 in Hnn. destruct (Z.eqb_spec d0 j) as [->|Hne].
        - injection Hnn as <-. cbn in Hin. pose proof (l_nd _ C j nd Hn) as Hnd. rewrite Ebq in Hnd. cbn in Hnd.
          apply NoDup_cons_iff in Hnd as [Hnd _]. apply Hnd. apply in_map_iff. exists (fr, y). auto.
        - destruct (l_ent _ C d0 fr y (ex_intro _ n (conj Hnn Hin))) as (xy' & Hxy' & Hdy' & _). congruence. }
      assert (Hxy0 : find_ind y (inds s0) = Some xy) by (rewrite Ei0; exact Hxy).
      clear E Es0 A B C HS.
      (* an interrupted customer gets its service dates back *)
      mstep H as yx. assert (yx = xy) by congruence. subst yx. mstep H as u2.
      assert (Ny0 : NotInt s0 y) by (exact (NotInt_blocked cf None None [] s0 y xy (proj2 S0) Hxy0 Hby)).
      assert (F1 : St [] s1 /\ NoEntry s1 y /\ NotInt s1 y /\ exists x1, find_ind y (inds s1) = Some x1 /\ i_dest x1 = Some j).
      { destruct (i_interrupted xy).
        - exfalso. mstep E as os. mstep E as ot. mstep E as u3.
          destruct (put_ind_facts _ _ _ _ E0) as (Ei2 & En2 & _). clear E0.
          mstep E as fnd2. match goal with Hx : nodeZ s2 from = Some fnd2 |- _ => rename Hx into Hnf2 end. mstep E as l'.
          rewrite (nodeZ_same s0 s2 from En2) in Hnf2.
          apply (Ny0 from fnd2 Hnf2). eapply Permutation_in; [symmetry; exact (Conserve2.remove_first_perm _ _ _ Hl1)|left; reflexivity].
        - apply ret_spec in E as [_ ->]. split; [split; assumption|]. split; [exact N0|]. split; [exact Ny0|]. exists xy. auto. }
      destruct F1 as (St1 & N1 & Ny1 & Hd1).
      exact (IHr from y j s1 s' St1 N1 Ny1 Hd1 H).
  Qed.

  Lemma release_St f j i d s s' : St [] s -> NoEntry s i -> NotInt s i -> (exists x, find_ind i (inds s) = Some x /\ i_dest x = Some d) ->
    release cf f j i d false s = Ok (tt, s') -> St [] s'.
  Proof. apply core_St. Qed.
  Lemma rbi_St f j s s' : St [] s -> release_blocked_individual cf f j s = Ok (tt, s') -> St [] s'.
  Proof. apply core_St. Qed.
  Lemma accept_St' f j i s s' : St [i] s -> NoEntry s i -> NoOwner cf i s ->
    (forall x, find_ind i (inds s) = Some x ->
       lastok j (Some (now s)) (last_of i (h ++ log s)) /\ i_nrec x = zlen (recs_of i (h ++ log s)) /\
       (recs_of i (h ++ log s) = [] -> an i = Some j)) ->
    accept cf f j i s = Ok (tt, s') -> St [] s'.
  Proof. intros A B C D H. destruct f as [|f]; [discriminate H|]. exact (accept_St f j i s s' A B C D H). Qed.

  (* the record of a customer is rewritten without touching where it is, when it came and how many records it has;
     the customer is in no blocked queue *)
  Lemma Jst_put_same fl s s' i y y' : Jst an h fl s -> NoEntry s i -> find_ind i (inds s) = Some y -> i_id y' = i -> jv3 y' = jv3 y ->
    inds s' = put_ind_l y' (inds s) -> nodes s' = nodes s -> exit_ids s' = exit_ids s -> exit_n s' = exit_n s -> arr s' = arr s -> log s' = log s ->
    Jst an h fl s'.
  Proof.
    intros (A & B & C) HN Hf Hid Hv Ei En Ee Een Ea El.
    assert (Hat : forall k z, at_node s' k z <-> at_node s k z) by (intros k z; apply at_node_nodes; exact En).
    split; [|split].
    - eapply Conserve2.WFx2_shape; [|exact A]. unfold Conserve2.shp. rewrite En, Ee, Een, Ea, Ei. f_equal.
      apply Conserve2.put_ind_l_ids_in. rewrite Hid. eapply Conserve2.find_ind_In; eauto.
    - unfold JI in *. rewrite El. apply (JH_mono an _ s s' B); [intros k z; apply Hat| |exact Ee|rewrite Ea; lia].
      intros k z _. rewrite Ei. destruct (Z.eq_dec z i) as [->|Hne].
      + rewrite <- Hid at 1. rewrite find_put_same, Hf. cbn. rewrite Hv. reflexivity.
      + rewrite find_put_other by congruence. reflexivity.
    - destruct C as [C1 C2]. constructor.
      + intros d f z He. apply (entry_nodes s s') in He; [|exact En]. destruct (C1 d f z He) as (x & Hx & P).
        assert (Hne : z <> i_id y') by (rewrite Hid; intros ->; exact (HN d f He)). exists x. rewrite Ei, find_put_other by exact Hne. auto.
      + intros d nd Hn. rewrite (nodeZ_same s s' d En) in Hn. exact (C2 d nd Hn).
  Qed.

  Lemma set_next_end_post j sid d s s' : Idx s -> SrvInv cf [] s -> set_next_end j sid d s = Ok (tt, s') ->
    forall nd' sv, nodeZ s' j = Some nd' -> In sv (n_servers nd') -> sv_id sv = sid -> sv_next_end sv = d.
  Proof.
    intros HI HS H nd' sv Hn' Hin Hid. unfold set_next_end in H. destruct (upd_server_spec _ _ _ _ _ _ H) as (nd & Hn & Ei & Hm).
    pose proof (HI _ _ Hn) as Hidn.
    destruct (find_server sid (n_servers nd)) as [sv0|] eqn:Efs.
    - destruct (find_server_spec _ _ _ Efs) as [Hsin Hsid]. set (ndn := nd <| n_servers := put_server_l (sv0 <| sv_next_end := d |>) (n_servers nd) |>) in *.
      assert (Hn0 : nodeZ s (n_id ndn) = Some nd) by (change (n_id ndn) with (n_id nd); rewrite Hidn; exact Hn).
      rewrite (nodeZ_upd s s' ndn nd j Hm Hn0) in Hn'. change (n_id ndn) with (n_id nd) in Hn'. rewrite Hidn, Z.eqb_refl in Hn'. injection Hn' as <-.
      cbn in Hin. apply (put_server_in _ _ _ (sn_nd _ _ _ (si_n _ _ _ HS j nd Hn))) in Hin as [->|[_ Hne]]; [reflexivity|]. exfalso. apply Hne. cbn. congruence.
    - exfalso. rewrite (nodeZ_same s s' j Hm) in Hn'. assert (nd' = nd) by congruence. subst nd'. exact (find_server_some _ _ _ Hin Hid Efs).
  Qed.

  Lemma has_space_pre d s b s' : anypre cf = true -> has_space cf d s = Ok (b, s') -> b = true.
  Proof.
    intros Hp H. unfold has_space in H. destruct (d =? -1); [apply ret_spec in H as [-> _]; reflexivity|].
    mstep H as dn. mstep H as dc. apply ret_spec in H as [-> _]. rewrite (scope2s_anypre cf Hsc Hp d dc Hc). reflexivity.
  Qed.

  (* ---------- finish_service ---------- *)
  Lemma finish_service_St j s s' : St [] s ->
    (forall nd i x, nodeZ s j = Some nd -> In i (n_next_inds nd) -> find_ind i (inds s) = Some x -> i_blocked x = false /\ i_node x = Some j /\ NotInt s i) ->
    finish_service cf j s = Ok (tt, s') -> St [] s'.
  Proof.
    intros [HJ HS] Hpick H. unfold finish_service in H. mstep H as nd.
    pose proof (Jst_Ctx an h _ _ HJ) as HC. rename HS into HS0.
    mstep H as i. pose proof (decide_between_spec _ _ _ _ E) as Hi.
    destruct (carryB cf [] _ s _ s0 (kb_decide_between _) HC HS0 E) as (HC1 & HS1 & ES1 & EJ1). clear E.
    bstep H HC1 HS1 as ES2 EJ2. bstep H HC1 HS1 as ES3 EJ3. rename a into d.
    assert (EJ03 : VJ s2 = VJ s) by congruence. assert (ES03 : VS s2 = VS s) by congruence.
    assert (J3 : Jst an h [] s2) by (eapply Jst_VJ; eauto).
    (* the destination is stamped on the customer *)
    mstep H as u0. destruct (upd_ind_full _ _ _ _ _ E) as (y & Hy & Ei4 & En4 & Ea4 & El4 & Et4 & Ee4 & Een4). clear E.
    set (y4 := y <| i_dest := Some d |>) in *. pose proof (find_ind_id _ _ _ Hy) as Hidy.
    assert (Hy0 : exists y0, find_ind i (inds s) = Some y0 /\ fiJ y = fiJ y0 /\ fiS y = fiS y0).
    { destruct (find_ind i (inds s)) as [y0|] eqn:E0.
      - destruct (rec_VJS s s2 i y0 EJ03 ES03 E0) as (y' & Hy' & P1 & P2). assert (y' = y) by congruence. subst y'. eauto.
      - exfalso. pose proof (VJ_find s s2 i EJ03) as Hv. rewrite E0, Hy in Hv. discriminate Hv. }
    destruct Hy0 as (y0 & Hy0 & PJ & PS). destruct (Hpick nd i y0 Hn Hi Hy0) as (Hb0 & Hnode0 & Hni0).
    assert (Hni3 : NotInt s3 i) by (apply (NotInt_nodes s2 s3 i En4); apply (NotInt_VS s s2 i ES03); exact Hni0).
    assert (Hb : i_blocked y = false) by (unfold fiS in PS; injection PS as _ _ PS; congruence).
    assert (Hnode : i_node y = Some j) by (unfold fiS in PS; injection PS as _ PS _; congruence).
    assert (N3 : NoEntry s2 i) by (eapply unblocked_NoEntry; [exact (proj2 (proj2 J3))|exact Hy|exact Hb]).
    assert (J4 : Jst an h [] s3) by (apply (Jst_put_same [] s2 s3 i y y4 J3 N3 Hy Hidy eq_refl Ei4 En4 Ee4 Een4 Ea4 El4)).
    assert (S4 : SrvInv cf [] s3) by (apply (SrvInv_VS cf [] s2 s3); [apply (VS_put_ind s2 s3 y y4); [change (i_id y4) with (i_id y); rewrite Hidy; exact Hy|reflexivity|exact Ei4|exact En4]|exact HS1]).
    assert (Hy4 : find_ind i (inds s3) = Some y4) by (rewrite Ei4; rewrite <- Hidy at 1; change (i_id y) with (i_id y4); apply find_put_same).
    assert (N4 : NoEntry s3 i) by (intros d0 fr He; apply (entry_nodes s2 s3) in He; [exact (N3 d0 fr He)|exact En4]).
    clear HC1 HS1 J3 N3.
    (* the server has no end-of-service date any more *)
    mstep H as nc. mstep H as u1.
    assert (Hni4 : NotInt s4 i).
    { apply (NotInt_VN s3 s4 i); [|exact Hni3]. refine (keepN_VN _ s3 tt s4 _ (WFx2_Idx _ _ (proj1 J4)) E). kv using (apply kn_set_next_end). }
    assert (F5 : Jst an h [] s4 /\ SrvInv cf [] s4 /\ VJ s4 = VJ s3 /\ find_ind i (inds s4) = Some y4 /\
                 (forall j0 n0 sv, nodeZ s4 j0 = Some n0 -> slot_of cf j0 = false -> In sv (n_servers n0) -> sv_cust sv = Some i -> sv_next_end sv = None) /\
                 (i_server y4 = None -> exists n0, nodeZ s4 j = Some n0 /\ (nd_inf n0 = true \/ slot_of cf j = true))).
    { destruct (negb (nd_inf nd) && negb (nc_slotted nc)) eqn:Ec.
      - mstep E as xr. assert (xr = y4) by congruence. subst xr. mstep E as sid.
        destruct (srv_set_next_end cf [] j sid None s3 s4 (WFx2_Idx _ _ (proj1 J4)) S4 ltac:(intros Hx; exfalso; apply Hx; reflexivity) E) as (A1 & _).
        destruct (carryJ [] _ s3 _ s4 (kv_T _ _ _ _ _ (kj_set_next_end j sid None)) (Jst_Ctx an h _ _ J4) E) as (_ & EJ).
        assert (Ei5 : inds s4 = inds s3) by (unfold set_next_end in E; destruct (upd_server_spec _ _ _ _ _ _ E) as (? & _ & A & _); exact A).
        split; [eapply Jst_VJ; eauto|]. split; [exact A1|]. split; [exact EJ|]. split; [rewrite Ei5; exact Hy4|]. split.
        + intros j0 n0 sv B1 B2 B3 B4. destruct (si_own _ _ _ A1 j0 n0 sv i B1 B2 B3 B4) as (z & Hz & P1 & P2 & _).
          rewrite Ei5, Hy4 in Hz. injection Hz as <-. assert (j0 = j) by (change (i_node y4) with (i_node y) in P2; congruence). subst j0.
          apply (set_next_end_post j sid None s3 s4 (WFx2_Idx _ _ (proj1 J4)) S4 E n0 sv B1 B3). change (i_server y4) with (i_server y) in *. congruence.
        + intros Hx. change (i_server y4) with (i_server y) in *. congruence.
      - apply ret_spec in E as [_ ->]. split; [exact J4|]. split; [exact S4|]. split; [reflexivity|]. split; [exact Hy4|].
        assert (Hnd3 : exists n3, nodeZ s3 j = Some n3 /\ nd_inf n3 = nd_inf nd).
        { assert (ES : VS s3 = VS s) by (rewrite <- ES03; apply (VS_put_ind s2 s3 y y4); [change (i_id y4) with (i_id y); rewrite Hidy; exact Hy|reflexivity|exact Ei4|exact En4]).
          pose proof (VW_node fnS fiS fgS s s3 j ES) as Hv. rewrite Hn in Hv. destruct (nodeZ s3 j) as [n3|]; [|discriminate Hv].
          cbn in Hv. unfold nv, fnS in Hv. injection Hv as _ _ _ Hv. eauto. }
        destruct Hnd3 as (n3 & Hn3 & Hinf3).
        assert (Hor : nd_inf n3 = true \/ slot_of cf j = true).
        { apply andb_false_iff in Ec as [Ec|Ec]; apply negb_false_iff in Ec; [left; congruence|right; unfold slot_of; rewrite Hc; exact Ec]. }
        split.
        + intros j0 n0 sv B1 B2 B3 B4. exfalso. destruct (si_own _ _ _ S4 j0 n0 sv i B1 B2 B3 B4) as (z & Hz & _ & P2 & _).
          rewrite Hy4 in Hz. injection Hz as <-. assert (j0 = j) by (change (i_node y4) with (i_node y) in P2; congruence). subst j0.
          assert (n0 = n3) by congruence. subst n0. destruct Hor as [Hor|Hor]; [|congruence].
          rewrite (sn_inf _ _ _ (si_n _ _ _ S4 j n3 Hn3) Hor) in B3. destruct B3.
        + intros _. exists n3. auto. }
    destruct F5 as (J5 & S5 & EJ5 & Hy5 & Hown5 & Hblk5). clear E J4 S4.
    assert (N5 : NoEntry s4 i) by (eapply NoEntry_VJ; eauto).
    (* is there room at the destination? *)
    pose proof (Jst_Ctx an h _ _ J5) as HC5. mstep H as space. rename E into Hsp.
    destruct (carryB cf [] _ s4 space s5 (kb_has_space cf d) HC5 S5 Hsp) as (HC5' & S5' & ES6 & EJ6).
    clear HC5 S5. rename HC5' into HC5. rename S5' into S5.
    assert (J6 : Jst an h [] s5) by (eapply Jst_VJ; eauto).
    destruct (rec_VJS s4 s5 i y4 EJ6 ES6 Hy5) as (y6 & Hy6 & PJ6 & PS6).
    assert (N6 : NoEntry s5 i) by (eapply NoEntry_VJ; eauto).
    assert (Hd6 : i_dest y6 = Some d) by (unfold fiJ in PJ6; injection PJ6 as _ _ _ PJ6 _; exact PJ6).
    destruct space.
    - mstep H as fl0. apply (release_St _ j i d s5 s' (conj J6 S5) N6 (NotInt_VS s4 s5 i ES6 Hni4) ltac:(eauto) H).
    - (* blocked *)
      unfold block_individual in H. mstep H as u2.
      destruct (upd_ind_full _ _ _ _ _ E) as (z & Hz & Ei7 & En7 & Ea7 & El7 & Et7 & Ee7 & Een7). clear E.
      assert (z = y6) by congruence. subst z. set (y7 := y6 <| i_blocked := true |>) in *. pose proof (find_ind_id _ _ _ Hy6) as Hid6.
      assert (J7 : Jst an h [] s6) by (apply (Jst_put_same [] s5 s6 i y6 y7 J6 N6 Hy6 Hid6 eq_refl Ei7 En7 Ee7 Een7 Ea7 El7)).
      assert (S7 : SrvInv cf [] s6).
      { apply (SrvInv_put_ind cf [] [] s5 s6 i y6 y7 S5 Hy6 Hid6 En7 Ei7); [auto|auto|exact (NotInt_VS s4 s5 i ES6 Hni4)| | |intros Hp; exfalso; pose proof (has_space_pre d s4 false s5 Hp Hsp); discriminate].
        - intros j0 n0 sv B1 B2 B3 B4. destruct (si_own _ _ _ S5 j0 n0 sv i B1 B2 B3 B4) as (z & Hz' & P1 & P2 & _).
          assert (z = y6) by congruence. subst z. split; [exact P1|]. split; [exact P2|]. intros Hne. exfalso. apply Hne.
          (* the server is seen from s4 *)
          destruct (VS_node s4 s5 j0 n0 ES6 B1) as (n4 & Hn4 & _ & E1 & _ & _). destruct (srv3_in _ _ _ E1 B3) as (sv4 & Hsv4 & E4).
          unfold srv3 in E4. injection E4 as E41 E42 E43. rewrite <- E43. apply (Hown5 j0 n4 sv4 Hn4 B2 Hsv4). congruence.
        - intros _ _ Hsv. change (i_server y7) with (i_server y6) in Hsv.
          assert (Hsv4 : i_server y4 = None) by (change (i_server y = None); unfold fiS in PS6; injection PS6 as Q1 _ _; congruence).
          destruct (Hblk5 Hsv4) as (n4 & Hn4 & Hor). pose proof (VW_node fnS fiS fgS s4 s5 j ES6) as Hv. rewrite Hn4 in Hv.
          destruct (nodeZ s5 j) as [n5|] eqn:En5; [|discriminate Hv]. cbn in Hv. unfold nv, fnS in Hv. injection Hv as _ _ _ Hv.
          exists j, n5. split; [|split; [exact En5|rewrite Hv; exact Hor]].
          change (i_node y7) with (i_node y6). unfold fiS in PS6. injection PS6 as _ PS6 _. rewrite PS6. exact Hnode. }
      assert (Hy7 : find_ind i (inds s6) = Some y7) by (rewrite Ei7; rewrite <- Hid6 at 1; change (i_id y6) with (i_id y7); apply find_put_same).
      assert (N7 : NoEntry s6 i) by (intros d0 fr He; apply (entry_nodes s5 s6) in He; [exact (N6 d0 fr He)|exact En7]).
      (* the entry in the blocked queue of the destination *)
      unfold upd_node in H. mstep H as dn. match type of H with put_node ?n _ = _ => set (dn1 := n) in * end.
      destruct (put_node_facts _ _ _ _ H) as (Es8 & Ei8 & Ea8 & El8 & Et8 & Ee8 & Een8).
      assert (En8 : nodes s' = updZ (nodes s6) (n_id dn1 - 1) dn1) by (rewrite Es8; reflexivity).
      pose proof (WFx2_Idx _ _ (proj1 J7) _ _ Hn0) as Hidd.
      assert (Hnd : nodeZ s6 (n_id dn1) = Some dn) by (change (n_id dn1) with (n_id dn); rewrite Hidd; exact Hn0).
      assert (HZ8 : forall k, nodeZ s' k = if k =? d then Some dn1 else nodeZ s6 k).
      { intros k. rewrite (nodeZ_upd s6 s' dn1 dn k En8 Hnd). change (n_id dn1) with (n_id dn). rewrite Hidd. reflexivity. }
      assert (Hatn : forall k z, at_node s' k z <-> at_node s6 k z).
      { intros k z. unfold at_node. rewrite HZ8. destruct (Z.eqb_spec k d) as [->|Hne]; [|reflexivity]. split.
        - intros (n & Hnn & Hin). injection Hnn as <-. exists dn. auto.
        - intros (n & Hnn & Hin). assert (n = dn) by congruence. subst n. exists dn1. auto. }
      destruct J7 as (A7 & B7 & C7). split.
      + split; [|split].
        * eapply Conserve2.WFx2_shape; [|exact A7]. unfold Conserve2.shp. rewrite Ee8, Een8, Ea8, Ei8. f_equal.
          rewrite En8. unfold nodeZ in Hnd. destruct (Conserve2.nthZ_nat _ _ _ Hnd) as (kk & Hkk & Hnk). rewrite Hkk, Conserve2.updZ_nat, Conserve2.upd_map.
          apply Conserve2.upd_same. rewrite nth_error_map, Hnk. reflexivity.
        * unfold JI in *. rewrite El8. apply (JH_mono an _ s6 s' B7); [intros k z; apply Hatn|intros k z _; rewrite Ei8; reflexivity|exact Ee8|rewrite Ea8; lia].
        * constructor.
          -- intros d0 fr z (n & Hnn & Hin). rewrite HZ8 in Hnn. rewrite Ei8. destruct (Z.eqb_spec d0 d) as [->|Hne].
             ++ injection Hnn as <-. cbn in Hin. apply in_app_or in Hin as [Hin|[Hin|[]]].
                ** apply (l_ent _ C7 d fr z). exists dn. auto.
                ** injection Hin as <- <-. exists y7. split; [exact Hy7|]. split; [exact Hd6|reflexivity].
             ++ apply (l_ent _ C7 d0 fr z). exists n. auto.
          -- intros d0 n Hnn. rewrite HZ8 in Hnn. destruct (Z.eqb_spec d0 d) as [->|Hne]; [|exact (l_nd _ C7 d0 n Hnn)].
             injection Hnn as <-. cbn. rewrite map_app. cbn. apply NoDup_snoc; [exact (l_nd _ C7 d dn Hn0)|].
             intros Hin. apply in_map_iff in Hin as ([fr z] & Ez & Hin). cbn in Ez. subst z. exact (N7 d fr (ex_intro _ dn (conj Hn0 Hin))).
      + apply (SrvInv_VS cf [] s6 s' (VS_put_node s6 s' dn dn1 Hnd eq_refl eq_refl En8 Ei8)). exact S7.
  Qed.

  (* ---------- a customer is taken out of its queue ---------- *)
  Lemma leave_queue j i s s0 nd nd1 x p q q' : St [] s -> NoEntry s i -> nodeZ s j = Some nd -> find_ind i (inds s) = Some x ->
    nthZ (n_queues nd) p = Some q -> remove_first i q = Some q' ->
    n_id nd1 = n_id nd -> n_pop nd1 = n_pop nd - 1 -> n_queues nd1 = updZ (n_queues nd) p q' -> n_bq nd1 = n_bq nd -> fnS nd1 = fnS nd -> NotInt s i ->
    put_node nd1 s = Ok (tt, s0) ->
    St [i] s0 /\ NoEntry s0 i /\ inds s0 = inds s /\ log s0 = log s /\ now s0 = now s /\
    i_node x = Some j /\ lastok j (i_arr x) (last_of i (h ++ log s)) /\ i_nrec x = zlen (recs_of i (h ++ log s)) /\ (recs_of i (h ++ log s) = [] -> an i = Some j).
  Proof.
    intros [HJ HS] HN0 Hn Hf Hq Hq' Eid Epop Eqs Ebq EfS Hni E.
    pose proof (WFx2_Idx _ _ (proj1 HJ)) as HI. pose proof (HI _ _ Hn) as Hidn.
    assert (Hiq : In i q) by (apply (Permutation_in _ (Permutation_sym (Conserve2.remove_first_perm _ _ _ Hq'))); left; reflexivity).
    assert (Hat : at_node s j i).
    { exists nd. split; [exact Hn|]. unfold all_individuals. apply in_concat. exists q. split; [|exact Hiq]. eapply nthZ_In; eauto. }
    destruct (j_node _ _ _ (proj1 (proj2 HJ)) j i Hat) as (x0 & Hx0 & Gnode & Glast & Gnrec & Gan).
    assert (x0 = x) by congruence. subst x0. clear Hx0.
    destruct (put_node_facts _ _ _ _ E) as (Es0 & Ei0 & Ea0 & El0 & Et0 & Ee0 & Een0).
    assert (En0 : nodes s0 = updZ (nodes s) (n_id nd1 - 1) nd1) by (rewrite Es0; reflexivity).
    assert (Hn' : nodeZ s (n_id nd1) = Some nd) by (rewrite Eid, Hidn; exact Hn).
    assert (HZ0 : forall k, nodeZ s0 k = if k =? j then Some nd1 else nodeZ s k).
    { intros k. rewrite (nodeZ_upd s s0 nd1 nd k En0 Hn'). rewrite Eid, Hidn. reflexivity. }
    assert (W0 : Conserve2.WFx2 [i] s0).
    { assert (Hok : Conserve2.okn (Conserve2.shp s) nd) by (apply (Conserve2.get_node_okn j); [exact (Conserve2.WFx2_idx _ _ (proj1 HJ))|exact Hn]).
      apply (Conserve2.trK_put_node_rm (fun sh => Conserve2.okn sh nd) [] i nd1) with (s := s) (a := tt); [|exact Hok|exact (proj1 HJ)|exact E].
      intros sh Hsh. exists nd, p, q, q'. repeat split; assumption. }
    assert (Hsub : forall k y, at_node s0 k y -> at_node s k y).
    { intros k y (n & Hnn & Hin). rewrite HZ0 in Hnn. destruct (Z.eqb_spec k j) as [->|Hne]; [|exists n; auto].
      injection Hnn as <-. exists nd. split; [exact Hn|]. unfold all_individuals in *. rewrite Eqs in Hin.
      destruct (Conserve2.nthZ_nat _ _ _ Hq) as (kp & Hkp & Hqk). rewrite Hkp, Conserve2.updZ_nat in Hin.
      apply (Permutation_in _ (Conserve2.concat_upd_rm (n_queues nd) kp q q' i Hqk (Conserve2.remove_first_perm _ _ _ Hq'))). right. exact Hin. }
    split; [split|].
    - destruct HJ as (A & B & C). split; [exact W0|]. split.
      + unfold JI in *. rewrite El0. apply (JH_mono an _ s s0 B Hsub); [intros k y _; rewrite Ei0; reflexivity|exact Ee0|rewrite Ea0; lia].
      + destruct C as [C1 C2]. constructor.
        * intros d0 fr y (n & Hnn & Hin). rewrite HZ0 in Hnn. rewrite Ei0. apply (C1 d0 fr y).
          destruct (Z.eqb_spec d0 j) as [->|Hne]; [injection Hnn as <-; exists nd; rewrite <- Ebq; auto|exists n; auto].
        * intros d0 n Hnn. rewrite HZ0 in Hnn. destruct (Z.eqb_spec d0 j) as [->|Hne]; [injection Hnn as <-; rewrite Ebq; exact (C2 j nd Hn)|exact (C2 d0 n Hnn)].
    - apply (SrvInv_VS cf [i] s s0 (VS_put_node s s0 nd nd1 Hn' EfS Eid En0 Ei0)). eapply SrvInv_fl_weaken; [| |exact HS]; [intros y []|intros y [<-|[]]; exact Hni].
    - split; [|auto 10]. intros d0 fr (n & Hnn & Hin). rewrite HZ0 in Hnn. apply (HN0 d0 fr).
      destruct (Z.eqb_spec d0 j) as [->|Hne]; [injection Hnn as <-; exists nd; rewrite <- Ebq; auto|exists n; auto].
  Qed.

  (* ---------- the renege record ---------- *)
  Lemma wrr_spec j i s s' : write_reneging_record j i s = Ok (tt, s') ->
    exists x r, find_ind i (inds s) = Some x /\ r_id r = i_id x /\ r_type r = 2 /\ r_node r = j /\ r_arr r = i_arr x /\ r_exit r = i_exit x /\ r_dest r = i_dest x /\
      inds s' = put_ind_l (x <| i_nrec := i_nrec x + 1 |>) (inds s) /\
      nodes s' = nodes s /\ exit_ids s' = exit_ids s /\ exit_n s' = exit_n s /\ arr s' = arr s /\ log s' = log s ++ [r] /\ now s' = now s.
  Proof.
    intros H. unfold write_reneging_record in H. mstep H as x.
    destruct (log_then_bump _ _ _ _ _ H) as (x0 & Hx0 & A). assert (x0 = x) by congruence. subst x0.
    match type of A with context [log s ++ [?r0]] => exists x, r0 end. split; [exact Hf|]. repeat (split; [reflexivity|]). exact A.
  Qed.

  (* ---------- renege ---------- *)
  Lemma renege_St j s s' : St [] s ->
    (forall nd i x, nodeZ s j = Some nd -> In i (n_next_inds nd) -> find_ind i (inds s) = Some x -> i_blocked x = false /\ i_server x = None) ->
    renege cf j s = Ok (tt, s') -> St [] s'.
  Proof.
    intros [HJ HS] Hpick H. unfold renege in H. mstep H as t0. mstep H as nd.
    pose proof (Jst_Ctx an h _ _ HJ) as HC.
    mstep H as i. pose proof (decide_between_spec _ _ _ _ E) as Hi.
    destruct (carryB cf [] _ s _ s0 (kb_decide_between _) HC HS E) as (HC1 & HS1 & ES1 & EJ1). clear E.
    bstep H HC1 HS1 as ES2 EJ2. bstep H HC1 HS1 as ES3 EJ3. rename a into d.
    assert (EJ03 : VJ s2 = VJ s) by congruence. assert (ES03 : VS s2 = VS s) by congruence.
    assert (J3 : Jst an h [] s2) by (eapply Jst_VJ; eauto).
    mstep H as x. mstep H as nd1. mstep H as q. rename Hl into Hq. mstep H as q'. rename Hl into Hq'.
    assert (Hx0 : exists y0, find_ind i (inds s) = Some y0 /\ fiJ x = fiJ y0 /\ fiS x = fiS y0).
    { destruct (find_ind i (inds s)) as [y0|] eqn:E0.
      - destruct (rec_VJS s s2 i y0 EJ03 ES03 E0) as (y' & Hy' & P1 & P2). assert (y' = x) by congruence. subst y'. eauto.
      - exfalso. pose proof (VJ_find s s2 i EJ03) as Hv. rewrite E0, Hf in Hv. discriminate Hv. }
    destruct Hx0 as (y0 & Hy0 & PJ & PS). destruct (Hpick nd i y0 Hn Hi Hy0) as [Hb0 Hsv0].
    assert (Hb : i_blocked x = false) by (unfold fiS in PS; injection PS as _ _ PS; congruence).
    assert (Hsv : i_server x = None) by (unfold fiS in PS; injection PS as PS _ _; congruence).
    assert (N3 : NoEntry s2 i) by (eapply unblocked_NoEntry; [exact (proj2 (proj2 J3))|exact Hf|exact Hb]).
    (* the customer leaves its queue *)
    mstep H as u0. match type of E with put_node ?n _ = _ => set (nd2 := n) in * end.
    destruct (leave_queue j i s2 s3 nd1 nd2 x (i_pprio x) q q' (conj J3 HS1) N3 Hn0 Hf Hq Hq' eq_refl eq_refl eq_refl eq_refl eq_refl (NotInt_waiting cf None None [] s2 i x (proj2 HS1) Hf Hsv) E)
      as ([J4 S4] & N4 & Ei4 & El4 & Et4 & Gnode & Glast & Gnrec & Gan).
    clear E HC1 HS1 J3 N3.
    pose proof (Jst_Ctx an h _ _ J4) as HC4. bstep H HC4 S4 as ES5 EJ5.
    assert (J5 : Jst an h [i] s4) by (eapply Jst_VJ; eauto).
    assert (N5 : NoEntry s4 i) by (eapply NoEntry_VJ; eauto).
    assert (Hf4 : find_ind i (inds s3) = Some x) by (rewrite Ei4; exact Hf).
    destruct (rec_VJS s3 s4 i x EJ5 ES5 Hf4) as (x5 & Hx5 & PJ5 & PS5).
    (* exit date and destination *)
    mstep H as u1. destruct (upd_ind_full _ _ _ _ _ E) as (z & Hz & Ei6 & En6 & Ea6 & El6 & Et6 & Ee6 & Een6). clear E.
    assert (z = x5) by congruence. subst z.
    match type of Ei6 with _ = put_ind_l ?x' _ => set (x6 := x') in * end.
    pose proof (find_ind_id _ _ _ Hx5) as Hid5.
    assert (J6 : Jst an h [i] s5) by (apply (Jst_put_away an h [i] s4 s5 i x5 x6 J5 (or_introl eq_refl) N5 Hx5 Hid5 Ei6 En6 Ee6 Een6 Ea6 El6)).
    assert (S6 : SrvInv cf [i] s5).
    { apply (SrvInv_VS cf [i] s4 s5); [|exact S4]. apply (VS_put_ind s4 s5 x5 x6); [change (i_id x6) with (i_id x5); rewrite Hid5; exact Hx5|reflexivity|exact Ei6|exact En6]. }
    assert (Hx6 : find_ind i (inds s5) = Some x6) by (rewrite Ei6; rewrite <- Hid5 at 1; change (i_id x5) with (i_id x6); apply find_put_same).
    assert (N6 : NoEntry s5 i) by (intros d0 fr He; apply (entry_nodes s4 s5) in He; [exact (N5 d0 fr He)|exact En6]).
    clear J4 J5 S4 N4 N5 HC4.
    (* the record *)
    mstep H as u2.
    destruct (wrr_spec j i s5 s6 E) as (xw & r & Hxw & R1 & R2 & R3 & R4 & R5 & R6 & Ei7 & En7 & Ee7 & Een7 & Ea7 & El7 & Et7).
    assert (xw = x6) by congruence. subst xw. clear Hxw.
    set (x7 := x6 <| i_nrec := i_nrec x6 + 1 |>) in *.
    assert (Hrid : r_id r = i) by (rewrite R1; exact Hid5).
    assert (Hlog5 : log s5 = log s2) by (destruct (VJ_glob _ _ EJ5) as (_ & _ & _ & _ & Q5); congruence).
    assert (Hnow5 : now s5 = now s) by (destruct (VJ_glob _ _ EJ5) as (_ & _ & _ & Q4 & _); destruct (VJ_glob _ _ EJ03) as (_ & _ & _ & Q4' & _); congruence).
    assert (Harr : i_arr x5 = i_arr x) by (unfold fiJ in PJ5; injection PJ5 as _ PJ5 _ _ _; exact PJ5).
    assert (Hcl : closing r) by (right; left; exact R2).
    assert (J7 : Jst an h [i] s6).
    { apply (Jst_log_away an h [i] s5 s6 i x6 x7 r J6 (or_introl eq_refl) N6 Hx6 Hid5 Hrid); try assumption.
      - rewrite Hlog5. intros r1 Hr1. unfold lastok in Glast. rewrite Hr1 in Glast. split; [right; right; exact R2|].
        change (i_arr x6) with (i_arr x5) in R4. rewrite Harr in R4.
        destruct Glast as [(G1 & G2 & G3)|(G1 & G2 & G3)]; [left|right].
        + split; [exact G1|]. split; [rewrite R3; exact G2|rewrite R4; exact G3].
        + split; [exact G1|]. split; [rewrite R3; symmetry; exact G2|rewrite R4; symmetry; exact G3].
      - rewrite Hlog5, R3. exact Gan. }
    assert (S7 : SrvInv cf [i] s6) by (exact (proj1 (SrvInv_keepS cf [i] _ s5 tt s6 (ks_write_reneging_record j i) (WFx2_Idx _ _ (proj1 J6)) S6 E))).
    assert (N7 : NoEntry s6 i) by (intros d0 fr He; apply (entry_nodes s5 s6) in He; [exact (N6 d0 fr He)|exact En7]).
    assert (Hx7 : find_ind i (inds s6) = Some x7) by (rewrite Ei7; rewrite <- Hid5 at 1; change (i_id x5) with (i_id x7); apply find_put_same).
    assert (Hrecs7 : recs_of i (h ++ log s6) = recs_of i (h ++ log s2) ++ [r]) by (rewrite El7, Hlog5, app_assoc; apply recs_of_snoc_same; exact Hrid).
    assert (Hlast7 : last_of i (h ++ log s6) = Some r) by (unfold last_of; rewrite Hrecs7; apply last_opt_snoc).
    clear E J6 S6 N6.
    (* attributes reset *)
    mstep H as u3. unfold reset_individual_attributes in E.
    destruct (upd_ind_full _ _ _ _ _ E) as (z & Hz' & Ei8 & En8 & Ea8 & El8 & Et8 & Ee8 & Een8). clear E.
    assert (z = x7) by congruence. subst z.
    match type of Ei8 with _ = put_ind_l ?x' _ => set (x8 := x') in * end.
    assert (J8 : Jst an h [i] s7) by (apply (Jst_put_away an h [i] s6 s7 i x7 x8 J7 (or_introl eq_refl) N7 Hx7 Hid5 Ei8 En8 Ee8 Een8 Ea8 El8)).
    assert (S8 : SrvInv cf [i] s7).
    { apply (SrvInv_VS cf [i] s6 s7); [|exact S7]. apply (VS_put_ind s6 s7 x7 x8); [change (i_id x8) with (i_id x5); rewrite Hid5; exact Hx7|reflexivity|exact Ei8|exact En8]. }
    assert (Hx8 : find_ind i (inds s7) = Some x8) by (rewrite Ei8; rewrite <- Hid5 at 1; change (i_id x5) with (i_id x8); apply find_put_same).
    assert (N8 : NoEntry s7 i) by (intros d0 fr He; apply (entry_nodes s6 s7) in He; [exact (N7 d0 fr He)|exact En8]).
    assert (O8 : NoOwner cf i s7).
    { apply (NoOwner_of cf [i] s7 i x8 S8 Hx8). change (i_server x8) with (i_server x5). unfold fiS in PS5. injection PS5 as PS5 _ _. congruence. }
    clear J7 S7 N7.
    (* the customer lands; the node lets a blocked customer in *)
    mstep H as fl0. mstep H as u4.
    assert (L9 : St [] s8).
    { destruct (d =? -1) eqn:Ed.
      - apply Z.eqb_eq in Ed. destruct (exit_accept_St i false s7 s8 (conj J8 S8) N8 O8) as (A1 & _); [|exact E|exact A1].
        rewrite El8. exists r. split; [exact Hlast7|]. left. split; [exact Hcl|]. rewrite R6. cbn. rewrite Ed. reflexivity.
      - refine (accept_St' _ d i s7 s8 (conj J8 S8) N8 O8 _ E).
        intros y Hy. assert (y = x8) by congruence. subst y. rewrite El8, Hlast7, Hrecs7. split; [|split].
        + left. split; [exact Hcl|]. split; [rewrite R6; reflexivity|]. rewrite R5. cbn. congruence.
        + change (i_nrec x8) with (i_nrec x5 + 1). assert (Hn5 : i_nrec x5 = i_nrec x) by (unfold fiJ in PJ5; injection PJ5 as _ _ PJ5 _ _; exact PJ5).
          rewrite Hn5, Gnrec. unfold zlen. rewrite app_length, Nat2Z.inj_add. reflexivity.
        + intros E0. destruct (recs_of i (h ++ log s2)); discriminate E0. }
    exact (rbi_St _ j s8 s' L9 H).
  Qed.

  (* ---------- slots (not pre-emptive in scope) ---------- *)
  Lemma slotted_service_St j s s' : St [] s -> slotted_service cf j s = Ok (tt, s') -> St [] s'.
  Proof.
    intros [HJ HS] H. destruct (srv_slotted_service cf [] j s s' Hsc (Jst_Ctx an h _ _ HJ) HS H) as (_ & HS' & EJ & _).
    split; [eapply Jst_VJ; eauto|exact HS'].
  Qed.

  (* ---------- a pre-emptive Schedule changes shift: the customers in service are interrupted ---------- *)
  Lemma put_server_srv3 sv sv' l : NoDup (map sv_id l) -> In sv l -> srv3 sv' = srv3 sv -> map srv3 (put_server_l sv' l) = map srv3 l.
  Proof.
    intros Hnd Hin He. assert (Hid : sv_id sv' = sv_id sv) by (unfold srv3 in He; congruence).
    induction l as [|y r IH]; cbn; [reflexivity|]. inversion Hnd as [|? ? Hn Hd]. subst. destruct (sv_id y =? sv_id sv') eqn:E.
    - apply Z.eqb_eq in E. destruct Hin as [->|Hin]; [cbn; rewrite He; reflexivity|].
      exfalso. apply Hn. rewrite E, Hid. apply in_map. exact Hin.
    - apply Z.eqb_neq in E. destruct Hin as [->|Hin]; [congruence|]. cbn. rewrite (IH Hd Hin). reflexivity.
  Qed.
  Lemma nodup_map_nth {A B} (f : A -> B) l a b x y : NoDup (map f l) -> nth_error l a = Some x -> nth_error l b = Some y -> f x = f y -> a = b.
  Proof.
    intros Hnd Ha Hb He. rewrite NoDup_nth_error in Hnd. apply Hnd.
    - rewrite map_length. apply nth_error_Some. congruence.
    - rewrite !nth_error_map, Ha, Hb. cbn. congruence.
  Qed.
  Lemma keyed_inv : forall l s kl s', keyed l s = Ok (kl, s') -> s' = s /\ map snd kl = l.
  Proof.
    unfold keyed. induction l as [|i r IH]; intros s kl s' H; cbn [mapM] in H; [apply ret_spec in H as [-> ->]; auto|].
    mstep H as b. mstep E as x. apply ret_spec in E as [-> ->]. mstep H as bs. apply ret_spec in H as [-> ->].
    destruct (IH _ _ _ E) as [-> Hm]. cbn. rewrite Hm. auto.
  Qed.
  Lemma ins_key_perm k i l : Permutation (map snd (ins_key k i l)) (i :: map snd l).
  Proof.
    induction l as [|[k' i'] r IH]; cbn; [reflexivity|]. destruct (key_le k' k); cbn; [|reflexivity].
    rewrite IH. apply perm_swap.
  Qed.
  Lemma sort_by_key_perm l : Permutation (sort_by_key l) (map snd l).
  Proof.
    unfold sort_by_key. assert (G : forall acc, Permutation (map snd (fold_left (fun acc p => ins_key (fst p) (snd p) acc) l acc)) (map snd l ++ map snd acc)).
    { induction l as [|p r IH]; intros acc; cbn; [reflexivity|]. rewrite IH, ins_key_perm. cbn. symmetry. apply Permutation_middle. }
    rewrite (G []). cbn. rewrite app_nil_r. reflexivity.
  Qed.

  (* the state while the shift of node j changes: the servers of j are exempt in the interrupted-list invariant *)
  Definition StX (j : Z) (s : sim) : Prop := Jst an h [] s /\ SrvI cf (Some j) None [] s.
  Lemma StX_carryB j {X} (m : M X) s a s' : keepB KT m -> StX j s -> m s = Ok (a, s') -> StX j s' /\ VJ s' = VJ s /\ VS s' = VS s.
  Proof.
    intros Hm [HJ HS] H. destruct (carryB cf [] m s a s' Hm (Jst_Ctx an h _ _ HJ) HS H) as (_ & HS' & ES & EJ).
    split; [split; [eapply Jst_VJ; eauto|exact HS']|auto].
  Qed.
  Lemma St_StX j s : St [] s -> StX j s.
  Proof.
    intros [HJ [HS [A B C D]]]. split; [exact HJ|]. split; [exact HS|]. constructor; [exact A|exact B| |exact D].
    intros k nd i Hn Hin. destruct (C k nd i Hn Hin) as (F1 & F2 & F3). split; [exact F1|]. split; [|exact F3].
    intros Hx j0 n0 sv Hn0 _. exact (F2 Hx j0 n0 sv Hn0 ltac:(discriminate)).
  Qed.
  Lemma StX_St j s : StX j s -> (forall nd, nodeZ s j = Some nd -> n_servers nd = []) -> St [] s.
  Proof.
    intros [HJ [HS [A B C D]]] Hnil. split; [exact HJ|]. split; [exact HS|]. constructor; [exact A|exact B| |exact D].
    intros k nd i Hn Hin. destruct (C k nd i Hn Hin) as (F1 & F2 & F3). split; [exact F1|]. split; [|exact F3].
    intros Hx j0 n0 sv Hn0 _ Hsl Hsv. destruct (Z.eq_dec j0 j) as [->|Hne].
    - rewrite (Hnil n0 Hn0) in Hsv. destruct Hsv.
    - apply (F2 Hx j0 n0 sv Hn0); [congruence|exact Hsl|exact Hsv].
  Qed.

  (* interrupt_service (not rerouting): the customer of a server of node j joins the interrupted list and gets a continuation record *)
  Lemma interrupt_service_StX fuel j c pre s s' : pre <> 4 -> psched_of cf j = true -> StX j s ->
    (exists nd sv, nodeZ s j = Some nd /\ In sv (n_servers nd) /\ sv_cust sv = Some c) ->
    (forall nd, nodeZ s j = Some nd -> ~ In c (n_interrupted nd)) ->
    interrupt_service cf fuel j c pre s = Ok (tt, s') ->
    StX j s' /\ VS0 s' = VS0 s /\
    (forall k nd', nodeZ s' k = Some nd' ->
       exists nd, nodeZ s k = Some nd /\ n_interrupted nd' = if k =? j then n_interrupted nd ++ [c] else n_interrupted nd).
  Proof.
    intros Hpre Hps [HJ HS] (ndv & svv & Hnv & Hsvv & Hcv) Hnin H. unfold interrupt_service in H.
    destruct (psched_of_sched _ _ Hps) as [_ Hslot].
    (* the customer is in node j, served by the server that names it *)
    destruct (si_own _ _ _ HS j ndv svv c Hnv Hslot Hsvv Hcv) as (x & Hx & Hsrv & Hnode & _).
    assert (Hat : at_node s j c).
    { destruct (WFx2_rec_place _ _ _ _ (proj1 HJ) Hx) as [[k Hk]|[]]. destruct (j_node _ _ _ (proj1 (proj2 HJ)) k c Hk) as (x0 & Hx0 & Gk & _).
      assert (x0 = x) by congruence. subst x0. assert (k = j) by congruence. subst k. exact Hk. }
    mstep H as t0.
    (* the original service time is remembered *)
    mstep H as u0.
    match type of E with ?m _ = _ => destruct (StX_carryB j m s tt s0 ltac:(kv0) (conj HJ HS) E) as ([J0 S0] & EJ0 & ES0) end. clear E.
    apply Z.eqb_neq in Hpre. rewrite Hpre in H. cbv iota in H.
    destruct (rec_VJS s s0 c x EJ0 ES0 Hx) as (x0 & Hx0 & PJ0 & PS0).
    assert (Hat0 : at_node s0 j c) by (apply (VJ_at s0 s j c (eq_sym EJ0)); exact Hat).
    (* it joins the list of interrupted customers *)
    mstep H as u1. unfold upd_node in E. mstep E as nd. match type of E with put_node ?n _ = _ => set (nd1 := n) in * end.
    pose proof (WFx2_Idx _ _ (proj1 J0)) as HI0. pose proof (HI0 _ _ Hn) as Hidn.
    assert (Hn' : nodeZ s0 (n_id nd1) = Some nd) by (change (n_id nd1) with (n_id nd); rewrite Hidn; exact Hn).
    destruct (carryJ_put_node [] s0 s1 tt nd nd1 Hn' eq_refl (Jst_Ctx an h _ _ J0) E) as (_ & EJ1).
    destruct (put_node_facts _ _ _ _ E) as (Es1 & Ei1 & _).
    assert (En1 : nodes s1 = updZ (nodes s0) (n_id nd1 - 1) nd1) by (rewrite Es1; reflexivity).
    assert (ES1 : VS0 s1 = VS0 s0) by (exact (Journey2.VS_put_node s0 s1 nd nd1 Hn' eq_refl eq_refl En1 Ei1)).
    assert (HZ1 : forall k, nodeZ s1 k = if k =? j then Some nd1 else nodeZ s0 k).
    { intros k. rewrite (nodeZ_upd s0 s1 nd1 nd k En1 Hn'). change (n_id nd1) with (n_id nd). rewrite Hidn. reflexivity. }
    assert (Hc0 : ~ In c (n_interrupted nd)).
    { destruct (VS_node s s0 j nd ES0 Hn) as (nda & Hna & _ & _ & _ & _ & Eia). rewrite Eia. exact (Hnin nda Hna). }
    assert (Hnode0 : i_node x0 = Some j) by (unfold fiS in PS0; injection PS0 as _ PS0 _; congruence).
    assert (Hsrv0 : i_server x0 <> None) by (unfold fiS in PS0; injection PS0 as PS0 _ _; congruence).
    assert (S1 : SrvI cf (Some j) None [] s1).
    { destruct S0 as [S0 [A B C D]]. pose proof (Journey2.SrvInv_VS cf [] s0 s1 ES1 S0) as S1o. split; [exact S1o|]. constructor.
      - intros k n Hk Hp. rewrite HZ1 in Hk. destruct (Z.eqb_spec k j) as [->|Hne]; [congruence|exact (A k n Hk Hp)].
      - intros k n Hk. rewrite HZ1 in Hk. destruct (Z.eqb_spec k j) as [->|Hne]; [|exact (B k n Hk)].
        injection Hk as <-. cbn. apply NoDup_snoc; [exact (B j nd Hn)|exact Hc0].
      - intros k n y Hk Hy. rewrite HZ1 in Hk. rewrite Ei1.
        assert (Hcase : (exists n0, nodeZ s0 k = Some n0 /\ In y (n_interrupted n0)) \/ (k = j /\ y = c)).
        { destruct (Z.eqb_spec k j) as [->|Hne]; [|left; eauto]. injection Hk as <-. cbn in Hy. apply in_app_or in Hy as [Hy|[<-|[]]]; [left; eauto|right; auto]. }
        destruct Hcase as [(n0 & Hk0 & Hy0)|[-> ->]].
        + destruct (C k n0 y Hk0 Hy0) as (F1 & F2 & F3). split; [exact F1|]. split; [|exact F3].
          intros Hx1. apply (NoOwnerX_VS0 cf (Some j) y s0 s1 ES1). exact (F2 Hx1).
        + split; [intros []|]. split.
          * intros _ j0 n0 sv Hn0 Hex Hsl Hsv Hcu.
            destruct (Journey2.si_own _ _ _ S1o j0 n0 sv c Hn0 Hsl Hsv Hcu) as (z & Hz & _ & Q2 & _).
            rewrite Ei1 in Hz. assert (z = x0) by congruence. subst z. apply Hex. congruence.
          * exists x0. auto.
      - intros Hp y z Hz. rewrite Ei1 in Hz. exact (D Hp y z Hz). }
    assert (J1 : Jst an h [] s1) by (eapply Jst_VJ; eauto).
    assert (Hat1 : at_node s1 j c) by (apply (VJ_at s1 s0 j c (eq_sym EJ1)); exact Hat0).
    clear E.
    (* the flag *)
    mstep H as u2.
    match type of E with ?m _ = _ => destruct (StX_carryB j m s1 tt s2 ltac:(kv0) (conj J1 S1) E) as ([J2 S2] & EJ2 & ES2) end. clear E.
    assert (Hat2 : at_node s2 j c) by (apply (VJ_at s2 s1 j c (eq_sym EJ2)); exact Hat1).
    (* the interruption record *)
    mstep H as u3.
    destruct (wint_spec j c None s2 s3 E) as (xw & r & Hxw & R1 & R2 & R3 & R4 & R5 & R6 & Ei3 & En3 & Ee3 & Een3 & Ea3 & El3 & Et3).
    pose proof (find_ind_id _ _ _ Hxw) as Hidw.
    assert (J3 : Jst an h [] s3).
    { apply (Jst_log_inplace s2 s3 j c xw _ r J2 Hat2 Hxw ltac:(rewrite R1; exact Hidw) (conj R2 R6) R3 R4 eq_refl Ei3 En3 Ee3 Een3 Ea3 El3). }
    destruct (SrvInv_keepS cf [] _ s2 tt s3 (ks_write_interruption_record cf j c None) (WFx2_Idx _ _ (proj1 J2)) S2 E) as (S3 & ES3). clear E.
    (* its service is suspended; one customer less in service *)
    mstep H as u4.
    match type of E with ?m _ = _ => destruct (StX_carryB j m s3 tt s4 ltac:(kv0) (conj J3 S3) E) as (St4 & EJ4 & ES4) end. clear E.
    match type of H with ?m _ = _ => destruct (StX_carryB j m s4 tt s' ltac:(kv0) St4 H) as (St5 & EJ5 & ES5) end.
    assert (ES15 : VS s' = VS s1) by congruence.
    split; [exact St5|]. split.
    - rewrite (VS_VS0 _ _ ES15), ES1. exact (VS_VS0 _ _ ES0).
    - intros k nd' Hk. destruct (VS_node s1 s' k nd' ES15 Hk) as (n1 & Hk1 & _ & _ & _ & _ & Ei). rewrite Ei. rewrite HZ1 in Hk1.
      destruct (Z.eqb_spec k j) as [->|Hne].
      + injection Hk1 as <-. destruct (VS_node s s0 j nd ES0 Hn) as (nda & Hna & _ & _ & _ & _ & Eia). exists nda. split; [exact Hna|]. cbn. rewrite Eia. reflexivity.
      + destruct (VS_node s s0 k n1 ES0 Hk1) as (nda & Hna & _ & _ & _ & _ & Eia). exists nda. auto.
  Qed.

  (* the interrupted customers of node j are not held by the servers of j at the positions still to be visited *)
  Definition LoopOK (j : Z) (idx : nat) (s : sim) : Prop :=
    forall nd m n t, nodeZ s j = Some nd -> In m (n_interrupted nd) -> (idx <= n)%nat -> nth_error (map srv3 (n_servers nd)) n = Some t -> snd (fst t) <> Some m.

  Lemma off_duty_loop_StX pre se : pre <> 4 -> forall k fuel j idx s s', psched_of cf j = true -> StX j s -> LoopOK j idx s ->
    off_duty_loop cf k fuel j idx pre se s = Ok (tt, s') ->
    StX j s' /\ (forall nd', nodeZ s' j = Some nd' -> exists nd, nodeZ s j = Some nd /\ map sv_id (n_servers nd') = map sv_id (n_servers nd)).
  Proof.
    intros Hpre. induction k as [|k IH]; intros fuel j idx s s' Hps HSt HL H; cbn [off_duty_loop] in H.
    { apply ret_spec in H as [_ ->]. split; [exact HSt|]. intros nd' Hn'. exists nd'. auto. }
    mstep H as nd. destruct (nth_error (n_servers nd) idx) as [sv|] eqn:Esv;
      [|apply ret_spec in H as [_ ->]; split; [exact HSt|]; intros nd' Hn'; exists nd'; auto].
    destruct HSt as [HJ HS]. destruct (psched_of_sched _ _ Hps) as [_ Hslot].
    pose proof (WFx2_Idx _ _ (proj1 HJ)) as HI. pose proof (HI _ _ Hn) as Hidn.
    pose proof (nth_error_In _ _ Esv) as Hsin. pose proof (sn_nd _ _ _ (si_n _ _ _ HS j nd Hn)) as Hnd.
    (* the shift end is written on the server *)
    mstep H as u0. match type of E with put_node ?n _ = _ => set (nd1 := n) in * end.
    assert (Hsrv3 : map srv3 (n_servers nd1) = map srv3 (n_servers nd)) by (cbn; apply (put_server_srv3 sv); [exact Hnd|exact Hsin|reflexivity]).
    assert (Hn' : nodeZ s (n_id nd1) = Some nd) by (change (n_id nd1) with (n_id nd); rewrite Hidn; exact Hn).
    destruct (carry_put_node cf [] s s0 tt nd nd1 Hn' eq_refl ltac:(unfold fnS; rewrite Hsrv3; reflexivity) (Jst_Ctx an h _ _ HJ) HS E) as (_ & S0 & ES0 & EJ0).
    assert (J0 : Jst an h [] s0) by (eapply Jst_VJ; eauto).
    destruct (put_node_facts _ _ _ _ E) as (Es0 & Ei0 & _).
    assert (En0 : nodes s0 = updZ (nodes s) (n_id nd1 - 1) nd1) by (rewrite Es0; reflexivity).
    assert (Hn0 : nodeZ s0 j = Some nd1).
    { rewrite (nodeZ_upd s s0 nd1 nd j En0 Hn'). change (n_id nd1) with (n_id nd). rewrite Hidn, Z.eqb_refl. reflexivity. }
    clear E.
    (* its customer, if any, is interrupted *)
    mstep H as u1.
    assert (Hmid : StX j s1 /\ LoopOK j (S idx) s1 /\
                   (forall n2, nodeZ s1 j = Some n2 -> map sv_id (n_servers n2) = map sv_id (n_servers nd))).
    { destruct (sv_cust sv) as [c|] eqn:Ec.
      - assert (Hown : exists n0 sv0, nodeZ s0 j = Some n0 /\ In sv0 (n_servers n0) /\ sv_cust sv0 = Some c).
        { destruct (srv3_in (n_servers nd1) (n_servers nd) sv (eq_sym Hsrv3) Hsin) as (sv0 & Hsv0 & E3). exists nd1, sv0.
          split; [exact Hn0|]. split; [exact Hsv0|]. unfold srv3 in E3. injection E3 as _ E3 _. congruence. }
        assert (Hnot : forall n0, nodeZ s0 j = Some n0 -> ~ In c (n_interrupted n0)).
        { intros n0 Hn00 Hin. assert (n0 = nd1) by congruence. subst n0. change (n_interrupted nd1) with (n_interrupted nd) in Hin.
          apply (HL nd c idx (srv3 sv) Hn Hin (le_n _)); [rewrite nth_error_map, Esv; reflexivity|exact Ec]. }
        destruct (interrupt_service_StX fuel j c pre s0 s1 Hpre Hps (conj J0 S0) Hown Hnot E) as (St1 & ES1 & Hint).
        split; [exact St1|]. split.
        + intros n2 m n t Hn2 Hm Hle Ht. destruct (Journey2.VS_node s0 s1 j n2 ES1 Hn2) as (n0 & Hn00 & _ & E3 & _ & _).
          assert (n0 = nd1) by congruence. subst n0. rewrite E3, Hsrv3 in Ht.
          destruct (Hint j n2 Hn2) as (n0 & Hn00' & Ei). assert (n0 = nd1) by congruence. subst n0. rewrite Z.eqb_refl in Ei.
          rewrite Ei in Hm. change (n_interrupted nd1) with (n_interrupted nd) in Hm. apply in_app_or in Hm as [Hm|[<-|[]]].
          * exact (HL nd m n t Hn Hm ltac:(lia) Ht).
          * intros Hcu. rewrite nth_error_map in Ht. destruct (nth_error (n_servers nd) n) as [t0|] eqn:Et0; [|discriminate Ht].
            cbn in Ht. injection Ht as <-. cbn in Hcu.
            destruct (si_own _ _ _ HS j nd sv c Hn Hslot Hsin Ec) as (x & Hx & P1 & _).
            destruct (si_own _ _ _ HS j nd t0 c Hn Hslot (nth_error_In _ _ Et0) Hcu) as (x' & Hx' & P1' & _).
            assert (x' = x) by congruence. subst x'.
            assert (idx = n) by (apply (nodup_map_nth sv_id (n_servers nd) idx n sv t0 Hnd Esv Et0); congruence). lia.
        + intros n2 Hn2. destruct (Journey2.VS_node s0 s1 j n2 ES1 Hn2) as (n0 & Hn00 & _ & E3 & _ & _).
          assert (n0 = nd1) by congruence. subst n0. rewrite (srv3_ids _ _ E3), (srv3_ids _ _ Hsrv3). reflexivity.
      - apply ret_spec in E as [_ ->]. split; [split; assumption|]. split.
        + intros n2 m n t Hn2 Hm Hle Ht. assert (n2 = nd1) by congruence. subst n2. rewrite Hsrv3 in Ht.
          exact (HL nd m n t Hn Hm ltac:(lia) Ht).
        + intros n2 Hn2. assert (n2 = nd1) by congruence. subst n2. exact (srv3_ids _ _ Hsrv3). }
    destruct Hmid as (St1 & HL1 & Hids1).
    destruct (IH fuel j (S idx) s1 s' Hps St1 HL1 H) as (St2 & Hids2).
    split; [exact St2|]. intros nd' Hn2. destruct (Hids2 nd' Hn2) as (n1 & Hn1 & Eids). exists nd. split; [exact Hn|]. rewrite Eids. exact (Hids1 n1 Hn1).
  Qed.

  (* the interrupted customers of node j are sorted *)
  Lemma sort_int_StX j s s' : StX j s -> sort_interrupted_individuals j s = Ok (tt, s') ->
    StX j s' /\ (forall nd', nodeZ s' j = Some nd' -> exists nd, nodeZ s j = Some nd /\ n_servers nd' = n_servers nd).
  Proof.
    intros [HJ [HS [A B C D]]] H. unfold sort_interrupted_individuals in H. mstep H as nd. mstep H as kl.
    destruct (keyed_inv _ _ _ _ E) as [-> Hkl]. clear E.
    match type of H with put_node ?n _ = _ => set (nd1 := n) in * end.
    pose proof (WFx2_Idx _ _ (proj1 HJ)) as HI. pose proof (HI _ _ Hn) as Hidn.
    assert (Hn' : nodeZ s (n_id nd1) = Some nd) by (change (n_id nd1) with (n_id nd); rewrite Hidn; exact Hn).
    destruct (carryJ_put_node [] s s' tt nd nd1 Hn' eq_refl (Jst_Ctx an h _ _ HJ) H) as (_ & EJ1).
    destruct (put_node_facts _ _ _ _ H) as (Es1 & Ei1 & _).
    assert (En1 : nodes s' = updZ (nodes s) (n_id nd1 - 1) nd1) by (rewrite Es1; reflexivity).
    assert (ES1 : VS0 s' = VS0 s) by (exact (Journey2.VS_put_node s s' nd nd1 Hn' eq_refl eq_refl En1 Ei1)).
    assert (HZ1 : forall k, nodeZ s' k = if k =? j then Some nd1 else nodeZ s k).
    { intros k. rewrite (nodeZ_upd s s' nd1 nd k En1 Hn'). change (n_id nd1) with (n_id nd). rewrite Hidn. reflexivity. }
    assert (Hperm : Permutation (n_interrupted nd1) (n_interrupted nd)) by (cbn; rewrite <- Hkl; apply sort_by_key_perm).
    split; [split; [eapply Jst_VJ; eauto|split; [exact (Journey2.SrvInv_VS cf [] s s' ES1 HS)|]]|].
    - constructor.
      + intros k n Hk Hp. rewrite HZ1 in Hk. destruct (Z.eqb_spec k j) as [->|Hne]; [|exact (A k n Hk Hp)].
        injection Hk as <-. apply Permutation_nil. rewrite <- (A j nd Hn Hp). symmetry. exact Hperm.
      + intros k n Hk. rewrite HZ1 in Hk. destruct (Z.eqb_spec k j) as [->|Hne]; [|exact (B k n Hk)].
        injection Hk as <-. eapply Permutation_NoDup; [symmetry; exact Hperm|exact (B j nd Hn)].
      + intros k n y Hk Hy. rewrite HZ1 in Hk. rewrite Ei1.
        assert (Hold : exists n0, nodeZ s k = Some n0 /\ In y (n_interrupted n0)).
        { destruct (Z.eqb_spec k j) as [->|Hne]; [|eauto]. injection Hk as <-. exists nd. split; [exact Hn|]. eapply Permutation_in; eauto. }
        destruct Hold as (n0 & Hk0 & Hy0). destruct (C k n0 y Hk0 Hy0) as (F1 & F2 & F3). split; [exact F1|]. split; [|exact F3].
        intros Hx1. apply (NoOwnerX_VS0 cf (Some j) y s s' ES1). exact (F2 Hx1).
      + intros Hp y z Hz. rewrite Ei1 in Hz. exact (D Hp y z Hz).
    - intros nd' Hk. rewrite HZ1, Z.eqb_refl in Hk. injection Hk as <-. exists nd. auto.
  Qed.

  Lemma kill_server_node j sid s s' : Idx s -> kill_server j sid s = Ok (tt, s') ->
    exists nd, nodeZ s j = Some nd /\ forall nd', nodeZ s' j = Some nd' -> n_servers nd' = del_server_l sid (n_servers nd).
  Proof.
    intros HI H. unfold kill_server in H. mstep H as t0. mstep H as nd. mstep H as sv.
    unfold put_node in H. apply modify_spec in H. pose proof (HI _ _ Hn) as Hid.
    match type of H with s' = s <| nodes := updZ _ _ ?n |> => set (nd' := n) in * end.
    exists nd. split; [exact Hn|]. intros n Hk.
    assert (Hn' : nodeZ s (n_id nd') = Some nd) by (change (n_id nd') with (n_id nd); rewrite Hid; exact Hn).
    rewrite (nodeZ_upd s s' nd' nd j ltac:(rewrite H; reflexivity) Hn') in Hk. change (n_id nd') with (n_id nd) in Hk. rewrite Hid, Z.eqb_refl in Hk.
    injection Hk as <-. reflexivity.
  Qed.
  (* every server of node j retires *)
  Lemma kill_all_StX j : forall l s s', StX j s -> (forall nd, nodeZ s j = Some nd -> map sv_id (n_servers nd) = l) ->
    forM_ l (kill_server j) s = Ok (tt, s') -> StX j s' /\ (forall nd', nodeZ s' j = Some nd' -> n_servers nd' = []).
  Proof.
    induction l as [|sid r IH]; intros s s' HSt Hids H; cbn [forM_] in H.
    - apply ret_spec in H as [_ ->]. split; [exact HSt|]. intros nd' Hn'. apply (map_eq_nil sv_id). exact (Hids nd' Hn').
    - mstep H as u0. destruct HSt as [HJ HS]. pose proof (WFx2_Idx _ _ (proj1 HJ)) as HI.
      destruct (srv_kill_server cf [] j sid s s0 HI HS E) as (HS0 & _).
      destruct (carryJ [] _ s _ s0 (kv_T _ _ _ _ _ (kj_kill_server j sid)) (Jst_Ctx an h _ _ HJ) E) as (_ & EJ0).
      destruct (kill_server_node j sid s s0 HI E) as (nd & Hn & Hdel).
      apply (IH s0 s' (conj (Jst_VJ an h [] s s0 EJ0 HJ) HS0)); [|exact H].
      intros nd' Hn'. rewrite (Hdel nd' Hn'). specialize (Hids nd Hn). destruct (n_servers nd) as [|y t]; [discriminate Hids|].
      cbn in Hids. injection Hids as Hy Ht. cbn. apply Z.eqb_eq in Hy. rewrite Hy. exact Ht.
  Qed.

  Lemma take_off_duty_pre_St fuel j pre s s' : pre <> 0 -> pre <> 4 -> psched_of cf j = true -> St [] s ->
    take_servers_off_duty cf fuel j pre s = Ok (tt, s') -> St [] s'.
  Proof.
    intros Hp0 Hp4 Hps HSt H. unfold take_servers_off_duty in H. mstep H as nd. mstep H as se.
    assert (s0 = s) by (destruct (n_next_date nd); [apply ret_spec in E as [_ ->]; reflexivity|discriminate E]). subst s0. clear E.
    apply Z.eqb_neq in Hp0. rewrite Hp0 in H. cbv iota in H. destruct (psched_of_sched _ _ Hps) as [_ Hslot].
    assert (HL : LoopOK j 0 s).
    { intros n0 m n t Hn0 Hm _ Ht Hcu. assert (n0 = nd) by congruence. subst n0.
      rewrite nth_error_map in Ht. destruct (nth_error (n_servers nd) n) as [t0|] eqn:Et0; [|discriminate Ht]. cbn in Ht. injection Ht as <-.
      destruct (ii_mem _ _ _ _ _ (proj2 (proj2 HSt)) j nd m Hn Hm) as (_ & F2 & _).
      exact (F2 ltac:(discriminate) j nd t0 Hn ltac:(discriminate) Hslot (nth_error_In _ _ Et0) Hcu). }
    mstep H as u0. destruct (off_duty_loop_StX pre se Hp4 _ fuel j 0%nat s s0 Hps (St_StX j s HSt) HL E) as (St1 & Hids1). clear E.
    mstep H as u1. destruct (sort_int_StX j s0 s1 St1 E) as (St2 & Hsrv2). clear E.
    destruct (kill_all_StX j (map sv_id (n_servers nd)) s1 s' St2) as (St3 & Hnil); [|exact H|exact (StX_St j s' St3 Hnil)].
    intros n2 Hn2. destruct (Hsrv2 n2 Hn2) as (n1 & Hn1 & E2). destruct (Hids1 n1 Hn1) as (n0 & Hn0 & E1).
    assert (n0 = nd) by congruence. subst n0. rewrite E2. exact E1.
  Qed.

  Lemma change_shift_St j s s' : St [] s -> change_shift cf j s = Ok (tt, s') -> St [] s'.
  Proof.
    intros [HJ HS] H. unfold change_shift in H. mstep H as nc.
    pose proof (scope2s_nc _ _ _ Hsc Hc) as Hs. unfold scope_nc in Hs. apply andb_true_iff in Hs as [_ Hs].
    destruct (nc_srv nc) as [|sc|sl] eqn:Esrv; try discriminate H. apply negb_true_iff in Hs. apply Z.eqb_neq in Hs.
    assert (Hsch : sched_of cf j = true) by (unfold sched_of; rewrite Hc, Esrv; reflexivity).
    mstep H as nd. mstep H as u0.
    assert (s0 = s) by (destruct (sc_b sc); [discriminate E|apply ret_spec in E as [_ ->]; reflexivity]). subst s0. clear E.
    mstep H as u1. rename s0 into s1.
    match type of E with put_node ?n _ = _ => set (nd' := n) in * end.
    pose proof (Jst_Ctx an h _ _ HJ) as HC.
    assert (Hnn : nodeZ s (n_id nd') = Some nd) by (change (n_id nd') with (n_id nd); rewrite (Ctx_Idx _ _ HC _ _ Hn); exact Hn).
    pose proof (sn_sch _ _ _ (si_n _ _ _ HS j nd Hn) Hsch) as Hinf.
    destruct (carry_put_node cf (ex:=None) (xc:=None) [] s s1 tt nd nd' Hnn eq_refl) as (HC1 & HS1 & ES1 & EJ1); [|exact HC|exact HS|exact E|].
    { unfold fnS. change (n_servers nd') with (n_servers nd). change (n_highest nd') with (n_highest nd). change (n_interrupted nd') with (n_interrupted nd). rewrite Hinf. reflexivity. }
    assert (J1 : Jst an h [] s1) by (eapply Jst_VJ; eauto).
    clear E. mstep H as fl0. mstep H as u2.
    assert (St2 : St [] s0).
    { destruct (sc_pre sc =? 0) eqn:E0.
      - apply Z.eqb_eq in E0. rewrite E0 in E. destruct (srv_take_off_duty0 cf [] _ j s1 s0 HC1 HS1 E) as (_ & HS2 & EJ2 & _).
        split; [eapply Jst_VJ; eauto|exact HS2].
      - apply Z.eqb_neq in E0. apply (take_off_duty_pre_St (fuel_of s1) j (sc_pre sc) s1 s0 E0 Hs); [|split; assumption|exact E].
        unfold psched_of, psched_nc. rewrite Hc, Esrv. apply negb_true_iff. apply Z.eqb_neq. exact E0. }
    clear E. destruct St2 as [J2 S2].
    destruct (srv_shift_tail cf [] _ j s0 s' Hsch (Jst_Ctx an h _ _ J2) S2 H) as (_ & S3 & EJ3 & _).
    split; [eapply Jst_VJ; eauto|exact S3].
  Qed.

  (* ---------- class change while waiting: the customer may move to another queue of the same node ---------- *)
  Lemma St_requeue j s s' nd nd1 : St [] s -> nodeZ s j = Some nd ->
    n_id nd1 = n_id nd -> n_pop nd1 = n_pop nd -> n_bq nd1 = n_bq nd -> fnS nd1 = fnS nd ->
    Permutation (concat (n_queues nd1)) (concat (n_queues nd)) -> put_node nd1 s = Ok (tt, s') -> St [] s'.
  Proof.
    intros [HJ HS] Hn Eid Epop Ebq EfS Hperm E.
    pose proof (WFx2_Idx _ _ (proj1 HJ)) as HI. pose proof (HI _ _ Hn) as Hidn.
    destruct (put_node_facts _ _ _ _ E) as (Es0 & Ei0 & Ea0 & El0 & Et0 & Ee0 & Een0).
    assert (En0 : nodes s' = updZ (nodes s) (n_id nd1 - 1) nd1) by (rewrite Es0; reflexivity).
    assert (Hn' : nodeZ s (n_id nd1) = Some nd) by (rewrite Eid, Hidn; exact Hn).
    assert (HZ0 : forall k, nodeZ s' k = if k =? j then Some nd1 else nodeZ s k).
    { intros k. rewrite (nodeZ_upd s s' nd1 nd k En0 Hn'). rewrite Eid, Hidn. reflexivity. }
    assert (W0 : Conserve2.WFx2 [] s').
    { assert (Hok : Conserve2.okn (Conserve2.shp s) nd) by (apply (Conserve2.get_node_okn j); [exact (Conserve2.WFx2_idx _ _ (proj1 HJ))|exact Hn]).
      apply (Conserve2.trK_put_node_mv (fun sh => Conserve2.okn sh nd) [] nd1) with (s := s) (a := tt); [|exact Hok|exact (proj1 HJ)|exact E].
      intros sh Hsh. exists nd. auto. }
    assert (Hatn : forall k z, at_node s' k z <-> at_node s k z).
    { intros k z. unfold at_node. rewrite HZ0. destruct (Z.eqb_spec k j) as [->|Hne]; [|reflexivity]. unfold all_individuals. split.
      - intros (n & Hnn & Hin). injection Hnn as <-. exists nd. split; [exact Hn|]. eapply Permutation_in; eauto.
      - intros (n & Hnn & Hin). assert (n = nd) by congruence. subst n. exists nd1. split; [reflexivity|]. eapply Permutation_in; [symmetry; exact Hperm|exact Hin]. }
    destruct HJ as (A & B & C). split.
    - split; [exact W0|]. split.
      + unfold JI in *. rewrite El0. apply (JH_mono an _ s s' B); [intros k z; apply Hatn|intros k z _; rewrite Ei0; reflexivity|exact Ee0|rewrite Ea0; lia].
      + destruct C as [C1 C2]. constructor.
        * intros d0 fr y (n & Hnn & Hin). rewrite HZ0 in Hnn. rewrite Ei0. apply (C1 d0 fr y).
          destruct (Z.eqb_spec d0 j) as [->|Hne]; [injection Hnn as <-; exists nd; rewrite <- Ebq; auto|exists n; auto].
        * intros d0 n Hnn. rewrite HZ0 in Hnn. destruct (Z.eqb_spec d0 j) as [->|Hne]; [injection Hnn as <-; rewrite Ebq; exact (C2 j nd Hn)|exact (C2 d0 n Hnn)].
    - apply (SrvInv_VS cf [] s s' (VS_put_node s s' nd nd1 Hn' EfS Eid En0 Ei0)). exact HS.
  Qed.

  Lemma ccww_St j s s' : preempts cf = false -> St [] s -> change_customer_class_while_waiting cf j s = Ok (tt, s') -> St [] s'.
  Proof.
    intros Hnp HSt H. unfold change_customer_class_while_waiting in H.
    mstep H as nd. mstep H as i. mstep H as x. mstep H as nc'. mstep H as p'.
    mstep H as u0. pose proof (find_ind_id _ _ _ Hf) as Hidx.
    match type of E with put_ind ?x' _ = _ => set (x1 := x') in * end.
    destruct HSt as [HJ HS].
    destruct (carry_put_ind cf [] s s0 tt x x1 ltac:(change (i_id x1) with (i_id x); rewrite Hidx; exact Hf) eq_refl (Jst_Ctx an h _ _ HJ) HS E) as (_ & HS0 & ES0 & EJ0).
    assert (St0 : St [] s0) by (split; [eapply Jst_VJ; eauto|exact HS0]).
    destruct (put_ind_facts _ _ _ _ E) as (_ & En0 & _). clear E HJ HS HS0.
    mstep H as u1.
    assert (St1 : St [] s1).
    { destruct (negb (p' =? i_pprio x)); [|apply ret_spec in E as [_ ->]; exact St0].
      mstep E as q. rename Hl2 into Hq. mstep E as q'. rename Hl2 into Hq'. mstep E as qn. rename Hl2 into Hqn. mstep E as u2.
      match type of E0 with put_node ?n _ = _ => set (nd1 := n) in * end.
      assert (St2 : St [] s2).
      { apply (St_requeue j s0 s2 nd nd1 St0); [rewrite (nodeZ_same s s0 j En0); exact Hn|reflexivity|reflexivity|reflexivity|reflexivity| |exact E0].
        unfold nd1. cbn.
        destruct (Conserve2.nthZ_nat _ _ _ Hq) as (kp & Hkp & Hqk). rewrite Hkp, Conserve2.updZ_nat in *.
        destruct (Conserve2.nthZ_nat _ _ _ Hqn) as (kn & Hkn & Hqnk). rewrite Hkn, Conserve2.updZ_nat.
        rewrite (Conserve2.concat_upd_add _ _ _ (qn ++ [i]) i Hqnk); [|rewrite Permutation_app_comm; reflexivity].
        eapply Conserve2.concat_upd_rm; [exact Hqk|]. apply Conserve2.remove_first_perm. exact Hq'. }
      clear E0. destruct (negb (nd_inf nd) && (0 <? numo (n_c nd))); [|apply ret_spec in E as [_ ->]; exact St2].
      mstep E as v. destruct (preempt_victim_none cf j i s2 v s3 Hnp E0) as [-> ->]. apply ret_spec in E as [_ ->]. exact St2. }
    clear E St0.
    mstep H as u3. match type of E with ?m _ = _ => destruct (St_carryB [] m s1 tt s2 ltac:(kv using kb_lem) St1 E) as (St2 & _) end. clear E.
    exact (proj1 (St_carryB [] _ s2 tt s' (kb_decide_class_change cf j i) St2 H)).
  Qed.

  (* ---------- the arrival node: a fresh customer is rejected, baulks, or enters its first node ---------- *)
  Lemma wbr_spec j i ty s s' : write_br_record j i ty s = Ok (tt, s') ->
    exists x r, find_ind i (inds s) = Some x /\ r_id r = i_id x /\ r_type r = ty /\ r_node r = j /\
      inds s' = put_ind_l (x <| i_nrec := i_nrec x + 1 |>) (inds s) /\
      nodes s' = nodes s /\ exit_ids s' = exit_ids s /\ exit_n s' = exit_n s /\ arr s' = arr s /\ log s' = log s ++ [r] /\ now s' = now s.
  Proof.
    intros H. unfold write_br_record in H. mstep H as t0. mstep H as nd. mstep H as x.
    destruct (log_then_bump _ _ _ _ _ H) as (x0 & Hx0 & A). assert (x0 = x) by congruence. subst x0.
    match type of A with context [log s ++ [?r0]] => exists x, r0 end. split; [exact Hf|]. repeat (split; [reflexivity|]). exact A.
  Qed.

  Lemma release_individual_St j i s s' : St [i] s -> NoEntry s i -> NoOwner cf i s ->
    recs_of i (h ++ log s) = [] -> (forall x, find_ind i (inds s) = Some x -> i_nrec x = 0) -> an i = Some j ->
    release_individual cf j i s = Ok (tt, s') -> St [] s'.
  Proof.
    intros HSt HN HO Hfresh Hnrec Han H. unfold release_individual in H.
    mstep H as x. mstep H as nd. mstep H as nc. mstep H as sp.
    destruct (St_carryB [i] _ s sp s0 (kb_sys_population) HSt E) as (St0 & EJ0 & ES0). clear E.
    destruct (rec_VJS s s0 i x EJ0 ES0 Hf) as (x0 & Hx0 & PJ0 & PS0).
    assert (N0 : NoEntry s0 i) by (eapply NoEntry_VJ; eauto). assert (O0 : NoOwner cf i s0) by (eapply NoOwner_VS; eauto).
    assert (Hlog0 : log s0 = log s) by (destruct (VJ_glob _ _ EJ0) as (_ & _ & _ & _ & Q); exact Q).
    assert (Hnrec0 : forall y, find_ind i (inds s0) = Some y -> i_nrec y = 0).
    { intros y Hy. assert (y = x0) by congruence. subst y. unfold fiJ in PJ0. injection PJ0 as _ _ PJ0 _ _. rewrite PJ0. apply Hnrec. exact Hf. }
    clear HSt HN HO.
    (* a baulk / rejection record, then the exit *)
    assert (Hbr : forall ty sa sb sc, (ty = 3 \/ ty = 4) -> St [i] sa -> NoEntry sa i -> NoOwner cf i sa -> log sa = log s ->
              write_br_record j i ty sa = Ok (tt, sb) -> exit_accept i false sb = Ok (tt, sc) -> St [] sc).
    { intros ty sa sb sc Hty [Ja Sa] Na Oa Ela Ew Ex.
      destruct (wbr_spec j i ty sa sb Ew) as (xw & r & Hxw & R1 & R2 & R3 & Ei & En & Ee & Een & Ea & El & Et).
      pose proof (find_ind_id _ _ _ Hxw) as Hidw. assert (Hrid : r_id r = i) by congruence.
      assert (Hrecs : recs_of i (h ++ log sa) = []) by (rewrite Ela; exact Hfresh).
      assert (Jb : Jst an h [i] sb).
      { match type of Ei with _ = put_ind_l ?x' _ => set (xn := x') in * end.
        apply (Jst_log_away an h [i] sa sb i xw xn r Ja (or_introl eq_refl) Na Hxw Hidw Hrid); try assumption.
        - unfold last_of. rewrite Hrecs. discriminate.
        - rewrite R3. intros _. exact Han. }
      assert (Sb : SrvInv cf [i] sb) by (exact (proj1 (SrvInv_keepS cf [i] _ sa tt sb (ks_write_br_record j i ty) (WFx2_Idx _ _ (proj1 Ja)) Sa Ew))).
      assert (Nb : NoEntry sb i) by (intros d0 fr He; apply (entry_nodes sa sb) in He; [exact (Na d0 fr He)|exact En]).
      assert (Ob : NoOwner cf i sb) by (exact (NoOwner_nodes cf i sa sb En Oa)).
      destruct (exit_accept_St i false sb sc (conj Jb Sb) Nb Ob) as (A1 & _); [|exact Ex|exact A1].
      exists r. unfold last_of. rewrite El, app_assoc, (recs_of_snoc_same _ _ _ Hrid), Hrecs. split; [reflexivity|]. right. rewrite R2. exact Hty. }
    (* or the customer is accepted by its first node *)
    assert (Hacc : forall sa sc, St [i] sa -> NoEntry sa i -> NoOwner cf i sa -> log sa = log s -> (forall y, find_ind i (inds sa) = Some y -> i_nrec y = 0) ->
              send_individual cf j i sa = Ok (tt, sc) -> St [] sc).
    { intros sa sc Sta Na Oa Ela Hnr Hm. unfold send_individual in Hm. mstep Hm as u0.
      match type of E with ?m _ = _ => destruct (St_carryB [i] m sa tt s1 ltac:(kv using kb_lem) Sta E) as (St1 & EJ1 & ES1) end.
      mstep Hm as fl0.
      refine (accept_St' _ j i s1 sc St1 (NoEntry_VJ _ _ _ EJ1 Na) (NoOwner_VS cf i _ _ ES1 Oa) _ Hm).
      intros y Hy. assert (Hl1 : log s1 = log s) by (destruct (VJ_glob _ _ EJ1) as (_ & _ & _ & _ & Q); congruence).
      rewrite Hl1. unfold last_of. rewrite Hfresh. split; [exact I|]. split; [|intros _; exact Han].
      pose proof (VJ_find sa s1 i EJ1) as Hv. rewrite Hy in Hv. destruct (find_ind i (inds sa)) as [ya|] eqn:Ea; [|discriminate Hv].
      cbn [option_map] in Hv. unfold fiJ in Hv. injection Hv as _ _ Hv _ _. rewrite Hv. apply Hnr. reflexivity. }
    match type of H with (if ?b then _ else _) _ = _ => destruct b end.
    - mstep H as u1. match goal with E : write_br_record j i ?ty ?sa = Ok (tt, ?sb) |- _ => exact (Hbr ty sa sb s' ltac:(auto) St0 N0 O0 Hlog0 E H) end.
    - mstep H as tabs. mstep H as tab. destruct tab as [tb|].
      + mstep H as u.
        destruct (St_carryB [i] draw_unif s0 u s1 ltac:(kv0) St0 E) as (St1 & EJ1 & ES1). clear E.
        assert (N1 : NoEntry s1 i) by (eapply NoEntry_VJ; eauto). assert (O1 : NoOwner cf i s1) by (eapply NoOwner_VS; eauto).
        assert (Hlog1 : log s1 = log s) by (destruct (VJ_glob _ _ EJ1) as (_ & _ & _ & _ & Q); congruence).
        match type of H with (if ?b then _ else _) _ = _ => destruct b end.
        * mstep H as u1. match goal with E : write_br_record j i ?ty ?sa = Ok (tt, ?sb) |- _ => exact (Hbr ty sa sb s' ltac:(auto) St1 N1 O1 Hlog1 E H) end.
        * apply (Hacc s1 s' St1 N1 O1 Hlog1); [|exact H]. intros y Hy.
          pose proof (VJ_find s0 s1 i EJ1) as Hv. rewrite Hy in Hv. destruct (find_ind i (inds s0)) as [ya|] eqn:Ea; [|discriminate Hv].
          cbn [option_map] in Hv. unfold fiJ in Hv. injection Hv as _ _ Hv _ _. rewrite Hv. apply Hnrec0. reflexivity.
      + exact (Hacc s0 s' St0 N0 O0 Hlog0 Hnrec0 H).
  Qed.

  Lemma route_of_same i c r s s' : route_of cf i c s = Ok (r, s') -> s' = s.
  Proof.
    unfold route_of. intros H. mstep H as rt. destruct rt as [rs|routes|routes al ch].
    - apply ret_spec in H as [_ ->]. reflexivity.
    - destruct routes; [discriminate H|]. mstep H as r0. apply ret_spec in H as [_ ->]. reflexivity.
    - destruct routes; [discriminate H|]. mstep H as r0. apply ret_spec in H as [_ ->]. reflexivity.
  Qed.
  Lemma batch_loop_St : forall n j c p s s', St [] s -> (forall i, a_created (arr s) < i -> an i = Some j) ->
    batch_loop cf n j c p s = Ok (tt, s') -> St [] s'.
  Proof.
    induction n as [|n IH]; intros j c p s s' HSt Han H; cbn [batch_loop] in H; [apply ret_spec in H as [_ ->]; exact HSt|].
    mstep H as u0. unfold modify in E. injection E as <-.
    set (s1 := s <| arr := arr s <| a_created := a_created (arr s) + 1 |> |>) in *.
    mstep H as i0. change (a_created (arr s1)) with (a_created (arr s) + 1) in H. set (i := a_created (arr s) + 1) in *.
    mstep H as u1. assert (s0 = s1) by (destruct (1 <=? j); [apply ret_spec in E as [_ ->]; reflexivity|discriminate E]). subst s0. clear E.
    mstep H as nd. mstep H as r. apply route_of_same in E. subst s0.
    mstep H as u2. unfold put_ind in E. apply modify_spec in E. set (xn := new_ind i c p r) in *.
    destruct HSt as [(A & B & C) HS].
    assert (Hnone : find_ind i (inds s) = None).
    { destruct (find_ind i (inds s)) as [z|] eqn:Ez; [|reflexivity]. pose proof (WFx2_rec_le s i z A Ez). unfold i in *. lia. }
    destruct (Conserve2.spawn_spec s s1 xn A eq_refl eq_refl) as [W4 X4]. rewrite <- E in W4, X4. change (i_id xn) with i in W4.
    assert (Hfo : forall y, y <> i -> find_ind y (inds s0) = find_ind y (inds s)).
    { intros y Hy. rewrite E. cbn. rewrite find_put_other by (change (i_id xn) with i; exact Hy). reflexivity. }
    assert (Hfi : find_ind i (inds s0) = Some xn) by (rewrite E; cbn; change i with (i_id xn) at 1; apply find_put_same).
    assert (Hnodes : nodes s0 = nodes s) by (rewrite E; reflexivity).
    assert (Hlog : log s0 = log s) by (rewrite E; reflexivity).
    assert (St4 : St [i] s0).
    { split; [split; [exact W4|split]|].
      - unfold JI in *. rewrite Hlog. apply (JH_mono an _ s s0 B); [intros k y; apply (at_node_nodes s s0); exact Hnodes| |rewrite E; reflexivity|rewrite E; cbn; lia].
        intros k y Hk. apply (at_node_nodes s s0) in Hk; [|exact Hnodes]. pose proof (WFx2_at_le s k y A Hk). rewrite Hfo; [reflexivity|unfold i; lia].
      - destruct C as [C1 C2]. constructor.
        + intros d0 fr y He. apply (entry_nodes s s0) in He; [|exact Hnodes]. destruct (C1 d0 fr y He) as (z & Hz & P). exists z.
          rewrite Hfo; [auto|]. intros ->. congruence.
        + intros d0 n0 Hnn. rewrite (nodeZ_same s s0 d0 Hnodes) in Hnn. exact (C2 d0 n0 Hnn).
      - apply (SrvInv_spawn cf i xn s s0 HS Hnone eq_refl eq_refl Hnodes). rewrite E. reflexivity. }
    assert (N4 : NoEntry s0 i).
    { intros d0 fr He. apply (entry_nodes s s0) in He; [|exact Hnodes]. destruct (l_ent _ C d0 fr i He) as (z & Hz & _). congruence. }
    assert (O4 : NoOwner cf i s0).
    { intros k n0 sv Hnn Hsl Hin Hc0. rewrite (nodeZ_same s s0 k Hnodes) in Hnn. destruct (si_own _ _ _ HS k n0 sv i Hnn Hsl Hin Hc0) as (z & Hz & _). congruence. }
    clear E.
    mstep H as u3.
    assert (Hfresh : recs_of i (h ++ log s0) = []).
    { rewrite Hlog. apply recs_of_none. intros r0 Hr. pose proof (j_ids _ _ _ B r0 Hr). unfold i. lia. }
    assert (St5 : St [] s2).
    { apply (release_individual_St j i s0 s2 St4 N4 O4 Hfresh); [|apply Han; unfold i; lia|exact E].
      intros y Hy. assert (y = xn) by congruence. subst y. reflexivity. }
    destruct (Conserve2.tr_release_individual cf j i [] s0 tt s2 I W4 E) as [_ [_ Hle]].
    apply (IH j c p s2 s' St5); [|exact H]. intros i' Hi'. apply Han. destruct X4 as [_ Hle4]. cbn in Hle, Hle4. lia.
  Qed.

  Lemma arrival_have_event_St s s' : St [] s -> (forall i, a_created (arr s) < i -> an i = Some (a_next_node (arr s))) ->
    arrival_have_event cf s = Ok (tt, s') -> St [] s'.
  Proof.
    intros HSt Han H. unfold arrival_have_event in H. mstep H as a. mstep H as b.
    destruct (St_carryB [] draw_batch s b s0 ltac:(kv0) HSt E) as (St0 & EJ0 & _). clear E.
    mstep H as u0. assert (s1 = s0) by (destruct (b <? 0); [discriminate E|apply ret_spec in E as [_ ->]; reflexivity]). subst s1. clear E.
    mstep H as p. mstep H as u1.
    assert (St1 : St [] s1).
    { refine (batch_loop_St _ _ _ _ s0 s1 St0 _ E). intros i Hi. apply Han. destruct (VJ_glob _ _ EJ0) as (_ & _ & Q & _). lia. }
    clear E. mstep H as ia. destruct (St_carryB [] draw_arr s1 ia s2 ltac:(kv0) St1 E) as (St2 & _). clear E.
    mstep H as a'. mstep H as row. mstep H as old. mstep H as u2.
    match type of E with ?m _ = _ => destruct (St_carryB [] m s2 tt s3 ltac:(kv0) St2 E) as (St3 & _) end. clear E.
    exact (proj1 (St_carryB [] _ s3 tt s' kb_find_next_event_date St3 H)).
  Qed.
End Walk.


(* ====================================================================================================================
   8. Who acts next: the customers a node names for its next end of service are not blocked and not interrupted
   ==================================================================================================================== *)
Definition PickN (cf : config) (s : sim) (j : Z) (nd : node) : Prop :=
  (forall i x, In i (n_next_inds nd) -> find_ind i (inds s) = Some x ->
    (n_next_type nd = 0 -> i_blocked x = false /\ i_node x = Some j /\ ~ In i (n_interrupted nd)) /\
    (n_next_type nd = 2 -> i_blocked x = false /\ i_server x = None)) /\
  (n_next_type nd = 3 -> cf_dyn cf = true).
Definition PickOK (cf : config) (s : sim) : Prop := forall j nd, nodeZ s j = Some nd -> PickN cf s j nd.

Section Pick.
  Variable cf : config.
  Hypothesis Hsc : scope2s cf = true.

  Lemma une_pick j s s' : Ctx [] s -> SrvInv cf [] s -> update_next_event_date cf j s = Ok (tt, s') ->
    inds s' = inds s /\ (forall k, k <> j -> nodeZ s' k = nodeZ s k) /\ (forall nd', nodeZ s' j = Some nd' -> PickN cf s' j nd').
  Proof.
    intros HC HS H. unfold update_next_event_date in H. mstep H as nd. mstep H as nc. mstep H as t0. mstep H as il.
    pose proof (Ctx_Idx _ _ HC _ _ Hn) as Hidn.
    set (inf := nd_inf nd) in *.
    set (es := if nc_slotted nc || inf then scan_inds (now s) (all_individuals nd) (inds s) None [] else scan_servers (n_servers nd) None []) in *.
    mstep H as rn.
    assert (Hrn : s0 = s /\ forall c, In c (snd rn) -> exists x, find_ind c (inds s) = Some x /\ i_server x = None /\ i_blocked x = false).
    { destruct (negb inf && nc_reneging nc) eqn:Ec.
      - apply lift_spec in E as [-> Hl]. split; [reflexivity|]. intros c Hcin. destruct rn as [b l]. cbn in Hcin.
        destruct (scan_ren_in _ _ _ _ _ _ c Hl Hcin) as [[]|[Hq (x & Hx & Hsv)]]. exists x. split; [exact Hx|]. split; [exact Hsv|].
        destruct (i_blocked x) eqn:Eb; [|reflexivity]. exfalso.
        destruct (proj2 HC j c (ex_intro _ nd (conj Hn Hq))) as (x0 & Hx0 & Hk). assert (x0 = x) by congruence. subst x0.
        destruct (si_blk _ _ _ HS c x Hx ltac:(intros []) Eb Hsv) as (k & n & P1 & P2 & [P3|P3]).
        + assert (k = j) by congruence. subst k. assert (n = nd) by congruence. subst n. apply andb_true_iff in Ec as [Ec _]. apply negb_true_iff in Ec. unfold inf in Ec. congruence.
        + assert (k = j) by congruence. subst k. unfold slot_of in P3. rewrite Hc in P3.
          pose proof (scope2s_nc _ _ _ Hsc Hc) as Hs. unfold scope_nc in Hs. apply andb_true_iff in Hs as [_ Hs]. unfold nc_slotted in P3.
          destruct (nc_srv nc); try discriminate P3. apply andb_true_iff in Hs as [Hs _]. apply andb_true_iff in Hs as [_ Hs]. apply negb_true_iff in Hs.
          apply andb_true_iff in Ec as [_ Ec]. congruence.
      - apply ret_spec in E as [-> ->]. split; [reflexivity|]. intros c []. }
    destruct Hrn as [-> Hrn]. clear E.
    assert (Hes : forall c, In c (snd es) -> forall x, find_ind c (inds s) = Some x -> i_blocked x = false /\ i_node x = Some j /\ ~ In c (n_interrupted nd)).
    { intros c Hcin x Hx. unfold es in Hcin. destruct (nc_slotted nc || inf) eqn:Ec.
      - destruct (scan_inds_in _ _ _ _ _ c Hcin) as [[]|[Hq (x0 & Hx0 & Hb)]]. assert (x0 = x) by congruence. subst x0. split; [exact Hb|]. split.
        + destruct (proj2 HC j c (ex_intro _ nd (conj Hn Hq))) as (x0 & Hx0' & Hk). congruence.
        + destruct (psched_of cf j) eqn:Ep; [exfalso|rewrite (ii_sch _ _ _ _ _ (proj2 HS) j nd Hn Ep); intros []].
          destruct (psched_of_sched _ _ Ep) as [Hsch Hsl]. pose proof (sn_sch _ _ _ (si_n _ _ _ HS j nd Hn) Hsch) as Hni.
          unfold slot_of in Hsl. rewrite Hc in Hsl. unfold inf in Ec. rewrite Hsl, Hni in Ec. discriminate Ec.
      - destruct (scan_servers_in _ _ _ c Hcin) as [[]|(sv & Hsv & Hcu & Hne)]. apply orb_false_iff in Ec as [Ec _].
        assert (Hsl : slot_of cf j = false) by (unfold slot_of; rewrite Hc; exact Ec).
        destruct (si_own _ _ _ HS j nd sv c Hn Hsl Hsv Hcu) as (x0 & Hx0 & _ & P2 & P3). assert (x0 = x) by congruence. subst x0. split; [apply P3; exact Hne|]. split; [exact P2|].
        intros Hmem. destruct (ii_mem _ _ _ _ _ (proj2 HS) j nd c Hn Hmem) as (_ & F2 & _). exact (F2 ltac:(discriminate) j nd sv Hn ltac:(discriminate) Hsl Hsv Hcu). }
    (* the node that is written back *)
    assert (Hfin : forall d l ty, (ty = 0 -> l = snd es) -> (ty = 2 -> l = snd rn) -> (ty = 3 -> cf_dyn cf = true) ->
              put_node (nd <| n_next_date := d |> <| n_next_inds := l |> <| n_next_type := ty |>) s = Ok (tt, s') ->
              inds s' = inds s /\ (forall k, k <> j -> nodeZ s' k = nodeZ s k) /\ (forall nd', nodeZ s' j = Some nd' -> PickN cf s' j nd')).
    { intros d l ty H0 H2 H3 Hp. set (nd1 := nd <| n_next_date := d |> <| n_next_inds := l |> <| n_next_type := ty |>) in *.
      destruct (put_node_facts _ _ _ _ Hp) as (Es & Ei & _).
      assert (En : nodes s' = updZ (nodes s) (n_id nd1 - 1) nd1) by (rewrite Es; reflexivity).
      assert (Hn' : nodeZ s (n_id nd1) = Some nd) by (change (n_id nd1) with (n_id nd); rewrite Hidn; exact Hn).
      assert (HZ : forall k, nodeZ s' k = if k =? j then Some nd1 else nodeZ s k).
      { intros k. rewrite (nodeZ_upd s s' nd1 nd k En Hn'). change (n_id nd1) with (n_id nd). rewrite Hidn. reflexivity. }
      split; [exact Ei|]. split.
      - intros k Hk. rewrite HZ. apply Z.eqb_neq in Hk. rewrite Hk. reflexivity.
      - intros nd' Hnn. rewrite HZ, Z.eqb_refl in Hnn. injection Hnn as <-. split; [|intros Hty; cbn in Hty; exact (H3 Hty)].
        intros c x Hcin Hx. rewrite Ei in Hx. cbn in Hcin. split.
        + intros Hty. cbn in Hty. rewrite (H0 Hty) in Hcin. exact (Hes c Hcin x Hx).
        + intros Hty. cbn in Hty. rewrite (H2 Hty) in Hcin. destruct (Hrn c Hcin) as (x0 & Hx0 & P1 & P2). assert (x0 = x) by congruence. subst x0. auto. }
    destruct (nc_reneging nc || cf_dyn cf || nc_sched nc).
    - match type of H with context [decide_next_event ?cands ?best] => destruct (dne_in cands best) as [Hd|[Hd Hne]]; destruct (decide_next_event cands best) as [ty [d l]] end.
      + injection Hd as -> -> ->. apply (Hfin None [] 5); [intros Hx; discriminate Hx|intros Hx; discriminate Hx|intros Hx; discriminate Hx|exact H].
      + cbn in Hne. apply (fun A B C => Hfin d l ty A B C H).
        * intros ->. apply in_app_or in Hd as [Hd|Hd].
          -- destruct (nc_srv nc); cbn in Hd; [destruct Hd|destruct Hd as [Hd|[]]; discriminate Hd|destruct Hd as [Hd|[]]; discriminate Hd].
          -- destruct Hd as [Hd|[Hd|[Hd|[]]]]; [injection Hd as Hd; rewrite Hd; reflexivity|discriminate Hd|discriminate Hd].
        * intros ->. apply in_app_or in Hd as [Hd|Hd].
          -- destruct (nc_srv nc); cbn in Hd; [destruct Hd|destruct Hd as [Hd|[]]; discriminate Hd|destruct Hd as [Hd|[]]; discriminate Hd].
          -- destruct Hd as [Hd|[Hd|[Hd|[]]]]; [discriminate Hd|discriminate Hd|injection Hd as Hd; rewrite Hd; reflexivity].
        * intros ->. apply in_app_or in Hd as [Hd|Hd].
          -- destruct (nc_srv nc); cbn in Hd; [destruct Hd|destruct Hd as [Hd|[]]; discriminate Hd|destruct Hd as [Hd|[]]; discriminate Hd].
          -- destruct Hd as [Hd|[Hd|[Hd|[]]]]; [discriminate Hd| |discriminate Hd].
             destruct (cf_dyn cf); [reflexivity|]. cbn in Hd. injection Hd as Hd _. congruence.
    - apply (Hfin (fst es) (snd es) 0); [intros _; reflexivity|intros Hx; discriminate Hx|intros Hx; discriminate Hx|exact H].
  Qed.
End Pick.

Definition PickAt (cf : config) (s : sim) (k : Z) : Prop := forall nd, nodeZ s k = Some nd -> PickN cf s k nd.
Lemma update_all_pick cf : scope2s cf = true -> forall js s s', Ctx [] s -> SrvInv cf [] s -> update_all cf js s = Ok (tt, s') ->
  forall k, (In k js \/ PickAt cf s k) -> PickAt cf s' k.
Proof.
  intros Hsc. induction js as [|j r IH]; intros s s' HC HS H k Hk; cbn [update_all] in H.
  - apply ret_spec in H as [_ ->]. destruct Hk as [[]|Hk]. exact Hk.
  - mstep H as u0. destruct (une_pick cf Hsc j s s0 HC HS E) as (Ei & Hoth & Hj).
    destruct (carryB cf [] _ s tt s0 (kb_update_next_event_date cf j) HC HS E) as (HC0 & HS0 & _ & _).
    apply (IH s0 s' HC0 HS0 H k). destruct (Z.eq_dec k j) as [->|Hne]; [right; exact Hj|].
    destruct Hk as [[Hk|Hk]|Hk]; [congruence|left; exact Hk|right].
    intros nd Hn. rewrite (Hoth k Hne) in Hn. destruct (Hk nd Hn) as [Hk1 Hk2]. split; [|exact Hk2]. intros i x Hi Hx. rewrite Ei in Hx. exact (Hk1 i x Hi Hx).
Qed.

(* ====================================================================================================================
   9. The theorems
   ==================================================================================================================== *)
(* the invariant at event boundaries *)
Definition Jrn2s (cf : config) (an : Z -> option Z) (s : sim) (h : list rec) : Prop :=
  Conserve2.WFx2 [] s /\ JH an h s /\ Lq s /\ IntInv cf None None [] s /\ Journey2.SrvInv cf [] s /\ PickOK cf s.

(* the invariant only looks at nodes, records, exit list and counter, and the creation counter *)
Lemma Jrn2s_same cf an s s' h : nodes s' = nodes s -> inds s' = inds s -> exit_ids s' = exit_ids s -> exit_n s' = exit_n s ->
  a_created (arr s') = a_created (arr s) -> Jrn2s cf an s h -> Jrn2s cf an s' h.
Proof.
  intros En Ei Ee Een Ec (A & B & C & D & E & F).
  assert (HZ : forall k, nodeZ s' k = nodeZ s k) by (intros k; apply nodeZ_same; exact En).
  split; [|split; [|split; [|split; [|split]]]].
  - eapply Conserve2.WFx2_shape; [|exact A]. unfold Conserve2.shp. rewrite En, Ei, Ee, Een, Ec. reflexivity.
  - apply (JH_mono an h s s' B); [intros k y; apply (at_node_nodes s s'); exact En|intros; rewrite Ei; reflexivity|exact Ee|lia].
  - exact (Lq_same s s' En Ei C).
  - apply (IntInv_step cf None None None [] [] s s' (fun _ => True) D).
    + intros k n Hk. rewrite HZ in Hk. exists n. auto.
    + intros k n i Hk Hin. split; [exact I|intros []].
    + intros i x _ Hx. exists x. rewrite Ei. auto.
    + intros i _ Hxc HO j0 n0 sv Hn0. rewrite HZ in Hn0. exact (HO Hxc j0 n0 sv Hn0).
    + intros Hp i x Hx. rewrite Ei in Hx. exact (ii_nb _ _ _ _ _ D Hp i x Hx).
  - destruct E as [S1 S2 S3 S4]. constructor; [| | |intros Hp y z Hy; rewrite Ei in Hy; exact (S4 Hp y z Hy)].
    + intros j nd Hn. rewrite HZ in Hn. exact (S1 j nd Hn).
    + intros j nd sv c Hn. rewrite HZ in Hn. rewrite Ei. exact (S2 j nd sv c Hn).
    + intros i x Hx. rewrite Ei in Hx. intros A1 A2 A3. destruct (S3 i x Hx A1 A2 A3) as (k & nd & P1 & P2 & P3). exists k, nd. rewrite HZ. auto.
  - intros j nd Hn. rewrite HZ in Hn. destruct (F j nd Hn) as [F1 F2]. split; [|exact F2]. intros i x Hi Hx. rewrite Ei in Hx. exact (F1 i x Hi Hx).
Qed.

Lemma NotInt_local cf ex xc fl s i x j nd : IntInv cf ex xc fl s -> find_ind i (inds s) = Some x -> i_node x = Some j -> nodeZ s j = Some nd ->
  ~ In i (n_interrupted nd) -> NotInt s i.
Proof.
  intros HI Hf Hnode Hn Hni k n Hk Hin. destruct (ii_mem _ _ _ _ _ HI k n i Hk Hin) as (_ & _ & x0 & Hx0 & Hk0 & _).
  assert (x0 = x) by congruence. subst x0. assert (k = j) by congruence. subst k. assert (n = nd) by congruence. subst n. exact (Hni Hin).
Qed.

Section Event.
  Variable cf : config.
  Hypothesis Hsc : scope2s cf = true.

  Lemma node_have_event_St an h j s s' : St cf an h [] s -> PickOK cf s -> node_have_event cf j s = Ok (tt, s') -> St cf an h [] s'.
  Proof.
    intros HSt HP H. unfold node_have_event in H. mstep H as nd.
    destruct (n_next_type nd =? 0) eqn:E0.
    { apply Z.eqb_eq in E0. apply (finish_service_St cf an h Hsc j s s' HSt); [|exact H].
      intros nd0 i x Hn0 Hi Hx. assert (nd0 = nd) by congruence. subst nd0. destruct (proj1 (proj1 (HP j nd Hn) i x Hi Hx) E0) as (P1 & P2 & P3).
      split; [exact P1|]. split; [exact P2|]. exact (NotInt_local cf None None [] s i x j nd (proj2 (proj2 HSt)) Hx P2 Hn P3). }
    destruct (n_next_type nd =? 1); [exact (change_shift_St cf an h Hsc j s s' HSt H)|].
    destruct (n_next_type nd =? 2) eqn:E2.
    { apply Z.eqb_eq in E2. apply (renege_St cf an h Hsc j s s' HSt); [|exact H].
      intros nd0 i x Hn0 Hi Hx. assert (nd0 = nd) by congruence. subst nd0. exact (proj2 (proj1 (HP j nd Hn) i x Hi Hx) E2). }
    destruct (n_next_type nd =? 3) eqn:E3.
    { apply Z.eqb_eq in E3. pose proof (proj2 (HP j nd Hn) E3) as Hdyn.
      assert (Hnp : preempts cf = false) by (destruct (preempts cf) eqn:Ep; [|reflexivity]; pose proof (proj2 (scope2s_pre cf Hsc Ep)); congruence).
      exact (ccww_St cf an h j s s' Hnp HSt H). }
    destruct (n_next_type nd =? 4); [exact (slotted_service_St cf an h Hsc j s s' HSt H)|].
    apply ret_spec in H as [_ ->]. exact HSt.
  Qed.

  (* one event: the history is extended by the records of the event *)
  Lemma event_step_Jrn2s an h s s' : Jrn2s cf an s h ->
    (next_active s = 0 -> forall i, a_created (arr s) < i -> an i = Some (a_next_node (arr s))) ->
    event_step cf s = Ok (tt, s') -> Jrn2s cf an s' (h ++ log s').
  Proof.
    intros HJ Han H. unfold event_step in H. mstep H as u0. unfold modify in E. injection E as <-.
    set (s0 := s <| log := [] |>) in *.
    assert (HJ0 : Jrn2s cf an s0 h) by (apply (Jrn2s_same cf an s s0 h); try reflexivity; exact HJ).
    destruct HJ0 as (A & B & C & D & E & F).
    assert (St0 : St cf an h [] s0).
    { split; [split; [exact A|split; [|exact C]]|split; [exact E|exact D]]. unfold JI. change (log s0) with (@nil rec). rewrite app_nil_r. exact B. }
    mstep H as k. mstep H as u1.
    assert (St1 : St cf an h [] s1).
    { destruct (next_active s0 =? 0) eqn:Ek.
      - apply Z.eqb_eq in Ek. apply (arrival_have_event_St cf an h Hsc s0 s1 St0); [|exact E0]. exact (Han Ek).
      - exact (node_have_event_St an h _ s0 s1 St0 F E0). }
    clear E0. mstep H as ns. mstep H as u2.
    destruct (St_carryB cf an h [] _ s1 tt s2 (kb_update_all cf _) St1 E0) as (St2 & EJ2 & _).
    assert (P2 : PickOK cf s2).
    { intros j nd' Hn'. destruct (VJ_node _ _ _ _ EJ2 Hn') as (nd & Hn & Eid & _).
      pose proof (WFx2_Idx _ _ (proj1 (proj1 St1)) _ _ Hn) as Hidn.
      apply (update_all_pick cf Hsc _ s1 s2 (St_Ctx cf an h [] s1 St1) (proj2 St1) E0 j); [|exact Hn'].
      left. rewrite <- Hidn. apply in_map. eapply nthZ_In; exact Hn. }
    clear E0.
    destruct (fnan_spec _ _ H) as (En & Ei & El & Ee & Een & Ea).
    apply (Jrn2s_same cf an s2 s' (h ++ log s')); [exact En|exact Ei|exact Ee|exact Een|rewrite Ea; reflexivity|].
    destruct St2 as [(A2 & B2 & C2) [E2 D2]]. rewrite El. split; [exact A2|]. split; [exact B2|]. split; [exact C2|]. split; [exact D2|]. split; [exact E2|exact P2].
  Qed.
End Event.

(* T2 for C03 on the stage-2 engine, one event: the history is extended by the records of the event *)
Theorem event_step_jrn2s cf an s s' h : scope2s cf = true -> Jrn2s cf an s h -> event_step cf s = Ok (tt, s') ->
  Jrn2s cf (an_step s an) s' (h ++ log s').
Proof.
  intros Hsc (A & B & C & D & E & F) H.
  apply (event_step_Jrn2s cf Hsc (an_step s an) h s s'); [|intros H0 i Hi; apply an_step_new; assumption|exact H].
  split; [exact A|]. split; [|auto]. apply (JH_an_ext an _ _ _ A); [|exact B]. intros i Hi. apply an_step_old. exact Hi.
Qed.

Lemma Jrn2s_dr cf an s h d : Jrn2s cf an s h -> Jrn2s cf an (s <| dr := d |>) h.
Proof. apply Jrn2s_same; reflexivity. Qed.

Theorem run_hist_jrn2s cf : scope2s cf = true -> forall ds s h an s' h' an', Jrn2s cf an s h -> run_hist cf s h an ds = Ok (s', h', an') -> Jrn2s cf an' s' h'.
Proof.
  intros Hsc. induction ds as [|d r IH]; intros s h an s' h' an' HJ H; cbn [run_hist] in H; [injection H as <- <- <-; exact HJ|].
  destruct (event_step cf (s <| dr := d |>)) as [[u s1]| |] eqn:E; try discriminate. destruct u.
  eapply IH; [|exact H]. exact (event_step_jrn2s cf an _ s1 h Hsc (Jrn2s_dr _ _ _ _ d HJ) E).
Qed.
(* the same for Codec2.run_many: the final state satisfies the invariant for the accumulated history *)
Theorem run_many_jrn2s cf ds s h an s' : scope2s cf = true -> Jrn2s cf an s h -> run_many cf s ds = Ok s' ->
  exists h' an', run_hist cf s h an ds = Ok (s', h', an') /\ Jrn2s cf an' s' h' /\ exists t, h' = h ++ t.
Proof.
  intros Hsc HJ H. destruct (run_many_hist cf ds s h an s' H) as (h' & an' & Hh). exists h', an'. split; [exact Hh|].
  split; [eapply run_hist_jrn2s; eauto|eapply run_hist_grows; eauto].
Qed.
Theorem engine_journey2s cf ds s h an s' h' an' : scope2s cf = true -> Jrn2s cf an s h -> run_hist cf s h an ds = Ok (s', h', an') ->
  run_many cf s ds = Ok s' /\ (exists t, h' = h ++ t) /\ Jrn2s cf an' s' h'.
Proof.
  intros Hsc HJ H. split; [eapply run_hist_many; eauto|]. split; [eapply run_hist_grows; eauto|eapply run_hist_jrn2s; eauto].
Qed.



Theorem Jrn2s_means cf an s h : Jrn2s cf an s h ->
  (* (0) the first record of a customer is at the node where it arrived *)
  (forall i r l, recs_of i h = r :: l -> an i = Some (r_node r)) /\
  (* (1) the records of one customer, in order, are one connected journey: a record r1 that has a successor r2 is a
         service, interruption or renege record; if it closes its visit (service, renege, rerouting interruption) it names
         the node of r2 as destination and ends when the visit of r2 began; if it is an interruption in the middle of
         a visit, r2 belongs to the same visit: same node, same arrival date; r2 is not a baulk / rejection record *)
  (forall i l1 r1 r2 l2, recs_of i h = l1 ++ r1 :: r2 :: l2 ->
     visit r2 /\ ((closing r1 /\ r_dest r1 = Some (r_node r2) /\ r_exit r1 = r_arr r2) \/ (cont r1 /\ r_node r2 = r_node r1 /\ r_arr r2 = r_arr r1))) /\
  (* (2) a baulk / rejection record is its customer's only record *)
  (forall r, In r h -> ~ visit r -> recs_of (r_id r) h = [r]) /\
  (* (3) a customer in node k+1 is recorded there and has as many records as its own counter says; it has no record yet
         and k+1 is where it arrived, or its last record closed the previous visit naming k+1 and ending at the customer's
         arrival date here, or its last record is an interruption of the present visit (node k+1, same arrival date) *)
  (forall k nd i, nth_error (nodes s) k = Some nd -> In i (all_individuals nd) ->
     exists x, find_ind i (inds s) = Some x /\ i_node x = Some (Z.of_nat k + 1) /\ i_nrec x = zlen (recs_of i h) /\
       ((recs_of i h = [] /\ an i = Some (Z.of_nat k + 1)) \/
        exists l r, recs_of i h = l ++ [r] /\
          ((closing r /\ r_dest r = Some (Z.of_nat k + 1) /\ r_exit r = i_arr x) \/ (cont r /\ r_node r = Z.of_nat k + 1 /\ r_arr r = i_arr x))) /\
       (* the last visit-closing record names k+1 and ends at the arrival date; the records after it are of this visit *)
       (forall l1 r l2, recs_of i h = l1 ++ r :: l2 -> Forall cont l2 -> closing r ->
          r_dest r = Some (Z.of_nat k + 1) /\ r_exit r = i_arr x /\ Forall (fun r' => r_node r' = Z.of_nat k + 1 /\ r_arr r' = i_arr x) l2) /\
       (* no visit-closing record at all: every record is of this visit, and this is where the customer arrived *)
       (Forall cont (recs_of i h) -> an i = Some (Z.of_nat k + 1) /\ Forall (fun r' => r_node r' = Z.of_nat k + 1 /\ r_arr r' = i_arr x) (recs_of i h))) /\
  (* (4) a customer is at the exit exactly when its last record names destination -1 or is a baulk / rejection record *)
  (forall i, 1 <= i <= a_created (arr s) ->
     (In i (exit_ids s) <-> exists l r, recs_of i h = l ++ [r] /\ (r_dest r = Some (-1) \/ r_type r = 3 \/ r_type r = 4))) /\
  (* (5) records only name customers that exist *)
  (forall r, In r h -> r_id r <= a_created (arr s)).
Proof.
  intros (HW & [A B C F D] & _).
  assert (P3 : forall k nd i, nth_error (nodes s) k = Some nd -> In i (all_individuals nd) ->
     exists x, find_ind i (inds s) = Some x /\ good an (Z.of_nat k + 1) i x h).
  { intros k nd i Hk Hin. apply (A (Z.of_nat k + 1) i). exists nd. split; [|exact Hin]. unfold nodeZ.
    replace (Z.of_nat k + 1 - 1) with (Z.of_nat k) by lia. rewrite Conserve2.nthZ_of_nat. exact Hk. }
  split; [exact F|]. split; [|split; [|split; [|split; [|exact D]]]].
  - intros i l1 r1 r2 l2 E. pose proof (C i) as Hc. rewrite E in Hc. apply chain_mid in Hc. exact Hc.
  - intros r Hr Hty. apply (chain_only _ r (C (r_id r))); [apply recs_of_In; auto|exact Hty].
  - intros k nd i Hk Hin. destruct (P3 k nd i Hk Hin) as (x & Hx & Gn & Gl & Gc & Ga). exists x.
    split; [exact Hx|]. split; [exact Gn|]. split; [exact Gc|]. split; [|split].
    + unfold last_of in Gl. destruct (last_opt (recs_of i h)) as [r|] eqn:El.
      * right. destruct (last_opt_split _ _ El) as [l Hl]. exists l, r. split; [exact Hl|exact Gl].
      * left. apply last_opt_None in El. auto.
    + intros l1 r l2 E Hf Hcl. pose proof (C i) as Hc. rewrite E in Hc.
      assert (Hc' : chain (r :: l2)) by (clear -Hc; induction l1 as [|a t IH]; [exact Hc|apply IH; destruct Hc as [_ Hc]; exact Hc]).
      assert (Hl' : lastok (Z.of_nat k + 1) (i_arr x) (last_opt (r :: l2))).
      { unfold last_of in Gl. rewrite E in Gl. clear -Gl. induction l1 as [|a t IH]; [exact Gl|apply IH]. cbn [app last_opt] in Gl.
        destruct (last_opt (t ++ r :: l2)) eqn:E0; [exact Gl|]. apply last_opt_None in E0. destruct t; discriminate E0. }
      destruct (chain_visit _ _ l2 r Hc' Hf Hl') as (Q1 & _ & Q3). destruct (Q1 Hcl). auto.
    + intros Hf. destruct (recs_of i h) as [|r l] eqn:E; [split; [exact (Ga eq_refl)|constructor]|].
      inversion Hf as [|? ? Hcr Hfl]. subst. pose proof (C i) as Hc. rewrite E in Hc. unfold last_of in Gl. rewrite E in Gl.
      destruct (chain_visit _ _ l r Hc Hfl Gl) as (_ & Q2 & Q3). destruct (Q2 Hcr) as [N1 A1].
      split; [rewrite (F i r l E), N1; reflexivity|constructor; auto].
  - intros i Hi. split.
    + intros Hin. destruct (B i Hin) as (r & Hl & Ht). destruct (last_opt_split _ _ Hl) as [l El]. exists l, r. split; [exact El|].
      destruct Ht as [[_ Hd]|[Ht|Ht]]; auto.
    + intros (l & r & El & Hr).
      destruct (Conserve2.WFx2_means _ HW) as (HP & _).
      assert (Hin : In i (Conserve2.ids_of s)) by (eapply Permutation_in; [symmetry; exact HP|]; apply zseq_In; lia).
      unfold Conserve2.ids_of in Hin. apply in_app_or in Hin as [Hin|Hin]; [exfalso|exact Hin].
      unfold Conserve2.ids_in_nodes in Hin. apply in_concat in Hin as (q & Hq & Hiq). apply in_map_iff in Hq as (nd & <- & Hnd).
      apply In_nth_error in Hnd as (k & Hk).
      destruct (P3 k nd i Hk Hiq) as (x & _ & _ & Gl & _ & _). unfold last_of in Gl. rewrite El, last_opt_snoc in Gl.
      destruct Gl as [(Hcl & Hd & _)|((Ht & Hd) & _)].
      * destruct Hr as [Hr|[Hr|Hr]]; [rewrite Hr in Hd; injection Hd as Hd; lia| |]; destruct Hcl as [Hc|[Hc|[Hc _]]]; congruence.
      * destruct Hr as [Hr|[Hr|Hr]]; congruence.
Qed.


(* ====================================================================================================================
   10. An executable test of the invariant (Journey2's tests; int_b for the interrupted lists; picks_b)
   ==================================================================================================================== *)
Definition noowner_b (cf : config) (s : sim) (i : Z) : bool :=
  forallb (fun nd => slot_of cf (n_id nd) || forallb (fun sv => negb (ozeqb (sv_cust sv) (Some i))) (n_servers nd)) (nodes s).
Definition int_b (cf : config) (s : sim) : bool :=
  forallb (fun nd =>
     (if psched_of cf (n_id nd) then true else match n_interrupted nd with [] => true | _ => false end)
     && nodupZ (n_interrupted nd)
     && forallb (fun i => match find_ind i (inds s) with
                          | Some x => ozeqb (i_node x) (Some (n_id nd)) && negb (isnone (i_server x)) && noowner_b cf s i
                          | None => false end) (n_interrupted nd)) (nodes s)
  && (if psched cf then forallb (fun x => negb (i_blocked x)) (inds s) else true).
Definition picks_b (cf : config) (s : sim) : bool :=
  forallb (fun nd => forallb (fun i => match find_ind i (inds s) with
                                       | None => true
                                       | Some x => (if n_next_type nd =? 0 then negb (i_blocked x) && ozeqb (i_node x) (Some (n_id nd)) && negb (memZ i (n_interrupted nd)) else true)
                                                   && (if n_next_type nd =? 2 then negb (i_blocked x) && isnone (i_server x) else true)
                                       end) (n_next_inds nd)
                     && (if n_next_type nd =? 3 then cf_dyn cf else true)) (nodes s).
Definition jrn2s_b (cf : config) (an : Z -> option Z) (s : sim) (h : list rec) : bool :=
  Conserve2.wfx2_b s && jh_b an s h && lq_b s && int_b cf s && forallb (srvn_b cf) (nodes s) && forallb (own_b cf s) (nodes s)
  && blk_b cf s && picks_b cf s && nb_b cf s.

Theorem jrn2s_b_sound cf an s h : jrn2s_b cf an s h = true -> Jrn2s cf an s h.
Proof.
  unfold jrn2s_b. intros H. apply andb_true_iff in H as [H B9].
  apply andb_true_iff in H as [H B8]. apply andb_true_iff in H as [H B7]. apply andb_true_iff in H as [H B6]. apply andb_true_iff in H as [H B5].
  apply andb_true_iff in H as [H B4]. apply andb_true_iff in H as [H B3]. apply andb_true_iff in H as [B1 B2].
  pose proof (Conserve2.wfx2_b_sound s B1) as HW. pose proof (WFx2_Idx _ _ HW) as HI.
  unfold lq_b in B3. unfold int_b in B4. unfold blk_b in B7. unfold picks_b in B8. apply andb_true_iff in B4 as [B4 B4'].
  rewrite forallb_forall in B3, B4, B5, B6, B7, B8.
  split; [exact HW|]. split; [apply jh_b_sound; assumption|]. split; [|split; [|split]].
  - constructor.
    + intros d fr y (nd & Hn & Hin). specialize (B3 nd (nthZ_In _ _ _ Hn)). apply andb_true_iff in B3 as [B3 _]. rewrite forallb_forall in B3.
      specialize (B3 (fr, y) Hin). cbn in B3. destruct (find_ind y (inds s)) as [x|]; [|discriminate]. apply andb_true_iff in B3 as [E1 E2].
      exists x. rewrite (HI _ _ Hn) in E1. split; [reflexivity|]. split; [apply ozeqb_eq; exact E1|exact E2].
    + intros d nd Hn. specialize (B3 nd (nthZ_In _ _ _ Hn)). apply andb_true_iff in B3 as [_ B3]. apply nodupZ_sound. exact B3.
  - constructor.
    + intros j nd Hn Hp. specialize (B4 nd (nthZ_In _ _ _ Hn)). apply andb_true_iff in B4 as [B4 _]. apply andb_true_iff in B4 as [B4 _].
      rewrite (HI _ _ Hn), Hp in B4. destruct (n_interrupted nd); [reflexivity|discriminate B4].
    + intros j nd Hn. specialize (B4 nd (nthZ_In _ _ _ Hn)). apply andb_true_iff in B4 as [B4 _]. apply andb_true_iff in B4 as [_ B4]. apply nodupZ_sound. exact B4.
    + intros j nd i Hn Hin. specialize (B4 nd (nthZ_In _ _ _ Hn)). apply andb_true_iff in B4 as [_ B4]. rewrite forallb_forall in B4. specialize (B4 i Hin).
      destruct (find_ind i (inds s)) as [x|]; [|discriminate B4]. apply andb_true_iff in B4 as [B4 E3]. apply andb_true_iff in B4 as [E1 E2].
      split; [intros []|]. split.
      * intros _ j0 n0 sv Hn0 _ Hsl Hsv Hcu. unfold noowner_b in E3. rewrite forallb_forall in E3. specialize (E3 n0 (nthZ_In _ _ _ Hn0)).
        rewrite (HI _ _ Hn0), Hsl in E3. cbn in E3. rewrite forallb_forall in E3. specialize (E3 sv Hsv). rewrite Hcu in E3. cbn in E3. rewrite Z.eqb_refl in E3. discriminate E3.
      * exists x. split; [reflexivity|]. rewrite (HI _ _ Hn) in E1. split; [apply ozeqb_eq; exact E1|]. destruct (i_server x); [discriminate|discriminate E2].
    + intros Hp i x Hf. rewrite Hp in B4'. rewrite forallb_forall in B4'. specialize (B4' x (find_ind_In _ _ _ Hf)). apply negb_true_iff in B4'. exact B4'.
  - constructor.
    + intros j nd Hn. specialize (B5 nd (nthZ_In _ _ _ Hn)). unfold srvn_b in B5. rewrite (HI _ _ Hn) in B5.
      apply andb_true_iff in B5 as [B5 E4]. apply andb_true_iff in B5 as [B5 E3]. apply andb_true_iff in B5 as [E1 E2]. constructor.
      * apply nodupZ_sound. exact E1.
      * intros sv Hsv. rewrite forallb_forall in E2. apply Z.leb_le. exact (E2 sv Hsv).
      * intros Hi. rewrite Hi in E3. destruct (n_servers nd); [reflexivity|discriminate E3].
      * intros Hs. rewrite Hs in E4. apply negb_true_iff in E4. exact E4.
    + intros j nd sv c Hn Hsl Hin Hc. specialize (B6 nd (nthZ_In _ _ _ Hn)). unfold own_b in B6. rewrite (HI _ _ Hn), Hsl in B6.
      rewrite forallb_forall in B6. specialize (B6 sv Hin). rewrite Hc in B6. destruct (find_ind c (inds s)) as [x|]; [|discriminate].
      apply andb_true_iff in B6 as [B6 E3]. apply andb_true_iff in B6 as [E1 E2]. exists x. split; [reflexivity|].
      split; [apply ozeqb_eq; exact E1|]. split; [apply ozeqb_eq; exact E2|]. intros Hne. destruct (sv_next_end sv); [|congruence].
      cbn in E3. apply negb_true_iff in E3. exact E3.
    + intros i x Hf _ Hb Hs. specialize (B7 x (find_ind_In _ _ _ Hf)). rewrite Hb, Hs in B7. cbn in B7.
      destruct (i_node x) as [k|]; [|discriminate]. destruct (nodeZ s k) as [nd|] eqn:En; [|discriminate]. exists k, nd.
      split; [reflexivity|]. split; [exact En|]. apply orb_true_iff in B7. exact B7.
    + intros Hp i x Hf. unfold nb_b in B9. rewrite Hp in B9. rewrite forallb_forall in B9. specialize (B9 x (find_ind_In _ _ _ Hf)). apply negb_true_iff in B9. exact B9.
  - intros j nd Hn. specialize (B8 nd (nthZ_In _ _ _ Hn)). apply andb_true_iff in B8 as [B8 B8'].
    split; [|intros Ht; rewrite Ht in B8'; exact B8'].
    intros i x Hi Hx. rewrite forallb_forall in B8. specialize (B8 i Hi). rewrite Hx, (HI _ _ Hn) in B8.
    apply andb_true_iff in B8 as [E1 E2]. split.
    + intros Ht. rewrite Ht in E1. cbn in E1. apply andb_true_iff in E1 as [F1 F3]. apply andb_true_iff in F1 as [F1 F2]. apply negb_true_iff in F1.
      split; [exact F1|]. split; [apply ozeqb_eq; exact F2|]. intros Hm. apply memZ_In in Hm. rewrite Hm in F3. discriminate F3.
    + intros Ht. rewrite Ht in E2. cbn in E2. apply andb_true_iff in E2 as [F1 F2]. apply negb_true_iff in F1. split; [exact F1|apply isnone_eq; exact F2].
Qed.


(* the interrupted customers, in words: those on the list of node k+1 are distinct customers in the queues of that node, recorded
   there, not blocked, each recording a server while no server of the node holds it (its server has retired); only a node with
   a pre-emptive Schedule has any *)
Theorem Jrn2s_int_means cf an s h : Jrn2s cf an s h ->
  forall k nd, nth_error (nodes s) k = Some nd ->
    NoDup (n_interrupted nd) /\ (psched_of cf (Z.of_nat k + 1) = false -> n_interrupted nd = []) /\
    forall i, In i (n_interrupted nd) ->
      In i (all_individuals nd) /\ (forall sv, In sv (n_servers nd) -> sv_cust sv <> Some i) /\
      exists x, find_ind i (inds s) = Some x /\ i_node x = Some (Z.of_nat k + 1) /\ i_server x <> None /\ i_blocked x = false.
Proof.
  intros (HW & HJ & _ & HI & HS & _) k nd Hk.
  assert (Hn : nodeZ s (Z.of_nat k + 1) = Some nd).
  { unfold nodeZ. replace (Z.of_nat k + 1 - 1) with (Z.of_nat k) by lia. rewrite Conserve2.nthZ_of_nat. exact Hk. }
  split; [exact (ii_nd _ _ _ _ _ HI _ nd Hn)|]. split; [exact (ii_sch _ _ _ _ _ HI _ nd Hn)|]. intros i Hin.
  destruct (ii_mem _ _ _ _ _ HI _ nd i Hn Hin) as (_ & F2 & x & Hx & P1 & P2).
  assert (Hps : psched_of cf (Z.of_nat k + 1) = true).
  { destruct (psched_of cf (Z.of_nat k + 1)) eqn:Ep; [reflexivity|]. rewrite (ii_sch _ _ _ _ _ HI _ nd Hn Ep) in Hin. destruct Hin. }
  destruct (psched_of_sched _ _ Hps) as [_ Hslot]. split; [|split].
  - destruct (WFx2_rec_place _ _ _ _ HW Hx) as [[k0 Hk0]|[]]. destruct (j_node _ _ _ HJ k0 i Hk0) as (x0 & Hx0 & G & _).
    assert (x0 = x) by congruence. subst x0. assert (k0 = Z.of_nat k + 1) by congruence. subst k0.
    destruct Hk0 as (n0 & Hn0 & Hi0). assert (n0 = nd) by congruence. subst n0. exact Hi0.
  - intros sv Hsv. exact (F2 ltac:(discriminate) _ nd sv Hn ltac:(discriminate) Hslot Hsv).
  - exists x. split; [exact Hx|]. split; [exact P1|]. split; [exact P2|]. exact (ii_nb _ _ _ _ _ HI (psched_of_psched _ _ Hps) i x Hx).
Qed.

(* ====================================================================================================================
   11. Non-vacuity.  One node with a PRE-EMPTIVE Schedule (resume): one server on [0, 10), none on [10, 20), one on [20, 30),
   then again; everybody leaves after service.  Customers arrive at 1, 8, 15, ...; services take 15 ticks.  Customer 1 starts
   at 1; the shift end at 10 interrupts it (an interruption record without destination: a continuation record of its visit)
   and its server retires; nobody serves on [10, 20): it sits on the list of interrupted customers of its node (n_nint = 1:
   Journey2's NoInt is false in that state); the server that comes on duty at 20 restarts it with its 6 remaining ticks; at 26
   it leaves with a service record of the same visit.
   ==================================================================================================================== *)
Definition sx_cf : config :=
  mkCfg 1 [ mkNcfg None None 0 (SSched (mkSched [10; 20; 30] [1; 0; 1] 0 1)) 0 false [false] 0 ]
    [0] 1 None [ RtNR [RLeave] ] [ [None] ] false [ [false] ].
Definition sx_node : node := mkNode 1 0 0 [[]] [] [] 0 (Some 0) [] (Some 0) 0 [] 0 [] [] [] 1 (Some 0) 0 None None.
Definition sx_s0 : sim :=
  mkSim 0 1 (mkArr 0 0 [[Some 1]] 1 0 (Some 1)) [sx_node] [] 0 0 [] (mkDraws [] [] [] [] [] []) [] [[0]].
Definition sx_d : draws := mkDraws [7] [1] [15] [0; 0] [] [].

Example sx_scope : scope2s sx_cf = true /\ scope2 sx_cf = false. Proof. vm_compute. auto. Qed.
Example sx_start : jrn2s_b sx_cf jx_an0 sx_s0 [] = true. Proof. vm_compute. reflexivity. Qed.
Example sx_Jrn2s : Jrn2s sx_cf jx_an0 sx_s0 []. Proof. apply jrn2s_b_sound. vm_compute. reflexivity. Qed.
(* after the shift end at 10: customer 1 is interrupted, still in its queue, on the interrupted list; no server on duty *)
Example sx_mid : exists s h an, run_hist sx_cf sx_s0 [] jx_an0 (repeat sx_d 4) = Ok (s, h, an) /\
  now s = 15 /\ map jx_view h = [(1, 1, 1, Some 1, Some 10, None)] /\
  map all_individuals (nodes s) = [[1; 2]] /\ map n_interrupted (nodes s) = [[1]] /\ map n_nint (nodes s) = [1] /\
  map (fun nd => map srv3 (n_servers nd)) (nodes s) = [[]] /\
  noint_b s = false /\ jrn2s_b sx_cf an s h = true.
Proof. eexists. eexists. eexists. split; [vm_compute; reflexivity|]. vm_compute. auto 10. Qed.
(* after 8 events: customer 1 was restarted at 20 and left at 26 *)
Example sx_run : exists s h an, run_hist sx_cf sx_s0 [] jx_an0 (repeat sx_d 8) = Ok (s, h, an) /\
  map jx_view h = [(1, 1, 1, Some 1, Some 10, None); (1, 1, 0, Some 1, Some 26, Some (-1))] /\
  map all_individuals (nodes s) = [[2; 3; 4]] /\ map n_interrupted (nodes s) = [[]] /\ exit_ids s = [1] /\
  jrn2s_b sx_cf an s h = true.
Proof. eexists. eexists. eexists. split; [vm_compute; reflexivity|]. vm_compute. auto 7. Qed.
(* the same states satisfy the invariant by the theorem (not by computation) *)
Example sx_thm : forall n s h an, run_hist sx_cf sx_s0 [] jx_an0 (repeat sx_d n) = Ok (s, h, an) -> Jrn2s sx_cf an s h.
Proof. intros n s h an H. exact (run_hist_jrn2s sx_cf (proj1 sx_scope) _ _ _ _ _ _ _ sx_Jrn2s H). Qed.

(* Journey2's two networks are in the new scope too (and their start states satisfy the new invariant) *)
Example jx_Jrn2s : scope2s jx_cf = true /\ Jrn2s jx_cf jx_an0 jx_s0 [].
Proof. split; [vm_compute; reflexivity|apply jrn2s_b_sound; vm_compute; reflexivity]. Qed.
Example jp_Jrn2s : scope2s Conserve2.ex_cf = true /\ Jrn2s Conserve2.ex_cf jx_an0 Conserve2.ex_s0 [].
Proof. split; [vm_compute; reflexivity|apply jrn2s_b_sound; vm_compute; reflexivity]. Qed.

(* ====================================================================================================================
   12. Outside the scope: a pre-emptive Schedule together with a capacity (region F-02b).  NOT refuted: on the F-02b run of
   Clock2.v (node 1 with a resume Schedule feeds node 2 that has no waiting room; customer 2 is blocked at node 1 when the shift
   change at 10 interrupts it; the clock goes back from 10 to 6, again at 20 and 30) the auxiliary invariant fails (a customer is
   blocked although the configuration has a pre-emptive Schedule: int_b = false) but the journey invariant proper (jh_b) keeps
   holding, so this run is no witness against the statement; the scope excludes the region because the proof needs "an
   interrupted customer is not blocked".
   ==================================================================================================================== *)
Definition fb_cf : config :=
  mkCfg 1 [ mkNcfg None None 0 (SSched (mkSched [10; 20] [1; 1] 0 1)) 0 false [false] 0; mkNcfg (Some 1) None 0 SFixed 0 false [false] 0 ]
    [0] 1 None [RtNR [RDirect 2; RLeave]] [[None; None]] false [[false]].
Definition fb_s0 : sim :=
  mkSim 0 1 (mkArr 0 0 [[Some 1]; [None]] 1 0 (Some 1))
    [ mkNode 1 0 0 [[]] [] [] 0 (Some 0) [] (Some 0) 0 [] 0 [] [] [] 1 (Some 0) 0 None None;
      mkNode 2 0 0 [[]] [mkServer 1 None false None 0 None 0 false 0 None] [] 0 None [] (Some 1) 1 [] 0 [] [] [] 5 None 0 None None ]
    [] 0 0 [] (mkDraws [] [] [] [] [] []) [] [[0; 0]].
Definition fb_nod : draws := mkDraws [] [] [] [] [] [].
Definition fb_ds : list draws :=
  [fb_nod; mkDraws [3] [1] [2] [] [] []; mkDraws [] [] [100] [] [] []; mkDraws [100] [1] [2] [] [] []; fb_nod; fb_nod; fb_nod; fb_nod].
Example f02b_not_a_witness : scope2s fb_cf = false /\ exists s h an, run_hist fb_cf fb_s0 [] jx_an0 fb_ds = Ok (s, h, an) /\
  map jx_view h = [(1, 1, 0, Some 1, Some 3, Some 2); (2, 1, 1, Some 4, Some 10, None); (2, 1, 1, Some 4, Some 20, None)] /\
  now s = 6 /\ jh_b an s h = true /\
  exists s4 h4 an4, run_hist fb_cf fb_s0 [] jx_an0 (firstn 5 fb_ds) = Ok (s4, h4, an4) /\ now s4 = 10 /\ map n_bq (nodes s4) = [[]; [(1, 2)]] /\
    int_b fb_cf s4 = false /\ jh_b an4 s4 h4 = true.
Proof.
  split; [vm_compute; reflexivity|]. eexists. eexists. eexists. split; [vm_compute; reflexivity|]. split; [vm_compute; reflexivity|].
  split; [vm_compute; reflexivity|]. split; [vm_compute; reflexivity|]. eexists. eexists. eexists. split; [vm_compute; reflexivity|]. vm_compute. auto.
Qed.

(* what is proved is partial with respect to the full stage-2 model: NOT covered (and not refuted) are pre-emptive capacitated
   slots (the interrupted list of a slotted node needs an invariant on service start / end dates: an interrupted customer has
   none), pre-emption by rerouting (priority option, Schedule option or slot option 4), a pre-emptive Schedule or priority
   pre-emption together with a capacity (F-02a refuted in Journey2.v, F-02b not refuted), priority pre-emption together with
   class change while waiting, reneging or priority pre-emption at a slotted node *)
Theorem event_step_jrn2s_partial cf an s s' h : scope2s cf = true -> Jrn2s cf an s h -> event_step cf s = Ok (tt, s') ->
  Jrn2s cf (an_step s an) s' (h ++ log s').
Proof. apply event_step_jrn2s. Qed.
Theorem run_many_jrn2s_partial cf ds s h an s' : scope2s cf = true -> Jrn2s cf an s h -> run_many cf s ds = Ok s' ->
  exists h' an', run_hist cf s h an ds = Ok (s', h', an') /\ Jrn2s cf an' s' h' /\ exists t, h' = h ++ t.
Proof. apply run_many_jrn2s. Qed.

Print Assumptions event_step_jrn2s.
Print Assumptions run_hist_jrn2s.
Print Assumptions run_many_jrn2s.
Print Assumptions engine_journey2s.
Print Assumptions Jrn2s_means.
Print Assumptions Jrn2s_int_means.
Print Assumptions jrn2s_b_sound.
Print Assumptions scope2_scope2s.
Print Assumptions sx_mid.
Print Assumptions sx_run.
Print Assumptions sx_thm.
Print Assumptions jx_Jrn2s.
Print Assumptions jp_Jrn2s.
Print Assumptions f02b_not_a_witness.
Print Assumptions event_step_jrn2s_partial.
Print Assumptions run_many_jrn2s_partial.

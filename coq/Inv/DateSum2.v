(* DateSum2.v -- T2 for C20 (dates are exact sums of the sampled values and the timetable constants) on the STAGE-2 engine
   model (State2 / Engine2 / Codec2): routers, reneging, priority pre-emption, server schedules, slotted services, class
   change while waiting included.  Partial correctness: nothing is said about runs that return Err / OutOfFuel.

   Statement: let g be any integer ("the tick of the grid").  If g divides every timetable constant of the configuration
   (Grid g cf), every date / duration held in the state (OnGrid g s) and every sampled TIME of the oracle (DrawsOn g d:
   inter-arrival, service, patience and class-change-time samples; NO hypothesis on uniforms and batch sizes), then after
   one event / any number of events the same holds of the state, of the unread draws and of every record written.
   Divisibility by g is closed under + , - , copying, min / max selection and multiplication by an integer count, and the
   engine does nothing else to a date: NO SCOPE RESTRICTION on the configuration is needed, the known defects of the real
   code (F-02a/b/c, F-09b, F-11a, F-12d) produce wrong dates, but dates on the grid.

   Classification of the fields of State2 (D = date, U = duration, - = not a time):
     sim   now D | next_active - | exit_ids exit_n exit_completed - | cyc - | dr: d_arr d_svc d_ren d_cct U, d_batch d_unif -
     arrst a_dates D (None = never) | a_next_date D | a_created a_accepted a_next_node a_next_cls -
     node  n_next_date D | n_next_shift D | n_nccd D | n_overtime n_all_busy n_all_total U (lists) |
           n_id n_pop n_insvc n_queues n_bq n_lenbq n_next_inds n_c n_highest n_interrupted n_nint n_next_type n_spos n_ncci -
     server sv_next_end D | sv_start D | sv_shift_end D | sv_busy_time sv_total_time sv_wrapped U | sv_id sv_cust sv_busy sv_offduty -
     ind   i_arr i_sst i_send i_exit i_osst D | i_ren i_ccd D (xz) | i_stime i_tleft i_ost U |
           i_id i_cls i_pcls i_ocls i_prio i_pprio i_node i_blocked i_server i_dest i_qa i_qd i_nrec i_smark i_interrupted i_ncls i_route -
     rec   r_arr r_sst r_send r_exit D | r_wait r_stime r_blocked U | r_id r_cls r_ocls r_node r_type r_dest r_qa r_qd r_server -
     config (timetable constants) sc_b sc_off sl_b sl_off (the cycle length is the last element of sc_b / sl_b);
           everything else (sc_v sl_v server counts / slot sizes, capacities, probabilities, priorities ...) is not a time.

   Method: a Hoare logic hg Q m over the engine monad ("from a state on the grid, m ends in a state on the grid and returns a
   value satisfying Q"), one short lemma per engine function (tactic hw), the recursive core by induction on fuel.

   Main results (EVERY configuration, every state on the grid, every oracle whose sampled times are on the grid, any number of events):
     event_step_grid / _records / _unread   one event keeps OnGrid; every record written and every unread sample is on the grid
     run_many_grid, run_many_log, records_grid (run_records = the records of all events of a run), no_drift
     event_step_tt, run_many_tt, records_tt  the same with Timetable g cf in place of Grid g cf: 0 < g is never used (any integer g)
     dates_in_generated_group, state_in_generated_group   g := gcd of all generators (timetable constants, times of the initial
                                             state, sampled times): every date / duration of every record is an INTEGER COMBINATION
                                             of the generators (Bezout), NO hypothesis at all
     wrap_up_servers_grid                    Simulation.wrap_up_servers(T) with T on the grid
     ongrid_b / grid_b / drawson_b / logon_b with soundness; grid_example (pre-emptive schedule + priority pre-emption, customer
     carrying time_left = 90, g = 5), slot_example (capacitated pre-emptive slots), ex_generators (gcd = 5),
     off_grid_sample_leaves_grid (the hypothesis on the samples is needed: a service sample 7 gives the end date 12).
   Findings: none.  No uniform and no batch size reaches a date (they select customers / destinations / counts only); the only
   multiplication is (number of completed cycles) * (cycle length) in the schedule generator, the only constants added are 0
   (numo of False, slot_values before the first slot); divisions and modulos act on generator POSITIONS, never on dates. *)
From Coq Require Import ZArith List Bool Lia.
From RecordUpdate Require Import RecordUpdate.
From CiwV Require Import Sx Prelude Routing Sched.
From CiwV.Engine Require Import State2 Engine2 Codec2.
From CiwV.Inv Require Route2.
Import ListNotations.
Open Scope Z_scope.

Local Arguments Z.mul : simpl never.
Local Arguments Z.add : simpl never.
Local Arguments Z.sub : simpl never.
Local Arguments Z.ltb : simpl never.
Local Arguments Z.leb : simpl never.
Local Arguments Z.eqb : simpl never.
Local Arguments Z.to_nat : simpl never.
Local Arguments Z.of_nat : simpl never.
Local Arguments Z.modulo : simpl never.
Local Arguments Z.min : simpl never.
Local Arguments Z.max : simpl never.
Local Arguments Z.divide : simpl never.
Local Arguments nth_error : simpl never.

(* ================================================================================================================ *)
(* Part 1: the grid                                                                                                 *)
(* ================================================================================================================ *)
Section Defs.
  Variable g : Z.
  Definition dv (z : Z) : Prop := Z.divide g z.
  Definition odv (o : option Z) : Prop := match o with Some z => dv z | None => True end.
  Definition xdv (x : xz) : Prop := match x with XV z => dv z | _ => True end.
  Definition ldv (l : list Z) : Prop := Forall dv l.

  (* the timetable constants of a configuration *)
  Definition SrvOn (sc : srvcfg) : Prop :=
    match sc with
    | SFixed => True
    | SSched sc => ldv (sc_b sc) /\ dv (sc_off sc)
    | SSlot sl => ldv (sl_b sl) /\ dv (sl_off sl)
    end.
  Definition Timetable (cf : config) : Prop := Forall (fun nc => SrvOn (nc_srv nc)) (cf_nodes cf).
  Definition Grid (cf : config) : Prop := 0 < g /\ Timetable cf.

  Definition ServerOn (sv : server) : Prop :=
    odv (sv_next_end sv) /\ dv (sv_busy_time sv) /\ odv (sv_total_time sv) /\ dv (sv_wrapped sv) /\ dv (sv_start sv) /\ odv (sv_shift_end sv).
  Definition NodeOn (nd : node) : Prop :=
    Forall ServerOn (n_servers nd) /\ odv (n_next_date nd) /\ ldv (n_overtime nd) /\ ldv (n_all_busy nd) /\ ldv (n_all_total nd) /\
    odv (n_next_shift nd) /\ odv (n_nccd nd).
  Definition IndOn (x : ind) : Prop :=
    odv (i_arr x) /\ odv (i_sst x) /\ odv (i_stime x) /\ odv (i_send x) /\ odv (i_exit x) /\ xdv (i_ren x) /\ xdv (i_ccd x) /\
    odv (i_tleft x) /\ odv (i_ost x) /\ odv (i_osst x).
  Definition ArrOn (a : arrst) : Prop := Forall (Forall odv) (a_dates a) /\ odv (a_next_date a).
  Definition RecOn (r : rec) : Prop :=
    odv (r_arr r) /\ odv (r_wait r) /\ odv (r_sst r) /\ odv (r_stime r) /\ odv (r_send r) /\ odv (r_blocked r) /\ odv (r_exit r).
  Definition LogOn (l : list rec) : Prop := Forall RecOn l.
  Definition DrawsOn (d : draws) : Prop := ldv (d_arr d) /\ ldv (d_svc d) /\ ldv (d_ren d) /\ ldv (d_cct d).

  (* every date and every duration held in the state (the oracle and the records of the current event apart) *)
  Definition OnGrid (s : sim) : Prop :=
    dv (now s) /\ ArrOn (arr s) /\ Forall NodeOn (nodes s) /\ Forall IndOn (inds s).
  (* what the walk carries: state, unread draws, records written so far *)
  Definition GS (s : sim) : Prop := OnGrid s /\ DrawsOn (dr s) /\ LogOn (log s).
End Defs.

(* ---------- executable twins ---------- *)
Section Bool.
  Variable g : Z.
  Definition dvb (z : Z) : bool := if g =? 0 then z =? 0 else z mod g =? 0.
  Definition odvb (o : option Z) : bool := match o with Some z => dvb z | None => true end.
  Definition xdvb (x : xz) : bool := match x with XV z => dvb z | _ => true end.
  Definition ldvb (l : list Z) : bool := forallb dvb l.
  Definition srvon_b (sc : srvcfg) : bool :=
    match sc with
    | SFixed => true
    | SSched sc => ldvb (sc_b sc) && dvb (sc_off sc)
    | SSlot sl => ldvb (sl_b sl) && dvb (sl_off sl)
    end.
  Definition grid_b (cf : config) : bool := (0 <? g) && forallb (fun nc => srvon_b (nc_srv nc)) (cf_nodes cf).
  Definition serveron_b (sv : server) : bool :=
    odvb (sv_next_end sv) && dvb (sv_busy_time sv) && odvb (sv_total_time sv) && dvb (sv_wrapped sv) && dvb (sv_start sv) && odvb (sv_shift_end sv).
  Definition nodeon_b (nd : node) : bool :=
    forallb serveron_b (n_servers nd) && odvb (n_next_date nd) && ldvb (n_overtime nd) && ldvb (n_all_busy nd) && ldvb (n_all_total nd) &&
    odvb (n_next_shift nd) && odvb (n_nccd nd).
  Definition indon_b (x : ind) : bool :=
    odvb (i_arr x) && odvb (i_sst x) && odvb (i_stime x) && odvb (i_send x) && odvb (i_exit x) && xdvb (i_ren x) && xdvb (i_ccd x) &&
    odvb (i_tleft x) && odvb (i_ost x) && odvb (i_osst x).
  Definition arron_b (a : arrst) : bool := forallb (forallb odvb) (a_dates a) && odvb (a_next_date a).
  Definition recon_b (r : rec) : bool :=
    odvb (r_arr r) && odvb (r_wait r) && odvb (r_sst r) && odvb (r_stime r) && odvb (r_send r) && odvb (r_blocked r) && odvb (r_exit r).
  Definition logon_b (l : list rec) : bool := forallb recon_b l.
  Definition drawson_b (d : draws) : bool := ldvb (d_arr d) && ldvb (d_svc d) && ldvb (d_ren d) && ldvb (d_cct d).
  (* the configuration is an argument only for uniformity with the other invariants: OnGrid does not look at it *)
  Definition ongrid_b (cf : config) (s : sim) : bool :=
    dvb (now s) && arron_b (arr s) && forallb nodeon_b (nodes s) && forallb indon_b (inds s).

  Lemma dvb_sound z : dvb z = true -> dv g z.
  Proof.
    unfold dvb, dv. destruct (g =? 0) eqn:E; intros H; apply Z.eqb_eq in H.
    - apply Z.eqb_eq in E. rewrite H, E. apply Z.divide_0_r.
    - apply Z.eqb_neq in E. apply Z.mod_divide; assumption.
  Qed.
  Lemma odvb_sound o : odvb o = true -> odv g o. Proof. destruct o; cbn; [apply dvb_sound|auto]. Qed.
  Lemma xdvb_sound x : xdvb x = true -> xdv g x. Proof. destruct x; cbn; auto. apply dvb_sound. Qed.
  Lemma forallb_Forall {X} (p : X -> bool) (P : X -> Prop) l : (forall x, p x = true -> P x) -> forallb p l = true -> Forall P l.
  Proof. intros Hp. induction l as [|a r IH]; cbn; intros H; constructor; apply andb_prop in H as [H1 H2]; auto. Qed.
  Lemma ldvb_sound l : ldvb l = true -> ldv g l. Proof. apply forallb_Forall. apply dvb_sound. Qed.
  Ltac bsplit H := repeat (let H2 := fresh "Hb" in apply andb_prop in H as [H H2]).
  Lemma srvon_b_sound sc : srvon_b sc = true -> SrvOn g sc.
  Proof. destruct sc as [|sc|sl]; cbn; intros H; [exact I| |]; apply andb_prop in H as [H1 H2]; split; auto using ldvb_sound, dvb_sound. Qed.
  Lemma grid_b_sound cf : grid_b cf = true -> Grid g cf.
  Proof. unfold grid_b, Grid. intros H. apply andb_prop in H as [H1 H2]. split; [apply Z.ltb_lt; exact H1|]. eapply forallb_Forall; [|exact H2]. intros nc. apply srvon_b_sound. Qed.
  Lemma serveron_b_sound sv : serveron_b sv = true -> ServerOn g sv.
  Proof. unfold serveron_b, ServerOn. intros H. bsplit H. repeat split; auto using odvb_sound, dvb_sound. Qed.
  Lemma nodeon_b_sound nd : nodeon_b nd = true -> NodeOn g nd.
  Proof.
    unfold nodeon_b, NodeOn. intros H. bsplit H. repeat split; auto using odvb_sound, ldvb_sound.
    eapply forallb_Forall; [|exact H]. apply serveron_b_sound.
  Qed.
  Lemma indon_b_sound x : indon_b x = true -> IndOn g x.
  Proof. unfold indon_b, IndOn. intros H. bsplit H. repeat split; auto using odvb_sound, xdvb_sound. Qed.
  Lemma arron_b_sound a : arron_b a = true -> ArrOn g a.
  Proof.
    unfold arron_b, ArrOn. intros H. bsplit H. split; [|apply odvb_sound; assumption].
    eapply forallb_Forall; [|exact H]. intros row. apply forallb_Forall. apply odvb_sound.
  Qed.
  Lemma recon_b_sound r : recon_b r = true -> RecOn g r.
  Proof. unfold recon_b, RecOn. intros H. bsplit H. repeat split; auto using odvb_sound. Qed.
  Lemma logon_b_sound l : logon_b l = true -> LogOn g l.
  Proof. apply forallb_Forall. apply recon_b_sound. Qed.
  Lemma drawson_b_sound d : drawson_b d = true -> DrawsOn g d.
  Proof. unfold drawson_b, DrawsOn. intros H. bsplit H. repeat split; auto using ldvb_sound. Qed.
  Theorem ongrid_b_sound cf s : ongrid_b cf s = true -> OnGrid g s.
  Proof.
    unfold ongrid_b, OnGrid. intros H. bsplit H. split; [apply dvb_sound; assumption|]. split; [apply arron_b_sound; assumption|].
    split; (eapply forallb_Forall; [|eassumption]); [apply nodeon_b_sound|apply indon_b_sound].
  Qed.

  (* the twins are exact: completeness *)
  Lemma dvb_complete z : dv g z -> dvb z = true.
  Proof.
    unfold dvb, dv. intros H. destruct (g =? 0) eqn:E.
    - apply Z.eqb_eq in E. rewrite E in H. apply Z.divide_0_l in H. apply Z.eqb_eq. exact H.
    - apply Z.eqb_neq in E. apply Z.eqb_eq. apply Z.mod_divide; assumption.
  Qed.
  Lemma odvb_complete o : odv g o -> odvb o = true. Proof. destruct o; cbn; [apply dvb_complete|auto]. Qed.
  Lemma xdvb_complete x : xdv g x -> xdvb x = true. Proof. destruct x; cbn; auto. apply dvb_complete. Qed.
  Lemma Forall_forallb {X} (p : X -> bool) (P : X -> Prop) l : (forall x, P x -> p x = true) -> Forall P l -> forallb p l = true.
  Proof. intros Hp H. induction H as [|a r Ha Hr IH]; cbn; [reflexivity|]. rewrite (Hp _ Ha), IH. reflexivity. Qed.
  Lemma ldvb_complete l : ldv g l -> ldvb l = true. Proof. apply Forall_forallb. apply dvb_complete. Qed.
  Ltac bjoin := repeat (apply andb_true_intro; split).
  Lemma serveron_b_complete sv : ServerOn g sv -> serveron_b sv = true.
  Proof. unfold serveron_b. intros (A1 & A2 & A3 & A4 & A5 & A6). bjoin; auto using odvb_complete, dvb_complete. Qed.
  Lemma nodeon_b_complete nd : NodeOn g nd -> nodeon_b nd = true.
  Proof.
    unfold nodeon_b. intros (A1 & A2 & A3 & A4 & A5 & A6 & A7). bjoin; auto using odvb_complete, ldvb_complete.
    eapply Forall_forallb; [|exact A1]. apply serveron_b_complete.
  Qed.
  Lemma indon_b_complete x : IndOn g x -> indon_b x = true.
  Proof. unfold indon_b. intros (A1 & A2 & A3 & A4 & A5 & A6 & A7 & A8 & A9 & A10). bjoin; auto using odvb_complete, xdvb_complete. Qed.
  Theorem ongrid_b_complete cf s : OnGrid g s -> ongrid_b cf s = true.
  Proof.
    unfold ongrid_b, arron_b. intros (A1 & (A2 & A2') & A3 & A4). bjoin.
    - apply dvb_complete; exact A1.
    - eapply Forall_forallb; [|exact A2]. intros row. apply Forall_forallb. apply odvb_complete.
    - apply odvb_complete; exact A2'.
    - eapply Forall_forallb; [|exact A3]. apply nodeon_b_complete.
    - eapply Forall_forallb; [|exact A4]. apply indon_b_complete.
  Qed.
End Bool.

(* ================================================================================================================ *)
(* Part 2: divisibility facts and list facts                                                                        *)
(* ================================================================================================================ *)
Create HintDb dvdb.
Section Facts.
  Variable g : Z.
  Notation dv := (dv g). Notation odv := (odv g). Notation xdv := (xdv g). Notation ldv := (ldv g).

  Lemma dv_0 : dv 0. Proof. apply Z.divide_0_r. Qed.
  Lemma dv_add a b : dv a -> dv b -> dv (a + b). Proof. apply Z.divide_add_r. Qed.
  Lemma dv_sub a b : dv a -> dv b -> dv (a - b). Proof. apply Z.divide_sub_r. Qed.
  Lemma dv_mul_l a b : dv b -> dv (a * b). Proof. apply Z.divide_mul_r. Qed.
  Lemma dv_numo o : odv o -> dv (numo o). Proof. destruct o; cbn; [auto|intros _; apply dv_0]. Qed.
  Lemma odv_some z : dv z -> odv (Some z). Proof. auto. Qed.
  Lemma odv_none : odv None. Proof. exact I. Qed.
  Lemma xdv_xv z : dv z -> xdv (XV z). Proof. auto. Qed.
  Lemma xdv_xi : xdv XI. Proof. exact I. Qed.
  Lemma xdv_xu : xdv XU. Proof. exact I. Qed.
  Lemma ldv_nil : ldv []. Proof. constructor. Qed.
  Lemma ldv_app a b : ldv a -> ldv b -> ldv (a ++ b). Proof. intros; apply Forall_app; auto. Qed.
  Lemma ldv_one z : dv z -> ldv [z]. Proof. repeat constructor; auto. Qed.
  Lemma ldv_nth l k : ldv l -> dv (nth k l 0).
  Proof. intros H. revert k; induction H as [|a r Ha Hr IH]; intros [|k]; cbn; auto using dv_0. Qed.
  Lemma ldv_last l : ldv l -> dv (last l 0).
  Proof. intros H. induction H as [|a r Ha Hr IH]; [apply dv_0|]. destruct r; [exact Ha|exact IH]. Qed.
  (* the schedule generator: offset + boundary + (number of completed cycles) * (cycle length) *)
  Lemma dv_gen_date b off k : ldv b -> dv off -> dv (gen_date b off k).
  Proof. intros Hb Ho. unfold gen_date, Sched.cyc. apply dv_add; [apply dv_add; [exact Ho|apply ldv_nth; exact Hb]|apply dv_mul_l; apply ldv_last; exact Hb]. Qed.

  (* generic list facts *)
  Lemma Forall_upd {X} (P : X -> Prop) l k x : Forall P l -> P x -> Forall P (upd l k x).
  Proof. revert k; induction l as [|a l IH]; intros [|k] H Hx; cbn; auto; inversion H; constructor; auto. Qed.
  Lemma Forall_updZ {X} (P : X -> Prop) l k x : Forall P l -> P x -> Forall P (updZ l k x).
  Proof. intros H Hx. unfold updZ. destruct (k <? 0); [exact H|apply Forall_upd; assumption]. Qed.
  Lemma Forall_nth_error {X} (P : X -> Prop) l k x : Forall P l -> nth_error l k = Some x -> P x.
  Proof. intros H E. rewrite Forall_forall in H. apply H. eapply nth_error_In; exact E. Qed.
  Lemma Forall_nthZ {X} (P : X -> Prop) l k x : Forall P l -> nthZ l k = Some x -> P x.
  Proof. unfold nthZ. destruct (k <? 0); [discriminate|]. apply Forall_nth_error. Qed.
  Lemma Forall_put_ind (P : ind -> Prop) x l : Forall P l -> P x -> Forall P (put_ind_l x l).
  Proof. intros H Hx. induction H as [|y r Hy Hr IH]; cbn; [repeat constructor; exact Hx|]. destruct (i_id y =? i_id x); constructor; auto. Qed.
  Lemma Forall_del_ind (P : ind -> Prop) i l : Forall P l -> Forall P (del_ind_l i l).
  Proof. intros H. induction H as [|y r Hy Hr IH]; cbn; [constructor|]. destruct (i_id y =? i); [exact Hr|constructor; auto]. Qed.
  Lemma Forall_find_ind (P : ind -> Prop) i l x : Forall P l -> find_ind i l = Some x -> P x.
  Proof. intros H. induction H as [|y r Hy Hr IH]; cbn; [discriminate|]. destruct (i_id y =? i); [intros E; injection E as <-; exact Hy|exact IH]. Qed.
  Lemma Forall_put_server (P : server -> Prop) sv l : Forall P l -> P sv -> Forall P (put_server_l sv l).
  Proof. intros H Hx. induction H as [|y r Hy Hr IH]; cbn; [constructor|]. destruct (sv_id y =? sv_id sv); constructor; auto. Qed.
  Lemma Forall_del_server (P : server -> Prop) i l : Forall P l -> Forall P (del_server_l i l).
  Proof. intros H. induction H as [|y r Hy Hr IH]; cbn; [constructor|]. destruct (sv_id y =? i); [exact Hr|constructor; auto]. Qed.
  Lemma Forall_find_server (P : server -> Prop) i l x : Forall P l -> find_server i l = Some x -> P x.
  Proof. intros H. induction H as [|y r Hy Hr IH]; cbn; [discriminate|]. destruct (sv_id y =? i); [intros E; injection E as <-; exact Hy|exact IH]. Qed.
  Lemma Forall_map_same {X} (P : X -> Prop) (f : X -> X) l : (forall x, P x -> P (f x)) -> Forall P l -> Forall P (map f l).
  Proof. intros Hf H. induction H; cbn; constructor; auto. Qed.
  Lemma Forall_snoc {X} (P : X -> Prop) l x : Forall P l -> P x -> Forall P (l ++ [x]).
  Proof. intros H Hx. apply Forall_app. split; [exact H|repeat constructor; exact Hx]. Qed.
End Facts.
(* dv_mul_l is deliberately NOT a hint: the walk then certifies that the schedule generator is the only place that multiplies *)
#[export] Hint Resolve dv_0 dv_add dv_sub dv_numo odv_some odv_none xdv_xv xdv_xi xdv_xu ldv_nil ldv_app ldv_one
  dv_gen_date Forall_updZ Forall_put_ind Forall_del_ind Forall_put_server Forall_del_server Forall_snoc : dvdb.

(* ================================================================================================================ *)
(* Part 3: the program logic  hg Q m                                                                                *)
(* ================================================================================================================ *)
Section Logic.
  Variable g : Z.
  Notation dv := (dv g). Notation odv := (odv g). Notation xdv := (xdv g). Notation ldv := (ldv g).
  Notation GS := (GS g). Notation NodeOn := (NodeOn g). Notation IndOn := (IndOn g). Notation ServerOn := (ServerOn g).
  Notation RecOn := (RecOn g).

  Definition hg {A} (Q : A -> Prop) (m : M A) : Prop := forall s a s', GS s -> m s = Ok (a, s') -> GS s' /\ Q a.
  Definition T {A} : A -> Prop := fun _ => True.

  Lemma hg_weak {A} (Q Q' : A -> Prop) m : hg Q m -> (forall a, Q a -> Q' a) -> hg Q' m.
  Proof. intros H HQ s a s' Hs E. destruct (H _ _ _ Hs E) as [H1 H2]. split; auto. Qed.
  Lemma hg_T {A} (Q : A -> Prop) m : hg Q m -> hg T m.
  Proof. intros H. eapply hg_weak; [exact H|]. intros; exact I. Qed.
  Lemma hg_ret {A} (Q : A -> Prop) a : Q a -> hg Q (ret a).
  Proof. intros Ha s b s' Hs E. unfold ret in E. injection E as <- <-. auto. Qed.
  Lemma hg_fail {A} (Q : A -> Prop) e : hg Q (fail e). Proof. intros s a s' _ E. discriminate. Qed.
  Lemma hg_oof {A} (Q : A -> Prop) : hg Q oof. Proof. intros s a s' _ E. discriminate. Qed.
  Lemma hg_bind {A B} (Q1 : A -> Prop) (Q : B -> Prop) (m : M A) (f : A -> M B) :
    hg Q1 m -> (forall a, Q1 a -> hg Q (f a)) -> hg Q (bind m f).
  Proof.
    intros Hm Hf s b s' Hs E. unfold bind in E. destruct (m s) as [[a s1]| |] eqn:Em; try discriminate.
    destruct (Hm _ _ _ Hs Em) as [H1 H2]. exact (Hf a H2 _ _ _ H1 E).
  Qed.
  Lemma hg_gets {A} (Q : A -> Prop) (f : sim -> A) : (forall s, GS s -> Q (f s)) -> hg Q (gets f).
  Proof. intros Hf s a s' Hs E. unfold gets in E. injection E as <- <-. auto. Qed.
  Lemma hg_gets_T {A} (f : sim -> A) : hg T (gets f). Proof. apply hg_gets. intros; exact I. Qed.
  Lemma hg_modify (f : sim -> sim) : (forall s, GS s -> GS (f s)) -> hg T (modify f).
  Proof. intros Hf s a s' Hs E. unfold modify in E. injection E as <- <-. split; [auto|exact I]. Qed.
  Lemma hg_lift {A} e (o : option A) : hg (fun a => o = Some a) (lift e o).
  Proof. destruct o as [x|]; cbn; [apply hg_ret; reflexivity|apply hg_fail]. Qed.

  (* reading *)
  Lemma hg_get_node j : hg NodeOn (get_node j).
  Proof.
    intros s nd s' Hs E. unfold get_node in E. destruct (if j <? 1 then None else nthZ (nodes s) (j - 1)) as [x|] eqn:En; [|discriminate].
    injection E as <- <-. split; [exact Hs|]. destruct (j <? 1); [discriminate|].
    destruct Hs as ((_ & _ & Hn & _) & _). eapply Forall_nthZ; eassumption.
  Qed.
  Lemma hg_get_ind i : hg IndOn (get_ind i).
  Proof.
    intros s x s' Hs E. unfold get_ind in E. destruct (find_ind i (inds s)) as [y|] eqn:En; [|discriminate].
    injection E as <- <-. split; [exact Hs|]. destruct Hs as ((_ & _ & _ & Hi) & _). eapply Forall_find_ind; eassumption.
  Qed.
  Lemma hg_tnow : hg dv tnow. Proof. apply hg_gets. intros s ((H & _) & _). exact H. Qed.
  Lemma hg_gets_inds : hg (Forall IndOn) (gets inds). Proof. apply hg_gets. intros s ((_ & _ & _ & H) & _). exact H. Qed.

  (* writing *)
  Lemma GS_intro s : dv (now s) -> ArrOn g (arr s) -> Forall NodeOn (nodes s) -> Forall IndOn (inds s) -> DrawsOn g (dr s) -> LogOn g (log s) -> GS s.
  Proof. intros. split; [split; [|split; [|split]]|split]; assumption. Qed.
  Lemma hg_put_node nd : NodeOn nd -> hg T (put_node nd).
  Proof.
    intros Hn. apply hg_modify. intros s ((H1 & H2 & H3 & H4) & H5 & H6). apply GS_intro; try assumption.
    cbn. apply Forall_updZ; assumption.
  Qed.
  Lemma hg_put_ind x : IndOn x -> hg T (put_ind x).
  Proof.
    intros Hx. apply hg_modify. intros s ((H1 & H2 & H3 & H4) & H5 & H6). apply GS_intro; try assumption.
    cbn. apply Forall_put_ind; assumption.
  Qed.
  Lemma hg_del_ind i : hg T (del_ind i).
  Proof.
    apply hg_modify. intros s ((H1 & H2 & H3 & H4) & H5 & H6). apply GS_intro; try assumption.
    cbn. apply Forall_del_ind; assumption.
  Qed.
  Lemma hg_log_rec r : RecOn r -> hg T (log_rec r).
  Proof.
    intros Hr. apply hg_modify. intros s ((H1 & H2 & H3 & H4) & H5 & H6). apply GS_intro; try assumption.
    cbn. apply Forall_snoc; assumption.
  Qed.
  (* a modification of a part of the state that holds no time *)
  Lemma hg_modify_frame (f : sim -> sim) :
    (forall s, now (f s) = now s /\ a_dates (arr (f s)) = a_dates (arr s) /\ a_next_date (arr (f s)) = a_next_date (arr s) /\
               nodes (f s) = nodes s /\ inds (f s) = inds s /\ dr (f s) = dr s /\ log (f s) = log s) ->
    hg T (modify f).
  Proof.
    intros Hf. apply hg_modify. intros s ((H1 & (H2 & H2') & H3 & H4) & H5 & H6). destruct (Hf s) as (E1 & E2 & E2' & E3 & E4 & E5 & E6).
    apply GS_intro; [| split | | | | ]; rewrite ?E1, ?E2, ?E2', ?E3, ?E4, ?E5, ?E6; assumption.
  Qed.

  (* the oracle: the four kinds of sampled times are on the grid; uniforms and batch sizes are not times *)
  Lemma hg_draw_arr : hg dv draw_arr.
  Proof.
    intros s a s' ((H1 & H2 & H3 & H4) & (D1 & D2 & D3 & D4) & H6) E. unfold draw_arr in E. destruct (d_arr (dr s)) as [|x r] eqn:Ed; [discriminate|].
    injection E as <- <-. inversion D1 as [|? ? Hx Hr]. split; [|exact Hx]. apply GS_intro; try assumption. cbn. repeat split; assumption.
  Qed.
  Lemma hg_draw_svc : hg dv draw_svc.
  Proof.
    intros s a s' ((H1 & H2 & H3 & H4) & (D1 & D2 & D3 & D4) & H6) E. unfold draw_svc in E. destruct (d_svc (dr s)) as [|x r] eqn:Ed; [discriminate|].
    injection E as <- <-. inversion D2 as [|? ? Hx Hr]. split; [|exact Hx]. apply GS_intro; try assumption. cbn. repeat split; assumption.
  Qed.
  Lemma hg_draw_ren : hg dv draw_ren.
  Proof.
    intros s a s' ((H1 & H2 & H3 & H4) & (D1 & D2 & D3 & D4) & H6) E. unfold draw_ren in E. destruct (d_ren (dr s)) as [|x r] eqn:Ed; [discriminate|].
    injection E as <- <-. inversion D3 as [|? ? Hx Hr]. split; [|exact Hx]. apply GS_intro; try assumption. cbn. repeat split; assumption.
  Qed.
  Lemma hg_draw_cct : hg dv draw_cct.
  Proof.
    intros s a s' ((H1 & H2 & H3 & H4) & (D1 & D2 & D3 & D4) & H6) E. unfold draw_cct in E. destruct (d_cct (dr s)) as [|x r] eqn:Ed; [discriminate|].
    injection E as <- <-. inversion D4 as [|? ? Hx Hr]. split; [|exact Hx]. apply GS_intro; try assumption. cbn. repeat split; assumption.
  Qed.
  Lemma hg_draw_unif : hg T draw_unif.
  Proof.
    intros s a s' ((H1 & H2 & H3 & H4) & (D1 & D2 & D3 & D4) & H6) E. unfold draw_unif in E. destruct (d_unif (dr s)) as [|x r] eqn:Ed; [discriminate|].
    injection E as <- <-. split; [|exact I]. apply GS_intro; try assumption. cbn. repeat split; assumption.
  Qed.
  Lemma hg_draw_batch : hg T draw_batch.
  Proof.
    intros s a s' ((H1 & H2 & H3 & H4) & (D1 & D2 & D3 & D4) & H6) E. unfold draw_batch in E. destruct (d_batch (dr s)) as [|x r] eqn:Ed; [discriminate|].
    injection E as <- <-. split; [|exact I]. apply GS_intro; try assumption. cbn. repeat split; assumption.
  Qed.

  Lemma hg_mapM {A B} (Q : B -> Prop) (f : A -> M B) l : (forall a, hg Q (f a)) -> hg (Forall Q) (mapM f l).
  Proof.
    intros Hf. induction l as [|a r IH]; cbn [mapM]; [apply hg_ret; constructor|].
    eapply hg_bind; [apply Hf|]. intros b Hb. eapply hg_bind; [exact IH|]. intros bs Hbs. apply hg_ret. constructor; assumption.
  Qed.
  Lemma hg_forM {A} (f : A -> M unit) l : (forall a, hg T (f a)) -> hg T (forM_ l f).
  Proof. intros Hf. induction l as [|a r IH]; cbn [forM_]; [apply hg_ret; exact I|]. eapply hg_bind; [apply Hf|]. intros _ _. exact IH. Qed.
End Logic.

(* ================================================================================================================ *)
(* Part 4: the walk over the engine                                                                                 *)
(* ================================================================================================================ *)
Create HintDb hgdb.

(* open what is known *)
Ltac hopen :=
  cbv beta in *;
  repeat match goal with
  | H : NodeOn _ _ |- _ => destruct H as (? & ? & ? & ? & ? & ? & ?)
  | H : IndOn _ _ |- _ => destruct H as (? & ? & ? & ? & ? & ? & ? & ? & ? & ?)
  | H : ServerOn _ _ |- _ => destruct H as (? & ? & ? & ? & ? & ?)
  | H : SrvOn _ (SSched _) |- _ => destruct H as (? & ?)
  | H : SrvOn _ (SSlot _) |- _ => destruct H as (? & ?)
  | H : _ /\ _ |- _ => destruct H as (? & ?)
  | E : ?a = Some ?z, H : odv ?g ?a |- _ =>
    lazymatch goal with _ : dv g z |- _ => fail | _ => assert (dv g z) by (rewrite E in H; exact H) end
  | E : ?a = XV ?z, H : xdv ?g ?a |- _ =>
    lazymatch goal with _ : dv g z |- _ => fail | _ => assert (dv g z) by (rewrite E in H; exact H) end
  | E : ?a = ?b, H : SrvOn _ ?a |- _ => rewrite E in H
  end.
(* close a side condition *)
Ltac hleaf :=
  cbn [odv xdv fst snd];
  first [ exact I | assumption | solve [auto 7 with dvdb]
        | match goal with |- context [match ?e with _ => _ end] => destruct e eqn:? end; hopen; hleaf ].
Ltac hside :=
  intros; hopen;
  lazymatch goal with
  | |- NodeOn _ _ => red; cbn
  | |- IndOn _ _ => red; cbn
  | |- ServerOn _ _ => red; cbn
  | |- RecOn _ _ => red; cbn
  | |- T _ => exact I
  | |- _ => idtac
  end;
  repeat match goal with |- _ /\ _ => split end;
  try hleaf.

Ltac hext m := fail.
Ltac hpre m := fail.
Ltac hprim := solve [eauto 1 with hgdb nocore].
Ltac hfun := first [ hprim | (eapply hg_T; hprim) ].
Ltac hstep :=
  lazymatch goal with
  | |- forall _, _ -> hg _ _ _ => intros ? ?
  | |- forall _, hg _ _ _ => intros ?
  | |- hg _ ?Q ?m =>
    first
      [ hfun
      | hpre m
      | (try (is_evar Q; lazymatch type of Q with ?A -> Prop => unify Q (@T A) end));
        lazymatch m with
        | bind _ _ => eapply hg_bind
        | ret _ => apply hg_ret
        | fail _ => apply hg_fail
        | oof => apply hg_oof
        | put_node _ => apply hg_put_node
        | put_ind _ => apply hg_put_ind
        | log_rec _ => apply hg_log_rec
        | modify _ => apply hg_modify_frame; intros; cbn; repeat split; reflexivity
        | gets _ => apply hg_gets_T
        | mapM _ _ => eapply hg_T; apply hg_mapM
        | forM_ _ _ => apply hg_forM
        | (if ?b then _ else _) => destruct b eqn:?
        | (match ?x with _ => _ end) => destruct x eqn:?
        | _ => hext m
        end ]
  end.
Ltac hw := repeat hstep; hside.

Section Walk.
  Variable g : Z.
  Variable cf : config.
  Hypothesis HT : Timetable g cf.
  Notation dv := (dv g). Notation odv := (odv g). Notation xdv := (xdv g). Notation ldv := (ldv g).
  Notation NodeOn := (NodeOn g). Notation IndOn := (IndOn g). Notation ServerOn := (ServerOn g). Notation RecOn := (RecOn g).
  Notation hg := (hg g).

  #[local] Hint Resolve hg_get_node hg_get_ind hg_tnow hg_gets_inds hg_del_ind hg_draw_arr hg_draw_svc hg_draw_ren hg_draw_cct
    hg_draw_unif hg_draw_batch hg_lift : hgdb.

  Lemma hg_ncfg_of j : hg (fun nc => SrvOn g (nc_srv nc)) (ncfg_of cf j).
  Proof.
    unfold ncfg_of. eapply hg_weak; [apply hg_lift|]. intros nc E. cbv beta in E. exact (Forall_nthZ (fun nc => SrvOn g (nc_srv nc)) _ _ _ HT E).
  Qed.
  #[local] Hint Resolve hg_ncfg_of : hgdb.
  Lemma hg_upd_ind i f : (forall x, IndOn x -> IndOn (f x)) -> hg T (upd_ind i f).
  Proof. intros Hf. unfold upd_ind. eapply hg_bind; [apply hg_get_ind|]. intros x Hx. apply hg_put_ind. auto. Qed.
  Lemma hg_upd_node j f : (forall nd, NodeOn nd -> NodeOn (f nd)) -> hg T (upd_node j f).
  Proof. intros Hf. unfold upd_node. eapply hg_bind; [apply hg_get_node|]. intros x Hx. apply hg_put_node. auto. Qed.
  Lemma hg_upd_server j sid f : (forall sv, ServerOn sv -> ServerOn (f sv)) -> hg T (upd_server j sid f).
  Proof.
    intros Hf. unfold upd_server. hw.
    apply Forall_put_server; [assumption|]. apply Hf. eapply Forall_find_server; eassumption.
  Qed.
  Lemma hg_choice_uniform {A} (l : list A) : hg T (choice_uniform l). Proof. unfold choice_uniform. hw. Qed.
  Lemma hg_choice_weighted den Pw : hg T (choice_weighted den Pw). Proof. unfold choice_weighted. hw. Qed.
  #[local] Hint Resolve hg_choice_uniform hg_choice_weighted : hgdb.
  Lemma hg_exit_accept i c : hg T (exit_accept i c). Proof. unfold exit_accept. hw. Qed.
  Lemma hg_choose_next_customer j : hg T (choose_next_customer cf j). Proof. unfold choose_next_customer. hw. Qed.
  #[local] Hint Resolve hg_exit_accept hg_choose_next_customer : hgdb.
  Ltac hext m ::=
    lazymatch m with
    | upd_ind _ _ => apply hg_upd_ind
    | upd_node _ _ => apply hg_upd_node
    | upd_server _ _ _ => apply hg_upd_server
    end.

  (* ---------- class change while waiting: bookkeeping ---------- *)
  Lemma scan_cc_on il : Forall IndOn il -> forall q best bi r, odv best -> scan_cc q il best bi = Some r -> odv (fst r).
  Proof.
    intros Hil. induction q as [|i q IH]; intros best bi r Hb E; cbn [scan_cc] in E.
    - injection E as <-. exact Hb.
    - destruct (find_ind i il) as [x|] eqn:Ex; [|discriminate]. pose proof (Forall_find_ind _ _ _ _ Hil Ex) as Hx.
      destruct (i_ccd x) as [| |z] eqn:Ec; [discriminate|eapply IH; eassumption|].
      destruct (date_lt (Some z) best && _); [|eapply IH; eassumption].
      eapply IH; [|exact E]. hopen. assumption.
  Qed.
  Lemma hg_find_next_class_change j : hg T (find_next_class_change j).
  Proof.
    unfold find_next_class_change. hw.
    eapply scan_cc_on; [eassumption| |eassumption]. exact I.
  Qed.
  #[local] Hint Resolve hg_find_next_class_change : hgdb.
  Lemma hg_cct_loop : forall row b best bc, odv best -> hg (fun r => odv (fst r)) (cct_loop row b best bc).
  Proof.
    induction row as [|h r IH]; intros b best bc Hb; cbn [cct_loop]; [apply hg_ret; exact Hb|].
    destruct h; [|apply IH; exact Hb]. eapply hg_bind; [apply hg_draw_cct|]. intros t Ht.
    destruct (date_lt (Some t) best); apply IH; assumption.
  Qed.
  Lemma hg_decide_class_change j i : hg T (decide_class_change cf j i).
  Proof.
    unfold decide_class_change. destruct (cf_dyn cf); [|apply hg_ret; exact I].
    eapply hg_bind; [apply hg_get_ind|]. intros x Hx. eapply hg_bind; [apply hg_lift|]. intros row Hrow.
    eapply hg_bind; [apply hg_cct_loop; exact I|]. intros r Hr. hw.
  Qed.
  Lemma hg_reset_class_change j i : hg T (reset_class_change cf j i). Proof. unfold reset_class_change. hw. Qed.
  #[local] Hint Resolve hg_decide_class_change hg_reset_class_change : hgdb.

  (* ---------- service times ---------- *)
  Lemma hg_stime_num x : IndOn x -> hg dv (stime_num x).
  Proof. intros Hx. unfold stime_num. destruct (i_smark x =? 0); [apply hg_ret; hside|apply hg_fail]. Qed.
  Lemma hg_gstap i : hg T (give_service_time_after_preemption i). Proof. unfold give_service_time_after_preemption. hw. Qed.
  #[local] Hint Resolve hg_gstap : hgdb.
  Lemma hg_giast i : hg T (give_individual_a_service_time i). Proof. unfold give_individual_a_service_time. hw. Qed.
  Lemma hg_attach_server j sid i : hg T (attach_server j sid i). Proof. unfold attach_server. hw. Qed.
  Lemma hg_set_next_end j sid d : odv d -> hg T (set_next_end j sid d). Proof. intros Hd. unfold set_next_end. hw. Qed.
  Lemma hg_kill_server j sid : hg T (kill_server j sid).
  Proof.
    unfold kill_server. hw.
    all: match goal with Hs : Forall ServerOn ?l, E : find_server _ ?l = Some ?sv |- _ => pose proof (Forall_find_server _ _ _ _ Hs E) end; hside.
  Qed.
  #[local] Hint Resolve hg_giast hg_attach_server hg_kill_server : hgdb.
  Lemma hg_detatch_server j sid i : hg T (detatch_server j sid i).
  Proof.
    unfold detatch_server. hw.
    all: match goal with Hs : Forall ServerOn ?l, E : find_server _ ?l = Some ?sv |- _ => pose proof (Forall_find_server _ _ _ _ Hs E) end.
    apply Forall_put_server; [assumption|]. hside.
  Qed.
  Lemma hg_bump_rec i : hg T (bump_rec i). Proof. unfold bump_rec. hw. Qed.
  #[local] Hint Resolve hg_detatch_server hg_bump_rec : hgdb.

  (* ---------- records: every Some date / duration written is a difference or a copy of dates on the grid ---------- *)
  Lemma hg_write_individual_record j i : hg T (write_individual_record cf j i). Proof. unfold write_individual_record. hw. Qed.
  Lemma hg_write_interruption_record j i d : hg T (write_interruption_record cf j i d). Proof. unfold write_interruption_record. hw. Qed.
  Lemma hg_write_reneging_record j i : hg T (write_reneging_record j i). Proof. unfold write_reneging_record. hw. Qed.
  Lemma hg_write_br_record j i ty : hg T (write_br_record j i ty). Proof. unfold write_br_record. hw. Qed.
  Lemma hg_reset_individual_attributes i : hg T (reset_individual_attributes i). Proof. unfold reset_individual_attributes. hw. Qed.
  #[local] Hint Resolve hg_write_individual_record hg_write_interruption_record hg_write_reneging_record hg_write_br_record
    hg_reset_individual_attributes : hgdb.

  (* ---------- routing: no time is read or written ---------- *)
  Lemma hg_valid_dest d : hg T (valid_dest d). Proof. unfold valid_dest. hw. Qed.
  Lemma hg_jsq_loop lb : forall ds best acc, hg T (jsq_loop lb ds best acc).
  Proof.
    induction ds as [|d r IH]; intros best acc; cbn [jsq_loop]; [apply hg_ret; exact I|].
    eapply hg_bind; [apply hg_get_node|]. intros nd _. cbv zeta. destruct (date_eqb _ _); [apply IH|]. destruct (date_lt _ _); apply IH.
  Qed.
  #[local] Hint Resolve hg_valid_dest hg_jsq_loop : hgdb.
  Lemma hg_jsq_next lb ds o : hg T (jsq_next lb ds o). Proof. unfold jsq_next. hw. Qed.
  Lemma hg_get_cyc c j : hg T (get_cyc c j). Proof. unfold get_cyc. hw. Qed.
  Lemma hg_bump_cyc c j : hg T (bump_cyc c j).
  Proof.
    unfold bump_cyc. apply hg_modify_frame. intros s. destruct (nthZ (cyc s) c) as [row|]; [|repeat split; reflexivity].
    destruct (nthZ row (j - 1)); repeat split; reflexivity.
  Qed.
  #[local] Hint Resolve hg_jsq_next hg_get_cyc hg_bump_cyc : hgdb.
  Lemma hg_node_router_next r c j : hg T (node_router_next r c j). Proof. unfold node_router_next. hw. Qed.
  #[local] Hint Resolve hg_node_router_next : hgdb.
  Lemma hg_next_node_for mode j i : hg T (next_node_for cf mode j i). Proof. unfold next_node_for. hw. Qed.
  #[local] Hint Resolve hg_next_node_for : hgdb.

  (* ---------- the blocks that start a service: end date = now + service time ---------- *)
  Ltac hpre m ::=
    lazymatch m with
    | stime_num _ => apply hg_stime_num
    end.
  Ltac hext m ::=
    lazymatch m with
    | upd_ind _ _ => apply hg_upd_ind
    | upd_node _ _ => apply hg_upd_node
    | upd_server _ _ _ => apply hg_upd_server
    | set_next_end _ _ _ => apply hg_set_next_end
    end.
  Lemma hg_start_fresh j i osid c : hg T (start_fresh cf j i osid c). Proof. unfold start_fresh. hw. Qed.
  Lemma hg_start_give j i sid : hg T (start_give cf j i sid). Proof. unfold start_give. hw. Qed.
  Lemma hg_start_preemptor j i sid : hg T (start_preemptor cf j i sid). Proof. unfold start_preemptor. hw. Qed.
  Lemma hg_biis j sid : hg T (begin_interrupted_individuals_service j sid). Proof. unfold begin_interrupted_individuals_service. hw. Qed.
  #[local] Hint Resolve hg_start_fresh hg_start_give hg_start_preemptor hg_biis : hgdb.
  Lemma hg_serve_with j sid : hg T (serve_with cf j sid). Proof. unfold serve_with. hw. Qed.
  #[local] Hint Resolve hg_serve_with : hgdb.
  Lemma hg_bsipr j freed : hg T (begin_service_if_possible_release cf j freed). Proof. unfold begin_service_if_possible_release. hw. Qed.
  (* reneging date = now + the patience sample *)
  Lemma hg_get_reneging_date j i : hg xdv (get_reneging_date cf j i).
  Proof.
    unfold get_reneging_date. eapply hg_bind; [apply hg_get_ind|]. intros x Hx. eapply hg_bind; [apply hg_ncfg_of|]. intros nc _.
    eapply hg_bind; [apply hg_tnow|]. intros t Ht. eapply hg_bind; [apply hg_lift|]. intros has _.
    destruct has; [|apply hg_ret; exact I]. eapply hg_bind; [apply hg_draw_ren|]. intros r Hr. apply hg_ret. hside.
  Qed.
  Lemma hg_block_individual j i d : hg T (block_individual j i d). Proof. unfold block_individual. hw. Qed.
  Lemma hg_preempt_victim j i : hg T (preempt_victim cf j i). Proof. unfold preempt_victim. hw. Qed.
  #[local] Hint Resolve hg_bsipr hg_get_reneging_date hg_block_individual hg_preempt_victim : hgdb.

  (* ---------- the recursive core, by induction on fuel ---------- *)
  Lemma hg_release_body acc rbi j i d rr : (forall d' i', hg T (acc d' i')) -> (forall j', hg T (rbi j')) -> hg T (Route2.release_body cf acc rbi j i d rr).
  Proof. intros Ha Hr. unfold Route2.release_body. cbv zeta. hw. Qed.
  (* release_blocked_individual: an interrupted blocked customer gets original start date and start + original service time back *)
  Lemma hg_rbi_body rel j : (forall a b c e, hg T (rel a b c e)) -> hg T (Route2.rbi_body cf rel j).
  Proof. intros Hr. unfold Route2.rbi_body. hw. Qed.
  (* accept: arrival date = now, reneging date = now + patience, class change date = now + sampled time *)
  Lemma hg_accept_body pre j i : (forall a b c, hg T (pre a b c)) -> hg T (Route2.accept_body cf pre j i).
  Proof. intros Hp. unfold Route2.accept_body. cbv zeta. hw. Qed.
  (* preempt: time_left = end date - now; original service time = service time *)
  Lemma hg_preempt_body rel j v i : (forall a b c e, hg T (rel a b c e)) -> hg T (Route2.preempt_body cf rel j v i).
  Proof. intros Hr. unfold Route2.preempt_body. hw. Qed.
  Lemma hg_core : forall f, (forall j i d rr, hg T (release cf f j i d rr)) /\ (forall j, hg T (release_blocked_individual cf f j)) /\
                            (forall j i, hg T (accept cf f j i)) /\ (forall j v i, hg T (preempt cf f j v i)).
  Proof.
    induction f as [|f (IH1 & IH2 & IH3 & IH4)]; [split; [|split; [|split]]; intros; apply hg_oof|].
    split; [|split; [|split]]; intros.
    - rewrite Route2.release_S. apply hg_release_body; assumption.
    - rewrite Route2.rbi_S. apply hg_rbi_body; assumption.
    - rewrite Route2.accept_S. apply hg_accept_body; assumption.
    - rewrite Route2.preempt_S. apply hg_preempt_body; assumption.
  Qed.
  Lemma hg_release f j i d rr : hg T (release cf f j i d rr). Proof. apply hg_core. Qed.
  Lemma hg_rbi f j : hg T (release_blocked_individual cf f j). Proof. apply hg_core. Qed.
  Lemma hg_accept f j i : hg T (accept cf f j i). Proof. apply hg_core. Qed.
  Lemma hg_preempt f j v i : hg T (preempt cf f j v i). Proof. apply hg_core. Qed.
  #[local] Hint Resolve hg_release hg_rbi hg_accept hg_preempt : hgdb.

  (* ---------- the events of a service node ---------- *)
  Lemma hg_decide_between l : hg T (decide_between l). Proof. unfold decide_between. hw. Qed.
  Lemma hg_has_space d : hg T (has_space cf d). Proof. unfold has_space. hw. Qed.
  Lemma hg_change_customer_class j i : hg T (change_customer_class cf j i). Proof. unfold change_customer_class. hw. Qed.
  #[local] Hint Resolve hg_decide_between hg_has_space hg_change_customer_class : hgdb.
  Lemma hg_finish_service j : hg T (finish_service cf j). Proof. unfold finish_service. hw. Qed.
  Lemma hg_renege j : hg T (renege cf j). Proof. unfold renege. cbv zeta. hw. Qed.
  (* interrupt_service: time_left = end date - now, original service time / start date copied *)
  Lemma hg_interrupt_service f j i pre : hg T (interrupt_service cf f j i pre). Proof. unfold interrupt_service. hw. Qed.
  Lemma hg_keyed l : hg T (keyed l). Proof. unfold keyed. hw. Qed.
  #[local] Hint Resolve hg_finish_service hg_renege hg_interrupt_service hg_keyed : hgdb.
  Lemma hg_sort_interrupted_individuals j : hg T (sort_interrupted_individuals j). Proof. unfold sort_interrupted_individuals. hw. Qed.
  Lemma hg_off_duty_loop se : odv se -> forall k f j idx pre, hg T (off_duty_loop cf k f j idx pre se).
  Proof.
    intros Hse. induction k as [|k IH]; intros f j idx pre; cbn [off_duty_loop]; [apply hg_ret; exact I|].
    eapply hg_bind; [apply hg_get_node|]. intros nd Hnd. destruct (nth_error (n_servers nd) idx) as [sv|] eqn:Esv; [|apply hg_ret; exact I].
    assert (Hsv : ServerOn sv) by (destruct Hnd as (Hs & _); eapply Forall_nth_error; eassumption).
    eapply hg_bind; [apply hg_put_node|].
    { hside. apply Forall_put_server; [assumption|]. hside. }
    intros _ _. eapply hg_bind; [|intros _ _; apply IH]. destruct (sv_cust sv); [apply hg_interrupt_service|apply hg_ret; exact I].
  Qed.
  #[local] Hint Resolve hg_sort_interrupted_individuals : hgdb.
  (* take_servers_off_duty: shift_end = the node's next event date *)
  Lemma hg_take_servers_off_duty f j pre : hg T (take_servers_off_duty cf f j pre).
  Proof.
    unfold take_servers_off_duty. eapply hg_bind; [apply hg_get_node|]. intros nd Hnd.
    eapply (hg_bind _ odv).
    { destruct (n_next_date nd) as [d|] eqn:Ed; [apply hg_ret; hside|apply hg_fail]. }
    intros se Hse. destruct (pre =? 0).
    - eapply hg_bind; [apply hg_put_node|intros _ _; apply hg_forM; intros sid; apply hg_kill_server].
      hside. apply Forall_map_same; [|assumption]. intros sv Hsv. hside.
    - eapply hg_bind; [apply hg_off_duty_loop; exact Hse|]. intros _ _. hw.
  Qed.
  (* add_new_servers: start date = now, no other date *)
  Lemma hg_add_new_servers : forall k j, hg T (add_new_servers k j).
  Proof.
    induction k as [|k IH]; intros j; cbn [add_new_servers]; [apply hg_ret; exact I|].
    eapply hg_bind; [apply hg_tnow|]. intros t Ht. eapply hg_bind; [|intros _ _; apply IH].
    apply hg_upd_node. intros nd Hnd. hside. apply Forall_snoc; [assumption|]. hside.
  Qed.
  Lemma hg_bsipcs j : hg T (begin_service_if_possible_change_shift cf j). Proof. unfold begin_service_if_possible_change_shift. hw. Qed.
  #[local] Hint Resolve hg_take_servers_off_duty hg_add_new_servers hg_bsipcs : hgdb.
  (* change_shift: next shift change = offset + boundary + completed cycles * cycle length, on the grid by Timetable *)
  Lemma hg_change_shift j : hg T (change_shift cf j). Proof. unfold change_shift. cbv zeta. hw. Qed.
  Lemma hg_slot_loop : forall k j, hg T (slot_loop cf k j).
  Proof. induction k as [|k IH]; intros j; cbn [slot_loop]; [apply hg_ret; exact I|]. hw. Qed.
  #[local] Hint Resolve hg_change_shift hg_slot_loop : hgdb.
  Lemma hg_slotted_service j : hg T (slotted_service cf j). Proof. unfold slotted_service. cbv zeta. hw. Qed.
  Lemma hg_ccww j : hg T (change_customer_class_while_waiting cf j). Proof. unfold change_customer_class_while_waiting. cbv zeta. hw. Qed.
  #[local] Hint Resolve hg_slotted_service hg_ccww : hgdb.
  Lemma hg_node_have_event j : hg T (node_have_event cf j). Proof. unfold node_have_event. cbv zeta. hw. Qed.

  (* ---------- update_next_event_date: the next event date is SELECTED among dates held in the state / the timetable ---------- *)
  Lemma scan_servers_on : forall l best acc, Forall ServerOn l -> odv best -> odv (fst (scan_servers l best acc)).
  Proof.
    induction l as [|sv r IH]; intros best acc Hl Hb; cbn [scan_servers]; [exact Hb|].
    inversion Hl as [|? ? Hsv Hr]. destruct Hsv as (Hne & _).
    destruct (date_lt _ _); [apply IH; assumption|]. destruct (_ && _); apply IH; assumption.
  Qed.
  Lemma scan_inds_on t il : Forall IndOn il -> forall q best acc, odv best -> odv (fst (scan_inds t q il best acc)).
  Proof.
    intros Hil. induction q as [|i q IH]; intros best acc Hb; cbn [scan_inds]; [exact Hb|].
    destruct (find_ind i il) as [x|] eqn:Ex; [|apply IH; exact Hb]. pose proof (Forall_find_ind _ _ _ _ Hil Ex) as Hx.
    destruct (i_send x) as [e|] eqn:Ee; [|apply IH; exact Hb].
    destruct (_ && _); [|apply IH; exact Hb]. destruct (date_lt _ _); [apply IH; hopen; assumption|].
    destruct (date_eqb _ _); apply IH; exact Hb.
  Qed.
  Lemma scan_ren_on il : Forall IndOn il -> forall q best acc r, odv best -> scan_ren q il best acc = Some r -> odv (fst r).
  Proof.
    intros Hil. induction q as [|i q IH]; intros best acc r Hb E; cbn [scan_ren] in E.
    - injection E as <-. exact Hb.
    - destruct (find_ind i il) as [x|] eqn:Ex; [|discriminate]. pose proof (Forall_find_ind _ _ _ _ Hil Ex) as Hx.
      destruct (i_ren x) as [| |z] eqn:Ec; [discriminate|eapply IH; eassumption|]. cbv zeta in E.
      destruct (date_lt (Some z) best && _); [eapply IH; [|exact E]; hopen; assumption|].
      destruct (date_eqb (Some z) best && _); eapply IH; eassumption.
  Qed.
  Lemma slot_values_on sl pos : ldv (sl_b sl) -> dv (sl_off sl) -> dv (snd (slot_values sl pos)).
  Proof. intros Hb Ho. unfold slot_values. destruct pos as [|m]; cbn [snd]; auto with dvdb. Qed.
  Lemma decide_next_event_on : forall cands best, Forall (fun c => odv (fst (snd c))) cands -> odv (fst (snd best)) ->
    odv (fst (snd (decide_next_event cands best))).
  Proof.
    induction cands as [|c r IH]; intros best Hc Hb; cbn [decide_next_event]; [exact Hb|].
    inversion Hc as [|? ? H1 H2]. destruct (date_lt _ _); apply IH; assumption.
  Qed.
  Lemma hg_update_next_event_date j : hg T (update_next_event_date cf j).
  Proof.
    unfold update_next_event_date. eapply hg_bind; [apply hg_get_node|]. intros nd Hnd. eapply hg_bind; [apply hg_ncfg_of|]. intros nc Hnc. cbv beta in Hnc.
    eapply hg_bind; [apply hg_tnow|]. intros t Ht. eapply hg_bind; [apply hg_gets_inds|]. intros il Hil. cbv zeta.
    set (es := if nc_slotted nc || nd_inf nd then scan_inds t (all_individuals nd) il None [] else scan_servers (n_servers nd) None []).
    assert (Hes : odv (fst es)).
    { unfold es. destruct (nc_slotted nc || nd_inf nd); [apply scan_inds_on; [exact Hil|exact I]|apply scan_servers_on; [apply Hnd|exact I]]. }
    eapply (hg_bind _ (fun rn => odv (fst rn))).
    { destruct (negb (nd_inf nd) && nc_reneging nc); [|apply hg_ret; exact I].
      eapply hg_weak; [apply hg_lift|]. intros rn Ern. cbv beta in Ern. eapply scan_ren_on; [exact Hil| |exact Ern]. exact I. }
    intros rn Hrn. destruct (nc_reneging nc || cf_dyn cf || nc_sched nc).
    - match goal with |- context [decide_next_event ?c ?b] => pose proof (decide_next_event_on c b) as Hd; destruct (decide_next_event c b) as [ty [d l]] end.
      apply hg_put_node. cbn [fst snd] in Hd.
      assert (Hdd : odv d).
      { apply Hd; [|exact I]. apply Forall_app. split.
        - destruct (nc_srv nc) as [|sc|sl] eqn:Esrv; repeat constructor; cbn [fst snd].
          + apply Hnd.
          + destruct Hnc as [Hb Ho]. apply slot_values_on; assumption.
        - repeat constructor; cbn [fst snd]; try assumption.
          destruct (cf_dyn cf && negb (nd_inf nd)); cbn [fst]; [apply Hnd|exact I]. }
      hside.
    - apply hg_put_node. hside.
  Qed.
  #[local] Hint Resolve hg_node_have_event hg_update_next_event_date : hgdb.
  Lemma hg_update_all : forall js, hg T (update_all cf js).
  Proof. induction js as [|j r IH]; cbn [update_all]; [apply hg_ret; exact I|]. hw. Qed.

  (* ---------- the arrival node: next arrival date of a stream = previous one + the inter-arrival sample ---------- *)
  Lemma find_min_row_on j : forall row c best, Forall odv row -> odv (fst (fst best)) -> odv (fst (fst (find_min_row j c row best))).
  Proof.
    induction row as [|d r IH]; intros c best Hr Hb; cbn [find_min_row]; [exact Hb|]. inversion Hr as [|? ? Hd Hr'].
    apply IH; [exact Hr'|]. destruct (date_lt _ _); [exact Hd|exact Hb].
  Qed.
  Lemma find_min_dates_on : forall rows j best, Forall (Forall odv) rows -> odv (fst (fst best)) -> odv (fst (fst (find_min_dates j rows best))).
  Proof.
    induction rows as [|row r IH]; intros j best Hr Hb; cbn [find_min_dates]; [exact Hb|]. inversion Hr as [|? ? Hd Hr'].
    apply IH; [exact Hr'|]. apply find_min_row_on; assumption.
  Qed.
  Lemma hg_find_next_event_date : hg T find_next_event_date.
  Proof.
    unfold find_next_event_date. apply hg_modify. intros s ((H1 & (H2 & H2') & H3 & H4) & H5 & H6).
    pose proof (find_min_dates_on (a_dates (arr s)) 1 (None, 0, 0) H2 I) as Hm.
    destruct (find_min_dates 1 (a_dates (arr s)) (None, 0, 0)) as [[d jj] cc]. cbn [fst] in Hm.
    apply GS_intro; try assumption. split; cbn; assumption.
  Qed.
  Lemma hg_sys_population : hg T sys_population. Proof. unfold sys_population. hw. Qed.
  Lemma hg_route_of i c : hg T (route_of cf i c). Proof. unfold route_of. hw. Qed.
  #[local] Hint Resolve hg_find_next_event_date hg_sys_population hg_route_of : hgdb.
  Lemma hg_send_individual j i : hg T (send_individual cf j i). Proof. unfold send_individual. hw. Qed.
  #[local] Hint Resolve hg_send_individual : hgdb.
  Lemma hg_release_individual j i : hg T (release_individual cf j i). Proof. unfold release_individual. cbv zeta. hw. Qed.
  #[local] Hint Resolve hg_release_individual : hgdb.
  Lemma hg_batch_loop : forall n j c p, hg T (batch_loop cf n j c p).
  Proof. induction n as [|n IH]; intros j c p; cbn [batch_loop]; [apply hg_ret; exact I|]. hw. Qed.
  #[local] Hint Resolve hg_batch_loop : hgdb.
  Lemma hg_gets_arr : hg (ArrOn g) (gets arr). Proof. apply hg_gets. intros s ((_ & H & _) & _). exact H. Qed.
  Lemma hg_arrival_have_event : hg T (arrival_have_event cf).
  Proof.
    unfold arrival_have_event. eapply hg_bind; [apply hg_gets_T|]. intros a _. cbv zeta.
    eapply hg_bind; [apply hg_draw_batch|]. intros b _. eapply (hg_bind _ T); [destruct (b <? 0); [apply hg_fail|apply hg_ret; exact I]|]. intros _ _.
    eapply hg_bind; [apply hg_lift|]. intros p _. eapply hg_bind; [apply hg_batch_loop|]. intros _ _.
    eapply hg_bind; [apply hg_draw_arr|]. intros ia Hia. eapply hg_bind; [apply hg_gets_arr|]. intros a' (Ha' & _).
    eapply hg_bind; [apply hg_lift|]. intros row Hrow. eapply hg_bind; [apply hg_lift|]. intros old Hold.
    pose proof (Forall_nthZ _ _ _ _ Ha' Hrow) as Hr. pose proof (Forall_nthZ _ _ _ _ Hr Hold) as Ho.
    eapply hg_bind; [|intros _ _; apply hg_find_next_event_date].
    apply hg_modify. intros s ((H1 & (H2 & H2') & H3 & H4) & H5 & H6). apply GS_intro; try assumption.
    split; cbn; [|assumption]. apply Forall_updZ; [assumption|]. apply Forall_updZ; [assumption|].
    destruct old as [o|]; cbn; [apply dv_add; assumption|exact I].
  Qed.

  (* ---------- the clock: the date of the next event is SELECTED among the next event dates ---------- *)
  Lemma scan_active_on : forall ds k best acc, Forall odv ds -> odv best -> odv (fst (scan_active k ds best acc)).
  Proof.
    induction ds as [|d r IH]; intros k best acc Hd Hb; cbn [scan_active]; [exact Hb|]. inversion Hd as [|? ? H1 H2].
    destruct (date_lt _ _); [apply IH; assumption|]. destruct (date_eqb _ _); apply IH; assumption.
  Qed.
  Lemma hg_find_next_active_node : hg T find_next_active_node.
  Proof.
    unfold find_next_active_node. eapply (hg_bind _ (GS g)); [apply hg_gets; auto|]. intros s0 Hs0. cbv zeta.
    match goal with |- context [scan_active 0 ?ds None []] => pose proof (scan_active_on ds 0 None []) as Hm; destruct (scan_active 0 ds None []) as [d cands] end.
    cbn [fst] in Hm.
    assert (Hd : odv d).
    { apply Hm; [|exact I]. destruct Hs0 as ((_ & (_ & Ha) & Hn & _) & _). constructor; [exact Ha|].
      clear - Hn. induction Hn as [|nd r Hnd Hr IH]; cbn; constructor; [apply Hnd|exact IH]. }
    eapply hg_bind.
    { instantiate (1 := T). destruct cands as [|c0 [|c1 cr]]; [apply hg_fail|apply hg_ret; exact I|apply hg_choice_uniform]. }
    intros k _. apply hg_modify. intros s ((H1 & H2 & H3 & H4) & H5 & H6). apply GS_intro; try assumption.
    cbn. destruct d; [exact Hd|exact H1].
  Qed.

  Lemma hg_event_step : hg T (event_step cf).
  Proof.
    unfold event_step. eapply hg_bind.
    { apply hg_modify. intros s ((H1 & H2 & H3 & H4) & H5 & H6). apply GS_intro; try assumption. constructor. }
    intros _ _. eapply hg_bind; [apply hg_gets_T|]. intros k _.
    eapply hg_bind; [destruct (k =? 0); [apply hg_arrival_have_event|apply hg_node_have_event]|]. intros _ _.
    eapply hg_bind; [apply hg_gets_T|]. intros ns _. eapply hg_bind; [apply hg_update_all|]. intros _ _. apply hg_find_next_active_node.
  Qed.
End Walk.

(* ================================================================================================================ *)
(* Part 5: the theorems                                                                                             *)
(* ================================================================================================================ *)
(* the records of a whole run: the log of every executed event, in order *)
Fixpoint run_records (cf : config) (s : sim) (ds : list draws) : res (list rec) :=
  match ds with
  | [] => Ok []
  | d :: r => match event_step cf (s <| dr := d |>) with
              | Ok (_, s1) => match run_records cf s1 r with Ok l => Ok (log s1 ++ l) | Err e => Err e | OutOfFuel => OutOfFuel end
              | Err e => Err e
              | OutOfFuel => OutOfFuel
              end
  end.

Section Main.
  Variable g : Z.
  Variable cf : config.

  (* the event starts by emptying the log: what the log held before is irrelevant *)
  Lemma event_step_clears s : event_step cf s = event_step cf (s <| log := [] |>).
  Proof. unfold event_step, bind, modify. destruct s; reflexivity. Qed.

  (* general form: g may be ANY integer (g = 0: "all times are 0"); only divisibility of the timetable constants is used *)
  Theorem event_step_tt s d s' : Timetable g cf -> OnGrid g s -> DrawsOn g d -> event_step cf (s <| dr := d |>) = Ok (tt, s') ->
    OnGrid g s' /\ DrawsOn g (dr s') /\ LogOn g (log s').
  Proof.
    intros HT (H1 & H2 & H3 & H4) Hd E. rewrite event_step_clears in E.
    refine (proj1 (hg_event_step g cf HT _ _ _ _ E)).
    apply GS_intro; try assumption. constructor.
  Qed.
  Theorem run_many_tt : forall ds s s', Timetable g cf -> OnGrid g s -> Forall (DrawsOn g) ds -> run_many cf s ds = Ok s' -> OnGrid g s'.
  Proof.
    induction ds as [|d r IH]; intros s s' HG Hs Hds E; cbn [run_many] in E.
    - injection E as <-. exact Hs.
    - inversion Hds as [|? ? Hd Hr]. destruct (event_step cf (s <| dr := d |>)) as [[u s1]| |] eqn:E1; try discriminate. destruct u.
      eapply IH; [exact HG| |exact Hr|exact E]. eapply event_step_tt; eassumption.
  Qed.
  Theorem run_many_log_tt : forall ds s s', Timetable g cf -> OnGrid g s -> LogOn g (log s) -> Forall (DrawsOn g) ds -> run_many cf s ds = Ok s' -> LogOn g (log s').
  Proof.
    induction ds as [|d r IH]; intros s s' HG Hs Hl Hds E; cbn [run_many] in E.
    - injection E as <-. exact Hl.
    - inversion Hds as [|? ? Hd Hr]. destruct (event_step cf (s <| dr := d |>)) as [[u s1]| |] eqn:E1; try discriminate. destruct u.
      destruct (event_step_tt _ _ _ HG Hs Hd E1) as (A1 & A2 & A3). eapply IH; eassumption.
  Qed.
  Theorem records_tt : forall ds s l, Timetable g cf -> OnGrid g s -> Forall (DrawsOn g) ds -> run_records cf s ds = Ok l -> LogOn g l.
  Proof.
    induction ds as [|d r IH]; intros s l HG Hs Hds E; cbn [run_records] in E.
    - injection E as <-. constructor.
    - inversion Hds as [|? ? Hd Hr]. destruct (event_step cf (s <| dr := d |>)) as [[u s1]| |] eqn:E1; try discriminate. destruct u.
      destruct (event_step_tt _ _ _ HG Hs Hd E1) as (A1 & A2 & A3).
      destruct (run_records cf s1 r) as [l1| |] eqn:E2; try discriminate. injection E as <-.
      apply Forall_app. split; [exact A3|]. eapply IH; eassumption.
  Qed.

  (* C20, one event: all dates and durations of the state stay on the grid.  No hypothesis on d_unif d / d_batch d. *)
  Theorem event_step_grid s d s' : Grid g cf -> OnGrid g s -> DrawsOn g d -> event_step cf (s <| dr := d |>) = Ok (tt, s') -> OnGrid g s'.
  Proof. intros (_ & HG) Hs Hd E. apply (event_step_tt s d s' HG Hs Hd E). Qed.
  (* every record written by the event has its dates and durations on the grid; so have the unread samples *)
  Theorem event_step_records s d s' : Grid g cf -> OnGrid g s -> DrawsOn g d -> event_step cf (s <| dr := d |>) = Ok (tt, s') -> LogOn g (log s').
  Proof. intros (_ & HG) Hs Hd E. apply (event_step_tt s d s' HG Hs Hd E). Qed.
  Theorem event_step_unread s d s' : Grid g cf -> OnGrid g s -> DrawsOn g d -> event_step cf (s <| dr := d |>) = Ok (tt, s') -> DrawsOn g (dr s').
  Proof. intros (_ & HG) Hs Hd E. apply (event_step_tt s d s' HG Hs Hd E). Qed.
  (* C20, any number of events *)
  Theorem run_many_grid ds s s' : Grid g cf -> OnGrid g s -> Forall (DrawsOn g) ds -> run_many cf s ds = Ok s' -> OnGrid g s'.
  Proof. intros (_ & HG). apply run_many_tt. exact HG. Qed.
  (* the records of the last event of a run (what the state still holds) *)
  Theorem run_many_log ds s s' : Grid g cf -> OnGrid g s -> LogOn g (log s) -> Forall (DrawsOn g) ds -> run_many cf s ds = Ok s' -> LogOn g (log s').
  Proof. intros (_ & HG). apply run_many_log_tt. exact HG. Qed.
  (* every record written during the run *)
  Theorem records_grid ds s l : Grid g cf -> OnGrid g s -> Forall (DrawsOn g) ds -> run_records cf s ds = Ok l -> LogOn g l.
  Proof. intros (_ & HG). apply records_tt. exact HG. Qed.

  (* "exact decimal sums": with g the tick 10^-k, if all sampled times and timetable constants are whole numbers of ticks, so is
     every date and every duration of every record of the run *)
  Definition rec_times (r : rec) : list (option Z) := [r_arr r; r_wait r; r_sst r; r_stime r; r_send r; r_blocked r; r_exit r].
  Lemma LogOn_times l : LogOn g l -> forall r z, In r l -> In (Some z) (rec_times r) -> exists k, z = k * g.
  Proof.
    intros Hl r z Hr Hz. unfold LogOn in Hl. rewrite Forall_forall in Hl.
    destruct (Hl r Hr) as (B1 & B2 & B3 & B4 & B5 & B6 & B7). unfold rec_times in Hz. cbn [In] in Hz.
    destruct Hz as [Hz|[Hz|[Hz|[Hz|[Hz|[Hz|[Hz|[]]]]]]]];
      match type of Hz with ?o = Some z => match goal with B : odv g o |- _ => rewrite Hz in B; exact B end end.
  Qed.
  Corollary no_drift ds s l : Grid g cf -> OnGrid g s -> Forall (DrawsOn g) ds -> run_records cf s ds = Ok l ->
    forall r z, In r l -> In (Some z) (rec_times r) -> exists k, z = k * g.
  Proof. intros HG Hs Hds E. apply LogOn_times. eapply records_grid; eassumption. Qed.

  (* a state on the grid g is on every coarser-tick ... finer grid g' | g *)
  Lemma OnGrid_finer g' s : Z.divide g' g -> OnGrid g s -> OnGrid g' s.
  Proof.
    intros Hg. assert (Hd : forall z, dv g z -> dv g' z) by (intros z Hz; eapply Z.divide_trans; eassumption).
    assert (Ho : forall o, odv g o -> odv g' o) by (intros [z|]; cbn; auto).
    assert (Hx : forall x, xdv g x -> xdv g' x) by (intros [| |z]; cbn; auto).
    assert (Hl : forall l, ldv g l -> ldv g' l) by (intros l; apply Forall_impl; exact Hd).
    intros (A1 & (A2 & A2') & A3 & A4). split; [auto|]. split; [split; [|auto]|split].
    - eapply Forall_impl; [|exact A2]. intros row. apply Forall_impl. exact Ho.
    - eapply Forall_impl; [|exact A3]. intros nd (B1 & B2 & B3 & B4 & B5 & B6 & B7). split; [|repeat split; auto].
      eapply Forall_impl; [|exact B1]. intros sv (C1 & C2 & C3 & C4 & C5 & C6). repeat split; auto.
    - eapply Forall_impl; [|exact A4]. intros x (B1 & B2 & B3 & B4 & B5 & B6 & B7 & B8 & B9 & B10). repeat split; auto.
  Qed.

  (* Simulation.wrap_up_servers(T): busy / total times are differences of T and dates of the state *)
  Lemma wrap_servers_on t il : dv g t -> Forall (IndOn g) il -> forall l l', Forall (ServerOn g) l -> wrap_servers t il l = Some l' -> Forall (ServerOn g) l'.
  Proof.
    intros Ht Hil. induction l as [|sv r IH]; intros l' Hl E; cbn [wrap_servers] in E; [injection E as <-; constructor|].
    inversion Hl as [|? ? Hsv Hr]. destruct (wrap_servers t il r) as [r'|] eqn:Er; [|discriminate]. specialize (IH _ Hr eq_refl).
    destruct (sv_busy sv).
    - destruct (sv_cust sv) as [c|]; [|discriminate]. destruct (find_ind c il) as [cx|] eqn:Ex; [|discriminate].
      pose proof (Forall_find_ind _ _ _ _ Hil Ex) as Hx. cbv zeta in E. injection E as <-. constructor; [|exact IH]. hside.
    - injection E as <-. constructor; [|exact IH]. hside.
  Qed.
  Theorem wrap_up_servers_grid t s s' : dv g t -> OnGrid g s -> wrap_up_servers t s = Ok (tt, s') -> OnGrid g s'.
  Proof.
    intros Ht (H1 & H2 & H3 & H4) E. unfold wrap_up_servers in E. destruct (wrap_nodes t (inds s) (nodes s)) as [ns|] eqn:En; [|discriminate].
    injection E as <-. split; [exact H1|]. split; [exact H2|]. split; [|exact H4]. cbn.
    clear H1 H2. revert ns En. induction H3 as [|nd r Hnd Hr IH]; intros ns En; cbn [wrap_nodes] in En; [injection En as <-; constructor|].
    destruct (if nd_inf nd then Some (n_servers nd) else wrap_servers t (inds s) (n_servers nd)) as [sv'|] eqn:Esv; [|discriminate].
    destruct (wrap_nodes t (inds s) r) as [r'|]; [|discriminate]. injection En as <-. constructor; [|apply IH; reflexivity].
    assert (Hsv' : Forall (ServerOn g) sv').
    { destruct (nd_inf nd); [injection Esv as <-; apply Hnd|]. eapply wrap_servers_on; [exact Ht|exact H4|apply Hnd|exact Esv]. }
    hside.
  Qed.
End Main.

(* ================================================================================================================ *)
(* Part 5b: "the additive group generated by the sampled values and the timetable constants"                        *)
(* ================================================================================================================ *)
(* all times of a configuration / a state / an oracle frame, as lists *)
Definition otl (o : option Z) : list Z := match o with Some z => [z] | None => [] end.
Definition xtl (x : xz) : list Z := match x with XV z => [z] | _ => [] end.
Definition server_times (sv : server) : list Z :=
  otl (sv_next_end sv) ++ [sv_busy_time sv] ++ otl (sv_total_time sv) ++ [sv_wrapped sv] ++ [sv_start sv] ++ otl (sv_shift_end sv).
Definition node_times (nd : node) : list Z :=
  concat (map server_times (n_servers nd)) ++ otl (n_next_date nd) ++ n_overtime nd ++ n_all_busy nd ++ n_all_total nd ++
  otl (n_next_shift nd) ++ otl (n_nccd nd).
Definition ind_times (x : ind) : list Z :=
  otl (i_arr x) ++ otl (i_sst x) ++ otl (i_stime x) ++ otl (i_send x) ++ otl (i_exit x) ++ xtl (i_ren x) ++ xtl (i_ccd x) ++
  otl (i_tleft x) ++ otl (i_ost x) ++ otl (i_osst x).
Definition arr_times (a : arrst) : list Z := concat (map (fun row => concat (map otl row)) (a_dates a)) ++ otl (a_next_date a).
Definition sim_times (s : sim) : list Z :=
  [now s] ++ arr_times (arr s) ++ concat (map node_times (nodes s)) ++ concat (map ind_times (inds s)).
Definition srv_times (sc : srvcfg) : list Z :=
  match sc with SFixed => [] | SSched sc => sc_off sc :: sc_b sc | SSlot sl => sl_off sl :: sl_b sl end.
Definition cfg_times (cf : config) : list Z := concat (map (fun nc => srv_times (nc_srv nc)) (cf_nodes cf)).
Definition draws_times (d : draws) : list Z := d_arr d ++ d_svc d ++ d_ren d ++ d_cct d.
(* the generators: timetable constants, the times already in the initial state, every sampled time *)
Definition generators (cf : config) (s : sim) (ds : list draws) : list Z := cfg_times cf ++ sim_times s ++ concat (map draws_times ds).

Definition zgcd (l : list Z) : Z := fold_right Z.gcd 0 l.
Fixpoint zdot (cs l : list Z) : Z := match cs, l with c :: cr, x :: r => c * x + zdot cr r | _, _ => 0 end.

Section Group.
  Variable g : Z.
  Lemma Forall_concat_map {X} (f : X -> list Z) l : Forall (dv g) (concat (map f l)) -> Forall (fun x => Forall (dv g) (f x)) l.
  Proof. induction l as [|a r IH]; cbn; intros H; constructor; apply Forall_app in H as [H1 H2]; auto. Qed.
  Lemma otl_on o : Forall (dv g) (otl o) -> odv g o. Proof. destruct o; cbn; intros H; [inversion H; assumption|exact I]. Qed.
  Lemma xtl_on x : Forall (dv g) (xtl x) -> xdv g x. Proof. destruct x; cbn; intros H; try exact I. inversion H; assumption. Qed.
  Lemma one_on z : Forall (dv g) [z] -> dv g z. Proof. intros H; inversion H; assumption. Qed.
  Ltac fsplit H := repeat match goal with Hx : Forall _ (_ ++ _) |- _ => apply Forall_app in Hx as [? ?] end.
  Lemma server_times_on sv : Forall (dv g) (server_times sv) -> ServerOn g sv.
  Proof. unfold server_times, ServerOn. intros H. fsplit H. repeat split; auto using otl_on, one_on. Qed.
  Lemma node_times_on nd : Forall (dv g) (node_times nd) -> NodeOn g nd.
  Proof.
    unfold node_times, NodeOn. intros H. fsplit H. split; [|repeat split; auto using otl_on].
    match goal with Hx : Forall _ (concat (map server_times _)) |- _ => apply Forall_concat_map in Hx; eapply Forall_impl; [|exact Hx] end.
    apply server_times_on.
  Qed.
  Lemma ind_times_on x : Forall (dv g) (ind_times x) -> IndOn g x.
  Proof. unfold ind_times, IndOn. intros H. fsplit H. repeat split; auto using otl_on, xtl_on. Qed.
  Lemma sim_times_on s : Forall (dv g) (sim_times s) -> OnGrid g s.
  Proof.
    unfold sim_times, arr_times, OnGrid, ArrOn. intros H. fsplit H. split; [apply one_on; assumption|]. split; [split; [|apply otl_on; assumption]|split].
    - match goal with Hx : Forall _ (concat (map _ (a_dates _))) |- _ => apply Forall_concat_map in Hx; eapply Forall_impl; [|exact Hx] end.
      intros row Hrow. cbv beta in Hrow. apply Forall_concat_map in Hrow. eapply Forall_impl; [|exact Hrow]. apply otl_on.
    - match goal with Hx : Forall _ (concat (map node_times _)) |- _ => apply Forall_concat_map in Hx; eapply Forall_impl; [|exact Hx] end. apply node_times_on.
    - match goal with Hx : Forall _ (concat (map ind_times _)) |- _ => apply Forall_concat_map in Hx; eapply Forall_impl; [|exact Hx] end. apply ind_times_on.
  Qed.
  Lemma cfg_times_on cf : Forall (dv g) (cfg_times cf) -> Timetable g cf.
  Proof.
    unfold cfg_times, Timetable. intros H. apply Forall_concat_map in H. eapply Forall_impl; [|exact H]. intros nc Hnc. cbv beta in Hnc.
    destruct (nc_srv nc) as [|sc|sl]; cbn in *; [exact I| |]; inversion Hnc; split; assumption.
  Qed.
  Lemma draws_times_on d : Forall (dv g) (draws_times d) -> DrawsOn g d.
  Proof. unfold draws_times, DrawsOn. intros H. fsplit H. repeat split; assumption. Qed.
End Group.

Lemma zgcd_divides l : Forall (Z.divide (zgcd l)) l.
Proof.
  induction l as [|a r IH]; cbn; constructor; [apply Z.gcd_divide_l|].
  eapply Forall_impl; [|exact IH]. intros x Hx. eapply Z.divide_trans; [apply Z.gcd_divide_r|exact Hx].
Qed.
Lemma zdot_scale v : forall cs l, zdot (map (Z.mul v) cs) l = v * zdot cs l.
Proof. induction cs as [|c cr IH]; intros [|x r]; cbn [map zdot]; try lia. rewrite IH. lia. Qed.
Lemma zgcd_bezout l : exists cs, length cs = length l /\ zgcd l = zdot cs l.
Proof.
  induction l as [|a r (cs & Hl & IH)]; [exists []; split; reflexivity|].
  cbn [zgcd fold_right]. fold (zgcd r). destruct (Z.gcd_bezout a (zgcd r) _ eq_refl) as (u & v & E).
  exists (u :: map (Z.mul v) cs). split; [cbn; rewrite map_length, Hl; reflexivity|].
  cbn [zdot]. rewrite zdot_scale, <- IH. lia.
Qed.

(* C20 in the words of the brief: every date and duration of every record of a run is an INTEGER COMBINATION of the timetable
   constants, the times of the initial state and the sampled times -- for EVERY configuration and every run that does not crash *)
Theorem dates_in_generated_group cf s ds l : run_records cf s ds = Ok l ->
  forall r z, In r l -> In (Some z) (rec_times r) ->
  exists cs, length cs = length (generators cf s ds) /\ z = zdot cs (generators cf s ds).
Proof.
  intros E r z Hr Hz. set (gs := generators cf s ds). pose proof (zgcd_divides gs) as Hg.
  unfold gs, generators in Hg. apply Forall_app in Hg as [Hc Hg]. apply Forall_app in Hg as [Hs Hd].
  assert (Hl : LogOn (zgcd gs) l).
  { eapply records_tt; [apply cfg_times_on; exact Hc|apply sim_times_on; exact Hs| |exact E].
    apply Forall_concat_map in Hd. eapply Forall_impl; [|exact Hd]. apply draws_times_on. }
  destruct (LogOn_times _ _ Hl r z Hr Hz) as (k & Hk). destruct (zgcd_bezout gs) as (cs & Hlen & Hb).
  exists (map (Z.mul k) cs). split; [rewrite map_length; exact Hlen|]. rewrite zdot_scale, <- Hb. exact Hk.
Qed.
(* the same for the dates and durations of the final state *)
Theorem state_in_generated_group cf s ds s' : run_many cf s ds = Ok s' -> OnGrid (zgcd (generators cf s ds)) s'.
Proof.
  intros E. set (gs := generators cf s ds). pose proof (zgcd_divides gs) as Hg.
  unfold gs, generators in Hg. apply Forall_app in Hg as [Hc Hg]. apply Forall_app in Hg as [Hs Hd].
  eapply run_many_tt; [apply cfg_times_on; exact Hc|apply sim_times_on; exact Hs| |exact E].
  apply Forall_concat_map in Hd. eapply Forall_impl; [|exact Hd]. apply draws_times_on.
Qed.

(* ================================================================================================================ *)
(* Part 6: closed examples, g = 5                                                                                   *)
(* ================================================================================================================ *)
(* one node, two classes (class 0 has priority over class 1, priority pre-emption 'resume'), PRE-EMPTIVE ('resume') schedule
   [1, 1] until [10, 20]: every timetable constant is a multiple of 5 *)
Definition ex_nc : ncfg := mkNcfg None None 0 (SSched (mkSched [10; 20] [1; 1] 0 1)) 1 false [false; false] 0.
Definition ex_cf : config :=
  mkCfg 2 [ex_nc] [0; 1] 2 None [RtNR [RLeave]; RtNR [RLeave]] [[None]; [None]] false [[false; false]; [false; false]].
Definition ex_node : node := mkNode 1 0 0 [[]; []] [] [] 0 (Some 0) [] (Some 0) 0 [] 0 [] [] [] 1 (Some 0) 0 None None.
Definition no_draws : draws := mkDraws [] [] [] [] [] [].
Definition ex_s0 : sim := mkSim 0 1 (mkArr 0 0 [[Some 15; Some 5]] 1 1 (Some 5)) [ex_node] [] 0 0 [] no_draws [] [[0]; [0]].
(* shift change at 0; class-1 customer at 5 (service 100, end 105); pre-emptive shift change at 10: interrupted with time_left 95 and
   resumed at once (end 105); class-0 customer at 15 (service 50) pre-empts it: time_left = 105 - 15 = 90; shift changes at 20, 30, 40
   interrupt and resume the class-0 customer (time_left 45, 35, 25).  The batch sizes (1) are NOT multiples of 5: not times. *)
Definition ex_ds : list draws :=
  [ no_draws; mkDraws [1000] [1] [100] [] [] []; no_draws; mkDraws [1000] [1] [50] [] [] []; no_draws; no_draws; no_draws ].
Definition after (cf : config) (s : sim) (ds : list draws) : sim := match run_many cf s ds with Ok s' => s' | _ => s end.
Definition ex_s4 : sim := Eval vm_compute in after ex_cf ex_s0 (firstn 4 ex_ds).
Definition carried (s : sim) : list (Z * option Z * Z * option Z * option Z) :=
  map (fun x => (i_id x, i_tleft x, i_smark x, i_ost x, i_send x)) (inds s).

Example grid_example :
  grid_b 5 ex_cf = true /\ ongrid_b 5 ex_cf ex_s0 = true /\ forallb (drawson_b 5) ex_ds = true /\
  (* after four events customer 1 is pre-empted and carries time_left = 90 (marker 1 = resume), customer 2 is in service until 65 *)
  run_many ex_cf ex_s0 (firstn 4 ex_ds) = Ok ex_s4 /\ ongrid_b 5 ex_cf ex_s4 = true /\ now ex_s4 = 20 /\
  carried ex_s4 = [(1, Some 90, 1, Some 95, None); (2, None, 0, None, Some 65)] /\
  match run_many ex_cf ex_s4 (skipn 4 ex_ds) with
  | Ok s => ongrid_b 5 ex_cf s = true /\ now s = 50 /\ carried s = [(1, Some 90, 1, Some 95, None); (2, Some 25, 0, Some 35, Some 65)]
  | _ => False
  end /\
  match run_records ex_cf ex_s0 ex_ds with
  | Ok l => logon_b 5 l = true /\ map (fun r => (r_id r, r_sst r, r_stime r, r_exit r)) l =
            [(1, Some 5, Some 100, Some 10); (1, Some 10, Some 95, Some 15); (2, Some 15, Some 50, Some 20);
             (2, Some 20, Some 45, Some 30); (2, Some 30, Some 35, Some 40)]
  | _ => False
  end.
Proof. vm_compute. repeat split; reflexivity. Qed.

(* the theorems at work on the example (no computation of the run) *)
Example grid_example_by_theorem s : run_many ex_cf ex_s4 (skipn 4 ex_ds) = Ok s -> OnGrid 5 s.
Proof.
  apply run_many_grid.
  - apply grid_b_sound. vm_compute. reflexivity.
  - apply (ongrid_b_sound 5 ex_cf). vm_compute. reflexivity.
  - eapply forallb_Forall; [apply drawson_b_sound|]. vm_compute. reflexivity.
Qed.

(* the hypothesis on the sampled times is needed (a service sample of 7 ticks puts an end date off the 5-grid) ... *)
Definition ex_s1 : sim := Eval vm_compute in after ex_cf ex_s0 (firstn 1 ex_ds).
Theorem off_grid_sample_leaves_grid :
  exists d s', grid_b 5 ex_cf = true /\ ongrid_b 5 ex_cf ex_s1 = true /\ drawson_b 5 d = false /\
    event_step ex_cf (ex_s1 <| dr := d |>) = Ok (tt, s') /\ ongrid_b 5 ex_cf s' = false /\
    map (fun x => (i_sst x, i_stime x, i_send x)) (inds s') = [(Some 5, Some 7, Some 12)].
Proof.
  exists (mkDraws [1000] [1] [7] [] [] []), (after ex_cf ex_s1 [mkDraws [1000] [1] [7] [] [] []]).
  vm_compute. repeat split; reflexivity.
Qed.

(* the gcd of the generators of the example is 5: the finest grid the theorems give for this run *)
Example ex_generators : zgcd (generators ex_cf ex_s0 ex_ds) = 5 /\ OnGrid 5 (after ex_cf ex_s0 ex_ds).
Proof.
  split; [vm_compute; reflexivity|].
  change 5 with (zgcd (generators ex_cf ex_s0 ex_ds)). apply state_in_generated_group. vm_compute. reflexivity.
Qed.

(* ... and so is the hypothesis on the timetable: the same network with shift boundaries [7; 20] puts the next shift change at 7 *)
Definition ex_cf7 : config :=
  mkCfg 2 [mkNcfg None None 0 (SSched (mkSched [7; 20] [1; 1] 0 1)) 1 false [false; false] 0]
        [0; 1] 2 None [RtNR [RLeave]; RtNR [RLeave]] [[None]; [None]] false [[false; false]; [false; false]].
Theorem off_grid_timetable_leaves_grid :
  exists s', grid_b 5 ex_cf7 = false /\ ongrid_b 5 ex_cf7 ex_s0 = true /\ drawson_b 5 no_draws = true /\
    event_step ex_cf7 (ex_s0 <| dr := no_draws |>) = Ok (tt, s') /\ ongrid_b 5 ex_cf7 s' = false /\
    map n_next_shift (nodes s') = [Some 7].
Proof. exists (after ex_cf7 ex_s0 [no_draws]). vm_compute. repeat split; reflexivity. Qed.

(* slotted services: node 1 has capacitated pre-emptive ('resume') slots at 10, 25 (+25 each cycle) of sizes 2, 1; node 2 one server;
   everybody goes 1 -> 2 -> exit.  The slot at 50 (size 1, two in service) interrupts customer 2 with time_left = 510 - 50 = 460;
   the slot at 60 resumes it (end date 60 + 460 = 520). *)
Definition sl_cf : config :=
  mkCfg 1 [mkNcfg None None 0 (SSlot (mkSlot [10; 25] [2; 1] 0 true 1)) 0 false [false] 0; mkNcfg None None 0 SFixed 0 false [false] 0]
        [0] 1 None [RtNR [RDirect 2; RLeave]] [[None; None]] false [[false]].
Definition sl_n1 : node := mkNode 1 0 0 [[]] [] [] 0 (Some 10) [] (Some 0) 0 [] 0 [] [] [] 4 None 1 None None.
Definition sl_n2 : node := mkNode 2 0 0 [[]] [mkServer 1 None false None 0 None 0 false 0 None] [] 0 None [] (Some 1) 1 [] 0 [] [] [] 0 None 0 None None.
Definition sl_s0 : sim := mkSim 5 0 (mkArr 0 0 [[Some 5]; [None]] 1 0 (Some 5)) [sl_n1; sl_n2] [] 0 0 [] no_draws [] [[0; 0]].
Definition sl_ds : list draws :=
  [ mkDraws [5000] [3] [] [] [] []; mkDraws [] [] [5; 500] [] [] []; mkDraws [] [] [30] [] [] []; no_draws; mkDraws [] [] [500] [] [] [];
    no_draws; no_draws; no_draws ].
Example slot_example :
  grid_b 5 sl_cf = true /\ ongrid_b 5 sl_cf sl_s0 = true /\ forallb (drawson_b 5) sl_ds = true /\
  map (fun n => match run_many sl_cf sl_s0 (firstn n sl_ds) with Ok s => Some (now s, ongrid_b 5 sl_cf s) | _ => None end) [1; 2; 3; 4; 5; 6; 7; 8]%nat
  = [Some (10, true); Some (15, true); Some (25, true); Some (35, true); Some (45, true); Some (50, true); Some (60, true); Some (75, true)] /\
  match run_many sl_cf sl_s0 (firstn 7 sl_ds), run_many sl_cf sl_s0 sl_ds with
  | Ok s7, Ok s8 => carried s7 = [(2, Some 460, 1, Some 500, None); (3, None, 0, None, Some 535)] /\
                    carried s8 = [(2, Some 460, 0, Some 500, Some 520); (3, None, 0, None, Some 535)]
  | _, _ => False
  end /\
  match run_records sl_cf sl_s0 sl_ds with Ok l => logon_b 5 l = true /\ length l = 3%nat | _ => False end.
Proof. vm_compute. repeat split; reflexivity. Qed.

Print Assumptions event_step_grid.
Print Assumptions event_step_records.
Print Assumptions event_step_unread.
Print Assumptions run_many_grid.
Print Assumptions run_many_log.
Print Assumptions records_grid.
Print Assumptions no_drift.
Print Assumptions event_step_tt.
Print Assumptions run_many_tt.
Print Assumptions records_tt.
Print Assumptions dates_in_generated_group.
Print Assumptions state_in_generated_group.
Print Assumptions wrap_up_servers_grid.
Print Assumptions ongrid_b_sound.
Print Assumptions grid_b_sound.
Print Assumptions grid_example.
Print Assumptions grid_example_by_theorem.
Print Assumptions off_grid_sample_leaves_grid.
Print Assumptions ex_generators.
Print Assumptions slot_example.
Print Assumptions off_grid_timetable_leaves_grid.
Print Assumptions ongrid_b_complete.
Print Assumptions OnGrid_finer.

(* Inversion2.v -- T2 for the last clause of C11 (no priority inversion) on the STAGE-2 engine model (State2 / Engine2 / Codec2), as an
   invariant over events and runs.  Partial correctness: nothing is said about runs in which the model returns Err / OutOfFuel.

   THE CLAIM.  NoInv cf s: at every node with priority pre-emption (nc_preempt <> 0), a fixed (SFixed) and finite (n_c <> None) number of
   servers, for every server sv of the node with customer v and every customer u in a queue of the node whose record has no server marker
   (u WAITS):  i_prio v <= i_prio u  -- whoever holds a server is at least as important as whoever waits.  A BLOCKED customer still holds
   its server and counts as v (the scope below has no blocking); an interrupted customer does not exist at such a node (NoInv_means), so
   "has no server marker" is exactly what the registered check calls waiting.

   MAIN RESULTS (every configuration in inv_scope, every state satisfying the invariant, every oracle of draws, any number of events):
     event_step_invJ, run_many_invJ        the inductive invariant InvJ is kept by one event / by any run
     InvJ_NoInv, run_many_noinv            InvJ implies the claim; hence the claim holds after every event of every run
     NoInv_means                           InvJ in the words of C11: at a node of the claim (1) no inversion, (2) nobody waits while a server is idle,
                                           (3) every customer stands in the queue of its priority class (i_prio = i_pprio = queue index),
                                           (4) server identities are distinct, a server's customer is in a queue of the node and records
                                           exactly that server, (5) no customer is interrupted there
     invj_b / invj_b_sound, noinv_b / noinv_b_sound / noinv_b_complete      executable tests
     ex_in_scope, ex_invariant, ex_run_noinv, ex_two_servers               three priority levels, options resume / restart, 14 events
     ex_class_change_while_waiting                                         a class change while waiting that pre-empts, inside the scope
   No hypothesis on the draws.

   THE INVARIANT InvJ cf s = idxv /\ J cf [] None [] None [] (VW s) /\ NXT cf (VW s), on the view VW s (per node: identity, queues, servers as
   (id, customer, busy, off duty), c, candidate of the next class change, list of interrupted customers, type and candidates of the next event;
   creation counter; per customer (server marker, priority class, previous priority class)):  node identities are positions; the customers in
   all queues are distinct and were created; no node has interrupted customers; and at every node of the claim the seven clauses of NodeJ:
   distinct server ids; no servers or c > 0; link server -> customer (nj_lnk); queue index = priority class = previous priority class
   (nj_cls); NO INVERSION (nj_inv); nobody waits while a server is idle (nj_idl); the candidate of the next class change while waiting has no
   server (nj_cc).  NXT: the candidates of a renege / class-change event have no server.  Inside an event J carries five parameters: customers
   in flight (fl), a customer that has left its queue but still holds its server (vm), customers whose priority clauses are suspended (ex: the
   arriving / class-changing customer until decide_preempt has run, the customer whose class the class-change matrix has just changed), a
   server that has just been freed (hole), a customer exempt from nj_cc until reset_class_change has run (ce).

   SCOPE inv_scope cf (executable, per node):
     (1) no node capacity (nc_cap = None everywhere): nobody is ever blocked.      noinv_refuted_blocked_class_change: with a capacity AND a
         class-change matrix the claim is FALSE of the model (a blocked customer whose class has changed is pre-empted, stays in the queue of
         its old class and is served again before a more important customer; region of F-02a; the registered check skips nodes that hold a
         blocked customer).  Capacities without class-change matrix at the pre-emptive node: NOT refuted (proof economy: the candidates of an
         end-of-service event would have to be shown to be customers of their node at every node).
     (2) priority pre-emption only at nodes with a fixed number of servers (no Schedule, no slots there).
         noinv_refuted_preemptive_schedule  NEW finding, reproduced on the real engine: with a PRE-EMPTIVE schedule the customers interrupted at
         a shift end are restarted at the next shift before the queues are looked at, so a less important interrupted customer is served while a
         more important one (arrived while there were no servers) waits, and nothing pre-empts it afterwards.
         noinv_refuted_overtime             NEW finding, reproduced on the real engine: with a NON-pre-emptive schedule a customer served in
         overtime by an off-duty server is not pre-empted when the node has c = 0 servers on duty (decide_preempt is only called when c > 0).
     (3) the pre-emption option is not 'reroute' (4).   NOT refuted for the claim itself (region of F-11a / F-07b / F-09b: the nested
         release -> accept inside preempt; the link invariant fails there: Servers2.link_refuted_reroute_preempt).
     (4) no pre-emptive schedule and no pre-emptive capacitated slots at ANY node.   NOT refuted: proof economy (an interrupted customer is
         restarted by identifier from the node's list of interrupted customers; to know that it is not a customer of a node of the claim the
         full link invariant of Servers2 would be needed at every node).
   INSIDE the scope: class change while waiting (cf_dyn) at pre-emptive nodes -- change_customer_class_while_waiting calls decide_preempt for
   the customer whose class changed and that IS enough (ht_ccww); class-change matrices after service; reneging and jockeying; routers of all
   kinds; batch arrivals, baulking; non-pre-emptive schedules and slots at nodes without priority pre-emption; server priority functions;
   LIFO / SIRO disciplines; any number of servers, classes and priority levels.

   METHOD.  Built on Order2 (what choose_next_customer returns: chosen_is_prescribed, none_chosen_none_waiting; the bodies of the recursive
   core accept_S ... preempt_S) and Preempt2 (preempt_victim_spec: the victim is the least important customer in service).  Part 1-2 view and
   frame logic PV (a function leaves the view alone: one line per engine function, after Servers2); Part 3 J and its pure lemmas (J_step: one
   node and the records of its customers change; enqueue, dequeue, free a server, occupy a server, ...); Part 4 a Hoare logic ht on views;
   Part 5-6 the selection functions and the blocks that start a service; Part 7 release / release_blocked_individual / accept / preempt by
   induction on the fuel (core_spec); Part 8 the event functions; Part 9-12 runs, meaning, executable tests, examples and witnesses. *)
From Coq Require Import ZArith List Bool Lia Permutation.
From RecordUpdate Require Import RecordUpdate.
From CiwV Require Import Sx Prelude Routing Sched.
From CiwV.Engine Require Import State2 Engine2 Codec2.
From CiwV.Inv Require Order2 Preempt2 Servers2.
Import ListNotations.
Open Scope Z_scope.

Local Arguments Z.mul : simpl never.
Local Arguments Z.add : simpl never.
Local Arguments Z.sub : simpl never.
Local Arguments Z.ltb : simpl never.
Local Arguments Z.leb : simpl never.
Local Arguments Z.eqb : simpl never.
Local Arguments Z.to_nat : simpl never.
Local Arguments Z.of_nat : simpl never.
Local Arguments Z.min : simpl never.
Local Arguments Z.max : simpl never.

(* ====================================================================================================================== *)
(* Part 1.  The view: what the invariant looks at                                                                        *)
(* ====================================================================================================================== *)
Record sview := mkSv { s_id : Z; s_cust : option Z; s_busy : bool; s_off : bool }.
Definition sc (sv : server) : sview := mkSv (sv_id sv) (sv_cust sv) (sv_busy sv) (sv_offduty sv).
Record nview := mkNv { v_id : Z; v_qs : list (list Z); v_srv : list sview; v_c : option Z; v_cci : option Z; v_int : list Z; v_nty : Z; v_nxi : list Z }.
Definition nv (nd : node) : nview :=
  mkNv (n_id nd) (n_queues nd) (map sc (n_servers nd)) (n_c nd) (n_ncci nd) (n_interrupted nd) (n_next_type nd) (n_next_inds nd).
(* a customer record: (server marker, priority class, previous priority class) *)
Definition ient := (option Z * Z * Z)%type.
Definition iv (x : ind) : Z * ient := (i_id x, (i_server x, i_prio x, i_pprio x)).
Record view := mkVw { w_ns : list nview; w_cr : Z; w_is : list (Z * ient) }.
Definition VW (s : sim) : view := mkVw (map nv (nodes s)) (a_created (arr s)) (map iv (inds s)).

Definition idxv (w : view) : Prop := forall k n, nth_error (w_ns w) k = Some n -> v_id n = Z.of_nat k + 1.

(* ---------- lists of (id, record) entries ---------- *)
Fixpoint fiv (i : Z) (l : list (Z * ient)) : option ient :=
  match l with [] => None | (k, o) :: r => if k =? i then Some o else fiv i r end.
Fixpoint putiv (p : Z * ient) (l : list (Z * ient)) : list (Z * ient) :=
  match l with [] => [p] | q :: r => if fst q =? fst p then p :: r else q :: putiv p r end.
Fixpoint deliv (i : Z) (l : list (Z * ient)) : list (Z * ient) :=
  match l with [] => [] | q :: r => if fst q =? i then r else q :: deliv i r end.

Lemma fiv_find i l : fiv i (map iv l) = option_map (fun x => (i_server x, i_prio x, i_pprio x)) (find_ind i l).
Proof. induction l as [|y r IH]; cbn; [reflexivity|]. destruct (i_id y =? i); [reflexivity|exact IH]. Qed.
Lemma find_ind_id i l x : find_ind i l = Some x -> i_id x = i.
Proof. induction l as [|y r IH]; cbn; [discriminate|]. destruct (i_id y =? i) eqn:E; [intros H; injection H as <-; apply Z.eqb_eq; exact E|exact IH]. Qed.
Lemma map_iv_put x l : map iv (put_ind_l x l) = putiv (iv x) (map iv l).
Proof. induction l as [|y r IH]; cbn; [reflexivity|]. destruct (i_id y =? i_id x); cbn; [reflexivity|]. rewrite IH. reflexivity. Qed.
Lemma map_iv_del i l : map iv (del_ind_l i l) = deliv i (map iv l).
Proof. induction l as [|y r IH]; cbn; [reflexivity|]. destruct (i_id y =? i); cbn; [reflexivity|]. rewrite IH. reflexivity. Qed.
Lemma putiv_same p l : fiv (fst p) l = Some (snd p) -> putiv p l = l.
Proof.
  destruct p as [k o]. cbn. induction l as [|[k' o'] r IH]; cbn; [discriminate|]. destruct (k' =? k) eqn:E.
  - intros H. injection H as ->. apply Z.eqb_eq in E. subst k'. reflexivity.
  - intros H. rewrite (IH H). reflexivity.
Qed.
Lemma fiv_putiv p l i : fiv i (putiv p l) = if fst p =? i then Some (snd p) else fiv i l.
Proof.
  destruct p as [k o]. cbn. induction l as [|[k' o'] r IH]; cbn.
  - destruct (k =? i); reflexivity.
  - destruct (k' =? k) eqn:E; cbn.
    + apply Z.eqb_eq in E. subst k'. destruct (k =? i); reflexivity.
    + destruct (k' =? i) eqn:E2.
      * apply Z.eqb_eq in E2. subst k'. rewrite Z.eqb_sym in E. rewrite E. reflexivity.
      * exact IH.
Qed.
Lemma fiv_deliv i l i' : i' <> i -> fiv i' (deliv i l) = fiv i' l.
Proof.
  intros Hne. induction l as [|[k o] r IH]; cbn; [reflexivity|]. destruct (k =? i) eqn:E; cbn.
  - apply Z.eqb_eq in E. subst k. destruct (i =? i') eqn:E2; [apply Z.eqb_eq in E2; congruence|reflexivity].
  - destruct (k =? i'); [reflexivity|exact IH].
Qed.

(* ---------- lists of server views ---------- *)
Fixpoint fsv (i : Z) (l : list sview) : option sview :=
  match l with [] => None | t :: r => if s_id t =? i then Some t else fsv i r end.
Fixpoint putsv (t : sview) (l : list sview) : list sview :=
  match l with [] => [] | y :: r => if s_id y =? s_id t then t :: r else y :: putsv t r end.
Fixpoint delsv (i : Z) (l : list sview) : list sview :=
  match l with [] => [] | y :: r => if s_id y =? i then r else y :: delsv i r end.
Definition sids (l : list sview) : list Z := map s_id l.
Lemma fsv_find i l : fsv i (map sc l) = option_map sc (find_server i l).
Proof. induction l as [|y r IH]; cbn; [reflexivity|]. destruct (sv_id y =? i); [reflexivity|exact IH]. Qed.
Lemma map_sc_put sv l : map sc (put_server_l sv l) = putsv (sc sv) (map sc l).
Proof. induction l as [|y r IH]; cbn; [reflexivity|]. destruct (sv_id y =? sv_id sv); cbn; [reflexivity|]. rewrite IH. reflexivity. Qed.
Lemma map_sc_del i l : map sc (del_server_l i l) = delsv i (map sc l).
Proof. induction l as [|y r IH]; cbn; [reflexivity|]. destruct (sv_id y =? i); cbn; [reflexivity|]. rewrite IH. reflexivity. Qed.
Lemma putsv_same t l : fsv (s_id t) l = Some t -> putsv t l = l.
Proof.
  induction l as [|y r IH]; cbn; [reflexivity|]. destruct (s_id y =? s_id t); [intros H; injection H as ->; reflexivity|].
  intros H. rewrite (IH H). reflexivity.
Qed.
Lemma fsv_id i l t : fsv i l = Some t -> s_id t = i /\ In t l.
Proof.
  induction l as [|y r IH]; cbn; [discriminate|]. destruct (s_id y =? i) eqn:E.
  - intros H. injection H as <-. apply Z.eqb_eq in E. auto.
  - intros H. destruct (IH H). auto.
Qed.
Lemma fsv_None i l : ~ In i (sids l) -> fsv i l = None.
Proof.
  unfold sids. induction l as [|y r IH]; cbn; [reflexivity|]. intros H. destruct (s_id y =? i) eqn:E; [apply Z.eqb_eq in E; tauto|]. apply IH. tauto.
Qed.
Lemma fsv_In_nd t l : NoDup (sids l) -> In t l -> fsv (s_id t) l = Some t.
Proof.
  unfold sids. induction l as [|y r IH]; cbn; [intros _ []|]. intros HN [->|Hi]; [rewrite Z.eqb_refl; reflexivity|].
  inversion HN as [|? ? Hy Hr]; subst. destruct (s_id y =? s_id t) eqn:E; [|apply IH; assumption].
  apply Z.eqb_eq in E. exfalso. apply Hy. rewrite E. apply in_map. exact Hi.
Qed.
Lemma find_server_id i l sv : find_server i l = Some sv -> sv_id sv = i /\ In sv l.
Proof.
  induction l as [|y r IH]; cbn; [discriminate|]. destruct (sv_id y =? i) eqn:E.
  - intros H. injection H as <-. apply Z.eqb_eq in E. auto.
  - intros H. destruct (IH H). auto.
Qed.
Lemma sids_putsv t l : sids (putsv t l) = sids l.
Proof.
  unfold sids. induction l as [|y r IH]; cbn; [reflexivity|]. destruct (s_id y =? s_id t) eqn:E; cbn; [apply Z.eqb_eq in E; rewrite E; reflexivity|].
  rewrite IH. reflexivity.
Qed.
Lemma in_putsv t l u : In u (putsv t l) -> u = t \/ In u l.
Proof.
  induction l as [|y r IH]; cbn; [tauto|]. destruct (s_id y =? s_id t); cbn; [intuition auto|]. intros [H|H]; [tauto|]. destruct (IH H); tauto.
Qed.
Lemma in_putsv_ne t l u : In u (putsv t l) -> s_id u <> s_id t -> In u l.
Proof.
  induction l as [|y r IH]; cbn; [tauto|]. destruct (s_id y =? s_id t) eqn:E; cbn.
  - intros [<-|H] Hne; [congruence|tauto].
  - intros [H|H] Hne; [tauto|]. right. apply IH; assumption.
Qed.
Lemma in_putsv_keep t l u : In u l -> s_id u <> s_id t -> In u (putsv t l).
Proof.
  induction l as [|y r IH]; cbn; [tauto|]. destruct (s_id y =? s_id t) eqn:E; cbn.
  - apply Z.eqb_eq in E. intros [<-|H] Hne; [congruence|tauto].
  - intros [H|H] Hne; [tauto|]. right. apply IH; assumption.
Qed.
Lemma in_delsv i l u : In u (delsv i l) -> In u l.
Proof. induction l as [|y r IH]; cbn; [tauto|]. destruct (s_id y =? i); cbn; [tauto|]. intros [H|H]; tauto. Qed.
Lemma sids_delsv_incl i l a : In a (sids (delsv i l)) -> In a (sids l).
Proof. unfold sids. induction l as [|y r IH]; cbn; [tauto|]. destruct (s_id y =? i); cbn; [tauto|]. intros [H|H]; tauto. Qed.
Lemma nodup_sids_delsv i l : NoDup (sids l) -> NoDup (sids (delsv i l)).
Proof.
  unfold sids. induction l as [|y r IH]; cbn; [auto|]. intros HN. inversion HN as [|? ? Hy Hr]; subst. destruct (s_id y =? i); cbn; [exact Hr|].
  constructor; [|apply IH; exact Hr]. intros F. apply Hy. eapply (sids_delsv_incl i); exact F.
Qed.

(* ---------- generic list facts ---------- *)
Lemma upd_map {X Y} (f : X -> Y) (l : list X) k x : map f (upd l k x) = upd (map f l) k (f x).
Proof. revert k; induction l as [|a l IH]; intros [|k]; cbn; try reflexivity; f_equal; apply IH. Qed.
Lemma updZ_map {X Y} (f : X -> Y) (l : list X) j x : map f (updZ l j x) = updZ (map f l) j (f x).
Proof. unfold updZ. destruct (j <? 0); [reflexivity|apply upd_map]. Qed.
Lemma upd_same {X} (l : list X) k x : nth_error l k = Some x -> upd l k x = l.
Proof. revert k; induction l as [|a l IH]; intros [|k] H; cbn in *; try discriminate; [injection H as ->; reflexivity|f_equal; auto]. Qed.
Lemma updZ_same {X} (l : list X) j x : nthZ l j = Some x -> updZ l j x = l.
Proof. unfold nthZ, updZ. destruct (j <? 0); [reflexivity|apply upd_same]. Qed.
Lemma nth_error_upd_eq {X} (l : list X) k x y : nth_error l k = Some y -> nth_error (upd l k x) k = Some x.
Proof. revert k; induction l as [|a l IH]; intros [|k] H; cbn in *; try discriminate; auto. Qed.
Lemma nth_error_upd_neq {X} (l : list X) k k' x : k <> k' -> nth_error (upd l k x) k' = nth_error l k'.
Proof. revert k k'; induction l as [|a l IH]; intros [|k] [|k'] H; cbn; auto; try congruence. Qed.
Lemma length_upd {X} (l : list X) k x : length (upd l k x) = length l.
Proof. revert k; induction l as [|a l IH]; intros [|k]; cbn; auto. Qed.
Lemma nth_error_upd_cases {X} (l : list X) k x k' y : nth_error (upd l k x) k' = Some y ->
  (k' = k /\ y = x) \/ (k' <> k /\ nth_error l k' = Some y).
Proof.
  intros H. destruct (Nat.eq_dec k k') as [<-|Hne].
  - left. destruct (nth_error l k) eqn:E.
    + rewrite (nth_error_upd_eq _ _ _ _ E) in H. injection H as <-. auto.
    + exfalso. assert (L : (length l <= k)%nat) by (apply nth_error_None; exact E).
      assert (nth_error (upd l k x) k = None) by (apply nth_error_None; rewrite length_upd; lia). congruence.
  - right. rewrite nth_error_upd_neq in H by exact Hne. split; [congruence|exact H].
Qed.
Lemma nthZ_nat {X} (l : list X) j x : nthZ l j = Some x -> exists k, j = Z.of_nat k /\ nth_error l k = Some x.
Proof. unfold nthZ. destruct (j <? 0) eqn:E; [discriminate|]. apply Z.ltb_ge in E. intros H. exists (Z.to_nat j). split; [lia|exact H]. Qed.
Lemma nthZ_of_nat {X} (l : list X) k : nthZ l (Z.of_nat k) = nth_error l k.
Proof. unfold nthZ. destruct (Z.of_nat k <? 0) eqn:E; [apply Z.ltb_lt in E; lia|]. rewrite Nat2Z.id. reflexivity. Qed.
Lemma updZ_nat {X} (l : list X) k x : updZ l (Z.of_nat k) x = upd l k x.
Proof. unfold updZ. destruct (Z.of_nat k <? 0) eqn:E; [apply Z.ltb_lt in E; lia|]. rewrite Nat2Z.id. reflexivity. Qed.
Lemma nthZ_map {X Y} (f : X -> Y) (l : list X) j : nthZ (map f l) j = option_map f (nthZ l j).
Proof. unfold nthZ. destruct (j <? 0); [reflexivity|]. rewrite nth_error_map. reflexivity. Qed.
Lemma upd_upd {A} (l : list A) k a b : upd (upd l k a) k b = upd l k b.
Proof. revert k; induction l as [|h t IH]; intros [|k]; cbn; try reflexivity. f_equal. apply IH. Qed.
Lemma upd_split {A} (l : list A) k x y : nth_error l k = Some x -> exists pre post, l = pre ++ x :: post /\ upd l k y = pre ++ y :: post /\ length pre = k.
Proof.
  revert k; induction l as [|a l IH]; intros [|k] H; cbn in *; try discriminate.
  - injection H as ->. exists [], l. auto.
  - destruct (IH k H) as (pre & post & -> & E & L). exists (a :: pre), post. cbn. rewrite E, L. auto.
Qed.
Lemma remove_first_in i l l' : remove_first i l = Some l' -> In i l.
Proof.
  revert l'; induction l as [|h t IH]; intros l'; cbn; [discriminate|]. destruct (h =? i) eqn:E; [apply Z.eqb_eq in E; auto|].
  destruct (remove_first i t) eqn:R; cbn; [|discriminate]. intros _. right. eapply IH; eauto.
Qed.
Lemma remove_first_perm i l l' : remove_first i l = Some l' -> Permutation l (i :: l').
Proof.
  revert l'; induction l as [|h t IH]; intros l'; cbn; [discriminate|]. destruct (h =? i) eqn:E.
  - apply Z.eqb_eq in E. subst h. intros H. injection H as <-. reflexivity.
  - destruct (remove_first i t) as [t'|] eqn:R; cbn; [|discriminate]. intros H. injection H as <-. rewrite (IH t' eq_refl). apply perm_swap.
Qed.
Lemma remove_first_sub i l l' u : remove_first i l = Some l' -> In u l' -> In u l.
Proof. intros H Hu. apply remove_first_perm in H. eapply Permutation_in; [symmetry; exact H|right; exact Hu]. Qed.

(* ---------- view transformers of the primitive writes ---------- *)
Definition set_ns (w : view) ns := mkVw ns (w_cr w) (w_is w).
Definition set_is (w : view) il := mkVw (w_ns w) (w_cr w) il.
Definition wputn (n : nview) (w : view) : view := set_ns w (updZ (w_ns w) (v_id n - 1) n).
Definition wputi (p : Z * ient) (w : view) : view := set_is w (putiv p (w_is w)).

Lemma VW_put_node nd s : VW (s <| nodes := updZ (nodes s) (n_id nd - 1) nd |>) = wputn (nv nd) (VW s).
Proof. unfold VW, wputn, set_ns. cbn. rewrite updZ_map. reflexivity. Qed.
Lemma VW_put_ind x s : VW (s <| inds := put_ind_l x (inds s) |>) = wputi (iv x) (VW s).
Proof. unfold VW, wputi, set_is. cbn. rewrite map_iv_put. reflexivity. Qed.
Lemma wputn_same n w : nthZ (w_ns w) (v_id n - 1) = Some n -> wputn n w = w.
Proof. intros H. unfold wputn, set_ns. rewrite (updZ_same _ _ _ H). destruct w; reflexivity. Qed.
Lemma wputi_same p w : fiv (fst p) (w_is w) = Some (snd p) -> wputi p w = w.
Proof. intros H. unfold wputi, set_is. rewrite (putiv_same _ _ H). destruct w; reflexivity. Qed.
Lemma idxv_wputn n w : idxv w -> idxv (wputn n w).
Proof.
  intros HI k x Hk. cbn in Hk. unfold updZ in Hk. destruct (v_id n - 1 <? 0) eqn:E; [apply (HI _ _ Hk)|]. apply Z.ltb_ge in E.
  destruct (nth_error_upd_cases _ _ _ _ _ Hk) as [[-> ->]|[_ Hk']]; [lia|apply (HI _ _ Hk')].
Qed.

(* ====================================================================================================================== *)
(* Part 2.  Frame logic: PV K m -- m leaves the view alone (K remembers the nodes / records that were read)              *)
(* ====================================================================================================================== *)
Definition PV (K : view -> Prop) {X} (m : M X) : Prop :=
  forall s a s', idxv (VW s) -> K (VW s) -> m s = Ok (a, s') -> VW s' = VW s.
Definition KT : view -> Prop := fun _ => True.
Definition okn (w : view) (nd : node) : Prop := nthZ (w_ns w) (n_id nd - 1) = Some (nv nd).
Definition oki (w : view) (x : ind) : Prop := fiv (i_id x) (w_is w) = Some (i_server x, i_prio x, i_pprio x).

Lemma pv_weak (K K' : view -> Prop) {X} (m : M X) : PV K m -> (forall w, K' w -> K w) -> PV K' m.
Proof. intros H HK s a s' HI Hk E. eapply H; eauto. Qed.
Lemma pv_T (K : view -> Prop) {X} (m : M X) : PV KT m -> PV K m.
Proof. intros H. eapply pv_weak; [exact H|]. intros; exact I. Qed.
Lemma pv_ret K {X} (a : X) : PV K (ret a).
Proof. intros s a0 s' _ _ H. inversion H. reflexivity. Qed.
Lemma pv_fail K {X} e : PV K (@fail X e).
Proof. intros s a s' _ _ H. discriminate. Qed.
Lemma pv_oof K {X} : PV K (@oof X).
Proof. intros s a s' _ _ H. discriminate. Qed.
Lemma pv_bind K {X Y} (m : M X) (f : X -> M Y) : PV K m -> (forall a, PV K (f a)) -> PV K (bind m f).
Proof.
  intros Hm Hf s b s' HI HK H. unfold bind in H. destruct (m s) as [[a s1]| |] eqn:E; try discriminate.
  pose proof (Hm _ _ _ HI HK E) as E1. rewrite <- E1 in HI, HK. rewrite (Hf a _ _ _ HI HK H). exact E1.
Qed.
Lemma pv_gets K {X} (f : sim -> X) : PV K (gets f).
Proof. intros s a s' _ _ H. inversion H. reflexivity. Qed.
Lemma pv_lift K {X} e (o : option X) : PV K (lift e o).
Proof. destruct o; [apply pv_ret|apply pv_fail]. Qed.
Lemma pv_modify K (f : sim -> sim) : (forall s, VW (f s) = VW s) -> PV K (modify f).
Proof. intros Hf s a s' _ _ H. inversion H. apply Hf. Qed.

Lemma get_node_spec j s nd s' : get_node j s = Ok (nd, s') -> s' = s /\ 1 <= j /\ nthZ (nodes s) (j - 1) = Some nd.
Proof.
  unfold get_node. destruct (j <? 1) eqn:Ej; [discriminate|]. apply Z.ltb_ge in Ej.
  destruct (nthZ (nodes s) (j - 1)) eqn:E; intros H; inversion H. subst. auto.
Qed.
Lemma get_node_okn j s nd : idxv (VW s) -> nthZ (nodes s) (j - 1) = Some nd -> n_id nd = j /\ okn (VW s) nd.
Proof.
  intros HI Hn. destruct (nthZ_nat _ _ _ Hn) as (k & Hk & Hnk).
  assert (Hid : n_id nd = j).
  { specialize (HI k (nv nd)). cbn in HI. rewrite nth_error_map, Hnk in HI. specialize (HI eq_refl). cbn in HI. lia. }
  split; [exact Hid|]. unfold okn. cbn. rewrite Hid, nthZ_map, Hn. reflexivity.
Qed.
Lemma get_ind_spec i s x s' : get_ind i s = Ok (x, s') -> s' = s /\ i_id x = i /\ find_ind i (inds s) = Some x.
Proof.
  unfold get_ind. destruct (find_ind i (inds s)) eqn:E; intros H; inversion H. subst.
  split; [reflexivity|]. split; [eapply find_ind_id; eauto|reflexivity].
Qed.
Lemma find_oki i s x : find_ind i (inds s) = Some x -> oki (VW s) x.
Proof. intros H. unfold oki. cbn. rewrite (find_ind_id i _ _ H), fiv_find, H. reflexivity. Qed.

Lemma pv_get_node_bind K {Y} j (f : node -> M Y) :
  (forall nd, PV (fun w => K w /\ okn w nd) (f nd)) -> PV K (bind (get_node j) f).
Proof.
  intros Hf s b s' HI HK H. unfold bind in H. destruct (get_node j s) as [[nd s1]| |] eqn:E; try discriminate.
  apply get_node_spec in E as (-> & Hj & Hn). eapply Hf; [exact HI| |exact H]. split; [exact HK|]. apply (get_node_okn j); assumption.
Qed.
Lemma pv_get_node K j : PV K (get_node j).
Proof. intros s a s' _ _ H. apply get_node_spec in H as (-> & _). reflexivity. Qed.
Lemma pv_get_ind_bind K {Y} i (f : ind -> M Y) :
  (forall x, PV (fun w => K w /\ oki w x) (f x)) -> PV K (bind (get_ind i) f).
Proof.
  intros Hf s b s' HI HK H. unfold bind in H. destruct (get_ind i s) as [[x s1]| |] eqn:E; try discriminate.
  apply get_ind_spec in E as (-> & Hi & Hx). eapply Hf; [exact HI| |exact H]. split; [assumption|]. apply (find_oki i). exact Hx.
Qed.
Lemma pv_get_ind K i : PV K (get_ind i).
Proof. intros s a s' _ _ H. apply get_ind_spec in H as (-> & _). reflexivity. Qed.

Lemma pv_put_node (K : view -> Prop) nd : (forall w, K w -> exists nd0, okn w nd0 /\ nv nd = nv nd0) -> PV K (put_node nd).
Proof.
  intros HK s a s' _ Hk H. unfold put_node, modify in H. inversion H. destruct (HK _ Hk) as (nd0 & Hn & He).
  rewrite VW_put_node. apply wputn_same. rewrite He. unfold okn in Hn. exact Hn.
Qed.
Lemma pv_put_ind (K : view -> Prop) x : (forall w, K w -> exists x0, oki w x0 /\ iv x = iv x0) -> PV K (put_ind x).
Proof.
  intros HK s a s' _ Hk H. unfold put_ind, modify in H. inversion H. destruct (HK _ Hk) as (x0 & Hx & He).
  rewrite VW_put_ind. apply wputi_same. rewrite He. exact Hx.
Qed.
Lemma pv_upd_node K j (g : node -> node) : (forall nd, nv (g nd) = nv nd) -> PV K (upd_node j g).
Proof.
  intros Hg. unfold upd_node. apply pv_get_node_bind. intros nd. apply pv_put_node. intros w [_ Hn]. exists nd. split; [exact Hn|apply Hg].
Qed.
Lemma pv_upd_ind K i (g : ind -> ind) : (forall x, iv (g x) = iv x) -> PV K (upd_ind i g).
Proof.
  intros Hg. unfold upd_ind. apply pv_get_ind_bind. intros x. apply pv_put_ind. intros w [_ Hx]. exists x. split; [exact Hx|apply Hg].
Qed.
Lemma pv_log_rec K r : PV K (log_rec r).
Proof. apply pv_modify. reflexivity. Qed.
Lemma pv_draw_arr K : PV K draw_arr.
Proof. intros s a s' _ _ H. unfold draw_arr in H. destruct (d_arr (dr s)); inversion H. reflexivity. Qed.
Lemma pv_draw_batch K : PV K draw_batch.
Proof. intros s a s' _ _ H. unfold draw_batch in H. destruct (d_batch (dr s)); inversion H. reflexivity. Qed.
Lemma pv_draw_svc K : PV K draw_svc.
Proof. intros s a s' _ _ H. unfold draw_svc in H. destruct (d_svc (dr s)); inversion H. reflexivity. Qed.
Lemma pv_draw_unif K : PV K draw_unif.
Proof. intros s a s' _ _ H. unfold draw_unif in H. destruct (d_unif (dr s)); inversion H. reflexivity. Qed.
Lemma pv_draw_ren K : PV K draw_ren.
Proof. intros s a s' _ _ H. unfold draw_ren in H. destruct (d_ren (dr s)); inversion H. reflexivity. Qed.
Lemma pv_draw_cct K : PV K draw_cct.
Proof. intros s a s' _ _ H. unfold draw_cct in H. destruct (d_cct (dr s)); inversion H. reflexivity. Qed.
Lemma pv_mapM K {X Y} (f : X -> M Y) l : (forall a, PV K (f a)) -> PV K (mapM f l).
Proof.
  intros Hf. induction l as [|a r IH]; cbn [mapM]; [apply pv_ret|].
  apply pv_bind; [apply Hf|]. intros b. apply pv_bind; [exact IH|]. intros bs. apply pv_ret.
Qed.
Lemma pv_forM K {X} (f : X -> M unit) l : (forall a, PV K (f a)) -> PV K (forM_ l f).
Proof. intros Hf. induction l as [|a r IH]; cbn [forM_]; [apply pv_ret|]. apply pv_bind; [apply Hf|]. intros _. exact IH. Qed.

Ltac pv_side :=
  let w := fresh "w" in let HK := fresh "HK" in
  intros w HK; repeat match goal with H : _ /\ _ |- _ => destruct H end;
  first [ match goal with H : okn w ?nd |- _ => exists nd; split; [exact H|unfold nv; cbn; reflexivity] end
        | match goal with H : oki w ?x |- _ => exists x; split; [exact H|unfold iv; cbn; reflexivity] end ].

Ltac pv_prim :=
  first [ apply pv_ret | apply pv_fail | apply pv_oof | apply pv_gets | apply pv_lift | apply pv_log_rec
        | apply pv_draw_arr | apply pv_draw_batch | apply pv_draw_svc | apply pv_draw_unif | apply pv_draw_ren | apply pv_draw_cct
        | (apply pv_upd_node; intros ?; reflexivity) | (apply pv_upd_ind; intros ?; reflexivity)
        | (apply pv_put_node; pv_side) | (apply pv_put_ind; pv_side)
        | apply pv_get_node | apply pv_get_ind
        | (apply pv_modify; intros ?; reflexivity) ].
Ltac pv_struct :=
  match goal with
  | |- PV _ (bind (get_node _) _) => apply pv_get_node_bind; intros ?
  | |- PV _ (bind (get_ind _) _) => apply pv_get_ind_bind; intros ?
  | |- PV _ (bind _ _) => apply pv_bind; [|intros ?]
  | |- PV _ (mapM _ _) => apply pv_mapM; intros ?
  | |- PV _ (forM_ _ _) => apply pv_forM; intros ?
  | |- PV _ (if ?b then _ else _) => destruct b
  | |- PV _ (match ?x with _ => _ end) => destruct x
  end.
Tactic Notation "pv" "using" tactic(t) := repeat first [ pv_struct | pv_prim | (apply pv_T; t) | t ].
Ltac pv0 := repeat first [ pv_struct | pv_prim ].

Lemma put_server_l_sc sv' sv l : find_server (sv_id sv') l = Some sv -> sc sv' = sc sv -> map sc (put_server_l sv' l) = map sc l.
Proof.
  intros Hf Hs. rewrite map_sc_put. apply putsv_same. rewrite Hs at 2. replace (s_id (sc sv')) with (sv_id sv') by reflexivity.
  rewrite fsv_find, Hf. reflexivity.
Qed.

Section Frame2.
  Variable cf : config.
  Notation P0 m := (PV KT m).

  Lemma pv_ncfg_of j : P0 (ncfg_of cf j). Proof. apply pv_lift. Qed.
  Lemma pv_tnow : P0 tnow. Proof. apply pv_gets. Qed.
  Lemma pv_choice_uniform {X} (l : list X) : P0 (choice_uniform l). Proof. unfold choice_uniform. pv0. Qed.
  Lemma pv_choice_weighted den P : P0 (choice_weighted den P). Proof. unfold choice_weighted. pv0. Qed.
  Lemma pv_choose_next_customer j : P0 (choose_next_customer cf j).
  Proof. unfold choose_next_customer. pv using first [apply pv_ncfg_of | apply pv_choice_uniform]. Qed.
  Lemma pv_upd_server j sid f : (forall sv, sc (f sv) = sc sv) -> P0 (upd_server j sid f).
  Proof.
    intros Hf. unfold upd_server. apply pv_get_node_bind. intros nd.
    destruct (find_server sid (n_servers nd)) as [sv|] eqn:E; [|apply pv_ret].
    apply pv_put_node. intros w [_ Hn]. exists nd. split; [exact Hn|]. unfold nv. cbn. f_equal.
    destruct (find_server_id _ _ _ E) as [Hid _].
    eapply put_server_l_sc; [|apply Hf]. pose proof (Hf sv) as Hs. apply (f_equal s_id) in Hs. cbn in Hs. rewrite Hs, Hid. exact E.
  Qed.
  Lemma pv_cct_loop row : forall b best bc, P0 (cct_loop row b best bc).
  Proof. induction row as [|h r IH]; intros b best bc; cbn [cct_loop]; [apply pv_ret|]. pv using (apply IH). Qed.
  Lemma pv_stime_num x : P0 (stime_num x). Proof. unfold stime_num. pv0. Qed.
  Lemma pv_give_service_time_after_preemption i : P0 (give_service_time_after_preemption i).
  Proof. unfold give_service_time_after_preemption. pv0. Qed.
  Lemma pv_give_individual_a_service_time i : P0 (give_individual_a_service_time i).
  Proof. unfold give_individual_a_service_time. pv using (apply pv_give_service_time_after_preemption). Qed.
  Lemma pv_set_next_end j sid d : P0 (set_next_end j sid d). Proof. unfold set_next_end. apply pv_upd_server. reflexivity. Qed.
  Lemma pv_bump_rec i : P0 (bump_rec i). Proof. unfold bump_rec. pv0. Qed.
  Lemma pv_write_individual_record j i : P0 (write_individual_record cf j i).
  Proof. unfold write_individual_record. pv using first [apply pv_ncfg_of | apply pv_bump_rec]. Qed.
  Lemma pv_write_interruption_record j i d : P0 (write_interruption_record cf j i d).
  Proof. unfold write_interruption_record. pv using first [apply pv_ncfg_of | apply pv_bump_rec]. Qed.
  Lemma pv_write_reneging_record j i : P0 (write_reneging_record j i).
  Proof. unfold write_reneging_record. pv using (apply pv_bump_rec). Qed.
  Lemma pv_write_br_record j i ty : P0 (write_br_record j i ty).
  Proof. unfold write_br_record. pv using (apply pv_bump_rec). Qed.
  Lemma pv_reset_individual_attributes i : P0 (reset_individual_attributes i).
  Proof. unfold reset_individual_attributes. pv0. Qed.
  Lemma pv_valid_dest d : P0 (valid_dest d). Proof. unfold valid_dest. pv0. Qed.
  Lemma pv_jsq_loop lb ds : forall best acc, P0 (jsq_loop lb ds best acc).
  Proof. induction ds as [|d r IH]; intros best acc; cbn [jsq_loop]; [apply pv_ret|]. pv using (apply IH). Qed.
  Lemma pv_jsq_next lb ds order : P0 (jsq_next lb ds order).
  Proof. unfold jsq_next. pv using first [apply pv_jsq_loop | apply pv_choice_uniform]. Qed.
  Lemma pv_get_cyc c j : P0 (get_cyc c j). Proof. unfold get_cyc. pv0. Qed.
  Lemma pv_bump_cyc c j : P0 (bump_cyc c j).
  Proof.
    unfold bump_cyc. apply pv_modify. intros s. destruct (nthZ (cyc s) c) as [row|]; [|reflexivity].
    destruct (nthZ row (j - 1)); reflexivity.
  Qed.
  Lemma pv_node_router_next r c j : P0 (node_router_next r c j).
  Proof. unfold node_router_next. pv using first [apply pv_choice_weighted | apply pv_jsq_next | apply pv_get_cyc | apply pv_bump_cyc]. Qed.
  Lemma pv_next_node_for mode j i : P0 (next_node_for cf mode j i).
  Proof.
    unfold next_node_for.
    pv using first [apply pv_node_router_next | apply pv_valid_dest | apply pv_choice_uniform | apply pv_jsq_next].
  Qed.
  Lemma pv_get_reneging_date j i : P0 (get_reneging_date cf j i).
  Proof. unfold get_reneging_date. pv using (apply pv_ncfg_of). Qed.
  Lemma pv_block_individual j i d : P0 (block_individual j i d). Proof. unfold block_individual. pv0. Qed.
  Lemma pv_preempt_victim j i : P0 (preempt_victim cf j i).
  Proof. unfold preempt_victim. pv using (apply pv_ncfg_of). Qed.
  Lemma pv_decide_between l : P0 (decide_between l).
  Proof. unfold decide_between. destruct l as [|a [|b r]]; [apply pv_fail|apply pv_ret|apply pv_choice_uniform]. Qed.
  Lemma pv_has_space d : P0 (has_space cf d). Proof. unfold has_space. pv using (apply pv_ncfg_of). Qed.
  Lemma pv_keyed l : P0 (keyed l). Proof. unfold keyed. pv0. Qed.
  Lemma pv_find_next_event_date : P0 find_next_event_date.
  Proof. apply pv_modify. intros s. destruct (find_min_dates 1 (a_dates (arr s)) (None, 0, 0)) as [[d j] c]. reflexivity. Qed.
  Lemma pv_sys_population : P0 sys_population. Proof. unfold sys_population. pv0. Qed.
  Lemma pv_route_of i c : P0 (route_of cf i c). Proof. unfold route_of. pv0. Qed.
  Lemma pv_find_next_active_node : P0 find_next_active_node.
  Proof. unfold find_next_active_node. pv using (apply pv_choice_uniform). Qed.
End Frame2.

Ltac pv_lem :=
  first [ apply pv_ncfg_of | apply pv_tnow | apply pv_choice_uniform | apply pv_choice_weighted | apply pv_choose_next_customer
        | apply pv_cct_loop | apply pv_stime_num | apply pv_give_service_time_after_preemption
        | apply pv_give_individual_a_service_time | apply pv_set_next_end
        | apply pv_bump_rec | apply pv_write_individual_record | apply pv_write_interruption_record
        | apply pv_write_reneging_record | apply pv_write_br_record | apply pv_reset_individual_attributes | apply pv_valid_dest
        | apply pv_jsq_loop | apply pv_jsq_next | apply pv_get_cyc | apply pv_bump_cyc | apply pv_node_router_next
        | apply pv_next_node_for | apply pv_get_reneging_date | apply pv_block_individual
        | apply pv_preempt_victim | apply pv_decide_between | apply pv_has_space | apply pv_keyed
        | apply pv_find_next_event_date
        | apply pv_sys_population | apply pv_route_of | apply pv_find_next_active_node ].
Ltac pva := pv using pv_lem.


(* ====================================================================================================================== *)
(* Part 3.  The invariant on views                                                                                       *)
(* ====================================================================================================================== *)
Definition mem (n : nview) : list Z := concat (v_qs n).
Definition allq (w : view) : list Z := concat (map mem (w_ns w)).
Definition vmof (vm : option (Z * Z)) (j : Z) : list Z := match vm with Some (j', i) => if j' =? j then [i] else [] | None => [] end.
Definition holeat (h : option (Z * Z)) (j : Z) : option Z := match h with Some (j', sid) => if j' =? j then Some sid else None | None => None end.
Definition srvof (r : option ient) : option Z := match r with Some (sv, _, _) => sv | None => None end.
Definition waits (f : Z -> option ient) (u p : Z) : Prop := exists pp, f u = Some (None, p, pp).
Definition hasprio (f : Z -> option ient) (v p : Z) : Prop := exists sv pp, f v = Some (sv, p, pp).
Definition fw (w : view) : Z -> option ient := fun i => fiv i (w_is w).
Definition wnode (w : view) (j : Z) : option nview := if j <? 1 then None else nthZ (w_ns w) (j - 1).

Lemma wnode_nth w j n : wnode w j = Some n -> exists k, j - 1 = Z.of_nat k /\ nth_error (w_ns w) k = Some n.
Proof. unfold wnode. destruct (j <? 1); [discriminate|]. intros H. apply nthZ_nat in H as (k & Hk & H). eauto. Qed.
Lemma wnode_id w j n : idxv w -> wnode w j = Some n -> v_id n = j.
Proof. intros HI H. apply wnode_nth in H as (k & Hk & H). rewrite (HI _ _ H). lia. Qed.
Lemma nth_wnode w k n : idxv w -> nth_error (w_ns w) k = Some n -> wnode w (v_id n) = Some n.
Proof.
  intros HI H. unfold wnode. rewrite (HI _ _ H). destruct (Z.of_nat k + 1 <? 1) eqn:E; [apply Z.ltb_lt in E; lia|].
  replace (Z.of_nat k + 1 - 1) with (Z.of_nat k) by lia. rewrite nthZ_of_nat. exact H.
Qed.
Lemma idx_k w k n : idxv w -> nth_error (w_ns w) k = Some n -> v_id n - 1 = Z.of_nat k.
Proof. intros HI Hk. rewrite (HI _ _ Hk). lia. Qed.
Lemma wputn_ns n' w k : v_id n' - 1 = Z.of_nat k -> w_ns (wputn n' w) = upd (w_ns w) k n'.
Proof. intros E. unfold wputn. cbn. rewrite E, updZ_nat. reflexivity. Qed.
Lemma wnode_wputn w j n n' : idxv w -> wnode w j = Some n -> v_id n' = v_id n -> wnode (wputn n' w) j = Some n'.
Proof.
  intros HI Hn Eid. pose proof (wnode_id _ _ _ HI Hn) as Hj. destruct (wnode_nth _ _ _ Hn) as (k & Hjk & Hk).
  unfold wnode in *. destruct (j <? 1); [discriminate|]. unfold wputn. cbn [w_ns set_ns]. rewrite Eid, Hj, Hjk, updZ_nat, nthZ_of_nat.
  eapply nth_error_upd_eq; eauto.
Qed.
Lemma wnode_wputn_other w j n' : v_id n' <> j -> wnode (wputn n' w) j = wnode w j.
Proof.
  intros Hne. unfold wnode. destruct (j <? 1) eqn:Ej; [reflexivity|]. apply Z.ltb_ge in Ej. unfold wputn, nthZ, updZ. cbn [w_ns set_ns].
  destruct (j - 1 <? 0) eqn:E1; [reflexivity|]. destruct (v_id n' - 1 <? 0) eqn:E2; [reflexivity|].
  apply Z.ltb_ge in E1, E2. apply nth_error_upd_neq. lia.
Qed.
Lemma wnode_wputi w p j : wnode (wputi p w) j = wnode w j.
Proof. reflexivity. Qed.
Lemma fw_wputn w n i : fw (wputn n w) i = fw w i.
Proof. reflexivity. Qed.
Lemma fw_wputi w c r i : fw (wputi (c, r) w) i = if c =? i then Some r else fw w i.
Proof. unfold fw, wputi. cbn [w_is set_is]. rewrite fiv_putiv. reflexivity. Qed.

Lemma allq_split w k n : nth_error (w_ns w) k = Some n ->
  exists A B, allq w = A ++ mem n ++ B /\
    (forall n', allq (set_ns w (upd (w_ns w) k n')) = A ++ mem n' ++ B) /\
    (forall k1 n1 i, k1 <> k -> nth_error (w_ns w) k1 = Some n1 -> In i (mem n1) -> In i (A ++ B)).
Proof.
  intros Hk. destruct (upd_split _ _ _ n Hk) as (pre & post & E & _ & L).
  exists (concat (map mem pre)), (concat (map mem post)). unfold allq. split; [|split].
  - rewrite E, map_app, concat_app. reflexivity.
  - intros n'. destruct (upd_split _ _ _ n' Hk) as (pre' & post' & E' & U' & L'). cbn [w_ns set_ns].
    assert (pre' = pre /\ post' = post) as [-> ->].
    { rewrite E in E'. clear -E' L L'. revert pre' k L L' E'. induction pre as [|a p IH]; intros [|b p'] k L L' E'; cbn in *; subst; try discriminate.
      - injection E' as ->. auto.
      - injection L' as L'. injection E' as -> E'. destruct (IH p' (length p) eq_refl L' E') as [-> ->]. auto. }
    rewrite U', map_app, concat_app. reflexivity.
  - intros k1 n1 i Hne Hk1 Hi. rewrite E in Hk1. apply in_or_app.
    destruct (Nat.lt_ge_cases k1 (length pre)) as [Hlt|Hge].
    + left. rewrite nth_error_app1 in Hk1 by exact Hlt. apply in_concat. exists (mem n1). split; [|exact Hi].
      apply in_map. eapply nth_error_In; eauto.
    + right. rewrite nth_error_app2 in Hk1 by exact Hge. destruct (k1 - length pre)%nat as [|m] eqn:Em; [lia|]. cbn in Hk1.
      apply in_concat. exists (mem n1). split; [|exact Hi]. apply in_map. eapply nth_error_In; eauto.
Qed.
Lemma in_mem_allq w k n i : nth_error (w_ns w) k = Some n -> In i (mem n) -> In i (allq w).
Proof.
  intros Hk Hi. unfold allq. apply in_concat. exists (mem n). split; [|exact Hi]. apply in_map. eapply nth_error_In; eauto.
Qed.
Lemma NoDup_app_l {A} (a b : list A) : NoDup (a ++ b) -> NoDup a.
Proof. induction a as [|x a IH]; cbn; [constructor|]. intros H. inversion H as [|? ? Hx Hr]; subst. constructor; [|auto]. intros F. apply Hx. apply in_or_app. auto. Qed.
Lemma NoDup_app_r {A} (a b : list A) : NoDup (a ++ b) -> NoDup b.
Proof. induction a as [|x a IH]; cbn; [auto|]. intros H. inversion H; auto. Qed.
Lemma perm_mid {A} (X Y P Q : list A) : Permutation ((P ++ X ++ Q) ++ Y) ((P ++ Q) ++ (X ++ Y)).
Proof.
  rewrite <- !app_assoc. apply Permutation_app_head. rewrite !app_assoc. apply Permutation_app_tail. apply Permutation_app_comm.
Qed.

Section Inv.
  Variable cf : config.

  (* the nodes the claim is about: priority pre-emption, a fixed number of servers *)
  Definition tgt (nc : ncfg) : bool := negb (nc_preempt nc =? 0) && match nc_srv nc with SFixed => true | _ => false end.

  Record NodeJ (vmi ex : list Z) (hole : option Z) (ce : list Z) (n : nview) (f : Z -> option ient) : Prop := mkNJ {
    nj_nd  : NoDup (sids (v_srv n));
    nj_z   : v_srv n = [] \/ 0 < numo (v_c n);
    nj_lnk : forall t v, In t (v_srv n) -> s_cust t = Some v -> In v (mem n ++ vmi) /\ srvof (f v) = Some (s_id t);
    nj_cls : forall k q u r, nth_error (v_qs n) k = Some q -> In u q -> ~ In u ex -> f u = Some r ->
               snd (fst r) = Z.of_nat k /\ snd r = Z.of_nat k;
    nj_inv : forall t v u pv pu, In t (v_srv n) -> s_cust t = Some v -> ~ In v ex -> In u (mem n) -> ~ In u ex ->
               hasprio f v pv -> waits f u pu -> pv <= pu;
    nj_idl : forall t u pu, In t (v_srv n) -> s_busy t = false -> hole <> Some (s_id t) -> In u (mem n) -> ~ In u ex -> ~ waits f u pu;
    nj_cc  : cf_dyn cf = true -> forall i, v_cci n = Some i -> In i (mem n) -> ~ In i ce -> srvof (f i) = None }.

  Definition J (fl : list Z) (vm : option (Z * Z)) (ex : list Z) (hole : option (Z * Z)) (ce : list Z) (w : view) : Prop :=
    NoDup (allq w ++ fl) /\ (forall i, In i (allq w ++ fl) -> i <= w_cr w) /\
    (forall n, In n (w_ns w) -> v_int n = []) /\
    (forall k nc n, nth_error (cf_nodes cf) k = Some nc -> nth_error (w_ns w) k = Some n -> tgt nc = true -> v_c n <> None ->
        NodeJ (vmof vm (v_id n)) ex (holeat hole (v_id n)) ce n (fw w)).

  Lemma NodeJ_mono vmi ex ex' hole ce ce' n f f' :
    NodeJ vmi ex hole ce n f ->
    (forall i, In i (mem n ++ vmi) -> f' i = f i \/ (In i ex' /\ srvof (f' i) = srvof (f i))) ->
    (forall u, In u (mem n ++ vmi) -> In u ex -> In u ex') ->
    (forall u, In u (mem n) -> In u ce -> In u ce') ->
    NodeJ vmi ex' hole ce' n f'.
  Proof.
    intros [H1 H2 H3 H4 H5 H6 H7] Hf Hex Hce.
    assert (Hm : forall u, In u (mem n) -> In u (mem n ++ vmi)) by (intros; apply in_or_app; auto).
    assert (Hq : forall k q u, nth_error (v_qs n) k = Some q -> In u q -> In u (mem n)).
    { intros k q u Hk Hu. unfold mem. apply in_concat. exists q. split; [eapply nth_error_In; eauto|exact Hu]. }
    assert (Hsv : forall i, In i (mem n ++ vmi) -> srvof (f' i) = srvof (f i)).
    { intros i Hi. destruct (Hf i Hi) as [->|[_ E]]; [reflexivity|exact E]. }
    assert (Hne : forall i, In i (mem n ++ vmi) -> ~ In i ex' -> f' i = f i).
    { intros i Hi Hx. destruct (Hf i Hi) as [E|[F _]]; [exact E|contradiction]. }
    constructor; auto.
    - intros t v Ht Hc. destruct (H3 t v Ht Hc) as [Ha Hb]. split; [exact Ha|]. rewrite (Hsv v Ha). exact Hb.
    - intros k q u r Hk Hu Hx Hr. pose proof (Hq _ _ _ Hk Hu) as Hum. rewrite (Hne u (Hm _ Hum) Hx) in Hr.
      apply (H4 k q u r Hk Hu); auto.
    - intros t v u pv pu Ht Hc Hvx Hu Hux (sv & pp & Hpv) (pp' & Hpu). destruct (H3 t v Ht Hc) as [Ha _].
      rewrite (Hne v Ha Hvx) in Hpv. rewrite (Hne u (Hm _ Hu) Hux) in Hpu.
      apply (H5 t v u pv pu Ht Hc); auto; [exists sv, pp; exact Hpv|exists pp'; exact Hpu].
    - intros t u pu Ht Hb Hh Hu Hux (pp & Hpu). rewrite (Hne u (Hm _ Hu) Hux) in Hpu.
      apply (H6 t u pu Ht Hb Hh Hu); auto. exists pp. exact Hpu.
    - intros Hd i Hi Him Hic. rewrite (Hsv i (Hm _ Him)). apply (H7 Hd i Hi Him). auto.
  Qed.

  (* the general step: the node in place k is replaced (same identity), records change only for customers of that node or in flight *)
  Lemma J_step fl fl' vm vm' ex ex' hole hole' ce ce' w w' k n n' :
    idxv w -> J fl vm ex hole ce w -> nth_error (w_ns w) k = Some n ->
    w_ns w' = upd (w_ns w) k n' -> w_cr w <= w_cr w' -> v_id n' = v_id n -> v_int n' = [] ->
    Permutation (mem n' ++ fl') (mem n ++ fl) ->
    (forall i, ~ In i (mem n ++ fl) -> fw w' i = fw w i) ->
    (forall j1, j1 <> v_id n -> vmof vm j1 = [] /\ vmof vm' j1 = [] /\ holeat hole' j1 = holeat hole j1) ->
    (forall u, In u ex -> In u ex' \/ In u (mem n ++ fl)) ->
    (forall u, In u ce -> In u ce' \/ In u (mem n ++ fl)) ->
    (forall nc, nth_error (cf_nodes cf) k = Some nc -> tgt nc = true -> v_c n' <> None ->
        (v_c n <> None -> NodeJ (vmof vm (v_id n)) ex (holeat hole (v_id n)) ce n (fw w)) ->
        NodeJ (vmof vm' (v_id n)) ex' (holeat hole' (v_id n)) ce' n' (fw w')) ->
    J fl' vm' ex' hole' ce' w'.
  Proof.
    intros HI (HN & HF & HInt & HNd) Hk Ens Hcr Eid Eint HP Hf Hoth Hex Hce Hnode.
    destruct (allq_split w k n Hk) as (A & B & EA & EA' & Hdis).
    assert (EA2 : allq w' = A ++ mem n' ++ B).
    { specialize (EA' n'). unfold allq in *. cbn [w_ns set_ns] in EA'. rewrite Ens. exact EA'. }
    assert (HPall : Permutation (allq w' ++ fl') (allq w ++ fl)).
    { rewrite EA, EA2. rewrite !perm_mid. apply Permutation_app_head. exact HP. }
    assert (Hdisj : forall k1 n1 i, k1 <> k -> nth_error (w_ns w) k1 = Some n1 -> In i (mem n1) -> ~ In i (mem n ++ fl)).
    { intros k1 n1 i Hne Hk1 Hi Hin. pose proof (Hdis k1 n1 i Hne Hk1 Hi) as HAB.
      rewrite EA in HN. assert (HN2 : NoDup ((A ++ B) ++ (mem n ++ fl))) by (eapply Permutation_NoDup; [apply perm_mid|exact HN]).
      clear -HN2 HAB Hin. induction (A ++ B) as [|a l IH]; [destruct HAB|]. cbn in HN2. inversion HN2 as [|? ? Ha Hr]; subst.
      destruct HAB as [->|HAB]; [apply Ha; apply in_or_app; right; exact Hin|auto]. }
    split; [|split; [|split]].
    - eapply Permutation_NoDup; [symmetry; exact HPall|exact HN].
    - intros i Hi. specialize (HF i (Permutation_in _ HPall Hi)). lia.
    - intros n1 Hn1. rewrite Ens in Hn1. apply In_nth_error in Hn1 as (k1 & Hk1).
      destruct (nth_error_upd_cases _ _ _ _ _ Hk1) as [[-> ->]|[Hne Hk1']]; [exact Eint|]. apply HInt. eapply nth_error_In; eauto.
    - intros k1 nc n1 Hc Hk1 Ht Hcn. rewrite Ens in Hk1. destruct (nth_error_upd_cases _ _ _ _ _ Hk1) as [[-> ->]|[Hne Hk1']].
      + rewrite Eid. apply (Hnode nc Hc Ht Hcn). intros Hcn0. apply (HNd k nc n Hc Hk Ht Hcn0).
      + assert (Hid : v_id n1 <> v_id n) by (rewrite (HI _ _ Hk1'), (HI _ _ Hk); lia).
        destruct (Hoth _ Hid) as (V1 & V2 & V3). rewrite V2, V3. pose proof (HNd k1 nc n1 Hc Hk1' Ht Hcn) as HJ. rewrite V1 in HJ.
        eapply NodeJ_mono; [exact HJ| | |].
        * intros i Hi. rewrite app_nil_r in Hi. left. apply Hf. eapply Hdisj; eauto.
        * intros u Hu Hux. rewrite app_nil_r in Hu. destruct (Hex u Hux) as [H|H]; [exact H|]. exfalso. eapply Hdisj; eauto.
        * intros u Hu Hux. destruct (Hce u Hux) as [H|H]; [exact H|]. exfalso. eapply Hdisj; eauto.
  Qed.

  (* ---------- node views with one component replaced ---------- *)
  Definition with_qs (n : nview) (qs : list (list Z)) : nview := mkNv (v_id n) qs (v_srv n) (v_c n) (v_cci n) (v_int n) (v_nty n) (v_nxi n).
  Definition with_srv (n : nview) (l : list sview) : nview := mkNv (v_id n) (v_qs n) l (v_c n) (v_cci n) (v_int n) (v_nty n) (v_nxi n).
  Definition with_cci (n : nview) (r : option Z) : nview := mkNv (v_id n) (v_qs n) (v_srv n) (v_c n) r (v_int n) (v_nty n) (v_nxi n).

  Definition vmat (vm : option (Z * Z)) (j : Z) : Prop := forall j1, j1 <> j -> vmof vm j1 = [].
  Definition hlat (h h' : option (Z * Z)) (j : Z) : Prop := forall j1, j1 <> j -> holeat h' j1 = holeat h j1.
  Lemma vmat_none j : vmat None j. Proof. intros j1 _. reflexivity. Qed.
  Lemma vmat_some j i : vmat (Some (j, i)) j.
  Proof. intros j1 H. cbn. destruct (j =? j1) eqn:E; [apply Z.eqb_eq in E; congruence|reflexivity]. Qed.
  Lemma hlat_refl h j : hlat h h j. Proof. intros j1 _. reflexivity. Qed.
  Lemma hlat_set j sid : hlat None (Some (j, sid)) j.
  Proof. intros j1 H. cbn. destruct (j =? j1) eqn:E; [apply Z.eqb_eq in E; congruence|reflexivity]. Qed.
  Lemma hlat_unset j sid : hlat (Some (j, sid)) None j.
  Proof. intros j1 H. cbn. destruct (j =? j1) eqn:E; [apply Z.eqb_eq in E; congruence|reflexivity]. Qed.
  Lemma vmof_same j i : vmof (Some (j, i)) j = [i]. Proof. cbn. rewrite Z.eqb_refl. reflexivity. Qed.
  Lemma holeat_same j sid : holeat (Some (j, sid)) j = Some sid. Proof. cbn. rewrite Z.eqb_refl. reflexivity. Qed.

  Lemma J_nodup fl vm ex hole ce w : J fl vm ex hole ce w -> NoDup (allq w ++ fl). Proof. intros H; apply H. Qed.
  Lemma J_fl_notin fl vm ex hole ce w i : J fl vm ex hole ce w -> In i fl -> ~ In i (allq w).
  Proof.
    intros (HN & _) Hi Hq. clear -HN Hi Hq. induction (allq w) as [|a l IH]; [destruct Hq|]. cbn in HN. inversion HN as [|? ? Ha Hr]; subst.
    destruct Hq as [->|Hq]; [apply Ha; apply in_or_app; right; exact Hi|auto].
  Qed.
  Lemma J_node fl vm ex hole ce w j n nc : idxv w -> J fl vm ex hole ce w -> wnode w j = Some n -> nthZ (cf_nodes cf) (j - 1) = Some nc ->
    tgt nc = true -> v_c n <> None -> NodeJ (vmof vm j) ex (holeat hole j) ce n (fw w).
  Proof.
    intros HI (_ & _ & _ & HNd) Hn Hc Ht Hcn. pose proof (wnode_id _ _ _ HI Hn) as Hid. destruct (wnode_nth _ _ _ Hn) as (k & Hjk & Hk).
    rewrite Hjk, nthZ_of_nat in Hc. rewrite <- Hid. eapply HNd; eauto.
  Qed.
  Lemma J_int fl vm ex hole ce w j n : J fl vm ex hole ce w -> wnode w j = Some n -> v_int n = [].
  Proof. intros (_ & _ & HInt & _) Hn. destruct (wnode_nth _ _ _ Hn) as (k & _ & Hk). apply HInt. eapply nth_error_In; eauto. Qed.
  Lemma J_mem_notfl fl vm ex hole ce w j n i : J fl vm ex hole ce w -> wnode w j = Some n -> In i (mem n) -> ~ In i fl.
  Proof.
    intros HJ Hn Hi Hf. destruct (wnode_nth _ _ _ Hn) as (k & _ & Hk). eapply J_fl_notin; eauto. eapply in_mem_allq; eauto.
  Qed.

  (* J_step for w' = wputn n' w and for w' = wputi (c, r) (wputn n' w) *)
  Lemma J_step_n fl fl' vm vm' ex ex' hole hole' ce ce' w j n n' :
    idxv w -> J fl vm ex hole ce w -> wnode w j = Some n -> v_id n' = v_id n -> v_int n' = [] ->
    Permutation (mem n' ++ fl') (mem n ++ fl) -> vmat vm j -> vmat vm' j -> hlat hole hole' j ->
    (forall u, In u ex -> In u ex' \/ In u (mem n ++ fl)) ->
    (forall u, In u ce -> In u ce' \/ In u (mem n ++ fl)) ->
    (forall nc, nthZ (cf_nodes cf) (j - 1) = Some nc -> tgt nc = true -> v_c n' <> None ->
        (v_c n <> None -> NodeJ (vmof vm j) ex (holeat hole j) ce n (fw w)) ->
        NodeJ (vmof vm' j) ex' (holeat hole' j) ce' n' (fw w)) ->
    J fl' vm' ex' hole' ce' (wputn n' w).
  Proof.
    intros HI HJ Hn Eid Eint HP Hv Hv' Hh Hex Hce Hnode. pose proof (wnode_id _ _ _ HI Hn) as Hid. destruct (wnode_nth _ _ _ Hn) as (k & Hjk & Hk).
    eapply J_step with (k := k) (n := n) (n' := n'); try eassumption.
    - apply wputn_ns. rewrite Eid. eapply idx_k; eauto.
    - cbn. lia.
    - intros i _. reflexivity.
    - intros j1 Hj1. rewrite Hid in Hj1. auto.
    - intros nc Hc Ht Hcn HN. rewrite Hid in *. rewrite <- nthZ_of_nat, <- Hjk in Hc. exact (Hnode nc Hc Ht Hcn HN).
  Qed.
  Lemma J_step_ni fl fl' vm vm' ex ex' hole hole' ce ce' w j n n' c r :
    idxv w -> J fl vm ex hole ce w -> wnode w j = Some n -> v_id n' = v_id n -> v_int n' = [] ->
    Permutation (mem n' ++ fl') (mem n ++ fl) -> vmat vm j -> vmat vm' j -> hlat hole hole' j ->
    (forall u, In u ex -> In u ex' \/ In u (mem n ++ fl)) ->
    (forall u, In u ce -> In u ce' \/ In u (mem n ++ fl)) ->
    In c (mem n ++ fl) ->
    (forall nc, nthZ (cf_nodes cf) (j - 1) = Some nc -> tgt nc = true -> v_c n' <> None ->
        (v_c n <> None -> NodeJ (vmof vm j) ex (holeat hole j) ce n (fw w)) ->
        NodeJ (vmof vm' j) ex' (holeat hole' j) ce' n' (fun i => if c =? i then Some r else fw w i)) ->
    J fl' vm' ex' hole' ce' (wputi (c, r) (wputn n' w)).
  Proof.
    intros HI HJ Hn Eid Eint HP Hv Hv' Hh Hex Hce Hc Hnode. pose proof (wnode_id _ _ _ HI Hn) as Hid. destruct (wnode_nth _ _ _ Hn) as (k & Hjk & Hk).
    eapply J_step with (k := k) (n := n) (n' := n'); try eassumption.
    - cbn [wputi set_is w_ns]. apply wputn_ns. rewrite Eid. eapply idx_k; eauto.
    - cbn. lia.
    - intros i Hi. rewrite fw_wputi, fw_wputn. destruct (c =? i) eqn:E; [|reflexivity]. apply Z.eqb_eq in E. subst i. contradiction.
    - intros j1 Hj1. rewrite Hid in Hj1. auto.
    - intros nc Hcf Ht Hcn HN. rewrite Hid in *. rewrite <- nthZ_of_nat, <- Hjk in Hcf.
      eapply NodeJ_mono; [exact (Hnode nc Hcf Ht Hcn HN)| | |]; auto.
      intros i _. left. rewrite fw_wputi, fw_wputn. reflexivity.
  Qed.

  (* ---------- queues ---------- *)
  Lemma concat_upd (qs : list (list Z)) k q : nth_error qs k = Some q ->
    exists P Q, concat qs = P ++ q ++ Q /\ forall q', concat (upd qs k q') = P ++ q' ++ Q.
  Proof.
    intros Hk. destruct (upd_split _ _ _ q Hk) as (pre & post & E & _ & L). exists (concat pre), (concat post). split.
    - rewrite E, concat_app. reflexivity.
    - intros q'. destruct (upd_split _ _ _ q' Hk) as (pre' & post' & E' & U' & L').
      assert (pre' = pre /\ post' = post) as [-> ->].
      { rewrite E in E'. clear -E' L L'. revert pre' k L L' E'. induction pre as [|a p IH]; intros [|b p'] k L L' E'; cbn in *; subst; try discriminate.
        - injection E' as ->. auto.
        - injection L' as L'. injection E' as -> E'. destruct (IH p' (length p) eq_refl L' E') as [-> ->]. auto. }
      rewrite U', concat_app. reflexivity.
  Qed.
  Lemma in_queue_mem n k q u : nth_error (v_qs n) k = Some q -> In u q -> In u (mem n).
  Proof. intros Hk Hu. unfold mem. apply in_concat. exists q. split; [eapply nth_error_In; eauto|exact Hu]. Qed.
  Lemma mem_queue n u : In u (mem n) -> exists k q, nth_error (v_qs n) k = Some q /\ In u q.
  Proof. unfold mem. intros H. apply in_concat in H as (q & Hq & Hu). apply In_nth_error in Hq as (k & Hk). eauto. Qed.

  Lemma NJ_enq vmi ex hole ce n f kq q i : NodeJ vmi ex hole ce n f -> nth_error (v_qs n) kq = Some q ->
    NodeJ vmi (i :: ex) hole (i :: ce) (with_qs n (upd (v_qs n) kq (q ++ [i]))) f.
  Proof.
    intros [H1 H2 H3 H4 H5 H6 H7] Hq. destruct (concat_upd _ _ _ Hq) as (P & Q & EP & EU).
    assert (M1 : forall u, In u (mem n) -> In u (mem (with_qs n (upd (v_qs n) kq (q ++ [i]))))).
    { intros u. unfold mem. cbn [with_qs v_qs]. rewrite EP, EU, !in_app_iff. tauto. }
    assert (M2 : forall u, In u (mem (with_qs n (upd (v_qs n) kq (q ++ [i])))) -> u <> i -> In u (mem n)).
    { intros u. unfold mem. cbn [with_qs v_qs]. rewrite EP, EU, !in_app_iff. cbn. intuition congruence. }
    constructor; cbn [with_qs v_srv v_c v_qs v_cci]; [exact H1|exact H2| | | | |].
    - intros t v Ht Hc. destruct (H3 t v Ht Hc) as [Ha Hb]. split; [|exact Hb]. apply in_app_or in Ha as [Ha|Ha]; apply in_or_app; auto.
    - intros k q1 u r Hk Hu Hx Hr. assert (u <> i) by (intros ->; apply Hx; left; reflexivity).
      destruct (nth_error_upd_cases _ _ _ _ _ Hk) as [[-> ->]|[Hne Hk']].
      + apply in_app_or in Hu as [Hu|[Hu|[]]]; [|congruence]. apply (H4 kq q u r Hq Hu); auto. intros F. apply Hx. right. exact F.
      + apply (H4 k q1 u r Hk' Hu); auto. intros F. apply Hx. right. exact F.
    - intros t v u pv pu Ht Hc Hvx Hu Hux Hpv Hpu. assert (u <> i) by (intros ->; apply Hux; left; reflexivity).
      apply (H5 t v u pv pu Ht Hc); auto; intros F; [apply Hvx|apply Hux]; right; exact F.
    - intros t u pu Ht Hb Hh Hu Hux. assert (u <> i) by (intros ->; apply Hux; left; reflexivity).
      apply (H6 t u pu Ht Hb Hh); auto. intros F. apply Hux. right. exact F.
    - intros Hd c Hc Hcm Hce. assert (c <> i) by (intros ->; apply Hce; left; reflexivity).
      apply (H7 Hd c Hc); auto. intros F. apply Hce. right. exact F.
  Qed.

  Lemma J_enq fl ex ce w j n kq q i :
    idxv w -> J (i :: fl) None ex None ce w -> wnode w j = Some n -> nth_error (v_qs n) kq = Some q ->
    J fl None (i :: ex) None (i :: ce) (wputn (with_qs n (upd (v_qs n) kq (q ++ [i]))) w).
  Proof.
    intros HI HJ Hn Hq. destruct (concat_upd _ _ _ Hq) as (P & Q & EP & EU).
    eapply J_step_n with (n := n); try eassumption; try reflexivity.
    - cbn [with_qs with_srv with_cci v_int]. eapply J_int; eauto.
    - unfold mem. cbn [with_qs v_qs]. rewrite EP, EU. rewrite <- !app_assoc. do 2 apply Permutation_app_head. cbn. apply Permutation_middle.
    - apply vmat_none.
    - apply vmat_none.
    - apply hlat_refl.
    - intros u Hu. left. right. exact Hu.
    - intros u Hu. left. right. exact Hu.
    - intros nc Hc Ht Hcn HN. apply NJ_enq; [apply HN; exact Hcn|exact Hq].
  Qed.

  Lemma NJ_deq ex hole ce n f kq q q' i : NodeJ [] ex hole ce n f -> nth_error (v_qs n) kq = Some q -> remove_first i q = Some q' ->
    NodeJ [i] ex hole ce (with_qs n (upd (v_qs n) kq q')) f.
  Proof.
    intros [H1 H2 H3 H4 H5 H6 H7] Hq Hr. destruct (concat_upd _ _ _ Hq) as (P & Q & EP & EU).
    pose proof (remove_first_perm _ _ _ Hr) as HP.
    assert (M1 : forall u, In u (mem n) -> u = i \/ In u (mem (with_qs n (upd (v_qs n) kq q')))).
    { intros u. unfold mem. cbn [with_qs v_qs]. rewrite EP, EU, !in_app_iff. intros [H|[H|H]]; auto.
      apply (Permutation_in _ HP) in H. destruct H as [->|H]; auto. }
    assert (M2 : forall u, In u (mem (with_qs n (upd (v_qs n) kq q'))) -> In u (mem n)).
    { intros u. unfold mem. cbn [with_qs v_qs]. rewrite EP, EU, !in_app_iff. intros [H|[H|H]]; auto.
      right. left. eapply remove_first_sub; eauto. }
    constructor; cbn [with_qs v_srv v_c v_qs v_cci]; [exact H1|exact H2| | | | |].
    - intros t v Ht Hc. destruct (H3 t v Ht Hc) as [Ha Hb]. split; [|exact Hb]. rewrite app_nil_r in Ha.
      apply in_or_app. destruct (M1 v Ha) as [->|H]; [right; left; reflexivity|left; exact H].
    - intros k q1 u r Hk Hu Hx Hrr. destruct (nth_error_upd_cases _ _ _ _ _ Hk) as [[-> ->]|[Hne Hk']].
      + apply (H4 kq q u r Hq); auto. eapply remove_first_sub; eauto.
      + apply (H4 k q1 u r Hk' Hu); auto.
    - intros t v u pv pu Ht Hc Hvx Hu Hux Hpv Hpu. apply (H5 t v u pv pu Ht Hc); auto.
    - intros t u pu Ht Hb Hh Hu Hux. apply (H6 t u pu Ht Hb Hh); auto.
    - intros Hd c Hc Hcm Hce. apply (H7 Hd c Hc); auto.
  Qed.

  Lemma J_deq fl ex ce w j n kq q q' i :
    idxv w -> J fl None ex None ce w -> wnode w j = Some n -> nth_error (v_qs n) kq = Some q -> remove_first i q = Some q' ->
    J (i :: fl) (Some (j, i)) ex None ce (wputn (with_qs n (upd (v_qs n) kq q')) w).
  Proof.
    intros HI HJ Hn Hq Hr. destruct (concat_upd _ _ _ Hq) as (P & Q & EP & EU). pose proof (remove_first_perm _ _ _ Hr) as HP.
    eapply J_step_n with (n := n); try eassumption; try reflexivity.
    - cbn [with_qs with_srv with_cci v_int]. eapply J_int; eauto.
    - unfold mem. cbn [with_qs v_qs]. rewrite EP, EU. rewrite <- !app_assoc. apply Permutation_app_head.
      rewrite HP. cbn. symmetry. rewrite (app_assoc q' Q fl), (app_assoc q' Q (i :: fl)). apply Permutation_middle.
    - apply vmat_none.
    - apply vmat_some.
    - apply hlat_refl.
    - intros u Hu. left. exact Hu.
    - intros u Hu. left. exact Hu.
    - intros nc Hc Ht Hcn HN. rewrite vmof_same. eapply NJ_deq; [apply HN; exact Hcn|exact Hq|exact Hr].
  Qed.

  (* ---------- changes of the parameters only ---------- *)
  Lemma wnode_nthZ w j n : wnode w j = Some n -> idxv w -> nthZ (w_ns w) (v_id n - 1) = Some n.
  Proof. intros Hn HI. rewrite (wnode_id _ _ _ HI Hn). unfold wnode in Hn. destruct (j <? 1); [discriminate|exact Hn]. Qed.
  Lemma J_same fl vm vm' ex ex' hole hole' ce ce' w j n :
    idxv w -> J fl vm ex hole ce w -> wnode w j = Some n -> vmat vm j -> vmat vm' j -> hlat hole hole' j ->
    (forall u, In u ex -> In u ex' \/ In u (mem n ++ fl)) ->
    (forall u, In u ce -> In u ce' \/ In u (mem n ++ fl)) ->
    (forall nc, nthZ (cf_nodes cf) (j - 1) = Some nc -> tgt nc = true -> v_c n <> None ->
        NodeJ (vmof vm j) ex (holeat hole j) ce n (fw w) -> NodeJ (vmof vm' j) ex' (holeat hole' j) ce' n (fw w)) ->
    J fl vm' ex' hole' ce' w.
  Proof.
    intros HI HJ Hn Hv Hv' Hh Hex Hce Hnode. rewrite <- (wputn_same n w) by (apply wnode_nthZ with (j := j); assumption).
    eapply J_step_n with (n := n); try eassumption; try reflexivity.
    - eapply J_int; eauto.
    - intros nc Hc Ht Hcn HN. apply (Hnode nc Hc Ht Hcn). apply HN. exact Hcn.
  Qed.
  Definition vmc (vm : option (Z * Z)) : list Z := match vm with Some (_, i) => [i] | None => [] end.
  Lemma vmof_vmc vm j u : In u (vmof vm j) -> In u (vmc vm).
  Proof. destruct vm as [[j' i]|]; cbn; [|tauto]. destruct (j' =? j); cbn; tauto. Qed.
  Lemma J_params fl vm ex ex' hole ce ce' w : J fl vm ex hole ce w ->
    (forall u, In u (allq w) \/ In u (vmc vm) -> In u ex -> In u ex') ->
    (forall u, In u (allq w) -> In u ce -> In u ce') -> J fl vm ex' hole ce' w.
  Proof.
    intros (H1 & H2 & H3 & H4) Hex Hce. split; [exact H1|]. split; [exact H2|]. split; [exact H3|].
    intros k nc n Hc Hk Ht Hcn. eapply NodeJ_mono; [exact (H4 k nc n Hc Hk Ht Hcn)| | |].
    - intros i _. left. reflexivity.
    - intros u Hu. apply Hex. apply in_app_or in Hu as [Hu|Hu]; [left; eapply in_mem_allq; eauto|right; eapply vmof_vmc; eauto].
    - intros u Hu. apply Hce. eapply in_mem_allq; eauto.
  Qed.
  Lemma J_ex_weak fl vm ex ex' hole ce w : J fl vm ex hole ce w -> (forall u, In u ex -> In u ex') -> J fl vm ex' hole ce w.
  Proof. intros HJ H. eapply J_params; [exact HJ| |]; auto. Qed.
  Lemma J_ex_out fl ex hole ce w i : J fl None (i :: ex) hole ce w -> ~ In i (allq w) -> J fl None ex hole ce w.
  Proof. intros HJ Hi. eapply J_params; [exact HJ| |]; auto. intros u [Hu|[]] [<-|H]; [contradiction|exact H]. Qed.
  Lemma J_ce_out fl vm ex hole ce w i : J fl vm ex hole (i :: ce) w -> ~ In i (allq w) -> J fl vm ex hole ce w.
  Proof. intros HJ Hi. eapply J_params; [exact HJ| |]; auto. intros u Hu [<-|H]; [contradiction|exact H]. Qed.
  Lemma J_ce_nodyn fl vm ex hole ce ce' w : cf_dyn cf = false -> J fl vm ex hole ce w -> J fl vm ex hole ce' w.
  Proof.
    intros Hd (H1 & H2 & H3 & H4). split; [exact H1|]. split; [exact H2|]. split; [exact H3|].
    intros k nc n Hc Hk Ht Hcn. destruct (H4 k nc n Hc Hk Ht Hcn) as [A1 A2 A3 A4 A5 A6 A7]. constructor; auto. intros F. congruence.
  Qed.
  Lemma J_fl_drop fl ex hole ce w i : J (i :: fl) None ex hole ce w -> J fl None ex hole ce w.
  Proof.
    intros (H1 & H2 & H3 & H4). split; [|split; [|split; [exact H3|exact H4]]].
    - eapply NoDup_remove_1. exact H1.
    - intros u Hu. apply H2. apply in_app_or in Hu as [Hu|Hu]; apply in_or_app; [left; exact Hu|right; right; exact Hu].
  Qed.
  Lemma J_mem_nodup fl vm ex hole ce w j n : J fl vm ex hole ce w -> wnode w j = Some n -> NoDup (mem n).
  Proof.
    intros (H1 & _) Hn. destruct (wnode_nth _ _ _ Hn) as (k & _ & Hk). destruct (allq_split w k n Hk) as (A & B & EA & _).
    rewrite EA in H1. apply NoDup_app_l in H1. apply NoDup_app_r in H1. apply NoDup_app_l in H1. exact H1.
  Qed.
  Lemma concat_nodup_unique (qs : list (list Z)) k k' q q' i : NoDup (concat qs) ->
    nth_error qs k = Some q -> In i q -> nth_error qs k' = Some q' -> In i q' -> k = k'.
  Proof.
    revert k k'. induction qs as [|a r IH]; intros k k' HN Hk Hi Hk' Hi'; [destruct k; discriminate|].
    cbn in HN. destruct k as [|k], k' as [|k']; cbn in Hk, Hk'; auto.
    - injection Hk as ->. exfalso. apply nth_error_In in Hk'. clear -HN Hi Hi' Hk'.
      induction q as [|b q IH]; [destruct Hi|]. cbn in HN. inversion HN as [|? ? Hb Hr]; subst. destruct Hi as [->|Hi]; [|auto].
      apply Hb. apply in_or_app. right. apply in_concat. eauto.
    - injection Hk' as ->. exfalso. apply nth_error_In in Hk. clear -HN Hi Hi' Hk.
      induction q' as [|b q' IH]; [destruct Hi'|]. cbn in HN. inversion HN as [|? ? Hb Hr]; subst. destruct Hi' as [->|Hi']; [|auto].
      apply Hb. apply in_or_app. right. apply in_concat. eauto.
    - f_equal. apply NoDup_app_r in HN. eapply IH; eauto.
  Qed.

  Lemma J_vm_drop fl ex hole ce w j n i : idxv w -> J fl (Some (j, i)) ex hole ce w -> wnode w j = Some n ->
    (forall nc, nthZ (cf_nodes cf) (j - 1) = Some nc -> tgt nc = true -> v_c n <> None -> srvof (fw w i) = None) ->
    J fl None ex hole ce w.
  Proof.
    intros HI HJ Hn Hs. eapply J_same; try eassumption; auto using vmat_some, vmat_none, hlat_refl.
    intros nc Hc Ht Hcn [H1 H2 H3 H4 H5 H6 H7]. rewrite vmof_same in *. cbn [vmof]. specialize (Hs nc Hc Ht Hcn).
    constructor; auto. intros t v Ht' Hcu. destruct (H3 t v Ht' Hcu) as [Ha Hb]. split; [|exact Hb].
    apply in_app_or in Ha as [Ha|[<-|[]]]; [rewrite app_nil_r; exact Ha|]. congruence.
  Qed.
  Lemma J_hole_drop fl vm ex ce w j sid n : idxv w -> J fl vm ex (Some (j, sid)) ce w -> wnode w j = Some n -> vmat vm j ->
    (forall nc, nthZ (cf_nodes cf) (j - 1) = Some nc -> tgt nc = true -> v_c n <> None ->
       (forall t, In t (v_srv n) -> s_id t = sid -> s_busy t = true) \/ (forall u pu, In u (mem n) -> ~ In u ex -> ~ waits (fw w) u pu)) ->
    J fl vm ex None ce w.
  Proof.
    intros HI HJ Hn Hv Hs. eapply J_same; try eassumption; auto using hlat_unset.
    intros nc Hc Ht Hcn [H1 H2 H3 H4 H5 H6 H7]. rewrite holeat_same in *. cbn [holeat]. constructor; auto.
    intros t u pu Ht' Hb _ Hu Hux. destruct (Hs nc Hc Ht Hcn) as [Hbusy|Hnw]; [|apply Hnw; assumption].
    apply (H6 t u pu Ht' Hb); auto. intros F. injection F as F. rewrite (Hbusy t Ht' (eq_sym F)) in Hb. discriminate.
  Qed.

  (* the exempt customer is dropped from the list once it conforms *)
  Lemma NJ_unex vmi ex ex' hole ce n f i kq q sv : NodeJ vmi ex hole ce n f -> NoDup (mem n) ->
    (forall u, In u ex -> u = i \/ In u ex') ->
    nth_error (v_qs n) kq = Some q -> In i q -> f i = Some (sv, Z.of_nat kq, Z.of_nat kq) ->
    (sv = None -> (forall t v pv, In t (v_srv n) -> s_cust t = Some v -> hasprio f v pv -> pv <= Z.of_nat kq) /\
                  (forall t, In t (v_srv n) -> s_busy t = false -> hole = Some (s_id t))) ->
    (forall t u pu, In t (v_srv n) -> s_cust t = Some i -> In u (mem n) -> waits f u pu -> Z.of_nat kq <= pu) ->
    NodeJ vmi ex' hole ce n f.
  Proof.
    intros [H1 H2 H3 H4 H5 H6 H7] HN Hex Hq Hi Hf Hw Hs.
    assert (Hnx : forall u, ~ In u ex' -> u <> i -> ~ In u ex) by (intros u Hu Hne F; destruct (Hex u F); auto).
    constructor; [exact H1|exact H2|exact H3| | | |exact H7].
    - intros k q1 u r Hk Hu Hx Hr. destruct (Z.eq_dec u i) as [->|Hne]; [|apply (H4 k q1 u r Hk Hu); auto].
      assert (k = kq) by (eapply concat_nodup_unique; [exact HN|exact Hk|exact Hu|exact Hq|exact Hi]). subst k.
      rewrite Hf in Hr. injection Hr as <-. cbn. auto.
    - intros t v u pv pu Ht Hc Hvx Hu Hux Hpv Hpu.
      destruct (Z.eq_dec v i) as [->|Hvi].
      + destruct Hpv as (sv' & pp' & Hpv). rewrite Hf in Hpv. injection Hpv as _ <- _. eapply Hs; eauto.
      + destruct (Z.eq_dec u i) as [->|Hui]; [|apply (H5 t v u pv pu Ht Hc); auto].
        destruct Hpu as (pp' & Hpu). rewrite Hf in Hpu. injection Hpu as -> <- _. destruct (Hw eq_refl) as [Hw1 _]. eapply Hw1; eauto.
    - intros t u pu Ht Hb Hh Hu Hux Hpu. destruct (Z.eq_dec u i) as [->|Hui]; [|apply (H6 t u pu Ht Hb Hh Hu); auto].
      destruct Hpu as (pp' & Hpu). rewrite Hf in Hpu. injection Hpu as -> _ _. destruct (Hw eq_refl) as [_ Hw2]. apply Hh. apply Hw2; assumption.
  Qed.

  (* ---------- servers: freeing and occupying one ---------- *)
  Definition free1 (t : sview) : sview := mkSv (s_id t) None false (s_off t).
  Definition detsrv (sid : Z) (srv : list sview) : list sview :=
    match fsv sid srv with
    | None => srv
    | Some t => if s_off t then delsv sid (putsv (free1 t) srv) else putsv (free1 t) srv
    end.
  Definition attsrv (sid c : Z) (srv : list sview) : list sview :=
    match fsv sid srv with Some t => putsv (mkSv (s_id t) (Some c) true (s_off t)) srv | None => srv end.
  Definition detn (sid : Z) (n : nview) : nview := with_srv n (detsrv sid (v_srv n)).
  Definition attn (sid c : Z) (n : nview) : nview := with_srv n (attsrv sid c (v_srv n)).

  Lemma fsv_none_sids i l : fsv i l = None -> ~ In i (sids l).
  Proof.
    unfold sids. induction l as [|y r IH]; cbn; [tauto|]. destruct (s_id y =? i) eqn:E; [discriminate|]. apply Z.eqb_neq in E.
    intros H [F|F]; [contradiction|]. exact (IH H F).
  Qed.
  Lemma in_putsv_nd t l u : NoDup (sids l) -> In u (putsv t l) -> u = t \/ (In u l /\ s_id u <> s_id t).
  Proof.
    unfold sids. induction l as [|y r IH]; cbn; [tauto|]. intros HN. inversion HN as [|? ? Hy Hr]; subst.
    destruct (s_id y =? s_id t) eqn:E; cbn.
    - apply Z.eqb_eq in E. intros [<-|H]; [auto|]. right. split; [auto|]. intros F. apply Hy. rewrite E, <- F. apply in_map. exact H.
    - apply Z.eqb_neq in E. intros [<-|H]; [right; auto|]. destruct (IH Hr H) as [->|[H1 H2]]; auto.
  Qed.
  Lemma in_delsv_nd i l u : NoDup (sids l) -> In u (delsv i l) -> In u l /\ s_id u <> i.
  Proof.
    unfold sids. induction l as [|y r IH]; cbn; [tauto|]. intros HN. inversion HN as [|? ? Hy Hr]; subst.
    destruct (s_id y =? i) eqn:E; cbn.
    - apply Z.eqb_eq in E. intros H. split; [auto|]. intros F. apply Hy. rewrite E, <- F. apply in_map. exact H.
    - apply Z.eqb_neq in E. intros [<-|H]; [auto|]. destruct (IH Hr H); auto.
  Qed.
  Lemma detsrv_in sid srv t' : NoDup (sids srv) -> In t' (detsrv sid srv) ->
    (In t' srv /\ s_id t' <> sid) \/ (exists t, fsv sid srv = Some t /\ t' = free1 t).
  Proof.
    intros HN. unfold detsrv. destruct (fsv sid srv) as [t|] eqn:E.
    - destruct (fsv_id _ _ _ E) as [Hid _]. intros H.
      assert (H' : In t' (putsv (free1 t) srv)) by (destruct (s_off t); [eapply in_delsv; eauto|exact H]).
      destruct (in_putsv_nd _ _ _ HN H') as [->|[H1 H2]]; [right; eauto|]. left. split; [exact H1|]. cbn in H2. congruence.
    - intros H. left. split; [exact H|]. intros F. apply (fsv_none_sids _ _ E). rewrite <- F. apply in_map. exact H.
  Qed.
  Lemma detsrv_sids sid srv a : In a (sids (detsrv sid srv)) -> In a (sids srv).
  Proof.
    unfold detsrv. destruct (fsv sid srv) as [t|] eqn:E; [|auto]. destruct (fsv_id _ _ _ E) as [Hid _].
    destruct (s_off t); intros H; [apply sids_delsv_incl in H|]; rewrite sids_putsv in H; exact H.
  Qed.
  Lemma detsrv_nodup sid srv : NoDup (sids srv) -> NoDup (sids (detsrv sid srv)).
  Proof.
    intros HN. unfold detsrv. destruct (fsv sid srv) as [t|] eqn:E; [|auto].
    destruct (s_off t); [apply nodup_sids_delsv|]; rewrite sids_putsv; exact HN.
  Qed.
  Lemma detsrv_nil sid srv : srv = [] -> detsrv sid srv = [].
  Proof. intros ->. reflexivity. Qed.
  Lemma attsrv_in sid c srv t' : NoDup (sids srv) -> In t' (attsrv sid c srv) ->
    (In t' srv /\ s_id t' <> sid) \/ (exists t, fsv sid srv = Some t /\ t' = mkSv (s_id t) (Some c) true (s_off t)).
  Proof.
    intros HN. unfold attsrv. destruct (fsv sid srv) as [t|] eqn:E.
    - destruct (fsv_id _ _ _ E) as [Hid _]. intros H.
      destruct (in_putsv_nd _ _ _ HN H) as [->|[H1 H2]]; [right; eauto|]. left. split; [exact H1|]. cbn in H2. congruence.
    - intros H. left. split; [exact H|]. intros F. apply (fsv_none_sids _ _ E). rewrite <- F. apply in_map. exact H.
  Qed.
  Lemma attsrv_sids sid c srv : sids (attsrv sid c srv) = sids srv.
  Proof. unfold attsrv. destruct (fsv sid srv); [apply sids_putsv|reflexivity]. Qed.
  Lemma attsrv_nil sid c srv : srv = [] -> attsrv sid c srv = [].
  Proof. intros ->. reflexivity. Qed.

  Definition fput (f : Z -> option ient) (c : Z) (r : ient) : Z -> option ient := fun k => if c =? k then Some r else f k.

  (* release: the customer that has left its queue gives its server back *)
  Lemma NJ_det_rel ex ce n f i sid p pp : NodeJ [i] ex None ce n f -> ~ In i (mem n) -> f i = Some (Some sid, p, pp) ->
    NodeJ [] ex (Some sid) ce (detn sid n) (fput f i (None, p, pp)).
  Proof.
    intros [H1 H2 H3 H4 H5 H6 H7] Hni Hf.
    assert (Hfo : forall u, In u (mem n) -> fput f i (None, p, pp) u = f u).
    { intros u Hu. unfold fput. destruct (i =? u) eqn:E; [apply Z.eqb_eq in E; subst u; contradiction|reflexivity]. }
    assert (Hold : forall t' v, In t' (detsrv sid (v_srv n)) -> s_cust t' = Some v -> In t' (v_srv n) /\ In v (mem n) /\ srvof (f v) = Some (s_id t')).
    { intros t' v Ht' Hc. destruct (detsrv_in _ _ _ H1 Ht') as [[Hin Hne]|(t & _ & ->)]; [|discriminate].
      destruct (H3 t' v Hin Hc) as [Ha Hb]. split; [exact Hin|]. split; [|exact Hb].
      apply in_app_or in Ha as [Ha|[<-|[]]]; [exact Ha|]. rewrite Hf in Hb. cbn in Hb. congruence. }
    constructor; cbn [detn with_srv v_srv v_c v_qs v_cci].
    - apply detsrv_nodup. exact H1.
    - destruct H2 as [H2|H2]; [left; apply detsrv_nil; exact H2|right; exact H2].
    - intros t' v Ht' Hc. destruct (Hold t' v Ht' Hc) as (_ & Hm & Hs). rewrite app_nil_r. split; [exact Hm|]. rewrite (Hfo v Hm). exact Hs.
    - intros k q u r Hk Hu Hx Hr. rewrite (Hfo u (in_queue_mem _ _ _ _ Hk Hu)) in Hr. apply (H4 k q u r Hk Hu); auto.
    - intros t' v u pv pu Ht' Hc Hvx Hu Hux (sv & pp1 & Hpv) (pp2 & Hpu). destruct (Hold t' v Ht' Hc) as (Hin & Hm & _).
      rewrite (Hfo v Hm) in Hpv. rewrite (Hfo u Hu) in Hpu. apply (H5 t' v u pv pu Hin Hc); auto; [exists sv, pp1; exact Hpv|exists pp2; exact Hpu].
    - intros t' u pu Ht' Hb Hh Hu Hux (pp2 & Hpu). rewrite (Hfo u Hu) in Hpu.
      destruct (detsrv_in _ _ _ H1 Ht') as [[Hin Hne]|(t & Hft & ->)].
      + apply (H6 t' u pu Hin Hb); auto; [discriminate|exists pp2; exact Hpu].
      + apply Hh. cbn. destruct (fsv_id _ _ _ Hft) as [-> _]. reflexivity.
    - intros Hd c Hc Hcm Hce. rewrite (Hfo c Hcm). apply (H7 Hd c Hc); auto.
  Qed.

  (* pre-emption: the victim (least important in service) gives its server back and waits *)
  Lemma NJ_det_pre ex ce n f t v pv ppv : NodeJ [] ex None ce n f -> In t (v_srv n) -> s_cust t = Some v ->
    f v = Some (Some (s_id t), pv, ppv) ->
    (forall t', In t' (v_srv n) -> s_busy t' = true) ->
    (forall t' u pu, In t' (v_srv n) -> s_cust t' = Some u -> hasprio f u pu -> pu <= pv) ->
    NodeJ [] ex (Some (s_id t)) ce (detn (s_id t) n) (fput f v (None, pv, ppv)).
  Proof.
    intros [H1 H2 H3 H4 H5 H6 H7] Ht Hcv Hf Hbusy Hmax. set (sid := s_id t) in *.
    assert (Hold : forall t' u, In t' (detsrv sid (v_srv n)) -> s_cust t' = Some u -> In t' (v_srv n) /\ In u (mem n) /\ srvof (f u) = Some (s_id t') /\ u <> v).
    { intros t' u Ht' Hc. destruct (detsrv_in _ _ _ H1 Ht') as [[Hin Hne]|(t0 & _ & ->)]; [|discriminate].
      destruct (H3 t' u Hin Hc) as [Ha Hb]. rewrite app_nil_r in Ha. split; [exact Hin|]. split; [exact Ha|]. split; [exact Hb|].
      intros ->. rewrite Hf in Hb. cbn in Hb. congruence. }
    constructor; cbn [detn with_srv v_srv v_c v_qs v_cci].
    - apply detsrv_nodup. exact H1.
    - destruct H2 as [H2|H2]; [left; apply detsrv_nil; exact H2|right; exact H2].
    - intros t' u Ht' Hc. destruct (Hold t' u Ht' Hc) as (_ & Hm & Hs & Hne). rewrite app_nil_r. split; [exact Hm|].
      unfold fput. destruct (v =? u) eqn:E; [apply Z.eqb_eq in E; congruence|exact Hs].
    - intros k q u r Hk Hu Hx Hr. unfold fput in Hr. destruct (v =? u) eqn:E.
      + apply Z.eqb_eq in E. subst u. injection Hr as <-. cbn. apply (H4 k q v _ Hk Hu Hx Hf).
      + apply (H4 k q u r Hk Hu); auto.
    - intros t' u0 u pv0 pu Ht' Hc Hvx Hu Hux (sv & pp1 & Hpv) (pp2 & Hpu). destruct (Hold t' u0 Ht' Hc) as (Hin & Hm & _ & Hne).
      unfold fput in Hpv, Hpu. destruct (v =? u0) eqn:E0; [apply Z.eqb_eq in E0; congruence|].
      destruct (v =? u) eqn:E.
      + injection Hpu as <- _. apply (Hmax t' u0 pv0 Hin Hc). exists sv, pp1. exact Hpv.
      + apply (H5 t' u0 u pv0 pu Hin Hc); auto; [exists sv, pp1; exact Hpv|exists pp2; exact Hpu].
    - intros t' u pu Ht' Hb Hh Hu Hux _. destruct (detsrv_in _ _ _ H1 Ht') as [[Hin Hne]|(t0 & Hft & ->)].
      + rewrite (Hbusy t' Hin) in Hb. discriminate.
      + apply Hh. cbn. destruct (fsv_id _ _ _ Hft) as [-> _]. reflexivity.
    - intros Hd c Hc Hcm Hce. unfold fput. destruct (v =? c) eqn:E; [reflexivity|]. apply (H7 Hd c Hc); auto.
  Qed.

  (* a waiting customer is given the server sid *)
  Lemma NJ_att ex hole ce n f c sid pc ppc : NodeJ [] ex hole ce n f -> In c (mem n) -> f c = Some (None, pc, ppc) ->
    (hole = None \/ hole = Some sid) ->
    (~ In c ex -> forall u pu, In u (mem n) -> ~ In u ex -> waits f u pu -> pc <= pu) ->
    NodeJ [] ex None (c :: ce) (attn sid c n) (fput f c (Some sid, pc, ppc)).
  Proof.
    intros [H1 H2 H3 H4 H5 H6 H7] Hcm Hf Hh Hle.
    assert (Hold : forall t' u, In t' (v_srv n) -> s_cust t' = Some u -> u <> c).
    { intros t' u Hin Hc ->. destruct (H3 t' c Hin Hc) as [_ Hb]. rewrite Hf in Hb. discriminate. }
    assert (Hw : forall u pu, waits (fput f c (Some sid, pc, ppc)) u pu -> u <> c /\ waits f u pu).
    { intros u pu (pp2 & Hpu). unfold fput in Hpu. destruct (c =? u) eqn:E; [discriminate|]. apply Z.eqb_neq in E. split; [congruence|exists pp2; exact Hpu]. }
    constructor; cbn [attn with_srv v_srv v_c v_qs v_cci].
    - rewrite attsrv_sids. exact H1.
    - destruct H2 as [H2|H2]; [left; apply attsrv_nil; exact H2|right; exact H2].
    - intros t' u Ht' Hc. rewrite app_nil_r. destruct (attsrv_in _ _ _ _ H1 Ht') as [[Hin Hne]|(t0 & Hft & ->)].
      + destruct (H3 t' u Hin Hc) as [Ha Hb]. rewrite app_nil_r in Ha. split; [exact Ha|].
        unfold fput. destruct (c =? u) eqn:E; [apply Z.eqb_eq in E; exfalso; eapply Hold; eauto|exact Hb].
      + cbn in Hc. injection Hc as <-. split; [exact Hcm|]. unfold fput. rewrite Z.eqb_refl. cbn. destruct (fsv_id _ _ _ Hft) as [-> _]. reflexivity.
    - intros k q u r Hk Hu Hx Hr. unfold fput in Hr. destruct (c =? u) eqn:E.
      + apply Z.eqb_eq in E. subst u. injection Hr as <-. cbn. apply (H4 k q c _ Hk Hu Hx Hf).
      + apply (H4 k q u r Hk Hu); auto.
    - intros t' v u pv pu Ht' Hc Hvx Hu Hux (sv & pp1 & Hpv) Hpu. destruct (Hw u pu Hpu) as [Hne Hpu']. unfold fput in Hpv.
      destruct (attsrv_in _ _ _ _ H1 Ht') as [[Hin Hne2]|(t0 & Hft & ->)].
      + pose proof (Hold t' v Hin Hc) as Hvc. destruct (c =? v) eqn:E; [apply Z.eqb_eq in E; congruence|].
        apply (H5 t' v u pv pu Hin Hc); auto. exists sv, pp1. exact Hpv.
      + cbn in Hc. injection Hc as <-. rewrite Z.eqb_refl in Hpv. injection Hpv as _ <- _. exact (Hle Hvx u pu Hu Hux Hpu').
    - intros t' u pu Ht' Hb _ Hu Hux Hpu. destruct (Hw u pu Hpu) as [Hne Hpu'].
      destruct (attsrv_in _ _ _ _ H1 Ht') as [[Hin Hne2]|(t0 & Hft & ->)]; [|discriminate].
      apply (H6 t' u pu Hin Hb); auto. destruct Hh as [->| ->]; [discriminate|congruence].
    - intros Hd k Hk Hkm Hkc. assert (k <> c) by (intros ->; apply Hkc; left; reflexivity).
      unfold fput. destruct (c =? k) eqn:E; [apply Z.eqb_eq in E; congruence|]. apply (H7 Hd k Hk); auto. intros F. apply Hkc. right. exact F.
  Qed.

  (* the candidate of the next class change while waiting is recomputed *)
  Lemma NJ_cci vmi ex hole ce n f r : NodeJ vmi ex hole ce n f ->
    (forall i, r = Some i -> In i (mem n) -> srvof (f i) = None) -> NodeJ vmi ex hole [] (with_cci n r) f.
  Proof.
    intros [H1 H2 H3 H4 H5 H6 H7] Hr. constructor; cbn [with_cci v_srv v_c v_qs v_cci]; auto.
  Qed.

  (* ---------- the same on views ---------- *)
  Definition detv (j sid i : Z) (w : view) : view :=
    match wnode w j, fw w i with
    | Some n, Some (_, p, pp) => wputi (i, (None, p, pp)) (wputn (detn sid n) w)
    | _, _ => w
    end.
  Definition attv (j sid c : Z) (w : view) : view :=
    match wnode w j, fw w c with
    | Some n, Some (_, p, pp) => wputi (c, (Some sid, p, pp)) (wputn (attn sid c n) w)
    | _, _ => w
    end.

  Lemma J_det_rel fl ex ce w j n i sid p pp :
    idxv w -> J (i :: fl) (Some (j, i)) ex None ce w -> wnode w j = Some n -> fw w i = Some (Some sid, p, pp) ->
    J (i :: fl) None ex (Some (j, sid)) ce (wputi (i, (None, p, pp)) (wputn (detn sid n) w)).
  Proof.
    intros HI HJ Hn Hf.
    assert (Hni : ~ In i (mem n)).
    { intros F. destruct (wnode_nth _ _ _ Hn) as (k & _ & Hk). eapply J_fl_notin; [exact HJ|left; reflexivity|]. eapply in_mem_allq; eauto. }
    eapply J_step_ni with (n := n); try eassumption; try reflexivity; auto using vmat_some, vmat_none, hlat_set.
    - cbn. eapply J_int; eauto.
    - apply in_or_app. right. left. reflexivity.
    - intros nc Hc Ht Hcn HN. rewrite holeat_same. cbn [vmof]. rewrite vmof_same in HN. cbn [holeat] in HN.
      apply (NJ_det_rel ex ce n (fw w) i sid p pp (HN Hcn) Hni Hf).
  Qed.

  Lemma J_det_pre fl ex ce w j n nc t v pv ppv :
    idxv w -> J fl None ex None ce w -> wnode w j = Some n -> nthZ (cf_nodes cf) (j - 1) = Some nc -> tgt nc = true -> v_c n <> None ->
    In t (v_srv n) -> s_cust t = Some v -> fw w v = Some (Some (s_id t), pv, ppv) ->
    (forall t', In t' (v_srv n) -> s_busy t' = true) ->
    (forall t' u pu, In t' (v_srv n) -> s_cust t' = Some u -> hasprio (fw w) u pu -> pu <= pv) ->
    J fl None ex (Some (j, s_id t)) ce (wputi (v, (None, pv, ppv)) (wputn (detn (s_id t) n) w)).
  Proof.
    intros HI HJ Hn Hc Htg Hcn Ht Hcv Hf Hbusy Hmax.
    pose proof (J_node _ _ _ _ _ _ _ _ _ HI HJ Hn Hc Htg Hcn) as HN0. cbn [vmof holeat] in HN0.
    assert (Hvm : In v (mem n)) by (destruct (nj_lnk _ _ _ _ _ _ HN0 t v Ht Hcv) as [Ha _]; rewrite app_nil_r in Ha; exact Ha).
    eapply J_step_ni with (n := n); try eassumption; try reflexivity; auto using vmat_none, hlat_set.
    - cbn. eapply J_int; eauto.
    - apply in_or_app. left. exact Hvm.
    - intros nc' Hc' Ht' Hcn' HN. rewrite holeat_same. cbn [vmof].
      apply (NJ_det_pre ex ce n (fw w) t v pv ppv HN0 Ht Hcv Hf Hbusy Hmax).
  Qed.

  Lemma J_att fl ex hole ce w j n c sid pc ppc :
    idxv w -> J fl None ex hole ce w -> wnode w j = Some n -> In c (mem n) -> fw w c = Some (None, pc, ppc) ->
    (holeat hole j = None \/ holeat hole j = Some sid) -> hlat hole None j ->
    (forall nc, nthZ (cf_nodes cf) (j - 1) = Some nc -> tgt nc = true -> v_c n <> None ->
       ~ In c ex -> forall u pu, In u (mem n) -> ~ In u ex -> waits (fw w) u pu -> pc <= pu) ->
    J fl None ex None (c :: ce) (wputi (c, (Some sid, pc, ppc)) (wputn (attn sid c n) w)).
  Proof.
    intros HI HJ Hn Hcm Hf Hh Hhl Hle.
    eapply J_step_ni with (n := n); try eassumption; try reflexivity; auto using vmat_none.
    - cbn. eapply J_int; eauto.
    - intros u Hu. left. right. exact Hu.
    - apply in_or_app. left. exact Hcm.
    - intros nc Hc Ht Hcn HN. cbn [vmof holeat] in *.
      apply (NJ_att ex (holeat hole j) ce n (fw w) c sid pc ppc (HN Hcn) Hcm Hf Hh (Hle nc Hc Ht Hcn)).
  Qed.

  Lemma J_cci fl vm ex hole ce w j n r :
    idxv w -> J fl vm ex hole ce w -> wnode w j = Some n -> vmat vm j ->
    (forall c, In c ce -> In c (mem n ++ fl)) ->
    (forall nc i, nthZ (cf_nodes cf) (j - 1) = Some nc -> tgt nc = true -> v_c n <> None -> r = Some i -> In i (mem n) -> srvof (fw w i) = None) ->
    J fl vm ex hole [] (wputn (with_cci n r) w).
  Proof.
    intros HI HJ Hn Hv Hce Hr.
    eapply J_step_n with (n := n); try eassumption; try reflexivity; auto using hlat_refl.
    - cbn. eapply J_int; eauto.
    - intros nc Hc Ht Hcn HN. apply NJ_cci with (ce := ce); [apply HN; exact Hcn|]. intros i Hi Him. eapply Hr; eauto.
  Qed.

  (* nodes outside the claim: anything local may change *)
  Lemma J_inact_ni fl vm ex hole ce w j n n' c r :
    idxv w -> J fl vm ex hole ce w -> wnode w j = Some n ->
    (forall nc, nthZ (cf_nodes cf) (j - 1) = Some nc -> tgt nc = true -> v_c n' = None) ->
    v_id n' = v_id n -> v_qs n' = v_qs n -> v_int n' = [] -> vmat vm j -> In c (mem n ++ fl) ->
    J fl vm ex hole ce (wputi (c, r) (wputn n' w)).
  Proof.
    intros HI HJ Hn Hin Eid Eqs Eint Hv Hc.
    eapply J_step_ni with (n := n); try eassumption; auto using hlat_refl.
    - unfold mem. rewrite Eqs. reflexivity.
    - intros nc Hcf Ht Hcn _. exfalso. apply Hcn. eapply Hin; eauto.
  Qed.
  Lemma J_inact_n fl vm ex hole ce w j n n' :
    idxv w -> J fl vm ex hole ce w -> wnode w j = Some n ->
    (forall nc, nthZ (cf_nodes cf) (j - 1) = Some nc -> tgt nc = true -> v_c n' = None) ->
    v_id n' = v_id n -> v_qs n' = v_qs n -> v_int n' = [] -> vmat vm j ->
    J fl vm ex hole ce (wputn n' w).
  Proof.
    intros HI HJ Hn Hin Eid Eqs Eint Hv.
    eapply J_step_n with (n := n); try eassumption; auto using hlat_refl.
    - unfold mem. rewrite Eqs. reflexivity.
    - intros nc Hcf Ht Hcn _. exfalso. apply Hcn. eapply Hin; eauto.
  Qed.

  (* only records change *)
  Lemma J_recs fl vm ex hole ce w w' : J fl vm ex hole ce w -> w_ns w' = w_ns w -> w_cr w <= w_cr w' ->
    (forall u, In u (allq w) \/ In u (vmc vm) -> fw w' u = fw w u \/ (In u ex /\ srvof (fw w' u) = srvof (fw w u))) ->
    J fl vm ex hole ce w'.
  Proof.
    intros (H1 & H2 & H3 & H4) Ens Hcr Hf. unfold J, allq. rewrite Ens. fold (allq w).
    split; [exact H1|]. split; [intros i Hi; specialize (H2 i Hi); lia|]. split; [exact H3|].
    intros k nc n Hc Hk Ht Hcn. eapply NodeJ_mono; [exact (H4 k nc n Hc Hk Ht Hcn)| | |]; auto.
    intros u Hu. apply Hf. apply in_app_or in Hu as [Hu|Hu]; [left; eapply in_mem_allq; eauto|right; eapply vmof_vmc; eauto].
  Qed.
  Lemma J_puti_ex fl vm ex hole ce w i sv p pp p' pp' : J fl vm ex hole ce w -> In i ex -> fw w i = Some (sv, p, pp) ->
    J fl vm ex hole ce (wputi (i, (sv, p', pp')) w).
  Proof.
    intros HJ Hi Hf. eapply J_recs; [exact HJ|reflexivity|cbn; lia|]. intros u _. rewrite fw_wputi. destruct (i =? u) eqn:E; [|left; reflexivity].
    apply Z.eqb_eq in E. subst u. right. split; [exact Hi|]. rewrite Hf. reflexivity.
  Qed.
  Lemma J_puti_fl fl ex hole ce w c r : J fl None ex hole ce w -> In c fl -> J fl None ex hole ce (wputi (c, r) w).
  Proof.
    intros HJ Hc. eapply J_recs; [exact HJ|reflexivity|cbn; lia|]. intros u [Hu|[]]. rewrite fw_wputi. destruct (c =? u) eqn:E; [|left; reflexivity].
    apply Z.eqb_eq in E. subst u. exfalso. eapply J_fl_notin; eauto.
  Qed.
  Lemma J_del fl ex hole ce w i : J (i :: fl) None ex hole ce w -> J fl None ex hole ce (set_is w (deliv i (w_is w))).
  Proof.
    intros HJ. apply J_fl_drop with (i := i). eapply J_recs; [exact HJ|reflexivity|cbn; lia|]. intros u [Hu|[]]. left. unfold fw. cbn [set_is w_is].
    apply fiv_deliv. intros ->. eapply J_fl_notin; [exact HJ|left; reflexivity|exact Hu].
  Qed.
  Lemma J_new fl ex hole ce w r : J fl None ex hole ce w -> (forall u, In u (allq w ++ fl) -> u < w_cr w) ->
    J (w_cr w :: fl) None ex hole ce (wputi (w_cr w, r) w).
  Proof.
    intros HJ Hlt. assert (Hni : ~ In (w_cr w) (allq w ++ fl)) by (intros F; specialize (Hlt _ F); lia).
    assert (HJ' : J (w_cr w :: fl) None ex hole ce w).
    { destruct HJ as (H1 & H2 & H3 & H4). split; [|split; [|split; [exact H3|exact H4]]].
      - apply NoDup_remove_1 with (a := w_cr w) in H1 || idtac. apply Permutation_NoDup with (l := w_cr w :: allq w ++ fl); [apply Permutation_middle|].
        constructor; assumption.
      - intros u Hu. apply in_app_or in Hu as [Hu|[<-|Hu]]; [apply H2; apply in_or_app; auto|lia|apply H2; apply in_or_app; auto]. }
    apply J_puti_fl; [exact HJ'|left; reflexivity].
  Qed.
  Lemma J_cr fl vm ex hole ce w : J fl vm ex hole ce w -> J fl vm ex hole ce (mkVw (w_ns w) (w_cr w + 1) (w_is w)).
  Proof. intros HJ. eapply J_recs; [exact HJ|reflexivity|cbn; lia|]. intros u _. left. reflexivity. Qed.

  Lemma J_unex fl vm ex hole ce w j n i kq q sv :
    idxv w -> J fl vm (i :: ex) hole ce w -> wnode w j = Some n -> vmat vm j ->
    nth_error (v_qs n) kq = Some q -> In i q -> fw w i = Some (sv, Z.of_nat kq, Z.of_nat kq) ->
    (forall nc, nthZ (cf_nodes cf) (j - 1) = Some nc -> tgt nc = true -> v_c n <> None ->
       (sv = None -> (forall t v pv, In t (v_srv n) -> s_cust t = Some v -> hasprio (fw w) v pv -> pv <= Z.of_nat kq) /\
                     (forall t, In t (v_srv n) -> s_busy t = false -> holeat hole j = Some (s_id t))) /\
       (forall t u pu, In t (v_srv n) -> s_cust t = Some i -> In u (mem n) -> waits (fw w) u pu -> Z.of_nat kq <= pu)) ->
    J fl vm ex hole ce w.
  Proof.
    intros HI HJ Hn Hv Hq Hi Hf Hc.
    eapply J_same; try exact HJ; try exact Hn; auto using hlat_refl.
    - intros u [<-|Hu]; [right; apply in_or_app; left; eapply in_queue_mem; eauto|left; exact Hu].
    - intros nc Hnc Ht Hcn HN. destruct (Hc nc Hnc Ht Hcn) as [C1 C2].
      eapply NJ_unex with (i := i); try exact HN; try exact Hq; try exact Hi; try exact Hf; auto.
      + eapply J_mem_nodup; eauto.
      + intros u [<-|Hu]; auto.
  Qed.
  Lemma J_unex_inact fl vm ex hole ce w j n i :
    idxv w -> J fl vm (i :: ex) hole ce w -> wnode w j = Some n -> vmat vm j -> In i (mem n) ->
    (forall nc, nthZ (cf_nodes cf) (j - 1) = Some nc -> tgt nc = true -> v_c n = None) ->
    J fl vm ex hole ce w.
  Proof.
    intros HI HJ Hn Hv Hi Hin. eapply J_same; try exact HJ; try exact Hn; auto using hlat_refl.
    - intros u [<-|Hu]; [right; apply in_or_app; left; exact Hi|left; exact Hu].
    - intros nc Hnc Ht Hcn _. exfalso. apply Hcn. eapply Hin; eauto.
  Qed.
End Inv.


(* ====================================================================================================================== *)
(* Part 4.  A Hoare logic whose assertions are predicates on views                                                      *)
(* ====================================================================================================================== *)
Definition ht {X} (P : view -> Prop) (m : M X) (Q : X -> view -> Prop) : Prop :=
  forall s a s', idxv (VW s) -> P (VW s) -> m s = Ok (a, s') -> idxv (VW s') /\ Q a (VW s').
Definition cur (j : Z) (nd : node) (w : view) : Prop := n_id nd = j /\ wnode w j = Some (nv nd).
Definition curi (i : Z) (x : ind) (w : view) : Prop := i_id x = i /\ fw w i = Some (i_server x, i_prio x, i_pprio x).

Lemma ht_bind {X Y} P (m : M X) (f : X -> M Y) Q R : ht P m Q -> (forall a, ht (Q a) (f a) R) -> ht P (bind m f) R.
Proof.
  intros Hm Hf s b s' HI HP H. unfold bind in H. destruct (m s) as [[a s1]| |] eqn:E; try discriminate.
  destruct (Hm _ _ _ HI HP E) as [HI1 HQ]. eapply Hf; eauto.
Qed.
Lemma ht_pre {X} (P P' : view -> Prop) (m : M X) Q : (forall w, idxv w -> P' w -> P w) -> ht P m Q -> ht P' m Q.
Proof. intros HP H s a s' HI HP' E. eapply H; eauto. Qed.
Lemma ht_post {X} P (m : M X) (Q Q' : X -> view -> Prop) : ht P m Q -> (forall a w, idxv w -> Q a w -> Q' a w) -> ht P m Q'.
Proof. intros H HQ s a s' HI HP E. destruct (H _ _ _ HI HP E) as [H1 H2]. split; [exact H1|apply HQ; assumption]. Qed.
Lemma ht_K {X} P (m : M X) : PV KT m -> ht P m (fun _ => P).
Proof. intros Hm s a s' HI HP E. rewrite (Hm _ _ _ HI I E). auto. Qed.
Lemma ht_KK {X} (K P : view -> Prop) (m : M X) : PV K m -> (forall w, P w -> K w) -> ht P m (fun _ => P).
Proof. intros Hm HK s a s' HI HP E. rewrite (Hm _ _ _ HI (HK _ HP) E). auto. Qed.
Lemma ht_KKw {X} (K P Q : view -> Prop) (m : M X) : PV K m -> (forall w, P w -> K w) -> (forall w, idxv w -> P w -> Q w) -> ht P m (fun _ => Q).
Proof. intros Hm HK HQ s a s' HI HP E. rewrite (Hm _ _ _ HI (HK _ HP) E). auto. Qed.
Lemma ht_Kw {X} (P Q : view -> Prop) (m : M X) : PV KT m -> (forall w, idxv w -> P w -> Q w) -> ht P m (fun _ => Q).
Proof. intros Hm HQ. eapply ht_KKw; [exact Hm|intros; exact I|exact HQ]. Qed.
Lemma ht_ret {X} P (a : X) : ht P (ret a) (fun b w => P w /\ b = a).
Proof. intros s b s' HI HP E. unfold ret in E. injection E as <- <-. auto. Qed.
Lemma ht_ret' {X} (P : view -> Prop) (a : X) (Q : X -> view -> Prop) : (forall w, idxv w -> P w -> Q a w) -> ht P (ret a) Q.
Proof. intros H s b s' HI HP E. unfold ret in E. injection E as <- <-. auto. Qed.
Lemma ht_fail {X} P e Q : ht P (@fail X e) Q.
Proof. intros s b s' _ _ E. discriminate. Qed.
Lemma ht_oof {X} P Q : ht P (@oof X) Q.
Proof. intros s b s' _ _ E. discriminate. Qed.
Lemma ht_lift {X} P e (o : option X) : ht P (lift e o) (fun a w => P w /\ o = Some a).
Proof. destruct o as [x|]; intros s b s' HI HP E; inversion E. subst. auto. Qed.
Lemma ht_lift_bind {X Y} P e (o : option X) (f : X -> M Y) R : (forall a, o = Some a -> ht P (f a) R) -> ht P (bind (lift e o) f) R.
Proof. intros Hf s b s' HI HP E. unfold bind in E. destruct o as [x|]; cbn in E; [|discriminate]. eapply Hf; eauto. Qed.
Lemma ht_gets {X} P (g : sim -> X) : ht P (gets g) (fun _ => P).
Proof. intros s b s' HI HP E. unfold gets in E. injection E as <- <-. auto. Qed.
Lemma ht_get_node P j : ht P (get_node j) (fun nd w => P w /\ cur j nd w).
Proof.
  intros s nd s' HI HP E. apply get_node_spec in E as (-> & Hj & Hn). split; [exact HI|]. split; [exact HP|].
  destruct (get_node_okn j s nd HI Hn) as [Hid Hok]. split; [exact Hid|]. unfold wnode. destruct (j <? 1) eqn:E; [apply Z.ltb_lt in E; lia|].
  cbn. rewrite nthZ_map, Hn. reflexivity.
Qed.
Lemma ht_get_ind P i : ht P (get_ind i) (fun x w => P w /\ curi i x w).
Proof.
  intros s x s' HI HP E. apply get_ind_spec in E as (-> & Hi & Hx). split; [exact HI|]. split; [exact HP|]. split; [exact Hi|].
  unfold fw. cbn. rewrite fiv_find, Hx. reflexivity.
Qed.
Lemma ht_put_node P nd : ht P (put_node nd) (fun _ w => exists w0, idxv w0 /\ P w0 /\ w = wputn (nv nd) w0).
Proof.
  intros s u s' HI HP E. unfold put_node, modify in E. inversion E. rewrite VW_put_node. split; [apply idxv_wputn; exact HI|eauto].
Qed.
Lemma ht_put_ind P x : ht P (put_ind x) (fun _ w => exists w0, idxv w0 /\ P w0 /\ w = wputi (iv x) w0).
Proof.
  intros s u s' HI HP E. unfold put_ind, modify in E. inversion E. rewrite VW_put_ind. split; [exact HI|eauto].
Qed.
Lemma ht_false {X} (m : M X) Q : ht (fun _ => False) m Q.
Proof. intros s a s' _ []. Qed.
Lemma ht_forM {X} (P : view -> Prop) (f : X -> M unit) l : (forall a, ht P (f a) (fun _ => P)) -> ht P (forM_ l f) (fun _ => P).
Proof.
  intros Hf. induction l as [|a r IH]; cbn [forM_]; [apply ht_ret'; auto|].
  eapply ht_bind; [apply Hf|intros ?; exact IH].
Qed.
Lemma ht_vw {X} (P : view -> Prop) (m : M X) (F : view -> view) (Q : X -> view -> Prop) :
  (forall s a s', m s = Ok (a, s') -> idxv (VW s) -> VW s' = F (VW s)) ->
  (forall a w, idxv w -> P w -> idxv (F w) /\ Q a (F w)) -> ht P m Q.
Proof. intros Hm HF s a s' HI HP E. rewrite (Hm _ _ _ E HI). apply HF; assumption. Qed.
Lemma ht_conj {X} (P1 P2 : view -> Prop) (m : M X) (Q1 Q2 : X -> view -> Prop) :
  ht P1 m Q1 -> ht P2 m Q2 -> ht (fun w => P1 w /\ P2 w) m (fun a w => Q1 a w /\ Q2 a w).
Proof. intros H1 H2 s a s' HI [HP1 HP2] E. destruct (H1 _ _ _ HI HP1 E) as [HI' HQ1]. destruct (H2 _ _ _ HI HP2 E) as [_ HQ2]. auto. Qed.

Ltac hk := apply ht_K; solve [pva].
Tactic Notation "hnode" ident(nd) := eapply ht_bind; [apply ht_get_node|intros nd].
Tactic Notation "hind" ident(x) := eapply ht_bind; [apply ht_get_ind|intros x].
Tactic Notation "hlift" ident(a) := eapply ht_bind; [apply ht_lift|intros a].
Tactic Notation "hK" := eapply ht_bind; [hk|intros ?].
Tactic Notation "hliftc" ident(a) ident(H) := apply ht_lift_bind; intros a H.

Ltac minv H a s1 E :=
  match type of H with
  | bind ?m ?f ?s = Ok _ => unfold bind in H at 1; destruct (m s) as [[a s1]| |] eqn:E; [|discriminate H|discriminate H]
  end.
Lemma ret_inv {A} (a b : A) s s' : ret a s = Ok (b, s') -> b = a /\ s' = s.
Proof. unfold ret. intros H. injection H as <- <-. auto. Qed.
Lemma gets_inv {A} (f : sim -> A) b s s' : gets f s = Ok (b, s') -> b = f s /\ s' = s.
Proof. unfold gets. intros H. injection H as <- <-. auto. Qed.
Lemma modify_inv f u s s' : modify f s = Ok (u, s') -> s' = f s.
Proof. unfold modify. intros H. injection H as <- <-. auto. Qed.
Lemma lift_inv {A} e (o : option A) a s s' : lift e o s = Ok (a, s') -> o = Some a /\ s' = s.
Proof. destruct o as [x|]; cbn; unfold ret, fail; intros H; [injection H as <- <-; auto|discriminate]. Qed.

Lemma wnode_VW s j nd : 1 <= j -> nthZ (nodes s) (j - 1) = Some nd -> wnode (VW s) j = Some (nv nd).
Proof. intros Hj Hn. unfold wnode. destruct (j <? 1) eqn:E; [apply Z.ltb_lt in E; lia|]. cbn. rewrite nthZ_map, Hn. reflexivity. Qed.
Lemma fw_VW s i x : find_ind i (inds s) = Some x -> fw (VW s) i = Some (i_server x, i_prio x, i_pprio x).
Proof. intros H. unfold fw. cbn. rewrite fiv_find, H. reflexivity. Qed.
Lemma fw_VW_none s i : find_ind i (inds s) = None -> fw (VW s) i = None.
Proof. intros H. unfold fw. cbn. rewrite fiv_find, H. reflexivity. Qed.
Lemma wputn_wputn n1 n2 w : v_id n2 = v_id n1 -> wputn n2 (wputn n1 w) = wputn n2 w.
Proof.
  intros E. unfold wputn, set_ns. cbn. f_equal. rewrite E. unfold updZ. destruct (v_id n1 - 1 <? 0); [reflexivity|]. apply upd_upd.
Qed.
Lemma cur_okn j nd w : cur j nd w -> okn w nd.
Proof. intros [Hid Hn]. unfold okn. rewrite Hid. unfold wnode in Hn. destruct (j <? 1); [discriminate|exact Hn]. Qed.
Lemma curi_oki i x w : curi i x w -> oki w x.
Proof. intros [Hid Hf]. unfold oki. rewrite Hid. exact Hf. Qed.

(* ---------- the three functions that change the link between servers and customers, as view transformers ---------- *)
Definition killn (sid : Z) (n : nview) : nview := with_srv n (delsv sid (v_srv n)).
Definition killv (j sid : Z) (w : view) : view := match wnode w j with Some n => wputn (killn sid n) w | None => w end.

Lemma kill_server_vw j sid s u s' : kill_server j sid s = Ok (u, s') -> idxv (VW s) ->
  VW s' = killv j sid (VW s) /\ exists n t, wnode (VW s) j = Some n /\ fsv sid (v_srv n) = Some t.
Proof.
  intros H HI. unfold kill_server in H.
  minv H t s1 E1. apply gets_inv in E1 as [-> ->].
  minv H nd s1 E2. apply get_node_spec in E2 as (-> & Hj & Hn).
  minv H sv s1 E3. apply lift_inv in E3 as [Hf ->].
  unfold put_node in H. apply modify_inv in H. rewrite H.
  destruct (get_node_okn j s nd HI Hn) as [Hid _].
  cbv zeta. rewrite VW_put_node. unfold killv. rewrite (wnode_VW s j nd Hj Hn). split.
  - f_equal. unfold nv, killn, with_srv. cbn. rewrite map_sc_del. reflexivity.
  - exists (nv nd), (sc sv). split; [reflexivity|]. cbn. rewrite fsv_find, Hf. reflexivity.
Qed.

Lemma attach_server_vw j sid i s u s' : attach_server j sid i s = Ok (u, s') -> idxv (VW s) ->
  VW s' = attv j sid i (VW s) /\ exists n ob, wnode (VW s) j = Some n /\ fw (VW s) i = Some ob.
Proof.
  intros H HI. unfold attach_server, upd_server, upd_ind in H.
  minv H u1 s1 E1. minv E1 nd s0 E0. apply get_node_spec in E0 as (-> & Hj & Hn).
  destruct (get_node_okn j s nd HI Hn) as [Hid Hokn].
  assert (Hs1 : VW s1 = wputn (attn sid i (nv nd)) (VW s) /\ inds s1 = inds s).
  { unfold attn, attsrv. cbn [v_srv nv]. rewrite fsv_find. destruct (find_server sid (n_servers nd)) as [sv|] eqn:Ef; cbn [option_map].
    - unfold put_node in E1. apply modify_inv in E1. rewrite E1. split; [|reflexivity]. rewrite VW_put_node. f_equal.
      unfold nv, with_srv. cbn. rewrite map_sc_put. reflexivity.
    - apply ret_inv in E1 as [_ ->]. split; [|reflexivity]. symmetry. apply wputn_same. exact Hokn. }
  destruct Hs1 as [Hs1 Hi1]. clear E1.
  minv H x s2 E2. apply get_ind_spec in E2 as (-> & Hix & Hx). rewrite Hi1 in Hx.
  unfold put_ind in H. apply modify_inv in H. rewrite H, VW_put_ind, Hs1. unfold attv.
  rewrite (wnode_VW s j nd Hj Hn), (fw_VW s i x Hx). split; [|eauto]. unfold iv. cbn. rewrite Hix. reflexivity.
Qed.

Lemma detatch_server_vw j sid i s u s' : detatch_server j sid i s = Ok (u, s') -> idxv (VW s) ->
  VW s' = detv j sid i (VW s) /\ exists n ob, wnode (VW s) j = Some n /\ fw (VW s) i = Some ob.
Proof.
  intros H HI. unfold detatch_server in H.
  minv H t s1 E1. apply gets_inv in E1 as [-> ->].
  minv H nd s1 E2. apply get_node_spec in E2 as (-> & Hj & Hn).
  minv H x s1 E3. apply get_ind_spec in E3 as (-> & Hix & Hx).
  minv H u1 s1 E4. unfold put_ind in E4. apply modify_inv in E4.
  destruct (get_node_okn j s nd HI Hn) as [Hid Hokn].
  assert (V1 : VW s1 = wputi (i, (None, i_prio x, i_pprio x)) (VW s)) by (rewrite E4, VW_put_ind; unfold iv; cbn; rewrite Hix; reflexivity).
  assert (HI1 : idxv (VW s1)) by (rewrite V1; exact HI).
  unfold detv. rewrite (wnode_VW s j nd Hj Hn), (fw_VW s i x Hx). split; [|eauto].
  unfold detn, detsrv. cbn [v_srv nv]. rewrite fsv_find. destruct (find_server sid (n_servers nd)) as [sv|] eqn:Ef; cbn [option_map].
  - minv H u2 s2 E5. unfold put_node in E5. apply modify_inv in E5.
    set (sv' := sv <| sv_cust := None |> <| sv_busy := false |>
                   <| sv_busy_time := sv_busy_time sv - sv_wrapped sv + (numo (i_exit x) - numo (i_sst x)) |> <| sv_wrapped := 0 |>
                   <| sv_total_time := Some (now s - sv_start sv) |>) in *.
    set (nd1 := nd <| n_servers := put_server_l sv' (n_servers nd) |>) in *.
    assert (V2 : VW s2 = wputn (with_srv (nv nd) (putsv (free1 (sc sv)) (map sc (n_servers nd)))) (VW s1)).
    { rewrite E5, VW_put_node. f_equal. unfold nv, with_srv, nd1. cbn. rewrite map_sc_put. reflexivity. }
    cbn [s_off sc]. destruct (sv_offduty sv) eqn:Eo.
    + assert (HI2 : idxv (VW s2)) by (rewrite V2; apply idxv_wputn; exact HI1).
      destruct (kill_server_vw _ _ _ _ _ H HI2) as [V3 _]. rewrite V3, V2. unfold killv.
      assert (Hw : wnode (wputn (with_srv (nv nd) (putsv (free1 (sc sv)) (map sc (n_servers nd)))) (VW s1)) j
                   = Some (with_srv (nv nd) (putsv (free1 (sc sv)) (map sc (n_servers nd))))).
      { apply wnode_wputn with (n := nv nd); [exact HI1| |reflexivity]. rewrite V1, wnode_wputi. apply wnode_VW; assumption. }
      rewrite Hw, V1. rewrite wputn_wputn by reflexivity. reflexivity.
    + apply ret_inv in H as [_ ->]. rewrite V2, V1. reflexivity.
  - apply ret_inv in H as [_ ->]. rewrite V1. f_equal. symmetry. apply wputn_same. exact Hokn.
Qed.

(* ====================================================================================================================== *)
(* Part 5.  What the selection functions return, on views                                                                *)
(* ====================================================================================================================== *)
Definition waitsv (w : view) (u : Z) : Prop := exists p pp, fw w u = Some (None, p, pp).
Lemma waits_waitsv w u p : waits (fw w) u p -> waitsv w u.
Proof. intros (pp & H). exists p, pp. exact H. Qed.
Lemma waitsv_waits w u : waitsv w u -> exists p, waits (fw w) u p.
Proof. intros (p & pp & H). exists p, pp. exact H. Qed.
Lemma iswait_waitsv s u : Order2.iswait (inds s) u = true <-> waitsv (VW s) u.
Proof.
  unfold Order2.iswait, waitsv, fw. cbn. rewrite fiv_find. destruct (find_ind u (inds s)) as [x|]; cbn.
  - destruct (i_server x); split; try discriminate.
    + intros (p & pp & H). discriminate.
    + intros _. eauto.
    + intros _. reflexivity.
  - split; [discriminate|]. intros (p & pp & H). discriminate.
Qed.
Lemma hasprio_VW s u p : hasprio (fw (VW s)) u p <-> exists y, find_ind u (inds s) = Some y /\ i_prio y = p.
Proof.
  unfold hasprio, fw. cbn. rewrite fiv_find. destruct (find_ind u (inds s)) as [x|]; cbn.
  - split; [intros (sv & pp & H); injection H as _ <- _; eauto|]. intros (y & Hy & <-). injection Hy as <-. eauto.
  - split; [intros (sv & pp & H); discriminate|intros (y & Hy & _); discriminate].
Qed.

Section Sel.
  Variable cf : config.

  Definition Cn (j : Z) (r : option Z) (w : view) : Prop :=
    exists n, wnode w j = Some n /\
      match r with
      | Some c => exists kc q, nth_error (v_qs n) kc = Some q /\ In c q /\ waitsv w c /\
                    forall k' q' u, (k' < kc)%nat -> nth_error (v_qs n) k' = Some q' -> In u q' -> ~ waitsv w u
      | None => forall u, In u (mem n) -> ~ waitsv w u
      end.
  Lemma choose_spec j s r s' : choose_next_customer cf j s = Ok (r, s') -> idxv (VW s) -> VW s' = VW s /\ Cn j r (VW s).
  Proof.
    intros H HI. split; [eapply pv_choose_next_customer; eauto; exact I|]. destruct r as [c|].
    - destruct (Order2.chosen_is_prescribed _ _ _ _ _ H) as (nd & pre & q & post & d & [Hj Hn] & Eq & _ & Hc & Hw & Hpre & _).
      exists (nv nd). split; [apply wnode_VW; assumption|]. exists (length pre), q. cbn [v_qs nv]. rewrite Eq. split; [|split; [exact Hc|split]].
      + rewrite nth_error_app2 by lia. rewrite Nat.sub_diag. reflexivity.
      + apply iswait_waitsv. exact Hw.
      + intros k' q' u Hk Hq' Hu Hwu. rewrite nth_error_app1 in Hq' by exact Hk. apply nth_error_In in Hq'.
        apply iswait_waitsv in Hwu. rewrite (Hpre q' u Hq' Hu) in Hwu. discriminate.
    - destruct (Order2.none_chosen_none_waiting _ _ _ _ H) as (nd & [Hj Hn] & Hnw).
      exists (nv nd). split; [apply wnode_VW; assumption|]. intros u Hu Hwu. unfold mem in Hu. cbn [v_qs nv] in Hu.
      apply in_concat in Hu as (q & Hq & Hu). apply iswait_waitsv in Hwu. rewrite (Hnw q u Hq Hu) in Hwu. discriminate.
  Qed.
  Lemma ht_choose P j : ht P (choose_next_customer cf j) (fun r w => P w /\ Cn j r w).
  Proof. intros s r s' HI HP E. destruct (choose_spec _ _ _ _ E HI) as [EV HC]. rewrite EV. auto. Qed.

  Definition Vc (j i : Z) (r : option Z) (w : view) : Prop :=
    exists nc, nthZ (cf_nodes cf) (j - 1) = Some nc /\ (nc_preempt nc = 0 -> r = None) /\
      (nc_preempt nc <> 0 -> exists n pi, wnode w j = Some n /\ hasprio (fw w) i pi /\
         (forall t, In t (v_srv n) -> exists c, s_cust t = Some c) /\
         match r with
         | Some v => exists t pv, In t (v_srv n) /\ s_cust t = Some v /\ hasprio (fw w) v pv /\ pi < pv /\
                       forall t' u pu, In t' (v_srv n) -> s_cust t' = Some u -> hasprio (fw w) u pu -> pu <= pv
         | None => forall t u pu, In t (v_srv n) -> s_cust t = Some u -> hasprio (fw w) u pu -> pu <= pi
         end).
  Lemma victim_spec j i s r s' : preempt_victim cf j i s = Ok (r, s') -> idxv (VW s) -> VW s' = VW s /\ Vc j i r (VW s).
  Proof.
    intros H HI. split; [eapply pv_preempt_victim; eauto; exact I|].
    destruct (Preempt2.preempt_victim_spec _ _ _ _ _ _ H) as (_ & nc & Hc & H0 & H1). exists nc. split; [exact Hc|]. split; [exact H0|].
    intros Hne. destruct (H1 Hne) as (nd & x & Hnd & Hx & _ & Hall & Hr). unfold Preempt2.node_at in Hnd.
    destruct (j <? 1) eqn:Ej; [discriminate|]. apply Z.ltb_ge in Ej.
    exists (nv nd), (i_prio x). split; [apply wnode_VW; assumption|]. split; [apply hasprio_VW; eauto|]. split.
    { intros t Ht. cbn [v_srv nv] in Ht. apply in_map_iff in Ht as (sv & <- & Hsv). destruct (Hall sv Hsv) as (c & y & Hcu & _). exists c. exact Hcu. }
    destruct r as [v|].
    - destruct Hr as (spre & sv & spost & vx & Es & Hcv & Hvx & Hlt & Hmax & _). exists (sc sv), (i_prio vx).
      split; [cbn [v_srv nv]; apply in_map; rewrite Es; apply in_or_app; right; left; reflexivity|]. split; [exact Hcv|].
      split; [apply hasprio_VW; eauto|]. split; [exact Hlt|].
      intros t' u pu Ht' Hcu Hpu. cbn [v_srv nv] in Ht'. apply in_map_iff in Ht' as (sv' & <- & Hsv'). apply hasprio_VW in Hpu as (y & Hy & <-).
      apply (Hmax sv' u y Hsv' Hcu Hy).
    - intros t u pu Ht Hcu Hpu. cbn [v_srv nv] in Ht. apply in_map_iff in Ht as (sv' & <- & Hsv'). apply hasprio_VW in Hpu as (y & Hy & <-).
      apply (Hr sv' u y Hsv' Hcu Hy).
  Qed.
  Lemma ht_victim P j i : ht P (preempt_victim cf j i) (fun r w => P w /\ Vc j i r w).
  Proof. intros s r s' HI HP E. destruct (victim_spec _ _ _ _ _ E HI) as [EV HC]. rewrite EV. auto. Qed.

  Lemma find_free_some l sv : find_free_server l = Some sv -> In sv l /\ sv_busy sv = false.
  Proof.
    induction l as [|y r IH]; cbn; [discriminate|]. destruct (sv_busy y) eqn:E; [intros H; destruct (IH H); auto|].
    intros H. injection H as <-. auto.
  Qed.
  Lemma find_free_none l : find_free_server l = None -> forall sv, In sv l -> sv_busy sv = true.
  Proof.
    induction l as [|y r IH]; cbn; [intros _ sv []|]. destruct (sv_busy y) eqn:E; [|discriminate]. intros H sv [<-|Hs]; auto.
  Qed.
  Lemma first_min_some key l : forall best sv, first_min_free key l best = Some sv -> best = Some sv \/ (In sv l /\ sv_busy sv = false).
  Proof.
    induction l as [|y r IH]; cbn; intros best sv H; [auto|]. destruct (sv_busy y) eqn:E.
    - destruct (IH _ _ H) as [->|[H1 H2]]; auto.
    - destruct best as [b|].
      + destruct (pair_lt (key y) (key b)); destruct (IH _ _ H) as [E1|[H1 H2]]; auto. injection E1 as <-. auto.
      + destruct (IH _ _ H) as [E1|[H1 H2]]; auto. injection E1 as <-. auto.
  Qed.
  Lemma first_min_none key l : forall best, first_min_free key l best = None -> best = None /\ forall sv, In sv l -> sv_busy sv = true.
  Proof.
    induction l as [|y r IH]; cbn; intros best H; [split; [exact H|intros sv []]|]. destruct (sv_busy y) eqn:E.
    - destruct (IH _ H) as [H1 H2]. split; [exact H1|]. intros sv [<-|Hs]; auto.
    - destruct best as [b|].
      + destruct (pair_lt (key y) (key b)); destruct (IH _ H) as [H1 _]; discriminate.
      + destruct (IH _ H) as [H1 _]. discriminate.
  Qed.
  Lemma ffs_some spf cls l sv : find_free_server_for spf cls l = Some sv -> In sv l /\ sv_busy sv = false.
  Proof.
    unfold find_free_server_for. destruct (spf =? 0); [apply find_free_some|]. intros H.
    destruct (first_min_some _ _ _ _ H) as [F|H1]; [discriminate|exact H1].
  Qed.
  Lemma ffs_none spf cls l : find_free_server_for spf cls l = None -> forall sv, In sv l -> sv_busy sv = true.
  Proof.
    unfold find_free_server_for. destruct (spf =? 0); [apply find_free_none|]. intros H. apply (first_min_none _ _ _ H).
  Qed.
End Sel.

(* ====================================================================================================================== *)
(* Part 6.  Scope, and the pieces of the recursive core                                                                  *)
(* ====================================================================================================================== *)
Definition scope_nc (nc : ncfg) : bool :=
  match nc_cap nc with None => true | Some _ => false end &&
  (if nc_preempt nc =? 0 then true else match nc_srv nc with SFixed => true | _ => false end && negb (nc_preempt nc =? 4)) &&
  match nc_srv nc with SFixed => true | SSched sc => sc_pre sc =? 0 | SSlot sl => negb (sl_cap sl && negb (sl_pre sl =? 0)) end.
Definition inv_scope (cf : config) : bool := forallb scope_nc (cf_nodes cf).

Definition Mi (j i : Z) (w : view) : Prop := exists n, wnode w j = Some n /\ In i (mem n).

Lemma scan_cc_spec q il : forall best bi r, scan_cc q il best bi = Some r ->
  forall i, snd r = Some i -> bi = Some i \/ (In i q /\ exists x, find_ind i il = Some x /\ i_server x = None).
Proof.
  induction q as [|a q IH]; cbn [scan_cc]; intros best bi r H i Hi.
  - injection H as <-. cbn in Hi. auto.
  - destruct (find_ind a il) as [x|] eqn:Ex; [|discriminate]. destruct (i_ccd x) as [| |z]; [discriminate| |].
    + destruct (IH _ _ _ H i Hi) as [?|[Hq Hx]]; [auto|right; split; [right; exact Hq|exact Hx]].
    + destruct (date_lt (Some z) best && match i_server x with None => true | Some _ => false end) eqn:Eb.
      * destruct (IH _ _ _ H i Hi) as [E|[Hq Hx]]; [|right; split; [right; exact Hq|exact Hx]]. injection E as <-. right. split; [left; reflexivity|].
        apply andb_true_iff in Eb as [_ Eb]. exists x. split; [exact Ex|]. destruct (i_server x); [discriminate|reflexivity].
      * destruct (IH _ _ _ H i Hi) as [?|[Hq Hx]]; [auto|right; split; [right; exact Hq|exact Hx]].
Qed.

Section Core.
  Variable cf : config.
  Hypothesis HS : inv_scope cf = true.
  Notation J := (J cf).

  Lemma scope_at j nc : nthZ (cf_nodes cf) (j - 1) = Some nc -> scope_nc nc = true.
  Proof.
    intros H. apply nthZ_nat in H as (k & _ & Hk). unfold inv_scope in HS. rewrite forallb_forall in HS. apply HS. eapply nth_error_In; eauto.
  Qed.
  Lemma scope_cap j nc : nthZ (cf_nodes cf) (j - 1) = Some nc -> nc_cap nc = None.
  Proof. intros H. apply scope_at in H. unfold scope_nc in H. destruct (nc_cap nc); [discriminate|reflexivity]. Qed.
  Lemma scope_pre j nc : nthZ (cf_nodes cf) (j - 1) = Some nc -> nc_preempt nc <> 0 -> tgt nc = true /\ nc_preempt nc <> 4.
  Proof.
    intros H Hp. apply scope_at in H. unfold scope_nc in H. apply andb_true_iff in H as [H _]. apply andb_true_iff in H as [_ H].
    destruct (nc_preempt nc =? 0) eqn:E; [apply Z.eqb_eq in E; contradiction|]. apply andb_true_iff in H as [H1 H2].
    unfold tgt. rewrite E, H1. split; [reflexivity|]. apply negb_true_iff, Z.eqb_neq in H2. exact H2.
  Qed.
  Lemma scope_ntgt j nc : nthZ (cf_nodes cf) (j - 1) = Some nc -> tgt nc = false -> nc_preempt nc = 0.
  Proof.
    intros H Ht. destruct (Z.eq_dec (nc_preempt nc) 0) as [E|E]; [exact E|]. destruct (scope_pre j nc H E) as [F _]. congruence.
  Qed.

  (* ---------- the candidate of the next class change while waiting ---------- *)
  Lemma fncc_vw j s u s' : find_next_class_change j s = Ok (u, s') -> idxv (VW s) ->
    exists n r, wnode (VW s) j = Some n /\ VW s' = wputn (with_cci n r) (VW s) /\
                (forall i, r = Some i -> In i (mem n) /\ srvof (fw (VW s) i) = None).
  Proof.
    intros H HI. unfold find_next_class_change in H.
    minv H nd s1 E1. apply get_node_spec in E1 as (-> & Hj & Hn).
    minv H il s1 E2. apply gets_inv in E2 as [-> ->].
    minv H r s1 E3. apply lift_inv in E3 as [Hr ->].
    unfold put_node in H. apply modify_inv in H. exists (nv nd), (snd r). split; [apply wnode_VW; assumption|]. split.
    - rewrite H, VW_put_node. reflexivity.
    - intros i Hi. destruct (scan_cc_spec _ _ _ _ _ Hr i Hi) as [F|[Hq (x & Hx & Hsx)]]; [discriminate|]. split; [exact Hq|].
      rewrite (fw_VW _ _ _ Hx). cbn. exact Hsx.
  Qed.
  Lemma ht_fncc fl vm ex hole ce j : vmat vm j ->
    ht (fun w => J fl vm ex hole ce w /\ forall c, In c ce -> Mi j c w \/ In c fl) (find_next_class_change j) (fun _ w => J fl vm ex hole [] w).
  Proof.
    intros Hv s u s' HI [HJ Hce] E. destruct (fncc_vw _ _ _ _ E HI) as (n & r & Hn & -> & Hr).
    split; [apply idxv_wputn; exact HI|]. eapply J_cci; eauto.
    - intros c Hc. apply in_or_app. destruct (Hce c Hc) as [(n' & Hn' & Hm)|Hf]; [left|right; exact Hf]. rewrite Hn in Hn'. injection Hn' as <-. exact Hm.
    - intros nc i _ _ _ Hi _. apply (Hr i Hi).
  Qed.
  Lemma ht_decide_class_change fl vm ex hole ce j i : vmat vm j ->
    ht (fun w => J fl vm ex hole ce w /\ forall c, In c ce -> Mi j c w \/ In c fl) (decide_class_change cf j i) (fun _ w => J fl vm ex hole [] w).
  Proof.
    intros Hv. unfold decide_class_change. destruct (cf_dyn cf) eqn:Ed.
    - hind x. hK. hK. hK. hind x'.
      eapply ht_bind; [|intros ?; apply ht_fncc with (ce := ce); exact Hv].
      eapply ht_KKw with (K := fun w => oki w x'); [pva|intros w Hw; apply (curi_oki i); apply Hw|]. intros w _ H. apply H.
    - apply ht_ret'. intros w _ [HJ _]. eapply J_ce_nodyn; eauto.
  Qed.
  Lemma ht_reset_class_change fl vm ex hole ce j i : vmat vm j -> (forall c, In c ce -> c = i) ->
    ht (fun w => J fl vm ex hole ce w /\ (Mi j i w \/ In i fl)) (reset_class_change cf j i) (fun _ w => J fl vm ex hole [] w).
  Proof.
    intros Hv Hce. unfold reset_class_change. destruct (cf_dyn cf) eqn:Ed.
    - hK. hnode nd.
      assert (Hdrop : forall w, idxv w -> (J fl vm ex hole ce w /\ (Mi j i w \/ In i fl)) /\ cur j nd w -> n_ncci nd <> Some i -> J fl vm ex hole [] w).
      { intros w HIw [[HJ Hm] [Hid Hn]] Hne. eapply J_same; try exact HJ; try exact Hn; auto using hlat_refl.
        - intros u Hu. right. rewrite (Hce u Hu). apply in_or_app. destruct Hm as [(n' & Hn' & Hm)|Hf]; [left|right; exact Hf].
          rewrite Hn in Hn'. injection Hn' as <-. exact Hm.
        - intros nc Hc Ht Hcn [H1 H2 H3 H4 H5 H6 H7]. constructor; auto. intros Hd k Hk Hkm _. apply (H7 Hd k Hk Hkm).
          intros F. apply Hce in F. subst k. cbn in Hk. congruence. }
      destruct (n_ncci nd) as [k|] eqn:Ek.
      + destruct (k =? i) eqn:Eki.
        * eapply ht_pre; [|apply ht_fncc; exact Hv]. intros w _ [[HJ Hm] _]. split; [exact HJ|]. intros c Hc. rewrite (Hce c Hc). exact Hm.
        * apply ht_ret'. intros w HIw H. apply (Hdrop w HIw H). apply Z.eqb_neq in Eki. congruence.
      + apply ht_ret'. intros w HIw H. apply (Hdrop w HIw H). discriminate.
    - apply ht_ret'. intros w _ [HJ _]. eapply J_ce_nodyn; eauto.
  Qed.

  (* ---------- side conditions carried along: predicates that do not look at the class-change candidate / at an attachment ---------- *)
  Definition CI (j : Z) (R : view -> Prop) : Prop := forall w n r, idxv w -> wnode w j = Some n -> R w -> R (wputn (with_cci n r) w).
  Definition AI (j c : Z) (R : view -> Prop) : Prop :=
    forall w n sid sv p pp, idxv w -> wnode w j = Some n -> fw w c = Some (sv, p, pp) -> R w -> R (wputi (c, (Some sid, p, pp)) (wputn (attn sid c n) w)).
  Lemma CI_true j : CI j (fun _ => True). Proof. intros w n r _ _ _. exact I. Qed.
  Lemma AI_true j c : AI j c (fun _ => True). Proof. intros w n sid sv p pp _ _ _ _. exact I. Qed.
  Lemma CI_and j R1 R2 : CI j R1 -> CI j R2 -> CI j (fun w => R1 w /\ R2 w).
  Proof. intros H1 H2 w n r HI Hn [A B]. split; [eapply H1|eapply H2]; eauto. Qed.
  Lemma AI_and j c R1 R2 : AI j c R1 -> AI j c R2 -> AI j c (fun w => R1 w /\ R2 w).
  Proof. intros H1 H2 w n sid sv p pp HI Hn Hf [A B]. split; [eapply H1|eapply H2]; eauto. Qed.
  Lemma CI_Mi j c : CI j (Mi j c).
  Proof. intros w n r HI Hn (n' & Hn' & Hm). rewrite Hn in Hn'. injection Hn' as <-. exists (with_cci n r). split; [eapply wnode_wputn; eauto|exact Hm]. Qed.

  Lemma ht_fncc_ci j R : CI j R -> ht R (find_next_class_change j) (fun _ => R).
  Proof. intros HC s u s' HI HR E. destruct (fncc_vw _ _ _ _ E HI) as (n & r & Hn & -> & _). split; [apply idxv_wputn; exact HI|]. apply HC; assumption. Qed.
  Lemma ht_decide_ci j i R : CI j R -> ht R (decide_class_change cf j i) (fun _ => R).
  Proof.
    intros HC. unfold decide_class_change. destruct (cf_dyn cf); [|apply ht_ret'; auto].
    hind x. hK. hK. hK. hind x'. eapply ht_bind; [|intros ?; apply ht_fncc_ci; exact HC].
    eapply ht_KKw with (K := fun w => oki w x'); [pva|intros w Hw; apply (curi_oki i); apply Hw|]. intros w _ H. apply H.
  Qed.
  Lemma ht_reset_ci j i R : CI j R -> ht R (reset_class_change cf j i) (fun _ => R).
  Proof.
    intros HC. unfold reset_class_change. destruct (cf_dyn cf); [|apply ht_ret'; auto].
    hK. hnode nd. destruct (n_ncci nd) as [k|]; [destruct (k =? i)|]; try (apply ht_ret'; intros w _ H; apply H).
    eapply ht_pre; [|apply ht_fncc_ci; exact HC]. intros w _ H. apply H.
  Qed.

  (* ---------- attach_server / detatch_server as steps of the logic ---------- *)
  Lemma ht_attach P j sid c : ht P (attach_server j sid c)
    (fun _ w' => exists w n sv p pp, idxv w /\ P w /\ wnode w j = Some n /\ fw w c = Some (sv, p, pp) /\
                   w' = wputi (c, (Some sid, p, pp)) (wputn (attn sid c n) w)).
  Proof.
    intros s u s' HI HP E. destruct (attach_server_vw _ _ _ _ _ _ E HI) as (EV & n & [[sv p] pp] & Hn & Hf).
    assert (E2 : VW s' = wputi (c, (Some sid, p, pp)) (wputn (attn sid c n) (VW s))) by (rewrite EV; unfold attv; rewrite Hn, Hf; reflexivity).
    split; [rewrite E2; apply idxv_wputn; exact HI|]. exists (VW s), n, sv, p, pp. auto.
  Qed.
  Lemma ht_detach P j sid i : ht P (detatch_server j sid i)
    (fun _ w' => exists w n sv p pp, idxv w /\ P w /\ wnode w j = Some n /\ fw w i = Some (sv, p, pp) /\
                   w' = wputi (i, (None, p, pp)) (wputn (detn sid n) w)).
  Proof.
    intros s u s' HI HP E. destruct (detatch_server_vw _ _ _ _ _ _ E HI) as (EV & n & [[sv p] pp] & Hn & Hf).
    assert (E2 : VW s' = wputi (i, (None, p, pp)) (wputn (detn sid n) (VW s))) by (rewrite EV; unfold detv; rewrite Hn, Hf; reflexivity).
    split; [rewrite E2; apply idxv_wputn; exact HI|]. exists (VW s), n, sv, p, pp. auto.
  Qed.

  Definition HasSrv (c : Z) (w : view) : Prop := exists sid p pp, fw w c = Some (Some sid, p, pp).
  Lemma CI_HasSrv j c : CI j (HasSrv c).
  Proof. intros w n r _ _ H. exact H. Qed.

  Definition AttOK (j sid c : Z) (ex : list Z) (hole : option (Z * Z)) (w : view) : Prop :=
    exists n pc ppc, wnode w j = Some n /\ In c (mem n) /\ fw w c = Some (None, pc, ppc) /\
      (holeat hole j = None \/ holeat hole j = Some sid) /\ hlat hole None j /\
      (forall nc, nthZ (cf_nodes cf) (j - 1) = Some nc -> tgt nc = true -> v_c n <> None ->
         ~ In c ex -> forall u pu, In u (mem n) -> ~ In u ex -> waits (fw w) u pu -> pc <= pu).

  Lemma ht_attach_J fl ex hole j sid c R : AI j c R ->
    ht (fun w => J fl None ex hole [] w /\ AttOK j sid c ex hole w /\ R w) (attach_server j sid c)
       (fun _ w => J fl None ex None [c] w /\ Mi j c w /\ R w /\ HasSrv c w).
  Proof.
    intros HA. eapply ht_post; [apply ht_attach|].
    intros _ w' _ (w & n & sv & p & pp & HI & (HJ & (n' & pc & ppc & Hn' & Hm & Hf' & Hh & Hhl & Hle) & HR) & Hn & Hf & ->).
    rewrite Hn in Hn'. injection Hn' as <-. rewrite Hf in Hf'. injection Hf' as -> -> ->.
    split; [eapply J_att; eauto|]. split; [|split; [eapply HA; eauto|]].
    - exists (attn sid c n). split; [|exact Hm]. rewrite wnode_wputi. eapply wnode_wputn; eauto.
    - exists sid, pc, ppc. rewrite fw_wputi, Z.eqb_refl. reflexivity.
  Qed.

  Ltac hKi x := eapply ht_bind; [eapply ht_KKw with (K := fun w => oki w x); [pva|intros w Hw; eapply curi_oki; apply Hw|intros w _ Hw; exact Hw]|intros ?].

  Lemma ht_reset_JR fl vm ex hole ce j c R : vmat vm j -> (forall c', In c' ce -> c' = c) -> CI j R ->
    ht (fun w => J fl vm ex hole ce w /\ (Mi j c w \/ In c fl) /\ R w) (reset_class_change cf j c) (fun _ w => J fl vm ex hole [] w /\ R w).
  Proof.
    intros Hv Hce HC. eapply ht_pre; [|apply ht_conj; [apply ht_reset_class_change with (ce := ce); eassumption|apply ht_reset_ci; exact HC]].
    intros w _ (HJ & Hm & HR). auto.
  Qed.
  Lemma ht_decide_JR fl vm ex hole ce j c R : vmat vm j -> CI j R ->
    ht (fun w => J fl vm ex hole ce w /\ (forall c', In c' ce -> Mi j c' w \/ In c' fl) /\ R w) (decide_class_change cf j c) (fun _ w => J fl vm ex hole [] w /\ R w).
  Proof.
    intros Hv HC. eapply ht_pre; [|apply ht_conj; [apply ht_decide_class_change with (ce := ce); eassumption|apply ht_decide_ci; exact HC]].
    intros w _ (HJ & Hm & HR). auto.
  Qed.

  (* ---------- the blocks that start a service ---------- *)
  Lemma ht_start_give fl ex hole j c sid R : CI j R -> AI j c R ->
    ht (fun w => J fl None ex hole [] w /\ AttOK j sid c ex hole w /\ R w) (start_give cf j c sid) (fun _ w => J fl None ex None [] w /\ R w /\ HasSrv c w).
  Proof.
    intros HC HA. unfold start_give.
    eapply ht_bind; [apply ht_attach_J; exact HA|intros ?].
    hK. hK. hK. hind x. hK. hKi x. hK.
    eapply ht_bind; [|intros ?; hk].
    eapply ht_pre; [|apply ht_reset_JR with (ce := [c]) (R := fun w => R w /\ HasSrv c w); [apply vmat_none|intros c' [<-|[]]; reflexivity|apply CI_and; [exact HC|apply CI_HasSrv]]].
    intros w _ ((HJ & Hm & HR) & _). auto.
  Qed.
  Lemma ht_start_preemptor fl ex hole j c sid R : CI j R -> AI j c R ->
    ht (fun w => J fl None ex hole [] w /\ AttOK j sid c ex hole w /\ R w) (start_preemptor cf j c sid) (fun _ w => J fl None ex None [] w /\ R w /\ HasSrv c w).
  Proof.
    intros HC HA. unfold start_preemptor.
    eapply ht_bind; [apply ht_attach_J; exact HA|intros ?].
    hK. hK. hK. hind x. hK. hKi x.
    eapply ht_bind; [|intros ?; hk].
    eapply ht_pre; [|apply ht_reset_JR with (ce := [c]) (R := fun w => R w /\ HasSrv c w); [apply vmat_none|intros c' [<-|[]]; reflexivity|apply CI_and; [exact HC|apply CI_HasSrv]]].
    intros w _ ((HJ & Hm & HR) & _). auto.
  Qed.
  Lemma ht_start_fresh_some fl ex hole j c sid count R : CI j R -> AI j c R ->
    ht (fun w => J fl None ex hole [] w /\ AttOK j sid c ex hole w /\ R w) (start_fresh cf j c (Some sid) count) (fun _ w => J fl None ex None [] w /\ R w /\ HasSrv c w).
  Proof.
    intros HC HA. unfold start_fresh.
    eapply ht_bind; [apply ht_attach_J; exact HA|intros ?].
    hK. hK. hK. hK.
    eapply ht_bind; [|intros ?; hk].
    eapply ht_pre; [|apply ht_reset_JR with (ce := [c]) (R := fun w => R w /\ HasSrv c w); [apply vmat_none|intros c' [<-|[]]; reflexivity|apply CI_and; [exact HC|apply CI_HasSrv]]].
    intros w _ (HJ & Hm & HR). auto.
  Qed.
  Lemma ht_start_fresh_none fl ex hole j c count R : CI j R ->
    ht (fun w => J fl None ex hole [] w /\ Mi j c w /\ R w) (start_fresh cf j c None count) (fun _ w => J fl None ex hole [] w /\ R w).
  Proof.
    intros HC. unfold start_fresh.
    hK. hK. hK. hK. hK.
    eapply ht_bind; [|intros ?; hk].
    eapply ht_pre; [|apply ht_reset_JR with (ce := []); [apply vmat_none|intros c' []|exact HC]].
    intros w _ (HJ & Hm & HR). auto.
  Qed.

  Lemma chosen_AttOK fl ex hole w j c sid : idxv w -> J fl None ex hole [] w -> Cn j (Some c) w ->
    (holeat hole j = None \/ holeat hole j = Some sid) -> hlat hole None j -> AttOK j sid c ex hole w.
  Proof.
    intros HI HJ (n & Hn & kc & q & Hq & Hc & (pc & ppc & Hw) & Hbefore) Hh Hhl.
    exists n, pc, ppc. split; [exact Hn|]. split; [eapply in_queue_mem; eauto|]. split; [exact Hw|]. split; [exact Hh|]. split; [exact Hhl|].
    intros nc Hnc Ht Hcn Hcx u pu Hu Hux Hwu. pose proof (J_node _ _ _ _ _ _ _ _ _ _ HI HJ Hn Hnc Ht Hcn) as HN.
    destruct (mem_queue _ _ Hu) as (ku & qu & Hqu & Huq).
    destruct (Nat.lt_ge_cases ku kc) as [Hlt|Hge]; [exfalso; eapply Hbefore; eauto; eapply waits_waitsv; eauto|].
    destruct Hwu as (ppu & Hwu).
    destruct (nj_cls _ _ _ _ _ _ _ HN kc q c _ Hq Hc Hcx Hw) as [E1 _]. destruct (nj_cls _ _ _ _ _ _ _ HN ku qu u _ Hqu Huq Hux Hwu) as [E2 _].
    cbn in E1, E2. lia.
  Qed.

  Lemma ht_serve_with fl hole j sid R : (hole = None \/ hole = Some (j, sid)) -> CI j R -> (forall c, AI j c R) ->
    ht (fun w => J fl None [] hole [] w /\ R w) (serve_with cf j sid) (fun _ w => J fl None [] None [] w /\ R w).
  Proof.
    intros Hhole HC HA. unfold serve_with. hnode nd.
    assert (Hh1 : holeat hole j = None \/ holeat hole j = Some sid) by (destruct Hhole as [-> | ->]; [left; reflexivity|right; apply holeat_same]).
    assert (Hh2 : hlat hole None j) by (destruct Hhole as [-> | ->]; [apply hlat_refl|apply hlat_unset]).
    destruct (0 <? n_nint nd).
    - unfold begin_interrupted_individuals_service. hnode nd2. hliftc i Hi.
      eapply ht_pre; [|apply ht_false]. intros w _ (((HJ & _) & _) & [_ Hn2]). pose proof (J_int _ _ _ _ _ _ _ _ _ HJ Hn2) as E. cbn in E. rewrite E in Hi. discriminate.
    - eapply ht_bind; [apply ht_choose|intros [c|]].
      + eapply ht_post; [eapply ht_pre; [|apply ht_start_give with (hole := hole) (sid := sid) (R := R); [exact HC|apply HA]]|].
        * intros w HIw (((HJ & HR) & _) & HCn). split; [exact HJ|]. split; [|exact HR]. eapply chosen_AttOK; eauto.
        * intros _ w _ (HJ & HR & _). auto.
      + apply ht_ret'. intros w HIw (((HJ & HR) & [_ Hn]) & (n & Hn' & Hnw)). split; [|exact HR].
        destruct Hhole as [-> | ->]; [exact HJ|]. eapply J_hole_drop; eauto using vmat_none.
        intros nc _ _ _. right. intros u pu Hu _ Hwu. eapply Hnw; eauto. eapply waits_waitsv; eauto.
  Qed.

  Definition hfree (j : Z) (freed : option Z) : option (Z * Z) := match freed with Some sid => Some (j, sid) | None => None end.
  Lemma ht_bsip_release fl j freed R : CI j R -> (forall c, AI j c R) ->
    ht (fun w => J fl None [] (hfree j freed) [] w /\ R w) (begin_service_if_possible_release cf j freed) (fun _ w => J fl None [] None [] w /\ R w).
  Proof.
    intros HC HA. unfold begin_service_if_possible_release. destruct freed as [sid|]; [|apply ht_ret'; intros w _ H; exact H].
    hnode nd. destruct (find_server sid (n_servers nd)) as [sv|] eqn:Ef.
    - eapply ht_pre; [|apply ht_serve_with with (hole := Some (j, sid)); auto]. intros w _ [H _]. exact H.
    - apply ht_ret'. intros w HIw ((HJ & HR) & [_ Hn]). split; [|exact HR]. cbn [hfree] in HJ. eapply J_hole_drop; eauto using vmat_none.
      intros nc _ _ _. left. intros t Ht Hid. exfalso. cbn [v_srv nv] in Ht.
      assert (Hf : fsv sid (map sc (n_servers nd)) = None) by (rewrite fsv_find, Ef; reflexivity).
      apply (fsv_none_sids _ _ Hf). rewrite <- Hid. apply in_map. exact Ht.
  Qed.
End Core.


(* ====================================================================================================================== *)
(* Part 7.  The recursive core: release / release_blocked_individual / accept / preempt                                  *)
(* ====================================================================================================================== *)
Section Rec.
  Variable cf : config.
  Hypothesis HS : inv_scope cf = true.
  Notation J := (J cf).
  Notation J0 fl := (J fl None [] None []).

  Ltac hKi x := eapply ht_bind; [eapply ht_KKw with (K := fun w => oki w x); [pva|intros w Hw; eapply curi_oki; apply Hw|intros w _ Hw; exact Hw]|intros ?].

  (* side conditions *)
  Definition W (j i pi : Z) (w : view) : Prop := forall n u pu, wnode w j = Some n -> In u (mem n) -> u <> i -> waits (fw w) u pu -> pi <= pu.
  Definition QS (j : Z) (qs : list (list Z)) (w : view) : Prop := exists n, wnode w j = Some n /\ v_qs n = qs.
  Definition Rp (i p pp : Z) (w : view) : Prop := exists sv, fw w i = Some (sv, p, pp).
  Definition NH (j i : Z) (w : view) : Prop := forall nc n t, nthZ (cf_nodes cf) (j - 1) = Some nc -> tgt nc = true -> wnode w j = Some n -> v_c n <> None ->
    In t (v_srv n) -> s_cust t <> Some i.

  Lemma CI_W j i pi : CI j (W j i pi).
  Proof.
    intros w n r HI Hn HW n' u pu Hn' Hu Hne Hw. rewrite (wnode_wputn w j n (with_cci n r) HI Hn eq_refl) in Hn'. injection Hn' as <-.
    eapply HW; eauto.
  Qed.
  Lemma CI_QS j qs : CI j (QS j qs).
  Proof. intros w n r HI Hn (n' & Hn' & E). rewrite Hn in Hn'. injection Hn' as <-. exists (with_cci n r). split; [eapply wnode_wputn; eauto|exact E]. Qed.
  Lemma CI_Rp j i p pp : CI j (Rp i p pp).
  Proof. intros w n r _ _ H. exact H. Qed.
  Lemma CI_NH j i : CI j (NH j i).
  Proof.
    intros w n r HI Hn HN nc n' t Hnc Htg Hn' Hcn Ht. rewrite (wnode_wputn w j n (with_cci n r) HI Hn eq_refl) in Hn'. injection Hn' as <-. eapply HN; eauto.
  Qed.
  Lemma wnode_att w j n sid c r : idxv w -> wnode w j = Some n -> wnode (wputi (c, r) (wputn (attn sid c n) w)) j = Some (attn sid c n).
  Proof. intros HI Hn. rewrite wnode_wputi. eapply wnode_wputn; eauto. Qed.
  Lemma AI_W j c i pi : AI j c (W j i pi).
  Proof.
    intros w n sid sv p pp HI Hn Hf HW n' u pu Hn' Hu Hne (pp' & Hw). rewrite (wnode_att _ _ _ _ _ _ HI Hn) in Hn'. injection Hn' as <-.
    rewrite fw_wputi in Hw. destruct (c =? u); [discriminate|]. rewrite fw_wputn in Hw. eapply HW; eauto. exists pp'. exact Hw.
  Qed.
  Lemma AI_QS j c qs : AI j c (QS j qs).
  Proof.
    intros w n sid sv p pp HI Hn Hf (n' & Hn' & E). rewrite Hn in Hn'. injection Hn' as <-. exists (attn sid c n). split; [apply wnode_att; assumption|exact E].
  Qed.
  Lemma AI_Rp j c i p pp : AI j c (Rp i p pp).
  Proof.
    intros w n sid sv p' pp' HI Hn Hf (sv0 & H). unfold Rp. rewrite fw_wputi. destruct (c =? i) eqn:E; [|exists sv0; exact H].
    apply Z.eqb_eq in E. subst c. rewrite H in Hf. injection Hf as _ <- <-. eauto.
  Qed.
  Lemma AI_NH j c i : c <> i -> AI j c (NH j i).
  Proof.
    intros Hne w n sid sv p pp HI Hn Hf HN nc n' t Hnc Htg Hn' Hcn Ht. rewrite (wnode_att _ _ _ _ _ _ HI Hn) in Hn'. injection Hn' as <-.
    cbn [attn with_srv v_srv v_c] in Ht, Hcn. unfold attsrv in Ht. destruct (fsv sid (v_srv n)) as [t0|]; [|eapply HN; eauto].
    destruct (in_putsv _ _ _ Ht) as [->|Hin]; [cbn; congruence|eapply HN; eauto].
  Qed.
  Lemma AI_Mi j c i : AI j c (Mi j i).
  Proof.
    intros w n sid sv p pp HI Hn Hf (n' & Hn' & Hm). rewrite Hn in Hn'. injection Hn' as <-. exists (attn sid c n). split; [apply wnode_att; assumption|exact Hm].
  Qed.
  Lemma CI_AttOK j sid c ex hole : CI j (AttOK cf j sid c ex hole).
  Proof.
    intros w n r HI Hn (n' & pc & ppc & Hn' & Hm & Hf & Hh & Hhl & Hle). rewrite Hn in Hn'. injection Hn' as <-.
    exists (with_cci n r), pc, ppc. split; [eapply wnode_wputn; eauto|]. split; [exact Hm|]. split; [exact Hf|]. split; [exact Hh|]. split; [exact Hhl|exact Hle].
  Qed.

  (* ---------- preempt ---------- *)
  Definition PreOK (j v i pi ppi : Z) (w : view) : Prop :=
    exists nc n t pv, nthZ (cf_nodes cf) (j - 1) = Some nc /\ tgt nc = true /\ wnode w j = Some n /\ v_c n <> None /\
      In t (v_srv n) /\ s_cust t = Some v /\ (forall t', In t' (v_srv n) -> s_busy t' = true) /\
      In i (mem n) /\ fw w i = Some (None, pi, ppi) /\ hasprio (fw w) v pv /\ pi < pv /\
      (forall t' u pu, In t' (v_srv n) -> s_cust t' = Some u -> hasprio (fw w) u pu -> pu <= pv).

  Lemma pre_det fl j v i pi ppi qs w n sid p pp :
    idxv w -> J fl None [i] None [] w -> PreOK j v i pi ppi w -> QS j qs w -> wnode w j = Some n -> fw w v = Some (Some sid, p, pp) ->
    let w' := wputi (v, (None, p, pp)) (wputn (detn sid n) w) in
    J fl None [i] (Some (j, sid)) [] w' /\ AttOK cf j sid i [i] (Some (j, sid)) w' /\ W j i pi w' /\ QS j qs w' /\ Rp i pi ppi w'.
  Proof.
    intros HI HJ (nc & n0 & t & pv & Hnc & Htg & Hn0 & Hcn & Ht & Hcv & Hbusy & Him & Hfi & (sv1 & pp1 & Hpv) & Hlt & Hmax) (n1 & Hn1 & Eqs) Hn Hf w'.
    rewrite Hn in Hn0, Hn1. injection Hn0 as <-. injection Hn1 as <-. rewrite Hf in Hpv. injection Hpv as <- <- <-.
    pose proof (J_node _ _ _ _ _ _ _ _ _ _ HI HJ Hn Hnc Htg Hcn) as HN. cbn [vmof holeat] in HN.
    destruct (nj_lnk _ _ _ _ _ _ _ HN t v Ht Hcv) as [_ Hsid]. rewrite Hf in Hsid. cbn in Hsid. injection Hsid as ->.
    assert (Hvi : v <> i) by (intros ->; congruence).
    assert (Hnw : wnode w' j = Some (detn (s_id t) n)) by (unfold w'; rewrite wnode_wputi; eapply wnode_wputn; eauto).
    assert (Hfo : forall u, u <> v -> fw w' u = fw w u).
    { intros u Hu. unfold w'. rewrite fw_wputi, fw_wputn. destruct (v =? u) eqn:E; [apply Z.eqb_eq in E; congruence|reflexivity]. }
    split; [|split; [|split; [|split]]].
    - eapply J_det_pre; eauto.
    - exists (detn (s_id t) n), pi, ppi. split; [exact Hnw|]. split; [exact Him|]. split; [rewrite Hfo by auto; exact Hfi|].
      split; [right; apply holeat_same|]. split; [apply hlat_unset|]. intros _ _ _ _ F. exfalso. apply F. left. reflexivity.
    - intros n' u pu Hn' Hu Hne (pp' & Hw). rewrite Hnw in Hn'. injection Hn' as <-.
      destruct (Z.eq_dec u v) as [->|Huv].
      + unfold w' in Hw. rewrite fw_wputi, Z.eqb_refl in Hw. injection Hw as <- _. lia.
      + rewrite Hfo in Hw by exact Huv. assert (p <= pu); [|lia].
        eapply (nj_inv _ _ _ _ _ _ _ HN t v u p pu Ht Hcv); eauto.
        * intros [F|[]]. congruence.
        * intros [F|[]]. congruence.
        * exists (Some (s_id t)), pp. exact Hf.
        * exists pp'. exact Hw.
    - exists (detn (s_id t) n). split; [exact Hnw|exact Eqs].
    - exists None. rewrite Hfo by auto. exact Hfi.
  Qed.

  Lemma pre_step f j v i pi ppi qs fl :
    ht (fun w => J fl None [i] None [] w /\ PreOK j v i pi ppi w /\ QS j qs w)
       (preempt cf (S f) j v i)
       (fun _ w => J fl None [i] None [] w /\ (exists sid, fw w i = Some (Some sid, pi, ppi)) /\ W j i pi w /\ QS j qs w).
  Proof.
    cbn [preempt]. hK. hind vx. unfold ncfg_of. hliftc nc Hnc. hKi vx.
    destruct (nc_preempt nc =? 4) eqn:E4.
    { eapply ht_pre; [|apply ht_false]. intros w _ ((_ & (nc' & n & t & pv & Hnc' & Htg & _) & _) & _).
      rewrite Hnc in Hnc'. injection Hnc' as <-. apply Z.eqb_eq in E4.
      assert (Hp : nc_preempt nc <> 0) by (unfold tgt in Htg; apply andb_true_iff in Htg as [Hp _]; apply negb_true_iff, Z.eqb_neq in Hp; exact Hp).
      destruct (scope_pre cf HS j nc Hnc Hp) as [_ F]. contradiction. }
    eapply ht_bind with (Q := fun _ w => J fl None [i] (Some (j, numo (i_server vx))) [] w /\
                              (AttOK cf j (numo (i_server vx)) i [i] (Some (j, numo (i_server vx))) w /\ W j i pi w /\ QS j qs w /\ Rp i pi ppi w)).
    { hK. hK. hliftc sid Hsid. eapply ht_bind; [apply ht_detach|intros ?].
      eapply ht_pre; [|apply ht_decide_JR with (ce := []) (c := v); [apply vmat_none|repeat apply CI_and; auto using CI_AttOK, CI_W, CI_QS, CI_Rp]].
      intros w' _ (w & n & sv & p & pp & HI & ((HJ & HP & HQ) & [Hvid Hvf]) & Hn & Hf & ->). cbv beta.
      rewrite Hsid. cbn [numo]. rewrite Hsid in Hvf. rewrite Hvf in Hf. injection Hf as <- <- <-.
      destruct (pre_det fl j v i pi ppi qs w n sid _ _ HI HJ HP HQ Hn Hvf) as (A1 & A2 & A3 & A4 & A5).
      split; [exact A1|]. split; [intros c' []|]. auto. }
    intros ?. hliftc sid Hsid. rewrite Hsid. cbn [numo].
    eapply ht_post; [eapply ht_pre; [|apply ht_start_preemptor with (hole := Some (j, sid)) (R := fun w => W j i pi w /\ QS j qs w /\ Rp i pi ppi w)]|].
    - intros w _ (HJ & HA & HR). split; [exact HJ|split; [exact HA|exact HR]].
    - repeat apply CI_and; auto using CI_W, CI_QS, CI_Rp.
    - repeat apply AI_and; auto using AI_W, AI_QS, AI_Rp.
    - intros _ w _ (HJ & (HW & HQ & (sv & HR)) & (sid' & p' & pp' & HH)). split; [exact HJ|]. split; [|auto].
      rewrite HR in HH. injection HH as -> <- <-. eauto.
  Qed.

  (* ---------- exit ---------- *)
  Lemma ht_exit_accept fl i b : ht (fun w => J0 (i :: fl) w) (exit_accept i b) (fun _ w => J0 fl w).
  Proof.
    intros s u s' HI HJ E. unfold exit_accept in E. minv E u1 s1 E1. unfold del_ind in E1. apply modify_inv in E1. apply modify_inv in E.
    assert (EV : VW s' = set_is (VW s) (deliv i (w_is (VW s)))) by (subst; unfold VW; cbn; rewrite map_iv_del; reflexivity).
    rewrite EV. split; [exact HI|apply J_del; exact HJ].
  Qed.
  Lemma ht_ret_bind {X Y} P (a : X) (f : X -> M Y) R : ht P (f a) R -> ht P (bind (ret a) f) R.
  Proof. intros H s b s' HI HP E. eapply H; eauto. Qed.
  Lemma ht_pure {X} (phi : Prop) (P : view -> Prop) (m : M X) Q : (forall w, idxv w -> P w -> phi) -> (phi -> ht P m Q) -> ht P m Q.
  Proof. intros Hp Hm s a s' HI HP E. eapply Hm; eauto. Qed.

  (* ---------- accept: where the arriving customer stands, and how its exemption ends ---------- *)
  Definition Qi (j i : Z) (kq : nat) (c0 : option Z) (w : view) : Prop :=
    exists n q, wnode w j = Some n /\ nth_error (v_qs n) kq = Some q /\ In i q /\ v_c n = c0.
  Lemma CI_Qi j i kq c0 : CI j (Qi j i kq c0).
  Proof.
    intros w n r HI Hn (n' & q & Hn' & Hq & Hi & Hc). rewrite Hn in Hn'. injection Hn' as <-. exists (with_cci n r), q.
    split; [eapply wnode_wputn; eauto|]. auto.
  Qed.
  Lemma AI_Qi j c i kq c0 : AI j c (Qi j i kq c0).
  Proof.
    intros w n sid sv p pp HI Hn Hf (n' & q & Hn' & Hq & Hi & Hc). rewrite Hn in Hn'. injection Hn' as <-. exists (attn sid c n), q.
    split; [apply wnode_att; assumption|]. auto.
  Qed.
  Lemma Qi_Mi j i kq c0 w : Qi j i kq c0 w -> Mi j i w.
  Proof. intros (n & q & Hn & Hq & Hi & _). exists n. split; [exact Hn|eapply in_queue_mem; eauto]. Qed.

  Lemma fin_inact fl j i kq c0 w nc : idxv w -> J fl None [i] None [] w -> Qi j i kq c0 w -> nthZ (cf_nodes cf) (j - 1) = Some nc ->
    (tgt nc = false \/ c0 = None) -> J0 fl w.
  Proof.
    intros HI HJ (n & q & Hn & Hq & Hi & Hc) Hnc Hin. eapply J_unex_inact; eauto using vmat_none; [eapply in_queue_mem; eauto|].
    intros nc' Hnc' Ht. rewrite Hnc in Hnc'. injection Hnc' as <-. destruct Hin as [F|F]; congruence.
  Qed.
  Lemma fin_started fl j i kq c0 w : idxv w -> J fl None [i] None [] w -> Qi j i kq c0 w -> Rp i (Z.of_nat kq) (Z.of_nat kq) w -> HasSrv i w ->
    W j i (Z.of_nat kq) w -> J0 fl w.
  Proof.
    intros HI HJ (n & q & Hn & Hq & Hi & Hc) (sv & Hr) (sid & p & pp & Hs) HW. rewrite Hs in Hr. injection Hr as <- -> ->.
    eapply J_unex; eauto using vmat_none. intros nc Hnc Ht Hcn. split; [discriminate|].
    intros t u pu Ht' Hcu Hu Hwu. eapply HW; eauto. intros ->. destruct Hwu as (pp' & Hwu). congruence.
  Qed.
  Lemma fin_wait fl j i kq c0 w : idxv w -> J fl None [i] None [] w -> Qi j i kq c0 w -> Rp i (Z.of_nat kq) (Z.of_nat kq) w -> NH j i w ->
    (forall nc n, nthZ (cf_nodes cf) (j - 1) = Some nc -> tgt nc = true -> wnode w j = Some n -> v_c n <> None -> waitsv w i ->
       forall t, In t (v_srv n) -> s_busy t = true /\ forall v pv, s_cust t = Some v -> hasprio (fw w) v pv -> pv <= Z.of_nat kq) ->
    J0 fl w.
  Proof.
    intros HI HJ (n & q & Hn & Hq & Hi & Hc) (sv & Hr) HNH Hok.
    eapply J_unex; eauto using vmat_none. intros nc Hnc Ht Hcn. split.
    - intros ->. assert (Hwi : waitsv w i) by (eexists; eexists; exact Hr). split.
      + intros t v pv Ht' Hcv Hpv. destruct (Hok nc n Hnc Ht Hn Hcn Hwi t Ht') as [_ H]. eapply H; eauto.
      + intros t Ht' Hb. destruct (Hok nc n Hnc Ht Hn Hcn Hwi t Ht') as [H _]. congruence.
    - intros t u pu Ht' Hcu. exfalso. eapply HNH; eauto.
  Qed.

  Definition PreSpec (f : nat) : Prop := forall j v i pi ppi qs fl,
    ht (fun w => J fl None [i] None [] w /\ PreOK j v i pi ppi w /\ QS j qs w) (preempt cf f j v i)
       (fun _ w => J fl None [i] None [] w /\ (exists sid, fw w i = Some (Some sid, pi, ppi)) /\ W j i pi w /\ QS j qs w).

  (* the customer chosen stands in a class at least as urgent as that of any waiting customer *)
  Lemma chosen_first w j c n kq q i : Cn j (Some c) w -> wnode w j = Some n -> NoDup (mem n) -> nth_error (v_qs n) kq = Some q -> In i q -> waitsv w i ->
    exists kc qc, nth_error (v_qs n) kc = Some qc /\ In c qc /\ (kc <= kq)%nat /\ (c = i -> kc = kq).
  Proof.
    intros (n' & Hn' & kc & qc & Hqc & Hc & _ & Hbefore) Hn HN Hq Hi Hw. rewrite Hn in Hn'. injection Hn' as <-.
    exists kc, qc. split; [exact Hqc|]. split; [exact Hc|]. split.
    - destruct (Nat.lt_ge_cases kq kc) as [Hlt|Hge]; [|lia]. exfalso. eapply Hbefore; eauto.
    - intros ->. eapply concat_nodup_unique; eauto.
  Qed.

  Lemma acc_step f : PreSpec f -> forall j i fl, ht (fun w => J0 (i :: fl) w) (accept cf (S f) j i) (fun _ w => J0 fl w).
  Proof.
    intros IHp j i fl. rewrite Order2.accept_S. unfold Order2.accept_body, Order2.accept_tail. hind x. hnode nd.
    (* the record: previous priority class := priority class *)
    eapply ht_bind with (Q := fun _ w => J0 (i :: fl) w /\ cur j nd w /\ fw w i = Some (i_server x, i_prio x, i_prio x) /\ NH j i w).
    { eapply ht_post; [apply ht_put_ind|]. intros _ w' _ (w & HI & ((HJ & [Hxi Hxf]) & [Hid Hn]) & ->).
      match goal with |- context [wputi (iv ?z) _] => replace (iv z) with (i, (i_server x, i_prio x, i_prio x)) by (rewrite <- Hxi; reflexivity) end.
      split; [apply J_puti_fl; [exact HJ|left; reflexivity]|]. split; [split; [exact Hid|rewrite wnode_wputi; exact Hn]|].
      split; [rewrite fw_wputi, Z.eqb_refl; reflexivity|].
      intros nc n t Hnc Htg Hn' Hcn Ht Hcu. rewrite wnode_wputi in Hn'.
      pose proof (J_node _ _ _ _ _ _ _ _ _ _ HI HJ Hn' Hnc Htg Hcn) as HN. destruct (nj_lnk _ _ _ _ _ _ _ HN t i Ht Hcu) as [Ha _].
      cbn [vmof] in Ha. rewrite app_nil_r in Ha. eapply J_mem_notfl; eauto. left. reflexivity. }
    intros ?. apply ht_lift_bind. intros qs Hqs.
    destruct (nthZ (n_queues nd) (i_prio x)) as [q|] eqn:Eq; [|discriminate]. injection Hqs as <-.
    apply nthZ_nat in Eq as (kq & Ekq & Hq). rewrite Ekq, updZ_nat.
    set (c0 := n_c nd).
    (* the customer joins the tail of the queue of its class *)
    eapply ht_bind with (Q := fun _ w => J fl None [i] None [i] w /\ (Qi j i kq c0 w /\ Rp i (Z.of_nat kq) (Z.of_nat kq) w /\ NH j i w)).
    { eapply ht_post; [apply ht_put_node|]. intros _ w' _ (w & HI & (HJ & [Hid Hn] & Hfi & HNH) & ->).
      match goal with |- context [wputn (nv ?z) _] => replace (nv z) with (with_qs (nv nd) (upd (v_qs (nv nd)) kq (q ++ [i]))) by reflexivity end.
      split; [eapply J_enq; eauto|]. split; [|split].
      - exists (with_qs (nv nd) (upd (v_qs (nv nd)) kq (q ++ [i]))), (q ++ [i]). split; [eapply wnode_wputn; eauto|].
        split; [cbn [with_qs v_qs]; eapply nth_error_upd_eq; exact Hq|]. split; [apply in_or_app; right; left; reflexivity|reflexivity].
      - exists (i_server x). rewrite fw_wputn, Hfi. reflexivity.
      - intros nc n t Hnc Htg Hn' Hcn Ht. rewrite (wnode_wputn w j (nv nd) (with_qs (nv nd) (upd (v_qs (nv nd)) kq (q ++ [i]))) HI Hn eq_refl) in Hn'. injection Hn' as <-. eapply HNH; eauto. }
    intros ?. hK. hK. unfold ncfg_of. hliftc nc Hnc. hK.
    eapply ht_bind; [eapply ht_pre; [|apply ht_decide_JR with (ce := [i]) (R := fun w => Qi j i kq c0 w /\ Rp i (Z.of_nat kq) (Z.of_nat kq) w /\ NH j i w);
                                      [apply vmat_none|repeat apply CI_and; auto using CI_Qi, CI_Rp, CI_NH]]|].
    { intros w _ (HJ & HR). split; [exact HJ|]. split; [|exact HR]. intros c' [<-|[]]. left. eapply Qi_Mi. apply HR. }
    intros ?. hnode nd1. cbv zeta.
    assert (Hc01 : forall w, (Qi j i kq c0 w) -> cur j nd1 w -> n_c nd1 = c0).
    { intros w (n & q' & Hn & _ & _ & Hc) [_ Hn1]. rewrite Hn in Hn1. injection Hn1 as ->. exact Hc. }
    destruct (nd_inf nd1) eqn:Einf.
    - (* infinitely many servers *)
      apply ht_ret_bind.
      eapply ht_post; [eapply ht_pre; [|apply ht_start_fresh_none with (ex := [i]) (hole := None) (R := fun w => Qi j i kq c0 w /\ n_c nd1 = c0)]|].
      + intros w _ ((HJ & HR) & Hcur). split; [exact HJ|]. split; [eapply Qi_Mi; apply HR|]. split; [apply HR|]. eapply Hc01; eauto. apply HR.
      + apply CI_and; [apply CI_Qi|]. intros w n r _ _ H. exact H.
      + intros _ w HI (HJ & HQ & Hc). eapply fin_inact; eauto. right. rewrite <- Hc. unfold nd_inf in Einf. destruct (n_c nd1); [discriminate|reflexivity].
    - (* finitely many *)
      assert (Hfin : c0 <> None -> True) by auto.
      eapply ht_bind; [apply ht_choose|intros cand]. destruct cand as [c|].
      2:{ (* nobody waits, so the arriving customer does not wait either *)
          apply ht_ret'. intros w HI (((HJ & HQ & HR & HNH) & Hcur) & (n & Hn & Hnw)).
          eapply fin_wait; eauto. intros nc' n' _ _ Hn' _ Hwi. exfalso. rewrite Hn in Hn'. injection Hn' as <-.
          eapply Hnw; eauto. destruct (Qi_Mi _ _ _ _ _ HQ) as (n2 & Hn2 & Hm). rewrite Hn in Hn2. injection Hn2 as <-. exact Hm. }
      hind cx.
      destruct (find_free_server_for (nc_spf nc) (i_cls cx) (n_servers nd1)) as [sv|] eqn:Eff.
      + (* a free server *)
        destruct (ffs_some _ _ _ _ Eff) as [Hsv Hfree].
        destruct (tgt nc) eqn:Etg.
        * (* a node of the claim: nobody else waits, the customer chosen is the arriving one *)
          eapply ht_pure with (phi := c = i /\ n_c nd1 = c0).
          { intros w HI ((((HJ & HQ & HR & HNH) & [Hid Hn1]) & HCn) & _). split; [|eapply Hc01; eauto; split; assumption].
            destruct HCn as (n & Hn & kc & qc & Hqc & Hc & (pc & ppc & Hwc) & _). rewrite Hn1 in Hn. injection Hn as <-.
            assert (Hcn : v_c (nv nd1) <> None) by (cbn; unfold nd_inf in Einf; destruct (n_c nd1); [discriminate|discriminate]).
            pose proof (J_node _ _ _ _ _ _ _ _ _ _ HI HJ Hn1 Hnc Etg Hcn) as HN. cbn [vmof holeat] in HN.
            destruct (Z.eq_dec c i) as [E|E]; [exact E|]. exfalso.
            eapply (nj_idl _ _ _ _ _ _ _ HN (sc sv) c pc); eauto.
            - cbn [v_srv nv]. apply in_map. exact Hsv.
            - discriminate.
            - eapply in_queue_mem; eauto.
            - intros [F|[]]. congruence.
            - exists ppc. exact Hwc. }
          intros [-> Hc1].
          eapply ht_post; [eapply ht_pre; [|apply ht_start_fresh_some with (ex := [i]) (hole := None)
                 (R := fun w => Qi j i kq c0 w /\ Rp i (Z.of_nat kq) (Z.of_nat kq) w /\ W j i (Z.of_nat kq) w)]|].
          -- intros w HI ((((HJ & HQ & HR & HNH) & [Hid Hn1]) & HCn) & _). split; [exact HJ|]. split; [eapply chosen_AttOK; eauto using hlat_refl|].
             split; [exact HQ|]. split; [exact HR|].
             intros n u pu Hn Hu Hne Hwu. exfalso. rewrite Hn1 in Hn. injection Hn as <-.
             assert (Hcn : v_c (nv nd1) <> None) by (cbn; unfold nd_inf in Einf; destruct (n_c nd1); [discriminate|discriminate]).
             pose proof (J_node _ _ _ _ _ _ _ _ _ _ HI HJ Hn1 Hnc Etg Hcn) as HN. cbn [vmof holeat] in HN.
             eapply (nj_idl _ _ _ _ _ _ _ HN (sc sv) u pu); eauto.
             ++ cbn [v_srv nv]. apply in_map. exact Hsv.
             ++ discriminate.
             ++ intros [F|[]]. congruence.
          -- repeat apply CI_and; auto using CI_Qi, CI_Rp, CI_W.
          -- repeat apply AI_and; auto using AI_Qi, AI_Rp, AI_W.
          -- intros _ w HI (HJ & (HQ & HR & HW) & HH). eapply fin_started; eauto.
        * (* a node outside the claim *)
          eapply ht_post; [eapply ht_pre; [|apply ht_start_fresh_some with (ex := [i]) (hole := None) (R := fun w => Qi j i kq c0 w)]|].
          -- intros w HI ((((HJ & HQ & HR & HNH) & Hcur) & HCn) & _). split; [exact HJ|]. split; [eapply chosen_AttOK; eauto using hlat_refl|exact HQ].
          -- apply CI_Qi.
          -- apply AI_Qi.
          -- intros _ w HI (HJ & HQ & _). eapply fin_inact; eauto.
      + (* no free server *)
        pose proof (ffs_none _ _ _ Eff) as Hbusy.
        destruct (0 <? numo (n_c nd1)) eqn:Ec.
        * eapply ht_bind; [apply ht_victim|intros r]. destruct r as [vi|].
          -- (* a victim: the customer chosen is the arriving one *)
             eapply ht_pure with (phi := c = i /\ tgt nc = true /\ n_c nd1 = c0 /\ exists q', nth_error (n_queues nd1) kq = Some q' /\ In i q').
             { intros w HI (((((HJ & HQ & HR & HNH) & [Hid Hn1]) & HCn) & _) & (nc' & Hnc' & H0 & H1)).
               rewrite Hnc in Hnc'. injection Hnc' as <-.
               assert (Hp : nc_preempt nc <> 0) by (intros F; specialize (H0 F); discriminate).
               destruct (scope_pre cf HS j nc Hnc Hp) as [Htg _]. split; [|split; [exact Htg|split; [eapply Hc01; eauto; split; assumption|]]].
               2:{ destruct HQ as (n & q' & Hn & Hq' & Hi' & _). rewrite Hn1 in Hn. injection Hn as <-. eauto. }
               destruct (H1 Hp) as (n & pc & Hn & Hpc & _ & t & pv & Ht & Hcv & Hpv & Hlt & _). rewrite Hn1 in Hn. injection Hn as <-.
               assert (Hcn : v_c (nv nd1) <> None) by (cbn; unfold nd_inf in Einf; destruct (n_c nd1); [discriminate|discriminate]).
               pose proof (J_node _ _ _ _ _ _ _ _ _ _ HI HJ Hn1 Hnc Htg Hcn) as HN. cbn [vmof holeat] in HN.
               destruct HCn as (n & Hn & kc & qc & Hqc & Hc & (pc' & ppc & Hwc) & _). rewrite Hn1 in Hn. injection Hn as <-.
               destruct (Z.eq_dec c i) as [E|E]; [exact E|]. exfalso.
               assert (pv <= pc'); [|destruct Hpc as (sv0 & pp0 & Hpc); rewrite Hwc in Hpc; injection Hpc as _ <- _; lia].
               eapply (nj_inv _ _ _ _ _ _ _ HN t vi c pv pc' Ht Hcv); eauto.
               - intros [F|[]]. subst vi. eapply HNH; eauto.
               - eapply in_queue_mem; eauto.
               - intros [F|[]]. congruence.
               - exists ppc. exact Hwc. }
             intros (-> & Htg & Hc1 & q1 & Hq1 & Hi1).
             eapply ht_post; [eapply ht_pre; [|apply (IHp j vi i (Z.of_nat kq) (Z.of_nat kq) (n_queues nd1) fl)]|].
             ++ intros w HI (((((HJ & HQ & (svi & HR) & HNH) & [Hid Hn1]) & HCn) & _) & (nc' & Hnc' & H0 & H1)).
                rewrite Hnc in Hnc'. injection Hnc' as <-.
                assert (Hp : nc_preempt nc <> 0) by (intros F; specialize (H0 F); discriminate).
                destruct (H1 Hp) as (n & pc & Hn & Hpc & _ & t & pv & Ht & Hcv & Hpv & Hlt & Hmax). rewrite Hn1 in Hn. injection Hn as <-.
                destruct HCn as (n & Hn & kc & qc & Hqc & Hc & (pc' & ppc & Hwc) & _). rewrite Hn1 in Hn. injection Hn as <-.
                rewrite HR in Hwc. injection Hwc as -> <- <-. destruct Hpc as (sv0 & pp0 & Hpc). rewrite HR in Hpc. injection Hpc as _ <- _.
                split; [exact HJ|]. split; [|exists (nv nd1); split; [exact Hn1|reflexivity]].
                exists nc, (nv nd1), t, pv. split; [exact Hnc|]. split; [exact Htg|]. split; [exact Hn1|].
                split; [cbn; unfold nd_inf in Einf; destruct (n_c nd1); discriminate|]. split; [exact Ht|]. split; [exact Hcv|].
                split; [intros t' Ht'; cbn [v_srv nv] in Ht'; apply in_map_iff in Ht' as (sv' & <- & Hs'); apply Hbusy; exact Hs'|].
                split; [eapply in_queue_mem; eauto|]. split; [exact HR|]. split; [exact Hpv|]. split; [exact Hlt|exact Hmax].
             ++ intros _ w HI (HJ & (sid & Hs) & HW & (n & Hn & Eqs)).
                eapply J_unex with (kq := kq) (q := q1); eauto using vmat_none.
                ** rewrite Eqs. exact Hq1.
                ** intros nc' _ _ _. split; [discriminate|]. intros t u pu _ _ Hu Hwu. eapply HW; eauto. intros ->. destruct Hwu as (pp' & Hwu). congruence.
          -- (* nobody to pre-empt *)
             apply ht_ret'. intros w HI (((((HJ & HQ & HR & HNH) & [Hid Hn1]) & HCn) & _) & (nc' & Hnc' & H0 & H1)).
             rewrite Hnc in Hnc'. injection Hnc' as <-.
             eapply fin_wait; eauto. intros nc' n' Hnc' Htg Hn' Hcn Hwi t Ht. rewrite Hnc in Hnc'. injection Hnc' as <-.
             rewrite Hn1 in Hn'. injection Hn' as <-. split.
             { cbn [v_srv nv] in Ht. apply in_map_iff in Ht as (sv' & <- & Hs'). apply Hbusy. exact Hs'. }
             intros v pv Hcv Hpv.
             assert (Hp : nc_preempt nc <> 0) by (unfold tgt in Htg; apply andb_true_iff in Htg as [Hp _]; apply negb_true_iff, Z.eqb_neq in Hp; exact Hp).
             destruct (H1 Hp) as (n & pc & Hn & Hpc & _ & Hall). rewrite Hn1 in Hn. injection Hn as <-.
             specialize (Hall t v pv Ht Hcv Hpv).
             pose proof (J_node _ _ _ _ _ _ _ _ _ _ HI HJ Hn1 Hnc Htg Hcn) as HN. cbn [vmof holeat] in HN.
             destruct HQ as (n & q' & Hn & Hq' & Hi' & _). rewrite Hn1 in Hn. injection Hn as <-.
             destruct (chosen_first _ _ _ _ _ _ _ HCn Hn1 (J_mem_nodup _ _ _ _ _ _ _ _ _ HJ Hn1) Hq' Hi' Hwi) as (kc & qc & Hqc & Hc & Hle & Heq).
             destruct Hpc as (sv0 & pp0 & Hpc).
             destruct (Z.eq_dec c i) as [->|Hne].
             ++ destruct HR as (svi & HR). rewrite HR in Hpc. injection Hpc as _ <- _. exact Hall.
             ++ assert (Hcx : ~ In c [i]) by (intros [F|[]]; congruence).
                destruct (nj_cls _ _ _ _ _ _ _ HN kc qc c _ Hqc Hc Hcx Hpc) as [E1 _]. cbn in E1. lia.
        * (* c <= 0: no servers *)
          apply ht_ret'. intros w HI ((((HJ & HQ & HR & HNH) & [Hid Hn1]) & HCn) & _).
          eapply fin_wait; eauto. intros nc' n' Hnc' Htg Hn' Hcn Hwi t Ht. exfalso. rewrite Hnc in Hnc'. injection Hnc' as <-.
          rewrite Hn1 in Hn'. injection Hn' as <-.
          pose proof (J_node _ _ _ _ _ _ _ _ _ _ HI HJ Hn1 Hnc Htg Hcn) as HN. destruct (nj_z _ _ _ _ _ _ _ HN) as [E|E].
          -- rewrite E in Ht. destruct Ht.
          -- cbn [v_c nv] in E. apply Z.ltb_ge in Ec. lia.
  Qed.

  (* ---------- release ---------- *)
  Definition VC (j : Z) (c0 : option Z) (w : view) : Prop := exists n, wnode w j = Some n /\ v_c n = c0.

  Lemma rel_step f :
    (forall j i fl, ht (fun w => J0 (i :: fl) w) (accept cf f j i) (fun _ w => J0 fl w)) ->
    (forall j fl, ht (fun w => J0 fl w) (release_blocked_individual cf f j) (fun _ w => J0 fl w)) ->
    forall j i d fl, ht (fun w => J fl None [i] None [] w) (release cf (S f) j i d false) (fun _ w => J0 fl w).
  Proof.
    intros IHa IHb j i d fl. rewrite Order2.release_S. unfold Order2.release_body.
    hK. hind x. hnode nd. unfold ncfg_of. hliftc nc Hnc. hliftc q Hq. hliftc q' Hq'.
    apply nthZ_nat in Hq as (kq & Ekq & Hq). rewrite Ekq, updZ_nat. cbv zeta.
    (* the customer leaves its queue; it may still hold its server *)
    eapply ht_bind with (Q := fun _ w => J (i :: fl) (Some (j, i)) [i] None [] w /\ curi i x w /\ VC j (n_c nd) w).
    { eapply ht_post; [apply ht_put_node|]. intros _ w' _ (w & HI & ((HJ & Hx) & [Hid Hn]) & ->).
      match goal with |- context [wputn (nv ?z) _] => replace (nv z) with (with_qs (nv nd) (upd (v_qs (nv nd)) kq q')) by reflexivity end.
      split; [eapply J_deq; eauto|]. split; [exact Hx|]. exists (with_qs (nv nd) (upd (v_qs (nv nd)) kq q')). split; [eapply wnode_wputn; eauto|reflexivity]. }
    intros ?. hKi x. hK.
    eapply ht_bind with (Q := fun freed w => J (i :: fl) None [] (hfree j freed) [] w).
    { destruct (negb (nd_inf nd) && negb (nc_slotted nc)) eqn:Ek.
      - hind x1. hliftc sid Hsid. eapply ht_bind; [apply ht_detach|intros ?]. apply ht_ret'.
        intros w' _ (w & n & sv & p & pp & HI & ((HJ & _) & [Hx1 Hf1]) & Hn & Hf & ->).
        rewrite Hf1, Hsid in Hf. injection Hf as <- <- <-. rewrite Hsid in Hf1. cbn [hfree].
        pose proof (J_det_rel _ _ _ _ _ _ _ _ _ _ _ HI HJ Hn Hf1) as HJ1.
        apply J_ex_out with (i := i); [exact HJ1|]. eapply J_fl_notin; [exact HJ1|left; reflexivity].
      - apply ht_ret'. intros w HI (HJ & _ & (n & Hn & Hc)). cbn [hfree].
        assert (HJ1 : J (i :: fl) None [i] None [] w).
        { eapply J_vm_drop; eauto. intros nc' Hnc' Htg Hcn. exfalso. rewrite Hnc in Hnc'. injection Hnc' as <-.
          apply andb_false_iff in Ek as [Ek|Ek]; apply negb_false_iff in Ek.
          - apply Hcn. rewrite Hc. unfold nd_inf in Ek. destruct (n_c nd); [discriminate|reflexivity].
          - unfold nc_slotted in Ek. unfold tgt in Htg. destruct (nc_srv nc); try discriminate. rewrite andb_false_r in Htg. discriminate. }
        apply J_ex_out with (i := i); [exact HJ1|]. eapply J_fl_notin; [exact HJ1|left; reflexivity]. }
    intros freed.
    eapply ht_bind with (Q := fun _ w => J (i :: fl) None [] (hfree j freed) [] w).
    { destruct (nc_slotted nc); [|apply ht_ret'; auto]. unfold upd_ind. hind y. eapply ht_post; [apply ht_put_ind|].
      intros _ w' _ (w & HI & (HJ & [Hyi _]) & ->).
      match goal with |- context [wputi (iv ?z) _] => replace (iv z) with (i, (None : option Z, i_prio y, i_pprio y)) by (rewrite <- Hyi; reflexivity) end.
      apply J_puti_fl; [exact HJ|left; reflexivity]. }
    intros ?. hK.
    eapply ht_bind with (Q := fun _ w => J0 (i :: fl) w).
    { eapply ht_post; [eapply ht_pre; [|apply ht_bsip_release with (R := fun _ => True); [apply CI_true|intros c; apply AI_true]]|].
      - intros w _ HJ. split; [exact HJ|exact I].
      - intros _ w _ [HJ _]. exact HJ. }
    intros ?.
    eapply ht_bind with (Q := fun _ w => J0 fl w).
    { destruct (d =? -1); [apply ht_exit_accept|apply IHa]. }
    intros ?. apply IHb.
  Qed.

  (* ---------- release_blocked_individual ---------- *)
  Lemma rbi_step f :
    (forall j i d fl, ht (fun w => J fl None [i] None [] w) (release cf f j i d false) (fun _ w => J0 fl w)) ->
    forall j fl, ht (fun w => J0 fl w) (release_blocked_individual cf (S f) j) (fun _ w => J0 fl w).
  Proof.
    intros IHr j fl. rewrite Order2.rbi_S. unfold Order2.rbi_body.
    hnode nd. hK.
    match goal with |- ht _ (if ?c then _ else _) _ => destruct c end; [|apply ht_ret'; intros w _ [H _]; exact H].
    destruct (n_bq nd) as [|[from y] rest]; [apply ht_fail|].
    hnode fnd. hK.
    eapply ht_bind; [eapply ht_KKw with (K := fun w => okn w nd) (Q := fun w => J0 fl w);
                     [pva|intros w Hw; destruct Hw as [[_ Hc] _]; eapply cur_okn; exact Hc|intros w _ Hw; apply Hw]|intros ?].
    hind yx.
    eapply ht_bind with (Q := fun _ w => J0 fl w).
    { destruct (i_interrupted yx).
      - hliftc os Hos. hliftc ot Hot. hKi yx. hnode fnd2. hliftc l' Hl'.
        eapply ht_pre; [|apply ht_false]. intros w _ ((HJ & _) & [_ Hn2]). pose proof (J_int _ _ _ _ _ _ _ _ _ HJ Hn2) as E. cbn in E. rewrite E in Hl'. discriminate.
      - apply ht_ret'. intros w _ [H _]. exact H. }
    intros ?. eapply ht_pre; [|apply IHr]. intros w _ HJ. eapply J_ex_weak; [exact HJ|]. intros u [].
  Qed.

  (* ---------- the four functions together, by induction on the fuel ---------- *)
  Definition AccSpec (f : nat) : Prop := forall j i fl, ht (fun w => J0 (i :: fl) w) (accept cf f j i) (fun _ w => J0 fl w).
  Definition RelSpec (f : nat) : Prop := forall j i d fl, ht (fun w => J fl None [i] None [] w) (release cf f j i d false) (fun _ w => J0 fl w).
  Definition RbiSpec (f : nat) : Prop := forall j fl, ht (fun w => J0 fl w) (release_blocked_individual cf f j) (fun _ w => J0 fl w).
  Theorem core_spec f : AccSpec f /\ RelSpec f /\ RbiSpec f /\ PreSpec f.
  Proof.
    induction f as [|f (IHa & IHr & IHb & IHp)].
    - split; [|split; [|split]]; [intros j i fl|intros j i d fl|intros j fl|intros j v i pi ppi qs fl]; apply ht_oof.
    - split; [|split; [|split]].
      + exact (acc_step f IHp).
      + exact (rel_step f IHa IHb).
      + exact (rbi_step f IHr).
      + intros j v i pi ppi qs fl. apply pre_step.
  Qed.
End Rec.


(* ====================================================================================================================== *)
(* Part 8.  The event functions                                                                                          *)
(* ====================================================================================================================== *)
Section Ev.
  Variable cf : config.
  Hypothesis HS : inv_scope cf = true.
  Notation J := (J cf).
  Notation J0 fl := (J fl None [] None []).

  Ltac hKi x := eapply ht_bind; [eapply ht_KKw with (K := fun w => oki w x); [pva|intros w Hw; eapply curi_oki; apply Hw|intros w _ Hw; exact Hw]|intros ?].

  Lemma J_recs_act fl vm ex hole ce w w' : J fl vm ex hole ce w -> w_ns w' = w_ns w -> w_cr w <= w_cr w' ->
    (forall k nc n u, nth_error (cf_nodes cf) k = Some nc -> nth_error (w_ns w) k = Some n -> tgt nc = true -> v_c n <> None ->
       In u (mem n ++ vmof vm (v_id n)) -> fw w' u = fw w u \/ (In u ex /\ srvof (fw w' u) = srvof (fw w u))) ->
    J fl vm ex hole ce w'.
  Proof.
    intros (H1 & H2 & H3 & H4) Ens Hcr Hf. assert (Eq : allq w' = allq w) by (unfold allq; rewrite Ens; reflexivity).
    split; [rewrite Eq; exact H1|]. split; [intros i Hi; rewrite Eq in Hi; specialize (H2 i Hi); lia|]. split; [rewrite Ens; exact H3|].
    intros k nc n Hc Hk Ht Hcn. rewrite Ens in Hk. eapply NodeJ_mono; [exact (H4 k nc n Hc Hk Ht Hcn)| | |]; auto.
    intros u Hu. eapply Hf; eauto.
  Qed.
  (* a record whose two priority fields are overwritten by one of them: nothing changes for a customer of a node of the claim *)
  Lemma J_puti_pp fl hole ce w i sv p pp a b : J fl None [] hole ce w -> fw w i = Some (sv, p, pp) -> (a = p \/ a = pp) -> (b = p \/ b = pp) ->
    J fl None [] hole ce (wputi (i, (sv, a, b)) w).
  Proof.
    intros HJ Hf Ha Hb. eapply J_recs_act; [exact HJ|reflexivity|cbn; lia|].
    intros k nc n u Hc Hk Ht Hcn Hu. left. rewrite fw_wputi. destruct (i =? u) eqn:E; [|reflexivity]. apply Z.eqb_eq in E. subst u.
    cbn [vmof] in Hu. rewrite app_nil_r in Hu. destruct HJ as (_ & _ & _ & H4). pose proof (H4 k nc n Hc Hk Ht Hcn) as HN.
    destruct (mem_queue _ _ Hu) as (kq & q & Hq & Hi). destruct (nj_cls _ _ _ _ _ _ _ HN kq q i _ Hq Hi (fun F => F) Hf) as [E1 E2].
    cbn in E1, E2. rewrite Hf. f_equal. f_equal; [f_equal|]; lia.
  Qed.

  Lemma ht_has_space P d : ht P (has_space cf d) (fun b w => P w /\ b = true).
  Proof.
    unfold has_space. destruct (d =? -1); [apply ht_ret|]. hnode dn. unfold ncfg_of. hliftc dc Hdc.
    apply ht_ret'. intros w _ [HP _]. split; [exact HP|]. rewrite (scope_cap cf HS d dc Hdc). reflexivity.
  Qed.
  Lemma ht_decide_between P l : ht P (decide_between l) (fun a w => P w /\ In a l).
  Proof.
    unfold decide_between. destruct l as [|a [|b r]]; [apply ht_fail|apply ht_ret'; intros w _ HP; split; [exact HP|left; reflexivity]|].
    unfold choice_uniform. hK. eapply ht_post; [apply ht_lift|]. intros x w _ [HP Hx]. split; [exact HP|]. eapply nth_error_In; eauto.
  Qed.
  Lemma ht_change_customer_class fl j i : ht (fun w => J0 fl w) (change_customer_class cf j i) (fun _ w => J fl None [i] None [] w).
  Proof.
    unfold change_customer_class, ncfg_of. hliftc nc Hnc. hind x.
    destruct (nc_ccm nc) as [m|]; [|apply ht_ret'; intros w _ [HJ _]; eapply J_ex_weak; [exact HJ|intros u []]].
    hK. hK. hliftc p' Hp'. eapply ht_post; [apply ht_put_ind|]. intros _ w' _ (w & HI & (HJ & [Hxi Hxf]) & ->).
    match goal with |- context [wputi (iv ?z) _] => replace (iv z) with (i, (i_server x, p', i_prio x)) by (rewrite <- Hxi; reflexivity) end.
    eapply J_puti_ex; [eapply J_ex_weak; [exact HJ|intros u []]|left; reflexivity|exact Hxf].
  Qed.

  Lemma ht_finish_service fl j : ht (fun w => J0 fl w) (finish_service cf j) (fun _ w => J0 fl w).
  Proof.
    unfold finish_service. hnode nd. hK.
    eapply ht_bind; [eapply ht_pre; [|apply ht_change_customer_class]; intros w _ H; apply H|intros ?].
    hK. hK. hK. hK.
    eapply ht_bind; [apply ht_has_space|intros space].
    eapply ht_pure with (phi := space = true); [intros w _ [_ H]; exact H|intros ->].
    eapply ht_bind; [apply ht_gets|intros fu]. eapply ht_pre; [|apply (core_spec cf HS fu)]. intros w _ [H _]. exact H.
  Qed.

  (* ---------- the candidates of the next event ---------- *)
  Definition NXT (w : view) : Prop := forall k nc n, nth_error (cf_nodes cf) k = Some nc -> nth_error (w_ns w) k = Some n -> tgt nc = true -> v_c n <> None ->
    (v_nty n = 2 \/ v_nty n = 3) -> forall i, In i (v_nxi n) -> In i (mem n) -> srvof (fw w i) = None.
  Definition NTy (j ty : Z) (w : view) : Prop := exists n, wnode w j = Some n /\ v_nty n = ty.
  Lemma NXT_at w j n nc i : idxv w -> NXT w -> wnode w j = Some n -> nthZ (cf_nodes cf) (j - 1) = Some nc -> tgt nc = true -> v_c n <> None ->
    (v_nty n = 2 \/ v_nty n = 3) -> In i (v_nxi n) -> In i (mem n) -> srvof (fw w i) = None.
  Proof.
    intros HI HX Hn Hc Ht Hcn Hty Hi Hm. destruct (wnode_nth _ _ _ Hn) as (k & Hjk & Hk). rewrite Hjk, nthZ_of_nat in Hc. eapply HX; eauto.
  Qed.

  Lemma ht_renege fl j : ht (fun w => J0 fl w /\ NXT w /\ NTy j 2 w) (renege cf j) (fun _ w => J0 fl w).
  Proof.
    unfold renege. hK. hnode nd. eapply ht_bind; [apply ht_decide_between|intros i]. hK. hK. hind x. hnode nd1. hliftc q Hq. hliftc q' Hq'.
    apply nthZ_nat in Hq as (kq & Ekq & Hq). rewrite Ekq, updZ_nat. cbv zeta.
    eapply ht_bind with (Q := fun _ w => J0 (i :: fl) w).
    { eapply ht_post; [apply ht_put_node|]. intros _ w' _ (w & HI & (((((HJ & HX & (n & Hn & Hty)) & [Hid Hnd]) & Hil) & Hx) & [Hid1 Hn1]) & ->).
      match goal with |- context [wputn (nv ?z) _] => replace (nv z) with (with_qs (nv nd1) (upd (v_qs (nv nd1)) kq q')) by reflexivity end.
      pose proof (J_deq cf _ _ _ _ _ _ _ _ _ _ HI HJ Hn1 Hq Hq') as HJ1.
      eapply J_vm_drop; [apply idxv_wputn; exact HI|exact HJ1|eapply wnode_wputn; eauto|].
      intros nc Hnc Htg Hcn. rewrite fw_wputn. cbn [with_qs v_c] in Hcn.
      rewrite Hn in Hn1, Hnd. injection Hn1 as ->. assert (E : nv nd = nv nd1) by congruence.
      eapply NXT_at; eauto.
      - apply (f_equal v_nxi) in E. cbn in E. cbn. rewrite <- E. exact Hil.
      - eapply in_queue_mem; [exact Hq|]. eapply remove_first_in; eauto. }
    intros ?.
    eapply ht_bind with (Q := fun _ w => J0 (i :: fl) w).
    { eapply ht_post; [eapply ht_pre; [|apply ht_reset_JR with (ce := []) (R := fun _ => True); [apply vmat_none|intros c' []|apply CI_true]]|].
      - intros w _ HJ. split; [exact HJ|]. split; [right; left; reflexivity|exact I].
      - intros _ w _ [HJ _]. exact HJ. }
    intros ?. hK. hK. hK.
    eapply ht_bind; [apply ht_gets|intros fu].
    eapply ht_bind with (Q := fun _ w => J0 fl w).
    { match goal with |- ht _ (if ?c then _ else _) _ => destruct c end; [apply ht_exit_accept|apply (core_spec cf HS fu)]. }
    intros ?. apply (core_spec cf HS fu).
  Qed.

  (* ---------- class change while waiting ---------- *)
  Lemma J_ce_drop_wait fl vm ex hole ce w j n i : idxv w -> J fl vm ex hole (i :: ce) w -> wnode w j = Some n -> vmat vm j -> In i (mem n) ->
    (forall nc, nthZ (cf_nodes cf) (j - 1) = Some nc -> tgt nc = true -> v_c n <> None -> srvof (fw w i) = None) -> J fl vm ex hole ce w.
  Proof.
    intros HI HJ Hn Hv Hi Hs. eapply J_same; try exact HJ; try exact Hn; auto using hlat_refl.
    - intros u [<-|Hu]; [right; apply in_or_app; left; exact Hi|left; exact Hu].
    - intros nc Hnc Ht Hcn [H1 H2 H3 H4 H5 H6 H7]. constructor; auto. intros Hd k Hk Hkm Hkc.
      destruct (Z.eq_dec k i) as [->|Hne]; [eapply Hs; eauto|]. apply (H7 Hd k Hk Hkm). intros [F|F]; [congruence|contradiction].
  Qed.

  Definition actb (j : Z) (nd : node) : bool :=
    match nthZ (cf_nodes cf) (j - 1) with Some nc => tgt nc && match n_c nd with Some _ => true | None => false end | None => false end.
  Lemma actb_false j nd nc : actb j nd = false -> nthZ (cf_nodes cf) (j - 1) = Some nc -> tgt nc = false \/ n_c nd = None.
  Proof. unfold actb. intros H E. rewrite E in H. destruct (tgt nc); [right|left; reflexivity]. destruct (n_c nd); [discriminate|reflexivity]. Qed.
  Lemma actb_true j nd : actb j nd = true -> exists nc, nthZ (cf_nodes cf) (j - 1) = Some nc /\ tgt nc = true /\ n_c nd <> None.
  Proof.
    unfold actb. destruct (nthZ (cf_nodes cf) (j - 1)) as [nc|]; [|discriminate]. intros H. apply andb_true_iff in H as [H1 H2].
    exists nc. split; [reflexivity|]. split; [exact H1|]. destruct (n_c nd); [discriminate|discriminate].
  Qed.

  (* what the invariant says about the candidate before anything is written *)
  Lemma ccww_phi fl w j nd i x : idxv w -> J0 fl w -> NXT w -> NTy j 3 w -> cur j nd w -> curi i x w -> hd_error (n_next_inds nd) = Some i ->
    actb j nd = true -> In i (concat (n_queues nd)) ->
    i_server x = None /\ forall sv, In sv (n_servers nd) -> sv_busy sv = true /\ sv_cust sv <> Some i.
  Proof.
    intros HI HJ HX (n & Hn & Hty) [Hid Hnd] [Hxi Hxf] Hhd Ha Hm. rewrite Hnd in Hn. injection Hn as <-.
    destruct (actb_true _ _ Ha) as (nc & Hnc & Htg & Hcn).
    assert (Hs : srvof (fw w i) = None).
    { eapply NXT_at; eauto. cbn. destruct (n_next_inds nd); [discriminate|]. injection Hhd as ->. left. reflexivity. }
    rewrite Hxf in Hs. cbn in Hs. split; [exact Hs|].
    pose proof (J_node _ _ _ _ _ _ _ _ _ _ HI HJ Hnd Hnc Htg Hcn) as HN. cbn [vmof holeat] in HN.
    intros sv Hsv. assert (Ht : In (sc sv) (v_srv (nv nd))) by (cbn; apply in_map; exact Hsv). split.
    - destruct (sv_busy sv) eqn:Eb; [reflexivity|]. exfalso.
      eapply (nj_idl _ _ _ _ _ _ _ HN (sc sv) i (i_prio x)); eauto; [discriminate|]. exists (i_pprio x). rewrite Hxf, Hs. reflexivity.
    - intros F. destruct (nj_lnk _ _ _ _ _ _ _ HN (sc sv) i Ht F) as [_ Hb]. rewrite Hxf in Hb. cbn in Hb. congruence.
  Qed.

  (* the state after the move (and the pre-emption it may have triggered), at a node of the claim *)
  Definition FinOK (j i : Z) (k2 : nat) (w : view) : Prop :=
    exists n, wnode w j = Some n /\
      ((srvof (fw w i) <> None /\ W j i (Z.of_nat k2) w) \/
       (srvof (fw w i) = None /\ forall t, In t (v_srv n) -> s_busy t = true /\ s_cust t <> Some i /\
                                   forall v pv, s_cust t = Some v -> hasprio (fw w) v pv -> pv <= Z.of_nat k2)).

  Lemma ccww_tail fl j i k2 c0 ncls pp0 :
    ht (fun w => J fl None [i] None [] w /\ Qi j i k2 c0 w /\ Rp i (Z.of_nat k2) pp0 w /\
                 ((forall nc, nthZ (cf_nodes cf) (j - 1) = Some nc -> tgt nc = false \/ c0 = None) \/ FinOK j i k2 w))
       (upd_ind i (fun y => y <| i_pcls := ncls |> <| i_pprio := i_prio y |>) ;;; decide_class_change cf j i)
       (fun _ w => J0 fl w).
  Proof.
    eapply ht_bind with (Q := fun _ w => J0 fl w).
    { unfold upd_ind. hind y. eapply ht_post; [apply ht_put_ind|]. intros _ w' _ (w & HI & ((HJ & HQ & (sv & HR) & HF) & [Hyi Hyf]) & ->).
      rewrite HR in Hyf. injection Hyf as E1 E2 E3.
      match goal with |- context [wputi (iv ?z) _] => replace (iv z) with (i, (sv, Z.of_nat k2, Z.of_nat k2)) by (rewrite <- Hyi, E1, E2; reflexivity) end.
      set (w' := wputi (i, (sv, Z.of_nat k2, Z.of_nat k2)) w).
      assert (HJ1 : J fl None [i] None [] w') by (eapply J_puti_ex; [exact HJ|left; reflexivity|exact HR]).
      assert (HQ1 : Qi j i k2 c0 w') by exact HQ.
      assert (Hfi : fw w' i = Some (sv, Z.of_nat k2, Z.of_nat k2)) by (unfold w'; rewrite fw_wputi, Z.eqb_refl; reflexivity).
      assert (Hfo : forall u, u <> i -> fw w' u = fw w u).
      { intros u Hu. unfold w'. rewrite fw_wputi. destruct (i =? u) eqn:E; [apply Z.eqb_eq in E; congruence|reflexivity]. }
      destruct HF as [Hin|(n & Hn & HF)].
      - destruct HQ1 as (n1 & q1 & Hn1 & Hq1 & Hi1 & Hc1). destruct (nthZ (cf_nodes cf) (j - 1)) as [nc|] eqn:Enc.
        + eapply fin_inact; eauto.
        + eapply J_unex_inact; eauto using vmat_none; [eapply in_queue_mem; eauto|]. intros nc F. congruence.
      - destruct HQ1 as (n1 & q1 & Hn1 & Hq1 & Hi1 & Hc1). assert (n1 = n) by (unfold w' in Hn1; rewrite wnode_wputi in Hn1; congruence). subst n1.
        eapply J_unex with (kq := k2) (q := q1) (sv := sv); eauto using vmat_none.
        intros nc Hnc Htg Hcn. destruct HF as [[Hs HW]|[Hs Hall]].
        + split; [intros ->; rewrite HR in Hs; cbn in Hs; congruence|].
          intros t u pu Ht Hcu Hu (pp' & Hwu). assert (Hui : u <> i) by (intros ->; rewrite Hfi in Hwu; injection Hwu as ->; rewrite HR in Hs; cbn in Hs; congruence).
          rewrite Hfo in Hwu by exact Hui. eapply HW; eauto. exists pp'. exact Hwu.
        + split.
          * intros _. split.
            -- intros t v pv Ht Hcv (sv1 & pp1 & Hpv). destruct (Hall t Ht) as (_ & Hni & Hle). assert (Hvi : v <> i) by congruence.
               rewrite Hfo in Hpv by exact Hvi. eapply Hle; eauto. exists sv1, pp1. exact Hpv.
            -- intros t Ht Hb. destruct (Hall t Ht) as (Hb' & _). congruence.
          * intros t u pu Ht Hcu. destruct (Hall t Ht) as (_ & Hni & _). contradiction. }
    intros ?. eapply ht_post; [eapply ht_pre; [|apply ht_decide_JR with (ce := []) (R := fun _ => True); [apply vmat_none|apply CI_true]]|].
    - intros w _ HJ. split; [exact HJ|]. split; [intros c' []|exact I].
    - intros _ w _ [HJ _]. exact HJ.
  Qed.

  Lemma ht_ex {X Y} (P : Y -> view -> Prop) (m : M X) Q : (forall y, ht (P y) m Q) -> ht (fun w => exists y, P y w) m Q.
  Proof. intros H s a s' HI [y HP] E. eapply H; eauto. Qed.
  Definition TailPre (fl : list Z) (j i : Z) (w : view) : Prop :=
    exists k2, exists pp0, exists c0, J fl None [i] None [] w /\ Qi j i k2 c0 w /\ Rp i (Z.of_nat k2) pp0 w /\
      ((forall nc, nthZ (cf_nodes cf) (j - 1) = Some nc -> tgt nc = false \/ c0 = None) \/ FinOK j i k2 w).
  Lemma ccww_tail' fl j i ncls :
    ht (TailPre fl j i) (upd_ind i (fun y => y <| i_pcls := ncls |> <| i_pprio := i_prio y |>) ;;; decide_class_change cf j i) (fun _ w => J0 fl w).
  Proof. unfold TailPre. apply ht_ex. intros k2. apply ht_ex. intros pp0. apply ht_ex. intros c0. apply ccww_tail. Qed.

  Lemma actb_intro j nd nc : nthZ (cf_nodes cf) (j - 1) = Some nc -> tgt nc = true -> n_c nd <> None -> actb j nd = true.
  Proof. intros H1 H2 H3. unfold actb. rewrite H1, H2. destruct (n_c nd); [reflexivity|congruence]. Qed.

  Lemma ht_ccww fl j : ht (fun w => J0 fl w /\ NXT w /\ NTy j 3 w) (change_customer_class_while_waiting cf j) (fun _ w => J0 fl w).
  Proof.
    unfold change_customer_class_while_waiting. hnode nd. hliftc i Hi. hind x. hliftc ncls Hncls. hliftc p' Hp'.
    destruct (p' =? i_pprio x) eqn:Ep; cbn [negb].
    - (* the priority class stays *)
      apply Z.eqb_eq in Ep.
      eapply ht_bind with (Q := fun _ w => J0 fl w).
      { eapply ht_post; [apply ht_put_ind|]. intros _ w' _ (w & HI & (((HJ & _) & _) & [Hxi Hxf]) & ->).
        match goal with |- context [wputi (iv ?z) _] => replace (iv z) with (i, (i_server x, p', i_pprio x)) by (rewrite <- Hxi; reflexivity) end.
        eapply J_puti_pp; [exact HJ|exact Hxf|right; exact Ep|right; reflexivity]. }
      intros ?. apply ht_ret_bind.
      eapply ht_bind with (Q := fun _ w => J0 fl w).
      { unfold upd_ind. hind y. eapply ht_post; [apply ht_put_ind|]. intros _ w' _ (w & HI & (HJ & [Hyi Hyf]) & ->).
        match goal with |- context [wputi (iv ?z) _] => replace (iv z) with (i, (i_server y, i_prio y, i_prio y)) by (rewrite <- Hyi; reflexivity) end.
        eapply J_puti_pp; [exact HJ|exact Hyf|left; reflexivity|left; reflexivity]. }
      intros ?. eapply ht_post; [eapply ht_pre; [|apply ht_decide_JR with (ce := []) (R := fun _ => True); [apply vmat_none|apply CI_true]]|].
      + intros w _ HJ. split; [exact HJ|]. split; [intros c' []|exact I].
      + intros _ w _ [HJ _]. exact HJ.
    - (* it changes: the customer moves to the tail of the queue of its new class *)
      apply Z.eqb_neq in Ep.
      eapply ht_pure with (phi := actb j nd = true -> In i (concat (n_queues nd)) ->
                                  i_server x = None /\ forall sv, In sv (n_servers nd) -> sv_busy sv = true /\ sv_cust sv <> Some i).
      { intros w HI (((HJ & HX & HT) & Hcur) & Hcx) Ha Hm. eapply ccww_phi; eauto. }
      intros Hphi.
      eapply ht_bind with (Q := fun _ w => J fl None [i] None [] w /\ cur j nd w /\ fw w i = Some (i_server x, p', i_pprio x)).
      { eapply ht_post; [apply ht_put_ind|]. intros _ w' _ (w & HI & (((HJ & _) & Hcur) & [Hxi Hxf]) & ->).
        match goal with |- context [wputi (iv ?z) _] => replace (iv z) with (i, (i_server x, p', i_pprio x)) by (rewrite <- Hxi; reflexivity) end.
        split; [eapply J_puti_ex; [eapply J_ex_weak; [exact HJ|intros u []]|left; reflexivity|exact Hxf]|].
        split; [destruct Hcur as [Hid Hn]; split; [exact Hid|rewrite wnode_wputi; exact Hn]|]. rewrite fw_wputi, Z.eqb_refl. reflexivity. }
      intros ?. eapply ht_bind with (Q := fun _ w => TailPre fl j i w); [|intros ?; apply ccww_tail'].
      hliftc q Hq. hliftc q' Hq'. apply nthZ_nat in Hq as (k1 & Ek1 & Hq). rewrite Ek1, updZ_nat. cbv zeta.
      hliftc qn Hqn. apply nthZ_nat in Hqn as (k2 & Ek2 & Hqn). rewrite Ek2, updZ_nat.
      assert (Him : In i (concat (n_queues nd))) by (apply in_concat; exists q; split; [eapply nth_error_In; eauto|eapply remove_first_in; eauto]).
      set (qs2 := upd (upd (n_queues nd) k1 q') k2 (qn ++ [i])).
      assert (Hact : forall nc, nthZ (cf_nodes cf) (j - 1) = Some nc -> tgt nc = true -> n_c nd <> None ->
                       i_server x = None /\ forall sv, In sv (n_servers nd) -> sv_busy sv = true /\ sv_cust sv <> Some i).
      { intros nc Hnc Htg Hcn. apply Hphi; [eapply actb_intro; eauto|exact Him]. }
      eapply ht_bind with (Q := fun _ w => J fl None [i] None [] w /\ wnode w j = Some (with_qs (nv nd) qs2) /\
                                            fw w i = Some (i_server x, Z.of_nat k2, Z.of_nat k1)).
      { eapply ht_post; [apply ht_put_node|]. intros _ w' _ (w & HI & (HJ & [Hid Hn] & Hfi) & ->).
        match goal with |- context [wputn (nv ?z) _] => replace (nv z) with (with_qs (nv nd) qs2) by reflexivity end.
        set (n1 := with_qs (nv nd) (upd (v_qs (nv nd)) k1 q')).
        pose proof (J_deq cf _ _ _ _ _ _ _ _ _ _ HI HJ Hn Hq Hq') as HJ1. fold n1 in HJ1.
        assert (HI1 : idxv (wputn n1 w)) by (apply idxv_wputn; exact HI).
        assert (Hn1 : wnode (wputn n1 w) j = Some n1) by (eapply wnode_wputn; eauto).
        assert (HJ2 : J (i :: fl) None [i] None [] (wputn n1 w)).
        { eapply J_vm_drop; eauto. intros nc Hnc Htg Hcn. rewrite fw_wputn, Hfi. cbn. apply (Hact nc Hnc Htg Hcn). }
        pose proof (J_enq cf _ _ _ _ _ _ k2 qn i HI1 HJ2 Hn1 Hqn) as HJ3.
        rewrite wputn_wputn in HJ3 by reflexivity.
        change (with_qs n1 (upd (v_qs n1) k2 (qn ++ [i]))) with (with_qs (nv nd) qs2) in HJ3.
        assert (Hn2 : wnode (wputn (with_qs (nv nd) qs2) w) j = Some (with_qs (nv nd) qs2)) by (eapply wnode_wputn; eauto).
        split; [|split; [exact Hn2|rewrite fw_wputn; exact Hfi]].
        eapply J_ce_drop_wait with (i := i); [apply idxv_wputn; exact HI| |exact Hn2|apply vmat_none| |].
        - eapply J_ex_weak; [exact HJ3|]. intros u [<-|Hu]; [left; reflexivity|exact Hu].
        - eapply in_queue_mem with (k := k2); [cbn [with_qs v_qs]; unfold qs2; eapply nth_error_upd_eq; exact Hqn|]. apply in_or_app. right. left. reflexivity.
        - intros nc Hnc Htg Hcn. rewrite fw_wputn, Hfi. cbn. apply (Hact nc Hnc Htg Hcn). }
      intros ?.
      assert (HQi : forall w, wnode w j = Some (with_qs (nv nd) qs2) -> Qi j i k2 (n_c nd) w).
      { intros w Hn. exists (with_qs (nv nd) qs2), (qn ++ [i]). split; [exact Hn|]. split; [cbn [with_qs v_qs]; unfold qs2; eapply nth_error_upd_eq; exact Hqn|].
        split; [apply in_or_app; right; left; reflexivity|reflexivity]. }
      destruct (actb j nd) eqn:Ea.
      2:{ (* a node outside the claim *)
          assert (Hin : forall nc, nthZ (cf_nodes cf) (j - 1) = Some nc -> tgt nc = false \/ n_c nd = None) by (intros nc; apply actb_false; exact Ea).
          assert (Hfin : forall w, idxv w -> J fl None [i] None [] w /\ wnode w j = Some (with_qs (nv nd) qs2) /\ fw w i = Some (i_server x, Z.of_nat k2, Z.of_nat k1) ->
                    TailPre fl j i w).
          { intros w _ (HJ & Hn & Hfi). exists k2, (Z.of_nat k1), (n_c nd). split; [exact HJ|]. split; [apply HQi; exact Hn|]. split; [eexists; exact Hfi|left; exact Hin]. }
          destruct (negb (nd_inf nd) && (0 <? numo (n_c nd))) eqn:Ef; [|apply ht_ret'; exact Hfin].
          eapply ht_bind; [apply ht_victim|intros r].
          eapply ht_pure with (phi := r = None).
          { intros w _ (_ & (nc & Hnc & H0 & H1)). apply H0. destruct (Hin nc Hnc) as [F|F]; [eapply scope_ntgt; eauto|].
            apply andb_true_iff in Ef as [Ef _]. apply negb_true_iff in Ef. unfold nd_inf in Ef. rewrite F in Ef. discriminate. }
          intros ->. apply ht_ret'. intros w HI [H _]. apply Hfin; assumption. }
      destruct (actb_true _ _ Ea) as (nc & Hnc & Htg & Hcn). destruct (Hact nc Hnc Htg Hcn) as [Hsx Hsv].
      assert (Hsrv : forall t, In t (v_srv (with_qs (nv nd) qs2)) -> s_busy t = true /\ s_cust t <> Some i).
      { intros t Ht. cbn [with_qs v_srv nv] in Ht. apply in_map_iff in Ht as (sv & <- & Hs). apply Hsv. exact Hs. }
      assert (Hwait : forall w, idxv w -> J fl None [i] None [] w /\ wnode w j = Some (with_qs (nv nd) qs2) /\ fw w i = Some (i_server x, Z.of_nat k2, Z.of_nat k1) ->
                (forall t v pv, In t (v_srv (with_qs (nv nd) qs2)) -> s_cust t = Some v -> hasprio (fw w) v pv -> pv <= Z.of_nat k2) -> TailPre fl j i w).
      { intros w _ (HJ & Hn & Hfi) Hle. exists k2, (Z.of_nat k1), (n_c nd). split; [exact HJ|]. split; [apply HQi; exact Hn|]. split; [eexists; exact Hfi|].
        right. exists (with_qs (nv nd) qs2). split; [exact Hn|]. right. split; [rewrite Hfi, Hsx; reflexivity|].
        intros t Ht. destruct (Hsrv t Ht) as [Hb Hc]. split; [exact Hb|]. split; [exact Hc|]. intros v pv. apply Hle. exact Ht. }
      destruct (negb (nd_inf nd) && (0 <? numo (n_c nd))) eqn:Ef.
      + eapply ht_bind; [apply ht_victim|intros r]. destruct r as [vi|].
        * eapply ht_bind; [apply ht_gets|intros fu]. destruct (core_spec cf HS fu) as (_ & _ & _ & IHp).
          eapply ht_post; [eapply ht_pre; [|apply (IHp j vi i (Z.of_nat k2) (Z.of_nat k1) qs2 fl)]|].
          -- intros w HI ((HJ & Hn & Hfi) & (nc' & Hnc' & H0 & H1)). rewrite Hnc in Hnc'. injection Hnc' as <-.
             assert (Hp : nc_preempt nc <> 0) by (intros F; specialize (H0 F); discriminate).
             destruct (H1 Hp) as (n & pi & Hn' & (sv0 & pp0 & Hpi) & _ & t & pv & Ht & Hcv & Hpv & Hlt & Hmax). rewrite Hn in Hn'. injection Hn' as <-.
             rewrite Hfi in Hpi. injection Hpi as _ <- _. rewrite Hsx in Hfi.
             split; [exact HJ|]. split; [|exists (with_qs (nv nd) qs2); split; [exact Hn|reflexivity]].
             exists nc, (with_qs (nv nd) qs2), t, pv. split; [exact Hnc|]. split; [exact Htg|]. split; [exact Hn|]. split; [exact Hcn|].
             split; [exact Ht|]. split; [exact Hcv|]. split; [intros t' Ht'; apply Hsrv; exact Ht'|].
             split; [destruct (HQi w Hn) as (n' & q0 & Hn' & Hq0 & Hi0 & _); rewrite Hn in Hn'; injection Hn' as <-; eapply in_queue_mem; eauto|].
             split; [exact Hfi|]. split; [exact Hpv|]. split; [exact Hlt|exact Hmax].
          -- intros _ w HI (HJ & (sid & Hs) & HW & (n & Hn & Eqs)). exists k2, (Z.of_nat k1), (v_c n). split; [exact HJ|].
             split; [exists n, (qn ++ [i]); split; [exact Hn|]; split; [rewrite Eqs; unfold qs2; eapply nth_error_upd_eq; exact Hqn|];
                     split; [apply in_or_app; right; left; reflexivity|reflexivity]|].
             split; [eexists; exact Hs|]. right. exists n. split; [exact Hn|]. left. split; [rewrite Hs; discriminate|exact HW].
        * apply ht_ret'. intros w HI ((HJ & Hn & Hfi) & (nc' & Hnc' & H0 & H1)). rewrite Hnc in Hnc'. injection Hnc' as <-.
          apply Hwait; [exact HI|auto|].
          assert (Hp : nc_preempt nc <> 0) by (unfold tgt in Htg; apply andb_true_iff in Htg as [Hp _]; apply negb_true_iff, Z.eqb_neq in Hp; exact Hp).
          destruct (H1 Hp) as (n & pi & Hn' & (sv0 & pp0 & Hpi) & _ & Hall). rewrite Hn in Hn'. injection Hn' as <-.
          rewrite Hfi in Hpi. injection Hpi as _ <- _. exact Hall.
      + apply ht_ret'. intros w HI (HJ & Hn & Hfi). apply Hwait; [exact HI|auto|]. intros t v pv Ht. exfalso.
        pose proof (J_node _ _ _ _ _ _ _ _ _ _ HI HJ Hn Hnc Htg Hcn) as HN. destruct (nj_z _ _ _ _ _ _ _ HN) as [E|E].
        * rewrite E in Ht. destruct Ht.
        * cbn [with_qs v_c nv] in E. apply andb_false_iff in Ef as [Ef|Ef].
          -- apply negb_false_iff in Ef. unfold nd_inf in Ef. destruct (n_c nd); [discriminate|congruence].
          -- apply Z.ltb_ge in Ef. lia.
  Qed.
End Ev.


Section Ev2.
  Variable cf : config.
  Hypothesis HS : inv_scope cf = true.
  Notation J := (J cf).
  Notation J0 fl := (J fl None [] None []).

  Ltac hKi x := eapply ht_bind; [eapply ht_KKw with (K := fun w => oki w x); [pva|intros w Hw; eapply curi_oki; apply Hw|intros w _ Hw; exact Hw]|intros ?].

  (* ---------- nodes outside the claim: schedules and slots ---------- *)
  Lemma ht_put_node_inact fl j nd nd' nc : nthZ (cf_nodes cf) (j - 1) = Some nc -> tgt nc = false ->
    n_id nd' = n_id nd -> n_queues nd' = n_queues nd -> n_interrupted nd' = n_interrupted nd ->
    ht (fun w => J0 fl w /\ cur j nd w) (put_node nd') (fun _ w => J0 fl w).
  Proof.
    intros Hnc Htg Eid Eqs Eint. eapply ht_post; [apply ht_put_node|]. intros _ w' _ (w & HI & (HJ & [Hid Hn]) & ->).
    eapply J_inact_n; eauto using vmat_none.
    - intros nc' Hnc' Ht. congruence.
    - cbn. rewrite Eint. apply (J_int _ _ _ _ _ _ _ _ _ HJ Hn).
  Qed.
  Lemma ht_upd_node_inact fl j g nc : nthZ (cf_nodes cf) (j - 1) = Some nc -> tgt nc = false ->
    (forall nd, n_id (g nd) = n_id nd /\ n_queues (g nd) = n_queues nd /\ n_interrupted (g nd) = n_interrupted nd) ->
    ht (fun w => J0 fl w) (upd_node j g) (fun _ w => J0 fl w).
  Proof.
    intros Hnc Htg Hg. unfold upd_node. hnode nd. destruct (Hg nd) as (E1 & E2 & E3). eapply ht_put_node_inact; eauto.
  Qed.
  Lemma ht_kill_inact fl j sid nc : nthZ (cf_nodes cf) (j - 1) = Some nc -> tgt nc = false ->
    ht (fun w => J0 fl w) (kill_server j sid) (fun _ w => J0 fl w).
  Proof.
    intros Hnc Htg s u s' HI HJ E. destruct (kill_server_vw _ _ _ _ _ E HI) as (EV & n & t & Hn & _). rewrite EV. unfold killv. rewrite Hn.
    split; [apply idxv_wputn; exact HI|]. eapply J_inact_n; eauto using vmat_none.
    - intros nc' Hnc' Ht. congruence.
    - cbn. apply (J_int _ _ _ _ _ _ _ _ _ HJ Hn).
  Qed.

  Lemma ht_add_new_servers fl j nc k : nthZ (cf_nodes cf) (j - 1) = Some nc -> tgt nc = false ->
    ht (fun w => J0 fl w) (add_new_servers k j) (fun _ w => J0 fl w).
  Proof.
    intros Hnc Htg. induction k as [|k IH]; cbn [add_new_servers]; [apply ht_ret'; auto|].
    hK. eapply ht_bind; [|intros ?; exact IH]. eapply ht_upd_node_inact; eauto.
  Qed.

  Lemma ht_change_shift fl j : ht (fun w => J0 fl w) (change_shift cf j) (fun _ w => J0 fl w).
  Proof.
    unfold change_shift, ncfg_of. hliftc nc Hnc. destruct (nc_srv nc) as [|sc|sl] eqn:Esrv; try apply ht_fail.
    assert (Htg : tgt nc = false) by (unfold tgt; rewrite Esrv; apply andb_false_r).
    assert (Hpre : sc_pre sc = 0).
    { pose proof (scope_at cf HS j nc Hnc) as H. unfold scope_nc in H. rewrite Esrv in H. apply andb_true_iff in H as [_ H]. apply Z.eqb_eq. exact H. }
    hnode nd. hK. cbv zeta.
    eapply ht_bind; [eapply ht_put_node_inact; eauto|intros ?].
    eapply ht_bind; [apply ht_gets|intros fu].
    eapply ht_bind with (Q := fun _ w => J0 fl w).
    { unfold take_servers_off_duty. hnode nd1. hK.
      destruct (sc_pre sc =? 0) eqn:E0; [|apply Z.eqb_neq in E0; congruence].
      eapply ht_bind; [eapply ht_pre; [|eapply ht_put_node_inact with (nd := nd1); eauto]; intros w _ H; exact H|intros ?].
      apply ht_forM. intros sid. eapply ht_kill_inact; eauto. }
    intros ?.
    eapply ht_bind; [eapply ht_add_new_servers; eauto|intros ?].
    unfold begin_service_if_possible_change_shift. hnode nd2.
    eapply ht_post; [eapply ht_pre; [|apply ht_forM with (P := fun w => J0 fl w /\ True)]|].
    - intros w _ [HJ _]. split; [exact HJ|exact I].
    - intros sid. apply ht_serve_with; [left; reflexivity|apply CI_true|intros c; apply AI_true].
    - intros _ w _ [HJ _]. exact HJ.
  Qed.

  Lemma J_puti_inact fl vm ex hole ce w j n c r : idxv w -> J fl vm ex hole ce w -> wnode w j = Some n ->
    (forall nc, nthZ (cf_nodes cf) (j - 1) = Some nc -> tgt nc = true -> v_c n = None) -> vmat vm j -> In c (mem n ++ fl) ->
    J fl vm ex hole ce (wputi (c, r) w).
  Proof.
    intros HI HJ Hn Hin Hv Hc. rewrite <- (wputn_same n w) by (apply wnode_nthZ with (j := j); assumption).
    eapply J_inact_ni; eauto. eapply J_int; eauto.
  Qed.

  Lemma ht_slot_loop fl j nc k : nthZ (cf_nodes cf) (j - 1) = Some nc -> tgt nc = false ->
    ht (fun w => J0 fl w) (slot_loop cf k j) (fun _ w => J0 fl w).
  Proof.
    intros Hnc Htg. induction k as [|k IH]; cbn [slot_loop]; [apply ht_ret'; auto|].
    hK. hnode nd.
    eapply ht_bind with (Q := fun cand w => J0 fl w /\ match cand with Some c => Mi j c w | None => True end).
    { destruct (0 <? n_nint nd).
      - hliftc i Hi. eapply ht_pre; [|apply ht_false]. intros w _ (HJ & [_ Hn]). pose proof (J_int _ _ _ _ _ _ _ _ _ HJ Hn) as E. cbn in E. rewrite E in Hi. discriminate.
      - eapply ht_post; [apply ht_choose|]. intros [c|] w _ ((HJ & _) & (n & Hn & HC)); split; auto.
        destruct HC as (kc & q & Hq & Hc & _). exists n. split; [exact Hn|eapply in_queue_mem; eauto]. }
    intros cand. eapply ht_bind; [|intros ?; exact IH].
    destruct cand as [c|]; [|apply ht_ret'; intros w _ [H _]; exact H].
    hK. hK. hind x. hK.
    eapply ht_bind with (Q := fun _ w => J0 fl w /\ Mi j c w).
    { eapply ht_post; [apply ht_put_ind|]. intros _ w' _ (w & HI & ((HJ & (n & Hn & Hm)) & [Hxi _]) & ->).
      match goal with |- context [wputi (iv ?z) _] => replace (iv z) with (c, (Some (-1), i_prio x, i_pprio x)) by (rewrite <- Hxi; reflexivity) end.
      split; [|exists n; split; [rewrite wnode_wputi; exact Hn|exact Hm]].
      eapply J_puti_inact; eauto using vmat_none; [intros nc' Hnc' Ht; congruence|apply in_or_app; left; exact Hm]. }
    intros ?. hK.
    eapply ht_post; [eapply ht_pre; [|apply ht_reset_JR with (ce := []) (R := fun _ => True); [apply vmat_none|intros c' []|apply CI_true]]|].
    - intros w _ [HJ Hm]. split; [exact HJ|]. split; [left; exact Hm|exact I].
    - intros _ w _ [HJ _]. exact HJ.
  Qed.

  Lemma ht_slotted_service fl j : ht (fun w => J0 fl w) (slotted_service cf j) (fun _ w => J0 fl w).
  Proof.
    unfold slotted_service, ncfg_of. hliftc nc Hnc. destruct (nc_srv nc) as [|sc|sl] eqn:Esrv; try apply ht_fail.
    assert (Htg : tgt nc = false) by (unfold tgt; rewrite Esrv; apply andb_false_r).
    assert (Hpre : sl_cap sl && negb (sl_pre sl =? 0) = false).
    { pose proof (scope_at cf HS j nc Hnc) as H. unfold scope_nc in H. rewrite Esrv in H. apply andb_true_iff in H as [_ H]. apply negb_true_iff. exact H. }
    hnode nd. hK. cbv zeta. rewrite Hpre. apply ht_ret_bind.
    eapply ht_bind; [eapply ht_pre; [|eapply ht_slot_loop; eauto]; intros w _ [H _]; exact H|intros ?].
    eapply ht_upd_node_inact; eauto.
  Qed.

  (* ---------- arrivals ---------- *)
  Lemma ht_send_individual fl j i : ht (fun w => J0 (i :: fl) w) (send_individual cf j i) (fun _ w => J0 fl w).
  Proof. unfold send_individual. hK. eapply ht_bind; [apply ht_gets|intros fu]. apply (core_spec cf HS fu). Qed.
  Lemma ht_release_individual fl j i : ht (fun w => J0 (i :: fl) w) (release_individual cf j i) (fun _ w => J0 fl w).
  Proof.
    unfold release_individual. hind x. hnode nd. hK. hK. cbv zeta.
    match goal with |- ht _ (if ?c then _ else _) _ => destruct c end.
    - hK. eapply ht_pre; [|apply ht_exit_accept]. intros w _ [[H _] _]. exact H.
    - hK. hK. match goal with |- ht _ (match ?t with _ => _ end) _ => destruct t as [tb|] end.
      + hK. match goal with |- ht _ (if ?c then _ else _) _ => destruct c end.
        * hK. eapply ht_pre; [|apply ht_exit_accept]. intros w _ [[H _] _]. exact H.
        * eapply ht_pre; [|apply ht_send_individual]. intros w _ [[H _] _]. exact H.
      + eapply ht_pre; [|apply ht_send_individual]. intros w _ [[H _] _]. exact H.
  Qed.
  Lemma ht_batch_loop fl n j c p : ht (fun w => J0 fl w) (batch_loop cf n j c p) (fun _ w => J0 fl w).
  Proof.
    induction n as [|n IH]; cbn [batch_loop]; [apply ht_ret'; auto|].
    eapply ht_bind with (Q := fun _ w => J0 fl w /\ forall u, In u (allq w ++ fl) -> u < w_cr w).
    { intros s u s' HI HJ E. apply modify_inv in E. subst s'.
      change (VW (s <| arr := arr s <| a_created := a_created (arr s) + 1 |> |>)) with (mkVw (w_ns (VW s)) (w_cr (VW s) + 1) (w_is (VW s))).
      split; [exact HI|]. split; [apply J_cr; exact HJ|]. intros v Hv. cbn. destruct HJ as (_ & H2 & _). specialize (H2 v Hv). cbn in H2. lia. }
    intros ?.
    eapply ht_bind with (Q := fun i w => (J0 fl w /\ forall u, In u (allq w ++ fl) -> u < w_cr w) /\ i = w_cr w).
    { intros s i s' HI HP E. apply gets_inv in E as [-> ->]. auto. }
    intros i. hK. hK. hK.
    eapply ht_bind with (Q := fun _ w => J0 (i :: fl) w).
    { eapply ht_post; [apply ht_put_ind|]. intros _ w' _ (w & HI & ((HJ & Hlt) & ->) & ->).
      match goal with |- context [wputi (iv ?z) _] => change (iv z) with (w_cr w, (None : option Z, p, p)) end.
      apply J_new; assumption. }
    intros ?. eapply ht_bind; [apply ht_release_individual|intros ?; exact IH].
  Qed.
  Lemma ht_arrival fl : ht (fun w => J0 fl w) (arrival_have_event cf) (fun _ w => J0 fl w).
  Proof.
    unfold arrival_have_event. eapply ht_bind; [apply ht_gets|intros a]. cbv zeta. hK. hK. hK.
    eapply ht_bind; [apply ht_batch_loop|intros ?]. hK. hK. hK. hK. hK. hk.
  Qed.

  (* ---------- the candidates of the next event are recomputed ---------- *)
  Definition with_next (n : nview) (ty : Z) (l : list Z) : nview := mkNv (v_id n) (v_qs n) (v_srv n) (v_c n) (v_cci n) (v_int n) ty l.
  Lemma scan_ren_spec q il : forall best acc r, scan_ren q il best acc = Some r ->
    forall i, In i (snd r) -> In i acc \/ (In i q /\ exists x, find_ind i il = Some x /\ i_server x = None).
  Proof.
    induction q as [|a q IH]; cbn [scan_ren]; intros best acc r H i Hi.
    - injection H as <-. left. exact Hi.
    - destruct (find_ind a il) as [x|] eqn:Ex; [|discriminate]. destruct (i_ren x) as [| |z]; [discriminate| |].
      + destruct (IH _ _ _ H i Hi) as [?|[Hq Hx]]; [auto|right; split; [right; exact Hq|exact Hx]].
      + cbv zeta in H.
        assert (Ha : (match i_server x with None => true | Some _ => false end) = true -> In a (a :: q) /\ exists x0, find_ind a il = Some x0 /\ i_server x0 = None).
        { intros E. split; [left; reflexivity|]. exists x. split; [exact Ex|]. destruct (i_server x); [discriminate|reflexivity]. }
        destruct (date_lt (Some z) best && match i_server x with None => true | Some _ => false end) eqn:E1.
        * apply andb_true_iff in E1 as [_ E1]. destruct (IH _ _ _ H i Hi) as [[<-|[]]|[Hq Hx]]; [right; apply Ha; exact E1|right; split; [right; exact Hq|exact Hx]].
        * destruct (date_eqb (Some z) best && match i_server x with None => true | Some _ => false end) eqn:E2.
          -- apply andb_true_iff in E2 as [_ E2]. destruct (IH _ _ _ H i Hi) as [Hacc|[Hq Hx]]; [|right; split; [right; exact Hq|exact Hx]].
             apply in_app_or in Hacc as [Hacc|[<-|[]]]; [left; exact Hacc|right; apply Ha; exact E2].
          -- destruct (IH _ _ _ H i Hi) as [?|[Hq Hx]]; [auto|right; split; [right; exact Hq|exact Hx]].
  Qed.
  Lemma dne_in cands : forall best, In (decide_next_event cands best) (best :: cands).
  Proof.
    induction cands as [|c r IH]; intros best; cbn [decide_next_event]; [left; reflexivity|].
    destruct (date_lt (fst (snd c)) (fst (snd best))); [destruct (IH c) as [H|H]; [right; left; exact H|right; right; exact H]|].
    destruct (IH best) as [H|H]; [left; exact H|right; right; exact H].
  Qed.

  Lemma une_vw j s u s' : update_next_event_date cf j s = Ok (u, s') -> idxv (VW s) ->
    exists nd ty l, wnode (VW s) j = Some (nv nd) /\ VW s' = wputn (with_next (nv nd) ty l) (VW s) /\
      forall nc, nthZ (cf_nodes cf) (j - 1) = Some nc -> nc_srv nc = SFixed ->
        (ty = 2 -> forall i, In i l -> In i (mem (nv nd)) /\ srvof (fw (VW s) i) = None) /\
        (ty = 3 -> forall i, In i l -> cf_dyn cf = true /\ n_ncci nd = Some i).
  Proof.
    intros H HI. unfold update_next_event_date in H.
    minv H nd s1 E1. apply get_node_spec in E1 as (-> & Hj & Hn).
    minv H nc s1 E2. unfold ncfg_of in E2. apply lift_inv in E2 as [Hnc ->].
    minv H t s1 E3. apply gets_inv in E3 as [-> ->].
    minv H il s1 E4. apply gets_inv in E4 as [-> ->]. cbv zeta in H.
    minv H rn s1 E5.
    assert (Hrn : s1 = s /\ forall i, In i (snd rn) -> In i (mem (nv nd)) /\ srvof (fw (VW s) i) = None).
    { destruct (negb (nd_inf nd) && nc_reneging nc).
      - apply lift_inv in E5 as [Hr ->]. split; [reflexivity|]. intros i Hi. destruct (scan_ren_spec _ _ _ _ _ Hr i Hi) as [[]|[Hq (x & Hx & Hs)]].
        split; [exact Hq|]. rewrite (fw_VW _ _ _ Hx). cbn. exact Hs.
      - apply ret_inv in E5 as [-> ->]. split; [reflexivity|]. intros i []. }
    destruct Hrn as [-> Hrn]. clear E5.
    exists nd.
    set (es := if nc_slotted nc || nd_inf nd then scan_inds (now s) (all_individuals nd) (inds s) None [] else scan_servers (n_servers nd) None []) in *.
    set (cc := if cf_dyn cf && negb (nd_inf nd) then (n_nccd nd, match n_ncci nd with Some i => [i] | None => [] end) else (None, [])) in *.
    set (sh := match nc_srv nc with SSched _ => [(1, (n_next_shift nd, []))] | SSlot sl => [(4, (Some (snd (slot_values sl (Z.to_nat (n_spos nd)))), []))] | SFixed => [] end) in *.
    destruct (nc_reneging nc || cf_dyn cf || nc_sched nc).
    - pose proof (dne_in (sh ++ [(0, es); (3, cc); (2, rn)]) (5, (None, []))) as Hin.
      destruct (decide_next_event (sh ++ [(0, es); (3, cc); (2, rn)]) (5, (None, []))) as [ty [d l]].
      unfold put_node in H. apply modify_inv in H. exists ty, l. split; [apply wnode_VW; assumption|]. split; [rewrite H, VW_put_node; reflexivity|].
      intros nc' Hnc' Hfix. rewrite Hnc in Hnc'. injection Hnc' as <-. unfold sh in Hin. rewrite Hfix in Hin. cbn [app] in Hin. split.
      + intros -> i Hi. destruct Hin as [F|[F|[F|[F|[]]]]]; try discriminate. injection F as F. apply Hrn. rewrite F. exact Hi.
      + intros -> i Hi. destruct Hin as [F|[F|[F|[F|[]]]]]; try discriminate. unfold cc in F.
        destruct (cf_dyn cf && negb (nd_inf nd)) eqn:Ed; [|injection F as _ F; rewrite <- F in Hi; destruct Hi].
        injection F as _ F. rewrite <- F in Hi. apply andb_true_iff in Ed as [Ed _]. split; [exact Ed|]. destruct (n_ncci nd) as [k|]; [destruct Hi as [<-|[]]; reflexivity|destruct Hi].
    - unfold put_node in H. apply modify_inv in H. exists 0, (snd es). split; [apply wnode_VW; assumption|]. split; [rewrite H, VW_put_node; reflexivity|].
      intros nc' _ _. split; intros F; discriminate.
  Qed.

  Lemma J_next fl w j n ty l : idxv w -> J0 fl w -> wnode w j = Some n -> J0 fl (wputn (with_next n ty l) w).
  Proof.
    intros HI HJ Hn. eapply J_step_n with (n := n); try eassumption; try reflexivity; auto using vmat_none, hlat_refl.
    - cbn. eapply J_int; eauto.
    - intros nc Hnc Htg Hcn HN. destruct (HN Hcn) as [H1 H2 H3 H4 H5 H6 H7]. constructor; assumption.
  Qed.

  (* NXT for the nodes whose identity is in js *)
  Definition NXTx (js : list Z) (w : view) : Prop := forall k nc n, nth_error (cf_nodes cf) k = Some nc -> nth_error (w_ns w) k = Some n -> tgt nc = true ->
    v_c n <> None -> In (v_id n) js -> (v_nty n = 2 \/ v_nty n = 3) -> forall i, In i (v_nxi n) -> In i (mem n) -> srvof (fw w i) = None.
  Definition IDS (l : list Z) (w : view) : Prop := map v_id (w_ns w) = l.

  Lemma ht_une fl js l j : ht (fun w => J0 fl w /\ NXTx js w /\ IDS l w) (update_next_event_date cf j) (fun _ w => J0 fl w /\ NXTx (j :: js) w /\ IDS l w).
  Proof.
    intros s u s' HI (HJ & HX & HD) E. destruct (une_vw _ _ _ _ E HI) as (nd & ty & nl & Hn & -> & Hty).
    pose proof (wnode_id _ _ _ HI Hn) as Hid. destruct (wnode_nth _ _ _ Hn) as (k0 & Hjk & Hk0).
    assert (Ens : w_ns (wputn (with_next (nv nd) ty nl) (VW s)) = upd (w_ns (VW s)) k0 (with_next (nv nd) ty nl)).
    { apply wputn_ns. cbn [with_next v_id]. change (n_id nd) with (v_id (nv nd)). rewrite Hid. exact Hjk. }
    split; [apply idxv_wputn; exact HI|]. split; [eapply J_next; eauto|]. split.
    - intros k nc n Hc Hk Htg Hcn Hin Hnty i Hi Hm. rewrite fw_wputn. rewrite Ens in Hk.
      destruct (nth_error_upd_cases _ _ _ _ _ Hk) as [[-> ->]|[Hne Hk']].
      + cbn [with_next v_nty v_nxi v_c] in *. assert (Hnc : nthZ (cf_nodes cf) (j - 1) = Some nc) by (rewrite Hjk, nthZ_of_nat; exact Hc).
        assert (Hfix : nc_srv nc = SFixed) by (unfold tgt in Htg; apply andb_true_iff in Htg as [_ Htg]; destruct (nc_srv nc); [reflexivity|discriminate|discriminate]).
        destruct (Hty nc Hnc Hfix) as [H2 H3]. destruct Hnty as [E2|E3].
        * apply (H2 E2 i Hi).
        * destruct (H3 E3 i Hi) as [Hd Hcc].
          pose proof (J_node _ _ _ _ _ _ _ _ _ _ HI HJ Hn Hnc Htg Hcn) as HN. apply (nj_cc _ _ _ _ _ _ _ HN Hd i Hcc Hm). intros [].
      + eapply HX; eauto. destruct Hin as [F|Hin]; [|exact Hin]. exfalso. pose proof (HI _ _ Hk') as A. pose proof (HI _ _ Hk0) as B. apply Hne. lia.
    - unfold IDS in *. rewrite Ens, <- HD. clear -Hk0 Hid. revert k0 Hk0. induction (w_ns (VW s)) as [|a r IH]; intros [|k] Hk; cbn in *; try discriminate.
      + injection Hk as ->. reflexivity.
      + f_equal. apply IH. exact Hk.
  Qed.
  Lemma ht_update_all fl l js : forall js0, ht (fun w => J0 fl w /\ NXTx js0 w /\ IDS l w) (update_all cf js) (fun _ w => J0 fl w /\ NXTx (rev js ++ js0) w /\ IDS l w).
  Proof.
    induction js as [|j r IH]; intros js0; cbn [update_all].
    - apply ht_ret'. intros w _ H. exact H.
    - eapply ht_bind; [apply ht_une|intros ?]. eapply ht_post; [apply IH|]. intros _ w _ (H1 & H2 & H3). split; [exact H1|]. split; [|exact H3].
      cbn [rev]. rewrite <- app_assoc. exact H2.
  Qed.

  Lemma ht_node_have_event fl j : ht (fun w => J0 fl w /\ NXT cf w) (node_have_event cf j) (fun _ w => J0 fl w).
  Proof.
    unfold node_have_event. hnode nd. cbv zeta.
    assert (HT : forall ty w, (J0 fl w /\ NXT cf w) /\ cur j nd w -> n_next_type nd = ty -> J0 fl w /\ NXT cf w /\ NTy j ty w).
    { intros ty w ((HJ & HX) & [_ Hn]) E. split; [exact HJ|]. split; [exact HX|]. exists (nv nd). split; [exact Hn|exact E]. }
    destruct (n_next_type nd =? 0) eqn:E0; [eapply ht_pre; [|apply ht_finish_service; exact HS]; intros w _ [[H _] _]; exact H|].
    destruct (n_next_type nd =? 1) eqn:E1; [eapply ht_pre; [|apply ht_change_shift]; intros w _ [[H _] _]; exact H|].
    destruct (n_next_type nd =? 2) eqn:E2; [eapply ht_pre; [|apply ht_renege; exact HS]; intros w _ H; apply HT; [exact H|apply Z.eqb_eq; exact E2]|].
    destruct (n_next_type nd =? 3) eqn:E3; [eapply ht_pre; [|apply ht_ccww; exact HS]; intros w _ H; apply HT; [exact H|apply Z.eqb_eq; exact E3]|].
    destruct (n_next_type nd =? 4) eqn:E4; [eapply ht_pre; [|apply ht_slotted_service]; intros w _ [[H _] _]; exact H|].
    apply ht_ret'. intros w _ [[H _] _]. exact H.
  Qed.

  Theorem ht_event_step : ht (fun w => J0 [] w /\ NXT cf w) (event_step cf) (fun _ w => J0 [] w /\ NXT cf w).
  Proof.
    unfold event_step. hK. eapply ht_bind; [apply ht_gets|intros k].
    eapply ht_bind with (Q := fun _ w => J0 [] w).
    { destruct (k =? 0); [eapply ht_pre; [|apply ht_arrival]; intros w _ [H _]; exact H|apply ht_node_have_event]. }
    intros ?.
    eapply ht_bind with (Q := fun ns w => J0 [] w /\ IDS (map n_id ns) w).
    { intros s ns s' HI HJ E. apply gets_inv in E as [-> ->]. split; [exact HI|]. split; [exact HJ|]. unfold IDS. cbn. rewrite map_map. reflexivity. }
    intros ns.
    eapply ht_bind with (Q := fun _ w => J0 [] w /\ NXT cf w).
    { eapply ht_post; [eapply ht_pre; [|apply ht_update_all with (js0 := []) (l := map n_id ns)]|].
      - intros w _ [HJ HD]. split; [exact HJ|]. split; [|exact HD]. intros k0 nc n _ _ _ _ [].
      - intros _ w _ (HJ & HX & HD). split; [exact HJ|]. intros k0 nc n Hc Hk Htg Hcn. apply (HX k0 nc n Hc Hk Htg Hcn).
        rewrite app_nil_r. apply in_rev. rewrite rev_involutive. rewrite <- HD. apply in_map. eapply nth_error_In; eauto. }
    intros ?. hk.
  Qed.
End Ev2.


(* ====================================================================================================================== *)
(* Part 9.  Events and runs; the claim                                                                                   *)
(* ====================================================================================================================== *)
Definition InvJ (cf : config) (s : sim) : Prop := idxv (VW s) /\ J cf [] None [] None [] (VW s) /\ NXT cf (VW s).

Theorem event_step_invJ cf : inv_scope cf = true -> forall s s', InvJ cf s -> event_step cf s = Ok (tt, s') -> InvJ cf s'.
Proof.
  intros HS s s' (HI & HJ & HX) E. destruct (ht_event_step cf HS s tt s' HI (conj HJ HX) E) as (HI' & HJ' & HX'). split; [exact HI'|split; [exact HJ'|exact HX']].
Qed.
Theorem run_many_invJ cf : inv_scope cf = true -> forall ds s s', InvJ cf s -> run_many cf s ds = Ok s' -> InvJ cf s'.
Proof.
  intros HS ds. induction ds as [|d r IH]; intros s s' HJ H; cbn [run_many] in H; [injection H as <-; exact HJ|].
  destruct (event_step cf (s <| dr := d |>)) as [[[] s1]| |] eqn:E; try discriminate. eapply IH; [|exact H].
  eapply event_step_invJ; [exact HS| |exact E]. exact HJ.
Qed.

(* the claim (last clause of C11): at a node with priority pre-emption and a fixed, finite number of servers, nobody waits (a customer in
   a queue of the node whose record has no server marker) while a customer of strictly lower priority (larger number) holds a server *)
Definition in_claim (nc : ncfg) (nd : node) : Prop := nc_preempt nc <> 0 /\ nc_srv nc = SFixed /\ n_c nd <> None.
Definition NoInv (cf : config) (s : sim) : Prop :=
  forall k nc nd, nth_error (cf_nodes cf) k = Some nc -> nth_error (nodes s) k = Some nd -> in_claim nc nd ->
  forall sv v vx u ux, In sv (n_servers nd) -> sv_cust sv = Some v -> find_ind v (inds s) = Some vx ->
    In u (concat (n_queues nd)) -> find_ind u (inds s) = Some ux -> i_server ux = None -> i_prio vx <= i_prio ux.

Lemma in_claim_tgt nc nd : in_claim nc nd -> tgt nc = true /\ v_c (nv nd) <> None.
Proof. intros (H1 & H2 & H3). unfold tgt. rewrite H2. apply Z.eqb_neq in H1. rewrite H1. auto. Qed.

Theorem InvJ_NoInv cf s : InvJ cf s -> NoInv cf s.
Proof.
  intros (HI & (_ & _ & _ & HN) & _) k nc nd Hc Hk Hcl sv v vx u ux Hsv Hcv Hvx Hu Hux Hs.
  destruct (in_claim_tgt _ _ Hcl) as [Htg Hcn].
  assert (Hk' : nth_error (w_ns (VW s)) k = Some (nv nd)) by (cbn; rewrite nth_error_map, Hk; reflexivity).
  pose proof (HN k nc (nv nd) Hc Hk' Htg Hcn) as HNd.
  eapply (nj_inv _ _ _ _ _ _ _ HNd (sc sv) v u); eauto.
  - cbn. apply in_map. exact Hsv.
  - exists (i_server vx), (i_pprio vx). apply fw_VW. exact Hvx.
  - exists (i_pprio ux). rewrite (fw_VW _ _ _ Hux), Hs. reflexivity.
Qed.
Corollary run_many_noinv cf : inv_scope cf = true -> forall ds s s', InvJ cf s -> run_many cf s ds = Ok s' -> NoInv cf s'.
Proof. intros HS ds s s' HJ H. apply InvJ_NoInv. eapply run_many_invJ; eauto. Qed.

(* an executable test of the claim *)
Definition noinv_node_b (nc : ncfg) (nd : node) (il : list ind) : bool :=
  negb (negb (nc_preempt nc =? 0) && match nc_srv nc with SFixed => true | _ => false end && match n_c nd with Some _ => true | None => false end) ||
  forallb (fun sv => match sv_cust sv with
                     | None => true
                     | Some v => match find_ind v il with
                                 | None => true
                                 | Some vx => forallb (fun u => match find_ind u il with
                                                                | Some ux => match i_server ux with None => i_prio vx <=? i_prio ux | Some _ => true end
                                                                | None => true end) (concat (n_queues nd))
                                 end
                     end) (n_servers nd).
Fixpoint noinv_nodes_b (ncs : list ncfg) (nds : list node) (il : list ind) {struct nds} : bool :=
  match nds, ncs with
  | nd :: r, nc :: rc => noinv_node_b nc nd il && noinv_nodes_b rc r il
  | _, _ => true
  end.
Definition noinv_b (cf : config) (s : sim) : bool := noinv_nodes_b (cf_nodes cf) (nodes s) (inds s).

(* ====================================================================================================================== *)
(* Part 10.  An executable test of the invariant                                                                         *)
(* ====================================================================================================================== *)
Fixpoint nodupZ_b (l : list Z) : bool := match l with [] => true | x :: r => negb (memZ x r) && nodupZ_b r end.
Lemma nodupZ_b_sound l : nodupZ_b l = true -> NoDup l.
Proof.
  induction l as [|x r IH]; cbn; [constructor|]. intros H. apply andb_true_iff in H as [H1 H2]. constructor; [|auto].
  intros F. apply memZ_In in F. rewrite F in H1. discriminate.
Qed.
Fixpoint forallb_i {A} (f : nat -> A -> bool) (k : nat) (l : list A) : bool :=
  match l with [] => true | x :: r => f k x && forallb_i f (S k) r end.
Lemma forallb_i_spec {A} (f : nat -> A -> bool) l : forall k0, forallb_i f k0 l = true -> forall k x, nth_error l k = Some x -> f (k0 + k)%nat x = true.
Proof.
  induction l as [|a r IH]; intros k0 H k x Hk; [destruct k; discriminate|]. cbn in H. apply andb_true_iff in H as [H1 H2].
  destruct k as [|k]; cbn in Hk.
  - injection Hk as <-. rewrite Nat.add_0_r. exact H1.
  - replace (k0 + S k)%nat with (S k0 + k)%nat by lia. eapply IH; eauto.
Qed.
Definition nosrv_b (il : list ind) (u : Z) : bool :=
  match find_ind u il with Some x => match i_server x with None => true | Some _ => false end | None => true end.
Definition waits_b (il : list ind) (u : Z) : bool :=
  match find_ind u il with Some x => match i_server x with None => true | Some _ => false end | None => false end.
Definition nodej_b (cf : config) (nd : node) (il : list ind) : bool :=
  let ms := concat (n_queues nd) in
  nodupZ_b (map sv_id (n_servers nd)) &&
  (match n_servers nd with [] => true | _ => 0 <? numo (n_c nd) end) &&
  forallb (fun sv => match sv_cust sv with
                     | None => true
                     | Some v => memZ v ms && match find_ind v il with Some vx => match i_server vx with Some k => k =? sv_id sv | None => false end | None => false end
                     end) (n_servers nd) &&
  forallb_i (fun k q => forallb (fun u => match find_ind u il with
                                          | Some ux => (i_prio ux =? Z.of_nat k) && (i_pprio ux =? Z.of_nat k)
                                          | None => true end) q) 0 (n_queues nd) &&
  forallb (fun sv => match sv_cust sv with
                     | None => true
                     | Some v => match find_ind v il with
                                 | None => true
                                 | Some vx => forallb (fun u => match find_ind u il with
                                                                | Some ux => match i_server ux with None => i_prio vx <=? i_prio ux | Some _ => true end
                                                                | None => true end) ms
                                 end
                     end) (n_servers nd) &&
  forallb (fun sv => sv_busy sv || forallb (fun u => negb (waits_b il u)) ms) (n_servers nd) &&
  (negb (cf_dyn cf) || match n_ncci nd with None => true | Some i => negb (memZ i ms) || nosrv_b il i end) &&
  (negb ((n_next_type nd =? 2) || (n_next_type nd =? 3)) || forallb (fun i => negb (memZ i ms) || nosrv_b il i) (n_next_inds nd)).
Definition invj_b (cf : config) (s : sim) : bool :=
  let aq := concat (map (fun nd => concat (n_queues nd)) (nodes s)) in
  forallb_i (fun k nd => n_id nd =? Z.of_nat k + 1) 0 (nodes s) &&
  nodupZ_b aq && forallb (fun u => u <=? a_created (arr s)) aq &&
  forallb (fun nd => match n_interrupted nd with [] => true | _ => false end) (nodes s) &&
  forallb_i (fun k nd => match nth_error (cf_nodes cf) k with
                         | Some nc => if tgt nc && match n_c nd with Some _ => true | None => false end then nodej_b cf nd (inds s) else true
                         | None => true end) 0 (nodes s).

Lemma waits_VW s u p : waits (fw (VW s)) u p <-> exists x, find_ind u (inds s) = Some x /\ i_server x = None /\ i_prio x = p.
Proof.
  unfold waits, fw. cbn. rewrite fiv_find. destruct (find_ind u (inds s)) as [x|]; cbn.
  - split; [intros (pp & H); injection H as H1 H2 _; eauto|]. intros (y & Hy & H1 & H2). injection Hy as <-. exists (i_pprio x). rewrite H1, H2. reflexivity.
  - split; [intros (pp & H); discriminate|intros (y & Hy & _); discriminate].
Qed.
Lemma nosrv_b_srvof s u : nosrv_b (inds s) u = true -> srvof (fw (VW s) u) = None.
Proof.
  unfold nosrv_b. destruct (find_ind u (inds s)) as [x|] eqn:E; [rewrite (fw_VW _ _ _ E)|rewrite (fw_VW_none _ _ E); reflexivity].
  cbn. destruct (i_server x); [discriminate|reflexivity].
Qed.

Lemma nodej_b_sound cf nd s : nodej_b cf nd (inds s) = true ->
  NodeJ cf [] [] None [] (nv nd) (fw (VW s)) /\
  ((v_nty (nv nd) = 2 \/ v_nty (nv nd) = 3) -> forall i, In i (v_nxi (nv nd)) -> In i (mem (nv nd)) -> srvof (fw (VW s) i) = None).
Proof.
  unfold nodej_b. cbv zeta. intros H.
  apply andb_true_iff in H as [H B8]. apply andb_true_iff in H as [H B7]. apply andb_true_iff in H as [H B6]. apply andb_true_iff in H as [H B5].
  apply andb_true_iff in H as [H B4]. apply andb_true_iff in H as [H B3]. apply andb_true_iff in H as [B1 B2].
  assert (Hsrv : forall t, In t (v_srv (nv nd)) -> exists sv, In sv (n_servers nd) /\ t = sc sv).
  { intros t Ht. cbn in Ht. apply in_map_iff in Ht as (sv & <- & Hs). eauto. }
  rewrite forallb_forall in B3, B5, B6. split.
  - constructor.
    + cbn. unfold sids. rewrite map_map. apply nodupZ_b_sound. exact B1.
    + cbn. destruct (n_servers nd); [left; reflexivity|right; apply Z.ltb_lt; exact B2].
    + intros t v Ht Hc. destruct (Hsrv t Ht) as (sv & Hs & ->). specialize (B3 sv Hs). cbn in Hc. rewrite Hc in B3.
      apply andb_true_iff in B3 as [M1 M2]. rewrite app_nil_r. split; [apply memZ_In; exact M1|].
      destruct (find_ind v (inds s)) as [vx|] eqn:Ev; [|discriminate]. rewrite (fw_VW _ _ _ Ev). cbn.
      destruct (i_server vx) as [k|]; [|discriminate]. apply Z.eqb_eq in M2. rewrite M2. reflexivity.
    + intros k q u r Hk Hu _ Hr. cbn in Hk. pose proof (forallb_i_spec _ _ _ B4 k q Hk) as Hq. cbn in Hq. rewrite forallb_forall in Hq. specialize (Hq u Hu).
      destruct (find_ind u (inds s)) as [ux|] eqn:Eu; [|rewrite (fw_VW_none _ _ Eu) in Hr; discriminate].
      rewrite (fw_VW _ _ _ Eu) in Hr. injection Hr as <-. cbn. apply andb_true_iff in Hq as [Q1 Q2]. apply Z.eqb_eq in Q1, Q2. auto.
    + intros t v u pv pu Ht Hc _ Hu _ Hpv Hpu. destruct (Hsrv t Ht) as (sv & Hs & ->). specialize (B5 sv Hs). cbn in Hc. rewrite Hc in B5.
      apply hasprio_VW in Hpv as (vx & Hvx & <-). apply waits_VW in Hpu as (ux & Hux & Hsu & <-). rewrite Hvx in B5. rewrite forallb_forall in B5.
      specialize (B5 u Hu). rewrite Hux, Hsu in B5. apply Z.leb_le. exact B5.
    + intros t u pu Ht Hb _ Hu _ Hpu. destruct (Hsrv t Ht) as (sv & Hs & ->). specialize (B6 sv Hs). cbn in Hb. rewrite Hb in B6. cbn in B6.
      rewrite forallb_forall in B6. specialize (B6 u Hu). apply waits_VW in Hpu as (ux & Hux & Hsu & _). unfold waits_b in B6. rewrite Hux, Hsu in B6. discriminate.
    + intros Hd i Hi Hm _. rewrite Hd in B7. cbn in B7, Hi. rewrite Hi in B7. apply orb_true_iff in B7 as [F|F]; [|apply nosrv_b_srvof; exact F].
      apply negb_true_iff in F. apply memZ_In in Hm. cbn in Hm. congruence.
  - intros Hty i Hi Hm. cbn in Hty, Hi. apply orb_true_iff in B8 as [F|F].
    + apply negb_true_iff in F. apply orb_false_iff in F as [F2 F3]. apply Z.eqb_neq in F2, F3. destruct Hty; contradiction.
    + rewrite forallb_forall in F. specialize (F i Hi). apply orb_true_iff in F as [F|F]; [|apply nosrv_b_srvof; exact F].
      apply negb_true_iff in F. apply memZ_In in Hm. cbn in Hm. congruence.
Qed.

Theorem invj_b_sound cf s : invj_b cf s = true -> InvJ cf s.
Proof.
  unfold invj_b. cbv zeta. intros H.
  apply andb_true_iff in H as [H B5]. apply andb_true_iff in H as [H B4]. apply andb_true_iff in H as [H B3]. apply andb_true_iff in H as [B1 B2].
  assert (Eaq : allq (VW s) = concat (map (fun nd => concat (n_queues nd)) (nodes s))) by (unfold allq; cbn; rewrite map_map; reflexivity).
  assert (HI : idxv (VW s)).
  { intros k n Hk. cbn in Hk. rewrite nth_error_map in Hk. destruct (nth_error (nodes s) k) as [nd|] eqn:E; [|discriminate]. injection Hk as <-.
    pose proof (forallb_i_spec _ _ _ B1 k nd E) as H1. cbn in H1. apply Z.eqb_eq in H1. exact H1. }
  split; [exact HI|].
  assert (HN : forall k nc nd, nth_error (cf_nodes cf) k = Some nc -> nth_error (nodes s) k = Some nd -> tgt nc = true -> n_c nd <> None ->
                 nodej_b cf nd (inds s) = true).
  { intros k nc nd Hc Hk Htg Hcn. pose proof (forallb_i_spec _ _ _ B5 k nd Hk) as H1. cbn in H1. rewrite Hc, Htg in H1. destruct (n_c nd); [exact H1|congruence]. }
  split.
  - split; [rewrite app_nil_r, Eaq; apply nodupZ_b_sound; exact B2|]. split; [|split].
    + intros i Hi. rewrite app_nil_r, Eaq in Hi. rewrite forallb_forall in B3. apply Z.leb_le. apply B3. exact Hi.
    + intros n Hn. cbn in Hn. apply in_map_iff in Hn as (nd & <- & Hnd). rewrite forallb_forall in B4. specialize (B4 nd Hnd). cbn.
      destruct (n_interrupted nd); [reflexivity|discriminate].
    + intros k nc n Hc Hk Htg Hcn. cbn in Hk. rewrite nth_error_map in Hk. destruct (nth_error (nodes s) k) as [nd|] eqn:E; [|discriminate]. injection Hk as <-.
      cbn [vmof holeat]. apply (nodej_b_sound cf nd s). eapply HN; eauto.
  - intros k nc n Hc Hk Htg Hcn. cbn in Hk. rewrite nth_error_map in Hk. destruct (nth_error (nodes s) k) as [nd|] eqn:E; [|discriminate]. injection Hk as <-.
    apply (nodej_b_sound cf nd s). eapply HN; eauto.
Qed.

(* ====================================================================================================================== *)
(* Part 11.  The invariant in the words of C11                                                                           *)
(* ====================================================================================================================== *)
Theorem NoInv_means cf s : InvJ cf s ->
  forall k nc nd, nth_error (cf_nodes cf) k = Some nc -> nth_error (nodes s) k = Some nd -> in_claim nc nd ->
    (* no inversion: whoever holds a server is at least as important as whoever waits *)
    (forall sv v vx u ux, In sv (n_servers nd) -> sv_cust sv = Some v -> find_ind v (inds s) = Some vx ->
       In u (concat (n_queues nd)) -> find_ind u (inds s) = Some ux -> i_server ux = None -> i_prio vx <= i_prio ux) /\
    (* nobody waits while a server is idle *)
    (forall sv u ux, In sv (n_servers nd) -> sv_busy sv = false -> In u (concat (n_queues nd)) -> find_ind u (inds s) = Some ux -> i_server ux <> None) /\
    (* a customer stands in the queue of its priority class *)
    (forall kq q u ux, nth_error (n_queues nd) kq = Some q -> In u q -> find_ind u (inds s) = Some ux -> i_prio ux = Z.of_nat kq /\ i_pprio ux = Z.of_nat kq) /\
    (* servers and customers *)
    NoDup (map sv_id (n_servers nd)) /\
    (forall sv v, In sv (n_servers nd) -> sv_cust sv = Some v ->
       In v (concat (n_queues nd)) /\ exists vx, find_ind v (inds s) = Some vx /\ i_server vx = Some (sv_id sv)) /\
    (* nobody is interrupted there, so "waits" is what the registered check calls waiting *)
    n_interrupted nd = [].
Proof.
  intros HJ k nc nd Hc Hk Hcl. pose proof (InvJ_NoInv cf s HJ) as HNI. destruct HJ as (HI & (_ & _ & HInt & HN) & _).
  destruct (in_claim_tgt _ _ Hcl) as [Htg Hcn].
  assert (Hk' : nth_error (w_ns (VW s)) k = Some (nv nd)) by (cbn; rewrite nth_error_map, Hk; reflexivity).
  pose proof (HN k nc (nv nd) Hc Hk' Htg Hcn) as HNd. cbn [vmof holeat] in HNd.
  split; [intros sv v vx u ux; eapply HNI; eauto|]. split; [|split; [|split; [|split]]].
  - intros sv u ux Hsv Hb Hu Hux Hs. eapply (nj_idl _ _ _ _ _ _ _ HNd (sc sv) u (i_prio ux)); eauto; [cbn; apply in_map; exact Hsv|discriminate|].
    apply waits_VW. eauto.
  - intros kq q u ux Hq Hu Hux. destruct (nj_cls _ _ _ _ _ _ _ HNd kq q u _ Hq Hu (fun F => F) (fw_VW _ _ _ Hux)) as [E1 E2]. cbn in E1, E2. auto.
  - pose proof (nj_nd _ _ _ _ _ _ _ HNd) as H. cbn in H. unfold sids in H. rewrite map_map in H. exact H.
  - intros sv v Hsv Hcv. destruct (nj_lnk _ _ _ _ _ _ _ HNd (sc sv) v) as [Ha Hb]; [cbn; apply in_map; exact Hsv|exact Hcv|].
    rewrite app_nil_r in Ha. split; [exact Ha|]. destruct (find_ind v (inds s)) as [vx|] eqn:E; [|rewrite (fw_VW_none _ _ E) in Hb; discriminate].
    exists vx. split; [reflexivity|]. rewrite (fw_VW _ _ _ E) in Hb. exact Hb.
  - apply (HInt (nv nd)). eapply nth_error_In; eauto.
Qed.

Lemma noinv_b_sound cf s : noinv_b cf s = true -> NoInv cf s.
Proof.
  unfold noinv_b, NoInv. generalize (cf_nodes cf) as ncs, (nodes s) as nds. intros ncs nds. revert ncs.
  induction nds as [|nd0 r IH]; intros ncs H k nc nd Hc Hk Hcl; [destruct k; discriminate|].
  destruct ncs as [|nc0 rc]; [destruct k; discriminate|]. cbn [noinv_nodes_b] in H. apply andb_true_iff in H as [H1 H2].
  destruct k as [|k]; cbn in Hc, Hk; [|eapply IH; eauto].
  injection Hc as ->. injection Hk as ->. destruct Hcl as (C1 & C2 & C3). unfold noinv_node_b in H1. rewrite C2 in H1.
  apply Z.eqb_neq in C1. rewrite C1 in H1. destruct (n_c nd); [|congruence]. cbn in H1. rewrite forallb_forall in H1.
  intros sv v vx u ux Hsv Hcv Hvx Hu Hux Hs. specialize (H1 sv Hsv). rewrite Hcv, Hvx in H1. rewrite forallb_forall in H1.
  specialize (H1 u Hu). rewrite Hux, Hs in H1. apply Z.leb_le. exact H1.
Qed.

(* ====================================================================================================================== *)
(* Part 12.  Examples and closed witnesses                                                                               *)
(* ====================================================================================================================== *)
Definition no_draws : draws := mkDraws [] [] [] [] [] [].
(* one node with c servers, priority_preempt option pp, three customer classes = three priority levels, everybody leaves *)
Definition e_nc (pp : Z) : ncfg := mkNcfg None None 0 SFixed pp false [false; false; false] 0.
Definition e_cf (pp : Z) : config :=
  mkCfg 3 [e_nc pp] [0; 1; 2] 3 None [RtNR [RLeave]; RtNR [RLeave]; RtNR [RLeave]] [[None]; [None]; [None]] false
        [[false; false; false]; [false; false; false]; [false; false; false]].
Definition e_node (c : Z) : node :=
  mkNode 1 0 0 [[]; []; []] (map (fun k => mkServer k None false None 0 None 0 false 0 None) (zseq 1 (Z.to_nat c))) [] 0 None [] (Some c) c [] 0 [] [] [] 0 None 0
         None None.
Definition e_s0 (c : Z) : sim := mkSim 0 0 (mkArr 0 0 [[Some 3; Some 2; Some 1]] 1 2 (Some 1)) [e_node c] [] 0 0 [] no_draws [] [[0]; [0]; [0]].
Definition e_d (ia svc : Z) : draws := mkDraws [ia] [1] [svc] [0; 0] [] [].
Definition e_ds : list draws :=
  [e_d 40 100; e_d 30 50; e_d 20 10; e_d 7 8; e_d 9 3; e_d 11 6; e_d 5 4; e_d 13 2; e_d 6 9; e_d 8 5; e_d 10 7; e_d 12 3; e_d 4 6; e_d 9 2].
Definition chk (cf : config) (s : sim) (ds : list draws) : option (bool * bool) :=
  match run_many cf s ds with Ok s' => Some (invj_b cf s', noinv_b cf s') | _ => None end.

(* one server, option resume: the class-2 customer 1 is pre-empted by the class-1 customer 2, which is pre-empted by the class-0 customer
   3; they resume in order of importance; 14 events, the invariant and the claim hold after each (by the theorem, and here by computation) *)
Example ex_in_scope :
  inv_scope (e_cf 1) = true /\ invj_b (e_cf 1) (e_s0 1) = true /\
  map (fun n => chk (e_cf 1) (e_s0 1) (firstn n e_ds)) (seq 0 15) = repeat (Some (true, true)) 15 /\
  match run_many (e_cf 1) (e_s0 1) (firstn 3 e_ds) with
  | Ok s => map (fun nd => (n_queues nd, map (fun sv => (sv_id sv, sv_cust sv)) (n_servers nd))) (nodes s) = [([[3]; [2]; [1]], [(1, Some 3)])] /\
            map (fun x => (i_id x, i_prio x, i_server x, i_smark x)) (inds s) = [(1, 2, None, 1); (2, 1, None, 1); (3, 0, Some 1, 0)]
  | _ => False
  end.
Proof. vm_compute. repeat split; reflexivity. Qed.
Example ex_invariant : InvJ (e_cf 1) (e_s0 1).
Proof. apply invj_b_sound. vm_compute. reflexivity. Qed.
Example ex_run_noinv : forall s', run_many (e_cf 1) (e_s0 1) e_ds = Ok s' -> InvJ (e_cf 1) s' /\ NoInv (e_cf 1) s'.
Proof.
  intros s' H. assert (HJ : InvJ (e_cf 1) s') by (eapply run_many_invJ; [vm_compute; reflexivity|apply ex_invariant|exact H]).
  split; [exact HJ|apply InvJ_NoInv; exact HJ].
Qed.
(* two servers, option restart *)
Example ex_two_servers :
  inv_scope (e_cf 2) = true /\ map (fun n => chk (e_cf 2) (e_s0 2) (firstn n e_ds)) (seq 0 15) = repeat (Some (true, true)) 15.
Proof. vm_compute. split; reflexivity. Qed.

(* class change while waiting, inside the scope: two classes, class 1 changes to class 0 after a sampled time in the queue.  At the third
   event (t = 7) customer 2's class changes while it waits: it moves to the queue of class 0 and pre-empts customer 1 *)
Definition d_cf : config :=
  mkCfg 2 [mkNcfg None None 0 SFixed 1 false [false; false] 0] [0; 1] 2 None [RtNR [RLeave]; RtNR [RLeave]] [[None]; [None]] true
        [[false; false]; [true; false]].
Definition d_node : node :=
  mkNode 1 0 0 [[]; []] [mkServer 1 None false None 0 None 0 false 0 None] [] 0 None [] (Some 1) 1 [] 0 [] [] [] 0 None 0 None None.
Definition d_s0 : sim := mkSim 0 0 (mkArr 0 0 [[None; Some 1]] 1 1 (Some 1)) [d_node] [] 0 0 [] no_draws [] [[0]; [0]].
Definition d_d (ia svc cct : Z) : draws := mkDraws [ia] [1] [svc; svc] [0; 0] [] [cct; cct].
Definition d_ds : list draws :=
  [d_d 1 100 1000; d_d 1 50 5; d_d 1 40 30; d_d 100 20 8; d_d 100 20 8; d_d 100 20 8; d_d 100 20 8; d_d 100 20 8; d_d 100 20 8; d_d 100 20 8].
Example ex_class_change_while_waiting :
  inv_scope d_cf = true /\ invj_b d_cf d_s0 = true /\
  map (fun n => chk d_cf d_s0 (firstn n d_ds)) (seq 0 11) = repeat (Some (true, true)) 11 /\
  match run_many d_cf d_s0 (firstn 4 d_ds), run_many d_cf d_s0 (firstn 5 d_ds) with
  | Ok s4, Ok s5 =>
    (now s4, map n_next_type (nodes s4), map n_queues (nodes s4), map (fun x => (i_id x, i_prio x, i_server x)) (inds s4)) =
      (7, [3], [[[]; [1; 2; 3; 4]]], [(1, 1, Some 1); (2, 1, None); (3, 1, None); (4, 1, None)]) /\
    (map n_queues (nodes s5), map (fun x => (i_id x, i_prio x, i_server x)) (inds s5)) =
      ([[[2]; [1; 3; 4]]], [(1, 1, None); (2, 0, Some 1); (3, 1, None); (4, 1, None)])
  | _, _ => False
  end.
Proof. vm_compute. repeat split; reflexivity. Qed.

(* ---------- outside the scope: closed witnesses ---------- *)
(* an inversion in the sense of the registered check: v holds a server of the node and has a service start date, u is in a queue of
   the node, has no server marker, is not interrupted, neither is blocked, and u is strictly more important than v *)
Definition inversion_b (nd : node) (il : list ind) : bool :=
  existsb (fun sv => match sv_cust sv with
                     | Some v => match find_ind v il with
                                 | Some vx => existsb (fun u => match find_ind u il with
                                                                | Some ux => match i_server ux, i_sst vx with
                                                                             | None, Some _ => negb (i_interrupted ux) && negb (i_blocked ux) && negb (i_blocked vx) &&
                                                                                               (i_prio ux <? i_prio vx)
                                                                             | _, _ => false end
                                                                | None => false end) (concat (n_queues nd))
                                 | None => false end
                     | None => false end) (n_servers nd).
Definition Inversion (s : sim) : Prop :=
  exists nd sv v vx u ux, In nd (nodes s) /\ In sv (n_servers nd) /\ sv_cust sv = Some v /\ find_ind v (inds s) = Some vx /\ i_sst vx <> None /\
    In u (concat (n_queues nd)) /\ find_ind u (inds s) = Some ux /\ i_server ux = None /\ i_interrupted ux = false /\
    i_blocked ux = false /\ i_blocked vx = false /\ i_prio ux < i_prio vx.
Lemma inversion_b_sound s : existsb (fun nd => inversion_b nd (inds s)) (nodes s) = true -> Inversion s.
Proof.
  intros H. apply existsb_exists in H as (nd & Hnd & H). unfold inversion_b in H. apply existsb_exists in H as (sv & Hsv & H).
  destruct (sv_cust sv) as [v|] eqn:Ec; [|discriminate]. destruct (find_ind v (inds s)) as [vx|] eqn:Ev; [|discriminate].
  apply existsb_exists in H as (u & Hu & H). destruct (find_ind u (inds s)) as [ux|] eqn:Eu; [|discriminate].
  destruct (i_server ux) eqn:Es; [discriminate|]. destruct (i_sst vx) eqn:Et; [|discriminate].
  apply andb_true_iff in H as [H H4]. apply andb_true_iff in H as [H H3]. apply andb_true_iff in H as [H1 H2].
  apply negb_true_iff in H1, H2, H3. apply Z.ltb_lt in H4.
  exists nd, sv, v, vx, u, ux. repeat split; try assumption. rewrite Et. discriminate.
Qed.

(* a node with priority pre-emption (resume) AND a server schedule: one server until 10, none until 20, one until 30; pre = the
   schedule's pre-emption option *)
Definition x_nc (pre : Z) : ncfg := mkNcfg None None 0 (SSched (mkSched [10; 20; 30] [1; 0; 1] 0 pre)) 1 false [false; false] 0.
Definition x_cf (pre : Z) : config :=
  mkCfg 2 [x_nc pre] [0; 1] 2 None [RtNR [RLeave]; RtNR [RLeave]] [[None]; [None]] false [[false; false]; [false; false]].
Definition x_node : node := mkNode 1 0 0 [[]; []] [] [] 0 (Some 0) [] (Some 0) 0 [] 0 [] [] [] 1 (Some 0) 0 None None.
Definition x_s0 : sim := mkSim 0 1 (mkArr 0 0 [[Some 12; Some 5]] 1 1 (Some 5)) [x_node] [] 0 0 [] no_draws [] [[0]; [0]].
(* shift change at 0; class-1 customer 1 at 5 (service 100); shift change at 10; class-0 customer 2 at 12; shift change at 20 *)
Definition x_ds : list draws := [ no_draws; mkDraws [1000] [1] [100] [] [] []; no_draws; mkDraws [1000] [1] [50] [] [] []; mkDraws [] [] [30] [] [] [] ].

(* PRE-EMPTIVE schedule (resume): customer 1 is interrupted at 10; customer 2 (more important) arrives at 12 while there is no server;
   at 20 the new server is given to the interrupted customer 1 first (begin_service_if_possible_change_shift serves interrupted customers
   before it looks at the queues) and nothing pre-empts it: customer 2 waits behind a less important customer.  NEW finding (reproduced on
   the real engine: ciw.Schedule(numbers_of_servers=[1,0,1], shift_end_dates=[10,20,30], preemption='resume'), priority_classes
   ({'Class 0': 0, 'Class 1': 1}, ['resume'])). *)
Theorem noinv_refuted_preemptive_schedule : exists cf s ds s',
  inv_scope cf = false /\ inds s = [] /\ run_many cf s ds = Ok s' /\ Inversion s'.
Proof.
  assert (E : match run_many (x_cf 1) x_s0 x_ds with Ok s' => existsb (fun nd => inversion_b nd (inds s')) (nodes s') | _ => false end = true)
    by (vm_compute; reflexivity).
  destruct (run_many (x_cf 1) x_s0 x_ds) as [s'| |] eqn:Er; try discriminate E.
  exists (x_cf 1), x_s0, x_ds, s'. split; [vm_compute; reflexivity|]. split; [reflexivity|]. split; [exact Er|apply inversion_b_sound; exact E].
Qed.
(* NON-pre-emptive schedule: at 10 the server goes off duty but finishes customer 1 (overtime); customer 2 arrives at 12: the node has
   c = 0 servers on duty, so decide_preempt is not even called (node.py: `self.c > 0`): the more important customer waits while the
   less important one is served, until the next shift.  NEW finding (same network with preemption=False), next to F-12d. *)
Theorem noinv_refuted_overtime : exists cf s ds s',
  inv_scope cf = false /\ inds s = [] /\ run_many cf s ds = Ok s' /\ Inversion s'.
Proof.
  assert (E : match run_many (x_cf 0) x_s0 (firstn 4 x_ds) with Ok s' => existsb (fun nd => inversion_b nd (inds s')) (nodes s') | _ => false end = true)
    by (vm_compute; reflexivity).
  destruct (run_many (x_cf 0) x_s0 (firstn 4 x_ds)) as [s'| |] eqn:Er; try discriminate E.
  exists (x_cf 0), x_s0, (firstn 4 x_ds), s'. split; [vm_compute; reflexivity|]. split; [reflexivity|]. split; [exact Er|apply inversion_b_sound; exact E].
Qed.

(* node capacities together with a class-change matrix (region of F-02a).  Node 1: one server, priority pre-emption, customers of class 0
   become class 1 (less important) when their service ends and go to node 2, which holds one customer; class 2 (as important as class 0)
   leaves.  Customer 2 ends its service at node 1, becomes class 1 and is BLOCKED (node 2 is full) holding the server; customer 3 (class 2)
   pre-empts the blocked customer; customer 4 (class 2) queues behind it in the queue of class 0, where customer 2 still stands although
   it now has priority 1; when customer 3 leaves, customer 2 is SERVED AGAIN before customer 4: the claim fails (and the clock goes back,
   F-02a).  The registered check does not look at a node that holds a blocked customer. *)
Definition b_cf : config :=
  mkCfg 3 [mkNcfg None (Some [[0; 8; 0]; [0; 8; 0]; [0; 0; 8]]) 0 SFixed 1 false [false; false; false] 0;
           mkNcfg (Some 1) None 0 SFixed 0 false [false; false; false] 0]
        [0; 1; 0] 2 None
        [RtNR [RDirect 2; RLeave]; RtNR [RDirect 2; RLeave]; RtNR [RLeave; RLeave]]
        [[None; None]; [None; None]; [None; None]] false
        [[false; false; false]; [false; false; false]; [false; false; false]].
Definition b_node (j : Z) : node :=
  mkNode j 0 0 [[]; []] [mkServer 1 None false None 0 None 0 false 0 None] [] 0 None [] (Some 1) 1 [] 0 [] [] [] 0 None 0 None None.
Definition b_s0 : sim :=
  mkSim 0 0 (mkArr 0 0 [[Some 1; None; Some 20]; [None; None; None]] 1 0 (Some 1)) [b_node 1; b_node 2] [] 0 0 [] no_draws [] [[0; 0]; [0; 0]; [0; 0]].
Definition b_d (ia svc : Z) : draws := mkDraws [ia] [1] [svc; svc] [4503599627370496; 4503599627370496] [] [].
Definition b_ds : list draws := [b_d 9 2; b_d 0 1000; b_d 1000 5; b_d 0 0; b_d 1 10; b_d 1000 7; b_d 0 0].
Lemma noinv_b_complete cf s : NoInv cf s -> noinv_b cf s = true.
Proof.
  unfold noinv_b, NoInv. generalize (cf_nodes cf) as ncs, (nodes s) as nds. intros ncs nds. revert ncs.
  induction nds as [|nd r IH]; intros ncs H; [reflexivity|]. destruct ncs as [|nc rc]; [reflexivity|]. cbn [noinv_nodes_b]. apply andb_true_iff. split.
  - unfold noinv_node_b. destruct (nc_preempt nc =? 0) eqn:E0; [reflexivity|]. destruct (nc_srv nc) eqn:Es; try reflexivity. destruct (n_c nd) eqn:Ec; [|reflexivity].
    cbn. apply forallb_forall. intros sv Hsv. destruct (sv_cust sv) as [v|] eqn:Ecv; [|reflexivity]. destruct (find_ind v (inds s)) as [vx|] eqn:Ev; [|reflexivity].
    apply forallb_forall. intros u Hu. destruct (find_ind u (inds s)) as [ux|] eqn:Eu; [|reflexivity]. destruct (i_server ux) eqn:Esu; [reflexivity|].
    apply Z.leb_le. apply (H 0%nat nc nd eq_refl eq_refl) with (sv := sv) (v := v) (u := u); auto.
    split; [apply Z.eqb_neq; exact E0|]. split; [exact Es|congruence].
  - apply IH. intros k nc' nd' Hc Hk. apply (H (S k) nc' nd' Hc Hk).
Qed.
Theorem noinv_refuted_blocked_class_change : exists cf s ds s',
  inv_scope cf = false /\ invj_b cf s = true /\ inds s = [] /\ run_many cf s ds = Ok s' /\ ~ NoInv cf s'.
Proof.
  assert (E : match run_many b_cf b_s0 b_ds with Ok s' => negb (noinv_b b_cf s') | _ => false end = true) by (vm_compute; reflexivity).
  exists b_cf, b_s0, b_ds. destruct (run_many b_cf b_s0 b_ds) as [s'| |] eqn:Er; try discriminate E. exists s'. apply negb_true_iff in E.
  split; [vm_compute; reflexivity|]. split; [vm_compute; reflexivity|]. split; [reflexivity|]. split; [reflexivity|].
  intros F. apply noinv_b_complete in F. congruence.
Qed.
(* what the final state of that run looks like *)
Example blocked_class_change_state :
  match run_many b_cf b_s0 b_ds with
  | Ok s' => map (fun nd => (n_queues nd, map (fun sv => (sv_id sv, sv_cust sv)) (n_servers nd))) (nodes s') =
               [([[2; 4]; []], [(1, Some 2)]); ([[]; [1]], [(1, Some 1)])] /\
             map (fun x => (i_id x, i_prio x, i_server x, i_blocked x)) (inds s') = [(1, 1, Some 1, false); (2, 1, Some 1, true); (4, 0, None, false)]
  | _ => False
  end.
Proof. vm_compute. split; reflexivity. Qed.

Print Assumptions event_step_invJ.
Print Assumptions run_many_invJ.
Print Assumptions run_many_noinv.
Print Assumptions NoInv_means.
Print Assumptions invj_b_sound.
Print Assumptions noinv_b_sound.
Print Assumptions ex_run_noinv.
Print Assumptions ex_class_change_while_waiting.
Print Assumptions noinv_refuted_preemptive_schedule.
Print Assumptions noinv_refuted_overtime.
Print Assumptions noinv_refuted_blocked_class_change.

(* Capacity.v -- T2 for C06 on the engine model: after every event no node holds more than its capacity (servers + queue
   capacity) and the system holds no more than the system capacity -- for every configuration, every state satisfying the
   invariants and every oracle of draws.  What makes it true are the three admission tests of the code:
   release_individual (external arrivals), finish_service (transfer or block) and release_blocked_individual (cascade). *)
From Coq Require Import ZArith List Bool Lia Permutation.
From RecordUpdate Require Import RecordUpdate.
From CiwV Require Import Sx Prelude Routing.
From CiwV.Engine Require Import State Engine Codec.
From CiwV.Inv Require Import Frame Conserve ConserveRun.
Import ListNotations.
Open Scope Z_scope.

Definition cap_of (cf : config) (j : Z) : option Z :=
  match nthZ (cf_nodes cf) (j - 1) with Some nc => nc_cap nc | None => None end.
Definition under (cf : config) (j p : Z) : Prop := match cap_of cf j with Some c => p <= c | None => True end.
Definition below (cf : config) (j p : Z) : Prop := match cap_of cf j with Some c => p < c | None => True end.

(* population of node j as the state reports it *)
Definition popZ (s : sim) (j : Z) : option Z := option_map n_pop (nthZ (nodes s) (j - 1)).
Definition Cap (cf : config) (s : sim) : Prop := forall j p, popZ s j = Some p -> under cf j p.

Lemma nodes_shape_nth s s' k : shp s' = shp s -> option_map nshape (nth_error (nodes s') k) = option_map nshape (nth_error (nodes s) k).
Proof. intros H. unfold shp in H. injection H as H _ _ _. rewrite <- !nth_error_map, H. reflexivity. Qed.
Lemma popZ_shape s s' j : shp s' = shp s -> popZ s' j = popZ s j.
Proof.
  intros H. unfold popZ, nthZ. destruct (j - 1 <? 0); [reflexivity|].
  pose proof (nodes_shape_nth s s' (Z.to_nat (j - 1)) H) as E.
  destruct (nth_error (nodes s') (Z.to_nat (j - 1))) as [a|], (nth_error (nodes s) (Z.to_nat (j - 1))) as [b|]; cbn in *; try discriminate; [|reflexivity].
  unfold nshape in E. inversion E. reflexivity.
Qed.
Lemma Cap_shape cf s s' : shp s' = shp s -> Cap cf s -> Cap cf s'.
Proof. intros H HC j p Hp. rewrite (popZ_shape _ _ _ H) in Hp. auto. Qed.

(* writing node nd (identity j) back into its slot: populations of the other nodes are unchanged *)
Lemma popZ_put nd s s' j : put_node nd s = Ok (tt, s') -> n_id nd = j -> (exists nd0, nthZ (nodes s) (j - 1) = Some nd0) ->
  forall j', popZ s' j' = if j' =? j then Some (n_pop nd) else popZ s j'.
Proof.
  intros H Hid [nd0 Hn] j'. unfold put_node, modify in H. inversion H. subst s'. clear H. unfold popZ. cbn [nodes].
  rewrite Hid. destruct (nthZ_nat _ _ _ Hn) as (k & Hk & Hnk). cbn.
  destruct (j' =? j) eqn:E.
  - apply Z.eqb_eq in E. subst j'. rewrite Hk, updZ_nat. unfold nthZ. destruct (Z.of_nat k <? 0) eqn:E0; [apply Z.ltb_lt in E0; lia|].
    cbn [nodes]. rewrite Nat2Z.id. cbn. rewrite (nth_error_upd_eq _ _ _ _ Hnk). reflexivity.
  - apply Z.eqb_neq in E. rewrite Hk, updZ_nat. unfold nthZ. destruct (j' - 1 <? 0) eqn:E0; [reflexivity|].
    apply Z.ltb_ge in E0. cbn. rewrite nth_error_upd_neq by lia. reflexivity.
Qed.
Lemma Idx_put nd s s' : put_node nd s = Ok (tt, s') -> Idx s -> (exists nd0, nthZ (nodes s) (n_id nd - 1) = Some nd0) -> Idx s'.
Proof.
  intros H HI [nd0 Hn] k x Hk. unfold put_node, modify in H. inversion H. subst s'. clear H.
  destruct (nthZ_nat _ _ _ Hn) as (k0 & Hk0 & Hnk). rewrite Hk0, updZ_nat in Hk. cbn in Hk.
  destruct (Nat.eq_dec k0 k) as [<-|Hne].
  - rewrite (nth_error_upd_eq _ _ _ _ Hnk) in Hk. injection Hk as <-. lia.
  - rewrite nth_error_upd_neq in Hk by exact Hne. apply (HI _ _ Hk).
Qed.

Section Capacity.
  Variable cf : config.

  Ltac mstep H :=
    match type of H with
    | bind ?m ?f ?s = Ok _ =>
      let a := fresh "a" in let s1 := fresh "s" in let E := fresh "E" in
      unfold bind in H at 1; destruct (m s) as [[a s1]| |] eqn:E; [|discriminate H|discriminate H];
      first [ (apply gets_spec in E as [-> ->])
            | (apply ro_gets in E; subst s1)
            | (apply ro_lift in E; subst s1)
            | (apply ro_ncfg_of in E; subst s1)
            | (apply ro_is_inf in E; subst s1)
            | (let Hn := fresh "Hn" in apply get_node_spec in E as [-> Hn])
            | (let Hi := fresh "Hid" in apply get_ind_id in E as [-> Hi])
            | idtac ]
    end.

  (* the invariant carried through the walks: node identities are positions, and nobody is over capacity *)
  Definition J (s : sim) : Prop := Idx s /\ Cap cf s.
  Lemma J_shape s s' : shp s' = shp s -> J s -> J s'.
  Proof. intros H [A B]. split; [eapply Idx_shape; eauto|eapply Cap_shape; eauto]. Qed.
  Lemma J_presI {A} (m : M A) s a s' : presI m -> J s -> m s = Ok (a, s') -> J s' /\ forall j, popZ s' j = popZ s j.
  Proof. intros Hm HJ H. pose proof (Hm _ _ _ (proj1 HJ) H) as E. split; [eapply J_shape; eauto|intros; apply popZ_shape; exact E]. Qed.
  Lemma J_pres {A} (m : M A) s a s' : pres m -> J s -> m s = Ok (a, s') -> J s' /\ forall j, popZ s' j = popZ s j.
  Proof. intros Hm. apply J_presI. apply pres_presI. exact Hm. Qed.

  Ltac jp lem :=
    match goal with
    | W : J ?s, E : ?m ?s = Ok (_, ?s1) |- _ =>
      let W' := fresh "W" in let P := fresh "P" in let HH := fresh "HH" in
      assert (HH : pres m) by (apply lem);
      destruct (J_pres m s _ s1 HH W E) as [W' P]; clear W E HH
    end.
  Ltac jpI lem :=
    match goal with
    | W : J ?s, E : ?m ?s = Ok (_, ?s1) |- _ =>
      let W' := fresh "W" in let P := fresh "P" in let HH := fresh "HH" in
      assert (HH : presI m) by (apply lem);
      destruct (J_presI m s _ s1 HH W E) as [W' P]; clear W E HH
    end.

  Lemma popZ_exists s j p : popZ s j = Some p -> exists nd0, nthZ (nodes s) (j - 1) = Some nd0 /\ n_pop nd0 = p.
  Proof. unfold popZ. destruct (nthZ (nodes s) (j - 1)) as [nd|]; cbn; [intros H; injection H as <-; eauto|discriminate]. Qed.
  Lemma popZ_of s j nd : nthZ (nodes s) (j - 1) = Some nd -> popZ s j = Some (n_pop nd).
  Proof. unfold popZ. intros ->. reflexivity. Qed.

  (* write node j back with population p' <= capacity: J is kept, only j's population changes *)
  Lemma J_put nd s s' j p' : J s -> put_node nd s = Ok (tt, s') -> n_id nd = j -> (exists q, popZ s j = Some q) -> n_pop nd = p' -> under cf j p' ->
    J s' /\ forall j', popZ s' j' = if j' =? j then Some p' else popZ s j'.
  Proof.
    intros [HI HC] H Hid [q Hq] Hp Hu. destruct (popZ_exists _ _ _ Hq) as (nd0 & Hn0 & _).
    assert (HP : forall j', popZ s' j' = if j' =? j then Some p' else popZ s j').
    { intros j'. rewrite (popZ_put nd s s' j H Hid (ex_intro _ nd0 Hn0) j'), Hp. reflexivity. }
    split; [|exact HP]. split.
    - eapply Idx_put; [exact H|exact HI|rewrite Hid; eauto].
    - intros j' p0 H0. rewrite HP in H0. destruct (j' =? j) eqn:E; [apply Z.eqb_eq in E; subst j'; injection H0 as <-; exact Hu|apply HC; exact H0].
  Qed.

  (* ---------- accept: one more customer at node j, fine when there was space ---------- *)
  Lemma accept_cap j x s s' p : J s -> popZ s j = Some p -> below cf j p -> accept cf j x s = Ok (tt, s') ->
    J s' /\ forall j', popZ s' j' = if j' =? j then Some (p + 1) else popZ s j'.
  Proof.
    intros HJ Hp Hb H. unfold accept in H.
    mstep H. pose proof (Idx_get _ _ _ (proj1 HJ) Hn) as Hid.
    assert (Hpa : n_pop a = p) by (rewrite (popZ_of _ _ _ Hn) in Hp; congruence).
    mstep H. jp pres_put_ind.
    mstep H.
    mstep H.
    match goal with E : put_node ?nd ?s0 = Ok (?u, ?s1), W : J ?s0 |- _ =>
      destruct u; destruct (J_put nd s0 s1 j (p + 1) W E) as [W1 P1];
      [cbn; exact Hid|exists p; rewrite P; exact Hp|cbn; lia|unfold under, below in *; destruct (cap_of cf j); [lia|exact I]|]; clear W E end.
    jpI presI_bsip_accept.
    split; [assumption|]. intros j'. rewrite P0, P1. destruct (j' =? j); [reflexivity|apply P].
  Qed.

  Lemma exit_accept_cap x c s s' : J s -> exit_accept x c s = Ok (tt, s') -> J s' /\ forall j, popZ s' j = popZ s j.
  Proof.
    intros HJ H. unfold exit_accept in H. mstep H. jp (pres_del_ind (i_id x)).
    unfold modify in H. inversion H. subst s'. split.
    - destruct W as [A B]. split; [intros k nd Hk; apply (A k nd Hk)|intros j p Hp; apply (B j p Hp)].
    - intros j. rewrite <- P. reflexivity.
  Qed.

  Lemma ret_spec {A} (x : A) s a s' : ret x s = Ok (a, s') -> s' = s /\ a = x.
  Proof. intros H. inversion H. auto. Qed.
  Lemma lift_spec {A} e (o : option A) s a s' : lift e o s = Ok (a, s') -> s' = s /\ o = Some a.
  Proof. destruct o; cbn; intros H; inversion H. auto. Qed.

  Ltac mstep2 H :=
    match type of H with
    | bind ?m ?f ?s = Ok _ =>
      let a := fresh "a" in let s1 := fresh "s" in let E := fresh "E" in
      unfold bind in H at 1; destruct (m s) as [[a s1]| |] eqn:E; [|discriminate H|discriminate H];
      first [ (apply gets_spec in E as [-> ->])
            | (let Hl := fresh "Hl" in apply lift_spec in E as [-> Hl])
            | (apply ro_is_inf in E; subst s1)
            | (let Hn := fresh "Hn" in apply get_node_spec in E as [-> Hn])
            | (let Hi := fresh "Hid" in apply get_ind_id in E as [-> Hi])
            | idtac ]
    end.

  (* a node is written back with the same identity and population: J and all populations are kept *)
  Lemma J_put_same nd nd0 s s' j : J s -> nthZ (nodes s) (j - 1) = Some nd0 -> nshape nd = nshape nd0 ->
    put_node nd s = Ok (tt, s') -> J s' /\ forall j', popZ s' j' = popZ s j'.
  Proof.
    intros HJ Hn Hs H. assert (Hid : n_id nd = j).
    { unfold nshape in Hs. injection Hs as -> _ _. apply (Idx_get _ _ _ (proj1 HJ) Hn). }
    assert (Hsh : shp s' = shp s) by (eapply put_node_shape; [exact H|rewrite Hid; exact Hn|symmetry; exact Hs]).
    split; [eapply J_shape; eauto|intros; apply popZ_shape; exact Hsh].
  Qed.

  (* ---------- release with the cascade: the destination had space, or is the releasing node itself ---------- *)
  Lemma release_cap : forall f j i d s s', J s ->
    (d = 0 \/ d = j \/ exists p, popZ s d = Some p /\ below cf d p) ->
    release cf f j i d s = Ok (tt, s') -> J s'.
  Proof.
    induction f as [|f IH]; intros j i d s s' HJ Hd H; [discriminate|].
    cbn [release] in H.
    mstep2 H. mstep2 H. mstep2 H. mstep2 H. mstep2 H.
    pose proof (Idx_get _ _ _ (proj1 HJ) Hn) as Hidj.
    pose proof (proj2 HJ j (n_pop a0) (popZ_of _ _ _ Hn)) as Hu.
    (* the customer leaves node j: population - 1 *)
    mstep2 H.
    match goal with E : put_node ?nd ?s0 = Ok (?u, ?s1) |- _ =>
      destruct u; destruct (J_put nd s0 s1 j (n_pop a0 - 1) HJ E) as [W1 P1];
      [cbn; exact Hidj|exists (n_pop a0); apply popZ_of; exact Hn|cbn; lia|
       unfold under in *; destruct (cap_of cf j); [lia|exact I]|]; clear E end.
    (* after the removal the destination certainly has space *)
    assert (Hd1 : d = 0 \/ exists p, popZ s0 d = Some p /\ below cf d p).
    { destruct Hd as [->|[->|(p & Hp & Hb)]]; [left; reflexivity| |].
      - right. exists (n_pop a0 - 1). split; [rewrite P1, Z.eqb_refl; reflexivity|].
        unfold under, below in *. destruct (cap_of cf j); [lia|exact I].
      - right. destruct (d =? j) eqn:E.
        + apply Z.eqb_eq in E. subst d. exists (n_pop a0 - 1). split; [rewrite P1, Z.eqb_refl; reflexivity|].
          rewrite (popZ_of _ _ _ Hn) in Hp. injection Hp as <-. unfold below in *. destruct (cap_of cf j); [lia|exact I].
        + exists p. split; [rewrite P1, E; exact Hp|exact Hb]. }
    clear HJ Hd Hu.
    mstep2 H. jp pres_put_ind.
    mstep2 H. jp pres_write_individual_record.
    mstep2 H.
    mstep2 H.
    match goal with E : (if ?inf then _ else _) ?s2 = Ok (_, ?s3), W : J ?s2 |- _ =>
      assert (W4 : J s3 /\ forall j', popZ s3 j' = popZ s2 j');
      [ destruct inf; [apply ret_spec in E as [-> _]; split; [exact W|reflexivity]|];
        mstep2 E; mstep2 E; mstep2 E; mstep2 E; mstep2 E;
        match goal with E' : put_node _ _ = Ok (?u, _) |- _ => destruct u end;
        apply ret_spec in E as [-> _];
        match goal with E' : put_node ?nd2 ?sa = Ok (tt, ?sb), Hn' : nthZ (nodes ?sa) (j - 1) = Some ?nd0 |- _ =>
          apply (J_put_same nd2 nd0 sa sb j W Hn' eq_refl E') end
      | destruct W4 as [W4 P4]; clear W E ] end.
    mstep2 H.
    mstep2 H. jp pres_put_ind.
    mstep2 H. jpI presI_bsip_release.
    (* the customer lands *)
    mstep2 H.
    match goal with E : (if d =? 0 then _ else _) ?s5 = Ok (?u, ?s6), W : J ?s5 |- _ =>
      destruct u; assert (W7 : J s6);
      [ destruct (d =? 0) eqn:Ed0;
        [ apply (proj1 (exit_accept_cap _ _ _ _ W E))
        | destruct Hd1 as [->|(p & Hp & Hb)]; [discriminate Ed0|];
          refine (proj1 (accept_cap d _ _ _ p W _ Hb E));
          repeat match goal with P : forall j', popZ _ j' = popZ _ j' |- _ => rewrite P; clear P end; exact Hp ]
      | clear W E ] end.
    (* release_blocked_individual *)
    mstep2 H. mstep2 H.
    match type of H with (if ?c then _ else _) _ = _ => destruct c eqn:Ec end; [|apply ret_spec in H as [-> _]; exact W7].
    apply andb_true_iff in Ec as [_ Ec].
    match type of H with (match ?l with _ => _ end) _ = _ => destruct l as [|[from y] rest] end; [discriminate|].
    mstep2 H. mstep2 H.
    match goal with E : (if ?b then ret tt else _) ?sa = Ok (_, ?sb) |- _ =>
      assert (Hsb : sb = sa) by (destruct b; [inversion E; reflexivity|discriminate E]); rewrite Hsb in *; clear E Hsb end.
    mstep2 H.
    match goal with E : put_node ?nd3 ?sa = Ok (?u, ?sb), W : J ?sa, Hn' : nthZ (nodes ?sa) (j - 1) = Some ?nd0 |- _ =>
      destruct u; destruct (J_put_same nd3 nd0 sa sb j W Hn' eq_refl E) as [W8 P8] end.
    eapply IH; [exact W8| |exact H].
    right. right.
    match goal with Hn' : nthZ (nodes ?sa) (j - 1) = Some ?nd0, Hl : nthZ (cf_nodes cf) (j - 1) = Some ?nc |- _ =>
      exists (n_pop nd0); split; [rewrite P8; apply popZ_of; exact Hn'|];
      unfold below, cap_of; rewrite Hl; destruct (nc_cap nc); [apply Z.ltb_lt; exact Ec|exact I] end.
  Qed.

  (* ---------- finish_service: transfer only into a node with space, otherwise block ---------- *)
  Lemma finish_service_cap j s s' : J s -> finish_service cf j s = Ok (tt, s') -> J s'.
  Proof.
    intros HJ H. unfold finish_service in H.
    mstep2 H.
    mstep2 H.
    match goal with E : (match ?l with _ => _ end) s = Ok (_, ?s1) |- _ =>
      assert (W1 : J s1) by
        (destruct l as [|i0 [|i1 r]]; [discriminate E|apply ret_spec in E as [-> _]; exact HJ|
         exact (proj1 (J_pres _ _ _ _ (pres_choice_uniform _) HJ E))]); clear HJ E end.
    mstep2 H. mstep2 H.
    mstep2 H.
    match goal with E : (match nc_ccm ?nc with _ => _ end) ?s0 = Ok (_, ?s1) |- _ =>
      assert (W2 : J s1);
      [ destruct (nc_ccm nc) as [m|]; [|apply ret_spec in E as [-> _]; exact W1];
        mstep2 E; mstep2 E; jp pres_choice_weighted; mstep2 E; apply ret_spec in E as [-> _]; assumption
      | clear W1 E ] end.
    mstep2 H. mstep2 H.
    mstep2 H. jp pres_choice_weighted.
    mstep2 H. jp pres_put_ind.
    mstep2 H.
    mstep2 H.
    match goal with E : (if ?inf then _ else _) ?s0 = Ok (_, ?s1), W : J ?s0 |- _ =>
      assert (W5 : J s1);
      [ destruct inf; [apply ret_spec in E as [-> _]; exact W|];
        mstep2 E; mstep2 E; mstep2 E;
        match goal with E' : put_node ?nd2 ?sa = Ok (?u, ?sb), Hn' : nthZ (nodes ?sa) (j - 1) = Some ?nd0 |- _ =>
          destruct u; apply (proj1 (J_put_same nd2 nd0 sa sb j W Hn' eq_refl E')) end
      | clear W E ] end.
    mstep2 H.
    match goal with E : (if ?dz then ret true else _) ?s0 = Ok (?sp, ?s1) |- _ =>
      assert (Hsp : s1 = s0 /\ (sp = true -> (dz = true \/ exists p, popZ s0 (if Nat.ltb a6 (length a5) then Z.of_nat a6 + 1 else 0) = Some p /\ below cf (if Nat.ltb a6 (length a5) then Z.of_nat a6 + 1 else 0) p)));
      [ destruct dz; [apply ret_spec in E as [-> _]; split; [reflexivity|intros; left; reflexivity]|];
        mstep2 E; mstep2 E; apply ret_spec in E as [-> ->]; split; [reflexivity|];
        intros Hc; right;
        match goal with Hn' : nthZ (nodes _) (_ - 1) = Some ?dn, Hl' : nthZ (cf_nodes cf) (_ - 1) = Some ?dc |- _ =>
          exists (n_pop dn); split; [apply popZ_of; exact Hn'|unfold below, cap_of; rewrite Hl'; destruct (nc_cap dc); [apply Z.ltb_lt; exact Hc|exact I]] end
      | destruct Hsp as [-> Hsp]; clear E ] end.
    match type of H with (if ?sp then _ else _) _ = _ => destruct sp end.
    - mstep2 H. eapply release_cap; [eassumption| |exact H].
      destruct (Hsp eq_refl) as [Hz|Hp]; [left; apply Z.eqb_eq; exact Hz|right; right; exact Hp].
    - exact (proj1 (J_presI _ _ _ _ (presI_block_individual _ _ _) W5 H)).
  Qed.

  (* ---------- arrivals: admitted only when the node (and the system) has space ---------- *)
  Lemma release_individual_cap j x s s' : J s -> release_individual cf j x s = Ok (tt, s') -> J s'.
  Proof.
    intros HJ H. unfold release_individual in H.
    mstep2 H. mstep2 H.
    mstep2 H.
    try match goal with E : sys_population _ = Ok (_, ?s1) |- _ =>
      assert (Hs1 : s1 = s) by (unfold sys_population in E; mstep2 E; apply ret_spec in E as [-> _]; reflexivity); rewrite Hs1 in *; clear E Hs1 end.
    mstep2 H. jp pres_put_ind.
    assert (Hp : forall sa, (forall j', popZ sa j' = popZ s j') -> popZ sa j = Some (n_pop a)) by (intros sa Hsa; rewrite Hsa; apply popZ_of; exact Hn).
    match type of H with (if ?b then _ else _) _ = _ => destruct b eqn:Efull end.
    - mstep2 H. jp pres_write_br_record.
      match goal with W : J ?sa |- _ => exact (proj1 (exit_accept_cap _ _ _ _ W H)) end.
    - apply orb_false_iff in Efull as [Ecap _].
      assert (Hb : below cf j (n_pop a)).
      { unfold below, cap_of. rewrite Hl. destruct (nc_cap a0); [apply Z.leb_gt; exact Ecap|exact I]. }
      mstep2 H. mstep2 H.
      match type of H with (match ?t with _ => _ end) _ = _ => destruct t as [tb|] end.
      + mstep2 H. jp pres_draw_unif.
        match type of H with (if ?b then _ else _) _ = _ => destruct b end.
        * mstep2 H. jp pres_write_br_record.
          match goal with W : J ?sa |- _ => exact (proj1 (exit_accept_cap _ _ _ _ W H)) end.
        * mstep2 H.
          match goal with E : modify ?f ?sa = Ok (_, ?sb), W : J ?sa |- _ =>
            assert (HH : pres (modify f)) by (apply pres_modify; intros ?; reflexivity);
            destruct (J_pres _ _ _ _ HH W E) as [W2 P2] end.
          refine (proj1 (accept_cap j x _ _ (n_pop a) W2 _ Hb H)). apply Hp. intros j'.
          repeat match goal with Q : forall j0, popZ _ j0 = popZ _ j0 |- _ => rewrite Q; clear Q end. reflexivity.
      + mstep2 H.
        match goal with E : modify ?f ?sa = Ok (_, ?sb), W : J ?sa |- _ =>
          assert (HH : pres (modify f)) by (apply pres_modify; intros ?; reflexivity);
          destruct (J_pres _ _ _ _ HH W E) as [W2 P2] end.
        refine (proj1 (accept_cap j x _ _ (n_pop a) W2 _ Hb H)). apply Hp. intros j'.
        repeat match goal with Q : forall j0, popZ _ j0 = popZ _ j0 |- _ => rewrite Q; clear Q end. reflexivity.
  Qed.

  Lemma J_nodes s s' : nodes s' = nodes s -> J s -> J s'.
  Proof.
    intros H [A B]. split.
    - intros k nd Hk. rewrite H in Hk. apply (A k nd Hk).
    - intros j p Hp. unfold popZ in Hp. rewrite H in Hp. apply (B j p Hp).
  Qed.

  Lemma batch_loop_cap : forall n j c p s s', J s -> batch_loop cf n j c p s = Ok (tt, s') -> J s'.
  Proof.
    induction n as [|n IH]; intros j c p s s' HJ H; cbn [batch_loop] in H; [apply ret_spec in H as [-> _]; exact HJ|].
    mstep2 H.
    match goal with E : modify ?f s = Ok (_, ?sb) |- _ =>
      assert (W1 : J sb) by (unfold modify in E; inversion E; eapply J_nodes; [|exact HJ]; reflexivity); clear E end.
    mstep2 H.
    mstep2 H.
    match goal with E : release_individual _ _ _ ?s0 = Ok (?u, ?s1) |- _ =>
      destruct u; pose proof (release_individual_cap _ _ _ _ W1 E) as W2 end.
    eapply IH; eauto.
  Qed.

  Ltac jmod :=
    match goal with
    | E : modify ?f ?sa = Ok (_, ?sb), W : J ?sa |- _ =>
      let W' := fresh "W" in
      assert (W' : J sb) by (unfold modify in E; inversion E; eapply J_nodes; [|exact W]; reflexivity); clear W E
    end.

  Lemma arrival_have_event_cap s s' : J s -> arrival_have_event cf s = Ok (tt, s') -> J s'.
  Proof.
    intros HJ H. unfold arrival_have_event in H.
    mstep2 H.
    mstep2 H. jp pres_draw_batch.
    mstep2 H.
    match goal with E : (if ?b then _ else _) ?s0 = Ok (_, ?s1) |- _ =>
      assert (Hs : s1 = s0) by (destruct b; [discriminate E|apply ret_spec in E as [-> _]; reflexivity]); rewrite Hs in *; clear E Hs end.
    mstep2 H.
    mstep2 H.
    match goal with E : batch_loop _ _ _ _ _ ?s0 = Ok (?u, ?s1), W : J ?s0 |- _ =>
      destruct u; pose proof (batch_loop_cap _ _ _ _ _ _ W E) as W2; clear W E end.
    mstep2 H. jp pres_draw_arr.
    mstep2 H. mstep2 H. mstep2 H.
    mstep2 H. jmod.
    match goal with W : J ?sa |- _ => exact (proj1 (J_pres _ _ _ _ pres_find_next_event_date W H)) end.
  Qed.

  (* ---------- T2 for C06 (node capacities): one event, then any number ---------- *)
  Theorem event_step_cap s s' : J s -> event_step cf s = Ok (tt, s') -> J s'.
  Proof.
    intros HJ H. unfold event_step in H.
    mstep2 H. jmod.
    mstep2 H.
    mstep2 H.
    match goal with E : (if ?b then _ else _) ?s0 = Ok (?u, ?s1), W : J ?s0 |- _ =>
      destruct u; assert (W2 : J s1) by (destruct b; [eapply arrival_have_event_cap; eauto|eapply finish_service_cap; eauto]); clear W E end.
    mstep2 H.
    mstep2 H. jpI presI_update_all.
    match goal with W : J ?sa |- _ => exact (proj1 (J_pres _ _ _ _ pres_find_next_active_node W H)) end.
  Qed.

  Theorem run_many_cap : forall ds s s', J s -> run_many cf s ds = Ok s' -> J s'.
  Proof.
    induction ds as [|d r IH]; intros s s' HJ H; cbn [run_many] in H; [inversion H; subst; exact HJ|].
    destruct (event_step cf (s <| dr := d |>)) as [[u s1]| |] eqn:E; try discriminate. destruct u.
    eapply IH; [|exact H]. eapply event_step_cap; [|exact E]. eapply J_nodes; [|exact HJ]. reflexivity.
  Qed.

  (* in the words of the property: every node's population is at most its capacity (servers + queue capacity) *)
  Theorem J_means s : J s -> forall k nd c, nth_error (nodes s) k = Some nd -> cap_of cf (Z.of_nat k + 1) = Some c -> n_pop nd <= c.
  Proof.
    intros [_ HC] k nd c Hk Hc. specialize (HC (Z.of_nat k + 1) (n_pop nd)). unfold under in HC. rewrite Hc in HC. apply HC.
    unfold popZ, nthZ. replace (Z.of_nat k + 1 - 1) with (Z.of_nat k) by lia.
    destruct (Z.of_nat k <? 0) eqn:E; [apply Z.ltb_lt in E; lia|]. rewrite Nat2Z.id, Hk. reflexivity.
  Qed.
End Capacity.

(* Preempt2.v -- T2 for C11 (pre-emption and resumption) on the STAGE-2 engine model (State2 / Engine2 / Codec2).
   (a) preempt_victim (Python: Node.decide_preempt): who is pre-empted, and when nobody is            [preempt_victim_spec]
   (b) preempt with option resume / restart / resample: victim, pre-emptor, server, node, records     [preempt_spec, preempt_victim_after]
   (c) how a service time is given back: give_service_time_after_preemption                           [give_after_resume / _restart / _resample / _needs_attr]
       and the blocks that start the service of a pre-empted / interrupted customer                  [start_give_spec, start_preemptor_spec,
                                                                                                       resume_gives_time_left, restart_gives_original,
                                                                                                       resample_gives_fresh, biis_spec]
   (d) invariant SvcInv (no customer flagged interrupted; end date = start date + service time whenever a customer has the
       three) over any number of events, scope: no pre-emptive schedule / pre-emptive capacitated slots   [event_step_SvcInv, run_many_SvcInv]
       and with it the identity of one resume stint: (time served) + (time_left stored) = (service time of the stint), the record
       shows exactly that stint, and the stored time_left is what the next start gives                   [preempt_resume_telescope]
   Refuted (closed witnesses from an empty system): time_left >= 0 and clock monotonicity fail when the victim is BLOCKED (F-02a)
                                                                                                       [time_left_nonneg_refuted, clock_monotone_refuted]
   Everything in (b), (c) about customers and nodes is stated up to the class-change-while-waiting bookkeeping fields (ecc_ind, ecc_node). *)
From Coq Require Import ZArith List Bool Lia.
From RecordUpdate Require Import RecordUpdate.
From CiwV Require Import Sx Prelude Routing Sched.
From CiwV.Engine Require Import State2 Engine2 Codec2.
Import ListNotations.
Open Scope Z_scope.

Local Arguments Z.mul : simpl never.
Local Arguments Z.add : simpl never.
Local Arguments Z.sub : simpl never.
Local Arguments Z.ltb : simpl never.
Local Arguments Z.eqb : simpl never.
Local Arguments Z.leb : simpl never.

(* ================= the monad, inversion lemmas ================= *)
Lemma bind_ok {X Y} (m : M X) (k : X -> M Y) s b s' :
  bind m k s = Ok (b, s') -> exists a s1, m s = Ok (a, s1) /\ k a s1 = Ok (b, s').
Proof. unfold bind. destruct (m s) as [[a s1]| |]; try discriminate. intros H. exists a, s1. split; [reflexivity|exact H]. Qed.
Lemma ret_ok {X} (a : X) s b s' : ret a s = Ok (b, s') -> b = a /\ s' = s.
Proof. unfold ret. intros H. inversion H. split; reflexivity. Qed.
Lemma gets_ok {X} (f : sim -> X) s b s' : gets f s = Ok (b, s') -> b = f s /\ s' = s.
Proof. unfold gets. intros H. inversion H. split; reflexivity. Qed.
Lemma modify_ok (f : sim -> sim) s b s' : modify f s = Ok (b, s') -> s' = f s.
Proof. unfold modify. intros H. inversion H. reflexivity. Qed.
Lemma lift_ok {X} e (o : option X) s b s' : lift e o s = Ok (b, s') -> o = Some b /\ s' = s.
Proof. destruct o as [a|]; cbn; intros H; inversion H. split; reflexivity. Qed.

Lemma Some_inj {X} (a b : X) : Some a = Some b -> a = b.
Proof. intros H. injection H as H. exact H. Qed.

Lemma find_ind_id i l x : find_ind i l = Some x -> i_id x = i.
Proof.
  induction l as [|y r IH]; cbn; [discriminate|]. destruct (i_id y =? i) eqn:E; [|exact IH].
  intros H. injection H as <-. apply Z.eqb_eq. exact E.
Qed.
Lemma get_ind_ok i s x s' : get_ind i s = Ok (x, s') -> s' = s /\ find_ind i (inds s) = Some x.
Proof. unfold get_ind. destruct (find_ind i (inds s)) as [y|]; intros H; inversion H. split; reflexivity. Qed.
Lemma find_put_ind x l i : find_ind i (put_ind_l x l) = if i =? i_id x then Some x else find_ind i l.
Proof.
  induction l as [|y r IH]; cbn.
  - rewrite (Z.eqb_sym (i_id x) i). reflexivity.
  - destruct (i_id y =? i_id x) eqn:E; cbn.
    + apply Z.eqb_eq in E. rewrite (Z.eqb_sym (i_id x) i). destruct (i =? i_id x) eqn:E2; [reflexivity|].
      rewrite E. rewrite (Z.eqb_sym (i_id x) i), E2. reflexivity.
    + destruct (i_id y =? i) eqn:E2; [|exact IH].
      apply Z.eqb_eq in E2. apply Z.eqb_neq in E. destruct (i =? i_id x) eqn:E3; [apply Z.eqb_eq in E3; lia|reflexivity].
Qed.

(* ================= (a) who is pre-empted ================= *)
(* what decide_preempt looks at: for each server, in list order, (its customer, (priority class, service start date)) *)
Definition view (il : list ind) (sv : server) : option (Z * (Z * Z)) :=
  match sv_cust sv with
  | Some c => option_map (fun x => (c, (i_prio x, numo (i_sst x)))) (find_ind c il)
  | None => None
  end.

Lemma fold_max_spec : forall l a, a <= fold_left Z.max l a /\ Forall (fun y => y <= fold_left Z.max l a) l /\
  (fold_left Z.max l a = a \/ In (fold_left Z.max l a) l).
Proof.
  induction l as [|b r IH]; intros a; cbn [fold_left].
  - split; [lia|]. split; [constructor|left; reflexivity].
  - destruct (IH (Z.max a b)) as (H1 & H2 & H3). split; [lia|]. split; [constructor; [lia|exact H2]|].
    destruct H3 as [H3|H3]; [|right; right; exact H3].
    destruct (Z.max_spec a b) as [[_ E]|[_ E]]; [right; left; rewrite H3; symmetry; exact E|left; rewrite H3; exact E].
Qed.

(* Python's max(seq, key): the FIRST element whose key is maximal *)
Lemma first_max_spec {X} (key : X -> Z) : forall l best,
  exists pre post, best :: l = pre ++ first_max key l best :: post /\
    Forall (fun a => key a < key (first_max key l best)) pre /\
    Forall (fun a => key a <= key (first_max key l best)) post.
Proof.
  induction l as [|a r IH]; intros best; cbn [first_max].
  - exists [], []. split; [reflexivity|]. split; constructor.
  - destruct (key best <? key a) eqn:E.
    + apply Z.ltb_lt in E. destruct (IH a) as (pre & post & H1 & H2 & H3).
      set (m := first_max key r a) in *. clearbody m.
      exists (best :: pre), post. split; [cbn; f_equal; exact H1|]. split; [|exact H3].
      constructor; [|exact H2].
      assert (Hm : key a <= key m).
      { destruct pre as [|p pre']; cbn in H1; injection H1 as E1 E2.
        - rewrite <- E1. lia.
        - inversion H2 as [|? ? Hp ?]; subst. lia. }
      lia.
    + apply Z.ltb_ge in E. destruct (IH best) as (pre & post & H1 & H2 & H3).
      set (m := first_max key r best) in *. clearbody m.
      destruct pre as [|p pre']; cbn in H1; injection H1 as E1 E2.
      * exists [], (a :: post). split; [cbn; rewrite <- E1, E2; reflexivity|]. split; [constructor|].
        constructor; [rewrite <- E1; exact E|exact H3].
      * exists (p :: a :: pre'), post. split; [cbn; rewrite E1, E2; reflexivity|]. split; [|exact H3].
        inversion H2 as [|? ? Hp Hr]; subst. constructor; [exact Hp|]. constructor; [lia|exact Hr].
Qed.

Lemma omap_Forall2 {X Y} (f : X -> option Y) : forall l ps, omap f l = Some ps -> Forall2 (fun a p => f a = Some p) l ps.
Proof.
  induction l as [|a r IH]; intros ps H; cbn in H.
  - injection H as <-. constructor.
  - destruct (f a) as [y|] eqn:E; cbn in H; [|discriminate]. destruct (omap f r) as [ys|]; cbn in H; [|discriminate].
    injection H as <-. constructor; [exact E|apply IH; reflexivity].
Qed.
Lemma Forall2_split_r {X Y} (R : X -> Y -> Prop) : forall l pre p post, Forall2 R l (pre ++ p :: post) ->
  exists lpre a lpost, l = lpre ++ a :: lpost /\ Forall2 R lpre pre /\ R a p /\ Forall2 R lpost post.
Proof.
  intros l pre. revert l. induction pre as [|q pre IH]; intros l p post H; cbn in H.
  - inversion H as [|a ? lr ? Ha Hr]; subst. exists [], a, lr. split; [reflexivity|]. split; [constructor|]. split; assumption.
  - inversion H as [|a ? lr ? Ha Hr]; subst. destruct (IH _ _ _ Hr) as (lpre & b & lpost & -> & H1 & H2 & H3).
    exists (a :: lpre), b, lpost. split; [reflexivity|]. split; [constructor; assumption|]. split; assumption.
Qed.
Lemma Forall2_In_l {X Y} (R : X -> Y -> Prop) l ps a : Forall2 R l ps -> In a l -> exists p, In p ps /\ R a p.
Proof.
  induction 1 as [|b q l' ps' Hb Hr IH]; intros Hin; [destruct Hin|]. destruct Hin as [<-|Hin].
  - exists q. split; [left; reflexivity|exact Hb].
  - destruct (IH Hin) as (p & Hp & HR). exists p. split; [right; exact Hp|exact HR].
Qed.
Lemma filter_split {X} (g : X -> bool) : forall l pre p post, filter g l = pre ++ p :: post ->
  exists lpre lpost, l = lpre ++ p :: lpost /\ filter g lpre = pre /\ filter g lpost = post /\ g p = true.
Proof.
  induction l as [|a r IH]; intros pre p post H; cbn in H; [destruct pre; discriminate|].
  destruct (g a) eqn:E.
  - destruct pre as [|q pre']; cbn in H; injection H as E1 E2.
    + exists [], r. rewrite <- E1. split; [reflexivity|]. split; [reflexivity|]. split; [exact E2|exact E].
    + destruct (IH _ _ _ E2) as (lpre & lpost & -> & H1 & H2 & H3).
      exists (a :: lpre), lpost. split; [reflexivity|]. split; [cbn; rewrite E, H1, E1; reflexivity|]. split; assumption.
  - destruct (IH _ _ _ H) as (lpre & lpost & -> & H1 & H2 & H3).
    exists (a :: lpre), lpost. split; [reflexivity|]. split; [cbn; rewrite E; exact H1|]. split; assumption.
Qed.

(* the victim among a list of views: pure version of the selection *)
Definition pick_victim (xp : Z) (ps : list (Z * (Z * Z))) : option (option Z) :=
  match ps with
  | [] => None
  | p0 :: pr =>
    let least := fold_left Z.max (map (fun p => fst (snd p)) pr) (fst (snd p0)) in
    if xp <? least then
      match filter (fun p => fst (snd p) =? least) ps with
      | [] => None
      | c0 :: cr => Some (Some (fst (first_max (fun p => snd (snd p)) cr c0)))
      end
    else Some None
  end.

Lemma pick_victim_spec xp ps r : pick_victim xp ps = Some r -> ps <> [] /\
  match r with
  | Some v => exists pre p post, ps = pre ++ p :: post /\ fst p = v /\ xp < fst (snd p) /\
      Forall (fun q => fst (snd q) <= fst (snd p) /\ (fst (snd q) = fst (snd p) -> snd (snd q) <= snd (snd p))) ps /\
      Forall (fun q => fst (snd q) = fst (snd p) -> snd (snd q) < snd (snd p)) pre
  | None => Forall (fun q => fst (snd q) <= xp) ps
  end.
Proof.
  unfold pick_victim. destruct ps as [|p0 pr]; [discriminate|]. intros H. split; [discriminate|]. revert H.
  set (least := fold_left Z.max (map (fun p => fst (snd p)) pr) (fst (snd p0))) in *.
  destruct (fold_max_spec (map (fun p => fst (snd p)) pr) (fst (snd p0))) as (M1 & M2 & M3). fold least in M1, M2, M3.
  assert (Hall : Forall (fun q : Z * (Z * Z) => fst (snd q) <= least) (p0 :: pr)).
  { constructor; [exact M1|]. rewrite Forall_forall in M2 |- *. intros q Hq. apply M2. apply in_map_iff. exists q. split; [reflexivity|exact Hq]. }
  destruct (xp <? least) eqn:E.
  - apply Z.ltb_lt in E.
    destruct (filter (fun p => fst (snd p) =? least) (p0 :: pr)) as [|c0 cr] eqn:F; [discriminate|].
    intros H. injection H as <-.
    destruct (first_max_spec (fun p : Z * (Z * Z) => snd (snd p)) cr c0) as (fpre & fpost & F1 & F2 & F3).
    set (m := first_max (fun p : Z * (Z * Z) => snd (snd p)) cr c0) in *.
    rewrite F1 in F. destruct (filter_split _ _ _ _ _ F) as (lpre & lpost & El & Epre & Epost & Em).
    apply Z.eqb_eq in Em.
    exists lpre, m, lpost. split; [exact El|]. split; [reflexivity|]. split; [lia|]. split.
    + rewrite Forall_forall in Hall |- *. intros q Hq. split; [rewrite Em; apply Hall; exact Hq|]. intros Eq.
      assert (Hf : In q (fpre ++ m :: fpost)).
      { rewrite <- Epre, <- Epost. rewrite El in Hq. apply in_app_or in Hq.
        apply in_or_app. destruct Hq as [Hq|[Hq|Hq]].
        - left. apply filter_In. split; [exact Hq|]. apply Z.eqb_eq. lia.
        - right. left. exact Hq.
        - right. right. apply filter_In. split; [exact Hq|]. apply Z.eqb_eq. lia. }
      apply in_app_or in Hf. destruct Hf as [Hf|[Hf|Hf]].
      * rewrite Forall_forall in F2. specialize (F2 _ Hf). cbn in F2. lia.
      * rewrite Hf. lia.
      * rewrite Forall_forall in F3. specialize (F3 _ Hf). cbn in F3. lia.
    + rewrite Forall_forall. intros q Hq Eq.
      assert (Hf : In q fpre) by (rewrite <- Epre; apply filter_In; split; [exact Hq|apply Z.eqb_eq; lia]).
      rewrite Forall_forall in F2. specialize (F2 _ Hf). cbn in F2. exact F2.
  - apply Z.ltb_ge in E. intros H. injection H as <-.
    rewrite Forall_forall in Hall |- *. intros q Hq. specialize (Hall q Hq). cbn in Hall. lia.
Qed.

Section Preempt2.
  Variable cf : config.

  Definition node_at (s : sim) (j : Z) : option node := if j <? 1 then None else nthZ (nodes s) (j - 1).
  Definition cfg_at (j : Z) : option ncfg := nthZ (cf_nodes cf) (j - 1).

  Lemma get_node_ok j s nd s' : get_node j s = Ok (nd, s') -> s' = s /\ node_at s j = Some nd.
  Proof. unfold get_node, node_at. destruct (if j <? 1 then None else nthZ (nodes s) (j - 1)) as [n0|]; intros H; inversion H. split; reflexivity. Qed.
  Lemma ncfg_of_ok j s nc s' : ncfg_of cf j s = Ok (nc, s') -> s' = s /\ cfg_at j = Some nc.
  Proof. unfold ncfg_of, cfg_at. intros H. apply lift_ok in H as [H1 H2]. split; assumption. Qed.

  (* preempt_victim is the pure selection on the views of the node's servers *)
  Lemma preempt_victim_pick j i s r s' : preempt_victim cf j i s = Ok (r, s') ->
    s' = s /\ exists nc, cfg_at j = Some nc /\
      (nc_preempt nc = 0 -> r = None) /\
      (nc_preempt nc <> 0 -> exists nd x ps, node_at s j = Some nd /\ find_ind i (inds s) = Some x /\
         omap (view (inds s)) (n_servers nd) = Some ps /\ pick_victim (i_prio x) ps = Some r).
  Proof.
    unfold preempt_victim. intros H.
    apply bind_ok in H as (nc & s1 & E1 & H). apply ncfg_of_ok in E1 as [-> Hnc].
    destruct (nc_preempt nc =? 0) eqn:E0.
    - apply ret_ok in H as [-> ->]. split; [reflexivity|]. exists nc. split; [exact Hnc|]. split; [reflexivity|].
      apply Z.eqb_eq in E0. intros; contradiction.
    - apply bind_ok in H as (nd & s1 & E1 & H). apply get_node_ok in E1 as [-> Hnd].
      apply bind_ok in H as (il & s1 & E1 & H). apply gets_ok in E1 as [-> ->].
      apply bind_ok in H as (ps & s1 & E1 & H). apply lift_ok in E1 as [Hps ->].
      change (omap (view (inds s)) (n_servers nd) = Some ps) in Hps.
      assert (G : s' = s /\ exists x, find_ind i (inds s) = Some x /\ pick_victim (i_prio x) ps = Some r).
      { unfold pick_victim. destruct ps as [|p0 pr]; [discriminate H|]. cbv zeta in H |- *.
        apply bind_ok in H as (x & s1 & E1 & H). apply get_ind_ok in E1 as [-> Hx].
        destruct (i_prio x <? _) eqn:E.
        - destruct (filter _ (p0 :: pr)) as [|c0 cr] eqn:F; [discriminate H|]. apply ret_ok in H as [-> ->].
          split; [reflexivity|]. exists x. split; [exact Hx|]. rewrite E. reflexivity.
        - apply ret_ok in H as [-> ->]. split; [reflexivity|]. exists x. split; [exact Hx|]. rewrite E. reflexivity. }
      destruct G as [-> (x & Hx & Hp)]. split; [reflexivity|]. exists nc. split; [exact Hnc|].
      apply Z.eqb_neq in E0. split; [intros; contradiction|]. intros _. exists nd, x, ps. repeat split; assumption.
  Qed.

  (* C11, first sentence.  If preempt_victim answers at all (no Python exception), then at a node with priority pre-emption:
     every server of the node holds a known customer (nobody is pre-empted while a server is free: Python raises on s.cust = False,
     and accept only asks after find_free_server failed); and
     - answer Some v: v is the customer of a server sv of the node, v's priority class is STRICTLY larger (less important) than
       the arriving customer's, it is the largest among the customers in service, among those of that class v's service start date is
       the latest, and v is the FIRST such customer in server-list order (Python's max returns the first maximal element);
     - answer None: nobody in service is strictly less important than the arriving customer. *)
  Theorem preempt_victim_spec j i s r s' : preempt_victim cf j i s = Ok (r, s') ->
    s' = s /\ exists nc, cfg_at j = Some nc /\
      (nc_preempt nc = 0 -> r = None) /\
      (nc_preempt nc <> 0 -> exists nd x, node_at s j = Some nd /\ find_ind i (inds s) = Some x /\
         n_servers nd <> [] /\
         (forall sv, In sv (n_servers nd) -> exists c y, sv_cust sv = Some c /\ find_ind c (inds s) = Some y) /\
         match r with
         | Some v => exists spre sv spost vx, n_servers nd = spre ++ sv :: spost /\ sv_cust sv = Some v /\
             find_ind v (inds s) = Some vx /\ i_prio x < i_prio vx /\
             (forall sv' c y, In sv' (n_servers nd) -> sv_cust sv' = Some c -> find_ind c (inds s) = Some y ->
                i_prio y <= i_prio vx /\ (i_prio y = i_prio vx -> numo (i_sst y) <= numo (i_sst vx))) /\
             (forall sv' c y, In sv' spre -> sv_cust sv' = Some c -> find_ind c (inds s) = Some y ->
                i_prio y = i_prio vx -> numo (i_sst y) < numo (i_sst vx))
         | None => forall sv c y, In sv (n_servers nd) -> sv_cust sv = Some c -> find_ind c (inds s) = Some y -> i_prio y <= i_prio x
         end).
  Proof.
    intros H. apply preempt_victim_pick in H as [-> (nc & Hnc & H0 & H1)]. split; [reflexivity|].
    exists nc. split; [exact Hnc|]. split; [exact H0|]. intros Hne.
    destruct (H1 Hne) as (nd & x & ps & Hnd & Hx & Hps & Hp). exists nd, x. split; [exact Hnd|]. split; [exact Hx|].
    apply omap_Forall2 in Hps. apply pick_victim_spec in Hp as [Hne' Hp].
    assert (Hview : forall sv c y p, view (inds s) sv = Some p -> sv_cust sv = Some c -> find_ind c (inds s) = Some y ->
              p = (c, (i_prio y, numo (i_sst y)))).
    { intros sv c y p Hv Hc Hy. unfold view in Hv. rewrite Hc, Hy in Hv. cbn in Hv. injection Hv as <-. reflexivity. }
    assert (Hview' : forall sv p, view (inds s) sv = Some p -> exists c y, sv_cust sv = Some c /\ find_ind c (inds s) = Some y).
    { intros sv p Hv. unfold view in Hv. destruct (sv_cust sv) as [c|]; [|discriminate]. destruct (find_ind c (inds s)) as [y|] eqn:Ey; [|discriminate].
      exists c, y. split; [reflexivity|exact Ey]. }
    split; [intros E; rewrite E in Hps; inversion Hps; subst; apply Hne'; reflexivity|]. split.
    { intros sv Hin. destruct (Forall2_In_l _ _ _ _ Hps Hin) as (p & _ & Hv). exact (Hview' _ _ Hv). }
    destruct r as [v|].
    - destruct Hp as (pre & p & post & Eps & Ev & Hlt & Hall & Hpre). pose proof Hps as Hps'. rewrite Eps in Hps.
      destruct (Forall2_split_r _ _ _ _ _ Hps) as (spre & sv & spost & Esv & F1 & F2 & F3).
      destruct (Hview' _ _ F2) as (c & vx & Hc & Hvx). pose proof (Hview _ _ _ _ F2 Hc Hvx) as Ep.
      rewrite Ep in Ev. cbn in Ev. rewrite Ev in *. clear Ev.
      exists spre, sv, spost, vx. split; [exact Esv|]. split; [exact Hc|]. split; [exact Hvx|].
      rewrite Ep in Hlt, Hall, Hpre. cbn [fst snd] in Hlt, Hall, Hpre. split; [exact Hlt|]. split.
      + intros sv' c' y Hin Hc' Hy.
        destruct (Forall2_In_l _ _ _ _ Hps' Hin) as (q & Hq & Hv). rewrite (Hview _ _ _ _ Hv Hc' Hy) in Hq.
        rewrite Forall_forall in Hall. specialize (Hall _ Hq). cbn [fst snd] in Hall. exact Hall.
      + intros sv' c' y Hin Hc' Hy Heq. destruct (Forall2_In_l _ _ _ _ F1 Hin) as (q & Hq & Hv). rewrite (Hview _ _ _ _ Hv Hc' Hy) in Hq.
        rewrite Forall_forall in Hpre. specialize (Hpre _ Hq). cbn [fst snd] in Hpre. apply Hpre. exact Heq.
    - intros sv c y Hin Hc Hy. destruct (Forall2_In_l _ _ _ _ Hps Hin) as (q & Hq & Hv). rewrite (Hview _ _ _ _ Hv Hc Hy) in Hq.
      rewrite Forall_forall in Hp. specialize (Hp _ Hq). cbn [fst snd] in Hp. exact Hp.
  Qed.

  (* ================= state bookkeeping for (b), (c) ================= *)
  Definition Idx (s : sim) : Prop := forall j nd, node_at s j = Some nd -> n_id nd = j.
  Definition set_ind (y : ind) (s : sim) : sim := s <| inds := put_ind_l y (inds s) |>.
  Definition set_node (nd : node) (s : sim) : sim := s <| nodes := updZ (nodes s) (n_id nd - 1) nd |>.

  Lemma nth_error_upd_eq {X} : forall (l : list X) n a b, nth_error l n = Some a -> nth_error (upd l n b) n = Some b.
  Proof. induction l as [|h t IH]; intros [|n] a b H; cbn in *; try discriminate; [reflexivity|eapply IH; exact H]. Qed.
  Lemma nth_error_upd_neq {X} : forall (l : list X) n m b, n <> m -> nth_error (upd l n b) m = nth_error l m.
  Proof. induction l as [|h t IH]; intros [|n] [|m] b H; cbn; try reflexivity; [contradiction|apply IH; congruence]. Qed.
  Lemma nthZ_updZ_eq {X} (l : list X) i a b : nthZ l i = Some a -> nthZ (updZ l i b) i = Some b.
  Proof. unfold nthZ, updZ. destruct (i <? 0); [discriminate|]. apply nth_error_upd_eq. Qed.
  Lemma nthZ_updZ_neq {X} (l : list X) i k b : i <> k -> nthZ (updZ l i b) k = nthZ l k.
  Proof.
    unfold nthZ, updZ. intros H. destruct (i <? 0) eqn:Ei; [reflexivity|]. destruct (k <? 0) eqn:Ek; [reflexivity|].
    apply Z.ltb_ge in Ei, Ek. apply nth_error_upd_neq. intros E. apply H. apply Z2Nat.inj; assumption.
  Qed.

  Lemma node_at_set_ind y s k : node_at (set_ind y s) k = node_at s k. Proof. reflexivity. Qed.
  Lemma find_set_ind y s k : find_ind k (inds (set_ind y s)) = if k =? i_id y then Some y else find_ind k (inds s).
  Proof. unfold set_ind. cbn. apply find_put_ind. Qed.
  Lemma find_set_ind_id y s k i : i_id y = i -> find_ind k (inds (set_ind y s)) = if k =? i then Some y else find_ind k (inds s).
  Proof. intros <-. apply find_set_ind. Qed.
  Lemma set_server_twice x a b : x <| i_server := a |> <| i_server := b |> = x <| i_server := b |>.
  Proof. destruct x. reflexivity. Qed.
  Lemma inds_log s l : inds (s <| log := l |>) = inds s. Proof. reflexivity. Qed.
  Lemma inds_set_node nd s : inds (set_node nd s) = inds s. Proof. reflexivity. Qed.
  Lemma node_at_set_node nd s k : node_at s (n_id nd) <> None ->
    node_at (set_node nd s) k = if k =? n_id nd then Some nd else node_at s k.
  Proof.
    unfold node_at, set_node. cbn. intros H. destruct (k =? n_id nd) eqn:E.
    - apply Z.eqb_eq in E. rewrite E. destruct (n_id nd <? 1); [contradiction H; reflexivity|].
      destruct (nthZ (nodes s) (n_id nd - 1)) as [n0|] eqn:E0; [|contradiction H; reflexivity]. eapply nthZ_updZ_eq. exact E0.
    - apply Z.eqb_neq in E. destruct (k <? 1); [reflexivity|]. apply nthZ_updZ_neq. lia.
  Qed.
  Lemma Idx_set_ind y s : Idx s -> Idx (set_ind y s). Proof. intros H. exact H. Qed.
  Lemma Idx_set_node nd s : Idx s -> node_at s (n_id nd) <> None -> Idx (set_node nd s).
  Proof.
    intros HI H j n0 Hn. rewrite (node_at_set_node _ _ _ H) in Hn. destruct (j =? n_id nd) eqn:E.
    - injection Hn as <-. apply Z.eqb_eq in E. symmetry. exact E.
    - apply HI. exact Hn.
  Qed.

  Lemma upd_ind_ok i f s u s' : upd_ind i f s = Ok (u, s') -> exists x, find_ind i (inds s) = Some x /\ s' = set_ind (f x) s.
  Proof.
    unfold upd_ind. intros H. apply bind_ok in H as (x & s1 & E & H). apply get_ind_ok in E as [-> Hx].
    exists x. split; [exact Hx|]. unfold put_ind in H. apply modify_ok in H. exact H.
  Qed.
  Lemma put_ind_ok y s u s' : put_ind y s = Ok (u, s') -> s' = set_ind y s.
  Proof. unfold put_ind. intros H. apply modify_ok in H. exact H. Qed.
  Lemma put_node_ok nd s u s' : put_node nd s = Ok (u, s') -> s' = set_node nd s.
  Proof. unfold put_node. intros H. apply modify_ok in H. exact H. Qed.
  Lemma upd_node_ok j f s u s' : upd_node j f s = Ok (u, s') -> exists nd, node_at s j = Some nd /\ s' = set_node (f nd) s.
  Proof.
    unfold upd_node. intros H. apply bind_ok in H as (nd & s1 & E & H). apply get_node_ok in E as [-> Hn].
    exists nd. split; [exact Hn|]. apply put_node_ok in H. exact H.
  Qed.
  Lemma upd_server_ok j sid f s u s' : upd_server j sid f s = Ok (u, s') -> exists nd, node_at s j = Some nd /\
    s' = match find_server sid (n_servers nd) with
         | Some sv => set_node (nd <| n_servers := put_server_l (f sv) (n_servers nd) |>) s
         | None => s end.
  Proof.
    unfold upd_server. intros H. apply bind_ok in H as (nd & s1 & E & H). apply get_node_ok in E as [-> Hn].
    exists nd. split; [exact Hn|]. destruct (find_server sid (n_servers nd)) as [sv|].
    - apply put_node_ok in H. exact H.
    - apply ret_ok in H as [_ ->]. reflexivity.
  Qed.
  Lemma tnow_ok s t s' : tnow s = Ok (t, s') -> t = now s /\ s' = s.
  Proof. unfold tnow. apply gets_ok. Qed.
  Lemma draw_svc_ok s st s' : draw_svc s = Ok (st, s') -> exists r, d_svc (dr s) = st :: r /\ s' = s <| dr := dr s <| d_svc := r |> |>.
  Proof. unfold draw_svc. destruct (d_svc (dr s)) as [|a r]; intros H; inversion H. exists r. split; reflexivity. Qed.

  Lemma find_server_id sid l sv : find_server sid l = Some sv -> sv_id sv = sid.
  Proof. induction l as [|y r IH]; cbn; [discriminate|]. destruct (sv_id y =? sid) eqn:E; [|exact IH]. intros H. injection H as <-. apply Z.eqb_eq. exact E. Qed.
  Lemma find_put_server sid l sv b : find_server sid l = Some sv -> sv_id b = sid -> find_server sid (put_server_l b l) = Some b.
  Proof.
    induction l as [|y r IH]; cbn; [discriminate|]. intros H Hb. destruct (sv_id y =? sid) eqn:E.
    - rewrite Hb, E. cbn. rewrite Hb, Z.eqb_refl. reflexivity.
    - rewrite Hb, E. cbn. rewrite E. apply IH; assumption.
  Qed.
  Lemma put_put_server l a b : sv_id a = sv_id b -> put_server_l a (put_server_l b l) = put_server_l a l.
  Proof.
    intros H. induction l as [|y r IH]; cbn; [reflexivity|]. destruct (sv_id y =? sv_id b) eqn:E.
    - cbn. rewrite H, Z.eqb_refl, E. reflexivity.
    - cbn. rewrite H, E. f_equal. exact IH.
  Qed.

  (* the erasure of the class-change-while-waiting bookkeeping (next_class, class_change_date on a customer;
     next_class_change_date / _ind on a node): everything below is stated up to these four fields *)
  Definition ecc_ind (x : ind) : ind := x <| i_ncls := None |> <| i_ccd := XU |>.
  Definition ecc_node (nd : node) : node := nd <| n_nccd := None |> <| n_ncci := None |>.
  Definition oind (s : sim) (k : Z) : option ind := option_map ecc_ind (find_ind k (inds s)).
  Definition onode (s : sim) (k : Z) : option node := option_map ecc_node (node_at s k).

  (* "nothing but class-change bookkeeping (and its own draws) has changed" *)
  Definition cceq (s s' : sim) : Prop :=
    now s' = now s /\ log s' = log s /\ d_svc (dr s') = d_svc (dr s) /\
    (forall k, oind s' k = oind s k) /\ (forall k, onode s' k = onode s k) /\ Idx s'.

  Lemma cct_loop_core : forall row b best bc s r s', cct_loop row b best bc s = Ok (r, s') ->
    inds s' = inds s /\ nodes s' = nodes s /\ now s' = now s /\ log s' = log s /\ d_svc (dr s') = d_svc (dr s).
  Proof.
    induction row as [|h row IH]; intros b best bc s r s' H; cbn [cct_loop] in H.
    - apply ret_ok in H as [_ ->]. repeat split; reflexivity.
    - destruct h; [|eapply IH; exact H].
      apply bind_ok in H as (t & s1 & E & H). unfold draw_cct in E. destruct (d_cct (dr s)) as [|c cr]; [discriminate E|].
      inversion E; subst. destruct (date_lt (Some t) best); apply IH in H; cbn in H; exact H.
  Qed.

  Lemma find_next_class_change_ok j s u s' : find_next_class_change j s = Ok (u, s') ->
    exists nd a b, node_at s j = Some nd /\ s' = set_node (nd <| n_nccd := a |> <| n_ncci := b |>) s.
  Proof.
    unfold find_next_class_change. intros H. apply bind_ok in H as (nd & s1 & E & H). apply get_node_ok in E as [-> Hn].
    apply bind_ok in H as (il & s1 & E & H). apply gets_ok in E as [-> ->].
    apply bind_ok in H as (r & s1 & E & H). apply lift_ok in E as [_ ->].
    apply put_node_ok in H. exists nd, (fst r), (snd r). split; [exact Hn|exact H].
  Qed.

  Lemma oind_set_ind_cc x a b s : find_ind (i_id x) (inds s) = Some x -> forall k, oind (set_ind (x <| i_ncls := a |> <| i_ccd := b |>) s) k = oind s k.
  Proof.
    intros Hx k. unfold oind. rewrite find_set_ind. cbn [i_id]. change (i_id (x <| i_ncls := a |> <| i_ccd := b |>)) with (i_id x).
    destruct (k =? i_id x) eqn:E; [|reflexivity]. apply Z.eqb_eq in E. rewrite E, Hx. reflexivity.
  Qed.
  Lemma onode_set_node_cc nd a b s : Idx s -> node_at s (n_id nd) = Some nd ->
    (forall k, onode (set_node (nd <| n_nccd := a |> <| n_ncci := b |>) s) k = onode s k) /\ Idx (set_node (nd <| n_nccd := a |> <| n_ncci := b |>) s).
  Proof.
    intros HI Hn. assert (Hne : node_at s (n_id (nd <| n_nccd := a |> <| n_ncci := b |>)) <> None) by (change (node_at s (n_id nd) <> None); rewrite Hn; discriminate).
    split; [|apply Idx_set_node; assumption].
    intros k. unfold onode. rewrite (node_at_set_node _ _ _ Hne). change (n_id (nd <| n_nccd := a |> <| n_ncci := b |>)) with (n_id nd).
    destruct (k =? n_id nd) eqn:E; [|reflexivity]. apply Z.eqb_eq in E. rewrite E, Hn. reflexivity.
  Qed.

  Lemma cceq_refl s : Idx s -> cceq s s.
  Proof. intros H. repeat split; try reflexivity. exact H. Qed.
  Lemma cceq_trans a b c : cceq a b -> cceq b c -> cceq a c.
  Proof.
    intros (A1 & A2 & A3 & A4 & A5 & A6) (B1 & B2 & B3 & B4 & B5 & B6).
    split; [congruence|]. split; [congruence|]. split; [congruence|].
    split; [intros k; rewrite B4; apply A4|]. split; [intros k; rewrite B5; apply A5|exact B6].
  Qed.

  Lemma find_next_class_change_cc j s u s' : Idx s -> find_next_class_change j s = Ok (u, s') -> cceq s s'.
  Proof.
    intros HI H. apply find_next_class_change_ok in H as (nd & a & b & Hn & ->).
    pose proof (HI _ _ Hn) as Hid. rewrite <- Hid in Hn. destruct (onode_set_node_cc nd a b s HI Hn) as [H1 H2].
    split; [reflexivity|]. split; [reflexivity|]. split; [reflexivity|]. split; [intros k; reflexivity|]. split; assumption.
  Qed.

  Lemma decide_class_change_cc j i s u s' : Idx s -> decide_class_change cf j i s = Ok (u, s') -> cceq s s'.
  Proof.
    intros HI H. unfold decide_class_change in H. destruct (cf_dyn cf); [|apply ret_ok in H as [_ ->]; apply cceq_refl; exact HI].
    apply bind_ok in H as (x & s1 & E & H). apply get_ind_ok in E as [-> Hx].
    apply bind_ok in H as (row & s1 & E & H). apply lift_ok in E as [_ ->].
    apply bind_ok in H as (r & s1 & E & H). apply cct_loop_core in E as (C1 & C2 & C3 & C4 & C5).
    apply bind_ok in H as (t & s2 & E & H). apply tnow_ok in E as [-> ->].
    apply bind_ok in H as (x' & s2 & E & H). apply get_ind_ok in E as [-> Hx'].
    apply bind_ok in H as (u1 & s2 & E & H). apply put_ind_ok in E. subst s2.
    assert (HI1 : Idx s1) by (intros k nd; unfold node_at; rewrite C2; apply HI).
    assert (Q1 : cceq s s1).
    { split; [exact C3|]. split; [exact C4|]. split; [exact C5|]. split; [intros k; unfold oind; rewrite C1; reflexivity|].
      split; [intros k; unfold onode, node_at; rewrite C2; reflexivity|exact HI1]. }
    eapply cceq_trans; [exact Q1|]. eapply cceq_trans; [|eapply find_next_class_change_cc; [|exact H]].
    - pose proof (find_ind_id _ _ _ Hx') as Hid. rewrite <- Hid in Hx'.
      split; [reflexivity|]. split; [reflexivity|]. split; [reflexivity|]. split; [apply oind_set_ind_cc; exact Hx'|].
      split; [intros k; reflexivity|exact HI1].
    - exact HI1.
  Qed.

  Lemma reset_class_change_cc j i s u s' : Idx s -> reset_class_change cf j i s = Ok (u, s') -> cceq s s'.
  Proof.
    intros HI H. unfold reset_class_change in H. destruct (cf_dyn cf); [|apply ret_ok in H as [_ ->]; apply cceq_refl; exact HI].
    apply bind_ok in H as (u1 & s1 & E & H). apply upd_ind_ok in E as (x & Hx & ->).
    apply bind_ok in H as (nd & s2 & E & H). apply get_node_ok in E as [-> Hn].
    assert (Q1 : cceq s (set_ind (x <| i_ccd := XI |>) s)).
    { pose proof (find_ind_id _ _ _ Hx) as Hid. rewrite <- Hid in Hx.
      split; [reflexivity|]. split; [reflexivity|]. split; [reflexivity|]. split; [|split; [intros k; reflexivity|exact HI]].
      intros k. unfold oind. rewrite find_set_ind. change (i_id (x <| i_ccd := XI |>)) with (i_id x).
      destruct (k =? i_id x) eqn:E; [|reflexivity]. apply Z.eqb_eq in E. rewrite E, Hx. reflexivity. }
    destruct (n_ncci nd) as [k0|]; [destruct (k0 =? i)|].
    - eapply cceq_trans; [exact Q1|]. eapply find_next_class_change_cc; [|exact H]. exact HI.
    - apply ret_ok in H as [_ ->]. exact Q1.
    - apply ret_ok in H as [_ ->]. exact Q1.
  Qed.

  (* ================= (c) how a service time is given back ================= *)
  (* the service time that give_individual_a_service_time followed by the numeric read (stime_num) yields for customer x when
     the unread service-time draws are d, and the draws left: a customer without marker keeps a service time it already has,
     otherwise draws; marker 3 (resample) draws; marker 2 (restart) takes original_service_time; marker 1 (resume) takes time_left *)
  Definition given (x : ind) (d : list Z) : option (Z * list Z) :=
    if i_smark x =? 0 then
      match i_stime x with
      | Some o => Some (o, d)
      | None => match d with st :: r => Some (st, r) | [] => None end
      end
    else if i_smark x =? 3 then match d with st :: r => Some (st, r) | [] => None end
    else if i_smark x =? 2 then option_map (fun o => (o, d)) (i_ost x)
    else if i_smark x =? 1 then option_map (fun o => (o, d)) (i_tleft x)
    else None.

  Lemma ind_eta_sm x o : i_smark x = 0 -> i_stime x = Some o -> x <| i_stime := Some o |> <| i_smark := 0 |> = x.
  Proof. destruct x. cbn. intros -> ->. reflexivity. Qed.
  Lemma ind_eta_sm0 x o : i_smark x = 0 -> x <| i_stime := o |> <| i_smark := 0 |> = x <| i_stime := o |>.
  Proof. destruct x. cbn. intros ->. reflexivity. Qed.

  (* C11, third sentence, at the function that does it: resume = the stored time_left, restart = the original service time,
     resample = a fresh draw; the marker is cleared; nothing else changes *)
  Theorem give_after_resume i s u s' x tl : give_service_time_after_preemption i s = Ok (u, s') ->
    find_ind i (inds s) = Some x -> i_smark x = 1 -> i_tleft x = Some tl ->
    s' = set_ind (x <| i_stime := Some tl |> <| i_smark := 0 |>) s.
  Proof.
    unfold give_service_time_after_preemption. intros H Hx Hm Ht.
    apply bind_ok in H as (x0 & s1 & E & H). apply get_ind_ok in E as [-> Hx0]. rewrite Hx in Hx0. injection Hx0 as <-.
    rewrite Hm, Ht in H. cbn in H. apply put_ind_ok in H. exact H.
  Qed.
  Theorem give_after_restart i s u s' x o : give_service_time_after_preemption i s = Ok (u, s') ->
    find_ind i (inds s) = Some x -> i_smark x = 2 -> i_ost x = Some o ->
    s' = set_ind (x <| i_stime := Some o |> <| i_smark := 0 |>) s.
  Proof.
    unfold give_service_time_after_preemption. intros H Hx Hm Ht.
    apply bind_ok in H as (x0 & s1 & E & H). apply get_ind_ok in E as [-> Hx0]. rewrite Hx in Hx0. injection Hx0 as <-.
    rewrite Hm, Ht in H. cbn in H. apply put_ind_ok in H. exact H.
  Qed.
  Theorem give_after_resample i s u s' x : give_service_time_after_preemption i s = Ok (u, s') ->
    find_ind i (inds s) = Some x -> i_smark x = 3 ->
    exists st r, d_svc (dr s) = st :: r /\
      s' = set_ind (x <| i_stime := Some st |> <| i_smark := 0 |>) (s <| dr := dr s <| d_svc := r |> |>).
  Proof.
    unfold give_service_time_after_preemption. intros H Hx Hm.
    apply bind_ok in H as (x0 & s1 & E & H). apply get_ind_ok in E as [-> Hx0]. rewrite Hx in Hx0. injection Hx0 as <-.
    rewrite Hm in H. cbn in H. apply bind_ok in H as (st & s1 & E & H). apply draw_svc_ok in E as (r & Hd & ->).
    apply put_ind_ok in H. exists st, r. split; [exact Hd|exact H].
  Qed.
  Theorem give_after_nomark i s u s' x : give_service_time_after_preemption i s = Ok (u, s') ->
    find_ind i (inds s) = Some x -> i_smark x <> 1 -> i_smark x <> 2 -> i_smark x <> 3 -> s' = s.
  Proof.
    unfold give_service_time_after_preemption. intros H Hx H1 H2 H3.
    apply bind_ok in H as (x0 & s1 & E & H). apply get_ind_ok in E as [-> Hx0]. rewrite Hx in Hx0. injection Hx0 as <-.
    apply Z.eqb_neq in H1, H2, H3. rewrite H1, H2, H3 in H. apply ret_ok in H as [_ ->]. reflexivity.
  Qed.
  (* a restart / resume that finds the attribute unset is a Python AttributeError, never a silent default *)
  Theorem give_after_needs_attr i s x : find_ind i (inds s) = Some x ->
    (i_smark x = 1 -> i_tleft x = None -> give_service_time_after_preemption i s = Err E_Attr) /\
    (i_smark x = 2 -> i_ost x = None -> give_service_time_after_preemption i s = Err E_Attr).
  Proof.
    intros Hx. unfold give_service_time_after_preemption, bind, get_ind. rewrite Hx.
    split; intros Hm Ha; rewrite Hm, Ha; reflexivity.
  Qed.

  (* the combined effect of give_individual_a_service_time and the numeric read that follows it in every block that starts a service *)
  Lemma give_individual_ok i s u s1 x : give_individual_a_service_time i s = Ok (u, s1) -> find_ind i (inds s) = Some x ->
    now s1 = now s /\ log s1 = log s /\ nodes s1 = nodes s /\
    exists x1, (forall k, find_ind k (inds s1) = if k =? i then Some x1 else find_ind k (inds s)) /\
      forall st s2 s3, stime_num x1 s2 = Ok (st, s3) -> s3 = s2 /\
        given x (d_svc (dr s)) = Some (st, d_svc (dr s1)) /\ x1 = x <| i_stime := Some st |> <| i_smark := 0 |>.
  Proof.
    intros H Hx. pose proof (find_ind_id _ _ _ Hx) as Hid.
    assert (Hsame : forall k, find_ind k (inds s) = if k =? i then Some x else find_ind k (inds s))
      by (intros k; destruct (k =? i) eqn:E; [apply Z.eqb_eq in E; rewrite E; exact Hx|reflexivity]).
    assert (Hset : forall y s0, inds s0 = inds s -> i_id y = i -> forall k, find_ind k (inds (set_ind y s0)) = if k =? i then Some y else find_ind k (inds s))
      by (intros y s0 E0 Ey k; rewrite find_set_ind, Ey, E0; reflexivity).
    unfold give_individual_a_service_time in H.
    apply bind_ok in H as (x0 & s0 & E & H). apply get_ind_ok in E as [-> Hx0]. rewrite Hx in Hx0. injection Hx0 as <-.
    unfold stime_num, given.
    destruct (i_smark x =? 0) eqn:E0; cbn [andb] in H.
    - apply Z.eqb_eq in E0. destruct (i_stime x) as [o|] eqn:Es.
      + eapply give_after_nomark in H; [|exact Hx|lia|lia|lia]. rewrite H.
        split; [reflexivity|]. split; [reflexivity|]. split; [reflexivity|]. exists x. split; [exact Hsame|].
        intros st s2 s3 Hs. rewrite E0 in Hs. cbn in Hs. apply ret_ok in Hs as [-> ->]. split; [reflexivity|]. rewrite Es. cbn.
        split; [reflexivity|]. symmetry. apply ind_eta_sm; assumption.
      + apply bind_ok in H as (st0 & s0 & E & H). apply draw_svc_ok in E as (r & Hd & ->). apply put_ind_ok in H. rewrite H.
        split; [reflexivity|]. split; [reflexivity|]. split; [reflexivity|]. exists (x <| i_stime := Some st0 |>).
        split; [apply Hset; [reflexivity|exact Hid]|].
        intros st s2 s3 Hs. change (i_smark (x <| i_stime := Some st0 |>)) with (i_smark x) in Hs. rewrite E0 in Hs. cbn in Hs.
        apply ret_ok in Hs as [-> ->]. split; [reflexivity|]. rewrite Hd. cbn. split; [reflexivity|]. symmetry. apply ind_eta_sm0. exact E0.
    - destruct (i_smark x =? 3) eqn:E3; [|destruct (i_smark x =? 2) eqn:E2; [|destruct (i_smark x =? 1) eqn:E1]].
      + apply Z.eqb_eq in E3. eapply give_after_resample in H; [|exact Hx|exact E3]. destruct H as (st0 & r & Hd & ->).
        split; [reflexivity|]. split; [reflexivity|]. split; [reflexivity|]. exists (x <| i_stime := Some st0 |> <| i_smark := 0 |>).
        split; [apply Hset; [reflexivity|exact Hid]|].
        intros st s2 s3 Hs. cbn in Hs. apply ret_ok in Hs as [-> ->]. split; [reflexivity|]. rewrite Hd. cbn. split; reflexivity.
      + apply Z.eqb_eq in E2. destruct (i_ost x) as [o|] eqn:Eo.
        * eapply give_after_restart in H; [|exact Hx|exact E2|exact Eo]. rewrite H.
          split; [reflexivity|]. split; [reflexivity|]. split; [reflexivity|]. exists (x <| i_stime := Some o |> <| i_smark := 0 |>).
          split; [apply Hset; [reflexivity|exact Hid]|].
          intros st s2 s3 Hs. cbn in Hs. apply ret_ok in Hs as [-> ->]. split; [reflexivity|]. cbn. split; reflexivity.
        * destruct (give_after_needs_attr i s x Hx) as [_ G]. rewrite (G E2 Eo) in H. discriminate H.
      + apply Z.eqb_eq in E1. destruct (i_tleft x) as [o|] eqn:Eo.
        * eapply give_after_resume in H; [|exact Hx|exact E1|exact Eo]. rewrite H.
          split; [reflexivity|]. split; [reflexivity|]. split; [reflexivity|]. exists (x <| i_stime := Some o |> <| i_smark := 0 |>).
          split; [apply Hset; [reflexivity|exact Hid]|].
          intros st s2 s3 Hs. cbn in Hs. apply ret_ok in Hs as [-> ->]. split; [reflexivity|]. cbn. split; reflexivity.
        * destruct (give_after_needs_attr i s x Hx) as [G _]. rewrite (G E1 Eo) in H. discriminate H.
      + apply Z.eqb_neq in E0, E3, E2, E1. eapply give_after_nomark in H; [|exact Hx|exact E1|exact E2|exact E3]. rewrite H.
        split; [reflexivity|]. split; [reflexivity|]. split; [reflexivity|]. exists x. split; [exact Hsame|].
        intros st s2 s3 Hs. apply Z.eqb_neq in E0. rewrite E0 in Hs. discriminate Hs.
  Qed.

  (* ---------- a server object is updated in place (a retired server: no-op) ---------- *)
  Definition srv_upd (sid : Z) (f : server -> server) (l : list server) : list server :=
    match find_server sid l with Some sv => put_server_l (f sv) l | None => l end.
  Lemma srv_upd_comp sid f1 f2 l : (forall sv, sv_id (f1 sv) = sv_id sv) -> (forall sv, sv_id (f2 sv) = sv_id sv) ->
    srv_upd sid f2 (srv_upd sid f1 l) = srv_upd sid (fun sv => f2 (f1 sv)) l.
  Proof.
    intros Hf Hf2. unfold srv_upd. destruct (find_server sid l) as [sv|] eqn:E.
    - pose proof (find_server_id _ _ _ E) as Hid.
      rewrite (find_put_server sid l sv (f1 sv) E) by (rewrite Hf; exact Hid).
      apply put_put_server. apply Hf2.
    - rewrite E. reflexivity.
  Qed.
  Lemma node_eta_servers nd : nd <| n_servers := n_servers nd |> = nd. Proof. destruct nd. reflexivity. Qed.

  Lemma upd_server_obs j sid f s u s' nd : upd_server j sid f s = Ok (u, s') -> Idx s -> node_at s j = Some nd ->
    inds s' = inds s /\ now s' = now s /\ log s' = log s /\ dr s' = dr s /\ Idx s' /\
    (forall k, node_at s' k = if k =? j then Some (nd <| n_servers := srv_upd sid f (n_servers nd) |>) else node_at s k).
  Proof.
    intros H HI Hn. apply upd_server_ok in H as (nd0 & Hn0 & ->). rewrite Hn in Hn0. injection Hn0 as <-.
    pose proof (HI _ _ Hn) as Hid. unfold srv_upd. destruct (find_server sid (n_servers nd)) as [sv|].
    - assert (Hne : node_at s (n_id (nd <| n_servers := put_server_l (f sv) (n_servers nd) |>)) <> None)
        by (change (node_at s (n_id nd) <> None); rewrite Hid, Hn; discriminate).
      split; [reflexivity|]. split; [reflexivity|]. split; [reflexivity|]. split; [reflexivity|].
      split; [apply Idx_set_node; assumption|]. intros k. rewrite (node_at_set_node _ _ _ Hne).
      change (n_id (nd <| n_servers := put_server_l (f sv) (n_servers nd) |>)) with (n_id nd). rewrite Hid. reflexivity.
    - split; [reflexivity|]. split; [reflexivity|]. split; [reflexivity|]. split; [reflexivity|]. split; [exact HI|].
      intros k. rewrite node_eta_servers. destruct (k =? j) eqn:E; [apply Z.eqb_eq in E; rewrite E; exact Hn|reflexivity].
  Qed.

  Lemma find_chain s0 s1 i y z : (forall k, find_ind k (inds s1) = if k =? i then Some y else find_ind k (inds s0)) -> i_id z = i ->
    forall k, find_ind k (inds (set_ind z s1)) = if k =? i then Some z else find_ind k (inds s0).
  Proof. intros H Hz k. rewrite find_set_ind, Hz, H. destruct (k =? i); reflexivity. Qed.
  Lemma find_chain0 s0 i x z : find_ind i (inds s0) = Some x -> i_id z = i ->
    forall k, find_ind k (inds (set_ind z s0)) = if k =? i then Some z else find_ind k (inds s0).
  Proof. intros H Hz k. rewrite find_set_ind, Hz. reflexivity. Qed.

  (* the customer and the server after a service start that goes through give_individual_a_service_time *)
  Definition started (sid t st : Z) (x : ind) : ind :=
    x <| i_server := Some sid |> <| i_sst := Some t |> <| i_stime := Some st |> <| i_smark := 0 |> <| i_send := Some (t + st) |>.
  Definition serving (i t st : Z) (sv : server) : server :=
    sv <| sv_cust := Some i |> <| sv_busy := true |> <| sv_next_end := Some (t + st) |>.

  (* start_give (bump = true: begin_service_if_possible_release / _change_shift) and start_preemptor (bump = false: preempt) *)
  Definition start_body (bump : bool) (j i sid : Z) : M unit :=
    attach_server j sid i ;;;
    t <- tnow ;;
    upd_ind i (fun x => x <| i_sst := Some t |>) ;;;
    give_individual_a_service_time i ;;;
    x <- get_ind i ;; st <- stime_num x ;;
    put_ind (x <| i_send := Some (t + st) |>) ;;;
    (if bump then upd_node j (fun nd => nd <| n_insvc := n_insvc nd + 1 |>) else ret tt) ;;;
    reset_class_change cf j i ;;;
    set_next_end j sid (Some (t + st)).
  Lemma start_give_body j i sid : start_give cf j i sid = start_body true j i sid. Proof. reflexivity. Qed.
  Lemma start_preemptor_body j i sid : start_preemptor cf j i sid = start_body false j i sid. Proof. reflexivity. Qed.

  Lemma given_ecc x d : given (ecc_ind x) d = given x d. Proof. reflexivity. Qed.
  Lemma started_ecc a b sid t st : ecc_ind a = ecc_ind b -> ecc_ind (started sid t st a) = ecc_ind (started sid t st b).
  Proof. intros H. change (started sid t st (ecc_ind a) = started sid t st (ecc_ind b)). rewrite H. reflexivity. Qed.

  Lemma start_body_spec bump j i sid s u s' x nd : start_body bump j i sid s = Ok (u, s') -> Idx s ->
    find_ind i (inds s) = Some x -> node_at s j = Some nd ->
    exists st, given x (d_svc (dr s)) = Some (st, d_svc (dr s')) /\ now s' = now s /\ log s' = log s /\ Idx s' /\
      (forall k, oind s' k = if k =? i then Some (ecc_ind (started sid (now s) st x)) else oind s k) /\
      (forall k, onode s' k = if k =? j
         then Some (ecc_node (nd <| n_servers := srv_upd sid (serving i (now s) st) (n_servers nd) |>
                                 <| n_insvc := if bump then n_insvc nd + 1 else n_insvc nd |>))
         else onode s k).
  Proof.
    intros H HI Hx Hn. pose proof (find_ind_id _ _ _ Hx) as Hid. pose proof (HI _ _ Hn) as Hnid. unfold start_body in H.
    (* attach_server *)
    apply bind_ok in H as (u0 & sb & E & H). unfold attach_server in E.
    apply bind_ok in E as (u1 & sa & Ea & E).
    destruct (upd_server_obs _ _ _ _ _ _ _ Ea HI Hn) as (Ia & Ta & La & Da & HIa & Na).
    set (nda := nd <| n_servers := srv_upd sid (fun sv => sv <| sv_cust := Some i |> <| sv_busy := true |>) (n_servers nd) |>) in *.
    apply upd_ind_ok in E as (x0 & Hx0 & ->). rewrite Ia, Hx in Hx0. injection Hx0 as <-.
    assert (Fb : forall k, find_ind k (inds (set_ind (x <| i_server := Some sid |>) sa)) = if k =? i then Some (x <| i_server := Some sid |>) else find_ind k (inds s)).
    { intros k. rewrite find_set_ind. change (i_id (x <| i_server := Some sid |>)) with (i_id x). rewrite Hid, Ia. reflexivity. }
    set (sb := set_ind (x <| i_server := Some sid |>) sa) in *.
    apply bind_ok in H as (t & s0 & E & H). apply tnow_ok in E as [-> ->].
    assert (Tb : now sb = now s) by exact Ta. rewrite Tb in H.
    apply bind_ok in H as (u2 & sc & E & H). apply upd_ind_ok in E as (x0 & Hx0 & ->).
    rewrite Fb, Z.eqb_refl in Hx0. injection Hx0 as <-.
    set (xc := x <| i_server := Some sid |> <| i_sst := Some (now s) |>) in *.
    assert (Fc : forall k, find_ind k (inds (set_ind xc sb)) = if k =? i then Some xc else find_ind k (inds s))
      by (apply (find_chain s sb i _ xc Fb); exact Hid).
    set (sc := set_ind xc sb) in *.
    apply bind_ok in H as (u3 & sd & E & H).
    assert (Hxc : find_ind i (inds sc) = Some xc) by (rewrite Fc, Z.eqb_refl; reflexivity).
    destruct (give_individual_ok _ _ _ _ _ E Hxc) as (Td & Ld & Nd & x1 & Fd & Gd).
    apply bind_ok in H as (x1' & s0 & E1 & H). apply get_ind_ok in E1 as [-> Hx1]. rewrite Fd, Z.eqb_refl in Hx1. injection Hx1 as <-.
    apply bind_ok in H as (st & s0 & E1 & H). destruct (Gd _ _ _ E1) as (-> & Hg & Ex1).
    apply bind_ok in H as (u4 & se & E2 & H). apply put_ind_ok in E2.
    assert (Fe : forall k, find_ind k (inds se) = if k =? i then Some (started sid (now s) st x) else find_ind k (inds s)).
    { rewrite E2. intros k. rewrite find_set_ind. change (i_id (x1 <| i_send := Some (now s + st) |>)) with (i_id x1).
      rewrite Ex1. change (i_id (xc <| i_stime := Some st |> <| i_smark := 0 |>)) with (i_id x). rewrite Hid, Fd.
      destruct (k =? i) eqn:Ek; [reflexivity|]. rewrite Fc, Ek. reflexivity. }
    assert (Ne : forall k, node_at se k = if k =? j then Some nda else node_at s k)
      by (intros k; rewrite <- Na; rewrite E2; unfold node_at; cbn; rewrite Nd; reflexivity).
    assert (Te : now se = now s) by (rewrite E2; cbn; rewrite Td; exact Tb).
    assert (Le : log se = log s) by (rewrite E2; cbn; rewrite Ld; exact La).
    assert (HIe : Idx se) by (intros k n0 Hk; rewrite Ne in Hk; destruct (k =? j) eqn:Ek; [injection Hk as <-; apply Z.eqb_eq in Ek; rewrite Ek; exact Hnid|apply HI; exact Hk]).
    assert (De : d_svc (dr se) = d_svc (dr sd)) by (rewrite E2; reflexivity).
    assert (Dc : dr sc = dr s) by exact Da.
    assert (Hg' : given x (d_svc (dr s)) = Some (st, d_svc (dr se))) by (rewrite De, <- Hg, Dc; reflexivity).
    clearbody sc sb. clear E2 E E1 Gd Ex1 Fd Fc Fb Hxc Td Ld Nd.
    (* the counter *)
    set (ndf := nda <| n_insvc := if bump then n_insvc nd + 1 else n_insvc nd |>).
    assert (Hf : exists sf, (reset_class_change cf j i ;;; set_next_end j sid (Some (now s + st))) sf = Ok (u, s') /\
               inds sf = inds se /\ now sf = now s /\ log sf = log s /\ dr sf = dr se /\ Idx sf /\
               forall k, node_at sf k = if k =? j then Some ndf else node_at s k).
    { destruct bump.
      - apply bind_ok in H as (u5 & sf & E & H). apply upd_node_ok in E as (n0 & Hn0 & ->).
        rewrite Ne, Z.eqb_refl in Hn0. injection Hn0 as <-. exists (set_node (nda <| n_insvc := n_insvc nda + 1 |>) se).
        assert (Hne : node_at se (n_id (nda <| n_insvc := n_insvc nda + 1 |>)) <> None)
          by (change (node_at se (n_id nd) <> None); rewrite Hnid, Ne, Z.eqb_refl; discriminate).
        split; [exact H|]. split; [reflexivity|]. split; [exact Te|]. split; [exact Le|]. split; [reflexivity|].
        split; [apply Idx_set_node; assumption|]. intros k. rewrite (node_at_set_node _ _ _ Hne).
        change (n_id (nda <| n_insvc := n_insvc nda + 1 |>)) with (n_id nd). rewrite Hnid. destruct (k =? j) eqn:Ek; [reflexivity|].
        rewrite Ne, Ek. reflexivity.
      - apply bind_ok in H as (u5 & sf & E & H). apply ret_ok in E as [_ ->]. exists se.
        split; [exact H|]. split; [reflexivity|]. split; [exact Te|]. split; [exact Le|]. split; [reflexivity|]. split; [exact HIe|].
        intros k. rewrite Ne. destruct (k =? j); [|reflexivity]. subst ndf nda. destruct nd; reflexivity. }
    destruct Hf as (sf & Hrun & If & Tf & Lf & Df & HIf & Nf).
    apply bind_ok in Hrun as (u6 & sg & E & Hrun). apply (reset_class_change_cc _ _ _ _ _ HIf) in E.
    destruct E as (Tg & Lg & Dg & Og & Ng & HIg).
    assert (Hndg : exists ndg, node_at sg j = Some ndg /\ ecc_node ndg = ecc_node ndf).
    { specialize (Ng j). unfold onode in Ng. rewrite Nf, Z.eqb_refl in Ng. destruct (node_at sg j) as [ndg|]; [|discriminate Ng].
      exists ndg. split; [reflexivity|]. change (Some (ecc_node ndg) = Some (ecc_node ndf)) in Ng. apply Some_inj in Ng. exact Ng. }
    destruct Hndg as (ndg & Hndg & Endg).
    unfold set_next_end in Hrun. destruct (upd_server_obs _ _ _ _ _ _ _ Hrun HIg Hndg) as (Ih & Th & Lh & Dh & HIh & Nh).
    exists st. split; [rewrite Dh, Dg, Df; exact Hg'|]. split; [congruence|]. split; [congruence|]. split; [exact HIh|]. split.
    - intros k. unfold oind at 1. rewrite Ih. fold (oind sg k). rewrite Og. unfold oind at 1. rewrite If, Fe.
      destruct (k =? i); reflexivity.
    - intros k. unfold onode at 1. rewrite Nh. destruct (k =? j) eqn:Ek.
      + cbn [option_map]. f_equal.
        change (ecc_node (ndg <| n_servers := srv_upd sid (fun sv => sv <| sv_next_end := Some (now s + st) |>) (n_servers ndg) |>))
          with ((ecc_node ndg) <| n_servers := srv_upd sid (fun sv => sv <| sv_next_end := Some (now s + st) |>) (n_servers (ecc_node ndg)) |>).
        rewrite Endg.
        change (n_servers (ecc_node ndf)) with (srv_upd sid (fun sv => sv <| sv_cust := Some i |> <| sv_busy := true |>) (n_servers nd)).
        rewrite srv_upd_comp by (intros sv; reflexivity).
        subst ndf nda. destruct nd; reflexivity.
      + fold (onode sg k). rewrite Ng. unfold onode. rewrite Nf, Ek. reflexivity.
  Qed.


  (* C11 (c) for the two blocks that restart a pre-empted customer through the service discipline *)
  Theorem start_give_spec j i sid s u s' x nd : start_give cf j i sid s = Ok (u, s') -> Idx s ->
    find_ind i (inds s) = Some x -> node_at s j = Some nd ->
    exists st, given x (d_svc (dr s)) = Some (st, d_svc (dr s')) /\ now s' = now s /\ log s' = log s /\ Idx s' /\
      (forall k, oind s' k = if k =? i then Some (ecc_ind (started sid (now s) st x)) else oind s k) /\
      (forall k, onode s' k = if k =? j
         then Some (ecc_node (nd <| n_servers := srv_upd sid (serving i (now s) st) (n_servers nd) |> <| n_insvc := n_insvc nd + 1 |>))
         else onode s k).
  Proof. rewrite start_give_body. apply start_body_spec. Qed.
  Theorem start_preemptor_spec j i sid s u s' x nd : start_preemptor cf j i sid s = Ok (u, s') -> Idx s ->
    find_ind i (inds s) = Some x -> node_at s j = Some nd ->
    exists st, given x (d_svc (dr s)) = Some (st, d_svc (dr s')) /\ now s' = now s /\ log s' = log s /\ Idx s' /\
      (forall k, oind s' k = if k =? i then Some (ecc_ind (started sid (now s) st x)) else oind s k) /\
      (forall k, onode s' k = if k =? j
         then Some (ecc_node (nd <| n_servers := srv_upd sid (serving i (now s) st) (n_servers nd) |> <| n_insvc := n_insvc nd |>))
         else onode s k).
  Proof. rewrite start_preemptor_body. apply start_body_spec. Qed.

  (* ================= (b) what preempt does ================= *)
  (* the interruption record: type 1, exit date = the interruption, service time = the service time of the interrupted stint *)
  Definition int_rec (j t : Z) (x : ind) (dest sid : option Z) : rec :=
    mkRec (i_id x) (i_pcls x) (i_ocls x) j 1 (i_arr x) (Some (numo (i_sst x) - numo (i_arr x))) (i_sst x)
          (i_ost x) None None (Some t) dest (i_qa x) (i_qd x) sid.
  Lemma write_interruption_record_ok j i dest s u s' : write_interruption_record cf j i dest s = Ok (u, s') ->
    exists x nc, find_ind i (inds s) = Some x /\ cfg_at j = Some nc /\
      s' = set_ind (x <| i_nrec := i_nrec x + 1 |>)
                   (s <| log := log s ++ [int_rec j (now s) x dest (if nc_slotted nc then None else i_server x)] |>).
  Proof.
    unfold write_interruption_record. intros H.
    apply bind_ok in H as (t & s0 & E & H). apply tnow_ok in E as [-> ->].
    apply bind_ok in H as (x & s0 & E & H). apply get_ind_ok in E as [-> Hx].
    apply bind_ok in H as (nc & s0 & E & H). apply ncfg_of_ok in E as [-> Hnc].
    apply bind_ok in H as (sid & s0 & E & H).
    assert (Hsid : s0 = s /\ sid = if nc_slotted nc then None else i_server x).
    { destruct (nc_slotted nc).
      - apply ret_ok in E as [-> ->]. split; reflexivity.
      - apply bind_ok in E as (s1 & s2 & E1 & E). apply lift_ok in E1 as [E1 ->]. apply ret_ok in E as [-> ->]. split; [reflexivity|symmetry; exact E1]. }
    destruct Hsid as [-> ->].
    apply bind_ok in H as (u1 & s1 & E1 & H). unfold log_rec in E1. apply modify_ok in E1. subst s1.
    unfold bump_rec in H. apply upd_ind_ok in H as (x0 & Hx0 & ->). cbn in Hx0. rewrite Hx in Hx0. injection Hx0 as <-.
    exists x, nc. split; [exact Hx|]. split; [exact Hnc|]. reflexivity.
  Qed.

  Definition detached (t : Z) (x : ind) (sv : server) : server :=
    sv <| sv_cust := None |> <| sv_busy := false |>
       <| sv_busy_time := sv_busy_time sv - sv_wrapped sv + (numo (i_exit x) - numo (i_sst x)) |> <| sv_wrapped := 0 |>
       <| sv_total_time := Some (t - sv_start sv) |>.
  Lemma detatch_server_ok j sid i s u s' nd x sv : detatch_server j sid i s = Ok (u, s') -> node_at s j = Some nd ->
    find_ind i (inds s) = Some x -> find_server sid (n_servers nd) = Some sv -> sv_offduty sv = false ->
    s' = set_node (nd <| n_servers := put_server_l (detached (now s) x sv) (n_servers nd) |>) (set_ind (x <| i_server := None |>) s).
  Proof.
    unfold detatch_server. intros H Hn Hx Hs Ho.
    apply bind_ok in H as (t & s0 & E & H). apply tnow_ok in E as [-> ->].
    apply bind_ok in H as (nd0 & s0 & E & H). apply get_node_ok in E as [-> Hn0]. rewrite Hn in Hn0. injection Hn0 as <-.
    apply bind_ok in H as (x0 & s0 & E & H). apply get_ind_ok in E as [-> Hx0]. rewrite Hx in Hx0. injection Hx0 as <-.
    apply bind_ok in H as (u1 & s1 & E & H). apply put_ind_ok in E. subst s1. rewrite Hs in H.
    apply bind_ok in H as (u2 & s1 & E & H). apply put_node_ok in E. subst s1. rewrite Ho in H. apply ret_ok in H as [_ ->]. reflexivity.
  Qed.

  (* the victim after a pre-emption with option p (1 resume, 2 restart, 3 resample) at time t *)
  Definition preempted (p t : Z) (vx : ind) : ind :=
    vx <| i_ost := i_stime vx |> <| i_nrec := i_nrec vx + 1 |>
       <| i_sst := None |> <| i_tleft := Some (numo (i_send vx) - t) |> <| i_smark := p |> <| i_stime := None |> <| i_send := None |>
       <| i_server := None |>.

  (* the victim's server after it has been handed to the pre-emptor i *)
  Definition handed_over (i t st : Z) (vx : ind) (sv : server) : server := serving i t st (detached t (vx <| i_sst := None |>) sv).

  (* (nested record updates: `cbn` and plain conversion are exponential in the nesting depth here, `vm_compute` / `lazy` are not) *)
  (* the stint served by the victim's server is NOT credited to its busy time: detatch_server adds exit_date - service_start_date, and
     at this point the start date has just been cleared (False = 0) and the exit date of a customer in service is unset (False = 0) *)
  Lemma handed_over_busy_time i t st vx sv :
    sv_busy_time (handed_over i t st vx sv) = sv_busy_time sv - sv_wrapped sv + (numo (i_exit vx) - 0).
  Proof. destruct vx, sv. reflexivity. Qed.
  Lemma preempted_id p t vx : i_id (preempted p t vx) = i_id vx. Proof. destruct vx. vm_compute. reflexivity. Qed.
  Lemma preempted_srv p t vx a : preempted p t vx <| i_server := a |> <| i_server := None |> = preempted p t vx.
  Proof. destruct vx. vm_compute. reflexivity. Qed.
  Lemma detached_preempted t p vx a sv : detached t (preempted p t vx <| i_server := a |>) sv = detached t (vx <| i_sst := None |>) sv.
  Proof. destruct vx, sv. vm_compute. reflexivity. Qed.

  (* C11, second sentence (priority pre-emption with resume / restart / resample; the victim holds a server that is in the node's
     list and on duty).  Everything is stated up to the class-change-while-waiting bookkeeping (ecc_ind, ecc_node):
     - the clock does not move; exactly one record is written: the victim's interruption record, exit date = now;
     - the victim keeps its place in its queue (queues, population and number_in_service of the node are untouched), loses its
       server, start, service time and end date, gets time_left = end date - now, the marker of the option, and
       original_service_time = the service time of the interrupted stint;
     - the pre-emptor gets the victim's server and starts now with the service time `given` prescribes (a fresh draw unless it
       carries a marker or a service time of its own);
     - nobody else and no other node changes. *)
  Theorem preempt_spec fu j v i s u s' nc vx x nd sid sv :
    preempt cf (S fu) j v i s = Ok (u, s') -> Idx s -> v <> i ->
    cfg_at j = Some nc -> nc_preempt nc <> 4 ->
    find_ind v (inds s) = Some vx -> find_ind i (inds s) = Some x -> node_at s j = Some nd ->
    i_server vx = Some sid -> find_server sid (n_servers nd) = Some sv -> sv_offduty sv = false ->
    exists st, given x (d_svc (dr s)) = Some (st, d_svc (dr s')) /\
      now s' = now s /\ Idx s' /\
      log s' = log s ++ [int_rec j (now s) (vx <| i_ost := i_stime vx |>) None (if nc_slotted nc then None else Some sid)] /\
      oind s' v = Some (ecc_ind (preempted (nc_preempt nc) (now s) vx)) /\
      oind s' i = Some (ecc_ind (started sid (now s) st x)) /\
      (forall k, k <> v -> k <> i -> oind s' k = oind s k) /\
      onode s' j = Some (ecc_node (nd <| n_servers := put_server_l (handed_over i (now s) st vx sv) (n_servers nd) |>)) /\
      (forall k, k <> j -> onode s' k = onode s k).
  Proof.
    intros H HI Hvi Hnc Hp4 Hvx Hx Hn Hsid Hsv Hoff. cbn [preempt] in H.
    pose proof (find_ind_id _ _ _ Hvx) as Hvid. pose proof (HI _ _ Hn) as Hnid.
    apply bind_ok in H as (t & s0 & E & H). apply tnow_ok in E as [-> ->].
    apply bind_ok in H as (vx0 & s0 & E & H). apply get_ind_ok in E as [-> Hvx0]. rewrite Hvx in Hvx0. injection Hvx0 as <-.
    apply bind_ok in H as (nc0 & s0 & E & H). apply ncfg_of_ok in E as [-> Hnc0]. rewrite Hnc in Hnc0. injection Hnc0 as <-.
    apply bind_ok in H as (u1 & s1 & E & H). apply put_ind_ok in E. subst s1.
    apply bind_ok in H as (u2 & s4 & E & H).
    apply Z.eqb_neq in Hp4. rewrite Hp4 in E.
    apply bind_ok in E as (u3 & s2 & E2 & E).
    apply write_interruption_record_ok in E2 as (vx1 & nc1 & Hvx1 & Hnc1 & ->). rewrite Hnc in Hnc1. injection Hnc1 as <-.
    rewrite find_set_ind in Hvx1. change (i_id (vx <| i_ost := i_stime vx |>)) with (i_id vx) in Hvx1. rewrite Hvid, Z.eqb_refl in Hvx1. injection Hvx1 as <-.
    apply bind_ok in E as (u4 & s3 & E3 & E). apply upd_ind_ok in E3 as (vx2 & Hvx2 & ->).
    set (vx1 := vx <| i_ost := i_stime vx |>) in *.
    set (R := int_rec j (now (set_ind vx1 s)) vx1 None (if nc_slotted nc then None else i_server vx1)) in *.
    rewrite find_set_ind in Hvx2. change (i_id (vx1 <| i_nrec := i_nrec vx1 + 1 |>)) with (i_id vx) in Hvx2.
    rewrite Hvid, Z.eqb_refl in Hvx2. injection Hvx2 as <-.
    set (s3 := set_ind _ (set_ind _ _)) in E.
    assert (F3 : forall k, find_ind k (inds s3) = if k =? v then Some (preempted (nc_preempt nc) (now s) vx <| i_server := Some sid |>) else find_ind k (inds s)).
    { intros k. subst s3. rewrite (find_set_ind_id _ _ k v) by exact Hvid. rewrite (find_set_ind_id _ _ k v) by exact Hvid.
      rewrite inds_log. rewrite (find_set_ind_id _ _ k v) by exact Hvid. destruct (k =? v); [|reflexivity].
      f_equal. unfold preempted. subst vx1. destruct vx. cbn in Hsid |- *. rewrite Hsid. reflexivity. }
    assert (N3 : forall k, node_at s3 k = node_at s k) by (intros k; reflexivity).
    assert (T3 : now s3 = now s) by reflexivity.
    assert (L3 : log s3 = log s ++ [R]) by reflexivity.
    assert (D3 : dr s3 = dr s) by reflexivity.
    clearbody s3.
    apply bind_ok in E as (sid0 & s0 & E0 & E). apply lift_ok in E0 as [E0 ->]. rewrite Hsid in E0. injection E0 as <-.
    apply bind_ok in E as (u5 & sD & ED & E).
    assert (Hv3 : find_ind v (inds s3) = Some (preempted (nc_preempt nc) (now s) vx <| i_server := Some sid |>)) by (rewrite F3, Z.eqb_refl; reflexivity).
    assert (Hn3 : node_at s3 j = Some nd) by (rewrite N3; exact Hn).
    pose proof (detatch_server_ok _ _ _ _ _ _ _ _ _ ED Hn3 Hv3 Hsv Hoff) as EsD.
    rewrite T3, detached_preempted, preempted_srv in EsD.
    set (nd4 := nd <| n_servers := put_server_l (detached (now s) (vx <| i_sst := None |>) sv) (n_servers nd) |>) in *.
    assert (HI3 : Idx s3) by (intros k n0 Hk; rewrite N3 in Hk; apply HI; exact Hk).
    assert (Hne : node_at (set_ind (preempted (nc_preempt nc) (now s) vx) s3) (n_id nd4) <> None)
      by (change (node_at s3 (n_id nd) <> None); rewrite Hnid, Hn3; discriminate).
    assert (FD : forall k, find_ind k (inds sD) = if k =? v then Some (preempted (nc_preempt nc) (now s) vx) else find_ind k (inds s)).
    { intros k. rewrite EsD, inds_set_node. rewrite (find_set_ind_id _ _ k v) by (rewrite preempted_id; exact Hvid).
      rewrite F3. destruct (k =? v); reflexivity. }
    assert (ND : forall k, node_at sD k = if k =? j then Some nd4 else node_at s k).
    { intros k. rewrite EsD. rewrite (node_at_set_node _ _ _ Hne). change (n_id nd4) with (n_id nd). rewrite Hnid.
      destruct (k =? j); [reflexivity|]. rewrite node_at_set_ind. apply N3. }
    assert (TD : now sD = now s) by (rewrite EsD; exact T3).
    assert (LD : log sD = log s ++ [R]) by (rewrite EsD; exact L3).
    assert (DD : dr sD = dr s) by (rewrite EsD; exact D3).
    assert (HID : Idx sD).
    { intros k n0 Hk. rewrite ND in Hk. destruct (k =? j) eqn:Ek; [|apply HI; exact Hk].
      injection Hk as <-. apply Z.eqb_eq in Ek. rewrite Ek. exact Hnid. }
    clear EsD ED Hne Hv3 Hn3.
    apply (decide_class_change_cc _ _ _ _ _ HID) in E. destruct E as (T4 & L4 & D4 & O4 & N4 & HI4).
    apply bind_ok in H as (sid0 & s0 & E0 & H). apply lift_ok in E0 as [E0 ->]. rewrite Hsid in E0. injection E0 as <-.
    assert (Hx4 : exists x4, find_ind i (inds s4) = Some x4 /\ ecc_ind x4 = ecc_ind x).
    { specialize (O4 i). unfold oind in O4. rewrite FD in O4. assert (Ei : (i =? v) = false) by (apply Z.eqb_neq; congruence).
      rewrite Ei, Hx in O4. destruct (find_ind i (inds s4)) as [x4|]; [|discriminate O4]. exists x4. split; [reflexivity|].
      change (Some (ecc_ind x4) = Some (ecc_ind x)) in O4. apply Some_inj in O4. exact O4. }
    destruct Hx4 as (x4 & Hx4 & Ex4).
    assert (Hn4 : exists n4, node_at s4 j = Some n4 /\ ecc_node n4 = ecc_node nd4).
    { specialize (N4 j). unfold onode in N4. rewrite ND, Z.eqb_refl in N4. destruct (node_at s4 j) as [n4|]; [|discriminate N4].
      exists n4. split; [reflexivity|]. change (Some (ecc_node n4) = Some (ecc_node nd4)) in N4. apply Some_inj in N4. exact N4. }
    destruct Hn4 as (n4 & Hn4 & En4).
    destruct (start_preemptor_spec _ _ _ _ _ _ _ _ H HI4 Hx4 Hn4) as (st & Hg & T5 & L5 & HI5 & O5 & N5).
    exists st. rewrite <- given_ecc, Ex4, given_ecc, D4, DD in Hg. split; [exact Hg|]. split; [congruence|]. split; [exact HI5|]. split.
    { rewrite L5, L4, LD. subst R. change (now (set_ind vx1 s)) with (now s). change (i_server vx1) with (i_server vx). rewrite Hsid. reflexivity. }
    rewrite T4, TD in O5, N5. split.
    { rewrite O5. assert (Ei : (v =? i) = false) by (apply Z.eqb_neq; exact Hvi). rewrite Ei, O4. unfold oind. rewrite FD, Z.eqb_refl. reflexivity. }
    split.
    { rewrite O5, Z.eqb_refl. f_equal. apply started_ecc. exact Ex4. }
    split.
    { intros k Hkv Hki. rewrite O5. apply Z.eqb_neq in Hki. rewrite Hki, O4. unfold oind. rewrite FD. apply Z.eqb_neq in Hkv. rewrite Hkv. reflexivity. }
    split.
    { rewrite N5, Z.eqb_refl. f_equal.
      change (ecc_node (n4 <| n_servers := srv_upd sid (serving i (now s) st) (n_servers n4) |> <| n_insvc := n_insvc n4 |>))
        with ((ecc_node n4) <| n_servers := srv_upd sid (serving i (now s) st) (n_servers (ecc_node n4)) |> <| n_insvc := n_insvc (ecc_node n4) |>).
      rewrite En4. change (n_servers (ecc_node nd4)) with (put_server_l (detached (now s) (vx <| i_sst := None |>) sv) (n_servers nd)).
      unfold srv_upd. pose proof (find_server_id _ _ _ Hsv) as Hsvid.
      rewrite (find_put_server sid (n_servers nd) sv _ Hsv) by exact Hsvid.
      rewrite put_put_server by reflexivity. subst nd4. destruct nd; reflexivity. }
    intros k Hk. rewrite N5. apply Z.eqb_neq in Hk. rewrite Hk, N4. unfold onode. rewrite ND, Hk. reflexivity.
  Qed.


  (* ---------- reading the results: from the erased view back to the customer ---------- *)
  Lemma oind_some s k y : oind s k = Some (ecc_ind y) -> exists x', find_ind k (inds s) = Some x' /\ ecc_ind x' = ecc_ind y.
  Proof.
    unfold oind. destruct (find_ind k (inds s)) as [x'|]; [|discriminate]. intros H. exists x'. split; [reflexivity|].
    change (Some (ecc_ind x') = Some (ecc_ind y)) in H. apply Some_inj in H. exact H.
  Qed.
  Lemma preempted_fields p t vx :
    i_id (preempted p t vx) = i_id vx /\ i_server (preempted p t vx) = None /\ i_sst (preempted p t vx) = None /\
    i_stime (preempted p t vx) = None /\ i_send (preempted p t vx) = None /\ i_smark (preempted p t vx) = p /\
    i_tleft (preempted p t vx) = Some (numo (i_send vx) - t) /\ i_ost (preempted p t vx) = i_stime vx /\
    i_nrec (preempted p t vx) = i_nrec vx + 1 /\ i_node (preempted p t vx) = i_node vx /\ i_prio (preempted p t vx) = i_prio vx /\
    i_pprio (preempted p t vx) = i_pprio vx /\ i_blocked (preempted p t vx) = i_blocked vx /\ i_ren (preempted p t vx) = i_ren vx /\
    i_arr (preempted p t vx) = i_arr vx /\ i_interrupted (preempted p t vx) = i_interrupted vx.
  Proof. destruct vx. repeat split. Qed.
  Lemma ecc_fields x y : ecc_ind x = ecc_ind y ->
    i_id x = i_id y /\ i_server x = i_server y /\ i_sst x = i_sst y /\ i_stime x = i_stime y /\ i_send x = i_send y /\
    i_smark x = i_smark y /\ i_tleft x = i_tleft y /\ i_ost x = i_ost y /\ i_nrec x = i_nrec y /\ i_node x = i_node y /\
    i_prio x = i_prio y /\ i_pprio x = i_pprio y /\ i_blocked x = i_blocked y /\ i_ren x = i_ren y /\ i_arr x = i_arr y /\
    i_interrupted x = i_interrupted y.
  Proof. destruct x, y. unfold ecc_ind. cbn. intros H. injection H as ?. repeat split; assumption. Qed.

  (* the victim, field by field: it waits again (no server, no dates), keeps node, classes, blocked flag and -- F-02c -- its reneging
     date, and carries marker, time_left and original_service_time *)
  Corollary preempt_victim_after fu j v i s u s' nc vx x nd sid sv :
    preempt cf (S fu) j v i s = Ok (u, s') -> Idx s -> v <> i ->
    cfg_at j = Some nc -> nc_preempt nc <> 4 ->
    find_ind v (inds s) = Some vx -> find_ind i (inds s) = Some x -> node_at s j = Some nd ->
    i_server vx = Some sid -> find_server sid (n_servers nd) = Some sv -> sv_offduty sv = false ->
    exists vx', find_ind v (inds s') = Some vx' /\
      i_server vx' = None /\ i_sst vx' = None /\ i_stime vx' = None /\ i_send vx' = None /\
      i_smark vx' = nc_preempt nc /\ i_tleft vx' = Some (numo (i_send vx) - now s) /\ i_ost vx' = i_stime vx /\
      i_nrec vx' = i_nrec vx + 1 /\ i_node vx' = i_node vx /\ i_prio vx' = i_prio vx /\ i_pprio vx' = i_pprio vx /\
      i_blocked vx' = i_blocked vx /\ i_ren vx' = i_ren vx.
  Proof.
    intros H HI Hvi Hnc Hp4 Hvx Hx Hn Hsid Hsv Hoff.
    destruct (preempt_spec _ _ _ _ _ _ _ _ _ _ _ _ _ H HI Hvi Hnc Hp4 Hvx Hx Hn Hsid Hsv Hoff) as (st & _ & _ & _ & _ & Ov & _).
    apply oind_some in Ov as (vx' & Hf & E). exists vx'. split; [exact Hf|].
    apply ecc_fields in E. destruct (preempted_fields (nc_preempt nc) (now s) vx) as (P1&P2&P3&P4&P5&P6&P7&P8&P9&P10&P11&P12&P13&P14&P15&P16).
    destruct E as (E1&E2&E3&E4&E5&E6&E7&E8&E9&E10&E11&E12&E13&E14&E15&E16).
    repeat split; congruence.
  Qed.

  (* C11, last sentence, one stint at a time.  Resume (option 1), the victim's three dates consistent (SvcInv): the interruption
     record shows start a, service time r (the requirement of this stint) and exit = now; the time_left stored is r minus the time
     served in the stint, and it is exactly what the next service start will give (no draw).  Summing over the stints of a visit:
     total time served = the requirement drawn at the first start. *)
  Theorem preempt_resume_telescope fu j v i s u s' nc vx x nd sid sv a r :
    preempt cf (S fu) j v i s = Ok (u, s') -> Idx s -> v <> i ->
    cfg_at j = Some nc -> nc_preempt nc = 1 ->
    find_ind v (inds s) = Some vx -> find_ind i (inds s) = Some x -> node_at s j = Some nd ->
    i_server vx = Some sid -> find_server sid (n_servers nd) = Some sv -> sv_offduty sv = false ->
    i_sst vx = Some a -> i_stime vx = Some r -> i_send vx = Some (a + r) ->
    exists vx' tl R, find_ind v (inds s') = Some vx' /\ log s' = log s ++ [R] /\
      r_type R = 1 /\ r_id R = v /\ r_node R = j /\ r_sst R = Some a /\ r_stime R = Some r /\ r_exit R = Some (now s) /\
      i_tleft vx' = Some tl /\ (now s - a) + tl = r /\
      forall d, given vx' d = Some (tl, d).
  Proof.
    intros H HI Hvi Hnc Hp1 Hvx Hx Hn Hsid Hsv Hoff Ha Hr He.
    assert (Hp4 : nc_preempt nc <> 4) by lia.
    destruct (preempt_spec _ _ _ _ _ _ _ _ _ _ _ _ _ H HI Hvi Hnc Hp4 Hvx Hx Hn Hsid Hsv Hoff) as (st & _ & _ & _ & HL & Ov & _).
    apply oind_some in Ov as (vx' & Hf & E).
    exists vx', (a + r - now s), (int_rec j (now s) (vx <| i_ost := i_stime vx |>) None (if nc_slotted nc then None else Some sid)).
    split; [exact Hf|]. split; [exact HL|]. split; [reflexivity|]. split; [apply (find_ind_id _ _ _ Hvx)|]. split; [reflexivity|].
    split; [exact Ha|]. split; [exact Hr|]. split; [reflexivity|].
    pose proof (ecc_fields _ _ E) as (E1&E2&E3&E4&E5&E6&E7&E8&_).
    destruct (preempted_fields (nc_preempt nc) (now s) vx) as (P1&P2&P3&P4&P5&P6&P7&P8&_).
    assert (Ht : i_tleft vx' = Some (a + r - now s)) by (rewrite E7, P7, He; reflexivity).
    split; [exact Ht|]. split; [lia|]. intros d. unfold given.
    rewrite E6, P6, Hp1, Ht. reflexivity.
  Qed.

  (* ... and the next service start of that customer (through the discipline, on any server of the node) serves exactly the stored time *)
  Theorem resume_gives_time_left j i sid s u s' x nd tl : start_give cf j i sid s = Ok (u, s') -> Idx s ->
    find_ind i (inds s) = Some x -> node_at s j = Some nd -> i_smark x = 1 -> i_tleft x = Some tl ->
    d_svc (dr s') = d_svc (dr s) /\
    exists x', find_ind i (inds s') = Some x' /\ i_sst x' = Some (now s) /\ i_stime x' = Some tl /\ i_smark x' = 0 /\
      i_send x' = Some (now s + tl) /\ i_server x' = Some sid.
  Proof.
    intros H HI Hx Hn Hm Ht. destruct (start_give_spec _ _ _ _ _ _ _ _ H HI Hx Hn) as (st & Hg & _ & _ & _ & Oi & _).
    unfold given in Hg. rewrite Hm, Ht in Hg. cbn in Hg. injection Hg as <- Hd. split; [symmetry; exact Hd|].
    specialize (Oi i). rewrite Z.eqb_refl in Oi. apply oind_some in Oi as (x' & Hf & E). exists x'. split; [exact Hf|].
    apply ecc_fields in E. destruct E as (E1&E2&E3&E4&E5&E6&_). repeat split; assumption.
  Qed.

  Theorem restart_gives_original j i sid s u s' x nd o : start_give cf j i sid s = Ok (u, s') -> Idx s ->
    find_ind i (inds s) = Some x -> node_at s j = Some nd -> i_smark x = 2 -> i_ost x = Some o ->
    d_svc (dr s') = d_svc (dr s) /\
    exists x', find_ind i (inds s') = Some x' /\ i_sst x' = Some (now s) /\ i_stime x' = Some o /\ i_smark x' = 0 /\
      i_send x' = Some (now s + o) /\ i_server x' = Some sid.
  Proof.
    intros H HI Hx Hn Hm Ht. destruct (start_give_spec _ _ _ _ _ _ _ _ H HI Hx Hn) as (st & Hg & _ & _ & _ & Oi & _).
    unfold given in Hg. rewrite Hm, Ht in Hg. cbn in Hg. injection Hg as <- Hd. split; [symmetry; exact Hd|].
    specialize (Oi i). rewrite Z.eqb_refl in Oi. apply oind_some in Oi as (x' & Hf & E). exists x'. split; [exact Hf|].
    apply ecc_fields in E. destruct E as (E1&E2&E3&E4&E5&E6&_). repeat split; assumption.
  Qed.
  Theorem resample_gives_fresh j i sid s u s' x nd : start_give cf j i sid s = Ok (u, s') -> Idx s ->
    find_ind i (inds s) = Some x -> node_at s j = Some nd -> i_smark x = 3 ->
    exists st, d_svc (dr s) = st :: d_svc (dr s') /\
    exists x', find_ind i (inds s') = Some x' /\ i_sst x' = Some (now s) /\ i_stime x' = Some st /\ i_smark x' = 0 /\
      i_send x' = Some (now s + st) /\ i_server x' = Some sid.
  Proof.
    intros H HI Hx Hn Hm. destruct (start_give_spec _ _ _ _ _ _ _ _ H HI Hx Hn) as (st & Hg & _ & _ & _ & Oi & _).
    unfold given in Hg. rewrite Hm in Hg. cbn in Hg. destruct (d_svc (dr s)) as [|st0 r0]; [discriminate Hg|]. injection Hg as -> Hd.
    exists st. split; [rewrite Hd; reflexivity|].
    specialize (Oi i). rewrite Z.eqb_refl in Oi. apply oind_some in Oi as (x' & Hf & E). exists x'. split; [exact Hf|].
    apply ecc_fields in E. destruct E as (E1&E2&E3&E4&E5&E6&_). repeat split; assumption.
  Qed.

  (* the restart of a customer interrupted by a pre-emptive schedule (first of the node's interrupted list, not blocked): same rule *)
  Lemma upd_server_frame j sid f s u s' : upd_server j sid f s = Ok (u, s') -> inds s' = inds s /\ now s' = now s /\ dr s' = dr s.
  Proof.
    intros H. apply upd_server_ok in H as (nd & _ & ->). destruct (find_server sid (n_servers nd)); repeat split; reflexivity.
  Qed.
  Theorem biis_spec j sid s u s' nd i x : begin_interrupted_individuals_service j sid s = Ok (u, s') ->
    node_at s j = Some nd -> hd_error (n_interrupted nd) = Some i -> find_ind i (inds s) = Some x ->
    i_blocked x = false -> i_smark x <> 0 ->
    exists st, given x (d_svc (dr s)) = Some (st, d_svc (dr s')) /\ now s' = now s /\
      (forall k, find_ind k (inds s') =
         if k =? i then Some (x <| i_server := Some sid |> <| i_stime := Some st |> <| i_smark := 0 |>
                                <| i_sst := Some (now s) |> <| i_send := Some (now s + st) |> <| i_interrupted := false |>)
         else find_ind k (inds s)).
  Proof.
    intros H Hn Hhd Hx Hb Hm. pose proof (find_ind_id _ _ _ Hx) as Hid. unfold begin_interrupted_individuals_service in H.
    apply bind_ok in H as (nd0 & s0 & E & H). apply get_node_ok in E as [-> Hn0]. rewrite Hn in Hn0. injection Hn0 as <-.
    apply bind_ok in H as (i0 & s0 & E & H). apply lift_ok in E as [E ->]. rewrite Hhd in E. injection E as <-.
    apply bind_ok in H as (x0 & s0 & E & H). apply get_ind_ok in E as [-> Hx0]. rewrite Hx in Hx0. injection Hx0 as <-.
    rewrite Hb in H. apply bind_ok in H as (u0 & s0 & E & H). apply ret_ok in E as [_ ->].
    apply bind_ok in H as (u1 & sb & E & H). unfold attach_server in E.
    apply bind_ok in E as (u2 & sa & Ea & E). apply upd_server_frame in Ea as (Ia & Ta & Da).
    apply upd_ind_ok in E as (x0 & Hx0 & ->). rewrite Ia, Hx in Hx0. injection Hx0 as <-.
    set (xb := x <| i_server := Some sid |>) in *.
    assert (Fb : forall k, find_ind k (inds (set_ind xb sa)) = if k =? i then Some xb else find_ind k (inds s))
      by (intros k; rewrite (find_set_ind_id xb sa k i Hid), Ia; reflexivity).
    set (sb := set_ind xb sa) in *. assert (Tb : now sb = now s) by exact Ta. assert (Db : dr sb = dr s) by exact Da.
    assert (Hxb : find_ind i (inds sb) = Some xb) by (rewrite Fb, Z.eqb_refl; reflexivity).
    clearbody sb.
    apply bind_ok in H as (u3 & sc & E & H).
    assert (Eg : give_individual_a_service_time i sb = Ok (u3, sc)).
    { unfold give_individual_a_service_time, bind, get_ind. rewrite Hxb. change (i_smark xb) with (i_smark x).
      apply Z.eqb_neq in Hm. rewrite Hm. cbn [andb]. exact E. }
    destruct (give_individual_ok _ _ _ _ _ Eg Hxb) as (Tc & Lc & Nc & x1 & Fc & Gc).
    apply bind_ok in H as (t & s0 & E1 & H). apply tnow_ok in E1 as [-> ->].
    apply bind_ok in H as (x1' & s0 & E1 & H). apply get_ind_ok in E1 as [-> Hx1]. rewrite Fc, Z.eqb_refl in Hx1. injection Hx1 as <-.
    apply bind_ok in H as (st & s0 & E1 & H). destruct (Gc _ _ _ E1) as (-> & Hg & Ex1).
    apply bind_ok in H as (u4 & sd & E2 & H). apply put_ind_ok in E2.
    apply bind_ok in H as (u5 & se & E3 & H). apply upd_node_ok in E3 as (n3 & _ & E3).
    apply bind_ok in H as (u6 & sf & E4 & H). unfold set_next_end in E4. apply upd_server_frame in E4 as (I4 & T4 & D4).
    apply bind_ok in H as (nd2 & s0 & E5 & H). apply get_node_ok in E5 as [-> _].
    apply bind_ok in H as (l' & s0 & E5 & H). apply lift_ok in E5 as [_ ->]. apply put_node_ok in H.
    exists st. split.
    { rewrite H. cbn. rewrite D4, E3. cbn. rewrite E2. cbn. rewrite <- Db. exact Hg. }
    split; [rewrite H; cbn; rewrite T4, E3; cbn; rewrite E2; cbn; congruence|].
    intros k. rewrite H, inds_set_node, I4, E3, inds_set_node, E2, Tc, Tb.
    rewrite (find_set_ind_id _ _ k i) by (rewrite Ex1; exact Hid). rewrite Fc, Fb.
    destruct (k =? i); [|reflexivity]. rewrite Ex1. subst xb. reflexivity.
  Qed.

  (* ================= (d) the invariant SvcInv over events ================= *)
  (* per customer: not flagged interrupted, and whenever it carries a numeric service time and a start date, its end date is their sum *)
  Definition SvcP (x : ind) : Prop :=
    i_interrupted x = false /\
    (i_smark x = 0 -> forall a st, i_sst x = Some a -> i_stime x = Some st -> i_send x = Some (a + st)).
  Definition FA (R : ind -> Prop) (s : sim) : Prop := NoDup (map i_id (inds s)) /\ Forall R (inds s).
  Definition SvcInv (s : sim) : Prop := FA SvcP s.

  Definition hoare {X} (Pre : sim -> Prop) (m : M X) (Post : X -> sim -> Prop) : Prop :=
    forall s a s', Pre s -> m s = Ok (a, s') -> Post a s'.
  Definition ip {X} (m : M X) : Prop := hoare SvcInv m (fun _ => SvcInv).

  Lemma h_bind {X Y} (Pre : sim -> Prop) (Mid : X -> sim -> Prop) (Post : Y -> sim -> Prop) (m : M X) (k : X -> M Y) :
    hoare Pre m Mid -> (forall a, hoare (Mid a) (k a) Post) -> hoare Pre (bind m k) Post.
  Proof. intros Hm Hk s b s' HP H. apply bind_ok in H as (a & s1 & E & H). eapply Hk; [eapply Hm; eassumption|exact H]. Qed.
  Lemma h_conseq {X} (Pre Pre' : sim -> Prop) (Post Post' : X -> sim -> Prop) (m : M X) :
    hoare Pre' m Post' -> (forall s, Pre s -> Pre' s) -> (forall a s, Post' a s -> Post a s) -> hoare Pre m Post.
  Proof. intros H H1 H2 s a s' HP E. apply H2. eapply H; [apply H1; exact HP|exact E]. Qed.

  Lemma find_ind_In i l x : find_ind i l = Some x -> In x l.
  Proof. induction l as [|y r IH]; cbn; [discriminate|]. destruct (i_id y =? i); [intros H; injection H as <-; left; reflexivity|intros H; right; apply IH; exact H]. Qed.
  Lemma In_ids_put y : forall l k, In k (map i_id (put_ind_l y l)) -> k = i_id y \/ In k (map i_id l).
  Proof.
    induction l as [|z r IH]; intros k H; cbn in H.
    - destruct H as [<-|[]]. left. reflexivity.
    - destruct (i_id z =? i_id y) eqn:E; cbn in H.
      + destruct H as [<-|H]; [left; reflexivity|right; right; exact H].
      + destruct H as [<-|H]; [right; left; reflexivity|]. destruct (IH _ H) as [->|H']; [left; reflexivity|right; right; exact H'].
  Qed.
  Lemma NoDup_put y : forall l, NoDup (map i_id l) -> NoDup (map i_id (put_ind_l y l)).
  Proof.
    induction l as [|z r IH]; intros H; cbn.
    - constructor; [intros []|constructor].
    - inversion H as [|? ? Hn Hd]; subst. destruct (i_id z =? i_id y) eqn:E; cbn.
      + apply Z.eqb_eq in E. rewrite <- E. constructor; assumption.
      + apply Z.eqb_neq in E. constructor; [|apply IH; exact Hd].
        intros Hin. apply In_ids_put in Hin as [Hin|Hin]; [contradiction|contradiction].
  Qed.
  Lemma Forall_put (R : ind -> Prop) y : forall l, NoDup (map i_id l) -> R y -> (forall z, In z l -> i_id z <> i_id y -> R z) -> Forall R (put_ind_l y l).
  Proof.
    induction l as [|z r IH]; intros Hd Hy Hz; cbn.
    - constructor; [exact Hy|constructor].
    - inversion Hd as [|? ? Hn Hd']; subst. destruct (i_id z =? i_id y) eqn:E.
      + apply Z.eqb_eq in E. constructor; [exact Hy|]. rewrite Forall_forall. intros w Hw. apply Hz; [right; exact Hw|].
        intros Ew. apply Hn. rewrite E, <- Ew. apply in_map. exact Hw.
      + apply Z.eqb_neq in E. constructor; [apply Hz; [left; reflexivity|exact E]|]. apply IH; [exact Hd'|exact Hy|].
        intros w Hw. apply Hz. right. exact Hw.
  Qed.
  Lemma del_sub i : forall l x, In x (del_ind_l i l) -> In x l.
  Proof. induction l as [|y r IH]; intros x H; cbn in H; [destruct H|]. destruct (i_id y =? i); [right; exact H|]. destruct H as [<-|H]; [left; reflexivity|right; apply IH; exact H]. Qed.
  Lemma NoDup_del i : forall l, NoDup (map i_id l) -> NoDup (map i_id (del_ind_l i l)).
  Proof.
    induction l as [|y r IH]; intros H; cbn; [constructor|]. inversion H as [|? ? Hn Hd]; subst.
    destruct (i_id y =? i); [exact Hd|]. cbn. constructor; [|apply IH; exact Hd].
    intros Hin. apply Hn. apply in_map_iff in Hin as (w & Ew & Hw). apply in_map_iff. exists w. split; [exact Ew|]. eapply del_sub. exact Hw.
  Qed.

  (* generic rules, for any per-customer predicate R *)
  Lemma h_ret {X} (Pre : sim -> Prop) (a : X) : hoare Pre (ret a) (fun _ => Pre).
  Proof. intros s b s' HP H. apply ret_ok in H as [_ ->]. exact HP. Qed.
  Lemma h_fail {X} (Pre : sim -> Prop) e (Post : X -> sim -> Prop) : hoare Pre (@fail X e) Post.
  Proof. intros s b s' _ H. discriminate H. Qed.
  Lemma h_same {X} (Pre : sim -> Prop) (m : M X) : (forall s a s', m s = Ok (a, s') -> s' = s) -> hoare Pre m (fun _ => Pre).
  Proof. intros Hm s a s' HP H. rewrite (Hm _ _ _ H). exact HP. Qed.
  Lemma h_noinds {X} (R : ind -> Prop) (m : M X) : (forall s a s', m s = Ok (a, s') -> inds s' = inds s) -> hoare (FA R) m (fun _ => FA R).
  Proof. intros Hm s a s' HP H. unfold FA. rewrite (Hm _ _ _ H). exact HP. Qed.
  Lemma h_get_ind_bind {Y} (R : ind -> Prop) i (k : ind -> M Y) (Post : Y -> sim -> Prop) :
    (forall x, R x -> i_id x = i -> hoare (FA R) (k x) Post) -> hoare (FA R) (bind (get_ind i) k) Post.
  Proof.
    intros Hk s b s' HP H. apply bind_ok in H as (x & s1 & E & H). apply get_ind_ok in E as [-> Hx].
    eapply Hk; [| |exact HP|exact H].
    - destruct HP as [_ HF]. rewrite Forall_forall in HF. apply HF. eapply find_ind_In. exact Hx.
    - eapply find_ind_id. exact Hx.
  Qed.
  Lemma h_put_ind (R R' : ind -> Prop) y : R' y -> (forall z, R z -> i_id z <> i_id y -> R' z) -> hoare (FA R) (put_ind y) (fun _ => FA R').
  Proof.
    intros Hy Hz s a s' [Hd HF] H. apply put_ind_ok in H. rewrite H. split; [apply NoDup_put; exact Hd|].
    apply Forall_put; [exact Hd|exact Hy|]. rewrite Forall_forall in HF. intros z Hin Hne. apply Hz; [apply HF; exact Hin|exact Hne].
  Qed.
  Lemma h_del_ind (R : ind -> Prop) i : hoare (FA R) (del_ind i) (fun _ => FA R).
  Proof.
    intros s a s' [Hd HF] H. unfold del_ind in H. apply modify_ok in H. rewrite H. split; [apply NoDup_del; exact Hd|].
    rewrite Forall_forall in HF |- *. intros x Hx. apply HF. eapply del_sub. exact Hx.
  Qed.

  (* the rules specialised to SvcInv *)
  Lemma ip_ret {X} (a : X) : ip (ret a). Proof. apply h_ret. Qed.
  Lemma ip_fail {X} e : ip (@fail X e). Proof. apply h_fail. Qed.
  Lemma ip_bind {X Y} (m : M X) (k : X -> M Y) : ip m -> (forall a, ip (k a)) -> ip (bind m k).
  Proof. intros Hm Hk. eapply h_bind; [exact Hm|exact Hk]. Qed.
  Lemma ip_noinds {X} (m : M X) : (forall s a s', m s = Ok (a, s') -> inds s' = inds s) -> ip m.
  Proof. apply h_noinds. Qed.
  Lemma ip_gets {X} (f : sim -> X) : ip (gets f).
  Proof. apply ip_noinds. intros s a s' H. apply gets_ok in H as [_ ->]. reflexivity. Qed.
  Lemma ip_lift {X} e (o : option X) : ip (lift e o).
  Proof. apply ip_noinds. intros s a s' H. apply lift_ok in H as [_ ->]. reflexivity. Qed.
  Lemma ip_lift_bind {X Y} e (o : option X) (k : X -> M Y) : (forall a, o = Some a -> ip (k a)) -> ip (bind (lift e o) k).
  Proof. intros Hk s b s' HP H. apply bind_ok in H as (a & s1 & E & H). apply lift_ok in E as [E ->]. eapply Hk; eassumption. Qed.
  Lemma ip_modify (f : sim -> sim) : (forall s, inds (f s) = inds s) -> ip (modify f).
  Proof. intros Hf. apply ip_noinds. intros s a s' H. apply modify_ok in H. rewrite H. apply Hf. Qed.
  Lemma ip_get_node j : ip (get_node j).
  Proof. apply ip_noinds. intros s a s' H. apply get_node_ok in H as [-> _]. reflexivity. Qed.
  Lemma ip_put_node nd : ip (put_node nd). Proof. apply ip_modify. reflexivity. Qed.
  Lemma ip_log_rec r : ip (log_rec r). Proof. apply ip_modify. reflexivity. Qed.
  Lemma ip_draw_arr : ip draw_arr. Proof. apply ip_noinds. intros s a s' H. unfold draw_arr in H. destruct (d_arr (dr s)); inversion H; reflexivity. Qed.
  Lemma ip_draw_batch : ip draw_batch. Proof. apply ip_noinds. intros s a s' H. unfold draw_batch in H. destruct (d_batch (dr s)); inversion H; reflexivity. Qed.
  Lemma ip_draw_svc : ip draw_svc. Proof. apply ip_noinds. intros s a s' H. unfold draw_svc in H. destruct (d_svc (dr s)); inversion H; reflexivity. Qed.
  Lemma ip_draw_unif : ip draw_unif. Proof. apply ip_noinds. intros s a s' H. unfold draw_unif in H. destruct (d_unif (dr s)); inversion H; reflexivity. Qed.
  Lemma ip_draw_ren : ip draw_ren. Proof. apply ip_noinds. intros s a s' H. unfold draw_ren in H. destruct (d_ren (dr s)); inversion H; reflexivity. Qed.
  Lemma ip_draw_cct : ip draw_cct. Proof. apply ip_noinds. intros s a s' H. unfold draw_cct in H. destruct (d_cct (dr s)); inversion H; reflexivity. Qed.
  Lemma ip_del_ind i : ip (del_ind i). Proof. apply h_del_ind. Qed.
  Lemma ip_get_ind_bind {Y} i (k : ind -> M Y) : (forall x, SvcP x -> i_id x = i -> ip (k x)) -> ip (bind (get_ind i) k).
  Proof. apply h_get_ind_bind. Qed.
  Lemma ip_get_ind i : ip (get_ind i).
  Proof. apply ip_noinds. intros s a s' H. apply get_ind_ok in H as [-> _]. reflexivity. Qed.
  Lemma ip_put_ind y : SvcP y -> ip (put_ind y).
  Proof. intros Hy. apply h_put_ind; [exact Hy|]. intros z Hz _. exact Hz. Qed.
  Lemma ip_upd_ind i f : (forall x, SvcP x -> SvcP (f x)) -> ip (upd_ind i f).
  Proof. intros Hf. unfold upd_ind. apply ip_get_ind_bind. intros x Hx _. apply ip_put_ind. apply Hf. exact Hx. Qed.
  Lemma ip_mapM {X Y} (f : X -> M Y) l : (forall a, ip (f a)) -> ip (mapM f l).
  Proof. intros Hf. induction l as [|a r IH]; cbn [mapM]; [apply ip_ret|]. apply ip_bind; [apply Hf|]. intros b. apply ip_bind; [exact IH|]. intros bs. apply ip_ret. Qed.
  Lemma ip_forM {X} (f : X -> M unit) l : (forall a, ip (f a)) -> ip (forM_ l f).
  Proof. intros Hf. induction l as [|a r IH]; cbn [forM_]; [apply ip_ret|]. apply ip_bind; [apply Hf|]. intros _. exact IH. Qed.

  Ltac solveP :=
    first
      [ match goal with
        | HP : SvcP ?x |- SvcP _ =>
          let Hi := fresh "Hi" in let Hs := fresh "Hs" in
          destruct HP as [Hi Hs]; split;
          [ cbn; first [exact Hi | reflexivity]
          | cbn; intros; first [apply Hs; assumption | congruence] ]
        end
      | (split; [reflexivity | cbn; intros; congruence]) ].

  Ltac ip_step :=
    first
      [ apply ip_ret | apply ip_fail | apply ip_gets | apply ip_lift | apply ip_get_node | apply ip_put_node
      | apply ip_log_rec | apply ip_del_ind | apply ip_draw_arr | apply ip_draw_batch | apply ip_draw_svc | apply ip_draw_unif
      | apply ip_draw_ren | apply ip_draw_cct
      | (apply ip_modify; intros ?; reflexivity)
      | (apply ip_get_ind_bind; intros ? ? ?)
      | apply ip_get_ind
      | (apply ip_upd_ind; intros ? ?; solveP)
      | (apply ip_put_ind; solveP)
      | solve [auto with ipdb]
      | (apply ip_bind; [|intros])
      | match goal with
        | |- ip (if ?b then _ else _) => destruct b
        | |- ip (match ?x with _ => _ end) => destruct x
        | |- ip (let '(_, _) := ?x in _) => destruct x
        end ].
  Ltac ip_go := repeat ip_step.

  Lemma ip_tnow : ip tnow. Proof. apply ip_gets. Qed.
  Lemma ip_ncfg_of j : ip (ncfg_of cf j). Proof. apply ip_lift. Qed.
  Hint Resolve ip_tnow ip_ncfg_of : ipdb.
  Lemma ip_upd_node j f : ip (upd_node j f). Proof. unfold upd_node. ip_go. Qed.
  Lemma ip_upd_server j sid f : ip (upd_server j sid f). Proof. unfold upd_server. ip_go. Qed.
  Hint Resolve ip_upd_node ip_upd_server : ipdb.
  Lemma ip_choice_uniform {X} (l : list X) : ip (choice_uniform l). Proof. unfold choice_uniform. ip_go. Qed.
  Lemma ip_choice_weighted den Pw : ip (choice_weighted den Pw). Proof. unfold choice_weighted. ip_go. Qed.
  Hint Resolve ip_choice_uniform ip_choice_weighted : ipdb.
  Lemma ip_exit_accept i c : ip (exit_accept i c). Proof. unfold exit_accept. ip_go. Qed.
  Lemma ip_choose_next_customer j : ip (choose_next_customer cf j). Proof. unfold choose_next_customer. ip_go. Qed.
  Lemma ip_find_next_class_change j : ip (find_next_class_change j). Proof. unfold find_next_class_change. ip_go. Qed.
  Hint Resolve ip_exit_accept ip_choose_next_customer ip_find_next_class_change : ipdb.
  Lemma ip_cct_loop : forall row b best bc, ip (cct_loop row b best bc).
  Proof. induction row as [|h r IH]; intros b best bc; cbn [cct_loop]; [apply ip_ret|]. ip_go; apply IH. Qed.
  Hint Resolve ip_cct_loop : ipdb.
  Lemma ip_decide_class_change j i : ip (decide_class_change cf j i). Proof. unfold decide_class_change. ip_go. Qed.
  Lemma ip_reset_class_change j i : ip (reset_class_change cf j i). Proof. unfold reset_class_change. ip_go. Qed.
  Hint Resolve ip_decide_class_change ip_reset_class_change : ipdb.

  (* ---------- the blocks in which the invariant is suspended for one customer ---------- *)
  Lemma FA_weaken (R R' : ind -> Prop) s : (forall x, R x -> R' x) -> FA R s -> FA R' s.
  Proof. intros H [Hd HF]. split; [exact Hd|]. rewrite Forall_forall in HF |- *. intros x Hx. apply H, HF, Hx. Qed.
  Lemma h_draw_svc (R : ind -> Prop) : hoare (FA R) draw_svc (fun _ => FA R).
  Proof. apply h_noinds. intros s a s' H. unfold draw_svc in H. destruct (d_svc (dr s)); inversion H; reflexivity. Qed.

  Lemma h_give_after (R R' : ind -> Prop) i :
    (forall x, R x -> R' x) ->
    (forall x st, R x -> i_id x = i -> R' (x <| i_stime := Some st |> <| i_smark := 0 |>)) ->
    hoare (FA R) (give_service_time_after_preemption i) (fun _ => FA R').
  Proof.
    intros Hw Hr. unfold give_service_time_after_preemption. apply h_get_ind_bind. intros x Hx Hid.
    assert (Hput : forall st, hoare (FA R) (put_ind (x <| i_stime := Some st |> <| i_smark := 0 |>)) (fun _ => FA R')).
    { intros st. apply h_put_ind; [apply Hr; assumption|]. intros z Hz _. apply Hw. exact Hz. }
    destruct (i_smark x =? 3).
    - eapply h_bind; [apply h_draw_svc|]. intros st. apply Hput.
    - destruct (i_smark x =? 2).
      + destruct (i_ost x); [apply Hput|apply h_fail].
      + destruct (i_smark x =? 1).
        * destruct (i_tleft x); [apply Hput|apply h_fail].
        * intros s a s' HP H. apply ret_ok in H as [_ ->]. eapply FA_weaken; [exact Hw|exact HP].
  Qed.
  Lemma h_give_individual (R : ind -> Prop) i :
    (forall x st, R x -> i_id x = i -> R (x <| i_stime := Some st |>)) ->
    (forall x st, R x -> i_id x = i -> R (x <| i_stime := Some st |> <| i_smark := 0 |>)) ->
    hoare (FA R) (give_individual_a_service_time i) (fun _ => FA R).
  Proof.
    intros H1 H2. unfold give_individual_a_service_time. apply h_get_ind_bind. intros x Hx Hid.
    destruct ((i_smark x =? 0) && _).
    - eapply h_bind; [apply h_draw_svc|]. intros st. apply h_put_ind; [apply H1; assumption|]. intros z Hz _. exact Hz.
    - apply h_give_after; [intros z Hz; exact Hz|exact H2].
  Qed.

  Definition Qp (i t : Z) (x : ind) : Prop :=
    i_interrupted x = false /\ (i_id x <> i -> SvcP x) /\ (i_id x = i -> i_sst x = Some t).
  Definition Qb (i : Z) (x : ind) : Prop := i_interrupted x = false /\ (i_id x <> i -> SvcP x).

  (* service start through give_individual_a_service_time (start_give, start_preemptor, slot_loop) *)
  Lemma ip_core i t (g : ind -> Z -> ind) (rest : Z -> M unit) :
    (forall x st, i_id (g x st) = i_id x) ->
    (forall x, i_interrupted x = false -> i_sst x = Some t -> i_smark x = 0 -> SvcP (g x (numo (i_stime x)))) ->
    (forall st, ip (rest st)) ->
    ip (upd_ind i (fun x => x <| i_sst := Some t |>) ;;; give_individual_a_service_time i ;;;
        x <- get_ind i ;; st <- stime_num x ;; put_ind (g x st) ;;; rest st).
  Proof.
    intros Hgid Hg Hrest. eapply h_bind with (Mid := fun _ => FA (Qp i t)).
    { unfold upd_ind. apply h_get_ind_bind. intros x Hx Hid. apply h_put_ind.
      - split; [exact (proj1 Hx)|]. split; [intros Hne; contradiction Hne|intros _; reflexivity].
      - intros z Hz Hne. split; [exact (proj1 Hz)|]. change (i_id (x <| i_sst := Some t |>)) with (i_id x) in Hne. rewrite Hid in Hne.
        split; [intros _; exact Hz|intros E; contradiction]. }
    intros _. eapply h_bind with (Mid := fun _ => FA (Qp i t)).
    { apply h_give_individual; intros x st (Ha & Hb & Hc) Hid; (split; [exact Ha|split; [intros Hne; exfalso; apply Hne; exact Hid|intros _; apply Hc; exact Hid]]). }
    intros _. apply h_get_ind_bind. intros x (Hxi & _ & Hxs) Hid. specialize (Hxs Hid).
    unfold stime_num. destruct (i_smark x =? 0) eqn:E0; [|intros s a s' _ H; discriminate H].
    apply Z.eqb_eq in E0. intros s b s' HP H. apply bind_ok in H as (st & s1 & E & H). apply ret_ok in E as [-> ->].
    revert s b s' HP H. change (hoare (FA (Qp i t)) (put_ind (g x (numo (i_stime x))) ;;; rest (numo (i_stime x))) (fun _ => SvcInv)).
    eapply h_bind with (Mid := fun _ => SvcInv); [|intros _; apply Hrest].
    apply h_put_ind; [apply Hg; assumption|]. intros z (_ & Hz & _) Hne. apply Hz. rewrite Hgid, Hid in Hne. exact Hne.
  Qed.

  (* restart of a customer interrupted by a schedule (begin_interrupted_individuals_service) *)
  Lemma ip_core_biis i (rest : Z -> Z -> M unit) : (forall t st, ip (rest t st)) ->
    ip (give_service_time_after_preemption i ;;; t <- tnow ;; x1 <- get_ind i ;; st <- stime_num x1 ;;
        put_ind (x1 <| i_sst := Some t |> <| i_send := Some (t + st) |> <| i_interrupted := false |>) ;;; rest t st).
  Proof.
    intros Hrest. eapply h_bind with (Mid := fun _ => FA (Qb i)).
    { apply h_give_after.
      - intros x Hx. split; [exact (proj1 Hx)|intros _; exact Hx].
      - intros x st Hx Hid. split; [exact (proj1 Hx)|]. intros Hne. contradiction Hne. }
    intros _. eapply h_bind with (Mid := fun _ => FA (Qb i)); [apply h_same; intros s a s' H; apply tnow_ok in H as [_ ->]; reflexivity|].
    intros t. apply h_get_ind_bind. intros x (Hxi & _) Hid.
    unfold stime_num. destruct (i_smark x =? 0) eqn:E0; [|intros s a s' _ H; discriminate H].
    apply Z.eqb_eq in E0. intros s b s' HP H. apply bind_ok in H as (st & s1 & E & H). apply ret_ok in E as [-> ->].
    revert s b s' HP H.
    change (hoare (FA (Qb i)) (put_ind (x <| i_sst := Some t |> <| i_send := Some (t + numo (i_stime x)) |> <| i_interrupted := false |>) ;;; rest t (numo (i_stime x))) (fun _ => SvcInv)).
    eapply h_bind with (Mid := fun _ => SvcInv); [|intros _; apply Hrest].
    apply h_put_ind.
    - split; [reflexivity|]. cbn. intros _ a st Ha Hs. rewrite Hs. cbn. congruence.
    - intros z (_ & Hz) Hne. apply Hz. change (i_id z <> i_id x) in Hne. rewrite Hid in Hne. exact Hne.
  Qed.

  Lemma ip_oof {X} : ip (@oof X). Proof. intros s a s' _ H. discriminate H. Qed.
  Hint Resolve ip_oof : ipdb.

  Ltac ip_step2 :=
    first
      [ match goal with HP : SvcP ?x |- context [i_interrupted ?x] => rewrite (proj1 HP) end
      | match goal with |- ip (let _ := _ in _) => cbv zeta end
      | ip_step ].
  Ltac ip_go2 := repeat ip_step2.

  Lemma ip_attach_server j sid i : ip (attach_server j sid i). Proof. unfold attach_server. ip_go2. Qed.
  Lemma ip_set_next_end j sid d : ip (set_next_end j sid d). Proof. unfold set_next_end. ip_go2. Qed.
  Lemma ip_kill_server j sid : ip (kill_server j sid). Proof. unfold kill_server. ip_go2. Qed.
  Hint Resolve ip_attach_server ip_set_next_end ip_kill_server : ipdb.
  Lemma ip_detatch_server j sid i : ip (detatch_server j sid i). Proof. unfold detatch_server. ip_go2. Qed.
  Lemma ip_bump_rec i : ip (bump_rec i). Proof. unfold bump_rec. ip_go2. Qed.
  Hint Resolve ip_detatch_server ip_bump_rec : ipdb.
  Lemma ip_write_individual_record j i : ip (write_individual_record cf j i). Proof. unfold write_individual_record. ip_go2. Qed.
  Lemma ip_write_interruption_record j i d : ip (write_interruption_record cf j i d). Proof. unfold write_interruption_record. ip_go2. Qed.
  Lemma ip_write_reneging_record j i : ip (write_reneging_record j i). Proof. unfold write_reneging_record. ip_go2. Qed.
  Lemma ip_write_br_record j i ty : ip (write_br_record j i ty). Proof. unfold write_br_record. ip_go2. Qed.
  Lemma ip_reset_individual_attributes i : ip (reset_individual_attributes i). Proof. unfold reset_individual_attributes. ip_go2. Qed.
  Hint Resolve ip_write_individual_record ip_write_interruption_record ip_write_reneging_record ip_write_br_record ip_reset_individual_attributes : ipdb.
  Lemma ip_valid_dest d : ip (valid_dest d). Proof. unfold valid_dest. ip_go2. Qed.
  Lemma ip_jsq_loop lb : forall ds best acc, ip (jsq_loop lb ds best acc).
  Proof. induction ds as [|d r IH]; intros best acc; cbn [jsq_loop]; [apply ip_ret|]. ip_go2; apply IH. Qed.
  Hint Resolve ip_valid_dest ip_jsq_loop : ipdb.
  Lemma ip_jsq_next lb ds order : ip (jsq_next lb ds order). Proof. unfold jsq_next. ip_go2. Qed.
  Lemma ip_get_cyc c j : ip (get_cyc c j). Proof. unfold get_cyc. ip_go2. Qed.
  Lemma ip_bump_cyc c j : ip (bump_cyc c j).
  Proof. unfold bump_cyc. apply ip_modify. intros s. destruct (nthZ (cyc s) c) as [row|]; [destruct (nthZ row (j - 1))|]; reflexivity. Qed.
  Hint Resolve ip_jsq_next ip_get_cyc ip_bump_cyc : ipdb.
  Lemma ip_node_router_next r c j : ip (node_router_next r c j). Proof. unfold node_router_next. ip_go2. Qed.
  Hint Resolve ip_node_router_next : ipdb.
  Lemma ip_next_node_for mode j i : ip (next_node_for cf mode j i). Proof. unfold next_node_for. ip_go2. Qed.
  Hint Resolve ip_next_node_for : ipdb.
  Lemma ip_start_fresh j i osid count : ip (start_fresh cf j i osid count). Proof. unfold start_fresh. ip_go2. Qed.
  Hint Resolve ip_start_fresh : ipdb.

  Lemma ip_start_body bump j i sid : ip (start_body bump j i sid).
  Proof.
    unfold start_body. apply ip_bind; [apply ip_attach_server|]. intros _. apply ip_bind; [apply ip_tnow|]. intros t.
    apply ip_core.
    - intros x st. reflexivity.
    - intros x Hi Hs Hm. split; [exact Hi|]. cbn. intros _ a st Ha Hst. rewrite Hst. cbn. congruence.
    - intros st. destruct bump; ip_go2.
  Qed.
  Lemma ip_start_give j i sid : ip (start_give cf j i sid). Proof. rewrite start_give_body. apply ip_start_body. Qed.
  Lemma ip_start_preemptor j i sid : ip (start_preemptor cf j i sid). Proof. rewrite start_preemptor_body. apply ip_start_body. Qed.
  Hint Resolve ip_start_give ip_start_preemptor : ipdb.
  Lemma ip_biis j sid : ip (begin_interrupted_individuals_service j sid).
  Proof.
    unfold begin_interrupted_individuals_service.
    apply ip_bind; [apply ip_get_node|]. intros nd. apply ip_bind; [apply ip_lift|]. intros i.
    apply ip_get_ind_bind. intros x Hx Hid. apply ip_bind; [ip_go2|]. intros _.
    apply ip_bind; [apply ip_attach_server|]. intros _. apply ip_core_biis. intros t st. ip_go2.
  Qed.
  Hint Resolve ip_biis : ipdb.
  Lemma ip_serve_with j sid : ip (serve_with cf j sid). Proof. unfold serve_with. ip_go2. Qed.
  Hint Resolve ip_serve_with : ipdb.
  Lemma ip_bsipr j freed : ip (begin_service_if_possible_release cf j freed). Proof. unfold begin_service_if_possible_release. ip_go2. Qed.
  Lemma ip_get_reneging_date j i : ip (get_reneging_date cf j i). Proof. unfold get_reneging_date. ip_go2. Qed.
  Lemma ip_block_individual j i d : ip (block_individual j i d). Proof. unfold block_individual. ip_go2. Qed.
  Lemma ip_preempt_victim j i : ip (preempt_victim cf j i). Proof. unfold preempt_victim. ip_go2. Qed.
  Hint Resolve ip_bsipr ip_get_reneging_date ip_block_individual ip_preempt_victim : ipdb.

  Lemma ip_core4 : forall f,
    (forall j i d rr, ip (release cf f j i d rr)) /\ (forall j, ip (release_blocked_individual cf f j)) /\
    (forall j i, ip (accept cf f j i)) /\ (forall j v i, ip (preempt cf f j v i)).
  Proof.
    induction f as [|f (IHr & IHb & IHa & IHp)].
    - split; [|split; [|split]]; intros; apply ip_oof.
    - split; [|split; [|split]].
      + intros j i d rr. cbn [release]. ip_go2.
      + intros j. cbn [release_blocked_individual]. ip_go2.
      + intros j i. cbn [accept]. ip_go2.
      + intros j v i. cbn [preempt]. ip_go2.
  Qed.

  Lemma ip_release f j i d rr : ip (release cf f j i d rr). Proof. apply ip_core4. Qed.
  Lemma ip_rbi f j : ip (release_blocked_individual cf f j). Proof. apply ip_core4. Qed.
  Lemma ip_accept f j i : ip (accept cf f j i). Proof. apply ip_core4. Qed.
  Lemma ip_preempt f j v i : ip (preempt cf f j v i). Proof. apply ip_core4. Qed.
  Hint Resolve ip_release ip_rbi ip_accept ip_preempt : ipdb.

  Lemma ip_decide_between l : ip (decide_between l). Proof. unfold decide_between. ip_go2. Qed.
  Lemma ip_change_customer_class j i : ip (change_customer_class cf j i). Proof. unfold change_customer_class. ip_go2. Qed.
  Lemma ip_has_space d : ip (has_space cf d). Proof. unfold has_space. ip_go2. Qed.
  Hint Resolve ip_decide_between ip_change_customer_class ip_has_space : ipdb.
  Lemma ip_finish_service j : ip (finish_service cf j). Proof. unfold finish_service. ip_go2. Qed.
  Lemma ip_renege j : ip (renege cf j). Proof. unfold renege. ip_go2. Qed.
  Hint Resolve ip_finish_service ip_renege : ipdb.

  (* ---------- scope: no pre-emptive schedule, no pre-emptive capacitated slots ---------- *)
  Definition nc_no_sched_preempt (nc : ncfg) : bool :=
    match nc_srv nc with
    | SFixed => true
    | SSched sc => sc_pre sc =? 0
    | SSlot sl => negb (sl_cap sl && negb (sl_pre sl =? 0))
    end.
  Definition no_sched_preempt : bool := forallb nc_no_sched_preempt (cf_nodes cf).
  Hypothesis Hscope : no_sched_preempt = true.

  Lemma nthZ_In {X} (l : list X) i a : nthZ l i = Some a -> In a l.
  Proof. unfold nthZ. destruct (i <? 0); [discriminate|]. apply nth_error_In. Qed.
  Lemma scope_at j nc : nthZ (cf_nodes cf) (j - 1) = Some nc -> nc_no_sched_preempt nc = true.
  Proof. intros H. unfold no_sched_preempt in Hscope. rewrite forallb_forall in Hscope. apply Hscope. eapply nthZ_In. exact H. Qed.

  Lemma ip_take_servers_off_duty_0 fl j : ip (take_servers_off_duty cf fl j 0).
  Proof. unfold take_servers_off_duty. ip_go2. apply ip_forM. intros sid. apply ip_kill_server. Qed.
  Lemma ip_add_new_servers : forall k j, ip (add_new_servers k j).
  Proof. induction k as [|k IH]; intros j; cbn [add_new_servers]; [apply ip_ret|]. ip_go2; apply IH. Qed.
  Lemma ip_bsip_change_shift j : ip (begin_service_if_possible_change_shift cf j).
  Proof. unfold begin_service_if_possible_change_shift. ip_go2. apply ip_forM. intros sid. apply ip_serve_with. Qed.
  Hint Resolve ip_take_servers_off_duty_0 ip_add_new_servers ip_bsip_change_shift : ipdb.
  Lemma ip_change_shift j : ip (change_shift cf j).
  Proof.
    unfold change_shift, ncfg_of. apply ip_lift_bind. intros nc Hnc. pose proof (scope_at _ _ Hnc) as Hsc. unfold nc_no_sched_preempt in Hsc.
    destruct (nc_srv nc) as [|sc|sl]; [apply ip_fail| |apply ip_fail]. apply Z.eqb_eq in Hsc. rewrite Hsc. ip_go2.
  Qed.

  Lemma ip_slot_loop : forall k j, ip (slot_loop cf k j).
  Proof.
    induction k as [|k IH]; intros j; cbn [slot_loop]; [apply ip_ret|].
    apply ip_bind; [apply ip_tnow|]. intros t. apply ip_bind; [apply ip_get_node|]. intros nd.
    apply ip_bind; [ip_go2|]. intros cand. apply ip_bind; [|intros _; apply IH].
    destruct cand as [i|]; [|apply ip_ret]. apply ip_core.
    - intros x st. reflexivity.
    - intros x Hi Hs Hm. split; [exact Hi|]. cbn. intros _ a st Ha Hst. rewrite Hst. cbn. congruence.
    - intros st. ip_go2.
  Qed.
  Hint Resolve ip_slot_loop : ipdb.
  Lemma ip_keyed l : ip (keyed l). Proof. unfold keyed. apply ip_mapM. intros i. ip_go2. Qed.
  Hint Resolve ip_keyed : ipdb.
  Lemma ip_slotted_service j : ip (slotted_service cf j).
  Proof.
    unfold slotted_service, ncfg_of. apply ip_lift_bind. intros nc Hnc. pose proof (scope_at _ _ Hnc) as Hsc. unfold nc_no_sched_preempt in Hsc.
    destruct (nc_srv nc) as [|sc|sl]; [apply ip_fail|apply ip_fail|]. apply negb_true_iff in Hsc. rewrite Hsc. ip_go2.
  Qed.
  Lemma ip_ccww j : ip (change_customer_class_while_waiting cf j).
  Proof. unfold change_customer_class_while_waiting. ip_go2. Qed.
  Lemma ip_update_next_event_date j : ip (update_next_event_date cf j).
  Proof. unfold update_next_event_date. ip_go2. Qed.
  Lemma ip_find_next_event_date : ip find_next_event_date.
  Proof. unfold find_next_event_date. apply ip_modify. intros s. destruct (find_min_dates 1 (a_dates (arr s)) (None, 0, 0)) as [[d j] c]. reflexivity. Qed.
  Lemma ip_sys_population : ip sys_population. Proof. unfold sys_population. ip_go2. Qed.
  Lemma ip_route_of i c : ip (route_of cf i c). Proof. unfold route_of. ip_go2. Qed.
  Hint Resolve ip_change_shift ip_slotted_service ip_ccww ip_update_next_event_date ip_find_next_event_date ip_sys_population ip_route_of : ipdb.
  Lemma ip_send_individual j i : ip (send_individual cf j i). Proof. unfold send_individual. ip_go2. Qed.
  Hint Resolve ip_send_individual : ipdb.
  Lemma ip_release_individual j i : ip (release_individual cf j i). Proof. unfold release_individual. ip_go2. Qed.
  Hint Resolve ip_release_individual : ipdb.
  Lemma ip_batch_loop : forall n j c p, ip (batch_loop cf n j c p).
  Proof.
    induction n as [|n IH]; intros j c p; cbn [batch_loop]; [apply ip_ret|]. ip_go2.
  Qed.
  Hint Resolve ip_batch_loop : ipdb.
  Lemma ip_arrival_have_event : ip (arrival_have_event cf). Proof. unfold arrival_have_event. ip_go2. Qed.
  Lemma ip_update_all js : ip (update_all cf js).
  Proof. induction js as [|j r IH]; cbn [update_all]; [apply ip_ret|]. ip_go2; exact IH. Qed.
  Lemma ip_find_next_active_node : ip find_next_active_node. Proof. unfold find_next_active_node. ip_go2. Qed.
  Lemma ip_node_have_event j : ip (node_have_event cf j). Proof. unfold node_have_event. ip_go2. Qed.
  Hint Resolve ip_arrival_have_event ip_update_all ip_find_next_active_node ip_node_have_event : ipdb.

  Theorem event_step_SvcInv : ip (event_step cf).
  Proof. unfold event_step. ip_go2. Qed.

  Theorem run_many_SvcInv : forall ds s s', SvcInv s -> run_many cf s ds = Ok s' -> SvcInv s'.
  Proof.
    induction ds as [|d r IH]; intros s s' HI H; cbn [run_many] in H; [inversion H; subst; exact HI|].
    destruct (event_step cf (s <| dr := d |>)) as [[u s1]| |] eqn:E; try discriminate.
    eapply IH; [|exact H]. eapply event_step_SvcInv; [|exact E]. exact HI.
  Qed.

  (* ---------- the executable form of the invariant ---------- *)
  Definition SvcP_b (x : ind) : bool :=
    negb (i_interrupted x) &&
    (if i_smark x =? 0 then
       match i_sst x, i_stime x with
       | Some a, Some st => match i_send x with Some e => e =? a + st | None => false end
       | _, _ => true
       end
     else true).
  Fixpoint nodupZ_b (l : list Z) : bool := match l with [] => true | a :: r => negb (memZ a r) && nodupZ_b r end.
  Definition SvcInv_b (s : sim) : bool := nodupZ_b (map i_id (inds s)) && forallb SvcP_b (inds s).
  Lemma nodupZ_b_sound l : nodupZ_b l = true -> NoDup l.
  Proof.
    induction l as [|a r IH]; cbn; [constructor|]. intros H. apply andb_true_iff in H as [H1 H2]. constructor; [|apply IH; exact H2].
    intros Hin. apply memZ_In in Hin. rewrite Hin in H1. discriminate H1.
  Qed.
  Lemma SvcP_b_sound x : SvcP_b x = true -> SvcP x.
  Proof.
    unfold SvcP_b, SvcP. intros H. apply andb_true_iff in H as [H1 H2]. split; [destruct (i_interrupted x); [discriminate H1|reflexivity]|].
    intros Hm a st Ha Hs. rewrite Hm, Ha, Hs in H2. cbn in H2. destruct (i_send x) as [e|]; [|discriminate H2].
    apply Z.eqb_eq in H2. rewrite H2. reflexivity.
  Qed.
  Theorem SvcInv_b_sound s : SvcInv_b s = true -> SvcInv s.
  Proof.
    unfold SvcInv_b. intros H. apply andb_true_iff in H as [H1 H2]. split; [apply nodupZ_b_sound; exact H1|].
    rewrite forallb_forall in H2. rewrite Forall_forall. intros x Hx. apply SvcP_b_sound, H2, Hx.
  Qed.

  Fixpoint idx_from (k : Z) (l : list node) : bool := match l with [] => true | nd :: r => (n_id nd =? k) && idx_from (k + 1) r end.
  Definition Idx_b (s : sim) : bool := idx_from 1 (nodes s).
  Lemma idx_from_sound : forall l k, idx_from k l = true -> forall n nd, nth_error l n = Some nd -> n_id nd = k + Z.of_nat n.
  Proof.
    induction l as [|a r IH]; intros k H n nd Hn; [destruct n; discriminate Hn|]. cbn in H. apply andb_true_iff in H as [H1 H2].
    destruct n as [|n]; cbn in Hn.
    - injection Hn as <-. apply Z.eqb_eq in H1. lia.
    - rewrite (IH _ H2 _ _ Hn). lia.
  Qed.
  Theorem Idx_b_sound s : Idx_b s = true -> Idx s.
  Proof.
    intros H j nd Hn. unfold node_at in Hn. destruct (j <? 1) eqn:E; [discriminate Hn|]. apply Z.ltb_ge in E.
    unfold nthZ in Hn. destruct (j - 1 <? 0); [discriminate Hn|]. rewrite (idx_from_sound _ _ H _ _ Hn). rewrite Z2Nat.id by lia. lia.
  Qed.
End Preempt2.


(* ================= concrete instances ================= *)
Definition ex_nc (cap : option Z) (pre : Z) : ncfg := mkNcfg cap None 0 SFixed pre false [false; false] 0.
Definition ex_node (j : Z) : node :=
  mkNode j 0 0 [[]; []] [mkServer 1 None false None 0 None 0 false 0 None] [] 0 None [] (Some 1) 1 [] 0 [] [] [] 0 None 0 None None.
Definition ex_draws (b sv a : list Z) : draws := mkDraws a b sv [] [] [].

(* (a): three servers; customers 11 (class 1, started 4), 12 (class 2, started 7), 13 (class 2, started 7 resp. 9);
   an arrival of class 0: the victim is 12, the first of the two equals; with 13 started later it is 13;
   an arrival of class 2 pre-empts nobody *)
Definition ex_ind (i p : Z) (sst : option Z) (srv : option Z) : ind :=
  mkInd i p p p p p (Some 1) (Some 0) sst (option_map (fun _ => 20) sst) (option_map (fun a => a + 20) sst) None false srv None None None 0 0 false XU XU None None None None None.
Definition cfV : config :=
  mkCfg 3 [ex_nc None 1] [0; 1; 2] 3 None [RtNR [RLeave]; RtNR [RLeave]; RtNR [RLeave]] [[None]; [None]; [None]] false [].
Definition sV (t13 : Z) (parr : Z) : sim :=
  mkSim 10 0 (mkArr 4 4 [] 1 0 None)
    [mkNode 1 4 3 [[]; [11]; [12; 13]] [mkServer 1 (Some 11) true (Some 24) 0 None 0 false 0 None; mkServer 2 (Some 12) true (Some 27) 0 None 0 false 0 None;
                                        mkServer 3 (Some 13) true (Some (t13 + 20)) 0 None 0 false 0 None]
            [] 0 None [] (Some 3) 3 [] 0 [] [] [] 0 None 0 None None]
    [] 0 0 [ex_ind 11 1 (Some 4) (Some 1); ex_ind 12 2 (Some 7) (Some 2); ex_ind 13 2 (Some t13) (Some 3); ex_ind 14 parr None None]
    (ex_draws [] [] []) [] [].
Definition victim_of (r : res (option Z * sim)) : option (option Z) := match r with Ok (v, _) => Some v | _ => None end.
Example victim_first_of_equals : victim_of (preempt_victim cfV 1 14 (sV 7 0)) = Some (Some 12).
Proof. vm_compute. reflexivity. Qed.
Example victim_latest_start : victim_of (preempt_victim cfV 1 14 (sV 9 0)) = Some (Some 13).
Proof. vm_compute. reflexivity. Qed.
Example victim_none_when_not_strictly_lower : victim_of (preempt_victim cfV 1 14 (sV 9 2)) = Some None.
Proof. vm_compute. reflexivity. Qed.

(* resume, one node, one server.  Customer 1 (class 1) arrives at 1 with service time 12; customer 2 (class 0) arrives at 10 with
   service time 3 and pre-empts it: time_left = 3, interruption record (start 1, service time 12, exit 10); at 13 customer 2 leaves
   and customer 1 resumes with service time 3, ending at 16: 9 + 3 = 12. *)
Definition cfA : config :=
  mkCfg 2 [ex_nc None 1] [0; 1] 2 None [RtNR [RLeave]; RtNR [RLeave]] [[None]; [None]] false [[false; false]; [false; false]].
Definition sA : sim :=
  mkSim 1 0 (mkArr 0 0 [[Some 10; Some 1]] 1 1 (Some 1)) [ex_node 1] [] 0 0 [] (ex_draws [] [] []) [] [[0]; [0]].
Definition dsA : list draws := [ex_draws [1] [12] [1000]; ex_draws [1] [3] [1000]; ex_draws [] [] []].
Example invariants_satisfiable : no_sched_preempt cfA = true /\ SvcInv_b sA = true /\ Idx_b sA = true.
Proof. vm_compute. repeat split. Qed.
Definition oeq (o : option Z) (z : Z) : bool := match o with Some y => y =? z | None => false end.
Definition onone (o : option Z) : bool := match o with Some _ => false | None => true end.
Definition resume_check2 (r : res sim) : bool :=
  match r with
  | Ok s2 =>
    SvcInv_b s2 && Idx_b s2 && (now s2 =? 13) &&
    match find_ind 1 (inds s2), log s2 with
    | Some x, [R] => (i_smark x =? 1) && oeq (i_tleft x) 3 && oeq (i_ost x) 12 && onone (i_server x) &&
                     (r_type R =? 1) && (r_id R =? 1) && oeq (r_sst R) 1 && oeq (r_stime R) 12 && oeq (r_exit R) 10
    | _, _ => false
    end
  | _ => false
  end.
Definition resume_check3 (r : res sim) : bool :=
  match r with
  | Ok s3 =>
    SvcInv_b s3 && (now s3 =? 16) &&
    match find_ind 1 (inds s3) with
    | Some x => (i_smark x =? 0) && oeq (i_sst x) 13 && oeq (i_stime x) 3 && oeq (i_send x) 16 && oeq (i_server x) 1
    | None => false
    end &&
    (* the server has been busy from 1 to 13 when customer 2 leaves; its busy_time says 3 (handed_over_busy_time) *)
    match nodes s3 with [nd] => match n_servers nd with [sv] => sv_busy_time sv =? 3 | _ => false end | _ => false end
  | _ => false
  end.
Example resume_run : resume_check2 (run_many cfA sA (firstn 2 dsA)) = true /\ resume_check3 (run_many cfA sA dsA) = true.
Proof. split; vm_compute; reflexivity. Qed.

(* F-02a reproduced from an EMPTY system.  Node 1 (one server, resume) feeds node 2 (one server, room for one customer).
   Customer 1 (class 1) occupies node 2 until 102; customer 2 (class 1) finishes at node 1 at 5 and is blocked there, holding the
   server; customer 3 (class 0) arrives at 10 and pre-empts the BLOCKED customer 2: time_left = 5 - 10 = -5.  At 14 customer 3
   leaves, customer 2 is "resumed" with service time -5, end date 9, and the clock is set back from 14 to 9. *)
Definition cfB : config :=
  mkCfg 2 [ex_nc None 1; ex_nc (Some 1) 0] [0; 1] 2 None [RtNR [RLeave; RLeave]; RtNR [RDirect 2; RLeave]]
        [[None; None]; [None; None]] false [[false; false]; [false; false]].
Definition sB : sim :=
  mkSim 1 0 (mkArr 0 0 [[Some 10; Some 1]; [None; None]] 1 1 (Some 1)) [ex_node 1; ex_node 2] [] 0 0 [] (ex_draws [] [] []) [] [[0; 0]; [0; 0]].
Definition dsB : list draws :=
  [ex_draws [1] [1] [2]; ex_draws [] [100] []; ex_draws [1] [2] [1000]; ex_draws [] [] []; ex_draws [1] [4] [1000]; ex_draws [] [] []].

Lemma oeq_true o z : oeq o z = true -> o = Some z.
Proof. destruct o as [y|]; cbn; [|discriminate]. intros H. apply Z.eqb_eq in H. rewrite H. reflexivity. Qed.
Lemma dsB_nonneg d : In d dsB -> Forall (fun z => 0 <= z) (d_svc d).
Proof. intros Hd. cbn in Hd. repeat (destruct Hd as [<-|Hd]; [repeat constructor; discriminate|]). destruct Hd. Qed.

(* "the time left of a pre-empted customer is never negative" is FALSE of the model (victim blocked): F-02a *)
Definition f02a_check (r : res sim) : bool :=
  match r with
  | Ok s' => SvcInv_b s' && match find_ind 2 (inds s') with
                           | Some x => i_blocked x && (i_smark x =? 1) && oeq (i_tleft x) (-5)
                           | None => false end
  | _ => false
  end.
Theorem time_left_nonneg_refuted :
  exists cf s ds s' x, no_sched_preempt cf = true /\ inds s = [] /\ SvcInv_b s = true /\ Idx_b s = true /\
    (forall d, In d ds -> Forall (fun z => 0 <= z) (d_svc d)) /\
    run_many cf s ds = Ok s' /\ SvcInv_b s' = true /\
    find_ind 2 (inds s') = Some x /\ i_blocked x = true /\ i_smark x = 1 /\ i_tleft x = Some (-5).
Proof.
  assert (E : f02a_check (run_many cfB sB (firstn 5 dsB)) = true) by (vm_compute; reflexivity).
  unfold f02a_check in E. destruct (run_many cfB sB (firstn 5 dsB)) as [s'| |] eqn:Er; try discriminate E.
  apply andb_true_iff in E as [E1 E]. destruct (find_ind 2 (inds s')) as [x|] eqn:Ef; [|discriminate E].
  apply andb_true_iff in E as [E E4]. apply andb_true_iff in E as [E2 E3].
  exists cfB, sB, (firstn 5 dsB), s', x. split; [reflexivity|]. split; [reflexivity|]. split; [reflexivity|]. split; [reflexivity|].
  split; [intros d Hd; apply dsB_nonneg; cbn in Hd |- *; tauto|].
  split; [exact Er|]. split; [exact E1|]. split; [exact Ef|]. split; [exact E2|]. split; [apply Z.eqb_eq; exact E3|apply oeq_true; exact E4].
Qed.
(* ... and with it "the clock never goes back": the next event of the same run is earlier than the one before *)
Definition clock_check (r : res sim) : bool :=
  match r with
  | Ok s1 => (now s1 =? 14) && match run_many cfB s1 [ex_draws [] [] []] with Ok s2 => (now s2 =? 9) && SvcInv_b s2 | _ => false end
  | _ => false
  end.
Theorem clock_monotone_refuted :
  exists cf s ds d s1 s2, no_sched_preempt cf = true /\ inds s = [] /\
    (forall d', In d' (ds ++ [d]) -> Forall (fun z => 0 <= z) (d_svc d')) /\
    run_many cf s ds = Ok s1 /\ run_many cf s1 [d] = Ok s2 /\ now s1 = 14 /\ now s2 = 9 /\ SvcInv_b s2 = true.
Proof.
  assert (E : clock_check (run_many cfB sB (firstn 5 dsB)) = true) by (vm_compute; reflexivity).
  unfold clock_check in E. destruct (run_many cfB sB (firstn 5 dsB)) as [s1| |] eqn:Er; try discriminate E.
  apply andb_true_iff in E as [E1 E]. destruct (run_many cfB s1 [ex_draws [] [] []]) as [s2| |] eqn:Er2; try discriminate E.
  apply andb_true_iff in E as [E2 E3].
  exists cfB, sB, (firstn 5 dsB), (ex_draws [] [] []), s1, s2. split; [reflexivity|]. split; [reflexivity|].
  split; [intros d Hd; apply dsB_nonneg; cbn in Hd |- *; tauto|].
  split; [exact Er|]. split; [exact Er2|]. split; [apply Z.eqb_eq; exact E1|]. split; [apply Z.eqb_eq; exact E2|exact E3].
Qed.

Print Assumptions preempt_victim_spec.
Print Assumptions preempt_spec.
Print Assumptions preempt_victim_after.
Print Assumptions preempt_resume_telescope.
Print Assumptions give_after_resume.
Print Assumptions give_after_restart.
Print Assumptions give_after_resample.
Print Assumptions give_after_needs_attr.
Print Assumptions start_give_spec.
Print Assumptions start_preemptor_spec.
Print Assumptions resume_gives_time_left.
Print Assumptions restart_gives_original.
Print Assumptions resample_gives_fresh.
Print Assumptions biis_spec.
Print Assumptions event_step_SvcInv.
Print Assumptions run_many_SvcInv.
Print Assumptions SvcInv_b_sound.
Print Assumptions Idx_b_sound.
Print Assumptions time_left_nonneg_refuted.
Print Assumptions clock_monotone_refuted.
Print Assumptions resume_run.

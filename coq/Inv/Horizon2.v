(* Horizon2.v -- T2 for C14 (first half) on the STAGE-2 engine model (State2 / Engine2 / Codec2):
     "simulate_until_max_time(T) returns having executed every event scheduled strictly before T and none scheduled at or
      after T, leaving unfinished customers in place"
   Transplant of Horizon.v (stage 1) on top of Clock2.v (the stage-2 clock invariant Clk2, its executable scope Clock2.scope and
   Clk2_means) and HorizonCount2.v (the time loop run_until2 = "while next_active_node.next_event_date < T: event", its
   agreement with Codec2.run_many, pause / resume).  Partial correctness: nothing is said about runs in which the model returns
   Err / OutOfFuel.

   Clk2 says that every date the state carries is at or after the clock and that the active node's date IS the clock.  It does
   NOT say that a node's next_event_date is a lower bound of what the node has pending (Clock2.Fresh is established by
   update_next_event_date inside one event and then only used to move the clock): a state in which every next date is infinite
   while some server still has a finite end date satisfies Clk2, and there the loop would stop although something is scheduled
   before T.  So, as in Horizon.v, the invariant is Hzn2 = Clk2 + Frs2, where Frs2 says of every node that its next_event_date is
   at most
     - the end date of each of its servers                                   (node with servers, not slotted)
     - the end date, not in the past, of each of its unblocked customers     (infinite-server node, slotted node)
     - its next shift change / its next slot                                 (scheduled / slotted node)
     - the reneging date of each of its waiting customers                    (node with servers and reneging)
     - its next_class_change_date, which by Clk2 is at most the class-change date of each waiting customer (class change while
       waiting, node with servers)
   i.e. of all five kinds of events of Node.decide_next_event.  event_step re-establishes Frs2 from Clk2 alone, because every
   node recomputes its date at the end of every event (event_step_frs2).

   Main results (all inside Clock2.scope, draws >= 0 = Clock2.DrawsOK)
     event_step_hzn2, run_many_hzn2, run_until2_hzn2   Hzn2 is kept by one event / any run / the time loop, the clock never goes back
     run_until2_tr_hzn2        (1) every executed event was due exactly at the clock, the clock was < T, clocks nondecreasing
     Hzn2_means                (2) when the loop test fails NOTHING is scheduled before T (NothingBefore2: 10 clauses)
     engine_horizon2           C14, first half, in the words of the property, with conservation at return (Conserve2.WFx2 [])
     engine_horizon2_counts    the same together with what HorizonCount2.engine_until2 says (counts monotone, CInv throughout)
     hzn2_b, hzn2_b_sound      (4) executable test of the invariant
     ex_*                      closed examples: Clock2's three networks (reneging + schedule + slots; class change while waiting;
                               priority pre-emption) and an infinite-server node
     clk2_not_fresh            closed witness that Clk2 alone does not imply Frs2 (hence the extra clause)

   Scope: exactly Clock2.scope (see Clock2.v for why each restriction is there: F-02a / F-02b / F-02c make the clock go back
   outside it); nothing is added here.  Hypothesis on the draws: Clock2.DrawsOK for the draws that were consumed. *)
From Coq Require Import ZArith List Bool Lia Permutation.
From RecordUpdate Require Import RecordUpdate.
From CiwV Require Import Sx Prelude Routing Sched.
From CiwV.Engine Require Import State2 Engine2 Codec2.
From CiwV.Inv Require Conserve2 Renege2 Clock2 HorizonCount2.
Import ListNotations.
Open Scope Z_scope.

Local Arguments Z.mul : simpl never.
Local Arguments Z.add : simpl never.
Local Arguments Z.sub : simpl never.
Local Arguments Z.ltb : simpl never.
Local Arguments Z.leb : simpl never.
Local Arguments Z.eqb : simpl never.
Local Arguments Z.to_nat : simpl never.
Local Arguments Z.of_nat : simpl never.
Local Arguments nth_error : simpl never.
Local Arguments gen_date : simpl never.
Local Arguments D : simpl never.

Local Notation dle := Renege2.dle.

(* invert one bind, with names chosen by the caller *)
Ltac minv H a s1 E :=
  match type of H with
  | bind ?m ?f ?s = Ok _ => unfold bind in H at 1; destruct (m s) as [[a s1]| |] eqn:E; [|discriminate H|discriminate H]
  end.

Lemma dle_None_inv a : dle None a -> a = None.
Proof. destruct a; cbn; [tauto|reflexivity]. Qed.

(* ================================================================================================================ *)
(* the minimum over the customers (infinite-server / slotted node) is a lower bound of every candidate              *)
(* ================================================================================================================ *)
Lemma scan_inds_lb : forall q t il best acc d cs, scan_inds t q il best acc = (d, cs) ->
  dle d best /\
  forall i x e, In i q -> find_ind i il = Some x -> i_send x = Some e -> i_blocked x = false -> t <= e -> dle d (Some e).
Proof.
  induction q as [|i r IH]; intros t il best acc d cs H; cbn [scan_inds] in H.
  - inversion H. subst d cs. split; [apply Renege2.dle_refl|]. intros i x e [].
  - assert (G : forall best' acc', scan_inds t r il best' acc' = (d, cs) -> dle best' best ->
                (forall x e, find_ind i il = Some x -> i_send x = Some e -> i_blocked x = false -> t <= e -> dle best' (Some e)) ->
                dle d best /\
                forall i0 x e, In i0 (i :: r) -> find_ind i0 il = Some x -> i_send x = Some e -> i_blocked x = false -> t <= e -> dle d (Some e)).
    { intros best' acc' H' Hb Hc. destruct (IH _ _ _ _ _ _ H') as [A B]. split; [eapply Renege2.dle_trans; eauto|].
      intros i0 x e [<-|Hin] Hf He Hbl Ht; [eapply Renege2.dle_trans; [exact A|eapply Hc; eauto]|eapply B; eauto]. }
    destruct (find_ind i il) as [x|] eqn:Ef; [|eapply G; [exact H|apply Renege2.dle_refl|intros x e Hx; discriminate]].
    destruct (i_send x) as [e|] eqn:Ee; [|eapply G; [exact H|apply Renege2.dle_refl|intros x0 e0 Hx He; injection Hx as <-; congruence]].
    destruct (negb (i_blocked x) && (t <=? e)) eqn:Eg.
    + destruct (date_lt (Some e) best) eqn:E1.
      * eapply G; [exact H|apply Renege2.date_lt_dle; exact E1|]. intros x0 e0 Hx He _ _. injection Hx as <-. rewrite Ee in He. injection He as <-. apply Renege2.dle_refl.
      * assert (Hb : dle best (Some e)) by (apply Renege2.date_nlt_dle; exact E1).
        assert (Hc : forall x0 e0, Some x = Some x0 -> i_send x0 = Some e0 -> i_blocked x0 = false -> t <= e0 -> dle best (Some e0)).
        { intros x0 e0 Hx He _ _. injection Hx as <-. rewrite Ee in He. injection He as <-. exact Hb. }
        destruct (date_eqb (Some e) best); (eapply G; [exact H|apply Renege2.dle_refl|exact Hc]).
    + eapply G; [exact H|apply Renege2.dle_refl|]. intros x0 e0 Hx He Hbl Ht. injection Hx as <-. rewrite Ee in He. injection He as <-.
      rewrite Hbl in Eg. cbn in Eg. apply Z.leb_gt in Eg. lia.
Qed.

(* ================================================================================================================ *)
(* the extra invariant: a node's next date is a lower bound of what it has pending                                  *)
(* ================================================================================================================ *)
(* t is the clock: it only appears in the guard "end date not in the past" of update_next_end_service_without_server *)
Definition Fr2 (cf : config) (t : Z) (il : list ind) (nd : node) : Prop :=
  exists nc, nthZ (cf_nodes cf) (n_id nd - 1) = Some nc /\
    (* end of service at a server *)
    (nd_inf nd = false -> nc_slotted nc = false -> Forall (fun sv => dle (n_next_date nd) (sv_next_end sv)) (n_servers nd)) /\
    (* end of service of a customer of an infinite-server or slotted node *)
    (nd_inf nd = true \/ nc_slotted nc = true ->
       forall i x e, In i (all_individuals nd) -> find_ind i il = Some x -> i_send x = Some e -> i_blocked x = false -> t <= e ->
                     dle (n_next_date nd) (Some e)) /\
    (* shift change / slot *)
    match nc_srv nc with
    | SFixed => True
    | SSched _ => dle (n_next_date nd) (n_next_shift nd)
    | SSlot sl => dle (n_next_date nd) (Some (Clock2.slotdate sl (Z.to_nat (n_spos nd))))
    end /\
    (* reneging of a waiting customer *)
    (nd_inf nd = false -> nc_reneging nc = true ->
       forall i x z, In i (all_individuals nd) -> find_ind i il = Some x -> i_server x = None -> i_ren x = XV z -> dle (n_next_date nd) (Some z)) /\
    (* class change while waiting *)
    (cf_dyn cf = true -> nd_inf nd = false -> dle (n_next_date nd) (n_nccd nd)).
Definition Frs2 (cf : config) (s : sim) : Prop := forall nd, In nd (nodes s) -> Fr2 cf (now s) (inds s) nd.
Definition Hzn2 (cf : config) (s : sim) : Prop := Clock2.Clk2 cf s /\ Frs2 cf s.

(* ---------- update_next_event_date: the date it stores is at most the end-of-service candidate ---------- *)
Lemma une_shape cf j s s' : update_next_event_date cf j s = Ok (tt, s') ->
  exists nd nc d l ty, 1 <= j /\ nthZ (nodes s) (j - 1) = Some nd /\ nthZ (cf_nodes cf) (j - 1) = Some nc /\
    s' = s <| nodes := updZ (nodes s) (n_id nd - 1) (nd <| n_next_date := d |> <| n_next_inds := l |> <| n_next_type := ty |>) |> /\
    (nc_slotted nc || nd_inf nd = true -> dle d (fst (scan_inds (now s) (all_individuals nd) (inds s) None []))).
Proof.
  intros H. unfold update_next_event_date in H.
  minv H nd s1 E1. apply Renege2.get_node_inv in E1 as (-> & Hj & Hn).
  minv H nc s1 E2. apply Renege2.ncfg_of_inv in E2 as [-> Hc].
  minv H t0 s1 E3. apply Renege2.tnow_inv in E3 as [-> ->].
  minv H il s1 E4. apply Renege2.gets_inv in E4 as [-> ->].
  cbv zeta in H.
  set (es := if nc_slotted nc || nd_inf nd then scan_inds (now s) (all_individuals nd) (inds s) None [] else scan_servers (n_servers nd) None []) in H.
  minv H rn s1 E5.
  assert (Hs1 : s1 = s).
  { destruct (negb (nd_inf nd) && nc_reneging nc); [apply Renege2.lift_inv in E5 as [_ ->]|apply Renege2.ret_inv in E5 as [_ ->]]; reflexivity. }
  subst s1. clear E5.
  set (cc := if cf_dyn cf && negb (nd_inf nd) then (n_nccd nd, match n_ncci nd with Some i => [i] | None => [] end) else (None, [])) in H.
  set (sh := match nc_srv nc with
             | SSched _ => [(1, (n_next_shift nd, []))]
             | SSlot sl => [(4, (Some (snd (slot_values sl (Z.to_nat (n_spos nd)))), []))]
             | SFixed => [] end) in H.
  destruct (nc_reneging nc || cf_dyn cf || nc_sched nc).
  - destruct (decide_next_event (sh ++ [(0, es); (3, cc); (2, rn)]) (5, (None, []))) as [ty [d l]] eqn:ED.
    unfold put_node in H. apply Renege2.modify_inv in H. exists nd, nc, d, l, ty. repeat (split; [assumption|]).
    intros Hb. pose proof (Renege2.dne_spec (sh ++ [(0, es); (3, cc); (2, rn)]) (5, (None, []))) as DS. cbv zeta in DS. rewrite ED in DS. cbn [fst snd] in DS.
    destruct DS as (_ & _ & DC). rewrite Forall_forall in DC.
    assert (Hd : dle d (fst es)) by (apply (DC (0, es)); apply in_or_app; right; left; reflexivity).
    unfold es in Hd. rewrite Hb in Hd. exact Hd.
  - unfold put_node in H. apply Renege2.modify_inv in H. exists nd, nc, (fst es), (snd es), 0. repeat (split; [assumption|]).
    intros Hb. unfold es. rewrite Hb. apply Renege2.dle_refl.
Qed.

(* the clause of Fr2 that Clock2.Fresh does not have, on the nodes whose id satisfies P *)
Definition FrI (cf : config) (t : Z) (il : list ind) (nd : node) : Prop :=
  forall nc, nthZ (cf_nodes cf) (n_id nd - 1) = Some nc -> nd_inf nd = true \/ nc_slotted nc = true ->
    forall i x e, In i (all_individuals nd) -> find_ind i il = Some x -> i_send x = Some e -> i_blocked x = false -> t <= e ->
                  dle (n_next_date nd) (Some e).
Definition UI (cf : config) (t : Z) (P : Z -> Prop) (s : sim) : Prop := forall nd, In nd (nodes s) -> P (n_id nd) -> FrI cf t (inds s) nd.

Lemma une_inf cf t j P s s' : Renege2.Idx s -> now s = t -> UI cf t P s -> update_next_event_date cf j s = Ok (tt, s') ->
  Renege2.Idx s' /\ now s' = t /\ UI cf t (fun x => x = j \/ P x) s' /\ inds s' = inds s.
Proof.
  intros HI Hnow HU H. destruct (une_shape _ _ _ _ H) as (nd & nc & d & l & ty & Hj & Hn & Hc & -> & Hd).
  pose proof (Renege2.Idx_get _ _ _ HI Hj Hn) as Hid.
  set (nd' := nd <| n_next_date := d |> <| n_next_inds := l |> <| n_next_type := ty |>) in *.
  split; [|split; [exact Hnow|split; [|reflexivity]]].
  - unfold Renege2.Idx. cbn [nodes set]. apply (Renege2.Idx_updZ (nodes s) nd'). exact HI.
  - destruct (Renege2.nthZ_nat _ _ _ Hn) as [Hj0 Hnk].
    unfold UI. cbn [nodes inds set]. rewrite Hid. unfold updZ. destruct (j - 1 <? 0) eqn:Ej; [apply Z.ltb_lt in Ej; lia|].
    intros x Hx Hp. apply In_nth_error in Hx as [k Hk].
    destruct (Renege2.nth_error_upd_cases _ _ _ _ _ Hk) as [[_ ->]|[Hne Hk']].
    + intros nc' Hc' Hor i y e Hin Hy He Hbl Ht. change (n_id nd') with (n_id nd) in Hc'. rewrite Hid, Hc in Hc'. injection Hc' as <-.
      change (nd_inf nd') with (nd_inf nd) in Hor. change (all_individuals nd') with (all_individuals nd) in Hin. change (n_next_date nd') with d.
      assert (Hb : nc_slotted nc || nd_inf nd = true) by (destruct Hor as [-> | ->]; [apply orb_true_r|reflexivity]).
      specialize (Hd Hb). destruct (scan_inds (now s) (all_individuals nd) (inds s) None []) as [d0 l0] eqn:Es. cbn [fst] in Hd.
      destruct (scan_inds_lb _ _ _ _ _ _ _ Es) as [_ B]. eapply Renege2.dle_trans; [exact Hd|]. eapply B; eauto. lia.
    + apply (HU x (nth_error_In _ _ Hk')). destruct Hp as [Hp|Hp]; [|exact Hp]. exfalso. apply Hne.
      specialize (HI _ _ Hk'). lia.
Qed.

Lemma update_all_inf cf t : forall js P s s', Renege2.Idx s -> now s = t -> UI cf t P s -> update_all cf js s = Ok (tt, s') ->
  UI cf t (fun x => In x js \/ P x) s' /\ inds s' = inds s.
Proof.
  induction js as [|j r IH]; intros P s s' HI Hnow HU H; cbn [update_all] in H.
  - apply Renege2.ret_inv in H as [_ ->]. split; [|reflexivity]. intros nd Hin [[]|Hp]. apply HU; assumption.
  - minv H u s1 E. destruct u. destruct (une_inf _ _ _ _ _ _ HI Hnow HU E) as (I1 & N1 & U1 & E1).
    destruct (IH _ _ _ I1 N1 U1 H) as (U2 & E2). split; [|congruence].
    intros nd Hin Hp. apply (U2 nd Hin). destruct Hp as [[<-|Hp]|Hp]; auto.
Qed.

(* ---------- one event establishes Frs2 from Clk2 alone ---------- *)
Lemma Fr2_of_Fresh cf t t' il nd : Clock2.Fresh cf t il nd -> FrI cf t il nd -> t <= t' -> Fr2 cf t' il nd.
Proof.
  intros (_ & nc & Hc & F1 & F2 & F3 & F4 & _) HV Hle. unfold Clock2.ncf in Hc. exists nc. split; [exact Hc|].
  split; [exact F1|]. split; [|split; [exact F2|split; [|exact F4]]].
  - intros Hor i x e Hi Hx He Hbl Ht. eapply (HV nc Hc Hor); eauto. lia.
  - intros Hi Hr i x z Hq Hx Hs Hz. apply (F3 Hi Hr i z Hq). exists x. auto.
Qed.

Lemma event_step_frs2 cf s d s' : Clock2.scope cf = true -> Clock2.Clk2 cf s -> Clock2.DrawsOK d ->
  event_step cf (s <| dr := d |>) = Ok (tt, s') -> Frs2 cf s'.
Proof.
  intros Hsc (HI & HS & _ & _ & HT) Hd H. unfold Clock2.scope in Hsc. apply andb_true_iff in Hsc as [Hsc Hdo]. apply andb_true_iff in Hsc as [Hpre Hwf].
  pose proof (Clock2.Inv_dr_tail _ _ _ _ _ _ _ _ _ _ d HI Hd) as HI0. change (s <| dr := Renege2.nodraws |> <| dr := d |>) with (s <| dr := d |>) in HI0.
  destruct (Renege2.event_step_inv _ _ _ H) as (s1 & s2 & E1 & E2 & E3).
  destruct (Clock2.sp_have_event cf (Renege2.inf_of s) (now s) (length (nodes s)) Hpre (Clock2.dyn_ok_spec _ Hdo) Hwf HS _ _ _
              (conj (Clock2.InvX_of _ _ _ _ _ _ _ _ _ HI0) HT) E1) as [(loc & cr & gc & HI1) _].
  destruct (Clock2.update_all_keeps cf (Renege2.inf_of s) (now s) (length (nodes s)) (Clock2.dyn_ok_spec _ Hdo) loc gc cr _ (fun _ => False) _ _ HI1
              ltac:(intros k nd _ []) E2) as (K2 & U2 & M2).
  assert (Hall : forall nd, In nd (nodes s2) -> In (n_id nd) (map n_id (nodes s1)) \/ False).
  { intros nd Hin. left. rewrite <- M2. apply in_map. exact Hin. }
  assert (HU : forall k nd, nth_error (nodes s2) k = Some nd -> Clock2.Fresh cf (now s) (inds s2) nd).
  { intros k nd Hk. apply (U2 k nd Hk). apply Hall. eapply nth_error_In; exact Hk. }
  pose proof HI1 as (Hnow1 & _ & _ & HX1 & _).
  destruct (update_all_inf cf (now s) _ (fun _ => False) _ _ HX1 Hnow1 ltac:(intros nd _ []) E2) as (V2 & _).
  destruct (Clock2.Inv_now _ _ _ _ _ _ _ _ _ K2 HU E3) as (_ & Hle & _).
  destruct (Clock2.fnan_spec _ _ E3) as (N1 & N2 & _).
  intros nd Hin. rewrite N1 in Hin. rewrite N2. apply In_nth_error in Hin as [k Hk].
  apply (Fr2_of_Fresh cf (now s)); [exact (HU k nd Hk)| |exact Hle].
  apply (V2 nd (nth_error_In _ _ Hk)). apply Hall. eapply nth_error_In; exact Hk.
Qed.

(* ================================================================================================================ *)
(* T2: one event, any number of events                                                                              *)
(* ================================================================================================================ *)
Theorem event_step_hzn2 cf s d s' : Clock2.scope cf = true -> Hzn2 cf s -> Clock2.DrawsOK d ->
  event_step cf (s <| dr := d |>) = Ok (tt, s') -> Hzn2 cf s' /\ now s <= now s'.
Proof.
  intros Hsc [HC _] Hd H. destruct (Clock2.event_step_clk2 cf s d s' Hsc HC Hd H) as [C1 L1].
  split; [split; [exact C1|exact (event_step_frs2 cf s d s' Hsc HC Hd H)]|exact L1].
Qed.

Theorem run_many_hzn2 cf : Clock2.scope cf = true -> forall ds s s', Hzn2 cf s -> Forall Clock2.DrawsOK ds -> run_many cf s ds = Ok s' ->
  Hzn2 cf s' /\ now s <= now s'.
Proof.
  intros Hsc. induction ds as [|d r IH]; intros s s' HZ HD H; cbn [run_many] in H; [injection H as <-; split; [exact HZ|lia]|].
  destruct (event_step cf (s <| dr := d |>)) as [[[] s1]| |] eqn:E; try discriminate.
  pose proof (Forall_inv HD) as Hd. pose proof (Forall_inv_tail HD) as Hr.
  destruct (event_step_hzn2 _ _ _ _ Hsc HZ Hd E) as [Z1 L1].
  destruct (IH _ _ Z1 Hr H) as [Z2 L2]. split; [exact Z2|lia].
Qed.

(* ================================================================================================================ *)
(* what the loop test reads, under the invariant                                                                    *)
(* ================================================================================================================ *)
Lemma Clk2_next_date cf s : Clock2.Clk2 cf s ->
  HorizonCount2.next_date2 s = Some (now s) \/ (HorizonCount2.next_date2 s = None /\ Clock2.nothing_scheduled s).
Proof.
  intros HC. pose proof (Clock2.Clk2_means cf s HC) as (_ & _ & _ & _ & _ & _ & _ & _ & _ & _ & _ & M0 & M1).
  destruct HC as (_ & _ & _ & (Hpos & _) & _).
  unfold HorizonCount2.next_date2. destruct (next_active s =? 0) eqn:E0.
  - apply Z.eqb_eq in E0. destruct (M0 E0) as [Hd|Hn]; [left; exact Hd|right; split; [apply Hn|exact Hn]].
  - apply Z.eqb_neq in E0. destruct (M1 E0) as (nd & Hnth & _ & Hd).
    unfold nthZ. destruct (next_active s - 1 <? 0) eqn:El; [apply Z.ltb_lt in El; lia|]. rewrite Hnth.
    destruct Hd as [Hd|Hn]; [left; exact Hd|right; split; [|exact Hn]]. apply Hn. eapply nth_error_In; exact Hnth.
Qed.

Lemma Clk2_before_true cf T s : Clock2.Clk2 cf s -> HorizonCount2.before2 T s = true -> HorizonCount2.next_date2 s = Some (now s) /\ now s < T.
Proof.
  intros HC H. destruct (HorizonCount2.before2_true _ _ H) as (d & Hd & Hlt).
  destruct (Clk2_next_date cf s HC) as [E|[E _]]; rewrite E in Hd; [|discriminate]. injection Hd as <-. auto.
Qed.
Lemma Clk2_before_false cf T s : Clock2.Clk2 cf s -> HorizonCount2.before2 T s = false -> T <= now s \/ Clock2.nothing_scheduled s.
Proof.
  intros HC H. unfold HorizonCount2.before2 in H. destruct (Clk2_next_date cf s HC) as [E|[E Hn]]; [|right; exact Hn].
  rewrite E in H. apply Z.ltb_ge in H. left. exact H.
Qed.

(* nothing is pending before T *)
Definition NothingBefore2 (cf : config) (T : Z) (s : sim) : Prop :=
  (* no arrival *)
  (forall row e, In row (a_dates (arr s)) -> In (Some e) row -> T <= e) /\
  (forall e, a_next_date (arr s) = Some e -> T <= e) /\
  (* no node's next event, of whichever of the five kinds (n_next_type) *)
  (forall nd e, In nd (nodes s) -> n_next_date nd = Some e -> T <= e) /\
  (* no end of service at a server *)
  (forall nd nc sv e, In nd (nodes s) -> nthZ (cf_nodes cf) (n_id nd - 1) = Some nc -> nd_inf nd = false -> nc_slotted nc = false ->
     In sv (n_servers nd) -> sv_next_end sv = Some e -> T <= e) /\
  (* no end of service, not in the past, of an unblocked customer of an infinite-server or slotted node *)
  (forall nd nc i x e, In nd (nodes s) -> nthZ (cf_nodes cf) (n_id nd - 1) = Some nc -> nd_inf nd = true \/ nc_slotted nc = true ->
     In i (all_individuals nd) -> find_ind i (inds s) = Some x -> i_blocked x = false -> i_send x = Some e -> now s <= e -> T <= e) /\
  (* no shift change *)
  (forall nd nc sc e, In nd (nodes s) -> nthZ (cf_nodes cf) (n_id nd - 1) = Some nc -> nc_srv nc = SSched sc -> n_next_shift nd = Some e -> T <= e) /\
  (* no slot *)
  (forall nd nc sl, In nd (nodes s) -> nthZ (cf_nodes cf) (n_id nd - 1) = Some nc -> nc_srv nc = SSlot sl ->
     T <= Clock2.slotdate sl (Z.to_nat (n_spos nd))) /\
  (* no reneging of a waiting customer (node with servers and reneging) *)
  (forall nd nc i x z, In nd (nodes s) -> nthZ (cf_nodes cf) (n_id nd - 1) = Some nc -> nc_reneging nc = true -> nd_inf nd = false ->
     In i (all_individuals nd) -> find_ind i (inds s) = Some x -> i_server x = None -> i_ren x = XV z -> T <= z) /\
  (* no class change while waiting (node with servers): neither the node's next_class_change_date nor any waiting customer's *)
  (forall nd e, In nd (nodes s) -> cf_dyn cf = true -> nd_inf nd = false -> n_nccd nd = Some e -> T <= e) /\
  (forall nd i x z, In nd (nodes s) -> cf_dyn cf = true -> nd_inf nd = false -> In i (all_individuals nd) -> find_ind i (inds s) = Some x ->
     i_server x = None -> i_ccd x = XV z -> T <= z).

(* (2) when the loop test fails, nothing is scheduled before T *)
Theorem Hzn2_means cf T s : Hzn2 cf s -> HorizonCount2.before2 T s = false ->
  (T <= now s \/ Clock2.nothing_scheduled s) /\ NothingBefore2 cf T s.
Proof.
  intros [HC HF] Hb. pose proof (Clk2_before_false cf T s HC Hb) as Hcase. split; [exact Hcase|].
  pose proof (Clock2.Clk2_means cf s HC) as (M1 & M2 & _ & M4 & M5 & M6 & M7 & M8 & M9 & M10 & _).
  destruct Hcase as [HT|[Ha Hn]].
  - unfold NothingBefore2. split; [|split; [|split; [|split; [|split; [|split; [|split; [|split; [|split]]]]]]]].
    + intros row e Hr He. specialize (M1 row e Hr He). lia.
    + intros e He. destruct HC as ((_ & _ & _ & _ & _ & _ & _ & _ & HA & _) & _). pose proof (Clock2.ArrOK_next _ _ HA) as Hd.
      change (dle (Some (now s)) (a_next_date (arr s))) in Hd. rewrite He in Hd. cbn in Hd. lia.
    + intros nd e Hin He. specialize (M4 nd e Hin He). lia.
    + intros nd nc sv e Hin Hc Hi Hs Hsv He. specialize (M5 nd nc sv e Hin Hc Hi Hs Hsv He). lia.
    + intros nd nc i x e _ _ _ _ _ _ _ Hle. lia.
    + intros nd nc sc e Hin Hc Hs He. destruct (M6 nd nc sc Hin Hc Hs) as [E1 E2]. rewrite E1 in He. injection He as <-. lia.
    + intros nd nc sl Hin Hc Hs. specialize (M7 nd nc sl Hin Hc Hs). lia.
    + intros nd nc i x z Hin Hc Hr Hi Hq Hx Hsv Hz. specialize (M8 nd nc i x z Hin Hc Hr Hi Hq Hx Hsv Hz). lia.
    + intros nd e Hin Hd Hi He. destruct (M9 nd Hin Hd Hi) as [E1 _]. rewrite He in E1. cbn in E1. lia.
    + intros nd i x z Hin Hd Hi Hq Hx Hsv Hz. destruct (M10 nd i x z Hin Hd Hi Hq Hx Hsv Hz) as [E1 _]. lia.
  - assert (HN : forall nd, In nd (nodes s) -> forall a, dle (n_next_date nd) a -> a = None).
    { intros nd Hin a Ha0. rewrite (Hn nd Hin) in Ha0. apply dle_None_inv. exact Ha0. }
    unfold NothingBefore2. split; [|split; [|split; [|split; [|split; [|split; [|split; [|split; [|split]]]]]]]].
    + intros row e Hr He. specialize (M2 row (Some e) Hr He). rewrite Ha in M2. destruct M2.
    + intros e He. rewrite Ha in He. discriminate.
    + intros nd e Hin He. rewrite (Hn nd Hin) in He. discriminate.
    + intros nd nc sv e Hin Hc Hi Hs Hsv He. destruct (HF nd Hin) as (nc' & Hc' & F1 & _). rewrite Hc in Hc'. injection Hc' as <-.
      specialize (F1 Hi Hs). rewrite Forall_forall in F1. pose proof (HN nd Hin _ (F1 sv Hsv)) as Q. congruence.
    + intros nd nc i x e Hin Hc Hor Hq Hx Hbl He Hle. destruct (HF nd Hin) as (nc' & Hc' & _ & F2 & _). rewrite Hc in Hc'. injection Hc' as <-.
      pose proof (HN nd Hin _ (F2 Hor i x e Hq Hx He Hbl Hle)) as Q. discriminate Q.
    + intros nd nc sc e Hin Hc Hs He. destruct (HF nd Hin) as (nc' & Hc' & _ & _ & F3 & _). rewrite Hc in Hc'. injection Hc' as <-.
      rewrite Hs in F3. pose proof (HN nd Hin _ F3) as Q. congruence.
    + intros nd nc sl Hin Hc Hs. destruct (HF nd Hin) as (nc' & Hc' & _ & _ & F3 & _). rewrite Hc in Hc'. injection Hc' as <-.
      rewrite Hs in F3. pose proof (HN nd Hin _ F3) as Q. discriminate Q.
    + intros nd nc i x z Hin Hc Hr Hi Hq Hx Hsv Hz. destruct (HF nd Hin) as (nc' & Hc' & _ & _ & _ & F4 & _). rewrite Hc in Hc'. injection Hc' as <-.
      pose proof (HN nd Hin _ (F4 Hi Hr i x z Hq Hx Hsv Hz)) as Q. discriminate Q.
    + intros nd e Hin Hd Hi He. destruct (HF nd Hin) as (nc' & _ & _ & _ & _ & _ & F5).
      pose proof (HN nd Hin _ (F5 Hd Hi)) as Q. congruence.
    + intros nd i x z Hin Hd Hi Hq Hx Hsv Hz. destruct (HF nd Hin) as (nc' & _ & _ & _ & _ & _ & F5).
      pose proof (HN nd Hin _ (F5 Hd Hi)) as Q. destruct (M10 nd i x z Hin Hd Hi Hq Hx Hsv Hz) as [_ E2]. rewrite Q in E2. destruct E2.
Qed.

(* ================================================================================================================ *)
(* the loop under the invariant                                                                                     *)
(* ================================================================================================================ *)
(* (1) every executed event was the one scheduled at the clock, strictly before T; the clock never went back *)
Theorem run_until2_tr_hzn2 cf T : Clock2.scope cf = true -> forall ds s tr s' rest, Hzn2 cf s -> Forall Clock2.DrawsOK ds ->
  HorizonCount2.run_until2_tr cf T s ds = Ok (tr, s', rest) ->
  Forall (fun x => Hzn2 cf x /\ HorizonCount2.next_date2 x = Some (now x) /\ now x < T) tr /\
  HorizonCount2.chain (now s) (map now tr ++ [now s']) /\ Hzn2 cf s'.
Proof.
  intros Hsc. unfold HorizonCount2.run_until2_tr.
  induction ds as [|d r IH]; intros s tr s' rest HZ HD H; cbn [HorizonCount2.run_while_tr] in H.
  - inversion H. subst tr s' rest. split; [constructor|]. split; [cbn; lia|exact HZ].
  - destruct (HorizonCount2.before2 T s) eqn:Eb.
    + destruct (event_step cf (s <| dr := d |>)) as [[u s1]| |] eqn:Ee; try discriminate. destruct u.
      destruct (HorizonCount2.run_while_tr cf (HorizonCount2.before2 T) s1 r) as [[[tr1 s2] rest1]| |] eqn:Er; try discriminate.
      inversion H. subst tr s' rest. clear H.
      pose proof (Forall_inv HD) as Hd. pose proof (Forall_inv_tail HD) as Hr.
      destruct (event_step_hzn2 _ _ _ _ Hsc HZ Hd Ee) as [Z1 L1].
      destruct (IH _ _ _ _ Z1 Hr Er) as (A & B & C).
      split; [constructor; [split; [exact HZ|exact (Clk2_before_true cf T s (proj1 HZ) Eb)]|exact A]|]. split; [|exact C].
      cbn [map app HorizonCount2.chain]. split; [lia|]. eapply HorizonCount2.chain_le; [exact L1|exact B].
    + inversion H. subst tr s' rest. split; [constructor|]. split; [cbn; lia|exact HZ].
Qed.

(* the hypothesis on the draws is only needed for the draws that were consumed *)
Lemma run_while_tr_used cf test : forall ds s tr s' rest used, HorizonCount2.run_while_tr cf test s ds = Ok (tr, s', rest) -> ds = used ++ rest ->
  HorizonCount2.run_while_tr cf test s used = Ok (tr, s', []).
Proof.
  induction ds as [|d r IH]; intros s tr s' rest used H Hu; cbn [HorizonCount2.run_while_tr] in H.
  - inversion H. subst tr s' rest. destruct used; [reflexivity|discriminate].
  - destruct (test s) eqn:Eb.
    + destruct (event_step cf (s <| dr := d |>)) as [[u s1]| |] eqn:Ee; try discriminate.
      destruct (HorizonCount2.run_while_tr cf test s1 r) as [[[tr1 s2] rest1]| |] eqn:Er; try discriminate.
      inversion H. subst tr s' rest. clear H.
      destruct used as [|d0 used0].
      * exfalso. cbn [app] in Hu. destruct (HorizonCount2.run_while_tr_spec _ _ _ _ _ _ _ Er) as (u1 & E1 & _).
        assert (Hl : length (d :: r) = length rest1) by (rewrite Hu; reflexivity). rewrite E1 in Hl. cbn [length] in Hl. rewrite app_length in Hl. lia.
      * cbn [app] in Hu. injection Hu as <- Hu. cbn [HorizonCount2.run_while_tr]. rewrite Eb, Ee, (IH _ _ _ _ _ Er Hu). reflexivity.
    + inversion H. subst tr s' rest. clear H.
      assert (Hnil : used = []).
      { destruct used as [|d0 used0]; [reflexivity|]. exfalso.
        assert (Hl : length (d :: r) = length ((d0 :: used0) ++ d :: r)) by (rewrite <- Hu; reflexivity).
        rewrite app_length in Hl. cbn [length] in Hl. lia. }
      subst used. reflexivity.
Qed.

Theorem run_until2_hzn2 cf T ds s s' rest : Clock2.scope cf = true -> Hzn2 cf s -> Forall Clock2.DrawsOK ds ->
  HorizonCount2.run_until2 cf T s ds = Ok (s', rest) -> Hzn2 cf s' /\ now s <= now s'.
Proof.
  intros Hsc HZ HD H. destruct (HorizonCount2.run_until2_run_many _ _ _ _ _ _ H) as (used & E1 & E2 & _).
  eapply run_many_hzn2; [exact Hsc|exact HZ| |exact E2]. rewrite E1 in HD. apply Forall_app in HD. apply HD.
Qed.

(* ---------- C14, first half, in the words of the property ---------- *)
Theorem engine_horizon2 cf T ds s s' rest : Clock2.scope cf = true -> Conserve2.WFx2 [] s -> Hzn2 cf s ->
  HorizonCount2.run_until2 cf T s ds = Ok (s', rest) ->
  exists used tr,
    (* the loop consumed a prefix of the draws and its result is the engine run on that prefix *)
    ds = used ++ rest /\ length tr = length used /\ run_many cf s used = Ok s' /\
    (* tr lists the states from which an event was executed *)
    (forall k x, nth_error tr k = Some x -> run_many cf s (firstn k used) = Ok x) /\
    (* with draws to spare, the loop stopped because its test failed *)
    (rest <> [] -> HorizonCount2.before2 T s' = false) /\
    (* conservation at return: unfinished customers are left in place (no hypothesis on the draws) *)
    Conserve2.WFx2 [] s' /\
    (Forall Clock2.DrawsOK used ->
     (* none scheduled at or after T was executed: every executed event was the one due at the clock, and that was before T *)
     Forall (fun x => HorizonCount2.next_date2 x = Some (now x) /\ now x < T) tr /\
     HorizonCount2.chain (now s) (map now tr ++ [now s']) /\
     (* the invariant holds at every state from which an event was executed and at return *)
     Forall (Hzn2 cf) tr /\ Hzn2 cf s' /\
     (* every event scheduled before T was executed: once the loop test fails, nothing is left before T *)
     (HorizonCount2.before2 T s' = false -> (T <= now s' \/ Clock2.nothing_scheduled s') /\ NothingBefore2 cf T s')).
Proof.
  intros Hsc HW HZ H. destruct (HorizonCount2.run_until2_has_trace _ _ _ _ _ _ H) as [tr Htr].
  unfold HorizonCount2.run_until2_tr in Htr.
  destruct (HorizonCount2.run_while_tr_spec _ _ _ _ _ _ _ Htr) as (used & E1 & E2 & E3 & E4 & E5 & E6).
  exists used, tr. split; [exact E1|]. split; [symmetry; exact E2|]. split; [exact E3|]. split; [exact E6|]. split; [exact E5|].
  split; [eapply Conserve2.run_many_conserves2; eauto|].
  intros HD. pose proof (run_while_tr_used cf _ _ _ _ _ _ _ Htr E1) as Hu.
  destruct (run_until2_tr_hzn2 cf T Hsc _ _ _ _ _ HZ HD Hu) as (A & B & C).
  split; [eapply Forall_impl; [|exact A]; intros x Hx; apply Hx|]. split; [exact B|].
  split; [eapply Forall_impl; [|exact A]; intros x Hx; apply Hx|]. split; [exact C|].
  intros Hb. apply Hzn2_means; [exact C|exact Hb].
Qed.

(* the same, together with what HorizonCount2.engine_until2 says of the loop: the four counts (completed / finished / arrived /
   accepted) are nondecreasing along the run and HorizonCount2.CInv (conservation + the order of the counts) holds throughout *)
Theorem engine_horizon2_counts cf T ds s s' rest : Clock2.scope cf = true -> HorizonCount2.CInv cf s -> Hzn2 cf s ->
  HorizonCount2.run_until2 cf T s ds = Ok (s', rest) ->
  exists used tr,
    ds = used ++ rest /\ length tr = length used /\ run_many cf s used = Ok s' /\
    (forall k x, nth_error tr k = Some x -> run_many cf s (firstn k used) = Ok x) /\
    (rest <> [] -> HorizonCount2.before2 T s' = false) /\
    (forall m', HorizonCount2.chain (HorizonCount2.count_of m' s) (map (HorizonCount2.count_of m') tr ++ [HorizonCount2.count_of m' s'])) /\
    Forall (HorizonCount2.CInv cf) tr /\ HorizonCount2.CInv cf s' /\
    (Forall Clock2.DrawsOK used ->
     Forall (fun x => HorizonCount2.next_date2 x = Some (now x) /\ now x < T) tr /\
     HorizonCount2.chain (now s) (map now tr ++ [now s']) /\
     Forall (Hzn2 cf) tr /\ Hzn2 cf s' /\
     (HorizonCount2.before2 T s' = false -> (T <= now s' \/ Clock2.nothing_scheduled s') /\ NothingBefore2 cf T s')).
Proof.
  intros Hsc HW HZ H. destruct (HorizonCount2.run_until2_has_trace _ _ _ _ _ _ H) as [tr Htr].
  pose proof (HorizonCount2.run_until2_tr_inv _ _ _ _ _ _ _ HW Htr) as [I1 I2].
  pose proof (fun m' => HorizonCount2.run_until2_tr_mono cf T m' _ _ _ _ _ Htr) as Hmono.
  unfold HorizonCount2.run_until2_tr in Htr.
  destruct (HorizonCount2.run_while_tr_spec _ _ _ _ _ _ _ Htr) as (used & E1 & E2 & E3 & E4 & E5 & E6).
  exists used, tr. split; [exact E1|]. split; [symmetry; exact E2|]. split; [exact E3|]. split; [exact E6|]. split; [exact E5|].
  split; [exact Hmono|]. split; [exact I1|]. split; [exact I2|].
  intros HD. pose proof (run_while_tr_used cf _ _ _ _ _ _ _ Htr E1) as Hu.
  destruct (run_until2_tr_hzn2 cf T Hsc _ _ _ _ _ HZ HD Hu) as (A & B & C).
  split; [eapply Forall_impl; [|exact A]; intros x Hx; apply Hx|]. split; [exact B|].
  split; [eapply Forall_impl; [|exact A]; intros x Hx; apply Hx|]. split; [exact C|].
  intros Hb. apply Hzn2_means; [exact C|exact Hb].
Qed.

(* ================================================================================================================ *)
(* an executable test of the invariant                                                                              *)
(* ================================================================================================================ *)
Definition fr2_b (cf : config) (s : sim) (nd : node) : bool :=
  match nthZ (cf_nodes cf) (n_id nd - 1) with
  | None => false
  | Some nc =>
    (nd_inf nd || nc_slotted nc || forallb (fun sv => Clock2.dleb (n_next_date nd) (sv_next_end sv)) (n_servers nd)) &&
    (negb (nd_inf nd || nc_slotted nc) ||
     forallb (fun i => match find_ind i (inds s) with
                       | Some x => match i_send x with
                                   | Some e => i_blocked x || (e <? now s) || Clock2.dleb (n_next_date nd) (Some e)
                                   | None => true end
                       | None => true end) (all_individuals nd)) &&
    (match nc_srv nc with
     | SFixed => true
     | SSched _ => Clock2.dleb (n_next_date nd) (n_next_shift nd)
     | SSlot sl => Clock2.dleb (n_next_date nd) (Some (Clock2.slotdate sl (Z.to_nat (n_spos nd))))
     end) &&
    (nd_inf nd || negb (nc_reneging nc) ||
     forallb (fun i => match find_ind i (inds s) with
                       | Some x => match i_server x, i_ren x with
                                   | None, XV z => Clock2.dleb (n_next_date nd) (Some z)
                                   | _, _ => true end
                       | None => true end) (all_individuals nd)) &&
    (negb (cf_dyn cf) || nd_inf nd || Clock2.dleb (n_next_date nd) (n_nccd nd))
  end.
Definition frs2_b (cf : config) (s : sim) : bool := forallb (fr2_b cf s) (nodes s).
Definition hzn2_b (cf : config) (s : sim) : bool := Clock2.clk2_b cf s && frs2_b cf s.

Theorem frs2_b_sound cf s : frs2_b cf s = true -> Frs2 cf s.
Proof.
  unfold frs2_b. intros H nd Hin. rewrite forallb_forall in H. specialize (H nd Hin). unfold fr2_b in H.
  destruct (nthZ (cf_nodes cf) (n_id nd - 1)) as [nc|] eqn:Hc; [|discriminate]. exists nc. split; [exact Hc|].
  apply andb_true_iff in H as [H H5]. apply andb_true_iff in H as [H H4]. apply andb_true_iff in H as [H H3]. apply andb_true_iff in H as [H1 H2].
  split; [|split; [|split; [|split]]].
  - intros Hi Hs. rewrite Hi, Hs in H1. cbn [orb] in H1. apply Forall_forall. intros sv Hsv. rewrite forallb_forall in H1. apply Clock2.dleb_dle. apply (H1 sv Hsv).
  - intros Hor i x e Hq Hx He Hbl Ht.
    assert (Hb : nd_inf nd || nc_slotted nc = true) by (destruct Hor as [Hor|Hor]; rewrite Hor; [reflexivity|apply orb_true_r]).
    rewrite Hb in H2. cbn [negb orb] in H2. rewrite forallb_forall in H2. specialize (H2 i Hq). rewrite Hx, He, Hbl in H2. cbn [orb] in H2.
    destruct (e <? now s) eqn:El; [apply Z.ltb_lt in El; lia|]. cbn [orb] in H2. apply Clock2.dleb_dle. exact H2.
  - destruct (nc_srv nc) as [|sc|sl]; [exact I|apply Clock2.dleb_dle; exact H3|apply Clock2.dleb_dle; exact H3].
  - intros Hi Hr i x z Hq Hx Hs Hz. rewrite Hi, Hr in H4. cbn [negb orb] in H4. rewrite forallb_forall in H4. specialize (H4 i Hq).
    rewrite Hx, Hs, Hz in H4. apply Clock2.dleb_dle. exact H4.
  - intros Hd Hi. rewrite Hd, Hi in H5. cbn [negb orb] in H5. apply Clock2.dleb_dle. exact H5.
Qed.
Theorem hzn2_b_sound cf s : hzn2_b cf s = true -> Hzn2 cf s.
Proof.
  unfold hzn2_b. intros H. apply andb_true_iff in H as [H1 H2]. split; [apply Clock2.clk2_b_sound; exact H1|apply frs2_b_sound; exact H2].
Qed.

(* ================================================================================================================ *)
(* non-vacuity and executable runs                                                                                  *)
(* ================================================================================================================ *)
(* what the examples show of a call: the clocks at which events were executed, the clock / active node / number of unused records
   of draws at return, the populations, next dates and next event types of the nodes, the next arrival, the exit list, and the
   executable invariants at return (Hzn2, conservation, HorizonCount2.CInv) and at every state from which an event was executed *)
Definition show_call (cf : config) (r : res (list sim * sim * list draws)) :=
  match r with
  | Ok (tr, s', rest) =>
    Some (map now tr, now s', next_active s', length rest, map n_pop (nodes s'), map n_next_date (nodes s'), map n_next_type (nodes s'),
          a_next_date (arr s'), exit_ids s', hzn2_b cf s', Conserve2.wfx2_b s', HorizonCount2.cinv_b cf s', forallb (hzn2_b cf) tr)
  | _ => None
  end.

(* Clock2's four networks, from their initial states *)
Example ex_hzn2 : Hzn2 Clock2.ex_cf Clock2.ex_s0 /\ Hzn2 Clock2.dx_cf Clock2.dx_s0 /\ Hzn2 Clock2.px_cf Clock2.px_s0 /\ Hzn2 Clock2.qx_cf Clock2.qx_s0.
Proof. split; [|split; [|split]]; apply hzn2_b_sound; vm_compute; reflexivity. Qed.

(* reneging (node 1, capacity 3) + server schedule (node 2) + slotted services (node 3), horizon 10: twelve events are executed,
   at clocks 0 0 1 3 5 5 7 7 8 9 9 9; the shift change of node 2 due exactly at 10 is NOT executed, nor the arrival at 11, the
   renege at 12, the slot at 15; four customers are left in place *)
Example ex_run_until2_10 :
  show_call Clock2.ex_cf (HorizonCount2.run_until2_tr Clock2.ex_cf 10 Clock2.ex_s0 (repeat Clock2.ex_d 30)) =
  Some ([0; 0; 1; 3; 5; 5; 7; 7; 8; 9; 9; 9], 10, 2, 18%nat, [2; 1; 1], [Some 12; Some 10; Some 15], [2; 1; 4], Some 11, [3],
        true, true, true, true).
Proof. vm_compute. reflexivity. Qed.
(* horizon 11: the shift change at 10 is executed as well (node 2's server now ends at 13), the arrival due at 11 is not *)
Example ex_run_until2_11 :
  show_call Clock2.ex_cf (HorizonCount2.run_until2_tr Clock2.ex_cf 11 Clock2.ex_s0 (repeat Clock2.ex_d 30)) =
  Some ([0; 0; 1; 3; 5; 5; 7; 7; 8; 9; 9; 9; 10], 11, 0, 17%nat, [2; 1; 1], [Some 12; Some 13; Some 15], [2; 0; 4], Some 11, [3],
        true, true, true, true).
Proof. vm_compute. reflexivity. Qed.
(* pausing at 10 and resuming to 11 is the call to 11 *)
Example ex_split :
  match HorizonCount2.run_until2 Clock2.ex_cf 10 Clock2.ex_s0 (repeat Clock2.ex_d 30) with
  | Ok (s1, r1) =>
    match HorizonCount2.run_until2 Clock2.ex_cf 11 s1 r1, HorizonCount2.run_until2 Clock2.ex_cf 11 Clock2.ex_s0 (repeat Clock2.ex_d 30) with
    | Ok (s2, r2), Ok (s3, r3) => Some (now s1, now s2, now s3, length r2, length r3, map n_next_date (nodes s2), map n_next_date (nodes s3))
    | _, _ => None end
  | _ => None end = Some (10, 11, 11, 17%nat, 17%nat, [Some 12; Some 13; Some 15], [Some 12; Some 13; Some 15]).
Proof. vm_compute. reflexivity. Qed.
(* class change while waiting, horizon 12: the class-change event due at 13 and the arrival due at 12 are left *)
Example dx_run_until2 :
  show_call Clock2.dx_cf (HorizonCount2.run_until2_tr Clock2.dx_cf 12 Clock2.dx_s0 (repeat Clock2.dx_d 30)) =
  Some ([0; 2; 4; 5; 6; 7; 8; 9; 9; 10; 11], 12, 0, 19%nat, [5], [Some 13], [3], Some 12, [1], true, true, true, true).
Proof. vm_compute. reflexivity. Qed.
(* priority pre-emption that reroutes, with reneging, horizon 15 *)
Example px_run_until2 :
  show_call Clock2.px_cf (HorizonCount2.run_until2_tr Clock2.px_cf 15 Clock2.px_s0 (repeat Clock2.px_d 30)) =
  Some ([0; 3; 4; 7; 8; 9; 10; 10; 11; 12; 13], 15, 0, 19%nat, [3; 1], [Some 16; Some 17], [2; 0], Some 15, [3; 1; 5], true, true, true, true).
Proof. vm_compute. reflexivity. Qed.
(* priority restart + pre-emptive schedule + pre-emptive capacitated slots + blocking, horizon 15: the end of service at node 1 due
   exactly at 15 is not executed *)
Example qx_run_until2 :
  show_call Clock2.qx_cf (HorizonCount2.run_until2_tr Clock2.qx_cf 15 Clock2.qx_s0 (repeat Clock2.qx_d 40)) =
  Some ([0; 0; 1; 4; 4; 5; 6; 7; 7; 9; 9; 10; 10; 12; 13; 13; 14], 15, 1, 23%nat, [3; 1; 0], [Some 15; Some 17; Some 18], [0; 0; 4], Some 16,
        [4; 5; 7; 8; 9], true, true, true, true).
Proof. vm_compute. reflexivity. Qed.

(* an infinite-server node (the clause of Frs2 that is read from the customers): arrivals at 2 and 5 are executed; the service end
   due exactly at the horizon 6 is not; both customers are still in service (until 6 and 14) *)
Definition if_nc : ncfg := mkNcfg None None 0 SFixed 0 false [false] 0.
Definition if_cf : config := mkCfg 1 [if_nc] [0] 1 None [RtNR [RLeave]] [[None]] false [[false]].
Definition if_nd : node := mkNode 1 0 0 [[]] [] [] 0 None [] None 0 [] 0 [] [] [] 0 None 0 None None.
Definition if_s0 : sim := mkSim 2 0 (mkArr 0 0 [[Some 2]] 1 0 (Some 2)) [if_nd] [] 0 0 [] Renege2.nodraws [] [[0]].
Definition if_ds : list draws :=
  [mkDraws [3] [1] [4] [] [] []; mkDraws [3] [1] [9] [] [] []; mkDraws [3] [1] [4] [] [] []; mkDraws [] [] [] [] [] []].
Example if_scope : Clock2.scope if_cf = true. Proof. vm_compute. reflexivity. Qed.
Example if_hzn2 : Hzn2 if_cf if_s0. Proof. apply hzn2_b_sound. vm_compute. reflexivity. Qed.
Example if_run_until2 :
  show_call if_cf (HorizonCount2.run_until2_tr if_cf 6 if_s0 if_ds) =
  Some ([2; 5], 6, 1, 2%nat, [2], [Some 6], [0], Some 8, [], true, true, true, true) /\
  match HorizonCount2.run_until2_tr if_cf 6 if_s0 if_ds with Ok (_, s', _) => map i_send (inds s') = [Some 6; Some 14] | _ => False end.
Proof. split; vm_compute; reflexivity. Qed.

(* ---------- Clk2 alone does not give (2): why Frs2 is part of the invariant ----------
   One single-server node whose customer 1 is in service until 5, but whose next_event_date is infinite (as is the arrival node's):
   the state is in scope, satisfies Clk2, conservation and HorizonCount2.CInv, the loop test "next date < 10" fails at once -- and
   an end of service is scheduled at 5 < 10.  Such a state is not reachable (every event makes every node recompute its date:
   event_step_frs2); the witness only shows that the statement needs the extra clause, it is not a defect of the model. *)
Definition w_cf : config := mkCfg 1 [mkNcfg None None 0 SFixed 0 false [false] 0] [0] 1 None [RtNR [RLeave]] [[None]] false [[false]].
Definition w_nd : node :=
  mkNode 1 1 1 [[1]] [mkServer 1 (Some 1) true (Some 5) 0 None 0 false 0 None] [] 0 None [] (Some 1) 1 [] 0 [] [] [] 0 None 0 None None.
Definition w_ind : ind :=
  mkInd 1 0 0 0 0 0 (Some 1) (Some 0) (Some 0) (Some 5) (Some 5) None false (Some 1) None (Some 0) None 0 0 false XI XI None None None None None.
Definition w_s : sim := mkSim 0 0 (mkArr 1 1 [[None]] 1 0 None) [w_nd] [] 0 0 [w_ind] Renege2.nodraws [] [[0]].
Definition w_check : bool :=
  Clock2.scope w_cf && Clock2.clk2_b w_cf w_s && HorizonCount2.cinv_b w_cf w_s && negb (HorizonCount2.before2 10 w_s) && negb (frs2_b w_cf w_s) &&
  match HorizonCount2.run_until2 w_cf 10 w_s [Renege2.nodraws] with Ok (s', rest) => (length rest =? 1)%nat | _ => false end.
Example w_check_true : w_check = true. Proof. vm_compute. reflexivity. Qed.
Theorem clk2_not_fresh : exists cf s T,
  Clock2.scope cf = true /\ Clock2.Clk2 cf s /\ HorizonCount2.CInv cf s /\ HorizonCount2.before2 T s = false /\
  (exists ds, HorizonCount2.run_until2 cf T s ds = Ok (s, ds) /\ ds <> []) /\
  exists nd sv e, In nd (nodes s) /\ In sv (n_servers nd) /\ sv_next_end sv = Some e /\ e < T.
Proof.
  exists w_cf, w_s, 10.
  split; [vm_compute; reflexivity|]. split; [apply Clock2.clk2_b_sound; vm_compute; reflexivity|].
  split; [apply HorizonCount2.cinv_b_sound; vm_compute; reflexivity|]. split; [vm_compute; reflexivity|].
  split; [exists [Renege2.nodraws]; split; [vm_compute; reflexivity|discriminate]|].
  exists w_nd, (mkServer 1 (Some 1) true (Some 5) 0 None 0 false 0 None), 5.
  split; [left; reflexivity|]. split; [left; reflexivity|]. split; [reflexivity|lia].
Qed.

Print Assumptions event_step_frs2.
Print Assumptions event_step_hzn2.
Print Assumptions run_many_hzn2.
Print Assumptions Hzn2_means.
Print Assumptions run_until2_tr_hzn2.
Print Assumptions run_until2_hzn2.
Print Assumptions engine_horizon2.
Print Assumptions engine_horizon2_counts.
Print Assumptions frs2_b_sound.
Print Assumptions hzn2_b_sound.
Print Assumptions ex_hzn2.
Print Assumptions ex_run_until2_10.
Print Assumptions ex_run_until2_11.
Print Assumptions ex_split.
Print Assumptions dx_run_until2.
Print Assumptions px_run_until2.
Print Assumptions qx_run_until2.
Print Assumptions if_hzn2.
Print Assumptions if_run_until2.
Print Assumptions clk2_not_fresh.

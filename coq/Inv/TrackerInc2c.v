(* TrackerInc2c.v -- towards closing the per-event hypothesis CandQ1 of TrackerInc2b's NodeClassMatrix theorems (STAGE-2 model).

   What the model does (FINDING of this file about the shape of the proof, not a defect): update_next_event_date does NOT read the
   candidate of a class change while waiting off the queues; it copies the node's bookkeeping fields n_nccd / n_ncci
   (next_class_change_date / next_class_change_ind), which are written ONLY by find_next_class_change (called from
   decide_class_change and reset_class_change, in the middle of an event).  So CandQ1 splits into
     (1) Fresh: after ANY event, on EVERY node, "next event type = class change" implies finitely many servers, n_nccd <> None and
         n_next_inds = [n_ncci]  (NCC).  PROVED here for every configuration, no scope:  event_step_fresh.
     (2) NcciQ: the recorded candidate n_ncci of a node with n_nccd <> None is in that node's queues.  This only speaks about
         persistent fields; it is NOT shown invariant here (see the end of the file for exactly what is missing).
   Results:  candq1_of_ncciq (Fresh + NcciQ -> CandQ1), event_step_candq1 (all configurations),
             event_step_class_matrix2c_partial / run_many_class_matrix2c_partial: TrackerInc2b's theorems with the per-event
             hypothesis CandQ1 (selection fields, before every event) replaced by NcciQ of the states BETWEEN events (bookkeeping
             fields only), CandQ1 only of the START state; executable ncciq_run_b with soundness; closed example on cm_cf. *)
From Coq Require Import ZArith List Bool Lia Permutation.
From RecordUpdate Require Import RecordUpdate.
From CiwV Require Import Sx Prelude Routing Sched.
From CiwV.Engine Require Import State2 Engine2 Codec2.
From CiwV.Inv Require Conserve2 Journey2 Renege2 TrackerInc2 TrackerInc2b.
Import ListNotations.
Open Scope Z_scope.

Local Arguments Z.mul : simpl never.
Local Arguments Z.add : simpl never.
Local Arguments Z.sub : simpl never.

(* ---------- 1. what update_next_event_date leaves on a node, as far as class change while waiting goes ---------- *)
Definition NCC (nd : node) : Prop :=
  n_next_type nd = 3 -> nd_inf nd = false /\ n_nccd nd <> None /\ n_next_inds nd = match n_ncci nd with Some i => [i] | None => [] end.
Definition ncc_b (nd : node) : bool :=
  negb (n_next_type nd =? 3) ||
  (negb (nd_inf nd) && match n_nccd nd with Some _ => true | None => false end &&
   match n_next_inds nd, n_ncci nd with [a], Some i => a =? i | [], None => true | _, _ => false end).
Lemma ncc_b_sound nd : ncc_b nd = true -> NCC nd.
Proof.
  unfold ncc_b, NCC. intros H E3. rewrite E3 in H. change (3 =? 3) with true in H. cbn [negb orb] in H.
  apply andb_true_iff in H as [H1 H2]. apply andb_true_iff in H1 as [H0 H1]. apply negb_true_iff in H0. split; [exact H0|].
  split; [destruct (n_nccd nd); [discriminate|discriminate H1]|].
  destruct (n_next_inds nd) as [|a [|b r]], (n_ncci nd) as [i|]; try discriminate H2; [reflexivity|].
  apply Z.eqb_eq in H2. rewrite H2. reflexivity.
Qed.
Definition Fresh (s : sim) : Prop := forall nd, In nd (nodes s) -> NCC nd.
Definition fresh_b (s : sim) : bool := forallb ncc_b (nodes s).
Theorem fresh_b_sound s : fresh_b s = true -> Fresh s.
Proof. unfold fresh_b. rewrite forallb_forall. intros H nd Hnd. apply ncc_b_sound. exact (H nd Hnd). Qed.

Section FreshS.
  Variable cf : config.

  Lemma une_ncc j s s' : update_next_event_date cf j s = Ok (tt, s') ->
    exists nd d l ty, 1 <= j /\ nthZ (nodes s) (j - 1) = Some nd /\
      s' = s <| nodes := updZ (nodes s) (n_id nd - 1) (nd <| n_next_date := d |> <| n_next_inds := l |> <| n_next_type := ty |>) |> /\
      NCC (nd <| n_next_date := d |> <| n_next_inds := l |> <| n_next_type := ty |>).
  Proof.
    intros H. unfold update_next_event_date in H.
    Renege2.minv H nd s1 E1. apply Renege2.get_node_inv in E1 as (-> & Hj & Hn).
    Renege2.minv H nc s1 E2. apply Renege2.ncfg_of_inv in E2 as [-> Hc].
    Renege2.minv H t s1 E3. apply Renege2.tnow_inv in E3 as [-> ->].
    Renege2.minv H il s1 E4. apply Renege2.gets_inv in E4 as [-> ->].
    cbv zeta in H.
    set (es := if nc_slotted nc || nd_inf nd then scan_inds (now s) (all_individuals nd) (inds s) None [] else scan_servers (n_servers nd) None []) in H.
    Renege2.minv H rn s1 E5.
    assert (Hrn : s1 = s).
    { destruct (negb (nd_inf nd) && nc_reneging nc); [apply Renege2.lift_inv in E5 as [_ ->]; reflexivity|apply Renege2.ret_inv in E5 as [_ ->]; reflexivity]. }
    rewrite Hrn in H. clear E5 Hrn s1.
    set (cc := if cf_dyn cf && negb (nd_inf nd) then (n_nccd nd, match n_ncci nd with Some i => [i] | None => [] end) else (None, [])) in H.
    set (sh := match nc_srv nc with
               | SSched _ => [(1, (n_next_shift nd, []))]
               | SSlot sl => [(4, (Some (snd (slot_values sl (Z.to_nat (n_spos nd)))), []))]
               | SFixed => [] end) in H.
    destruct (nc_reneging nc || cf_dyn cf || nc_sched nc) eqn:Eg.
    - destruct (decide_next_event (sh ++ [(0, es); (3, cc); (2, rn)]) (5, (None, []))) as [ty [d l]] eqn:ED.
      unfold put_node in H. apply Renege2.modify_inv in H. exists nd, d, l, ty. split; [exact Hj|]. split; [exact Hn|]. split; [exact H|].
      unfold NCC. cbn. intros Hty.
      pose proof (Renege2.dne_spec (sh ++ [(0, es); (3, cc); (2, rn)]) (5, (None, []))) as D. cbv zeta in D. rewrite ED in D. cbn [fst snd] in D.
      destruct D as (DA & _ & _).
      destruct DA as [DA|(DA & z & Hz)]; [apply (f_equal fst) in DA; cbn in DA; lia|].
      apply in_app_or in DA as [DA|DA].
      { exfalso. unfold sh in DA. destruct (nc_srv nc); [destruct DA|destruct DA as [DA|[]]; apply (f_equal fst) in DA; cbn in DA; lia|destruct DA as [DA|[]]; apply (f_equal fst) in DA; cbn in DA; lia]. }
      destruct DA as [DA|[DA|[DA|[]]]]; [apply (f_equal fst) in DA; cbn in DA; lia| |apply (f_equal fst) in DA; cbn in DA; lia].
      apply (f_equal snd) in DA. cbn in DA. unfold cc in DA. destruct (cf_dyn cf && negb (nd_inf nd)) eqn:G; injection DA as Ed El.
      + apply andb_true_iff in G as [_ G]. apply negb_true_iff in G. split; [exact G|]. split; [rewrite Ed, Hz; discriminate|symmetry; exact El].
      + congruence.
    - unfold put_node in H. apply Renege2.modify_inv in H. exists nd, (fst es), (snd es), 0. split; [exact Hj|]. split; [exact Hn|]. split; [exact H|].
      unfold NCC. cbn. intros Hty. discriminate Hty.
  Qed.
End FreshS.

Section FreshAll.
  Variable cf : config.

  Lemma update_all_ncc : forall js s s', Renege2.Idx s -> update_all cf js s = Ok (tt, s') ->
    Renege2.Idx s' /\ length (nodes s') = length (nodes s) /\
    forall k nd', nth_error (nodes s') k = Some nd' ->
      (In (Z.of_nat k + 1) js -> NCC nd') /\ (~ In (Z.of_nat k + 1) js -> nth_error (nodes s) k = Some nd').
  Proof.
    induction js as [|j r IH]; intros s s' HI H; cbn [update_all] in H.
    - apply Renege2.ret_inv in H as [_ ->]. split; [exact HI|]. split; [reflexivity|]. intros k nd' Hk. split; [intros []|intros _; exact Hk].
    - Renege2.minv H u s1 E. destruct u. destruct (une_ncc cf _ _ _ E) as (nd & d & l & ty & Hj & Hn & -> & HU).
      pose proof (Renege2.Idx_get _ _ _ HI Hj Hn) as Hid.
      set (ndn := nd <| n_next_date := d |> <| n_next_inds := l |> <| n_next_type := ty |>) in *.
      assert (HI1 : Renege2.Idx (s <| nodes := updZ (nodes s) (n_id nd - 1) ndn |>)).
      { unfold Renege2.Idx. cbn [nodes set]. change (n_id nd) with (n_id ndn). apply Renege2.Idx_updZ. exact HI. }
      destruct (IH _ _ HI1 H) as (HI' & HL & HN). split; [exact HI'|]. split; [rewrite HL; cbn [nodes set]; apply Renege2.length_updZ|].
      intros k nd' Hk. destruct (HN k nd' Hk) as (HA & HB). cbn [nodes set] in HB. rewrite Hid in HB.
      split.
      + intros Hin. destruct (in_dec Z.eq_dec (Z.of_nat k + 1) r) as [Hir|Hnin]; [apply HA; exact Hir|].
        destruct Hin as [Hjk|Hir]; [|contradiction]. specialize (HB Hnin). unfold updZ in HB.
        destruct (j - 1 <? 0) eqn:Ej; [apply Z.ltb_lt in Ej; lia|].
        destruct (Renege2.nth_error_upd_cases _ _ _ _ _ HB) as [[_ ->]|[Hne _]]; [exact HU|exfalso; apply Hne; lia].
      + intros Hnot. assert (Hnin : ~ In (Z.of_nat k + 1) r) by (intros X; apply Hnot; right; exact X).
        specialize (HB Hnin). unfold updZ in HB. destruct (j - 1 <? 0) eqn:Ej; [exact HB|].
        destruct (Renege2.nth_error_upd_cases _ _ _ _ _ HB) as [[Hk0 _]|[_ Hk0]]; [exfalso; apply Hnot; left; lia|exact Hk0].
  Qed.

  (* (1) after ANY event of the model (every configuration), every node is fresh *)
  Theorem event_step_fresh s s' : Renege2.Idx s -> event_step cf s = Ok (tt, s') -> Fresh s'.
  Proof.
    intros HI H nd Hnd. destruct (Renege2.event_step_inv _ _ _ H) as (s1 & s2 & E1 & E2 & E3).
    pose proof (Renege2.Idx_have_event _ _ _ HI E1) as HI1.
    destruct (update_all_ncc _ _ _ HI1 E2) as (HI2 & HL & HN).
    destruct (Renege2.find_next_active_node_spec _ _ E3) as (N1 & _). rewrite N1 in Hnd.
    apply In_nth_error in Hnd as [k Hk]. destruct (HN k nd Hk) as (HA & _). apply HA.
    assert (Hlt : (k < length (nodes s1))%nat) by (rewrite <- HL; apply nth_error_Some; congruence).
    destruct (nth_error (nodes s1) k) as [nd0|] eqn:E0; [|apply nth_error_None in E0; lia].
    rewrite <- (HI1 _ _ E0). apply in_map. eapply nth_error_In; eauto.
  Qed.
End FreshAll.

(* ---------- 2. the recorded candidate is in the queue: NcciQ; Fresh + NcciQ give CandQ1 ---------- *)
Definition NcciQ (s : sim) : Prop :=
  forall nd, In nd (nodes s) -> n_nccd nd <> None -> forall i, n_ncci nd = Some i -> In i (all_individuals nd).
Definition ncciq_b (s : sim) : bool :=
  forallb (fun nd => match n_nccd nd, n_ncci nd with Some _, Some i => memZ i (all_individuals nd) | _, _ => true end) (nodes s).
Theorem ncciq_b_sound s : ncciq_b s = true -> NcciQ s.
Proof.
  unfold ncciq_b. rewrite forallb_forall. intros H nd Hnd Hd i Hi. specialize (H nd Hnd). rewrite Hi in H.
  destruct (n_nccd nd); [|congruence]. apply memZ_In. exact H.
Qed.
Theorem candq1_of_ncciq s : Fresh s -> NcciQ s -> TrackerInc2b.CandQ1 s.
Proof.
  intros HF HQ j nd Hnd E3 i Hi. pose proof (TrackerInc2.tk_nthZ_In _ _ _ Hnd) as Hin.
  destruct (HF nd Hin E3) as (_ & Hd & Hl). rewrite Hl in Hi. destruct (n_ncci nd) as [i0|] eqn:Ei; [|discriminate Hi].
  cbn in Hi. injection Hi as <-. exact (HQ nd Hin Hd i0 Ei).
Qed.

Lemma Idx_of_WF s : Conserve2.WFx2 [] s -> Renege2.Idx s.
Proof.
  intros HW k nd Hk. pose proof (Journey2.WFx2_Idx _ _ HW) as HI. apply (HI (Z.of_nat k + 1) nd).
  unfold Journey2.nodeZ. replace (Z.of_nat k + 1 - 1) with (Z.of_nat k) by lia. rewrite Renege2.nthZ_of_nat. exact Hk.
Qed.

(* every configuration: after an event, CandQ1 is exactly as good as the bookkeeping fields *)
Theorem event_step_candq1 cf s s' : Renege2.Idx s -> event_step cf s = Ok (tt, s') -> NcciQ s' -> TrackerInc2b.CandQ1 s'.
Proof. intros HI H HQ. apply candq1_of_ncciq; [exact (event_step_fresh cf s s' HI H)|exact HQ]. Qed.

(* ---------- 3. the NodeClassMatrix theorems with the hypothesis moved to the bookkeeping fields ---------- *)
(* NcciQ of every state reached after an event of the run *)
Fixpoint NcciQ_run (cf : config) (s : sim) (ds : list draws) : Prop :=
  match ds with
  | [] => True
  | d :: r => match event_step cf (s <| dr := d |>) with Ok (_, s1) => NcciQ s1 /\ NcciQ_run cf s1 r | _ => True end
  end.
Fixpoint ncciq_run_b (cf : config) (s : sim) (ds : list draws) : bool :=
  match ds with
  | [] => true
  | d :: r => match event_step cf (s <| dr := d |>) with Ok (_, s1) => ncciq_b s1 && ncciq_run_b cf s1 r | _ => true end
  end.
Theorem ncciq_run_b_sound cf : forall ds s, ncciq_run_b cf s ds = true -> NcciQ_run cf s ds.
Proof.
  induction ds as [|d r IH]; intros s H; cbn [ncciq_run_b NcciQ_run] in *; [exact I|].
  destruct (event_step cf (s <| dr := d |>)) as [[u s1]| |]; [|exact I|exact I].
  apply andb_true_iff in H as [H1 H2]. split; [apply ncciq_b_sound; exact H1|apply IH; exact H2].
Qed.

Lemma candq1_run_of cf : TrackerInc2b.scope_nb cf = true -> forall ds s, TrackerInc2b.InvB cf s -> TrackerInc2b.CandQ1 s ->
  NcciQ_run cf s ds -> TrackerInc2b.CandQ1_run cf s ds.
Proof.
  intros Hsc. induction ds as [|d r IH]; intros s HI HQ HR; cbn [TrackerInc2b.CandQ1_run NcciQ_run] in *; [exact I|].
  assert (HQ0 : TrackerInc2b.CandQ1 (s <| dr := d |>)) by exact HQ. split; [exact HQ0|].
  pose proof (TrackerInc2b.InvB_dr cf s d HI) as HI0.
  destruct (event_step cf (s <| dr := d |>)) as [[[] s1]| |] eqn:E; [|exact I|exact I].
  destruct HR as [HR1 HR2].
  destruct (TrackerInc2b.event_step_class_matrix2_partial cf _ _ Hsc HI0 HQ0 E) as [HI1 _].
  apply IH; [exact HI1| |exact HR2].
  destruct (TrackerInc2b.Inv2_facts cf _ (proj1 HI0)) as (HW & _).
  exact (event_step_candq1 cf _ _ (Idx_of_WF _ HW) E HR1).
Qed.

(* one event: the state after it satisfies CandQ1 again as soon as its bookkeeping fields satisfy NcciQ *)
Theorem event_step_class_matrix2c_partial cf s s' : TrackerInc2b.scope_nb cf = true -> TrackerInc2b.InvB cf s -> TrackerInc2b.CandQ1 s ->
  event_step cf s = Ok (tt, s') ->
  TrackerInc2b.InvB cf s' /\ Fresh s' /\ (NcciQ s' -> TrackerInc2b.CandQ1 s') /\
  forall c j, TrackerInc2b.cntc c s' j - TrackerInc2b.netc c j (TrackerInc2.calls_event_step cf s) = TrackerInc2b.cntc c s j.
Proof.
  intros Hsc HI HQ H. destruct (TrackerInc2b.event_step_class_matrix2_partial cf s s' Hsc HI HQ H) as [HI1 D].
  destruct (TrackerInc2b.Inv2_facts cf _ (proj1 HI)) as (HW & _).
  pose proof (event_step_fresh cf s s' (Idx_of_WF _ HW) H) as HF.
  split; [exact HI1|]. split; [exact HF|]. split; [intros HN; exact (candq1_of_ncciq s' HF HN)|exact D].
Qed.

(* any number of events.  _partial: NcciQ (the recorded class-change candidate of a node is in its queues) of the states between
   the events is assumed, not shown invariant; CandQ1 is needed of the START state only *)
Theorem run_many_class_matrix2c_partial cf : TrackerInc2b.scope_nb cf = true -> forall ds s s', TrackerInc2b.InvB cf s ->
  TrackerInc2b.CandQ1 s -> NcciQ_run cf s ds -> run_many cf s ds = Ok s' ->
  TrackerInc2b.InvB cf s' /\
  (forall c j, TrackerInc2b.cntc c s' j - TrackerInc2b.netc c j (TrackerInc2.calls_many cf s ds) = TrackerInc2b.cntc c s j) /\
  forall m0 m', TrackerInc2.orun TrackerInc2.cm_step (TrackerInc2.calls_many cf s ds) m0 = Some m' ->
    forall j c, TrackerInc2b.entry m0 j c = TrackerInc2b.cntc c s j -> TrackerInc2b.entry m' j c = TrackerInc2b.cntc c s' j.
Proof.
  intros Hsc ds s s' HI HQ HR H.
  exact (TrackerInc2b.run_many_class_matrix2_partial cf Hsc ds s s' HI (candq1_run_of cf Hsc ds s HI HQ HR) H).
Qed.

(* ---------- 4. building block for NcciQ as an invariant: find_next_class_change reads the candidate off the node's own queues ---------- *)
Lemma scan_cc_cand : forall q il best bi d c, scan_cc q il best bi = Some (d, c) -> forall i, c = Some i ->
  bi = Some i \/ (In i q /\ exists x z, find_ind i il = Some x /\ i_ccd x = XV z /\ i_server x = None).
Proof.
  induction q as [|a r IH]; intros il best bi d c H i Hc; cbn [scan_cc] in H.
  - injection H as _ Hb. left. congruence.
  - destruct (find_ind a il) as [x|] eqn:Ex; [|discriminate H]. destruct (i_ccd x) as [| |z] eqn:Ec; [discriminate H| |].
    + destruct (IH _ _ _ _ _ H i Hc) as [E|[Hin Hr]]; [left; exact E|right; split; [right; exact Hin|exact Hr]].
    + destruct (date_lt (Some z) best) eqn:Ed; cbn [andb] in H.
      * destruct (i_server x) as [sv|] eqn:Es.
        -- destruct (IH _ _ _ _ _ H i Hc) as [E|[Hin Hr]]; [left; exact E|right; split; [right; exact Hin|exact Hr]].
        -- destruct (IH _ _ _ _ _ H i Hc) as [E|[Hin Hr]]; [|right; split; [right; exact Hin|exact Hr]].
           injection E as ->. right. split; [left; reflexivity|]. exists x, z. auto.
      * destruct (IH _ _ _ _ _ H i Hc) as [E|[Hin Hr]]; [left; exact E|right; split; [right; exact Hin|exact Hr]].
Qed.
(* the node written by find_next_class_change has a candidate that is in its queues, waits and has a finite class-change date *)
Lemma find_next_class_change_spec j s s' : find_next_class_change j s = Ok (tt, s') ->
  exists nd d c, nthZ (nodes s) (j - 1) = Some nd /\
    s' = s <| nodes := updZ (nodes s) (n_id nd - 1) (nd <| n_nccd := d |> <| n_ncci := c |>) |> /\
    forall i, c = Some i -> In i (all_individuals nd) /\ exists x z, find_ind i (inds s) = Some x /\ i_ccd x = XV z /\ i_server x = None.
Proof.
  intros H. unfold find_next_class_change in H.
  Renege2.minv H nd s1 E1. apply Renege2.get_node_inv in E1 as (-> & Hj & Hn).
  Renege2.minv H il s1 E2. apply Renege2.gets_inv in E2 as [-> ->].
  Renege2.minv H r s1 E3. apply Renege2.lift_inv in E3 as [E3 ->].
  unfold put_node in H. apply Renege2.modify_inv in H. destruct r as [d c]. exists nd, d, c. split; [exact Hn|]. split; [exact H|].
  intros i Hc. destruct (scan_cc_cand _ _ _ _ _ _ E3 i Hc) as [E|HR]; [discriminate E|exact HR].
Qed.

(* WHAT IS MISSING for run_many_class_matrix2 with class-change times and no per-event hypothesis: NcciQ as an invariant of
   have_event (update_all / find_next_active_node do not touch queues, n_nccd, n_ncci).  The only moves that can break it are the
   removals of a customer i from a queue of node j: renege (followed by reset_class_change j i, which re-reads the candidate when it
   was i) and `release`, which does NOT re-read: one has to know that n_ncci of node j is not i.  That needs a record-level
   invariant ("the recorded candidate has no server and a finite class_change_date" -- what find_next_class_change_spec establishes --
   against "a released customer has a server or class_change_date = inf": begin-service calls reset_class_change), which is broken
   between attach_server and reset_class_change inside start_fresh / start_give / start_preemptor and repaired for node j only; that
   no OTHER node names i needs the disjointness of the queues (Conserve2.WFx2) at those intermediate states, i.e. a walk that carries
   conservation, the flight list and this invariant together through release / accept / preempt.  Not done here.
   Outside scope_nb NcciQ is neither proved nor refuted here.  (A tempting counter-scenario does not work in the model: a customer
   interrupted by a pre-emptive shift change is restarted by begin_interrupted_individuals_service WITHOUT reset_class_change, but
   interrupt_service leaves its i_server set, so scan_cc never makes it the candidate.) *)

(* ==== EXAMPLES ==== *)
(* TrackerInc2b's network cm_cf (class-change matrix, class change while waiting, blocking, reneging), 60 events: the start state
   satisfies InvB, Fresh, NcciQ (hence CandQ1); along the run only the bookkeeping fields are checked by computation *)
Example cm_start_ok : TrackerInc2b.invb_b TrackerInc2b.cm_cf TrackerInc2b.nb_an0 [] TrackerInc2b.cm_s0 && fresh_b TrackerInc2b.cm_s0 && ncciq_b TrackerInc2b.cm_s0 = true.
Proof. vm_compute. reflexivity. Qed.
Example cm_run60_c : exists s', run_many TrackerInc2b.cm_cf TrackerInc2b.cm_s0 (repeat TrackerInc2b.cm_d 60) = Ok s' /\
  TrackerInc2b.InvB TrackerInc2b.cm_cf s' /\
  forall c j, TrackerInc2b.cntc c s' j - TrackerInc2b.netc c j (TrackerInc2.calls_many TrackerInc2b.cm_cf TrackerInc2b.cm_s0 (repeat TrackerInc2b.cm_d 60))
              = TrackerInc2b.cntc c TrackerInc2b.cm_s0 j.
Proof.
  destruct (run_many TrackerInc2b.cm_cf TrackerInc2b.cm_s0 (repeat TrackerInc2b.cm_d 60)) as [s'| |] eqn:E; [|vm_compute in E; discriminate|vm_compute in E; discriminate].
  exists s'. split; [reflexivity|].
  assert (H1 : TrackerInc2b.scope_nb TrackerInc2b.cm_cf = true) by (vm_compute; reflexivity).
  assert (H2 : TrackerInc2b.invb_b TrackerInc2b.cm_cf TrackerInc2b.nb_an0 [] TrackerInc2b.cm_s0 = true) by (vm_compute; reflexivity).
  assert (H3 : fresh_b TrackerInc2b.cm_s0 = true) by (vm_compute; reflexivity).
  assert (H4 : ncciq_b TrackerInc2b.cm_s0 = true) by (vm_compute; reflexivity).
  assert (H5 : ncciq_run_b TrackerInc2b.cm_cf TrackerInc2b.cm_s0 (repeat TrackerInc2b.cm_d 60) = true) by (vm_compute; reflexivity).
  destruct (run_many_class_matrix2c_partial TrackerInc2b.cm_cf H1 _ _ _ (TrackerInc2b.invb_b_sound _ _ _ _ H2)
              (candq1_of_ncciq _ (fresh_b_sound _ H3) (ncciq_b_sound _ H4)) (ncciq_run_b_sound _ _ _ H5) E) as (A & B & _).
  auto.
Qed.

Print Assumptions event_step_fresh.
Print Assumptions event_step_candq1.
Print Assumptions event_step_class_matrix2c_partial.
Print Assumptions run_many_class_matrix2c_partial.
Print Assumptions ncciq_run_b_sound.
Print Assumptions cm_run60_c.

(* ExitGrows.v -- T2 for the last clause of C01 on the engine model: a customer that has reached the exit never reappears.
   Every engine function only ever appends to the exit list and never lowers the creation counter; with conservation
   (Conserve.v: nobody is in two places) a customer at the exit is therefore in no node, now and after any number of events. *)
From Coq Require Import ZArith List Bool Lia Permutation.
From RecordUpdate Require Import RecordUpdate.
From CiwV Require Import Sx Prelude Routing.
From CiwV.Engine Require Import State Engine Codec.
From CiwV.Inv Require Import Frame Conserve ConserveRun.
Import ListNotations.
Open Scope Z_scope.

Definition ext (s s' : sim) : Prop := (exists t, exit_ids s' = exit_ids s ++ t) /\ a_created (arr s) <= a_created (arr s').
Lemma ext_refl s : ext s s. Proof. split; [exists []; rewrite app_nil_r; reflexivity|lia]. Qed.
Lemma ext_trans a b c : ext a b -> ext b c -> ext a c.
Proof. intros [[t1 E1] L1] [[t2 E2] L2]. split; [exists (t1 ++ t2); rewrite E2, E1, app_assoc; reflexivity|lia]. Qed.

Definition grows {A} (m : M A) : Prop := forall s a s', m s = Ok (a, s') -> ext s s'.
Lemma grows_ret {A} (a : A) : grows (ret a). Proof. intros s a0 s' H; inversion H; apply ext_refl. Qed.
Lemma grows_fail {A} e : grows (@fail A e). Proof. intros s a s' H; discriminate. Qed.
Lemma grows_bind {A B} (m : M A) (f : A -> M B) : grows m -> (forall a, grows (f a)) -> grows (bind m f).
Proof.
  intros Hm Hf s b s' H. unfold bind in H. destruct (m s) as [[a s1]| |] eqn:E; try discriminate.
  eapply ext_trans; [eapply Hm; eauto|eapply Hf; eauto].
Qed.
Lemma grows_gets {A} (f : sim -> A) : grows (gets f). Proof. intros s a s' H; inversion H; apply ext_refl. Qed.
Lemma grows_lift {A} e (o : option A) : grows (lift e o). Proof. destruct o; [apply grows_ret|apply grows_fail]. Qed.
Lemma grows_modify (f : sim -> sim) : (forall s, ext s (f s)) -> grows (modify f).
Proof. intros Hf s a s' H. inversion H. apply Hf. Qed.
Lemma grows_same (f : sim -> sim) : (forall s, exit_ids (f s) = exit_ids s /\ a_created (arr (f s)) = a_created (arr s)) -> grows (modify f).
Proof. intros Hf. apply grows_modify. intros s. destruct (Hf s) as [A B]. split; [exists []; rewrite A, app_nil_r; reflexivity|lia]. Qed.
Lemma grows_get_node j : grows (get_node j).
Proof. intros s a s' H. unfold get_node in H. destruct (nthZ (nodes s) (j - 1)); inversion H; apply ext_refl. Qed.
Lemma grows_get_ind i : grows (get_ind i).
Proof. intros s a s' H. unfold get_ind in H. destruct (find_ind i (inds s)); inversion H; apply ext_refl. Qed.
Lemma grows_put_node nd : grows (put_node nd). Proof. apply grows_same. intros s. split; reflexivity. Qed.
Lemma grows_put_ind x : grows (put_ind x). Proof. apply grows_same. intros s. split; reflexivity. Qed.
Lemma grows_del_ind i : grows (del_ind i). Proof. apply grows_same. intros s. split; reflexivity. Qed.
Lemma grows_log_rec r : grows (log_rec r). Proof. apply grows_same. intros s. split; reflexivity. Qed.
Lemma grows_draw_arr : grows draw_arr.
Proof. intros s a s' H. unfold draw_arr in H. destruct (d_arr (dr s)); inversion H. split; [exists []; cbn; rewrite app_nil_r; reflexivity|cbn; lia]. Qed.
Lemma grows_draw_batch : grows draw_batch.
Proof. intros s a s' H. unfold draw_batch in H. destruct (d_batch (dr s)); inversion H. split; [exists []; cbn; rewrite app_nil_r; reflexivity|cbn; lia]. Qed.
Lemma grows_draw_svc : grows draw_svc.
Proof. intros s a s' H. unfold draw_svc in H. destruct (d_svc (dr s)); inversion H. split; [exists []; cbn; rewrite app_nil_r; reflexivity|cbn; lia]. Qed.
Lemma grows_draw_unif : grows draw_unif.
Proof. intros s a s' H. unfold draw_unif in H. destruct (d_unif (dr s)); inversion H. split; [exists []; cbn; rewrite app_nil_r; reflexivity|cbn; lia]. Qed.

Ltac g_step :=
  first
    [ apply grows_ret | apply grows_fail | apply grows_gets | apply grows_lift | apply grows_get_node | apply grows_get_ind
    | apply grows_put_node | apply grows_put_ind | apply grows_del_ind | apply grows_log_rec
    | apply grows_draw_arr | apply grows_draw_batch | apply grows_draw_svc | apply grows_draw_unif
    | (apply grows_bind; [|intros])
    | match goal with
      | |- grows (if ?b then _ else _) => destruct b
      | |- grows (match ?x with _ => _ end) => destruct x
      | |- grows (let '(_, _) := ?x in _) => destruct x
      end ].

Section ExitGrows.
  Variable cf : config.
  Lemma g_ncfg_of j : grows (ncfg_of cf j). Proof. apply grows_lift. Qed.
  Lemma g_is_inf j : grows (is_inf cf j). Proof. unfold is_inf. apply grows_bind; [apply g_ncfg_of|intros; apply grows_ret]. Qed.
  Lemma g_choice_uniform {A} (l : list A) : grows (choice_uniform l). Proof. unfold choice_uniform. repeat g_step. Qed.
  Lemma g_choice_weighted den P : grows (choice_weighted den P). Proof. unfold choice_weighted. repeat g_step. Qed.
  Lemma g_choose_next_customer nd : grows (choose_next_customer cf nd).
  Proof. unfold choose_next_customer. repeat first [apply g_ncfg_of | apply g_choice_uniform | g_step]. Qed.
  Lemma g_start_service j i srv : grows (start_service j i srv). Proof. unfold start_service. repeat g_step. Qed.
  Lemma g_bsip_accept j i : grows (begin_service_if_possible_accept cf j i).
  Proof. unfold begin_service_if_possible_accept. repeat first [apply g_is_inf | apply g_choose_next_customer | apply g_start_service | g_step]. Qed.
  Lemma g_accept j x : grows (accept cf j x). Proof. unfold accept. repeat first [apply g_bsip_accept | g_step]. Qed.
  Lemma g_exit_accept x c : grows (exit_accept x c).
  Proof.
    unfold exit_accept. apply grows_bind; [apply grows_del_ind|]. intros _. apply grows_modify. intros s.
    split; [exists [i_id x]; reflexivity|cbn; lia].
  Qed.
  Lemma g_write_individual_record j x : grows (write_individual_record cf j x).
  Proof. unfold write_individual_record. repeat first [apply g_is_inf | g_step]. Qed.
  Lemma g_write_br_record j x ty : grows (write_br_record j x ty). Proof. unfold write_br_record. repeat g_step. Qed.
  Lemma g_bsip_release j freed : grows (begin_service_if_possible_release cf j freed).
  Proof. unfold begin_service_if_possible_release. repeat first [apply g_choose_next_customer | apply g_start_service | g_step]. Qed.
  Lemma g_block_individual j i d : grows (block_individual j i d). Proof. unfold block_individual. repeat g_step. Qed.
  Lemma g_release : forall f j i d, grows (release cf f j i d).
  Proof.
    induction f as [|f IH]; intros j i d; cbn [release]; [intros s a s' H; discriminate|].
    repeat first [ apply IH | apply g_is_inf | apply g_ncfg_of | apply g_write_individual_record | apply g_bsip_release
                 | apply g_exit_accept | apply g_accept | g_step ].
  Qed.
  Lemma g_finish_service j : grows (finish_service cf j).
  Proof.
    unfold finish_service.
    repeat first [ apply g_release | apply g_block_individual | apply g_is_inf | apply g_ncfg_of | apply g_choice_uniform | apply g_choice_weighted | g_step ].
  Qed.
  Lemma g_sys_population : grows sys_population. Proof. unfold sys_population. repeat g_step. Qed.
  Lemma g_release_individual j x : grows (release_individual cf j x).
  Proof.
    unfold release_individual.
    repeat first [ apply g_sys_population | apply g_ncfg_of | apply g_write_br_record | apply g_exit_accept | apply g_accept
                 | (apply grows_same; intros ?; split; reflexivity) | g_step ].
  Qed.
  Lemma g_batch_loop : forall n j c p, grows (batch_loop cf n j c p).
  Proof.
    induction n as [|n IH]; intros j c p; cbn [batch_loop]; [apply grows_ret|].
    apply grows_bind; [apply grows_modify; intros s; split; [exists []; cbn; rewrite app_nil_r; reflexivity|cbn; lia]|]. intros _.
    apply grows_bind; [apply grows_gets|]. intros i.
    apply grows_bind; [apply g_release_individual|]. intros _. apply IH.
  Qed.
  Lemma g_find_next_event_date : grows find_next_event_date.
  Proof. apply grows_same. intros s. destruct (find_min_dates 1 (a_dates (arr s)) (None, 0, 0)) as [[d j] c]. split; reflexivity. Qed.
  Lemma g_arrival_have_event : grows (arrival_have_event cf).
  Proof.
    unfold arrival_have_event.
    repeat first [ apply g_batch_loop | apply g_find_next_event_date | (apply grows_same; intros ?; split; reflexivity) | g_step ].
  Qed.
  Lemma g_update_next_event_date j : grows (update_next_event_date cf j).
  Proof. unfold update_next_event_date. repeat first [apply g_is_inf | g_step]. Qed.
  Lemma g_update_all js : grows (update_all cf js).
  Proof. induction js as [|j r IH]; cbn [update_all]; [apply grows_ret|]. apply grows_bind; [apply g_update_next_event_date|intros; exact IH]. Qed.
  Lemma g_find_next_active_node : grows find_next_active_node.
  Proof.
    unfold find_next_active_node. apply grows_bind; [apply grows_gets|]. intros s0.
    destruct (scan_active 0 (a_next_date (arr s0) :: map n_next_date (nodes s0)) None [] true) as [d cands].
    apply grows_bind; [destruct cands as [|a [|b r]]; [apply grows_fail|apply grows_ret|apply g_choice_uniform]|].
    intros k. apply grows_same. intros s. split; reflexivity.
  Qed.

  Theorem event_step_grows : grows (event_step cf).
  Proof.
    unfold event_step.
    repeat first [ apply g_arrival_have_event | apply g_finish_service | apply g_update_all | apply g_find_next_active_node
                 | (apply grows_same; intros ?; split; reflexivity) | g_step ].
  Qed.

  Theorem run_many_grows : forall ds s s', run_many cf s ds = Ok s' -> ext s s'.
  Proof.
    induction ds as [|d r IH]; intros s s' H; cbn [run_many] in H; [inversion H; apply ext_refl|].
    destruct (event_step cf (s <| dr := d |>)) as [[u s1]| |] eqn:E; try discriminate.
    eapply ext_trans; [|eapply IH; exact H]. pose proof (event_step_grows _ _ _ E) as G. exact G.
  Qed.

  (* C01, last clause: a customer at the exit stays at the exit and is in no service node, after any number of events *)
  Theorem exit_is_permanent : forall ds s s' x, WFx [] s -> run_many cf s ds = Ok s' -> In x (exit_ids s) ->
    In x (exit_ids s') /\ forall nd, In nd (nodes s') -> ~ In x (all_individuals nd).
  Proof.
    intros ds s s' x HW H Hx.
    destruct (run_many_grows _ _ _ H) as [[t Et] _].
    assert (Hx' : In x (exit_ids s')) by (rewrite Et; apply in_or_app; auto).
    split; [exact Hx'|]. intros nd Hnd Hin.
    pose proof (run_many_conserves cf ds s s' HW H) as W'.
    destruct (WFx_means _ W') as (_ & Hnd' & _).
    unfold ids_of in Hnd'.
    (* x occurs both among the queued customers and at the exit: contradicts NoDup *)
    assert (Hq : In x (concat (map all_individuals (nodes s')))) by (apply in_concat; exists (all_individuals nd); split; [apply in_map; exact Hnd|exact Hin]).
    clear -Hnd' Hq Hx'. induction (concat (map all_individuals (nodes s'))) as [|a l IH]; [destruct Hq|].
    cbn in Hnd'. inversion Hnd' as [|? ? Hn Hd]; subst. destruct Hq as [->|Hq].
    - apply Hn. apply in_or_app. right. exact Hx'.
    - apply IH; assumption.
  Qed.
End ExitGrows.

(* Route.v -- T2 for C09 on the engine model (stage 1: transition matrices and class-change matrices): at a service
   completion the customer's new class has positive probability in the class-change row of its old class, and the
   destination (a node, or the exit) has positive probability in the routing row of its (new) class at that node --
   for every configuration with non-negative rows and every oracle whose uniform draws are > 0.  (A draw of exactly 0
   is finding F-09a: Routing.rc_weighted_refuted_at_zero.)  The customer is then released towards exactly that
   destination, or blocked towards it. *)
From Coq Require Import ZArith List Bool Lia.
From RecordUpdate Require Import RecordUpdate.
From CiwV Require Import Sx Prelude Routing.
From CiwV.Engine Require Import State Engine Codec.
From CiwV.Inv Require Import Frame Conserve.
Import ListNotations.
Open Scope Z_scope.

Definition upos (s : sim) : Prop := Forall (fun u => 0 < u) (d_unif (dr s)).

Lemma draw_unif_pos s u s' : upos s -> draw_unif s = Ok (u, s') ->
  0 < u /\ upos s' /\ inds s' = inds s /\ nodes s' = nodes s /\ now s' = now s.
Proof.
  unfold upos, draw_unif. intros Hp H. destruct (d_unif (dr s)) as [|v r] eqn:E; [discriminate|]. inversion H. subst.
  inversion Hp; subst. cbn. auto.
Qed.

Lemma choice_weighted_pos den P s k s' : 0 < den -> Forall (fun p => 0 <= p) P -> upos s -> choice_weighted den P s = Ok (k, s') ->
  (k < length P)%nat /\ 0 < nth k P 0 /\ upos s' /\ inds s' = inds s /\ nodes s' = nodes s /\ now s' = now s.
Proof.
  intros Hden HP Hu H. unfold choice_weighted in H. destruct P as [|p0 rest]; [discriminate H|].
  destruct ((negb (Nat.eqb (length rest) 0)) && all_zero (removelast (p0 :: rest)) && (last (p0 :: rest) 0 =? den)) eqn:Esc.
  - inversion H. subst.
    assert (R : rc_weighted den (p0 :: rest) 1 = Some (length rest, false)) by (unfold rc_weighted; rewrite Esc; reflexivity).
    destruct (rc_weighted_positive den (p0 :: rest) 1 _ _ Hden ltac:(lia) HP R) as [A B]. repeat split; auto.
  - unfold bind in H. destruct (draw_unif s) as [[u s1]| |] eqn:Ed; try discriminate.
    destruct (draw_unif_pos _ _ _ Hu Ed) as (Hpos & Hu1 & Hi & Hn & Ht).
    destruct (rc_loop den u p0 rest 0) as [i|] eqn:El; [|discriminate H]. inversion H. subst.
    assert (R : rc_weighted den (p0 :: rest) u = Some (k, true)) by (unfold rc_weighted; rewrite Esc, El; reflexivity).
    destruct (rc_weighted_positive den (p0 :: rest) u _ _ Hden Hpos HP R) as [A B]. repeat split; auto; congruence.
Qed.

Lemma choice_uniform_pos {A} (l : list A) s a s' : upos s -> choice_uniform l s = Ok (a, s') ->
  upos s' /\ inds s' = inds s /\ nodes s' = nodes s /\ now s' = now s.
Proof.
  intros Hu H. unfold choice_uniform, bind in H. destruct (draw_unif s) as [[u s1]| |] eqn:Ed; try discriminate.
  destruct (draw_unif_pos _ _ _ Hu Ed) as (_ & Hu1 & Hi & Hn & Ht).
  unfold lift in H. destruct (nth_error l _); inversion H. subst. auto.
Qed.

(* a configuration whose probability rows are non-negative and whose routing rows sum to at most 1 (= 8 eighths) *)
Definition rows_ok (cf : config) : Prop :=
  (forall rows row, In rows (cf_tm cf) -> In row rows -> Forall (fun p => 0 <= p) row /\ zsum row <= 8) /\
  (forall nc m row, In nc (cf_nodes cf) -> nc_ccm nc = Some m -> In row m -> Forall (fun p => 0 <= p) row).
Definition rows_ok_b (cf : config) : bool :=
  forallb (forallb (fun row => forallb (fun p => 0 <=? p) row && (zsum row <=? 8))) (cf_tm cf)
  && forallb (fun nc => match nc_ccm nc with Some m => forallb (forallb (fun p => 0 <=? p)) m | None => true end) (cf_nodes cf).
Lemma rows_ok_b_sound cf : rows_ok_b cf = true -> rows_ok cf.
Proof.
  unfold rows_ok_b, rows_ok. intros H. apply andb_true_iff in H as [H1 H2]. rewrite forallb_forall in H1, H2. split.
  - intros rows row Hr Hw. specialize (H1 _ Hr). rewrite forallb_forall in H1. specialize (H1 _ Hw). apply andb_true_iff in H1 as [A B].
    split; [apply Forall_forall; intros p Hp; rewrite forallb_forall in A; apply Z.leb_le; auto|apply Z.leb_le; exact B].
  - intros nc m row Hn Hm Hw. specialize (H2 _ Hn). rewrite Hm in H2. rewrite forallb_forall in H2. specialize (H2 _ Hw).
    apply Forall_forall. intros p Hp. rewrite forallb_forall in H2. apply Z.leb_le. auto.
Qed.

Lemma nthZ_In {A} (l : list A) i x : nthZ l i = Some x -> In x l.
Proof. unfold nthZ. destruct (i <? 0); [discriminate|]. apply nth_error_In. Qed.

Section Route.
  Variable cf : config.
  Hypothesis Hrows : rows_ok cf.

  Theorem finish_service_route j s s' : upos s -> finish_service cf j s = Ok (tt, s') ->
    exists i x c' d s1 nc,
      (* the finishing customer, as it stood before the event *)
      find_ind i (inds s) = Some x /\ nthZ (cf_nodes cf) (j - 1) = Some nc /\
      (* class change: none without a matrix; otherwise to a class of positive probability in the row of the old class *)
      (match nc_ccm nc with
       | None => c' = i_cls x
       | Some m => exists row, nthZ m (i_cls x) = Some row /\ 0 <= c' /\ (Z.to_nat c' < length row)%nat /\ 0 < nth (Z.to_nat c') row 0
       end) /\
      (* routing: a node of positive probability in the row of the new class at this node, or the exit with positive remainder *)
      (exists rows row, nthZ (cf_tm cf) c' = Some rows /\ nthZ rows (j - 1) = Some row /\
         ((1 <= d /\ (Z.to_nat (d - 1) < length row)%nat /\ 0 < nth (Z.to_nat (d - 1)) row 0) \/ (d = 0 /\ 0 < 8 - zsum row))) /\
      (* and that is where the customer goes: released towards d at once, or blocked towards d *)
      ((exists f, release cf f j i d s1 = Ok (tt, s')) \/ block_individual j i d s1 = Ok (tt, s')).
  Proof.
    intros Hu H. unfold finish_service in H.
    unfold bind at 1 in H. destruct (get_node j s) as [[nd s0]| |] eqn:E0; try discriminate. apply get_node_spec in E0 as [-> Hn].
    unfold bind at 1 in H.
    match type of H with match ?m s with _ => _ end = _ => destruct (m s) as [[i sa]| |] eqn:Ei; try discriminate end.
    assert (Ha : upos sa /\ inds sa = inds s /\ nodes sa = nodes s /\ now sa = now s).
    { destruct (n_next_inds nd) as [|a0 [|b0 r0]]; [discriminate Ei|inversion Ei; subst; auto|eapply choice_uniform_pos; eauto]. }
    destruct Ha as (Hua & Hia & Hna & Hta). clear Ei.
    unfold bind at 1 in H. destruct (get_ind i sa) as [[x sb]| |] eqn:Ex; try discriminate.
    assert (Hfx : find_ind i (inds s) = Some x) by (unfold get_ind in Ex; rewrite Hia in Ex; destruct (find_ind i (inds s)); inversion Ex; reflexivity).
    apply get_ind_id in Ex as [-> Hid].
    unfold bind at 1 in H. unfold ncfg_of at 1 in H. destruct (nthZ (cf_nodes cf) (j - 1)) as [nc|] eqn:Enc; [|discriminate H]. cbn [lift ret] in H.
    unfold bind at 1 in H.
    match type of H with match ?m sa with _ => _ end = _ => destruct (m sa) as [[x1 sc]| |] eqn:Ec; try discriminate end.
    assert (Hc : upos sc /\ inds sc = inds sa /\ nodes sc = nodes sa /\ now sc = now sa /\
                 match nc_ccm nc with
                 | None => i_cls x1 = i_cls x
                 | Some m => exists row, nthZ m (i_cls x) = Some row /\ 0 <= i_cls x1 /\ (Z.to_nat (i_cls x1) < length row)%nat /\ 0 < nth (Z.to_nat (i_cls x1)) row 0
                 end).
    { destruct (nc_ccm nc) as [m|] eqn:Em.
      - unfold bind at 1 in Ec. destruct (nthZ m (i_cls x)) as [row|] eqn:Erow; [|discriminate Ec]. cbn [lift ret] in Ec.
        unfold bind at 1 in Ec. destruct (choice_weighted 8 row sa) as [[k sk]| |] eqn:Ek; try discriminate.
        assert (Hrow : Forall (fun p => 0 <= p) row) by (eapply (proj2 Hrows nc m row); [eapply nthZ_In; eauto|exact Em|eapply nthZ_In; eauto]).
        destruct (choice_weighted_pos 8 row _ _ _ ltac:(lia) Hrow Hua Ek) as (K1 & K2 & K3 & K4 & K5 & K6).
        unfold bind at 1 in Ec. destruct (nthZ (cf_prio cf) (Z.of_nat k)) as [p'|]; [|discriminate Ec]. cbn [lift ret] in Ec.
        inversion Ec. subst. cbn. rewrite Nat2Z.id. split; [exact K3|]. split; [exact K4|]. split; [exact K5|]. split; [exact K6|].
        exists row. split; [reflexivity|]. split; [lia|]. split; assumption.
      - inversion Ec. subst. auto. }
    destruct Hc as (Huc & Hic & Hnc & Htc & Hcls). clear Ec.
    unfold bind at 1 in H. destruct (nthZ (cf_tm cf) (i_cls x1)) as [rows|] eqn:Erows; [|discriminate H]. cbn [lift ret] in H.
    unfold bind at 1 in H. destruct (nthZ rows (j - 1)) as [row|] eqn:Erow; [|discriminate H]. cbn [lift ret] in H.
    unfold bind at 1 in H. destruct (choice_weighted 8 (row ++ [8 - zsum row]) sc) as [[k sk]| |] eqn:Ek; try discriminate.
    destruct (proj1 Hrows rows row (nthZ_In _ _ _ Erows) (nthZ_In _ _ _ Erow)) as [Hr1 Hr2].
    assert (Hrow' : Forall (fun p => 0 <= p) (row ++ [8 - zsum row])) by (apply Forall_app; split; [exact Hr1|constructor; [lia|constructor]]).
    destruct (choice_weighted_pos 8 _ _ _ _ ltac:(lia) Hrow' Huc Ek) as (K1 & K2 & K3 & K4 & K5 & K6).
    set (d := if Nat.ltb k (length row) then Z.of_nat k + 1 else 0) in *.
    assert (Hd : (1 <= d /\ (Z.to_nat (d - 1) < length row)%nat /\ 0 < nth (Z.to_nat (d - 1)) row 0) \/ (d = 0 /\ 0 < 8 - zsum row)).
    { subst d. destruct (Nat.ltb k (length row)) eqn:El.
      - apply Nat.ltb_lt in El. left. replace (Z.to_nat (Z.of_nat k + 1 - 1)) with k by lia. split; [lia|]. split; [exact El|].
        rewrite app_nth1 in K2 by exact El. exact K2.
      - apply Nat.ltb_ge in El. right. split; [reflexivity|]. rewrite app_length in K1. cbn in K1.
        assert (k = length row) by lia. subst k. rewrite app_nth2 in K2 by lia. rewrite Nat.sub_diag in K2. exact K2. }
    unfold bind at 1 in H. unfold put_ind at 1, modify at 1 in H.
    unfold bind at 1 in H.
    match type of H with match is_inf cf j ?sx with _ => _ end = _ => destruct (is_inf cf j sx) as [[inf sy]| |] eqn:Einf; try discriminate; apply ro_is_inf in Einf; subst sy end.
    unfold bind at 1 in H.
    match type of H with match ?m ?sx with _ => _ end = _ => destruct (m sx) as [[[] sd]| |] eqn:Esv; try discriminate end. clear Esv.
    unfold bind at 1 in H.
    match type of H with match ?m sd with _ => _ end = _ => destruct (m sd) as [[space se]| |] eqn:Esp; try discriminate end.
    assert (Hse : se = sd).
    { destruct (d =? 0); [inversion Esp; reflexivity|].
      unfold bind at 1 in Esp. destruct (get_node d sd) as [[dn sf]| |] eqn:Ed; try discriminate. apply get_node_spec in Ed as [-> _].
      unfold bind at 1 in Esp. unfold ncfg_of in Esp. destruct (nthZ (cf_nodes cf) (d - 1)); [|discriminate Esp]. inversion Esp. reflexivity. }
    subst se. clear Esp.
    exists i, x, (i_cls x1), d, sd, nc. split; [exact Hfx|]. split; [reflexivity|]. split; [exact Hcls|].
    split; [exists rows, row; split; [exact Erows|split; [exact Erow|exact Hd]]|].
    destruct space.
    - unfold bind at 1 in H. unfold gets at 1 in H. left. eexists. exact H.
    - right. exact H.
  Qed.
End Route.

Print Assumptions finish_service_route.
Print Assumptions rows_ok_b_sound.

(* Clock.v -- T2 for C02 (first sentence) on the engine model: simulated time never decreases, each event is executed
   exactly at its scheduled date, and no event is scheduled in the past -- for every configuration, every state
   satisfying the invariant Clk, every oracle whose service times and inter-arrival times are >= 0, and any number of
   events.  What makes it true: every date written during an event is now + (a draw >= 0) or an old date + (a draw >= 0),
   every node recomputes its next date as the minimum of its servers' end dates (or of the customers' end dates that
   pass the explicit guard now <= end, for infinite-server nodes), and the clock moves to the minimum of all node dates. *)
From Coq Require Import ZArith List Bool Lia.
From RecordUpdate Require Import RecordUpdate.
From CiwV Require Import Sx Prelude Routing.
From CiwV.Engine Require Import State Engine Codec.
From CiwV.Inv Require Import Frame Conserve ConserveRun.
Import ListNotations.
Open Scope Z_scope.

(* ---------- dates: None is +infinity ---------- *)
Definition dle (a b : option Z) : Prop :=
  match a, b with _, None => True | None, Some _ => False | Some x, Some y => x <= y end.
Lemma dle_refl a : dle a a.
Proof. destruct a; cbn; [lia|exact I]. Qed.
Lemma dle_trans a b c : dle a b -> dle b c -> dle a c.
Proof. destruct a, b, c; cbn; try tauto; lia. Qed.
Lemma dle_None a : dle None a -> a = None.
Proof. destruct a; cbn; [tauto|reflexivity]. Qed.
Lemma date_lt_dle a b : date_lt a b = true -> dle a b.
Proof. destruct a, b; cbn; intros H; try discriminate; try exact I. apply Z.ltb_lt in H. lia. Qed.
Lemma date_nlt_dle a b : date_lt a b = false -> dle b a.
Proof. destruct a, b; cbn; intros H; try discriminate; try exact I. apply Z.ltb_ge in H. lia. Qed.
Lemma date_eqb_eq a b : date_eqb a b = true -> a = b.
Proof. destruct a, b; cbn; intros H; try discriminate; [apply Z.eqb_eq in H; congruence|reflexivity]. Qed.

Definition dleb (a b : option Z) : bool :=
  match a, b with _, None => true | None, Some _ => false | Some x, Some y => x <=? y end.
Lemma dleb_dle a b : dleb a b = true -> dle a b.
Proof. destruct a, b; cbn; intros H; try discriminate; try exact I. apply Z.leb_le. exact H. Qed.

(* ---------- list facts ---------- *)
Lemma nth_error_upd_cases {A} (l : list A) k0 y k x :
  nth_error (upd l k0 y) k = Some x -> (k = k0 /\ x = y) \/ (k <> k0 /\ nth_error l k = Some x).
Proof.
  revert k0 k; induction l as [|a l IH]; intros [|k0] [|k] H; cbn in *; try discriminate.
  - injection H as <-. left. auto.
  - right. split; [lia|exact H].
  - right. split; [lia|exact H].
  - destruct (IH _ _ H) as [[-> ->]|[Hne Hk]]; [left; auto|right; split; [lia|exact Hk]].
Qed.
Lemma In_upd {A} (l : list A) k y x : In x (upd l k y) -> x = y \/ In x l.
Proof.
  intros H. apply In_nth_error in H as [n Hn]. destruct (nth_error_upd_cases _ _ _ _ _ Hn) as [[_ ->]|[_ Hk]]; [left; reflexivity|].
  right. eapply nth_error_In; eauto.
Qed.
Lemma In_updZ {A} (l : list A) k y x : In x (updZ l k y) -> x = y \/ In x l.
Proof. unfold updZ. destruct (k <? 0); [auto|apply In_upd]. Qed.
Lemma nthZ_In {A} (l : list A) k x : nthZ l k = Some x -> In x l.
Proof. unfold nthZ. destruct (k <? 0); [discriminate|apply nth_error_In]. Qed.
Lemma find_server_In i l sv : find_server i l = Some sv -> In sv l.
Proof.
  induction l as [|y r IH]; cbn; [discriminate|]. destruct (sv_id y =? i); [intros H; injection H as <-; left; reflexivity|].
  intros H. right. auto.
Qed.
Lemma Forall_put_server (P : server -> Prop) sv l : Forall P l -> P sv -> Forall P (put_server_l sv l).
Proof.
  intros H Hs. induction l as [|y r IH]; cbn; [constructor|]. inversion H as [|? ? Hy Hr]; subst.
  destruct (sv_id y =? sv_id sv); constructor; auto.
Qed.

(* ---------- the minimum scans: the result is a lower bound of everything scanned and is one of the candidates ---------- *)
Lemma scan_servers_spec : forall l best acc d cs, scan_servers l best acc = (d, cs) ->
  dle d best /\ Forall (fun sv => dle d (sv_next_end sv)) l /\ (d = best \/ exists sv, In sv l /\ d = sv_next_end sv).
Proof.
  induction l as [|sv r IH]; intros best acc d cs H; cbn [scan_servers] in H.
  - inversion H. subst. split; [apply dle_refl|split; [constructor|left; reflexivity]].
  - destruct (date_lt (sv_next_end sv) best) eqn:E1.
    + destruct (IH _ _ _ _ H) as (A & B & C). split; [eapply dle_trans; [exact A|apply date_lt_dle; exact E1]|]. split; [constructor; assumption|].
      right. destruct C as [->|(sv' & Hin & ->)]; [exists sv; split; [left; reflexivity|reflexivity]|exists sv'; split; [right; exact Hin|reflexivity]].
    + assert (Hb : dle best (sv_next_end sv)) by (apply date_nlt_dle; exact E1).
      assert (G : forall acc', scan_servers r best acc' = (d, cs) ->
                  dle d best /\ Forall (fun sv0 => dle d (sv_next_end sv0)) (sv :: r) /\ (d = best \/ exists sv0, In sv0 (sv :: r) /\ d = sv_next_end sv0)).
      { intros acc' H'. destruct (IH _ _ _ _ H') as (A & B & C). split; [exact A|]. split; [constructor; [eapply dle_trans; eauto|exact B]|].
        destruct C as [->|(sv' & Hin & ->)]; [left; reflexivity|right; exists sv'; split; [right; exact Hin|reflexivity]]. }
      destruct (date_eqb (sv_next_end sv) best && match best with Some _ => true | None => false end); eapply G; exact H.
Qed.

Lemma scan_inds_ge : forall q t il best acc d cs, scan_inds t q il best acc = (d, cs) -> dle (Some t) best -> dle (Some t) d.
Proof.
  induction q as [|i r IH]; intros t il best acc d cs H Hb; cbn [scan_inds] in H.
  - inversion H. subst. exact Hb.
  - destruct (find_ind i il) as [x|]; [|eapply IH; eauto].
    destruct (i_send x) as [e|]; [|eapply IH; eauto].
    destruct (negb (i_blocked x) && (t <=? e)) eqn:Eg; [|eapply IH; eauto].
    apply andb_true_iff in Eg as [_ Eg]. apply Z.leb_le in Eg.
    destruct (date_lt (Some e) best); [eapply IH; [exact H|cbn; exact Eg]|].
    destruct (date_eqb (Some e) best); eapply IH; eauto.
Qed.

Lemma scan_active_spec : forall ds k0 best acc fst0 d cands, scan_active k0 ds best acc fst0 = (d, cands) ->
  dle d best /\ Forall (dle d) ds /\
  (forall k, In k cands -> (In k acc /\ d = best) \/ exists n, k = k0 + Z.of_nat n /\ nth_error ds n = Some d).
Proof.
  induction ds as [|x r IH]; intros k0 best acc fst0 d cands H; cbn [scan_active] in H.
  - inversion H. subst. split; [apply dle_refl|split; [constructor|]]. intros k Hk. left. auto.
  - destruct (date_lt x best) eqn:E1.
    + destruct (IH _ _ _ _ _ _ H) as (A & B & C). split; [eapply dle_trans; [exact A|apply date_lt_dle; exact E1]|]. split; [constructor; assumption|].
      intros k Hk. right. destruct (C k Hk) as [[Hin ->]|(n & -> & Hn)].
      * destruct Hin as [<-|[]]. exists 0%nat. split; [lia|reflexivity].
      * exists (S n). split; [lia|exact Hn].
    + assert (Hb : dle best x) by (apply date_nlt_dle; exact E1).
      destruct (date_eqb x best) eqn:E2.
      * apply date_eqb_eq in E2. subst x.
        destruct (IH _ _ _ _ _ _ H) as (A & B & C). split; [exact A|]. split; [constructor; assumption|].
        intros k Hk. destruct (C k Hk) as [[Hin ->]|(n & -> & Hn)].
        -- apply in_app_or in Hin as [Hin|[<-|[]]]; [left; auto|right; exists 0%nat; split; [lia|reflexivity]].
        -- right. exists (S n). split; [lia|exact Hn].
      * destruct (IH _ _ _ _ _ _ H) as (A & B & C). split; [exact A|]. split; [constructor; [eapply dle_trans; eauto|exact B]|].
        intros k Hk. destruct (C k Hk) as [[Hin ->]|(n & -> & Hn)]; [left; auto|right; exists (S n); split; [lia|exact Hn]].
Qed.

(* find_min_row / find_min_dates, with an abstract "d is the date stored at (j, c)" *)
Section MinDates.
  Variable Lc : option Z -> Z -> Z -> Prop.
  Definition LB (b : option Z * Z * Z) : Prop := fst (fst b) = None \/ Lc (fst (fst b)) (snd (fst b)) (snd b).
  Lemma find_min_row_spec : forall row j c0 best,
    (forall n d, nth_error row n = Some d -> Lc d j (c0 + Z.of_nat n)) -> LB best ->
    let r := find_min_row j c0 row best in
    dle (fst (fst r)) (fst (fst best)) /\ Forall (dle (fst (fst r))) row /\ LB r.
  Proof.
    induction row as [|d row IH]; intros j c0 best HL HB; cbn [find_min_row].
    - split; [apply dle_refl|split; [constructor|exact HB]].
    - set (best' := if date_lt d (fst (fst best)) then (d, j, c0) else best).
      assert (HB' : LB best').
      { unfold best'. destruct (date_lt d (fst (fst best))); [|exact HB]. right. cbn. specialize (HL 0%nat d eq_refl). replace (c0 + Z.of_nat 0) with c0 in HL by lia. exact HL. }
      assert (Hd : dle (fst (fst best')) d /\ dle (fst (fst best')) (fst (fst best))).
      { unfold best'. destruct (date_lt d (fst (fst best))) eqn:E; cbn [fst].
        - split; [apply dle_refl|apply date_lt_dle; exact E].
        - split; [apply date_nlt_dle; exact E|apply dle_refl]. }
      destruct (IH j (c0 + 1) best') as (A & B & C).
      + intros n d0 Hn. specialize (HL (S n) d0 Hn). replace (c0 + 1 + Z.of_nat n) with (c0 + Z.of_nat (S n)) by lia. exact HL.
      + exact HB'.
      + split; [eapply dle_trans; [exact A|apply Hd]|]. split; [constructor; [eapply dle_trans; [exact A|apply Hd]|exact B]|exact C].
  Qed.
  Lemma find_min_dates_spec : forall rows j0 best,
    (forall n row, nth_error rows n = Some row -> forall m d, nth_error row m = Some d -> Lc d (j0 + Z.of_nat n) (Z.of_nat m)) -> LB best ->
    let r := find_min_dates j0 rows best in
    dle (fst (fst r)) (fst (fst best)) /\ Forall (Forall (dle (fst (fst r)))) rows /\ LB r.
  Proof.
    induction rows as [|row rows IH]; intros j0 best HL HB; cbn [find_min_dates].
    - split; [apply dle_refl|split; [constructor|exact HB]].
    - destruct (find_min_row_spec row j0 0 best) as (A1 & B1 & C1).
      + intros n d Hn. specialize (HL 0%nat row eq_refl n d Hn). replace (j0 + Z.of_nat 0) with j0 in HL by lia. exact HL.
      + exact HB.
      + destruct (IH (j0 + 1) (find_min_row j0 0 row best)) as (A & B & C).
        * intros n row0 Hn m d Hm. specialize (HL (S n) row0 Hn m d Hm). replace (j0 + 1 + Z.of_nat n) with (j0 + Z.of_nat (S n)) by lia. exact HL.
        * exact C1.
        * split; [eapply dle_trans; eauto|]. split; [|exact C]. constructor; [|exact B].
          eapply Forall_impl; [|exact B1]. intros a Ha. eapply dle_trans; eauto.
  Qed.
End MinDates.

Lemma Idx_updZ (l : list node) nd :
  (forall k x, nth_error l k = Some x -> n_id x = Z.of_nat k + 1) ->
  forall k x, nth_error (updZ l (n_id nd - 1) nd) k = Some x -> n_id x = Z.of_nat k + 1.
Proof.
  intros HI k x Hk. unfold updZ in Hk. destruct (n_id nd - 1 <? 0) eqn:E; [apply (HI _ _ Hk)|]. apply Z.ltb_ge in E.
  destruct (nth_error_upd_cases _ _ _ _ _ Hk) as [[-> ->]|[_ Hk']]; [lia|apply (HI _ _ Hk')].
Qed.

(* invert one bind, with names chosen by the caller *)
Ltac minvn H a s1 E :=
  match type of H with
  | bind ?m ?f ?s = Ok _ => unfold bind in H at 1; destruct (m s) as [[a s1]| |] eqn:E; [|discriminate H|discriminate H]
  end.

Definition DrawsOK (d : draws) : Prop := Forall (fun x => 0 <= x) (d_svc d) /\ Forall (fun x => 0 <= x) (d_arr d).

Section Clock.
  Variable cf : config.

  (* node j has finitely many servers (its next date is the minimum over its servers) *)
  Definition fin (j : Z) : bool :=
    match nthZ (cf_nodes cf) (j - 1) with Some nc => match nc_c nc with Some _ => true | None => false end | None => false end.
  Definition SvOK (t : Z) (sv : server) : Prop := dle (Some t) (sv_next_end sv).
  Definition NodeOK (t : Z) (nd : node) : Prop := fin (n_id nd) = true -> Forall (SvOK t) (n_servers nd).
  Definition Srv (t : Z) (ns : list node) : Prop := forall nd, In nd ns -> NodeOK t nd.
  (* where the arrival node's next date is stored *)
  Definition Loc (a : arrst) : Prop :=
    a_next_date a = None \/
    exists row, nthZ (a_dates a) (a_next_node a - 1) = Some row /\ nthZ row (a_next_cls a) = Some (a_next_date a).
  Definition ArrOK (t : Z) (a : arrst) : Prop :=
    Forall (Forall (dle (Some t))) (a_dates a) /\ Forall (Forall (dle (a_next_date a))) (a_dates a) /\ Loc a.

  (* the invariant during an event executed at time t *)
  Definition K (t : Z) (s : sim) : Prop := now s = t /\ Idx s /\ ArrOK t (arr s) /\ Srv t (nodes s) /\ DrawsOK (dr s).

  Lemma K_same t s s' : now s' = now s -> nodes s' = nodes s -> a_dates (arr s') = a_dates (arr s) ->
    a_next_node (arr s') = a_next_node (arr s) -> a_next_cls (arr s') = a_next_cls (arr s) -> a_next_date (arr s') = a_next_date (arr s) ->
    dr s' = dr s -> K t s -> K t s'.
  Proof.
    intros E1 E2 E3 E4 E5 E6 E7 (A & B & C & D & E). unfold K, Idx, ArrOK, Loc in *. rewrite E1, E2, E3, E4, E5, E6, E7. auto.
  Qed.

  Lemma ArrOK_next t a : ArrOK t a -> dle (Some t) (a_next_date a).
  Proof.
    intros (A & _ & [->|(row & Hr & Hc)]); [exact I|].
    apply nthZ_In in Hr. apply nthZ_In in Hc. rewrite Forall_forall in A. specialize (A _ Hr). rewrite Forall_forall in A. apply (A _ Hc).
  Qed.

  (* ---------- specifications: the action keeps K t and its result satisfies phi ---------- *)
  Definition spec (t : Z) {A} (m : M A) (phi : A -> Prop) : Prop := forall s a s', K t s -> m s = Ok (a, s') -> K t s' /\ phi a.

  Lemma spec_bind t {A B} (m : M A) (f : A -> M B) phi psi :
    spec t m phi -> (forall a, phi a -> spec t (f a) psi) -> spec t (bind m f) psi.
  Proof.
    intros Hm Hf s b s' HK H. unfold bind in H. destruct (m s) as [[a s1]| |] eqn:E; try discriminate.
    destruct (Hm _ _ _ HK E) as [HK1 Hp]. eapply Hf; eauto.
  Qed.
  Lemma spec_bind_keeps t {A B} (m : M A) (f : A -> M B) psi :
    spec t m (fun _ => True) -> (forall a, spec t (f a) psi) -> spec t (bind m f) psi.
  Proof. intros Hm Hf. eapply spec_bind; [exact Hm|]. intros a _. apply Hf. Qed.
  Lemma spec_retI t {A} (a : A) : spec t (ret a) (fun _ => True).
  Proof. intros s a0 s' HK H. inversion H. subst. auto. Qed.
  Lemma spec_fail t {A} e phi : spec t (@fail A e) phi.
  Proof. intros s a s' _ H. discriminate. Qed.
  Lemma spec_gets t {A} (f : sim -> A) : spec t (gets f) (fun _ => True).
  Proof. intros s a s' HK H. inversion H. subst. auto. Qed.
  Lemma spec_gets_now t : spec t (gets now) (fun a => a = t).
  Proof. intros s a s' HK H. inversion H. subst. split; [exact HK|apply HK]. Qed.
  Lemma spec_gets_arr t : spec t (gets arr) (fun a => ArrOK t a).
  Proof. intros s a s' HK H. inversion H. subst. split; [exact HK|apply HK]. Qed.
  Lemma spec_lift t {A} e (o : option A) : spec t (lift e o) (fun a => o = Some a).
  Proof. destruct o as [x|]; intros s a s' HK H; inversion H. subst. auto. Qed.
  Lemma spec_get_node t j : spec t (get_node j) (fun nd => NodeOK t nd /\ n_id nd = j).
  Proof.
    intros s nd s' HK H. apply get_node_spec in H as [-> Hn]. split; [exact HK|].
    destruct HK as (_ & HI & _ & HS & _). split; [apply HS; eapply nthZ_In; eauto|eapply Idx_get; eauto].
  Qed.
  Lemma spec_get_ind t i : spec t (get_ind i) (fun _ => True).
  Proof. intros s a s' HK H. apply ro_get_ind in H. subst. auto. Qed.
  Lemma spec_modify_same t (f : sim -> sim) :
    (forall s, now (f s) = now s /\ nodes (f s) = nodes s /\ a_dates (arr (f s)) = a_dates (arr s) /\
               a_next_node (arr (f s)) = a_next_node (arr s) /\ a_next_cls (arr (f s)) = a_next_cls (arr s) /\
               a_next_date (arr (f s)) = a_next_date (arr s) /\ dr (f s) = dr s) ->
    spec t (modify f) (fun _ => True).
  Proof.
    intros Hf s a s' HK H. unfold modify in H. inversion H. subst. split; [|exact I].
    destruct (Hf s) as (E1 & E2 & E3 & E4 & E5 & E6 & E7). eapply K_same; eauto.
  Qed.
  Lemma spec_put_ind t x : spec t (put_ind x) (fun _ => True).
  Proof. apply spec_modify_same. intros s. repeat split; reflexivity. Qed.
  Lemma spec_del_ind t i : spec t (del_ind i) (fun _ => True).
  Proof. apply spec_modify_same. intros s. repeat split; reflexivity. Qed.
  Lemma spec_log_rec t r : spec t (log_rec r) (fun _ => True).
  Proof. apply spec_modify_same. intros s. repeat split; reflexivity. Qed.
  Lemma spec_put_node t nd : NodeOK t nd -> spec t (put_node nd) (fun _ => True).
  Proof.
    intros Hnd s a s' HK H. unfold put_node, modify in H. inversion H. subst. split; [|exact I].
    destruct HK as (A & B & C & D & E). unfold K. cbn. split; [exact A|]. split; [|split; [exact C|split; [|exact E]]].
    - unfold Idx. cbn. apply Idx_updZ. exact B.
    - intros x Hx. apply In_updZ in Hx as [->|Hx]; [exact Hnd|apply D; exact Hx].
  Qed.
  Lemma spec_draw_svc t : spec t draw_svc (fun st => 0 <= st).
  Proof.
    intros s a s' HK H. unfold draw_svc in H. destruct (d_svc (dr s)) as [|x r] eqn:Ed; inversion H. subst.
    destruct HK as (A & B & C & D & E1 & E2). rewrite Ed in E1. inversion E1; subst. split; [|assumption].
    unfold K. cbn. repeat split; try assumption; apply C.
  Qed.
  Lemma spec_draw_arr t : spec t draw_arr (fun ia => 0 <= ia).
  Proof.
    intros s a s' HK H. unfold draw_arr in H. destruct (d_arr (dr s)) as [|x r] eqn:Ed; inversion H. subst.
    destruct HK as (A & B & C & D & E1 & E2). rewrite Ed in E2. inversion E2; subst. split; [|assumption].
    unfold K. cbn. repeat split; try assumption; apply C.
  Qed.
  Lemma spec_draw_batch t : spec t draw_batch (fun _ => True).
  Proof.
    intros s a s' HK H. unfold draw_batch in H. destruct (d_batch (dr s)) as [|x r] eqn:Ed; inversion H. subst.
    destruct HK as (A & B & C & D & E1 & E2). split; [|exact I]. unfold K. cbn. repeat split; try assumption; apply C.
  Qed.
  Lemma spec_draw_unif t : spec t draw_unif (fun _ => True).
  Proof.
    intros s a s' HK H. unfold draw_unif in H. destruct (d_unif (dr s)) as [|x r] eqn:Ed; inversion H. subst.
    destruct HK as (A & B & C & D & E1 & E2). split; [|exact I]. unfold K. cbn. repeat split; try assumption; apply C.
  Qed.
  Lemma spec_ncfg_of t j : spec t (ncfg_of cf j) (fun nc => nthZ (cf_nodes cf) (j - 1) = Some nc).
  Proof. apply spec_lift. Qed.
  Lemma spec_is_inf t j : spec t (is_inf cf j) (fun _ => True).
  Proof. unfold is_inf. eapply spec_bind; [apply spec_ncfg_of|]. intros nc _. apply spec_retI. Qed.

  (* ---------- writing a node back ---------- *)
  Lemma NodeOK_same t nd nd' : NodeOK t nd -> n_id nd' = n_id nd -> n_servers nd' = n_servers nd -> NodeOK t nd'.
  Proof. unfold NodeOK. intros H -> ->. exact H. Qed.
  Lemma NodeOK_putsv t nd nd' sv : NodeOK t nd -> n_id nd' = n_id nd -> n_servers nd' = put_server_l sv (n_servers nd) ->
    (fin (n_id nd) = true -> SvOK t sv) -> NodeOK t nd'.
  Proof. unfold NodeOK. intros H -> -> Hs Hf. apply Forall_put_server; auto. Qed.
  Lemma SvOK_found t nd sid sv sv' : NodeOK t nd -> find_server sid (n_servers nd) = Some sv -> sv_next_end sv' = sv_next_end sv ->
    fin (n_id nd) = true -> SvOK t sv'.
  Proof.
    intros H Hf He Hfin. unfold SvOK. rewrite He. specialize (H Hfin). rewrite Forall_forall in H. apply (H sv). eapply find_server_In; eauto.
  Qed.

  Ltac nodeok :=
    match goal with
    | H : NodeOK ?t ?nd |- NodeOK ?t _ => solve [ apply (NodeOK_same t nd _ H); reflexivity ]
    | H : NodeOK ?t ?nd |- NodeOK ?t _ =>
      solve [ eapply (NodeOK_putsv t nd _ _ H); [reflexivity|reflexivity|intros _; unfold SvOK; cbn; first [exact I|lia]] ]
    | H : NodeOK ?t ?nd, Hf : find_server _ (n_servers ?nd) = Some ?sv |- NodeOK ?t _ =>
      solve [ eapply (NodeOK_putsv t nd _ _ H); [reflexivity|reflexivity|apply (SvOK_found t nd _ sv _ H Hf); reflexivity] ]
    end.

  Lemma spec_weakenI t {A} (m : M A) phi : spec t m phi -> spec t m (fun _ => True).
  Proof. intros H s a s' HK E. destruct (H _ _ _ HK E). auto. Qed.

  Ltac sp_prim :=
    first [ apply spec_gets_now | apply spec_gets_arr | apply spec_gets | apply spec_lift | apply spec_get_node | apply spec_get_ind
          | apply spec_draw_svc | apply spec_draw_arr | apply spec_draw_batch | apply spec_draw_unif | apply spec_ncfg_of ].
  Ltac sp_intro :=
    let a := fresh "v" in let H := fresh "F" in
    intros a H; cbv beta in H;
    try match type of H with _ /\ _ => let H1 := fresh "F" in let H2 := fresh "F" in destruct H as [H1 H2] end;
    try match type of H with a = _ => subst a end.
  Ltac sp1 :=
    first
      [ apply spec_retI | apply spec_fail | apply spec_put_ind | apply spec_del_ind | apply spec_log_rec | apply spec_is_inf
      | (apply spec_put_node; nodeok)
      | (apply spec_modify_same; intros ?; repeat split; reflexivity)
      | (eapply spec_bind; [sp_prim|sp_intro])
      | (eapply spec_bind_keeps; [|intros ?])
      | (eapply spec_weakenI; sp_prim)
      | match goal with
        | |- spec _ (if ?b then _ else _) _ => destruct b
        | |- spec _ (match ?x with _ => _ end) _ => destruct x
        end ].

  Lemma k_choice_uniform t {A} (l : list A) : spec t (choice_uniform l) (fun _ => True).
  Proof. unfold choice_uniform. repeat sp1. Qed.
  Lemma k_choice_weighted t den P : spec t (choice_weighted den P) (fun _ => True).
  Proof. unfold choice_weighted. repeat sp1. Qed.
  Lemma k_choose_next_customer t nd : spec t (choose_next_customer cf nd) (fun _ => True).
  Proof. unfold choose_next_customer. repeat first [apply k_choice_uniform | sp1]. Qed.
  Lemma k_start_service t j i srv : spec t (start_service j i srv) (fun _ => True).
  Proof. unfold start_service. destruct srv as [sv|]; repeat sp1. Qed.
  Lemma k_bsip_accept t j i : spec t (begin_service_if_possible_accept cf j i) (fun _ => True).
  Proof. unfold begin_service_if_possible_accept. repeat first [apply k_choose_next_customer | apply k_start_service | sp1]. Qed.
  Lemma k_accept t j x : spec t (accept cf j x) (fun _ => True).
  Proof. unfold accept. repeat first [apply k_bsip_accept | sp1]. Qed.
  Lemma k_exit_accept t x c : spec t (exit_accept x c) (fun _ => True).
  Proof. unfold exit_accept. repeat sp1. Qed.
  Lemma k_write_individual_record t j x : spec t (write_individual_record cf j x) (fun _ => True).
  Proof. unfold write_individual_record. repeat sp1. Qed.
  Lemma k_write_br_record t j x ty : spec t (write_br_record j x ty) (fun _ => True).
  Proof. unfold write_br_record. repeat sp1. Qed.
  Lemma k_bsip_release t j freed : spec t (begin_service_if_possible_release cf j freed) (fun _ => True).
  Proof. unfold begin_service_if_possible_release. repeat first [apply k_choose_next_customer | apply k_start_service | sp1]. Qed.
  Lemma k_block_individual t j i d : spec t (block_individual j i d) (fun _ => True).
  Proof. unfold block_individual. repeat sp1. Qed.
  Lemma k_release t : forall f j i d, spec t (release cf f j i d) (fun _ => True).
  Proof.
    induction f as [|f IH]; intros j i d; cbn [release]; [intros s a s' _ H; discriminate|].
    repeat first [ apply IH | apply k_write_individual_record | apply k_bsip_release | apply k_exit_accept | apply k_accept | sp1 ].
  Qed.
  Lemma k_finish_service t j : spec t (finish_service cf j) (fun _ => True).
  Proof.
    unfold finish_service.
    repeat first [ apply k_release | apply k_block_individual | apply k_choice_uniform | apply k_choice_weighted | sp1 ].
  Qed.
  Lemma k_sys_population t : spec t sys_population (fun _ => True).
  Proof. unfold sys_population. repeat sp1. Qed.
  Lemma k_release_individual t j x : spec t (release_individual cf j x) (fun _ => True).
  Proof.
    unfold release_individual.
    repeat first [ apply k_sys_population | apply k_write_br_record | apply k_exit_accept | apply k_accept | sp1 ].
  Qed.
  Lemma k_batch_loop t : forall n j c p, spec t (batch_loop cf n j c p) (fun _ => True).
  Proof.
    induction n as [|n IH]; intros j c p; cbn [batch_loop]; [apply spec_retI|].
    repeat first [ apply IH | apply k_release_individual | sp1 ].
  Qed.

  (* ---------- the arrival node: the executed stream's date moves forward by a draw >= 0 and the minimum is recomputed ---------- *)
  Lemma ArrOK_recompute t dates a d j c : Forall (Forall (dle (Some t))) dates -> find_min_dates 1 dates (None, 0, 0) = (d, j, c) ->
    ArrOK t (a <| a_dates := dates |> <| a_next_node := j |> <| a_next_cls := c |> <| a_next_date := d |>).
  Proof.
    intros HD E.
    pose proof (find_min_dates_spec (fun d j c => exists row, nthZ dates (j - 1) = Some row /\ nthZ row c = Some d) dates 1 (None, 0, 0)) as HS.
    cbv zeta in HS. rewrite E in HS. cbn [fst snd] in HS. destruct HS as (_ & B & C).
    - intros n row Hn m d0 Hm. exists row. split.
      + unfold nthZ. replace (1 + Z.of_nat n - 1) with (Z.of_nat n) by lia. destruct (Z.of_nat n <? 0) eqn:E0; [apply Z.ltb_lt in E0; lia|]. rewrite Nat2Z.id. exact Hn.
      + unfold nthZ. destruct (Z.of_nat m <? 0) eqn:E0; [apply Z.ltb_lt in E0; lia|]. rewrite Nat2Z.id. exact Hm.
    - left. reflexivity.
    - unfold ArrOK, Loc. cbn. split; [exact HD|split; [exact B|]]. unfold LB in C. cbn [fst snd] in C. exact C.
  Qed.

  Lemma k_set_dates t j c row new : Forall (dle (Some t)) row -> dle (Some t) new ->
    spec t (modify (fun s => s <| arr := arr s <| a_dates := updZ (a_dates (arr s)) (j - 1) (updZ row c new) |> |>) ;;; find_next_event_date) (fun _ => True).
  Proof.
    intros Hrow Hnew s a s' HK H. unfold bind, modify, find_next_event_date in H. inversion H. subst. clear H. split; [|exact I].
    destruct HK as (A & B & C & D & E).
    set (dates := updZ (a_dates (arr s)) (j - 1) (updZ row c new)).
    assert (HD : Forall (Forall (dle (Some t))) dates).
    { apply Forall_forall. intros r Hr. apply In_updZ in Hr as [->|Hr].
      - apply Forall_forall. intros x Hx. apply In_updZ in Hx as [->|Hx]; [exact Hnew|]. rewrite Forall_forall in Hrow. apply Hrow; exact Hx.
      - destruct C as (C & _). rewrite Forall_forall in C. apply C; exact Hr. }
    cbn [arr a_dates set]. fold dates.
    destruct (find_min_dates 1 dates (None, 0, 0)) as [[d jj] cc] eqn:Em.
    unfold K. cbn. split; [exact A|]. split; [exact B|]. split; [|split; [exact D|exact E]].
    exact (ArrOK_recompute t dates (arr s) d jj cc HD Em).
  Qed.

  Lemma k_arrival_have_event t : spec t (arrival_have_event cf) (fun _ => True).
  Proof.
    unfold arrival_have_event.
    eapply spec_bind; [sp_prim|sp_intro].
    eapply spec_bind; [sp_prim|sp_intro].
    eapply spec_bind_keeps; [repeat sp1|intros ?].
    eapply spec_bind; [sp_prim|sp_intro].
    eapply spec_bind_keeps; [apply k_batch_loop|intros ?].
    eapply spec_bind; [sp_prim|sp_intro].
    eapply spec_bind; [sp_prim|sp_intro].
    eapply spec_bind; [sp_prim|sp_intro].
    eapply spec_bind; [sp_prim|sp_intro].
    apply k_set_dates.
    - match goal with HA : ArrOK t ?a', Hr : nthZ (a_dates ?a') _ = Some ?row |- Forall _ ?row =>
        destruct HA as (A & _); rewrite Forall_forall in A; apply A; eapply nthZ_In; exact Hr end.
    - match goal with HA : ArrOK t ?a', Hr : nthZ (a_dates ?a') _ = Some ?row, Ho : nthZ ?row _ = Some ?old, Hia : 0 <= ?ia |- dle _ (match ?old with _ => _ end) =>
        destruct HA as (A & _); rewrite Forall_forall in A; specialize (A _ (nthZ_In _ _ _ Hr)); rewrite Forall_forall in A;
        specialize (A _ (nthZ_In _ _ _ Ho)); destruct old as [o|]; cbn in *; [lia|exact I] end.
  Qed.

  (* ---------- every node recomputes its next date ---------- *)
  Definition Fresh (t : Z) (nd : node) : Prop :=
    dle (Some t) (n_next_date nd) /\
    (fin (n_id nd) = true -> Forall (fun sv => dle (n_next_date nd) (sv_next_end sv)) (n_servers nd)).
  Definition U (t : Z) (P : Z -> Prop) (s : sim) : Prop := forall nd, In nd (nodes s) -> P (n_id nd) -> Fresh t nd.

  Lemma is_inf_spec j s b s' : is_inf cf j s = Ok (b, s') -> s' = s /\ fin j = negb b.
  Proof.
    unfold is_inf, ncfg_of, bind, lift, fin. destruct (nthZ (cf_nodes cf) (j - 1)) as [nc|]; cbn; intros H; inversion H. subst.
    split; [reflexivity|]. destruct (nc_c nc); reflexivity.
  Qed.

  Lemma une_spec t j P s s' : K t s -> U t P s -> update_next_event_date cf j s = Ok (tt, s') ->
    K t s' /\ U t (fun x => x = j \/ P x) s' /\ map n_id (nodes s') = map n_id (nodes s).
  Proof.
    intros HK HU H. unfold update_next_event_date in H.
    minvn H nd s1 E. apply get_node_spec in E as [-> Hn].
    minvn H inf s1 E. apply is_inf_spec in E as [-> Hfin].
    minvn H t0 s1 E. apply gets_spec in E as [-> ->].
    minvn H il s1 E. apply gets_spec in E as [-> ->].
    destruct (if inf then scan_inds (now s) (all_individuals nd) (inds s) None [] else scan_servers (n_servers nd) None []) as [d l] eqn:Es.
    pose proof HK as (Hnow & HI & _ & HS & _).
    pose proof (Idx_get _ _ _ HI Hn) as Hid.
    pose proof (HS nd (nthZ_In _ _ _ Hn)) as Hnd.
    set (nd' := nd <| n_next_date := d |> <| n_next_inds := l |>) in *.
    assert (HF : Fresh t nd').
    { unfold Fresh, nd'. cbn. destruct inf; cbn in Hfin.
      - split; [|rewrite Hid, Hfin; discriminate]. rewrite <- Hnow. eapply scan_inds_ge; [exact Es|exact I].
      - destruct (scan_servers_spec _ _ _ _ _ Es) as (_ & B & C). split; [|intros _; exact B].
        destruct C as [->|(sv & Hin & ->)]; [exact I|]. pose proof Hnd as Hnd2. unfold NodeOK in Hnd2. rewrite Hid in Hnd2. specialize (Hnd2 Hfin). rewrite Forall_forall in Hnd2. apply (Hnd2 sv Hin). }
    assert (Hok : NodeOK t nd') by (apply (NodeOK_same t nd nd' Hnd); reflexivity).
    split; [exact (proj1 (spec_put_node t nd' Hok s tt s' HK H))|].
    unfold put_node, modify in H. inversion H. subst s'. clear H. cbn [nodes set].
    destruct (nthZ_nat _ _ _ Hn) as (k0 & Hk0 & Hnk).
    change (n_id nd') with (n_id nd). rewrite Hid, Hk0, updZ_nat. cbn. split.
    - intros x Hx Hp. apply In_nth_error in Hx as [k Hk].
      destruct (nth_error_upd_cases _ _ _ _ _ Hk) as [[_ ->]|[Hne Hk']]; [exact HF|].
      apply (HU x (nth_error_In _ _ Hk')). destruct Hp as [Hp|Hp]; [|exact Hp].
      specialize (HI _ _ Hk'). lia.
    - rewrite upd_map. apply upd_same. rewrite nth_error_map, Hnk. reflexivity.
  Qed.

  Lemma update_all_spec t : forall js P s s', K t s -> U t P s -> update_all cf js s = Ok (tt, s') ->
    K t s' /\ U t (fun x => In x js \/ P x) s' /\ map n_id (nodes s') = map n_id (nodes s).
  Proof.
    induction js as [|j r IH]; intros P s s' HK HU H; cbn [update_all] in H.
    - inversion H. subst. split; [exact HK|split; [|reflexivity]]. intros nd Hin [[]|Hp]. apply HU; assumption.
    - minvn H u s1 E. destruct u. destruct (une_spec t j P s s1 HK HU E) as (K1 & U1 & M1).
      destruct (IH _ _ _ K1 U1 H) as (K2 & U2 & M2). split; [exact K2|split; [|congruence]].
      intros nd Hin Hp. apply U2; [exact Hin|]. destruct Hp as [[<-|Hp]|Hp]; auto.
  Qed.

  (* ---------- the invariant between events ---------- *)
  Definition dates_of (s : sim) : list (option Z) := a_next_date (arr s) :: map n_next_date (nodes s).
  Definition Nxt (t : Z) (ns : list node) : Prop := forall nd, In nd ns -> dle (Some t) (n_next_date nd).
  (* the active node's date is the clock (or nothing at all is scheduled) *)
  Definition Act (s : sim) : Prop :=
    0 <= next_active s /\
    exists d, nth_error (dates_of s) (Z.to_nat (next_active s)) = Some d /\
              (d = Some (now s) \/ (d = None /\ Forall (fun x => x = None) (dates_of s))).
  Definition Clk (s : sim) : Prop :=
    Idx s /\ ArrOK (now s) (arr s) /\ Srv (now s) (nodes s) /\ Nxt (now s) (nodes s) /\ Act s.

  Lemma pick_spec (cands : list Z) s k s1 :
    (match cands with [] => fail E_Index | [a] => ret a | l => choice_uniform l end) s = Ok (k, s1) ->
    In k cands /\ now s1 = now s /\ nodes s1 = nodes s /\ arr s1 = arr s.
  Proof.
    assert (G : forall l, choice_uniform l s = Ok (k, s1) -> In k l /\ now s1 = now s /\ nodes s1 = nodes s /\ arr s1 = arr s).
    { intros l H. unfold choice_uniform, bind, draw_unif in H. destruct (d_unif (dr s)) as [|u r]; [discriminate|].
      destruct (nth_error l (rc_uniform (length l) u)) as [x|] eqn:En; cbn in H; inversion H. subst.
      split; [eapply nth_error_In; exact En|]. repeat split; reflexivity. }
    destruct cands as [|a [|b r]]; [discriminate| |apply G].
    intros H. inversion H. subst. split; [left; reflexivity|]. repeat split; reflexivity.
  Qed.

  Lemma fnan_spec t s s' : K t s -> (forall nd, In nd (nodes s) -> Fresh t nd) -> find_next_active_node s = Ok (tt, s') ->
    Clk s' /\ t <= now s'.
  Proof.
    intros HK HF H. unfold find_next_active_node in H.
    minvn H sg s1 E. apply gets_spec in E as [-> ->].
    destruct (scan_active 0 (a_next_date (arr s) :: map n_next_date (nodes s)) None [] true) as [d cands] eqn:Es.
    minvn H k s0 E. apply pick_spec in E as (Hk & En & Enodes & Earr).
    unfold modify in H. inversion H. subst s'. clear H.
    destruct HK as (Hnow & HI & HA & HS & _).
    fold (dates_of s) in Es. destruct (scan_active_spec _ _ _ _ _ _ _ Es) as (_ & B & C).
    destruct (C k Hk) as [[[] _]|(n & Hkn & Hn)].
    assert (Hds : forall x, In x (dates_of s) -> dle (Some t) x).
    { intros x [<-|Hx]; [apply ArrOK_next; exact HA|]. apply in_map_iff in Hx as (nd & <- & Hin). apply (HF nd Hin). }
    set (t' := match d with Some x => x | None => now s0 end).
    assert (G : forall x, In x (dates_of s) -> dle (Some t') x).
    { intros x Hx. rewrite Forall_forall in B. specialize (B x Hx). unfold t'. destruct d as [e|]; [exact B|]. apply dle_None in B. subst x. exact I. }
    assert (Ht : t <= t').
    { specialize (Hds d (nth_error_In _ _ Hn)). unfold t'. destruct d as [e|]; [exact Hds|]. rewrite En, Hnow. lia. }
    assert (Hd : d = Some t' \/ (d = None /\ Forall (fun x => x = None) (dates_of s))).
    { unfold t'. destruct d as [e|]; [left; reflexivity|right; split; [reflexivity|]]. eapply Forall_impl; [|exact B]. intros x Hx. apply dle_None; exact Hx. }
    assert (Hdates : dates_of (s0 <| next_active := k |> <| now := t' |>) = dates_of s) by (unfold dates_of; cbn; rewrite Enodes, Earr; reflexivity).
    split; [|cbn; exact Ht].
    unfold Clk. split; [|split; [|split; [|split]]].
    - unfold Idx. cbn. rewrite Enodes. exact HI.
    - cbn. rewrite Earr. destruct HA as (A1 & A2 & A3). split; [|split; [exact A2|exact A3]].
      eapply Forall_impl; [|exact A2]. intros row Hrow. eapply Forall_impl; [|exact Hrow]. intros x Hx.
      eapply dle_trans; [|exact Hx]. apply G. left. reflexivity.
    - cbn. rewrite Enodes. intros nd Hin Hfin. destruct (HF nd Hin) as (_ & F2). specialize (F2 Hfin).
      eapply Forall_impl; [|exact F2]. intros sv Hsv. unfold SvOK. eapply dle_trans; [|exact Hsv]. apply G. right. apply in_map. exact Hin.
    - cbn. rewrite Enodes. intros nd Hin. apply G. right. apply in_map. exact Hin.
    - unfold Act. rewrite Hdates. cbn [next_active now set]. cbn. split; [lia|]. exists d. split; [|exact Hd].
      rewrite Hkn. replace (Z.to_nat (0 + Z.of_nat n)) with n by lia. exact Hn.
  Qed.

  Lemma Clk_K s : Clk s -> DrawsOK (dr s) -> K (now s) s.
  Proof. intros (A & B & C & _ & _) D. unfold K. auto. Qed.

  (* ---------- T2 for C02: one event ---------- *)
  Theorem event_step_clk s s' : Clk s -> DrawsOK (dr s) -> event_step cf s = Ok (tt, s') -> Clk s' /\ now s <= now s'.
  Proof.
    intros HC HD H. pose proof (Clk_K s HC HD) as HK. set (t := now s) in *. clearbody t. clear HC HD.
    unfold event_step in H.
    minvn H u0 s0 E.
    assert (K0 : K t s0) by (unfold modify in E; inversion E; eapply K_same; [..|exact HK]; reflexivity). clear E HK.
    minvn H k sk E. apply gets_spec in E as [-> ->].
    minvn H u1 s1 E.
    assert (K1 : K t s1).
    { destruct (next_active s0 =? 0); [exact (proj1 (k_arrival_have_event t _ _ _ K0 E))|exact (proj1 (k_finish_service t _ _ _ _ K0 E))]. }
    clear E K0.
    minvn H ns sn E. apply gets_spec in E as [-> ->].
    minvn H u2 s2 E. destruct u2.
    destruct (update_all_spec t _ (fun _ => False) _ _ K1 ltac:(intros nd _ []) E) as (K2 & U2 & M2).
    eapply fnan_spec; [exact K2| |exact H].
    intros nd Hin. apply (U2 nd Hin). left. rewrite <- M2. apply in_map. exact Hin.
  Qed.

  Lemma Clk_dr s d : Clk s -> Clk (s <| dr := d |>).
  Proof. intros H. exact H. Qed.

  (* ---------- any number of events, each with its own draws ---------- *)
  Theorem run_many_clk : forall ds s s', Clk s -> Forall DrawsOK ds -> run_many cf s ds = Ok s' -> Clk s' /\ now s <= now s'.
  Proof.
    induction ds as [|d r IH]; intros s s' HC HD H; cbn [run_many] in H; [inversion H; subst; split; [exact HC|lia]|].
    destruct (event_step cf (s <| dr := d |>)) as [[u s1]| |] eqn:E; try discriminate. destruct u.
    inversion HD as [|? ? Hd Hr]; subst.
    destruct (event_step_clk _ _ (Clk_dr s d HC) Hd E) as [C1 L1]. cbn in L1.
    destruct (IH _ _ C1 Hr H) as [C2 L2]. split; [exact C2|lia].
  Qed.

  (* the clock read after any prefix of a run is at most the clock read later *)
  Corollary run_many_monotone : forall ds1 ds2 s s1 s2, Clk s -> Forall DrawsOK ds1 -> Forall DrawsOK ds2 ->
    run_many cf s ds1 = Ok s1 -> run_many cf s1 ds2 = Ok s2 -> now s <= now s1 <= now s2.
  Proof.
    intros ds1 ds2 s s1 s2 HC H1 H2 R1 R2. destruct (run_many_clk _ _ _ HC H1 R1) as [C1 L1].
    destruct (run_many_clk _ _ _ C1 H2 R2) as [_ L2]. lia.
  Qed.

  (* ---------- the invariant in the words of the property ---------- *)
  Definition nothing_scheduled (s : sim) : Prop := a_next_date (arr s) = None /\ forall nd, In nd (nodes s) -> n_next_date nd = None.

  Theorem Clk_means s : Clk s ->
    (* no arrival is scheduled in the past *)
    (forall row e, In row (a_dates (arr s)) -> In (Some e) row -> now s <= e) /\
    (* the arrival node's next date is the earliest arrival date, and a_next_node / a_next_cls say where it is stored *)
    (forall row d, In row (a_dates (arr s)) -> In d row -> dle (a_next_date (arr s)) d) /\ Loc (arr s) /\
    (* no node's next event is in the past *)
    (forall nd e, In nd (nodes s) -> n_next_date nd = Some e -> now s <= e) /\
    (* no end of service is scheduled in the past (nodes with finitely many servers) *)
    (forall nd sv e, In nd (nodes s) -> fin (n_id nd) = true -> In sv (n_servers nd) -> sv_next_end sv = Some e -> now s <= e) /\
    (* the event that is executed next is scheduled exactly at the current time (unless nothing at all is scheduled) *)
    (next_active s = 0 -> a_next_date (arr s) = Some (now s) \/ nothing_scheduled s) /\
    (next_active s <> 0 -> exists nd, nth_error (nodes s) (Z.to_nat (next_active s - 1)) = Some nd /\ n_id nd = next_active s /\
                                     (n_next_date nd = Some (now s) \/ nothing_scheduled s)).
  Proof.
    intros (HI & (A1 & A2 & A3) & HS & HN & (H0 & d & Hd & Hact)).
    assert (Hno : Forall (fun x => x = None) (dates_of s) -> nothing_scheduled s).
    { intros HF. unfold dates_of in HF. inversion HF as [|? ? Ha Hr]; subst. split; [exact Ha|]. intros nd Hin. rewrite Forall_forall in Hr. apply Hr. apply in_map. exact Hin. }
    split; [|split; [|split; [exact A3|split; [|split; [|split]]]]].
    - intros row e Hr He. rewrite Forall_forall in A1. specialize (A1 _ Hr). rewrite Forall_forall in A1. apply (A1 _ He).
    - intros row x Hr Hx. rewrite Forall_forall in A2. specialize (A2 _ Hr). rewrite Forall_forall in A2. apply (A2 _ Hx).
    - intros nd e Hin He. specialize (HN nd Hin). rewrite He in HN. exact HN.
    - intros nd sv e Hin Hfin Hsv He. specialize (HS nd Hin Hfin). rewrite Forall_forall in HS. specialize (HS sv Hsv). unfold SvOK in HS. rewrite He in HS. exact HS.
    - intros Hz. rewrite Hz in Hd. cbn in Hd. injection Hd as <-. destruct Hact as [Hx|[Hx Hall]]; [left; exact Hx|right; apply Hno; exact Hall].
    - intros Hnz. unfold dates_of in Hd. replace (Z.to_nat (next_active s)) with (S (Z.to_nat (next_active s - 1))) in Hd by lia. cbn [nth_error] in Hd.
      rewrite nth_error_map in Hd. destruct (nth_error (nodes s) (Z.to_nat (next_active s - 1))) as [nd|] eqn:En; [|discriminate]. cbn in Hd. injection Hd as <-.
      exists nd. split; [reflexivity|]. split; [rewrite (HI _ _ En); lia|].
      destruct Hact as [Hx|[Hx Hall]]; [left; exact Hx|right; apply Hno; exact Hall].
  Qed.

  (* ---------- an executable test of the invariant ---------- *)
  Definition dnoneb (d : option Z) : bool := match d with None => true | Some _ => false end.
  Definition loc_b (a : arrst) : bool :=
    match a_next_date a with
    | None => true
    | Some e => match nthZ (a_dates a) (a_next_node a - 1) with
                | Some row => match nthZ row (a_next_cls a) with Some d => date_eqb d (Some e) | None => false end
                | None => false end
    end.
  Definition clk_b (s : sim) : bool :=
    idx_b 1 (nodes s)
    && forallb (forallb (dleb (Some (now s)))) (a_dates (arr s))
    && forallb (forallb (dleb (a_next_date (arr s)))) (a_dates (arr s))
    && loc_b (arr s)
    && forallb (fun nd => dleb (Some (now s)) (n_next_date nd)
                          && (negb (fin (n_id nd)) || forallb (fun sv => dleb (Some (now s)) (sv_next_end sv)) (n_servers nd))) (nodes s)
    && (0 <=? next_active s)
    && match nth_error (dates_of s) (Z.to_nat (next_active s)) with
       | Some d => date_eqb d (Some (now s)) || (dnoneb d && forallb dnoneb (dates_of s))
       | None => false
       end.

  Lemma forallb2_dle a (l : list (list (option Z))) : forallb (forallb (dleb a)) l = true -> Forall (Forall (dle a)) l.
  Proof.
    intros H. apply Forall_forall. intros row Hr. apply Forall_forall. intros x Hx.
    rewrite forallb_forall in H. specialize (H _ Hr). rewrite forallb_forall in H. apply dleb_dle. apply (H _ Hx).
  Qed.

  Theorem clk_b_sound s : clk_b s = true -> Clk s.
  Proof.
    unfold clk_b. intros H.
    apply andb_true_iff in H as [H H7]. apply andb_true_iff in H as [H H6]. apply andb_true_iff in H as [H H5].
    apply andb_true_iff in H as [H H4]. apply andb_true_iff in H as [H H3]. apply andb_true_iff in H as [H1 H2].
    rewrite forallb_forall in H5.
    unfold Clk. split; [|split; [|split; [|split]]].
    - intros k nd Hk. rewrite (idx_b_spec _ _ H1 k nd Hk). lia.
    - split; [apply forallb2_dle; exact H2|split; [apply forallb2_dle; exact H3|]].
      unfold Loc. unfold loc_b in H4. destruct (a_next_date (arr s)) as [e|]; [right|left; reflexivity].
      destruct (nthZ (a_dates (arr s)) (a_next_node (arr s) - 1)) as [row|]; [|discriminate]. exists row. split; [reflexivity|].
      destruct (nthZ row (a_next_cls (arr s))) as [d|]; [|discriminate]. apply date_eqb_eq in H4. rewrite H4. reflexivity.
    - intros nd Hin Hfin. specialize (H5 nd Hin). apply andb_true_iff in H5 as [_ H5]. rewrite Hfin in H5. cbn in H5.
      apply Forall_forall. intros sv Hsv. rewrite forallb_forall in H5. apply dleb_dle. apply (H5 sv Hsv).
    - intros nd Hin. specialize (H5 nd Hin). apply andb_true_iff in H5 as [H5 _]. apply dleb_dle. exact H5.
    - unfold Act. split; [apply Z.leb_le; exact H6|].
      destruct (nth_error (dates_of s) (Z.to_nat (next_active s))) as [d|]; [|discriminate]. exists d. split; [reflexivity|].
      apply orb_true_iff in H7 as [H7|H7]; [left; apply date_eqb_eq; exact H7|right].
      apply andb_true_iff in H7 as [Ha Hb]. split; [destruct d; [discriminate|reflexivity]|].
      apply Forall_forall. intros x Hx. rewrite forallb_forall in Hb. specialize (Hb x Hx). destruct x; [discriminate|reflexivity].
  Qed.
End Clock.

(* ---------- non-vacuity: one single-server node with a customer in service until 5, next arrival at 7, clock at 5 ---------- *)
Definition ex_cf : config := mkCfg 1 [mkNcfg (Some 1) None None 0] [0] 1 None [[[0]]] [[None]].
Definition ex_ind : ind := mkInd 1 0 0 0 0 0 (Some 1) (Some 3) (Some 3) (Some 2) (Some 5) None false (Some 1) None (Some 0) None 0.
Definition ex_node : node := mkNode 1 1 1 [[1]] [mkServer 1 (Some 1) true (Some 5) 0 None 0] [] 0 (Some 5) [1].
Definition ex_sim : sim := mkSim 5 1 (mkArr 1 1 [[Some 7]] 1 0 (Some 7)) [ex_node] [] 0 0 [ex_ind] (mkDraws [] [] [] []) [].
Example ex_clk : Clk ex_cf ex_sim.
Proof. apply clk_b_sound. vm_compute. reflexivity. Qed.
(* the model runs from it: the service ends at 5 (customer leaves), then the arrival at 7 is served for 4 and the next one is due at 10 *)
Example ex_run : option_map (fun s => (now s, next_active s)) (match run_many ex_cf ex_sim [mkDraws [] [] [] []; mkDraws [3] [1] [4] []] with Ok s => Some s | _ => None end) = Some (10, 0).
Proof. vm_compute. reflexivity. Qed.

Print Assumptions event_step_clk.
Print Assumptions run_many_clk.
Print Assumptions run_many_monotone.
Print Assumptions Clk_means.
Print Assumptions clk_b_sound.
Print Assumptions ex_clk.
